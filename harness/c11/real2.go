//go:build verif

package c11

// Kinds up2 and gs2 (thorough tier): TWO REAL MOSN PROCESSES, end to end.
//
// The binary is built once per run from $VERIF_REPO/cmd/mosn/main (no verif tag). Every case has a private directory
// <run dir>/r2_<pid>_<seq>/ with conf/mosn.json (so MOSN derives logs/, the pid file and - through uds_dir - the
// reconfig.sock / listen.sock / conn.sock paths inside it), an HTTP/1 and a bolt (go-away enabled) proxy listener on
// loopback ports outside the ephemeral range, one cluster per protocol pointing at echo upstreams inside the harness
// (the answer is "tok:<token>" of the request's unique token after the delay the request asks for), a small
// graceful_timeout and --drain-time-s.
//
// up2: the OLD process serves closed-loop load (h1 keep-alive HTTP/1 clients; bp bolt clients that keep their
// connection whatever happens, bg bolt clients that honour a go-away frame: stop using the connection, let the
// requests in flight finish, close, dial again; every bolt connection multiplexes up to `win` requests; upstream
// delays 0..dmax ms so that requests are in flight at every instant; a prober dials a new connection to both ports
// every 25 ms and does one request on it).  The hot upgrade is triggered the way operators do: a second
// `mosn start -c <same config>`, which finds reconfig.sock.  The load runs through the upgrade and 3 s beyond the
// old process's exit.  Observed: requests failed / answered twice or by nothing asked / answered wrongly, refused
// connects, whether the old process exited by itself inside [lo, hi] ms after the trigger, its exit code, whether the
// new process serves afterwards, how many keep-their-connection bolt clients are still on their FIRST connection and
// got answers on it after the old process was gone (handed over), how many go-away honouring clients moved, how many
// HTTP/1 clients were told `Connection: close` and moved.
//
// gs2: one process under the same load; the clients stop issuing, 60 ms later (every request written completely and
// decoded: the known finding about partly received requests is excluded by construction) SIGTERM; every request in
// flight must be answered before the process exits.

import (
	"bufio"
	"bytes"
	"encoding/binary"
	"fmt"
	"io"
	"net"
	"net/http"
	"os"
	"os/exec"
	"path/filepath"
	"runtime"
	"strconv"
	"strings"
	"sync"
	"sync/atomic"
	"syscall"
	"time"

	"verif/harness/hx"
)

// ---------- echo upstreams ----------

type r2Up struct {
	h1, bolt string
	lns      []net.Listener
	mu       sync.Mutex
	seen     map[string]int
	twice    int64
}

func (u *r2Up) arrive(tok string) {
	u.mu.Lock()
	u.seen[tok]++
	if u.seen[tok] > 1 {
		atomic.AddInt64(&u.twice, 1)
	}
	u.mu.Unlock()
}

func r2StartUp() *r2Up {
	u := &r2Up{seen: map[string]int{}}
	listen := func() net.Listener {
		l, err := net.Listen("tcp", "127.0.0.1:0")
		if err != nil {
			panic(err)
		}
		u.lns = append(u.lns, l)
		return l
	}
	hl := listen()
	u.h1 = hl.Addr().String()
	go (&http.Server{Handler: http.HandlerFunc(func(w http.ResponseWriter, r *http.Request) {
		tok := r.Header.Get("X-Tok")
		d, _ := strconv.Atoi(r.Header.Get("X-Delay"))
		io.Copy(io.Discard, r.Body)
		u.arrive(tok)
		time.Sleep(time.Duration(d) * time.Millisecond)
		body := "tok:" + tok
		w.Header().Set("Content-Length", fmt.Sprint(len(body)))
		w.WriteHeader(200)
		w.Write([]byte(body))
	})}).Serve(hl)
	bl := listen()
	u.bolt = bl.Addr().String()
	go func() {
		for {
			c, err := bl.Accept()
			if err != nil {
				return
			}
			go u.serveBolt(c)
		}
	}()
	return u
}

func (u *r2Up) close() {
	for _, l := range u.lns {
		l.Close()
	}
}

func r2BoltHdr(h []byte) map[string]string {
	m := map[string]string{}
	var kv []string
	for len(h) >= 4 {
		n := int(binary.BigEndian.Uint32(h))
		if len(h) < 4+n {
			break
		}
		kv = append(kv, string(h[4:4+n]))
		h = h[4+n:]
	}
	for i := 0; i+1 < len(kv); i += 2 {
		m[kv[i]] = kv[i+1]
	}
	return m
}

func r2HeartbeatAck(id uint32) []byte {
	hb := make([]byte, boltRespHdr)
	hb[0], hb[1], hb[4], hb[9] = 1, 0, 1, 1
	binary.BigEndian.PutUint32(hb[5:], id)
	return hb
}

func (u *r2Up) serveBolt(c net.Conn) {
	defer c.Close()
	br := bufio.NewReader(c)
	var wmu sync.Mutex
	for {
		f, err := readBoltFrame(br)
		if err != nil {
			return
		}
		if f.cmd == 0 {
			if f.typ != 0 {
				wmu.Lock()
				c.Write(r2HeartbeatAck(f.reqID))
				wmu.Unlock()
			}
			continue
		}
		if f.typ != 1 || f.cmd != 1 {
			continue
		}
		h := r2BoltHdr(f.header)
		go func(id uint32) {
			u.arrive(h["x-tok"])
			d, _ := strconv.Atoi(h["x-delay"])
			time.Sleep(time.Duration(d) * time.Millisecond)
			out := boltResponseFrame(id, []byte("tok:"+h["x-tok"]))
			wmu.Lock()
			c.Write(out)
			wmu.Unlock()
		}(f.reqID)
	}
}

func r2BoltRequest(id uint32, tok string, delay int, content []byte) []byte {
	hdr := boltKV("service", "r2.service", "x-tok", tok, "x-delay", strconv.Itoa(delay))
	b := make([]byte, boltReqHdr)
	b[0], b[1], b[4], b[9] = 1, 1, 1, 1
	binary.BigEndian.PutUint16(b[2:], 1)
	binary.BigEndian.PutUint32(b[5:], id)
	binary.BigEndian.PutUint32(b[10:], 10000)
	binary.BigEndian.PutUint16(b[14:], uint16(len(boltClass)))
	binary.BigEndian.PutUint16(b[16:], uint16(len(hdr)))
	binary.BigEndian.PutUint32(b[18:], uint32(len(content)))
	b = append(b, boltClass...)
	b = append(b, hdr...)
	return append(b, content...)
}

// ---------- load ----------

type r2Load struct {
	h1Addr, boltAddr string
	dmax, win        int
	stopIssue        int32
	oldGone          int32
	ok, fail, dup, bad, refused int64
	okH1, okBolt, probes        int64
	inflH1, inflBolt            int64
	wg                          sync.WaitGroup
	nmu                         sync.Mutex
	notes                       []string
}

func (L *r2Load) note(f string, a ...interface{}) {
	L.nmu.Lock()
	if len(L.notes) < 12 {
		L.notes = append(L.notes, time.Now().Format("15:04:05.000 ")+fmt.Sprintf(f, a...))
	}
	L.nmu.Unlock()
}

var r2TokSeq int64

// r2Tok: a token no other request of this harness process carries
func r2Tok() string { return fmt.Sprintf("t%dx%d", os.Getpid(), atomic.AddInt64(&r2TokSeq, 1)) }

func (L *r2Load) token() string { return r2Tok() }

// delay: a third of the requests are answered at once, the others after 100..dmax ms
func (L *r2Load) delay(r *hx.Rng) int {
	if r.Intn(3) == 0 || L.dmax <= 100 {
		return 0
	}
	return 100 + r.Intn(L.dmax-99)
}

func (L *r2Load) stopped() bool { return atomic.LoadInt32(&L.stopIssue) != 0 }

type r2H1Stat struct{ conns, moved int }

func r2H1Request(tok string, delay int, closeIt bool, size int) []byte {
	cl := ""
	if closeIt {
		cl = "Connection: close\r\n"
	}
	return []byte(fmt.Sprintf("POST /r2/%s HTTP/1.1\r\nHost: r2.test\r\nX-Tok: %s\r\nX-Delay: %d\r\n%sContent-Type: text/plain\r\nContent-Length: %d\r\n\r\n%s",
		tok, tok, delay, cl, size, strings.Repeat("b", size)))
}

// r2H1Once: one request on c; returns whether the server announced the close of the connection
func r2H1Once(c net.Conn, br *bufio.Reader, tok string, delay int, closeIt bool, size int) (closing bool, err error) {
	c.SetDeadline(time.Now().Add(15 * time.Second))
	if _, err = c.Write(r2H1Request(tok, delay, closeIt, size)); err != nil {
		return false, fmt.Errorf("write: %v", err)
	}
	resp, err := http.ReadResponse(br, nil)
	if err != nil {
		return false, fmt.Errorf("read: %v", err)
	}
	b, err := io.ReadAll(resp.Body)
	resp.Body.Close()
	if err != nil {
		return false, fmt.Errorf("read body: %v", err)
	}
	if resp.StatusCode != 200 || string(b) != "tok:"+tok {
		return resp.Close, errBadAnswer{fmt.Sprintf("status %d body %.40q want tok:%s", resp.StatusCode, b, tok)}
	}
	return resp.Close, nil
}

type errBadAnswer struct{ s string }

func (e errBadAnswer) Error() string { return e.s }

func (L *r2Load) h1Client(idx int, rng *hx.Rng, st *r2H1Stat) {
	defer L.wg.Done()
	var c net.Conn
	var br *bufio.Reader
	for !L.stopped() {
		if c == nil {
			var err error
			if c, err = net.DialTimeout("tcp", L.h1Addr, 2*time.Second); err != nil {
				atomic.AddInt64(&L.refused, 1)
				L.note("h1 client %d dial: %v", idx, err)
				c = nil
				time.Sleep(20 * time.Millisecond)
				continue
			}
			br = bufio.NewReader(c)
			st.conns++
		}
		tok, d := L.token(), L.delay(rng)
		atomic.AddInt64(&L.inflH1, 1)
		closing, err := r2H1Once(c, br, tok, d, false, 1+rng.Intn(600))
		atomic.AddInt64(&L.inflH1, -1)
		switch err.(type) {
		case nil:
			atomic.AddInt64(&L.ok, 1)
			atomic.AddInt64(&L.okH1, 1)
		case errBadAnswer:
			atomic.AddInt64(&L.bad, 1)
			L.note("h1 client %d: %v", idx, err)
		default:
			atomic.AddInt64(&L.fail, 1)
			L.note("h1 client %d conn#%d tok %s: %v", idx, st.conns, tok, err)
			c.Close()
			c = nil
			continue
		}
		if closing {
			c.Close()
			c = nil
			st.moved++
		} else if br.Buffered() > 0 { // bytes after a complete response that nobody asked for
			atomic.AddInt64(&L.dup, 1)
			L.note("h1 client %d: %d surplus bytes after the response", idx, br.Buffered())
			c.Close()
			c = nil
		}
		time.Sleep(time.Duration(rng.Intn(15)) * time.Millisecond)
	}
	if c != nil {
		c.Close()
	}
}

type r2BoltStat struct {
	conns, gaMoved, abrupt int
	okAfter                int64 // answers received on the FIRST connection after the old process was gone
}

type r2BoltConn struct {
	c       net.Conn
	first   bool
	mu      sync.Mutex
	out     map[uint32]string
	dead    bool
	closing bool
	goaway  int32
	slots   chan struct{}
	done    chan struct{}
}

func (k *r2BoltConn) outstanding() int {
	k.mu.Lock()
	defer k.mu.Unlock()
	return len(k.out)
}

func (L *r2Load) boltReader(idx int, k *r2BoltConn, st *r2BoltStat) {
	defer close(k.done)
	br := bufio.NewReader(k.c)
	for {
		f, err := readBoltFrame(br)
		if err != nil {
			k.mu.Lock()
			n := len(k.out)
			var toks []string
			for _, t := range k.out {
				toks = append(toks, t)
			}
			k.out = map[uint32]string{}
			k.dead = true
			closing := k.closing
			k.mu.Unlock()
			if n > 0 {
				atomic.AddInt64(&L.fail, int64(n))
				atomic.AddInt64(&L.inflBolt, -int64(n))
				L.note("bolt client %d conn#%d: %v with %d requests in flight (%s)", idx, st.conns, err, n, strings.Join(toks, ","))
			} else if !closing {
				st.abrupt++
			}
			return
		}
		switch {
		case f.typ == 1 && f.cmd == 100: // go-away
			atomic.AddInt32(&k.goaway, 1)
			continue
		case f.cmd == 0: // heartbeat
			if f.typ != 0 {
				k.c.Write(r2HeartbeatAck(f.reqID))
			}
			continue
		case f.typ != 0 || f.cmd != 2:
			atomic.AddInt64(&L.bad, 1)
			L.note("bolt client %d: unexpected frame type %d cmd %d", idx, f.typ, f.cmd)
			continue
		}
		k.mu.Lock()
		tok, ok := k.out[f.reqID]
		delete(k.out, f.reqID)
		k.mu.Unlock()
		if !ok { // an answer to nothing that is outstanding: a duplicate or a stray
			atomic.AddInt64(&L.dup, 1)
			L.note("bolt client %d: answer %d (%.30q) to no outstanding request", idx, f.reqID, f.content)
			continue
		}
		atomic.AddInt64(&L.inflBolt, -1)
		<-k.slots
		if string(f.content) != "tok:"+tok {
			atomic.AddInt64(&L.bad, 1)
			L.note("bolt client %d: answer %d is %.40q want tok:%s", idx, f.reqID, f.content, tok)
			continue
		}
		atomic.AddInt64(&L.ok, 1)
		atomic.AddInt64(&L.okBolt, 1)
		if k.first && atomic.LoadInt32(&L.oldGone) != 0 {
			atomic.AddInt64(&st.okAfter, 1)
		}
	}
}

func (k *r2BoltConn) shut(wait time.Duration) {
	for dl := time.Now().Add(wait); k.outstanding() > 0 && time.Now().Before(dl); {
		time.Sleep(5 * time.Millisecond)
	}
	k.mu.Lock()
	k.closing = true
	k.mu.Unlock()
	k.c.Close()
	<-k.done
}

func (L *r2Load) boltClient(idx int, honor bool, rng *hx.Rng, st *r2BoltStat) {
	defer L.wg.Done()
	var k *r2BoltConn
	var id uint32
	for !L.stopped() {
		if k == nil {
			c, err := net.DialTimeout("tcp", L.boltAddr, 2*time.Second)
			if err != nil {
				atomic.AddInt64(&L.refused, 1)
				L.note("bolt client %d dial: %v", idx, err)
				time.Sleep(20 * time.Millisecond)
				continue
			}
			st.conns++
			k = &r2BoltConn{c: c, first: st.conns == 1, out: map[uint32]string{}, slots: make(chan struct{}, L.win), done: make(chan struct{})}
			go L.boltReader(idx, k, st)
		}
		k.mu.Lock()
		dead := k.dead
		k.mu.Unlock()
		if dead {
			k.c.Close()
			k = nil
			continue
		}
		if honor && atomic.LoadInt32(&k.goaway) > 0 {
			k.shut(10 * time.Second)
			st.gaMoved++
			k = nil
			continue
		}
		select {
		case k.slots <- struct{}{}:
		case <-time.After(20 * time.Millisecond):
			continue
		}
		id++
		tok, d := L.token(), L.delay(rng)
		k.mu.Lock()
		if k.dead {
			k.mu.Unlock()
			continue
		}
		k.out[id] = tok
		k.mu.Unlock()
		atomic.AddInt64(&L.inflBolt, 1)
		k.c.SetWriteDeadline(time.Now().Add(10 * time.Second))
		if _, err := k.c.Write(r2BoltRequest(id, tok, d, bytes.Repeat([]byte("c"), 1+rng.Intn(900)))); err != nil {
			L.note("bolt client %d conn#%d write: %v", idx, st.conns, err)
			k.c.Close() // the reader accounts for everything outstanding, this request included
			<-k.done
			k = nil
			continue
		}
		time.Sleep(time.Duration(rng.Intn(10)) * time.Millisecond)
	}
	if k != nil {
		k.shut(12 * time.Second)
	}
}

// r2BoltOnce: one request on a fresh bolt connection
func r2BoltOnce(addr, tok string) error {
	c, err := net.DialTimeout("tcp", addr, 2*time.Second)
	if err != nil {
		return errRefused{err}
	}
	defer c.Close()
	c.SetDeadline(time.Now().Add(10 * time.Second))
	if _, err := c.Write(r2BoltRequest(1, tok, 0, []byte("p"))); err != nil {
		return err
	}
	br := bufio.NewReader(c)
	for {
		f, err := readBoltFrame(br)
		if err != nil {
			return err
		}
		if f.typ == 0 && f.cmd == 2 {
			if f.reqID != 1 || string(f.content) != "tok:"+tok {
				return errBadAnswer{fmt.Sprintf("bolt answer %d %.40q", f.reqID, f.content)}
			}
			return nil
		}
	}
}

type errRefused struct{ error }

func r2H1Fresh(addr, tok string) error {
	c, err := net.DialTimeout("tcp", addr, 2*time.Second)
	if err != nil {
		return errRefused{err}
	}
	defer c.Close()
	_, err = r2H1Once(c, bufio.NewReader(c), tok, 0, true, 3)
	return err
}

// prober: a new connection every 25 ms, alternately to the two listeners, one request on it
func (L *r2Load) prober() {
	defer L.wg.Done()
	for i := 0; !L.stopped(); i++ {
		var err error
		if i%2 == 0 {
			err = r2H1Fresh(L.h1Addr, L.token())
		} else {
			err = r2BoltOnce(L.boltAddr, L.token())
		}
		atomic.AddInt64(&L.probes, 1)
		switch err.(type) {
		case nil:
			atomic.AddInt64(&L.ok, 1)
		case errRefused:
			atomic.AddInt64(&L.refused, 1)
			L.note("probe %d: connect: %v", i, err)
		case errBadAnswer:
			atomic.AddInt64(&L.bad, 1)
			L.note("probe %d: %v", i, err)
		default:
			atomic.AddInt64(&L.fail, 1)
			L.note("probe %d (%s): %v", i, map[bool]string{true: "h1", false: "bolt"}[i%2 == 0], err)
		}
		time.Sleep(25 * time.Millisecond)
	}
}

// ---------- processes ----------

type r2Proc struct {
	cmd    *exec.Cmd
	exited chan struct{}
	exitAt time.Time
	code   int
}

// r2Spawn starts mosn in its own process group; the starting goroutine keeps its OS thread until the child is gone, so
// that the parent-death signal (the harness itself killed on a timeout) reaches the child reliably.
func r2Spawn(bin, dir, logName string, drainS int) (*r2Proc, error) {
	p := &r2Proc{exited: make(chan struct{})}
	started := make(chan error, 1)
	go func() {
		runtime.LockOSThread()
		cmd := exec.Command(bin, "start", "-c", dir+"/conf/mosn.json", "--drain-time-s", strconv.Itoa(drainS))
		cmd.Env = append(os.Environ(), "HOME="+dir)
		cmd.Dir = dir
		lf, _ := os.Create(filepath.Join(dir, logName))
		cmd.Stdout, cmd.Stderr = lf, lf
		cmd.SysProcAttr = &syscall.SysProcAttr{Setpgid: true, Pdeathsig: syscall.SIGKILL}
		p.cmd = cmd
		err := cmd.Start()
		started <- err
		if err != nil {
			lf.Close()
			return
		}
		cmd.Wait()
		lf.Close()
		p.exitAt = time.Now()
		p.code = cmd.ProcessState.ExitCode()
		close(p.exited)
	}()
	if err := <-started; err != nil {
		return nil, err
	}
	return p, nil
}

func (p *r2Proc) gone() bool {
	select {
	case <-p.exited:
		return true
	default:
		return false
	}
}

// kill the whole process group and reap
func (p *r2Proc) kill() {
	if p == nil || p.cmd == nil || p.cmd.Process == nil {
		return
	}
	if !p.gone() {
		syscall.Kill(-p.cmd.Process.Pid, syscall.SIGKILL)
		p.cmd.Process.Kill()
		select {
		case <-p.exited:
		case <-time.After(5 * time.Second):
		}
	} else {
		syscall.Kill(-p.cmd.Process.Pid, syscall.SIGKILL) // stragglers of the group, if any
	}
}

var r2PortSeq int64

// r2Port: a bindable loopback port below the ephemeral range (never taken by an outgoing connection meanwhile)
func r2Port() int {
	for i := 0; i < 4000; i++ {
		n := atomic.AddInt64(&r2PortSeq, 1)
		p := 20000 + int((int64(os.Getpid())*131+n*17)%12000)
		l, err := net.Listen("tcp", fmt.Sprintf("127.0.0.1:%d", p))
		if err != nil {
			continue
		}
		l.Close()
		return p
	}
	panic("no free port")
}

type r2Case struct {
	kind          string // up2 | gs2
	g             int    // graceful_timeout, ms
	drain         int    // --drain-time-s, seconds
	h1, bp, bg    int    // clients: HTTP/1 keep-alive, bolt keeping the connection, bolt honouring go-away
	win, dmax     int    // multiplexed requests per bolt connection, largest upstream delay (ms)
	lo, hi, sa    int    // up2: the old process must exit in [lo, hi] ms after the trigger; sa = start-up allowance inside hi
}

func (r r2Case) String() string {
	if r.kind == "gs2" {
		return fmt.Sprintf("gs2 drain=%d h1=%d bp=%d win=%d dmax=%d hi=%d", r.drain*1000, r.h1, r.bp, r.win, r.dmax, r.hi)
	}
	return fmt.Sprintf("up2 g=%d drain=%d h1=%d bp=%d bg=%d win=%d dmax=%d lo=%d hi=%d sa=%d", r.g, r.drain*1000, r.h1, r.bp, r.bg, r.win, r.dmax, r.lo, r.hi, r.sa)
}

func r2Config(dir string, r r2Case, u *r2Up, ph, pb, pa int) string {
	return fmt.Sprintf(`{
 "uds_dir":"%s/uds",
 "servers":[{"default_log_path":"%s/logs/default.log","default_log_level":"INFO","graceful_timeout":"%dms",
   "routers":[{"router_config_name":"rh","virtual_hosts":[{"name":"v","domains":["*"],"routers":[{"match":{"prefix":"/"},"route":{"cluster_name":"ch"}}]}]},
              {"router_config_name":"rb","virtual_hosts":[{"name":"v","domains":["*"],"routers":[{"match":{"headers":[{"name":"service","value":".*","regex":true}]},"route":{"cluster_name":"cb"}}]}]}],
   "listeners":[{"name":"lh","address":"127.0.0.1:%d","bind_port":true,
     "filter_chains":[{"filters":[{"type":"proxy","config":{"downstream_protocol":"Http1","upstream_protocol":"Http1","router_config_name":"rh"}}]}]},
    {"name":"lb","address":"127.0.0.1:%d","bind_port":true,
     "filter_chains":[{"filters":[{"type":"proxy","config":{"downstream_protocol":"bolt","upstream_protocol":"bolt","router_config_name":"rb","extend_config":{"enable_bolt_goaway":true}}}]}]}]}],
 "cluster_manager":{"clusters":[{"name":"ch","type":"SIMPLE","lb_type":"LB_RANDOM","hosts":[{"address":"%s"}]},
   {"name":"cb","type":"SIMPLE","lb_type":"LB_RANDOM","hosts":[{"address":"%s"}]}]},
 "admin":{"address":{"socket_address":{"address":"127.0.0.1","port_value":%d}}}
}`, dir, dir, r.g, ph, pb, u.h1, u.bolt, pa)
}

type r2Env struct {
	dir            string
	up             *r2Up
	old            *r2Proc
	L              *r2Load
	h1s            []*r2H1Stat
	bps, bgs       []*r2BoltStat
	h1Addr, bAddr  string
}

// r2Bring starts the upstreams and the (old) process and waits until it serves both protocols and listens on
// reconfig.sock; nil when it did not come up.
func r2Bring(c *hx.Ctx, r r2Case, seq int) *r2Env {
	bin, err := buildMosn()
	if err != nil {
		panic(err)
	}
	wd, _ := os.Getwd()
	e := &r2Env{dir: filepath.Join(wd, fmt.Sprintf("r2_%d_%d", os.Getpid(), seq))}
	os.RemoveAll(e.dir)
	os.MkdirAll(e.dir+"/conf", 0o755)
	e.up = r2StartUp()
	ph, pb, pa := r2Port(), r2Port(), r2Port()
	os.WriteFile(e.dir+"/conf/mosn.json", []byte(r2Config(e.dir, r, e.up, ph, pb, pa)), 0o644)
	e.h1Addr, e.bAddr = fmt.Sprintf("127.0.0.1:%d", ph), fmt.Sprintf("127.0.0.1:%d", pb)
	if e.old, err = r2Spawn(bin, e.dir, "old.out", r.drain); err != nil {
		panic(err)
	}
	up := false
	for dl := time.Now().Add(30 * time.Second); time.Now().Before(dl) && !e.old.gone(); time.Sleep(50 * time.Millisecond) {
		if r2H1Fresh(e.h1Addr, r2Tok()) != nil || r2BoltOnce(e.bAddr, r2Tok()) != nil {
			continue
		}
		if r.kind == "up2" {
			if _, err := os.Stat(e.dir + "/uds/reconfig.sock"); err != nil {
				continue
			}
		}
		up = true
		break
	}
	if !up {
		e.cleanup(false)
		return nil
	}
	e.L = &r2Load{h1Addr: e.h1Addr, boltAddr: e.bAddr, dmax: r.dmax, win: r.win}
	return e
}

func (e *r2Env) startLoad(c *hx.Ctx, r r2Case, probe bool) {
	L := e.L
	for i := 0; i < r.h1; i++ {
		st := &r2H1Stat{}
		e.h1s = append(e.h1s, st)
		L.wg.Add(1)
		go L.h1Client(i, c.Rng.Fork(), st)
	}
	for i := 0; i < r.bp+r.bg; i++ {
		st := &r2BoltStat{}
		if i < r.bp {
			e.bps = append(e.bps, st)
		} else {
			e.bgs = append(e.bgs, st)
		}
		L.wg.Add(1)
		go L.boltClient(i, i >= r.bp, c.Rng.Fork(), st)
	}
	if probe {
		L.wg.Add(1)
		go L.prober()
	}
}

// stopLoad: no new requests; what is still unanswered after `wait` is a failure
func (e *r2Env) stopLoad(wait time.Duration) {
	atomic.StoreInt32(&e.L.stopIssue, 1)
	done := make(chan struct{})
	go func() { e.L.wg.Wait(); close(done) }()
	select {
	case <-done:
	case <-time.After(wait + 16*time.Second):
		e.L.note("clients did not finish")
		atomic.AddInt64(&e.L.fail, 1)
	}
}

func (e *r2Env) cleanup(keep bool) {
	e.old.kill()
	e.up.close()
	if !keep && os.Getenv("C11_KEEP") == "" {
		os.RemoveAll(e.dir)
	}
}

func r2Bucket(c *hx.Ctx, key string, n int64) {
	b := "0"
	switch {
	case n >= 20:
		b = "20+"
	case n >= 8:
		b = "8-19"
	case n >= 3:
		b = "3-7"
	case n >= 1:
		b = "1-2"
	}
	c.Count(key + "=" + b)
}

func (e *r2Env) report(tag string) {
	if os.Getenv("C11_DEBUG") == "" {
		return
	}
	L := e.L
	fmt.Fprintf(os.Stderr, "[%s] ok=%d (h1 %d bolt %d probes %d) fail=%d dup=%d bad=%d refused=%d updup=%d\n", tag, L.ok, L.okH1, L.okBolt, L.probes, L.fail, L.dup, L.bad, L.refused, e.up.twice)
	for _, n := range L.notes {
		fmt.Fprintln(os.Stderr, "   ", n)
	}
}

func runUP2(c *hx.Ctx, r r2Case, seq int) {
	for attempt := 0; ; attempt++ {
		impl := runUP2Once(c, r, seq*10+attempt)
		if impl == "" && attempt < 3 {
			c.Count("up2.restarted")
			continue
		}
		if impl == "" {
			impl = "nostart"
		}
		c.Emit("C11", r.String(), impl)
		c.Count(fmt.Sprintf("up2.h1=%d.bp=%d.bg=%d", r.h1, r.bp, r.bg))
		return
	}
}

func runUP2Once(c *hx.Ctx, r r2Case, seq int) string {
	e := r2Bring(c, r, seq)
	if e == nil {
		return ""
	}
	failed := true
	defer func() { e.cleanup(failed) }()
	L := e.L
	e.startLoad(c, r, true)
	time.Sleep(1500 * time.Millisecond)
	if e.old.gone() {
		e.stopLoad(0)
		return ""
	}
	// ---- the trigger: a second `mosn start -c <same config>`
	r2Bucket(c, "up2.inflight-at-trigger.h1", atomic.LoadInt64(&L.inflH1))
	r2Bucket(c, "up2.inflight-at-trigger.bolt", atomic.LoadInt64(&L.inflBolt))
	bin, _ := buildMosn()
	t0 := time.Now()
	nw, err := r2Spawn(bin, e.dir, "new.out", r.drain)
	if err != nil {
		panic(err)
	}
	defer nw.kill()
	// samples of the requests in flight while the upgrade runs (the old process stops accepting 3 s after the ack,
	// closes the stop channel after the drain time)
	go func() {
		for _, at := range []int{3500, 3000 + r.drain*1000 + 500, 3000 + r.drain*1000 + r.g + 500} {
			time.Sleep(time.Until(t0.Add(time.Duration(at) * time.Millisecond)))
			r2Bucket(c, fmt.Sprintf("up2.inflight-at-%dms.h1", at), atomic.LoadInt64(&L.inflH1))
			r2Bucket(c, fmt.Sprintf("up2.inflight-at-%dms.bolt", at), atomic.LoadInt64(&L.inflBolt))
		}
	}()
	exit := "never"
	select {
	case <-e.old.exited:
		ms := int(e.old.exitAt.Sub(t0) / time.Millisecond)
		switch {
		case ms < r.lo:
			exit = "early"
		case ms > r.hi:
			exit = "late"
		default:
			exit = "intime"
		}
		if os.Getenv("C11_DEBUG") != "" {
			fmt.Fprintf(os.Stderr, "old exited %d ms after the trigger, code %d\n", ms, e.old.code)
		}
	case <-time.After(time.Duration(r.hi+5000) * time.Millisecond):
	}
	atomic.StoreInt32(&L.oldGone, 1)
	code := -3
	if exit != "never" {
		code = e.old.code
		r2Bucket(c, "up2.inflight-at-old-exit.h1", atomic.LoadInt64(&L.inflH1))
		r2Bucket(c, "up2.inflight-at-old-exit.bolt", atomic.LoadInt64(&L.inflBolt))
	}
	time.Sleep(3 * time.Second)
	e.stopLoad(time.Duration(r.dmax) * time.Millisecond)
	newServes := 0
	if !nw.gone() && r2H1Fresh(e.h1Addr, L.token()) == nil && r2BoltOnce(e.bAddr, L.token()) == nil {
		newServes = 1
	}
	handed, gamoved, h1moved := 0, 0, 0
	for _, s := range e.bps {
		if s.conns == 1 && atomic.LoadInt64(&s.okAfter) > 0 {
			handed++
		}
	}
	for _, s := range e.bgs {
		if s.gaMoved > 0 {
			gamoved++
		}
	}
	for _, s := range e.h1s {
		if s.moved > 0 {
			h1moved++
		}
	}
	e.report(r.String())
	r2Bucket(c, "up2.requests-answered.h1", L.okH1)
	r2Bucket(c, "up2.requests-answered.bolt", L.okBolt)
	r2Bucket(c, "up2.new-connections-probed", L.probes)
	dup := L.dup + atomic.LoadInt64(&e.up.twice)
	impl := fmt.Sprintf("fail=%d dup=%d bad=%d refused=%d exit=%s code=%d newserves=%d handed=%d gamoved=%d h1moved=%d",
		L.fail, dup, L.bad, L.refused, exit, code, newServes, handed, gamoved, h1moved)
	failed = L.fail+dup+L.bad+L.refused > 0 || exit != "intime" || newServes != 1
	return impl
}

func runGS2(c *hx.Ctx, r r2Case, seq int) {
	for attempt := 0; ; attempt++ {
		impl := runGS2Once(c, r, seq*10+attempt)
		if impl == "" && attempt < 3 {
			c.Count("gs2.restarted")
			continue
		}
		if impl == "" {
			impl = "nostart"
		}
		c.Emit("C11", r.String(), impl)
		c.Count(fmt.Sprintf("gs2.h1=%d.bp=%d", r.h1, r.bp))
		return
	}
}

func runGS2Once(c *hx.Ctx, r r2Case, seq int) string {
	e := r2Bring(c, r, seq)
	if e == nil {
		return ""
	}
	failed := true
	defer func() { e.cleanup(failed) }()
	L := e.L
	e.startLoad(c, r, false)
	time.Sleep(time.Duration(1200+c.Rng.Intn(600)) * time.Millisecond)
	if e.old.gone() {
		e.stopLoad(0)
		return ""
	}
	// no new requests; whatever is being written is written completely and decoded 60 ms later
	atomic.StoreInt32(&L.stopIssue, 1)
	time.Sleep(60 * time.Millisecond)
	r2Bucket(c, "gs2.inflight-at-signal.h1", atomic.LoadInt64(&L.inflH1))
	r2Bucket(c, "gs2.inflight-at-signal.bolt", atomic.LoadInt64(&L.inflBolt))
	t0 := time.Now()
	e.old.cmd.Process.Signal(syscall.SIGTERM)
	done := make(chan time.Time, 1)
	go func() { L.wg.Wait(); done <- time.Now() }()
	exit, code, exitFirst := "never", -3, 0
	select {
	case <-e.old.exited:
		code = e.old.code
		exit = "intime"
		if int(e.old.exitAt.Sub(t0)/time.Millisecond) > r.hi {
			exit = "late"
		}
	case <-time.After(time.Duration(r.hi+5000) * time.Millisecond):
	}
	select {
	case t := <-done:
		// the clients notice the answers a moment after the process wrote them: "first" only if requests were lost
		if exit != "never" && e.old.exitAt.Before(t) && L.fail > 0 {
			exitFirst = 1
		}
	case <-time.After(20 * time.Second):
		atomic.AddInt64(&L.fail, 1)
		L.note("clients did not finish")
	}
	after := "conn"
	if cl, err := net.DialTimeout("tcp", e.h1Addr, time.Second); err != nil {
		after = "err"
		if strings.Contains(err.Error(), "refused") {
			after = "ref"
		}
	} else {
		cl.Close()
	}
	e.report(r.String())
	dup := L.dup + atomic.LoadInt64(&e.up.twice)
	impl := fmt.Sprintf("fail=%d dup=%d bad=%d exitfirst=%d exit=%s code=%d after=%s", L.fail, dup, L.bad, exitFirst, exit, code, after)
	failed = L.fail+dup+L.bad > 0 || exit != "intime" || code != 0
	return impl
}

// the literal schedule of the hand-over the case's window is derived from (the Lean driver checks the window against
// the regenerated models): 3 s pause after the ack, the drain time, 2 x graceful_timeout + 2 x 15 s read timeout.
func genUP2(c *hx.Ctx, i int) r2Case {
	r := r2Case{kind: "up2", g: []int{3000, 2000, 4000}[(i+int(c.Seed))%3], drain: 1 + (i+int(c.Seed))%2,
		h1: 2 + c.Rng.Intn(3), bp: 1 + c.Rng.Intn(3), bg: 1 + c.Rng.Intn(2), win: 2 + c.Rng.Intn(5), dmax: 300 + 100*c.Rng.Intn(6), sa: 15000}
	r.lo = 3000 + 2*r.g + 30000
	r.hi = r.sa + 3000 + r.drain*1000 + 2*r.g + 30000
	return r
}

func genGS2(c *hx.Ctx, i int) r2Case {
	r := r2Case{kind: "gs2", g: 3000, drain: 3 + c.Rng.Intn(3), h1: 2 + c.Rng.Intn(3), bp: 1 + c.Rng.Intn(3), win: 2 + c.Rng.Intn(5), dmax: 300 + 100*c.Rng.Intn(6)}
	r.hi = r.drain*1000 + 3000
	return r
}
