//go:build verif

package c11

// In-process MOSN-like assembly used by the graceful-stop scenarios: the real cluster manager, router manager,
// proxy network filter, HTTP/1 (and bolt) stream layers, the real `server`/`connHandler`/`activeListener` and the real
// `network.listener` on loopback, in front of an in-process scripted upstream.

import (
	"bufio"
	"context"
	"fmt"
	"net"
	"net/http"

	"golang.org/x/net/http2"
	"os"
	"strings"
	"sync"
	"sync/atomic"
	"time"

	"mosn.io/api"
	v2 "mosn.io/mosn/pkg/config/v2"
	"mosn.io/mosn/pkg/configmanager"
	_ "mosn.io/mosn/pkg/filter/network/proxy"
	"mosn.io/mosn/pkg/log"
	"mosn.io/mosn/pkg/protocol/xprotocol"
	"mosn.io/mosn/pkg/protocol/xprotocol/bolt"
	"mosn.io/mosn/pkg/router"
	"mosn.io/mosn/pkg/server"
	_ "mosn.io/mosn/pkg/stream/http"
	_ "mosn.io/mosn/pkg/stream/http2"
	xstream "mosn.io/mosn/pkg/stream/xprotocol"
	"mosn.io/mosn/pkg/types"
	"mosn.io/mosn/pkg/upstream/cluster"
)

const recFilter = "verif_c11_recorder"

// connRec records what one server-side connection of a MOSN listener saw.
type connRec struct {
	listener string
	shutdown int32 // number of api.OnShutdown events delivered to the connection
	closed   int32
}

var (
	recMu   sync.Mutex
	recByLn = map[string][]*connRec{}
)

func (r *connRec) OnEvent(ev api.ConnectionEvent) {
	if ev == api.OnShutdown {
		atomic.AddInt32(&r.shutdown, 1)
	}
	if ev.IsClose() {
		atomic.AddInt32(&r.closed, 1)
	}
}

type recFactory struct{}

func (recFactory) CreateFilterChain(ctx context.Context, cb api.NetWorkFilterChainFactoryCallbacks) {
	cb.AddReadFilter(&recReadFilter{ctx: ctx})
}

type recReadFilter struct{ ctx context.Context }

func (f *recReadFilter) OnData(buf api.IoBuffer) api.FilterStatus { return api.Continue }
func (f *recReadFilter) OnNewConnection() api.FilterStatus      { return api.Continue }
func (f *recReadFilter) InitializeReadFilterCallbacks(cb api.ReadFilterCallbacks) {
	name := ""
	if v, err := getVar(f.ctx, types.VariableListenerName); err == nil {
		name, _ = v.(string)
	}
	r := &connRec{listener: name}
	recMu.Lock()
	recByLn[name] = append(recByLn[name], r)
	recMu.Unlock()
	cb.Connection().AddConnectionEventListener(r)
}

func recsOf(name string) []*connRec {
	recMu.Lock()
	defer recMu.Unlock()
	return append([]*connRec{}, recByLn[name]...)
}

// ---- scripted upstream (HTTP/1) ----

type plan struct {
	arrived  chan struct{} // closed when the request reached the upstream
	release  chan struct{} // the upstream finishes the response when this is closed
	halfResp bool          // write headers and half of the body before waiting for release
	body     []byte
}

var plans sync.Map // id -> *plan

type cmFilter struct{}

func (cmFilter) OnCreated(types.ClusterConfigFactoryCb, types.ClusterHostFactoryCb) {}

var (
	envOnce          sync.Once
	upstreamAddr     string
	upstreamAddrH2   string
	upstreamAddrBolt string
	clusterMng   types.ClusterManager
	lnSeq        int64
)

func upstreamHandler(w http.ResponseWriter, r *http.Request) {
	id := r.Header.Get("X-Plan")
	v, ok := plans.Load(id)
	if !ok {
		w.WriteHeader(200)
		w.Write([]byte("noplan"))
		return
	}
	p := v.(*plan)
	// consume the request body completely
	bufio.NewReader(r.Body).WriteTo(discard{})
	close(p.arrived)
	if p.halfResp {
		w.Header().Set("Content-Length", fmt.Sprint(len(p.body)))
		w.WriteHeader(200)
		w.Write(p.body[:len(p.body)/2])
		if fl, ok := w.(http.Flusher); ok {
			fl.Flush()
		}
		<-p.release
		w.Write(p.body[len(p.body)/2:])
		return
	}
	<-p.release
	w.Header().Set("Content-Length", fmt.Sprint(len(p.body)))
	w.WriteHeader(200)
	w.Write(p.body)
}

type discard struct{}

func (discard) Write(b []byte) (int, error) { return len(b), nil }

func initEnv() {
	envOnce.Do(func() {
		lvl := log.FATAL
		if os.Getenv("C11_DEBUG") == "2" {
			lvl = log.DEBUG
		}
		log.DefaultLogger.SetLogLevel(lvl)
		log.StartLogger.SetLogLevel(lvl)
		log.Proxy.SetLogLevel(lvl)
		// unix domain sockets of the transfer machinery go below the run directory, never the system default
		wd, _ := os.Getwd()
		uds := fmt.Sprintf("%s/uds%d", wd, os.Getpid())
		os.MkdirAll(uds, 0o755)
		types.InitDefaultPath(uds+"/conf/mosn.json", uds)
		configmanager.ParseServerConfig(&v2.ServerConfig{})
		api.RegisterNetwork(recFilter, func(map[string]interface{}) (api.NetworkFilterChainFactory, error) { return recFactory{}, nil })

		xprotocol.RegisterXProtocolAction(xstream.NewConnPool, xstream.NewStreamFactory, func(api.XProtocolCodec) {})
		_ = xprotocol.RegisterXProtocolCodec(&bolt.XCodec{})

		listen := func() net.Listener {
			l, err := net.Listen("tcp", "127.0.0.1:0")
			if err != nil {
				panic(err)
			}
			return l
		}
		// HTTP/1 upstream
		ul := listen()
		upstreamAddr = ul.Addr().String()
		go (&http.Server{Handler: http.HandlerFunc(upstreamHandler)}).Serve(ul)
		// HTTP/2 (prior knowledge) upstream, same handler
		u2 := listen()
		upstreamAddrH2 = u2.Addr().String()
		go func() {
			h2s := &http2.Server{}
			for {
				c, err := u2.Accept()
				if err != nil {
					return
				}
				go h2s.ServeConn(c, &http2.ServeConnOpts{Handler: http.HandlerFunc(upstreamHandler)})
			}
		}()
		// bolt upstream
		ub := listen()
		upstreamAddrBolt = ub.Addr().String()
		go serveBoltUpstream(ub)

		mk := func(name, addr string) v2.Cluster {
			return v2.Cluster{Name: name, ClusterType: v2.SIMPLE_CLUSTER, LbType: v2.LB_ROUNDROBIN,
				MaxRequestPerConn: 1024, ConnBufferLimitBytes: 32 * 1024,
				Hosts: []v2.Host{{HostConfig: v2.HostConfig{Address: addr}}}}
		}
		clusters := []v2.Cluster{mk("c11_up_h1", upstreamAddr), mk("c11_up_h2", u2.Addr().String()), mk("c11_up_bolt", ub.Addr().String())}
		cs, cmap := configmanager.ParseClusterConfig(clusters)
		clusterMng = cluster.NewClusterManagerSingleton(cs, cmap, nil)
		for _, p := range []string{"h1", "h2", "bolt"} {
			rt := v2.Router{RouterConfig: v2.RouterConfig{
				Route: v2.RouteAction{RouterActionConfig: v2.RouterActionConfig{ClusterName: "c11_up_" + p}},
			}}
			if p == "bolt" {
				rt.Match = v2.RouterMatch{Headers: []v2.HeaderMatcher{{Name: "service", Value: ".*", Regex: true}}}
			} else {
				rt.Match = v2.RouterMatch{Prefix: "/"}
			}
			rc := &v2.RouterConfiguration{
				RouterConfigurationConfig: v2.RouterConfigurationConfig{RouterConfigName: "c11_router_" + p},
				VirtualHosts:              []v2.VirtualHost{{Name: "all", Domains: []string{"*"}, Routers: []v2.Router{rt}}},
			}
			if err := router.GetRoutersMangerInstance().AddOrUpdateRouters(rc); err != nil {
				panic(err)
			}
		}
	})
}

// mosnInst is one independent server + listener of the assembly.
type mosnInst struct {
	srv  server.Server
	name string
	ln   types.Listener
	addr string
}

// listenerAddr reads the address the listener is bound to through the exported ListenerFile (a dup of the fd), closing
// the duplicates immediately so that they never keep the socket alive.
func listenerAddr(ln types.Listener) (string, error) {
	f, err := ln.ListenerFile()
	if err != nil {
		return "", err
	}
	defer f.Close()
	fl, err := net.FileListener(f)
	if err != nil {
		return "", err
	}
	defer fl.Close()
	return fl.Addr().String(), nil
}

// newMosn builds a server with one proxy listener for protocol proto (h1 | h2 | bolt). inherit != nil: the listener inherits that socket (the
// hot-upgrade path of ParseListenerConfig/NewListener); otherwise it binds 127.0.0.1:0 itself.
func newMosn(proto string, inherit net.Listener) *mosnInst {
	initEnv()
	n := atomic.AddInt64(&lnSeq, 1)
	name := fmt.Sprintf("c11_l%d_%d", os.Getpid(), n)
	addr := "127.0.0.1:0"
	var inh []net.Listener
	if inherit != nil {
		addr = inherit.Addr().String()
		inh = []net.Listener{inherit}
	}
	lc := &v2.Listener{
		ListenerConfig: v2.ListenerConfig{
			Name: name, AddrConfig: addr, BindToPort: true, Network: "tcp",
			FilterChains: []v2.FilterChain{{FilterChainConfig: v2.FilterChainConfig{Filters: []v2.Filter{
				{Type: recFilter, Config: map[string]interface{}{}},
				{Type: "proxy", Config: map[string]interface{}{
					"downstream_protocol": protoName(proto), "upstream_protocol": protoName(proto), "router_config_name": "c11_router_" + proto,
					"extend_config": map[string]interface{}{"enable_bolt_goaway": true},
				}},
			}}}},
		},
	}
	lc = configmanager.ParseListenerConfig(lc, inh, nil)
	srv := server.NewServer(&server.Config{ServerName: name}, cmFilter{}, clusterMng)
	if _, err := srv.AddListener(lc); err != nil {
		panic(err)
	}
	go srv.Start()
	m := &mosnInst{srv: srv, name: name, ln: srv.Handler().FindListenerByName(name)}
	return m
}

// waitRunning waits for the accept loop to be running and resolves the bound address.
func (m *mosnInst) waitRunning(state func(types.Listener) int, running int) {
	dl := time.Now().Add(10 * time.Second)
	for state(m.ln) != running {
		if time.Now().After(dl) {
			panic("listener did not reach running")
		}
		time.Sleep(time.Millisecond)
	}
	a, err := listenerAddr(m.ln)
	if err != nil {
		panic(err)
	}
	m.addr = a
}

func tokErr(err error) string {
	if err == nil {
		return "ok"
	}
	if strings.Contains(err.Error(), "refused") {
		return "ref"
	}
	return "err"
}
