//go:build verif

package c11

// kind h2gw (the send side of h2ga): responses half written when the graceful GOAWAY goes out.  As in h2ga raw frames
// of the reference framer are dispatched through the REAL server stream connection of pkg/stream/http2 and `GoAway()`
// is invoked at a generated position.  A request (HEADERS, END_STREAM) is answered at once through the stream layer's
// sender (AppendHeaders / AppendData(endStream) from a worker goroutine -> MStream.SendResponse -> awaitFlowControl)
// with a body of 1, 65535, 65536, 200000 or a random number of bytes; the client grants window (WINDOW_UPDATE on the
// stream / the connection, SETTINGS_INITIAL_WINDOW_SIZE) before and AFTER the GOAWAY, sends PING and PRIORITY.
//
//	O<len>   request on the next odd stream id, answered with a body of len bytes
//	G        GoAway() of the stream connection;  Q  a GOAWAY frame of the client
//	S<k>.<n> WINDOW_UPDATE(stream 2k+1, n);  C<n> WINDOW_UPDATE(0, n);  I<v> SETTINGS_INITIAL_WINDOW_SIZE=v
//	P        PING;  Y<k> PRIORITY(stream 2k+1)
//
// observed per event: d<k>:<bytes> DATA bytes written on stream 2k+1, e<k> its END_STREAM, g<last> GOAWAY, pa PING ack,
// sa SETTINGS ack, x connection closed.

import (
	"bytes"
	"context"
	"fmt"
	"net"
	"sort"
	"strings"
	"sync"
	"time"

	xh2 "golang.org/x/net/http2"
	xhpack "golang.org/x/net/http2/hpack"
	"mosn.io/api"
	"mosn.io/mosn/pkg/protocol"
	shttp2 "mosn.io/mosn/pkg/stream/http2"
	"mosn.io/mosn/pkg/types"
	"mosn.io/pkg/buffer"
	"mosn.io/pkg/variable"
	"verif/harness/hx"
)

type gwConn struct {
	api.Connection
	mu     sync.Mutex
	cond   *sync.Cond
	data   map[uint32]int64 // DATA bytes per stream since the last cut
	ended  map[uint32]bool  // END_STREAM since the last cut
	misc   []string
	total  int64
	ends   int
	closed bool
	rest   []byte
}

func (c *gwConn) ID() uint64                                             { return 13 }
func (c *gwConn) LocalAddr() net.Addr                                    { return &net.TCPAddr{} }
func (c *gwConn) RemoteAddr() net.Addr                                   { return &net.TCPAddr{} }
func (c *gwConn) RawConn() net.Conn                                      { return nil }
func (c *gwConn) SetTransferEventListener(func() bool)                   {}
func (c *gwConn) AddConnectionEventListener(api.ConnectionEventListener) {}
func (c *gwConn) State() api.ConnState {
	c.mu.Lock()
	defer c.mu.Unlock()
	if c.closed {
		return api.ConnClosed
	}
	return api.ConnActive
}
func (c *gwConn) Close(api.ConnectionCloseType, api.ConnectionEvent) error {
	c.mu.Lock()
	defer c.mu.Unlock()
	if !c.closed {
		c.closed = true
		c.misc = append(c.misc, "x")
	}
	c.cond.Broadcast()
	return nil
}
func (c *gwConn) Write(bufs ...buffer.IoBuffer) error {
	c.mu.Lock()
	defer c.mu.Unlock()
	for _, b := range bufs {
		c.rest = append(c.rest, b.Bytes()...)
	}
	for len(c.rest) >= 9 {
		l := int(c.rest[0])<<16 | int(c.rest[1])<<8 | int(c.rest[2])
		if len(c.rest) < 9+l {
			break
		}
		typ, flags, p := c.rest[3], c.rest[4], c.rest[9:9+l]
		sid := (uint32(c.rest[5])<<24 | uint32(c.rest[6])<<16 | uint32(c.rest[7])<<8 | uint32(c.rest[8])) & (1<<31 - 1)
		switch typ {
		case 0:
			c.data[sid] += int64(l)
			c.total += int64(l)
			if flags&1 != 0 {
				c.ended[sid] = true
				c.ends++
			}
		case 1:
			if flags&1 != 0 { // HEADERS with END_STREAM (trailers / empty response)
				c.ended[sid] = true
				c.ends++
			}
		case 4:
			if flags&1 != 0 {
				c.misc = append(c.misc, "sa")
			}
		case 6:
			if flags&1 != 0 {
				c.misc = append(c.misc, "pa")
			}
		case 7:
			if l >= 8 {
				c.misc = append(c.misc, fmt.Sprintf("g%d", (uint32(p[0])<<24|uint32(p[1])<<16|uint32(p[2])<<8|uint32(p[3]))&(1<<31-1)))
			}
		case 3:
			c.misc = append(c.misc, fmt.Sprintf("r%d", sid))
		}
		c.rest = c.rest[9+l:]
	}
	c.cond.Broadcast()
	return nil
}

// waitFor blocks until pred (under the lock) holds or d elapsed.
func (c *gwConn) waitFor(d time.Duration, pred func() bool) bool {
	deadline := time.Now().Add(d)
	t := time.AfterFunc(d, func() { c.mu.Lock(); c.cond.Broadcast(); c.mu.Unlock() })
	defer t.Stop()
	c.mu.Lock()
	defer c.mu.Unlock()
	for !pred() {
		if !time.Now().Before(deadline) {
			return false
		}
		c.cond.Wait()
	}
	return true
}

func (c *gwConn) cut() string {
	c.mu.Lock()
	defer c.mu.Unlock()
	var out []string
	var ids []int
	for id := range c.data {
		ids = append(ids, int(id))
	}
	for id := range c.ended {
		if _, ok := c.data[id]; !ok {
			ids = append(ids, int(id))
		}
	}
	sort.Ints(ids)
	for _, id := range ids {
		if n := c.data[uint32(id)]; n > 0 {
			out = append(out, fmt.Sprintf("d%d:%d", id/2, n))
		}
		if c.ended[uint32(id)] {
			out = append(out, fmt.Sprintf("e%d", id/2))
		}
	}
	out = append(out, c.misc...)
	c.data, c.ended, c.misc = map[uint32]int64{}, map[uint32]bool{}, nil
	if len(out) == 0 {
		return "-"
	}
	return strings.Join(out, "+")
}

type gwGot struct {
	ctx    context.Context
	sender types.StreamSender
}

type gwListener struct{ got chan gwGot }

func (l *gwListener) NewStreamDetect(ctx context.Context, sender types.StreamSender, span api.Span) types.StreamReceiveListener {
	return &gwReceiver{l: l, ctx: ctx, sender: sender}
}
func (l *gwListener) OnGoAway() {}

type gwReceiver struct {
	l      *gwListener
	ctx    context.Context
	sender types.StreamSender
}

func (r *gwReceiver) OnReceive(ctx context.Context, headers types.HeaderMap, data types.IoBuffer, trailers types.HeaderMap) {
	select {
	case r.l.got <- gwGot{ctx: ctx, sender: r.sender}:
	default:
	}
}
func (r *gwReceiver) OnDecodeError(ctx context.Context, err error, headers types.HeaderMap) {}

type gwEv struct {
	kind byte
	k    int
	v    uint32
}

func (e gwEv) String() string {
	switch e.kind {
	case 'O', 'C', 'I':
		return fmt.Sprintf("%c%d", e.kind, e.v)
	case 'S':
		return fmt.Sprintf("S%d.%d", e.k, e.v)
	case 'Y':
		return fmt.Sprintf("Y%d", e.k)
	}
	return string(e.kind)
}

var gwSyncTimeouts int

// gwBooks is only a synchronisation aid (how many bytes to wait for) — the oracle is the Lean model.
type gwBooks struct {
	cn, init int64
	n, rem   []int64
	goaway   bool
}

func runH2GW(c *hx.Ctx, evs []gwEv) {
	conn := &gwConn{data: map[uint32]int64{}, ended: map[uint32]bool{}}
	conn.cond = sync.NewCond(&conn.mu)
	ln := &gwListener{got: make(chan gwGot, 1)}
	ctx := buffer.NewBufferPoolContext(variable.NewVariableContext(context.Background()))
	sc := (&shttp2.StreamConnFactory{}).CreateServerStream(ctx, conn, ln)
	rbuf := buffer.NewIoBuffer(1024)
	var hbuf bytes.Buffer
	henc := xhpack.NewEncoder(&hbuf)
	feed := func(write func(fr *xh2.Framer)) {
		if conn.State() == api.ConnClosed {
			return
		}
		var wire bytes.Buffer
		write(xh2.NewFramer(&wire, nil))
		rbuf.Write(wire.Bytes())
		if _, p := hx.Safe(func() { sc.Dispatch(rbuf) }); p {
			conn.Close(api.NoFlush, api.LocalClose)
		}
	}
	rbuf.Write([]byte(xh2.ClientPreface))
	feed(func(fr *xh2.Framer) { fr.WriteSettings() })
	conn.cut()
	conn.mu.Lock()
	conn.total, conn.ends = 0, 0
	conn.mu.Unlock()
	ref := &gwBooks{cn: 65535, init: 65535}
	var wg sync.WaitGroup
	var toks, obs []string
	nextID := uint32(1)
	wantEnds := 0
	var expTotal int64
	slow := false
	for _, e := range evs {
		switch e.kind {
		case 'O':
			hbuf.Reset()
			for _, kv := range [][2]string{{":method", "GET"}, {":scheme", "http"}, {":authority", "c11.test"}, {":path", "/h2gw"}} {
				henc.WriteField(xhpack.HeaderField{Name: kv[0], Value: kv[1]})
			}
			block := append([]byte(nil), hbuf.Bytes()...)
			id := nextID
			nextID += 2
			feed(func(fr *xh2.Framer) {
				fr.WriteHeaders(xh2.HeadersFrameParam{StreamID: id, BlockFragment: block, EndStream: true, EndHeaders: true})
			})
			select {
			case g := <-ln.got:
				body := bytes.Repeat([]byte{byte('a' + len(ref.n)%26)}, int(e.v))
				ref.n = append(ref.n, ref.init)
				ref.rem = append(ref.rem, int64(e.v))
				wg.Add(1)
				go func() {
					defer wg.Done()
					hx.Safe(func() {
						g.sender.AppendHeaders(g.ctx, protocol.CommonHeader{"x-c11": "h2gw"}, false)
						g.sender.AppendData(g.ctx, buffer.NewIoBufferBytes(body), true)
					})
				}()
			default:
				// refused (begun after the GOAWAY): no request reached the proxy; the id is used up all the same
				ref.n = append(ref.n, 0)
				ref.rem = append(ref.rem, 0)
			}
		case 'G':
			if conn.State() != api.ConnClosed {
				sc.GoAway()
			}
		case 'Q':
			feed(func(fr *xh2.Framer) { fr.WriteGoAway(0, xh2.ErrCodeNo, nil) })
		case 'S':
			feed(func(fr *xh2.Framer) { fr.WriteWindowUpdate(uint32(2*e.k+1), e.v) })
			if e.k < len(ref.n) && ref.rem[e.k] > 0 {
				ref.n[e.k] += int64(e.v)
			}
		case 'C':
			feed(func(fr *xh2.Framer) { fr.WriteWindowUpdate(0, e.v) })
			ref.cn += int64(e.v)
		case 'I':
			feed(func(fr *xh2.Framer) { fr.WriteSettings(xh2.Setting{ID: xh2.SettingInitialWindowSize, Val: e.v}) })
			for i := range ref.n {
				if ref.rem[i] > 0 {
					ref.n[i] += int64(e.v) - ref.init
				}
			}
			ref.init = int64(e.v)
		case 'P':
			feed(func(fr *xh2.Framer) { fr.WritePing(false, [8]byte{1, 2, 3, 4, 5, 6, 7, 8}) })
		case 'Y':
			feed(func(fr *xh2.Framer) {
				fr.WritePriority(uint32(2*e.k+1), xh2.PriorityParam{StreamDep: 0, Weight: 10})
			})
		}
		// wait for what the (single unfinished) greedy sender can write now
		var want int64
		for i := range ref.n {
			d := ref.rem[i]
			if ref.n[i] < d {
				d = ref.n[i]
			}
			if ref.cn-want < d {
				d = ref.cn - want
			}
			if d > 0 {
				want += d
				ref.n[i] -= d
				ref.rem[i] -= d
				if ref.rem[i] == 0 {
					wantEnds++
				}
			}
		}
		ref.cn -= want
		expTotal += want
		d := 3 * time.Second
		if slow || gwSyncTimeouts >= 3 {
			d = 60 * time.Millisecond
		}
		if !conn.waitFor(d, func() bool { return conn.closed || (conn.total >= expTotal && conn.ends >= wantEnds) }) {
			slow = true
			gwSyncTimeouts++
			c.Count("h2gw.sync-timeout")
		}
		toks = append(toks, e.String())
		obs = append(obs, conn.cut())
	}
	// release the senders that are still parked: close the connection and make MOSN broadcast
	conn.mu.Lock()
	conn.closed = true
	conn.mu.Unlock()
	done := make(chan struct{})
	go func() { wg.Wait(); close(done) }()
	for i := 0; ; i++ {
		select {
		case <-done:
		case <-time.After(2 * time.Millisecond):
			if i > 2000 {
				panic("h2gw: sender goroutines did not terminate")
			}
			var wire bytes.Buffer
			xh2.NewFramer(&wire, nil).WriteSettings()
			rbuf.Write(wire.Bytes())
			hx.Safe(func() { sc.Dispatch(rbuf) })
			continue
		}
		break
	}
	c.Emit("C11", "h2gw "+strings.Join(toks, ","), strings.Join(obs, ","))
}

// genH2GW: one (sometimes two, one after the other) responses; the GOAWAY while a body is half written; the client
// keeps granting window afterwards.
func genH2GW(c *hx.Ctx) ([]gwEv, string) {
	r := c.Rng
	var evs []gwEv
	add := func(e gwEv) { evs = append(evs, e) }
	k := 0
	cn := int64(65535)
	initW := int64(65535)
	if r.Intn(5) == 0 { // a small first response, completed before the main one (uses part of the connection window)
		n := int64(1 + r.Intn(3000))
		add(gwEv{kind: 'O', v: uint32(n)})
		cn -= n
		k++
	}
	if r.Intn(6) == 0 { // the client changed its initial window before the request
		initW = []int64{0, 1000, 65535, 100000, 300000}[r.Intn(5)]
		add(gwEv{kind: 'I', v: uint32(initW)})
	}
	size := []int64{1, 65535, 65536, 200000}[r.Intn(4)]
	if r.Intn(4) == 0 {
		size = int64(1 + r.Intn(300000))
	}
	add(gwEv{kind: 'O', v: uint32(size)})
	w := initW
	rem := size
	sendNow := func() {
		d := rem
		if w < d {
			d = w
		}
		if cn < d {
			d = cn
		}
		if d > 0 {
			rem -= d
			w -= d
			cn -= d
		}
	}
	sendNow()
	where := "body-complete"
	if rem > 0 {
		where = "body-half-written"
	}
	noGA := r.Intn(10) >= 9 // 10 %: no GOAWAY at all
	issued := false
	goAway := func() {
		if noGA || issued {
			return
		}
		issued = true
		if r.Intn(6) == 0 {
			add(gwEv{kind: 'Q'})
		} else {
			add(gwEv{kind: 'G'})
		}
		if r.Intn(8) == 0 {
			add(gwEv{kind: 'G'})
		}
	}
	if r.Intn(4) != 0 {
		goAway() // right after the first part of the body
	} else {
		where += "-later"
	}
	for step := 0; step < 12 && rem > 0; step++ {
		switch x := r.Intn(12); {
		case x < 4: // stream-level grant
			g := []int64{1, 1000, 16384, 65535, rem, 300000}[r.Intn(6)]
			if w+g > 1<<31-1 {
				continue
			}
			add(gwEv{kind: 'S', k: k, v: uint32(g)})
			w += g
		case x < 8: // connection-level grant
			g := []int64{1, 1000, 16384, 65535, rem, 300000}[r.Intn(6)]
			if cn+g > 1<<31-1 {
				continue
			}
			add(gwEv{kind: 'C', v: uint32(g)})
			cn += g
		case x == 8: // SETTINGS_INITIAL_WINDOW_SIZE change: shifts the window of the stream in flight
			v := []int64{0, 1000, 65535, 65536, 200000, 1 << 20}[r.Intn(6)]
			if w+v-initW > 1<<31-1 {
				continue
			}
			add(gwEv{kind: 'I', v: uint32(v)})
			w += v - initW
			initW = v
		case x == 9:
			add(gwEv{kind: 'P'})
		case x == 10:
			add(gwEv{kind: 'Y', k: k})
		case x == 11:
			goAway()
		}
		sendNow()
	}
	goAway()
	// the client keeps granting until the body is complete
	if rem > 0 && r.Intn(8) != 0 {
		if w < rem {
			add(gwEv{kind: 'S', k: k, v: uint32(rem - w + int64(r.Intn(100)))})
		}
		if cn < rem {
			add(gwEv{kind: 'C', v: uint32(rem - cn + int64(r.Intn(100)))})
		}
	}
	if r.Intn(3) == 0 {
		add(gwEv{kind: 'P'})
	}
	if issued && r.Intn(6) == 0 {
		add(gwEv{kind: 'O', v: 10}) // a request begun after the GOAWAY: refused
	}
	if r.Intn(4) == 0 {
		add(gwEv{kind: 'I', v: uint32([]int64{0, 65535, 100000}[r.Intn(3)])})
	}
	return evs, where
}

// fixed boundary scripts: bodies of 1, 65535, 65536 and 200000 bytes half written when the GOAWAY goes out, the client
// granting window afterwards (stream level, connection level, through SETTINGS), PING after the GOAWAY.
var fixedH2GW = [][]gwEv{
	{{kind: 'O', v: 1}, {kind: 'G'}, {kind: 'P'}},
	{{kind: 'O', v: 65535}, {kind: 'G'}, {kind: 'P'}, {kind: 'C', v: 10}},
	{{kind: 'O', v: 65536}, {kind: 'G'}, {kind: 'S', k: 0, v: 1}, {kind: 'C', v: 1}},
	{{kind: 'O', v: 65536}, {kind: 'G'}, {kind: 'C', v: 1}, {kind: 'S', k: 0, v: 1}},
	{{kind: 'O', v: 200000}, {kind: 'G'}, {kind: 'S', k: 0, v: 200000}, {kind: 'P'}, {kind: 'C', v: 100000}, {kind: 'C', v: 100000}},
	{{kind: 'O', v: 200000}, {kind: 'G'}, {kind: 'C', v: 200000}, {kind: 'I', v: 100000}, {kind: 'I', v: 300000}},
	{{kind: 'O', v: 200000}, {kind: 'Q'}, {kind: 'G'}, {kind: 'Y', k: 0}, {kind: 'C', v: 200000}, {kind: 'S', k: 0, v: 200000}, {kind: 'O', v: 5}},
	{{kind: 'O', v: 200000}, {kind: 'S', k: 0, v: 200000}, {kind: 'C', v: 200000}},
	// WINDOW_UPDATE for a stream refused after the GOAWAY (still idle for MOSN): dropped, the stream in flight goes on
	{{kind: 'O', v: 200000}, {kind: 'G'}, {kind: 'O', v: 10}, {kind: 'S', k: 1, v: 1000}, {kind: 'C', v: 200000}, {kind: 'S', k: 0, v: 200000}},
}

func runH2GoAwayWin(c *hx.Ctx) {
	for _, q := range fixedH2GW {
		runH2GW(c, q)
		c.Count("h2gw.fixed")
	}
	for i := 0; i < c.N(200, 1200); i++ {
		evs, where := genH2GW(c)
		runH2GW(c, evs)
		c.Count("h2gw.generated")
		c.Count("h2gw.goaway=" + where)
	}
}
