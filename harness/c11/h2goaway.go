//go:build verif

package c11

// kind h2ga: the HTTP/2 graceful stop at frame granularity.  Raw frames (written by the reference framer of
// golang.org/x/net) are dispatched through the REAL server stream connection of pkg/stream/http2 (Dispatch ->
// serverCodec.Decode -> MServerConn.HandleFrame -> stream layer -> receiver), `GoAway()` — what the proxy calls on
// api.OnShutdown — is invoked at a generated position between the frames, and what reaches the receiver (requests with
// their body length) and the wire (GOAWAY, RST_STREAM, connection closed) is recorded per event.

import (
	"bytes"
	"context"
	"fmt"
	"net"
	"strings"

	xh2 "golang.org/x/net/http2"
	xhpack "golang.org/x/net/http2/hpack"
	"mosn.io/api"
	shttp2 "mosn.io/mosn/pkg/stream/http2"
	"mosn.io/mosn/pkg/types"
	"mosn.io/pkg/buffer"
	"mosn.io/pkg/variable"
	"verif/harness/hx"
)

type gaEv struct {
	kind byte // H headers (request, or trailers once the stream was opened) | D data | R rst | G graceful go-away
	id   uint32
	n    int  // D: length; H: declared content-length (-1 none)
	es   bool // END_STREAM
}

func (e gaEv) String() string {
	b := 0
	if e.es {
		b = 1
	}
	switch e.kind {
	case 'H':
		d := "n"
		if e.n >= 0 {
			d = fmt.Sprint(e.n)
		}
		return fmt.Sprintf("H%d.%d.%s", e.id, b, d)
	case 'D':
		return fmt.Sprintf("D%d.%d.%d", e.id, e.n, b)
	case 'R':
		return fmt.Sprintf("R%d", e.id)
	}
	return "G"
}

type gaConn struct {
	api.Connection
	out    []string // outputs since the last cut
	closed bool
	rest   []byte
}

func (c *gaConn) ID() uint64                                                  { return 11 }
func (c *gaConn) LocalAddr() net.Addr                                         { return &net.TCPAddr{} }
func (c *gaConn) RemoteAddr() net.Addr                                        { return &net.TCPAddr{} }
func (c *gaConn) RawConn() net.Conn                                           { return nil }
func (c *gaConn) SetTransferEventListener(func() bool)                        {}
func (c *gaConn) AddConnectionEventListener(api.ConnectionEventListener)      {}
func (c *gaConn) State() api.ConnState {
	if c.closed {
		return api.ConnClosed
	}
	return api.ConnActive
}
func (c *gaConn) Close(api.ConnectionCloseType, api.ConnectionEvent) error {
	if !c.closed {
		c.closed = true
		c.out = append(c.out, "x")
	}
	return nil
}
func (c *gaConn) Write(bufs ...buffer.IoBuffer) error {
	for _, b := range bufs {
		c.rest = append(c.rest, b.Bytes()...)
	}
	for len(c.rest) >= 9 {
		l := int(c.rest[0])<<16 | int(c.rest[1])<<8 | int(c.rest[2])
		if len(c.rest) < 9+l {
			break
		}
		typ, p := c.rest[3], c.rest[9:9+l]
		sid := (uint32(c.rest[5])<<24 | uint32(c.rest[6])<<16 | uint32(c.rest[7])<<8 | uint32(c.rest[8])) & (1<<31 - 1)
		u32 := func(b []byte) uint32 { return uint32(b[0])<<24 | uint32(b[1])<<16 | uint32(b[2])<<8 | uint32(b[3]) }
		switch {
		case typ == 7 && l >= 8:
			c.out = append(c.out, fmt.Sprintf("g%d:%d", u32(p)&(1<<31-1), u32(p[4:])))
		case typ == 3 && l >= 4:
			c.out = append(c.out, fmt.Sprintf("r%d:%d", sid, u32(p)))
		}
		c.rest = c.rest[9+l:]
	}
	return nil
}

type gaListener struct{ c *gaConn }

func (l *gaListener) NewStreamDetect(ctx context.Context, sender types.StreamSender, span api.Span) types.StreamReceiveListener {
	return &gaReceiver{c: l.c, id: sender.GetStream().ID()}
}
func (l *gaListener) OnGoAway() {}

type gaReceiver struct {
	c  *gaConn
	id uint64
}

func (r *gaReceiver) OnReceive(ctx context.Context, headers types.HeaderMap, data types.IoBuffer, trailers types.HeaderMap) {
	n := 0
	if data != nil {
		n = data.Len()
	}
	r.c.out = append(r.c.out, fmt.Sprintf("d%d:%d", r.id, n))
}
func (r *gaReceiver) OnDecodeError(ctx context.Context, err error, headers types.HeaderMap) {
	r.c.out = append(r.c.out, fmt.Sprintf("e%d", r.id))
}

func runH2GA(c *hx.Ctx, evs []gaEv) {
	conn := &gaConn{}
	ctx := buffer.NewBufferPoolContext(variable.NewVariableContext(context.Background()))
	sc := (&shttp2.StreamConnFactory{}).CreateServerStream(ctx, conn, &gaListener{c: conn})
	rbuf := buffer.NewIoBuffer(1024)
	var hbuf bytes.Buffer
	henc := xhpack.NewEncoder(&hbuf)
	feed := func(write func(fr *xh2.Framer)) {
		if conn.closed {
			return // the read loop of a closed connection has stopped
		}
		var wire bytes.Buffer
		write(xh2.NewFramer(&wire, nil))
		rbuf.Write(wire.Bytes())
		if _, p := hx.Safe(func() { sc.Dispatch(rbuf) }); p {
			conn.out = append(conn.out, "panic")
			conn.closed = true
		}
	}
	// preface + the client's SETTINGS
	rbuf.Write([]byte(xh2.ClientPreface))
	feed(func(fr *xh2.Framer) { fr.WriteSettings() })
	conn.out = nil
	opened := map[uint32]bool{}
	var toks, obs []string
	for _, e := range evs {
		switch e.kind {
		case 'H':
			hbuf.Reset()
			if opened[e.id] {
				henc.WriteField(xhpack.HeaderField{Name: "x-trailer", Value: "1"})
			} else {
				for _, kv := range [][2]string{{":method", "POST"}, {":scheme", "http"}, {":authority", "c11.test"}, {":path", "/h2ga"}} {
					henc.WriteField(xhpack.HeaderField{Name: kv[0], Value: kv[1]})
				}
				if e.n >= 0 && !e.es {
					henc.WriteField(xhpack.HeaderField{Name: "content-length", Value: fmt.Sprint(e.n)})
				}
				opened[e.id] = true
			}
			block := append([]byte(nil), hbuf.Bytes()...)
			feed(func(fr *xh2.Framer) {
				fr.WriteHeaders(xh2.HeadersFrameParam{StreamID: e.id, BlockFragment: block, EndStream: e.es, EndHeaders: true})
			})
		case 'D':
			feed(func(fr *xh2.Framer) { fr.WriteData(e.id, e.es, bytes.Repeat([]byte("b"), e.n)) })
		case 'R':
			feed(func(fr *xh2.Framer) { fr.WriteRSTStream(e.id, xh2.ErrCodeCancel) })
		case 'G':
			if !conn.closed {
				sc.GoAway()
			}
		}
		toks = append(toks, e.String())
		o := "-"
		if len(conn.out) > 0 {
			o = strings.Join(conn.out, "+")
		}
		obs = append(obs, o)
		conn.out = nil
	}
	c.Emit("C11", "h2ga "+strings.Join(toks, ","), strings.Join(obs, ","))
}

// gaStream is one generated request: HEADERS, DATA frames, the way it ends.
type gaStream struct {
	id     uint32
	frames []gaEv
}

func genH2GAStream(c *hx.Ctx, id uint32) gaStream {
	r := c.Rng
	s := gaStream{id: id}
	nchunks := r.Intn(5) // 0 = no body
	if nchunks == 0 {
		s.frames = append(s.frames, gaEv{kind: 'H', id: id, n: -1, es: true})
		return s
	}
	var sizes []int
	sum := 0
	for k := 0; k < nchunks; k++ {
		z := []int{0, 1, 100, 1000, 16384}[r.Intn(5)]
		if r.Intn(3) == 0 {
			z = r.Intn(3000)
		}
		sizes = append(sizes, z)
		sum += z
	}
	decl := -1
	if r.Intn(2) == 0 {
		decl = sum
	}
	trailers := r.Intn(5) == 0
	s.frames = append(s.frames, gaEv{kind: 'H', id: id, n: decl})
	for k, z := range sizes {
		s.frames = append(s.frames, gaEv{kind: 'D', id: id, n: z, es: k == len(sizes)-1 && !trailers})
	}
	if trailers {
		s.frames = append(s.frames, gaEv{kind: 'H', id: id, n: -1, es: true})
	}
	return s
}

func genH2GA(c *hx.Ctx) []gaEv {
	r := c.Rng
	n := 1 + r.Intn(3)
	var ss []gaStream
	id := uint32(1)
	for k := 0; k < n; k++ {
		ss = append(ss, genH2GAStream(c, id))
		id += 2
		if r.Intn(6) == 0 {
			id += 2
		}
	}
	// merge: per-stream order kept, HEADERS in increasing id order
	var evs []gaEv
	pos := make([]int, n)
	for {
		var cand []int
		for k := range ss {
			if pos[k] < len(ss[k].frames) && (pos[k] > 0 || k == 0 || pos[k-1] > 0) {
				cand = append(cand, k)
			}
		}
		if len(cand) == 0 {
			break
		}
		k := cand[r.Intn(len(cand))]
		evs = append(evs, ss[k].frames[pos[k]])
		pos[k]++
	}
	ins := func(at int, e gaEv) {
		evs = append(evs, gaEv{})
		copy(evs[at+1:], evs[at:])
		evs[at] = e
	}
	// the signal: every position, including before the first HEADERS and after the last frame
	if r.Intn(10) < 9 {
		ins(r.Intn(len(evs)+1), gaEv{kind: 'G'})
		if r.Intn(8) == 0 {
			ins(r.Intn(len(evs)+1), gaEv{kind: 'G'})
		}
	}
	// the malformed stream
	if r.Intn(100) < 18 {
		at := r.Intn(len(evs) + 1)
		some := ss[r.Intn(n)].id
		switch r.Intn(7) {
		case 0:
			ins(at, gaEv{kind: 'D', id: id + 4, n: 10}) // DATA on an idle stream
		case 1:
			evs = append(evs, gaEv{kind: 'D', id: some, n: 5, es: true}) // DATA after the end of the stream
		case 2:
			ins(at, gaEv{kind: 'R', id: some})
		case 3:
			ins(at, gaEv{kind: 'H', id: 2, n: -1, es: true}) // even stream id
		case 4:
			evs = append(evs, gaEv{kind: 'H', id: some, n: -1, es: false}) // trailers without END_STREAM / on an ended stream
		case 5:
			ins(at, gaEv{kind: 'D', id: some, n: 70000}) // more than declared (when a length was declared)
		case 6:
			ins(at, gaEv{kind: 'R', id: id + 6}) // RST_STREAM on an idle stream
		}
	}
	return evs
}

// fixed boundary scripts: the GOAWAY between the DATA frames of a body ("goaway between data frames"), before the
// first DATA frame, between the last DATA frame and the trailers, and a stream begun after it.
var fixedH2GA = [][]gaEv{
	{{kind: 'H', id: 1, n: 300}, {kind: 'D', id: 1, n: 100}, {kind: 'G'}, {kind: 'D', id: 1, n: 200, es: true}},
	{{kind: 'H', id: 1, n: -1}, {kind: 'G'}, {kind: 'D', id: 1, n: 100}, {kind: 'D', id: 1, n: 0, es: true}},
	{{kind: 'H', id: 1, n: -1}, {kind: 'D', id: 1, n: 100}, {kind: 'D', id: 1, n: 50}, {kind: 'G'}, {kind: 'H', id: 1, n: -1, es: true}},
	{{kind: 'H', id: 1, n: 10}, {kind: 'G'}, {kind: 'H', id: 3, n: 4}, {kind: 'D', id: 3, n: 4, es: true}, {kind: 'D', id: 1, n: 10, es: true}},
	{{kind: 'G'}, {kind: 'H', id: 1, n: 10}, {kind: 'D', id: 1, n: 10, es: true}},
	{{kind: 'H', id: 1, n: -1}, {kind: 'H', id: 5, n: -1}, {kind: 'D', id: 5, n: 7}, {kind: 'G'}, {kind: 'D', id: 1, n: 9, es: true}, {kind: 'D', id: 5, n: 1, es: true}},
}

func runH2GoAway(c *hx.Ctx) {
	for _, q := range fixedH2GA {
		runH2GA(c, q)
		c.Count("h2ga.fixed")
	}
	for i := 0; i < c.N(400, 4000); i++ {
		evs := genH2GA(c)
		runH2GA(c, evs)
		c.Count("h2ga.generated")
		g := -1
		for k, e := range evs {
			if e.kind == 'G' && g < 0 {
				g = k
			}
		}
		switch {
		case g < 0:
			c.Count("h2ga.signal=none")
		case g == 0:
			c.Count("h2ga.signal=before-all")
		case g == len(evs)-1:
			c.Count("h2ga.signal=after-all")
		default:
			if evs[g-1].kind == 'D' && g+1 < len(evs) && evs[g+1].kind == 'D' && evs[g-1].id == evs[g+1].id {
				c.Count("h2ga.signal=between-data-frames-of-one-stream")
			} else {
				c.Count("h2ga.signal=inside")
			}
		}
	}
}
