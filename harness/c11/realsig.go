//go:build verif

package c11

// Real SIGTERM to a real MOSN process: the binary is built from $VERIF_REPO/cmd/mosn/main (no verif tag), started
// with a generated config (HTTP/1, bolt or HTTP/2 proxy listener in front of the harness's scripted upstreams), one
// request is advanced to a generated phase, the process receives SIGTERM, the request is allowed to proceed `hold`
// ticks later. Observed: the request's outcome, whether the process was gone before the request could proceed, the
// exit code, and that the port refuses connections afterwards. (Thorough tier only; the drain time of the binary is
// its default, so only requests that finish within it are generated.)

import (
	"fmt"
	"net"
	"os"
	"os/exec"
	"path/filepath"
	"strings"
	"sync"
	"syscall"
	"time"

	"verif/harness/hx"
)

var (
	mosnBinOnce sync.Once
	mosnBin     string
	mosnBinErr  error
)

func buildMosn() (string, error) {
	mosnBinOnce.Do(func() {
		repo := os.Getenv("VERIF_REPO")
		if repo == "" {
			repo = "/repo"
		}
		wd, _ := os.Getwd()
		mosnBin = filepath.Join(wd, fmt.Sprintf("mosn-real-%d", os.Getpid()))
		cmd := exec.Command("go", "build", "-o", mosnBin, "./cmd/mosn/main")
		cmd.Dir = repo
		cmd.Env = append(os.Environ(), "GOFLAGS=-mod=mod", "GOPROXY=off", "GOSUMDB=off", "GOTOOLCHAIN=local")
		if out, err := cmd.CombinedOutput(); err != nil {
			mosnBinErr = fmt.Errorf("go build cmd/mosn/main: %v: %s", err, string(out))
		}
	})
	return mosnBin, mosnBinErr
}

type rsCase struct {
	proto string
	phase string // hdr | body | wait | resp
	hold  int    // ticks between SIGTERM and the moment the request may proceed
}

func (r rsCase) String() string {
	return fmt.Sprintf("rs proto=%s phase=%s hold=%d", r.proto, r.phase, r.hold)
}

func freePort() int {
	l, err := net.Listen("tcp", "127.0.0.1:0")
	if err != nil {
		panic(err)
	}
	defer l.Close()
	return l.Addr().(*net.TCPAddr).Port
}

func runRS(c *hx.Ctx, r rsCase, seq int) {
	for attempt := 0; ; attempt++ {
		j := startJitter()
		impl := runRSOnce(c, r, seq*10+attempt)
		if impl == "" && attempt < 4 { // the process did not come up (e.g. a probed free port was taken meanwhile)
			j.worst()
			c.Count("rs.restarted")
			continue
		}
		if w := j.worst(); w > maxJitter && attempt < 4 {
			c.Count("rs.repeated-after-stall")
			continue
		}
		c.Emit("C11", r.String(), impl)
		c.Count("rs.phase=" + r.phase + ".proto=" + r.proto)
		return
	}
}

func runRSOnce(c *hx.Ctx, r rsCase, seq int) string {
	bin, err := buildMosn()
	if err != nil {
		panic(err)
	}
	initEnv()
	wd, _ := os.Getwd()
	dir := filepath.Join(wd, fmt.Sprintf("real%d_%d", os.Getpid(), seq))
	os.MkdirAll(dir, 0o755)
	defer os.RemoveAll(dir)
	port := freePort()
	up := map[string]string{"h1": upstreamAddr, "h2": upstreamAddrH2, "bolt": upstreamAddrBolt}[r.proto]
	match := `"match":{"prefix":"/"},`
	if r.proto == "bolt" {
		match = `"match":{"headers":[{"name":"service","value":".*","regex":true}]},`
	}
	cfg := fmt.Sprintf(`{
 "disable_upgrade": true,
 "servers":[{"default_log_path":"%s/default.log","default_log_level":"ERROR",
   "routers":[{"router_config_name":"r","virtual_hosts":[{"name":"v","domains":["*"],"routers":[{%s"route":{"cluster_name":"c"}}]}]}],
   "listeners":[{"name":"l","address":"127.0.0.1:%d","bind_port":true,
     "filter_chains":[{"filters":[{"type":"proxy","config":{"downstream_protocol":"%s","upstream_protocol":"%s","router_config_name":"r","extend_config":{"enable_bolt_goaway":true}}}]}]}]}],
 "cluster_manager":{"clusters":[{"name":"c","type":"SIMPLE","lb_type":"LB_RANDOM","hosts":[{"address":"%s"}]}]},
 "admin":{"address":{"socket_address":{"address":"127.0.0.1","port_value":%d}}},
 "pid":"%s/mosn.pid"
}`, dir, match, port, protoName(r.proto), protoName(r.proto), up, freePort(), dir)
	os.WriteFile(dir+"/mosn.json", []byte(cfg), 0o644)
	cmd := exec.Command(bin, "start", "-c", dir+"/mosn.json")
	cmd.Env = append(os.Environ(), "HOME="+dir)
	lf, _ := os.Create(dir + "/stdout.log")
	defer lf.Close()
	cmd.Stdout, cmd.Stderr = lf, lf
	if err := cmd.Start(); err != nil {
		panic(err)
	}
	exited := make(chan time.Time, 1)
	go func() { cmd.Wait(); exited <- time.Now() }()
	defer func() {
		if cmd.ProcessState == nil {
			cmd.Process.Kill()
		}
	}()
	addr := fmt.Sprintf("127.0.0.1:%d", port)
	var k cli
	cameUp := false
	for dl := time.Now().Add(20 * time.Second); time.Now().Before(dl) && !cameUp; {
		select {
		case <-exited:
			return "" // died during start-up
		default:
		}
		if k, err = dialProto(r.proto, addr); err == nil {
			if err = quick(k); err == nil {
				cameUp = true
				break
			}
			k.conn().Close()
		}
		time.Sleep(25 * time.Millisecond)
	}
	if !cameUp {
		return ""
	}
	defer k.conn().Close()

	id, p := newPlan(r.phase == "resp", false, 4096)
	defer plans.Delete(id)
	hd, bd := k.request(id, 2048)
	full := append(append([]byte{}, hd...), bd...)
	sent := len(full)
	switch r.phase {
	case "hdr":
		sent = len(hd) / 2
	case "body":
		sent = len(hd) + len(bd)/2
	}
	if _, err := k.conn().Write(full[:sent]); err != nil {
		panic(err)
	}
	if sent == len(full) {
		select {
		case <-p.arrived:
		case <-time.After(5 * time.Second):
			panic("request did not reach the upstream")
		}
	} else {
		time.Sleep(20 * time.Millisecond)
	}
	t0 := time.Now()
	cmd.Process.Signal(syscall.SIGTERM)
	time.Sleep(time.Until(t0.Add(time.Duration(r.hold) * tick)))
	tContinue := time.Now()
	close(p.release)
	var reqErr error
	if sent < len(full) {
		_, reqErr = k.conn().Write(full[sent:])
	}
	if reqErr == nil {
		reqErr = k.readResp(p, 5*time.Second)
	}
	exitFirst, code := 0, -2
	select {
	case t := <-exited:
		if t.Before(tContinue) {
			exitFirst = 1
		}
		code = cmd.ProcessState.ExitCode()
	case <-time.After(20 * time.Second):
		code = -3 // did not exit
	}
	after := "?"
	if cl, err := net.DialTimeout("tcp", addr, time.Second); err != nil {
		after = "err"
		if strings.Contains(err.Error(), "refused") {
			after = "ref"
		}
	} else {
		cl.Close()
		after = "conn"
	}
	return fmt.Sprintf("req=%s exitfirst=%d exit=%d after=%s", okTok(reqErr), exitFirst, code, after)
}

func genRS(c *hx.Ctx, i int) rsCase {
	phases := []string{"wait", "body", "resp", "hdr"}
	protos := []string{"h1", "bolt", "h2"}
	return rsCase{proto: protos[(i/len(phases)+int(c.Seed))%len(protos)], phase: phases[i%len(phases)], hold: 8 + c.Rng.Intn(25)}
}
