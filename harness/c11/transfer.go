//go:build verif

package c11

// The connection-transfer message codec of pkg/network/transfer.go driven through the verif hooks over real
// AF_UNIX stream socket pairs: what the sender puts on the wire and what the receiver reconstructs.

import (
	"fmt"
	"io"
	"net"
	"os"
	"syscall"
	"time"

	"mosn.io/mosn/pkg/network"
	"verif/harness/hx"
)

func socketpair() (*net.UnixConn, *net.UnixConn) {
	fds, err := syscall.Socketpair(syscall.AF_UNIX, syscall.SOCK_STREAM, 0)
	if err != nil {
		panic(err)
	}
	mk := func(fd int) *net.UnixConn {
		f := os.NewFile(uintptr(fd), "c11-pair")
		defer f.Close()
		c, err := net.FileConn(f)
		if err != nil {
			panic(err)
		}
		return c.(*net.UnixConn)
	}
	return mk(fds[0]), mk(fds[1])
}

// capture runs a sender against one end of a socket pair and returns every byte it put on the wire.
func capture(send func(uc *net.UnixConn) error) ([]byte, error) {
	a, b := socketpair()
	defer b.Close()
	var err error
	go func() {
		err = send(a)
		a.Close()
	}()
	b.SetReadDeadline(time.Now().Add(10 * time.Second))
	wire, rerr := io.ReadAll(b)
	if rerr != nil {
		panic(rerr)
	}
	return wire, err
}

// feed writes `wire` into a socket pair, half-closes, and hands the other end to a receiver; returns what the
// receiver left unread on the stream.
func feed(wire []byte, recv func(uc *net.UnixConn)) []byte {
	a, b := socketpair()
	defer b.Close()
	wdone := make(chan struct{})
	go func() {
		defer close(wdone)
		a.SetWriteDeadline(time.Now().Add(10 * time.Second))
		a.Write(wire)
		a.CloseWrite()
	}()
	b.SetReadDeadline(time.Now().Add(10 * time.Second))
	recv(b)
	rest, _ := io.ReadAll(b)
	<-wdone
	a.Close()
	return rest
}

func stTok(err error) string {
	if err == nil {
		return "ok"
	}
	return "short"
}

func trCase(c *hx.Ctx, data, tls, rest []byte) {
	wire, serr := capture(func(uc *net.UnixConn) error { return network.VerifTransferReadSend(uc, data, tls) })
	var d, t []byte
	var rerr error
	left := feed(append(append([]byte{}, wire...), rest...), func(uc *net.UnixConn) { d, t, rerr = network.VerifTransferReadRecv(uc) })
	c.Emit("C11", fmt.Sprintf("tr %s %s %s", hx.Hex(data), hx.Hex(tls), hx.Hex(rest)),
		fmt.Sprintf("%s %s %s %s %s %s", stTok(serr), hx.Hex(wire), stTok(rerr), hx.Hex(d), hx.Hex(t), hx.Hex(left)))
}

func twCase(c *hx.Ctx, id int, data, rest []byte) {
	wire, serr := capture(func(uc *net.UnixConn) error { return network.VerifTransferWriteSend(uc, id, data) })
	var gid int
	var d []byte
	var rerr error
	left := feed(append(append([]byte{}, wire...), rest...), func(uc *net.UnixConn) { gid, d, rerr = network.VerifTransferWriteRecv(uc) })
	c.Emit("C11", fmt.Sprintf("tw %d %s %s", id, hx.Hex(data), hx.Hex(rest)),
		fmt.Sprintf("%s %s %s %d %s %s", stTok(serr), hx.Hex(wire), stTok(rerr), gid, hx.Hex(d), hx.Hex(left)))
}

func tiCase(c *hx.Ctx, id uint64) {
	wire, serr := capture(func(uc *net.UnixConn) error { return network.VerifTransferSendID(uc, id) })
	var got uint64
	feed(wire, func(uc *net.UnixConn) { got = network.VerifTransferRecvID(uc) })
	c.Emit("C11", fmt.Sprintf("ti %d", id), fmt.Sprintf("%s %s %d", stTok(serr), hx.Hex(wire), got))
}

func thCase(c *hx.Ctx, s1, s2 uint32) {
	b := network.VerifTransferBuildHead(s1, s2)
	var r1, r2 int
	var rerr error
	feed(b, func(uc *net.UnixConn) { r1, r2, rerr = network.VerifTransferRecvHead(uc) })
	c.Emit("C11", fmt.Sprintf("th %d %d", s1, s2), fmt.Sprintf("%s %s %d %d", hx.Hex(b), stTok(rerr), r1, r2))
}

// tmCase feeds an arbitrary (malformed / truncated) byte stream to the real "transfer read" receiver.
func tmCase(c *hx.Ctx, wire []byte) {
	var d, t []byte
	var rerr error
	left := feed(wire, func(uc *net.UnixConn) { d, t, rerr = network.VerifTransferReadRecv(uc) })
	if rerr != nil {
		left = nil // what an erroring receiver consumed is unspecified
	}
	c.Emit("C11", fmt.Sprintf("tm %s", hx.Hex(wire)), fmt.Sprintf("%s %s %s %s", stTok(rerr), hx.Hex(d), hx.Hex(t), hx.Hex(left)))
}

// ttCase: the type byte, and for "transfer read" the connection's fd passed as ancillary data; the received
// connection must be the same socket (bytes written to it arrive at the original peer).
func ttCase(c *hx.Ctx, withFD bool) {
	a, b := socketpair()
	defer a.Close()
	defer b.Close()
	var peer net.Conn
	var file *os.File
	if withFD {
		l, err := net.Listen("tcp", "127.0.0.1:0")
		if err != nil {
			panic(err)
		}
		defer l.Close()
		cl, err := net.Dial("tcp", l.Addr().String())
		if err != nil {
			panic(err)
		}
		defer cl.Close()
		sv, err := l.Accept()
		if err != nil {
			panic(err)
		}
		defer sv.Close()
		peer = cl
		file, err = sv.(*net.TCPConn).File()
		if err != nil {
			panic(err)
		}
	}
	serr := network.VerifTransferSendType(a, file)
	b.SetReadDeadline(time.Now().Add(5 * time.Second))
	got, rerr := network.VerifTransferRecvType(b)
	kind, same := "write", 0
	if got != nil {
		kind = "read"
		defer got.Close()
		msg := []byte("through-the-passed-fd")
		got.Write(msg)
		buf := make([]byte, len(msg))
		peer.SetReadDeadline(time.Now().Add(5 * time.Second))
		if _, err := io.ReadFull(peer, buf); err == nil && string(buf) == string(msg) {
			same = 1
		}
	}
	w := 0
	if withFD {
		w = 1
	}
	c.Emit("C11", fmt.Sprintf("tt %d", w), fmt.Sprintf("%s %s %s %d", stTok(serr), stTok(rerr), kind, same))
}

func genBytes(c *hx.Ctx) []byte {
	r := c.Rng
	var n int
	switch r.Intn(10) {
	case 0:
		n = 0
	case 1:
		n = 1
	case 2:
		n = r.Pick([]int{7, 8, 9, 255, 256, 257})
	case 3:
		n = r.Pick([]int{4095, 4096, 4097, 65535, 65536, 65537})
	default:
		n = r.Intn(200)
	}
	b := r.Bytes(n)
	if r.Chance(15) { // bytes that look like a header of the protocol itself
		copy(b, []byte{0, 0, 0, 1, 0, 0, 0, 2, 0xff, 0xff, 0xff, 0xff})
	}
	return b
}

func runTransfer(c *hx.Ctx) {
	r := c.Rng
	// heads: boundaries of every byte of both fields
	vals := []uint32{0, 1, 2, 127, 128, 255, 256, 257, 65535, 65536, 65537, 1<<24 - 1, 1 << 24, 1<<31 - 1, 1 << 31, 1<<32 - 1}
	for _, a := range vals {
		for _, b := range vals {
			thCase(c, a, b)
			c.Count("th")
		}
	}
	for i := 0; i < c.N(60, 600); i++ {
		thCase(c, uint32(r.U64()), uint32(r.U64()))
		c.Count("th")
	}
	ttCase(c, false)
	ttCase(c, true)
	for i := 0; i < c.N(150, 1500); i++ {
		data, tls, rest := genBytes(c), genBytes(c), []byte(nil)
		if r.Chance(40) {
			tls = nil
		}
		if r.Chance(30) {
			rest = r.Bytes(1 + r.Intn(12))
		}
		trCase(c, data, tls, rest)
		c.Count(fmt.Sprintf("tr.data=%s.tls=%s", sizeClass(len(data)), sizeClass(len(tls))))
	}
	ids := []int{0, 1, 2, 255, 256, 65535, 65536, 1<<24 - 1, 1 << 24, 1<<31 - 1, 1 << 31, 1<<32 - 1}
	for i := 0; i < c.N(80, 800); i++ {
		id := ids[i%len(ids)]
		if i >= len(ids)*2 {
			id = int(uint32(r.U64()))
		}
		var rest []byte
		if r.Chance(30) {
			rest = r.Bytes(1 + r.Intn(12))
		}
		data := genBytes(c)
		twCase(c, id, data, rest)
		c.Count("tw.data=" + sizeClass(len(data)))
	}
	for i := 0; i < c.N(40, 400); i++ {
		id := uint64(ids[i%len(ids)])
		if i >= len(ids)*2 {
			id = uint64(uint32(r.U64()))
		}
		tiCase(c, id)
		c.Count("ti")
	}
	// malformed stream: truncations of valid messages, short heads, heads announcing more than what follows
	for i := 0; i < c.N(120, 1200); i++ {
		data, tls := r.Bytes(r.Intn(40)), r.Bytes(r.Intn(20))
		wire := append(append(network.VerifTransferBuildHead(uint32(len(data)), uint32(len(tls))), data...), tls...)
		switch r.Intn(4) {
		case 0: // truncated anywhere
			wire = wire[:r.Intn(len(wire)+1)]
			c.Count("tm.truncated")
		case 1: // short head
			wire = wire[:r.Intn(8)]
			c.Count("tm.short-head")
		case 2: // head announces more than follows (bounded: the receiver allocates what the head says)
			wire = append(network.VerifTransferBuildHead(uint32(len(data)+1+r.Intn(5000)), uint32(len(tls)+r.Intn(3))), append(data, tls...)...)
			c.Count("tm.overlong-head")
		default: // valid, followed by trailing bytes
			wire = append(wire, r.Bytes(r.Intn(6))...)
			c.Count("tm.valid+trailing")
		}
		tmCase(c, wire)
	}
}

func sizeClass(n int) string {
	switch {
	case n == 0:
		return "0"
	case n < 256:
		return "<256"
	case n < 4096:
		return "<4k"
	default:
		return ">=4k"
	}
}
