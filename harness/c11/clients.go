//go:build verif

package c11

// Raw protocol clients (HTTP/1, bolt, HTTP/2 prior knowledge) that can stop in the middle of a request, and the
// scripted bolt upstream. They are written against the wire formats, not against MOSN's codecs.

import (
	"bufio"
	"bytes"
	"encoding/binary"
	"fmt"
	"io"
	"net"
	"net/http"
	"strings"
	"sync"
	"sync/atomic"
	"time"

	"golang.org/x/net/http2"
	"golang.org/x/net/http2/hpack"
)

// cli is one downstream connection.
type cli interface {
	conn() net.Conn
	// request returns the bytes of one request for plan id, split into the part that precedes the point where MOSN
	// can create the stream ("head": HTTP/1 header block, bolt fixed header, HTTP/2 HEADERS frame) and the rest.
	request(id string, size int) (head, rest []byte)
	readResp(p *plan, timeout time.Duration) error
	// goAways reports the go-away notifications seen on this connection so far (waits briefly for one).
	goAways(wait time.Duration) int
}

func dialProto(proto, addr string) (cli, error) {
	c, err := net.DialTimeout("tcp", addr, 2*time.Second)
	if err != nil {
		return nil, err
	}
	switch proto {
	case "h1":
		return &h1Client{c: c, br: bufio.NewReader(c)}, nil
	case "bolt":
		return &boltClient{c: c, br: bufio.NewReader(c)}, nil
	case "h2":
		return newH2Client(c)
	}
	panic("unknown proto " + proto)
}

// quick performs one complete request whose upstream answers immediately.
func quick(k cli) error {
	id, p := newPlan(false, true, 64)
	defer plans.Delete(id)
	hd, bd := k.request(id, 10)
	k.conn().SetWriteDeadline(time.Now().Add(3 * time.Second))
	if _, err := k.conn().Write(append(append([]byte{}, hd...), bd...)); err != nil {
		return err
	}
	return k.readResp(p, 5*time.Second)
}

// ---- HTTP/1 ----

type h1Client struct {
	c  net.Conn
	br *bufio.Reader
}

func (h *h1Client) conn() net.Conn { return h.c }
func (h *h1Client) request(id string, size int) ([]byte, []byte) {
	hd := fmt.Sprintf("POST /c11/%s HTTP/1.1\r\nHost: c11.test\r\nX-Plan: %s\r\nContent-Type: text/plain\r\nContent-Length: %d\r\n\r\n", id, id, size)
	return []byte(hd), bytes.Repeat([]byte("b"), size)
}
func (h *h1Client) readResp(p *plan, timeout time.Duration) error {
	h.c.SetReadDeadline(time.Now().Add(timeout))
	resp, err := http.ReadResponse(h.br, nil)
	if err != nil {
		return err
	}
	b, err := io.ReadAll(resp.Body)
	resp.Body.Close()
	if err != nil {
		return err
	}
	if resp.StatusCode != 200 || !bytes.Equal(b, p.body) {
		return fmt.Errorf("bad response %d len %d", resp.StatusCode, len(b))
	}
	return nil
}
func (h *h1Client) goAways(time.Duration) int { return 0 } // HTTP/1 has no go-away notification

// ---- bolt v1 ----

const (
	boltReqHdr  = 22
	boltRespHdr = 20
	boltClass   = "com.alipay.sofa.rpc.core.request.SofaRequest"
)

func boltKV(kv ...string) []byte {
	var b bytes.Buffer
	for _, s := range kv {
		binary.Write(&b, binary.BigEndian, uint32(len(s)))
		b.WriteString(s)
	}
	return b.Bytes()
}

func boltRequestFrame(reqID uint32, planID string, content []byte) []byte {
	hdr := boltKV("service", "c11.service", "x-plan", planID)
	b := make([]byte, boltReqHdr)
	b[0] = 1                                   // protocol code
	b[1] = 1                                   // request
	binary.BigEndian.PutUint16(b[2:], 1)       // rpc request
	b[4] = 1                                   // version
	binary.BigEndian.PutUint32(b[5:], reqID)   // request id
	b[9] = 1                                   // codec hessian2
	binary.BigEndian.PutUint32(b[10:], 10000)  // timeout
	binary.BigEndian.PutUint16(b[14:], uint16(len(boltClass)))
	binary.BigEndian.PutUint16(b[16:], uint16(len(hdr)))
	binary.BigEndian.PutUint32(b[18:], uint32(len(content)))
	b = append(b, boltClass...)
	b = append(b, hdr...)
	return append(b, content...)
}

func boltResponseFrame(reqID uint32, content []byte) []byte {
	cls := "com.alipay.sofa.rpc.core.response.SofaResponse"
	b := make([]byte, boltRespHdr)
	b[0] = 1
	b[1] = 0                             // response
	binary.BigEndian.PutUint16(b[2:], 2) // rpc response
	b[4] = 1
	binary.BigEndian.PutUint32(b[5:], reqID)
	b[9] = 1
	binary.BigEndian.PutUint16(b[10:], 0) // status success
	binary.BigEndian.PutUint16(b[12:], uint16(len(cls)))
	binary.BigEndian.PutUint16(b[14:], 0)
	binary.BigEndian.PutUint32(b[16:], uint32(len(content)))
	b = append(b, cls...)
	return append(b, content...)
}

type boltFrame struct {
	typ     byte
	cmd     uint16
	reqID   uint32
	header  []byte
	content []byte
}

// readBoltFrame reads one bolt v1 frame (request or response layout by the type byte).
func readBoltFrame(br *bufio.Reader) (*boltFrame, error) {
	pre := make([]byte, 10)
	if _, err := io.ReadFull(br, pre); err != nil {
		return nil, err
	}
	f := &boltFrame{typ: pre[1], cmd: binary.BigEndian.Uint16(pre[2:]), reqID: binary.BigEndian.Uint32(pre[5:])}
	n := boltRespHdr - 10
	if f.typ != 0 {
		n = boltReqHdr - 10
	}
	rest := make([]byte, n)
	if _, err := io.ReadFull(br, rest); err != nil {
		return nil, err
	}
	lens := rest[n-8:]
	cl, hl, bl := int(binary.BigEndian.Uint16(lens[0:])), int(binary.BigEndian.Uint16(lens[2:])), int(binary.BigEndian.Uint32(lens[4:]))
	body := make([]byte, cl+hl+bl)
	if _, err := io.ReadFull(br, body); err != nil {
		return nil, err
	}
	f.header, f.content = body[cl:cl+hl], body[cl+hl:]
	return f, nil
}

type boltClient struct {
	c      net.Conn
	br     *bufio.Reader
	seq    uint32
	back   uint32
	goaway int
}

// rewind makes readResp expect the response of the previous request again.
func (b *boltClient) rewind() { b.back++ }

func (b *boltClient) conn() net.Conn { return b.c }
func (b *boltClient) request(id string, size int) ([]byte, []byte) {
	b.seq++
	f := boltRequestFrame(b.seq, id, bytes.Repeat([]byte("b"), size))
	return f[:boltReqHdr], f[boltReqHdr:]
}
func (b *boltClient) readResp(p *plan, timeout time.Duration) error {
	b.c.SetReadDeadline(time.Now().Add(timeout))
	want := b.seq - b.back
	b.back = 0
	for {
		f, err := readBoltFrame(b.br)
		if err != nil {
			return err
		}
		if f.typ == 1 && f.cmd == 100 { // go-away request frame from the server
			b.goaway++
			continue
		}
		if f.typ != 0 || f.cmd != 2 {
			return fmt.Errorf("unexpected bolt frame type %d cmd %d", f.typ, f.cmd)
		}
		if f.reqID != want || !bytes.Equal(f.content, p.body) {
			return fmt.Errorf("bad bolt response id %d (want %d) len %d", f.reqID, want, len(f.content))
		}
		return nil
	}
}
func (b *boltClient) goAways(wait time.Duration) int {
	if b.goaway == 0 {
		b.c.SetReadDeadline(time.Now().Add(wait))
		if f, err := readBoltFrame(b.br); err == nil && f.typ == 1 && f.cmd == 100 {
			b.goaway++
		}
	}
	return b.goaway
}

// bolt upstream: one goroutine per connection, frames answered according to the plan named in the x-plan header.
func serveBoltUpstream(l net.Listener) {
	for {
		c, err := l.Accept()
		if err != nil {
			return
		}
		go func() {
			defer c.Close()
			br := bufio.NewReader(c)
			var wmu sync.Mutex
			for {
				f, err := readBoltFrame(br)
				if err != nil {
					return
				}
				if f.cmd == 0 { // heartbeat: ack
					wmu.Lock()
					hb := make([]byte, boltRespHdr)
					hb[0], hb[1], hb[4], hb[9] = 1, 0, 1, 1
					binary.BigEndian.PutUint32(hb[5:], f.reqID)
					c.Write(hb)
					wmu.Unlock()
					continue
				}
				if f.typ != 1 || f.cmd != 1 {
					continue
				}
				id := ""
				if i := bytes.Index(f.header, []byte("x-plan")); i >= 0 && len(f.header) >= i+10 {
					n := int(binary.BigEndian.Uint32(f.header[i+6:]))
					if len(f.header) >= i+10+n {
						id = string(f.header[i+10 : i+10+n])
					}
				}
				go func(reqID uint32) {
					body := []byte("noplan")
					var p *plan
					if v, ok := plans.Load(id); ok {
						p = v.(*plan)
						body = p.body
						close(p.arrived)
					}
					out := boltResponseFrame(reqID, body)
					if p != nil && p.halfResp {
						wmu.Lock()
						c.Write(out[:len(out)/2])
						<-p.release
						c.Write(out[len(out)/2:])
						wmu.Unlock()
						return
					}
					if p != nil {
						<-p.release
					}
					wmu.Lock()
					c.Write(out)
					wmu.Unlock()
				}(f.reqID)
			}
		}()
	}
}

// ---- HTTP/2 (prior knowledge, clear text) ----

type h2Client struct {
	c      net.Conn
	fr     *http2.Framer
	wmu    sync.Mutex
	// raw request bytes may stop in the middle of a frame: control frames of the read loop (acks, window updates)
	// are held back until the raw byte stream is at a frame boundary again
	hdrHave int      // bytes of the current frame header already written
	hdr     [9]byte
	remain  int      // payload bytes of the current frame still to be written
	pending []func() // control writes waiting for a frame boundary
	enc    *hpack.Encoder
	encBuf bytes.Buffer
	nextID uint32
	back   uint32

	mu     sync.Mutex
	goaway int32
	lastID uint32 // last-stream-id of the most recent GOAWAY
	resp   map[uint32]*h2Resp
	notify chan struct{}
	rerr   error
}

type h2Resp struct {
	status string
	body   []byte
	done   bool
}

func newH2Client(c net.Conn) (*h2Client, error) {
	h := &h2Client{c: c, nextID: 1, resp: map[uint32]*h2Resp{}, notify: make(chan struct{}, 64)}
	h.enc = hpack.NewEncoder(&h.encBuf)
	if _, err := c.Write([]byte(http2.ClientPreface)); err != nil {
		return nil, err
	}
	h.fr = http2.NewFramer(c, c)
	h.fr.ReadMetaHeaders = hpack.NewDecoder(4096, nil)
	if err := h.fr.WriteSettings(); err != nil {
		return nil, err
	}
	go h.readLoop()
	return h, nil
}

func (h *h2Client) readLoop() {
	for {
		f, err := h.fr.ReadFrame()
		if err != nil {
			h.mu.Lock()
			h.rerr = err
			h.mu.Unlock()
			h.wake()
			return
		}
		switch x := f.(type) {
		case *http2.SettingsFrame:
			if !x.IsAck() {
				h.ctrl(func() { h.fr.WriteSettingsAck() })
			}
		case *http2.PingFrame:
			if !x.IsAck() {
				d := x.Data
				h.ctrl(func() { h.fr.WritePing(true, d) })
			}
		case *http2.GoAwayFrame:
			h.mu.Lock()
			h.lastID = x.LastStreamID
			h.mu.Unlock()
			atomic.AddInt32(&h.goaway, 1)
		case *http2.MetaHeadersFrame:
			h.mu.Lock()
			r := h.get(x.StreamID)
			for _, f := range x.Fields {
				if f.Name == ":status" {
					r.status = f.Value
				}
			}
			if x.StreamEnded() {
				r.done = true
			}
			h.mu.Unlock()
		case *http2.DataFrame:
			h.mu.Lock()
			r := h.get(x.StreamID)
			r.body = append(r.body, x.Data()...)
			if x.StreamEnded() {
				r.done = true
			}
			h.mu.Unlock()
			if n := len(x.Data()); n > 0 {
				sid := x.StreamID
				h.ctrl(func() {
					h.fr.WriteWindowUpdate(0, uint32(n))
					h.fr.WriteWindowUpdate(sid, uint32(n))
				})
			}
		case *http2.RSTStreamFrame:
			h.mu.Lock()
			r := h.get(x.StreamID)
			r.status = "rst"
			r.done = true
			h.mu.Unlock()
		}
		h.wake()
	}
}

func (h *h2Client) get(id uint32) *h2Resp {
	r, ok := h.resp[id]
	if !ok {
		r = &h2Resp{}
		h.resp[id] = r
	}
	return r
}
func (h *h2Client) wake() {
	select {
	case h.notify <- struct{}{}:
	default:
	}
}

func (h *h2Client) conn() net.Conn { return h2Conn{h} }

// h2Conn serialises raw writes of pre-built frames with the frames the read loop writes (acks, window updates).
type h2Conn struct{ h *h2Client }

func (w h2Conn) Write(b []byte) (int, error) {
	h := w.h
	h.wmu.Lock()
	defer h.wmu.Unlock()
	n, err := h.c.Write(b)
	for _, x := range b[:n] {
		if h.remain > 0 {
			h.remain--
			continue
		}
		h.hdr[h.hdrHave] = x
		h.hdrHave++
		if h.hdrHave == 9 {
			h.remain = int(h.hdr[0])<<16 | int(h.hdr[1])<<8 | int(h.hdr[2])
			h.hdrHave = 0
		}
	}
	if h.atBoundary() {
		for _, f := range h.pending {
			f()
		}
		h.pending = nil
	}
	return n, err
}

func (h *h2Client) atBoundary() bool { return h.hdrHave == 0 && h.remain == 0 }

// ctrl runs a control-frame write now, or after the raw stream reaches a frame boundary.
func (h *h2Client) ctrl(f func()) {
	h.wmu.Lock()
	defer h.wmu.Unlock()
	if h.atBoundary() {
		f()
	} else {
		h.pending = append(h.pending, f)
	}
}
func (w h2Conn) Read(b []byte) (int, error)         { return 0, io.EOF }
func (w h2Conn) Close() error                       { return w.h.c.Close() }
func (w h2Conn) LocalAddr() net.Addr                { return w.h.c.LocalAddr() }
func (w h2Conn) RemoteAddr() net.Addr               { return w.h.c.RemoteAddr() }
func (w h2Conn) SetDeadline(t time.Time) error      { return w.h.c.SetWriteDeadline(t) }
func (w h2Conn) SetReadDeadline(t time.Time) error  { return nil }
func (w h2Conn) SetWriteDeadline(t time.Time) error { return w.h.c.SetWriteDeadline(t) }

// request builds the HEADERS frame (head) and the DATA frames (rest) of a POST as raw bytes.
func (h *h2Client) request(id string, size int) ([]byte, []byte) {
	sid := h.nextID
	h.nextID += 2
	h.encBuf.Reset()
	for _, f := range [][2]string{{":method", "POST"}, {":scheme", "http"}, {":authority", "c11.test"}, {":path", "/c11/" + id},
		{"x-plan", id}, {"content-type", "text/plain"}, {"content-length", fmt.Sprint(size)}} {
		h.enc.WriteField(hpack.HeaderField{Name: f[0], Value: f[1]})
	}
	var hb, db bytes.Buffer
	fw := http2.NewFramer(&hb, nil)
	fw.WriteHeaders(http2.HeadersFrameParam{StreamID: sid, BlockFragment: append([]byte{}, h.encBuf.Bytes()...), EndHeaders: true, EndStream: size == 0})
	if size > 0 {
		dw := http2.NewFramer(&db, nil)
		body := bytes.Repeat([]byte("b"), size)
		// two DATA frames so that "half of the body" ends on a frame boundary as well as inside a frame
		dw.WriteData(sid, false, body[:size/3])
		dw.WriteData(sid, true, body[size/3:])
	}
	return hb.Bytes(), db.Bytes()
}

// rewind makes readResp look at the previous request again (after an extra request was begun on the connection).
func (h *h2Client) rewind() { h.back += 2 }

func (h *h2Client) readResp(p *plan, timeout time.Duration) error {
	sid := h.nextID - 2 - h.back
	h.back = 0
	dl := time.After(timeout)
	for {
		h.mu.Lock()
		r, ok := h.resp[sid]
		err := h.rerr
		var done bool
		var status string
		var body []byte
		if ok {
			done, status, body = r.done, r.status, r.body
		}
		h.mu.Unlock()
		if done {
			if status != "200" || !bytes.Equal(body, p.body) {
				return fmt.Errorf("bad h2 response %s len %d", status, len(body))
			}
			return nil
		}
		if err != nil {
			return h.classify(sid, err)
		}
		// a GOAWAY whose last-stream-id is below this stream: the server will never answer it, repeat elsewhere
		if e := h.classify(sid, nil); e == errRetryable {
			return e
		}
		select {
		case <-h.notify:
		case <-time.After(5 * time.Millisecond):
		case <-dl:
			return h.classify(sid, fmt.Errorf("h2 response timeout"))
		}
	}
}

// errRetryable: the server's GOAWAY said it did not and will not process this stream (id above its last-stream-id):
// HTTP/2 lets the client repeat the request on another connection.
var errRetryable = fmt.Errorf("retryable: stream above the GOAWAY's last-stream-id")

func (h *h2Client) classify(sid uint32, err error) error {
	h.mu.Lock()
	defer h.mu.Unlock()
	if atomic.LoadInt32(&h.goaway) > 0 && sid > h.lastID {
		return errRetryable
	}
	return err
}

func (h *h2Client) goAways(wait time.Duration) int {
	dl := time.Now().Add(wait)
	for atomic.LoadInt32(&h.goaway) == 0 && time.Now().Before(dl) {
		time.Sleep(time.Millisecond)
	}
	if atomic.LoadInt32(&h.goaway) > 0 {
		return 1 // the graceful shutdown sends two GOAWAY frames (2^31-1, then the last stream id): one notification
	}
	return 0
}

func protoName(p string) string {
	switch p {
	case "h1":
		return "Http1"
	case "h2":
		return "Http2"
	}
	return strings.ToLower(p)
}
