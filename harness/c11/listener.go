//go:build verif

package c11

// Operation sequences on the real pkg/network listener (Start / Shutdown at a given upgrade stage / Close / probe),
// with a recording ListenerEventListener: state after every operation, callbacks made, and what a new connection
// attempt experiences (accepted / connected but never accepted / refused).

import (
	"context"
	"fmt"
	"net"
	"strings"
	"sync"
	"sync/atomic"
	"time"

	"mosn.io/api"
	v2 "mosn.io/mosn/pkg/config/v2"
	"mosn.io/mosn/pkg/network"
	"mosn.io/mosn/pkg/stagemanager"
	"mosn.io/mosn/pkg/types"
	"verif/harness/hx"
)

type lsRec struct {
	mu       sync.Mutex
	accepted map[string]time.Time // remote address of accepted connections -> when
	shutdown int32
	closed   int32
}

func (e *lsRec) OnAccept(rawc net.Conn, useOriginalDst bool, oriRemoteAddr net.Addr, c chan api.Connection, buf []byte, listeners []api.ConnectionEventListener) {
	e.mu.Lock()
	e.accepted[rawc.RemoteAddr().String()] = time.Now()
	e.mu.Unlock()
	rawc.Close()
}
func (e *lsRec) OnNewConnection(ctx context.Context, conn api.Connection) {}
func (e *lsRec) OnShutdown()                                             { atomic.AddInt32(&e.shutdown, 1) }
func (e *lsRec) OnClose()                                                { atomic.AddInt32(&e.closed, 1) }
func (e *lsRec) PreStopHook(ctx context.Context) func() error            { return nil }
func (e *lsRec) wasAccepted(addr string, since time.Time) bool {
	e.mu.Lock()
	defer e.mu.Unlock()
	t, ok := e.accepted[addr]
	return ok && !t.Before(since)
}

// lsOp: "S0" start, "S1" start with the restart flag, "H<stage>" Shutdown with the stage manager in state <stage>,
// "C" close, "P" probe with a new connection.
type lsSeq struct {
	bind    bool
	inherit bool
	ops     []string
}

// runLS runs one sequence; a run disturbed by a scheduling stall is repeated.
func runLS(c *hx.Ctx, q lsSeq) {
	for attempt := 0; ; attempt++ {
		j := startJitter()
		obs, counts := runLSOnce(c, q)
		if w := j.worst(); w > maxJitter && attempt < 4 {
			c.Count("ls.repeated-after-stall")
			continue
		}
		b := func(x bool) int {
			if x {
				return 1
			}
			return 0
		}
		c.Emit("C11", fmt.Sprintf("ls %d %d %s", b(q.bind), b(q.inherit), strings.Join(q.ops, ",")), strings.Join(obs, ","))
		for _, k := range counts {
			c.Count(k)
		}
		return
	}
}

func runLSOnce(c *hx.Ctx, q lsSeq) ([]string, []string) {
	var counts []string
	var inh net.Listener
	addr := "127.0.0.1:0"
	if q.inherit {
		l, err := net.Listen("tcp", addr)
		if err != nil {
			panic(err)
		}
		inh = l
		addr = l.Addr().String()
	}
	ta, _ := net.ResolveTCPAddr("tcp", addr)
	cfg := &v2.Listener{
		ListenerConfig:  v2.ListenerConfig{Name: fmt.Sprintf("c11_ls%d", atomic.AddInt64(&lnSeq, 1)), Network: "tcp", BindToPort: q.bind},
		Addr:            ta,
		InheritListener: inh,
	}
	ln := network.NewListener(cfg)
	rec := &lsRec{accepted: map[string]time.Time{}}
	ln.SetListenerCallbacks(rec)
	defer func() {
		stagemanager.SetState(stagemanager.Running)
		ln.Close(nil)
		if inh != nil {
			inh.Close()
		}
	}()
	lastAddr := ""
	if inh != nil {
		lastAddr = addr
	}
	var loops sync.WaitGroup
	var obs []string
	for _, op := range q.ops {
		sh0, cl0 := atomic.LoadInt32(&rec.shutdown), atomic.LoadInt32(&rec.closed)
		ret := ""
		switch {
		case op == "S0" || op == "S1":
			returned := make(chan string, 1)
			loops.Add(1)
			go func() {
				defer loops.Done()
				msg, p := hx.Safe(func() { ln.Start(nil, op == "S1") })
				_ = msg
				if p {
					returned <- "panic"
				} else {
					returned <- "ret"
				}
			}()
			// either the call returns at once (ignored / not bound / panic) or it stays in the accept loop
			select {
			case r := <-returned:
				ret = r
				if r == "ret" {
					ret = "ign"
				}
			case <-time.After(100 * time.Millisecond):
				dl := time.Now().Add(5 * time.Second)
				for ret == "" {
					select {
					case r := <-returned:
						ret = "late-" + r
					default:
						if network.VerifListenerState(ln) == int(network.ListenerRunning) && listenerAccepting(ln, rec) {
							ret = "run"
						} else if time.Now().After(dl) {
							ret = "hang"
						} else {
							time.Sleep(time.Millisecond)
						}
					}
				}
			}
		case strings.HasPrefix(op, "H"):
			var st int
			fmt.Sscan(op[1:], &st)
			stagemanager.SetState(stagemanager.State(st))
			err := ln.Shutdown(nil)
			stagemanager.SetState(stagemanager.Running)
			ret = okErr(err)
			waitLoops(&loops)
		case op == "C":
			ret = okErr(ln.Close(nil))
			waitLoops(&loops)
		case op == "P":
			if a, err := listenerAddr(ln); err == nil {
				lastAddr = a
			}
			ret = probeListener(ln, rec, lastAddr)
		}
		if a, err := listenerAddr(ln); err == nil {
			lastAddr = a // the address clients know, also after the listener closed
		}
		obs = append(obs, fmt.Sprintf("%d:%d:%d:%s", network.VerifListenerState(ln),
			atomic.LoadInt32(&rec.shutdown)-sh0, atomic.LoadInt32(&rec.closed)-cl0, ret))
		counts = append(counts, "ls.op="+op[:1]+"."+ret)
	}
	return obs, counts
}

func okErr(err error) string {
	if err == nil {
		return "ok"
	}
	return "err"
}

// waitLoops waits (bounded) for accept loops that were told to stop.
func waitLoops(wg *sync.WaitGroup) {
	done := make(chan struct{})
	go func() { wg.Wait(); close(done) }()
	select {
	case <-done:
	case <-time.After(300 * time.Millisecond):
	}
}

// listenerAccepting: a connection made now is accepted (used only to know when a started accept loop is up).
func listenerAccepting(ln types.Listener, rec *lsRec) bool {
	a, err := listenerAddr(ln)
	if err != nil {
		return false
	}
	t0 := time.Now()
	cl, err := net.DialTimeout("tcp", a, time.Second)
	if err != nil {
		return false
	}
	defer cl.Close()
	dl := time.Now().Add(50 * time.Millisecond)
	for time.Now().Before(dl) {
		if rec.wasAccepted(cl.LocalAddr().String(), t0) {
			return true
		}
		time.Sleep(200 * time.Microsecond)
	}
	return false
}

// probeListener: acc = the connection is handed to OnAccept; pend = the TCP connection is established (kernel
// backlog) but nobody accepts it; ref = refused; none = the listener never had an address.
func probeListener(ln types.Listener, rec *lsRec, addr string) string {
	if addr == "" {
		return "none"
	}
	res := probeOnce(ln, rec, addr)
	// a closed listener's former port may be picked up by an unrelated socket of a parallel run: a connection that
	// is not refused while the listener reports Closed is retried; the listener's own socket would never refuse.
	for i := 0; i < 6 && res != "ref" && res != "acc" && network.VerifListenerState(ln) == int(network.ListenerClosed); i++ {
		time.Sleep(250 * time.Millisecond)
		res = probeOnce(ln, rec, addr)
	}
	return res
}

func probeOnce(ln types.Listener, rec *lsRec, addr string) string {
	t0 := time.Now()
	cl, err := net.DialTimeout("tcp", addr, time.Second)
	if err != nil {
		if strings.Contains(err.Error(), "refused") {
			return "ref"
		}
		return "err"
	}
	defer cl.Close()
	// a running accept loop accepts within microseconds; wait long only when the listener claims to be running
	wait := 60 * time.Millisecond
	if network.VerifListenerState(ln) == int(network.ListenerRunning) {
		wait = 3 * time.Second
	}
	dl := time.Now().Add(wait)
	for time.Now().Before(dl) {
		if rec.wasAccepted(cl.LocalAddr().String(), t0) {
			return "acc"
		}
		time.Sleep(200 * time.Microsecond)
	}
	return "pend"
}

// boundary sequences replayed on every run
var fixedLS = []lsSeq{
	{true, false, []string{"H13", "P", "S0", "P"}},             // stop-accept before any listen: no raw listener
	{true, false, []string{"H13", "S0", "H13", "C", "S1", "P"}}, // ... and recovery by restart
	{true, true, []string{"H13", "P", "S0", "P", "H8", "P"}},
	{true, false, []string{"C", "P", "S0", "P", "S1", "P"}},
	{true, true, []string{"C", "P", "S0", "P", "S1", "P"}},
	{true, false, []string{"S0", "P", "H13", "P", "H13", "P", "H8", "P", "H8", "P"}},
	{true, true, []string{"S0", "P", "H8", "P", "S0", "P", "S1", "P", "H13", "P", "S0", "P"}},
	{false, true, []string{"S0", "P", "H13", "P", "H8", "P", "S1", "P"}},
	{false, false, []string{"S0", "H13", "H8", "C", "S1", "P"}},
	{true, false, []string{"S0", "P", "C", "C", "H13", "P", "S0", "P"}},
}

func genLS(c *hx.Ctx) lsSeq {
	r := c.Rng
	q := lsSeq{bind: !r.Chance(12), inherit: r.Chance(40)}
	stages := []int{int(stagemanager.Running), int(stagemanager.GracefulStopping), int(stagemanager.Upgrading), int(stagemanager.Upgrading), int(stagemanager.Stopping)}
	n := 3 + r.Intn(6)
	if !r.Chance(10) {
		q.ops = append(q.ops, "S0", "P")
	}
	for len(q.ops) < n {
		switch r.Intn(9) {
		case 0:
			q.ops = append(q.ops, "S0")
		case 1:
			q.ops = append(q.ops, "S1")
		case 2, 3, 4:
			q.ops = append(q.ops, fmt.Sprintf("H%d", stages[r.Intn(len(stages))]))
		case 5:
			q.ops = append(q.ops, "C")
		default:
			q.ops = append(q.ops, "P")
		}
		if q.ops[len(q.ops)-1] != "P" && r.Chance(70) {
			q.ops = append(q.ops, "P")
		}
	}
	return q
}
