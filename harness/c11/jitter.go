//go:build verif

package c11

import (
	"sync/atomic"
	"time"
)

// jitterMonitor measures how late a 2 ms sleeper wakes up while a timing-sensitive run is in progress. A run during
// which the scheduler stalled this process (other jobs on the machine) does not meet the timing preconditions of its
// case and is repeated instead of being reported.
type jitterMonitor struct {
	stop chan struct{}
	max  int64 // nanoseconds
}

func startJitter() *jitterMonitor {
	j := &jitterMonitor{stop: make(chan struct{})}
	go func() {
		for {
			t := time.Now()
			select {
			case <-j.stop:
				return
			case <-time.After(2 * time.Millisecond):
			}
			if over := int64(time.Since(t) - 2*time.Millisecond); over > atomic.LoadInt64(&j.max) {
				atomic.StoreInt64(&j.max, over)
			}
		}
	}()
	return j
}

// worst stops the monitor and returns the worst overshoot seen.
func (j *jitterMonitor) worst() time.Duration {
	close(j.stop)
	return time.Duration(atomic.LoadInt64(&j.max))
}

const maxJitter = 25 * time.Millisecond
