//go:build verif

package c11

// Graceful stop of the in-process assembly at a generated point of a request's lifetime.

import (
	"os"
	"bytes"
	"fmt"
	"net"
	"sort"
	"strings"
	"sync"
	"sync/atomic"
	"time"

	"mosn.io/mosn/pkg/metrics"
	"mosn.io/mosn/pkg/network"
	"mosn.io/mosn/pkg/server"
	"mosn.io/mosn/pkg/stagemanager"
	"verif/harness/hx"
)

const tick = 10 * time.Millisecond // the sleep of waitConnectionsClose

var debugGS = os.Getenv("C11_DEBUG") != ""

type gsCase struct {
	proto   string // h1
	stage   int    // stagemanager state at the time Shutdown is invoked
	phase   string // pre | hdr | body | wait | resp | dfr (h2: between the DATA frames of the request body)
	idle    int    // idle keep-alive connections existing at the signal
	bg      int    // closed-loop background clients running until the in-flight request may proceed
	drain   int    // drain time in ticks
	hold    int    // ticks after the signal at which the in-flight request is allowed to proceed
	inherit bool   // listener socket inherited (hot-upgrade construction path) instead of bound by the listener
	succ    bool   // a successor server inherits the listening socket through ListenerFile before the old one shuts down
	extra   bool   // multiplexed protocols: a second request is begun on the SAME connection right after the signal
}

func (g gsCase) String() string {
	b := func(x bool) int {
		if x {
			return 1
		}
		return 0
	}
	return fmt.Sprintf("gs proto=%s stage=%d phase=%s idle=%d bg=%d drain=%d hold=%d inh=%d succ=%d extra=%d",
		g.proto, g.stage, g.phase, g.idle, g.bg, g.drain, g.hold, b(g.inherit), b(g.succ), b(g.extra))
}

var planSeq int64

func newPlan(half bool, released bool, size int) (string, *plan) {
	id := fmt.Sprintf("p%d", atomic.AddInt64(&planSeq, 1))
	p := &plan{arrived: make(chan struct{}), release: make(chan struct{}), halfResp: half, body: bytes.Repeat([]byte("r"), size)}
	if released {
		close(p.release)
	}
	plans.Store(id, p)
	return id, p
}

func okTok(err error) string {
	if err == nil {
		return "ok"
	}
	if err == errRetryable {
		return "retry"
	}
	return "fail"
}

// probeNew classifies a new connection attempt: ref (refused), pend (connected but nobody serves it), srv (served).
func probeNew(proto, addr string) string {
	k, err := dialProto(proto, addr)
	if err != nil {
		if strings.Contains(err.Error(), "refused") {
			return "ref"
		}
		return "err"
	}
	defer k.conn().Close()
	id, p := newPlan(false, true, 16)
	defer plans.Delete(id)
	hd, bd := k.request(id, 5)
	k.conn().Write(append(append([]byte{}, hd...), bd...))
	err = k.readResp(p, 250*time.Millisecond)
	if err == nil {
		return "srv"
	}
	if ne, ok := err.(net.Error); ok && ne.Timeout() || strings.Contains(err.Error(), "timeout") {
		return "pend"
	}
	return "rst"
}

// runGS runs one scenario; a run disturbed by a scheduling stall is repeated (its timing preconditions were not met).
func runGS(c *hx.Ctx, g gsCase) {
	for attempt := 0; ; attempt++ {
		j := startJitter()
		impl, counts := runGSOnce(c, g)
		if w := j.worst(); w > maxJitter && attempt < 4 {
			c.Count("gs.repeated-after-stall")
			continue
		}
		c.Emit("C11", g.String(), impl)
		for _, k := range counts {
			c.Count(k)
		}
		return
	}
}

func runGSOnce(c *hx.Ctx, g gsCase) (string, []string) {
	var counts []string
	var inh net.Listener
	if g.inherit {
		l, err := net.Listen("tcp", "127.0.0.1:0")
		if err != nil {
			panic(err)
		}
		inh = l
	}
	m := newMosn(g.proto, inh)
	m.waitRunning(network.VerifListenerState, int(network.ListenerRunning))
	defer func() {
		stagemanager.SetState(stagemanager.Running)
		m.srv.Close()
	}()

	var conns []cli
	defer func() {
		for _, k := range conns {
			k.conn().Close()
		}
	}()
	open := func() cli {
		k, err := dialProto(g.proto, m.addr)
		if err != nil {
			panic(fmt.Sprintf("dial before stop failed: %v", err))
		}
		conns = append(conns, k)
		return k
	}
	// idle keep-alive connections, each has served one request
	var idle []cli
	for i := 0; i < g.idle; i++ {
		k := open()
		if err := quick(k); err != nil {
			panic(fmt.Sprintf("warm-up request failed: %v", err))
		}
		idle = append(idle, k)
	}
	// background closed-loop clients
	var bgFail, bgRetry int32
	var bgWG sync.WaitGroup
	bgStop := make(chan struct{})
	for i := 0; i < g.bg; i++ {
		k := open()
		if err := quick(k); err != nil {
			panic(fmt.Sprintf("warm-up request failed: %v", err))
		}
		bgWG.Add(1)
		go func() {
			defer bgWG.Done()
			for {
				select {
				case <-bgStop:
					return
				default:
				}
				if err := quick(k); err != nil {
					if err == errRetryable {
						atomic.AddInt32(&bgRetry, 1)
					} else {
						atomic.AddInt32(&bgFail, 1)
					}
					return
				}
				time.Sleep(2 * time.Millisecond)
			}
		}()
	}
	// the in-flight request, advanced to the generated phase
	main := open()
	id, p := newPlan(g.phase == "resp", false, 4096)
	defer plans.Delete(id)
	hd, bd := main.request(id, 2048)
	full := append(append([]byte{}, hd...), bd...)
	sent := 0
	switch g.phase {
	case "pre":
	case "hdr":
		sent = len(hd) / 2
	case "body":
		sent = len(hd) + len(bd)/2
	case "dfr":
		// HTTP/2 only: exactly between the DATA frames of the body (the first DATA frame carries size/3 bytes)
		sent = len(hd) + 9 + 2048/3
	default:
		sent = len(full)
	}
	main.conn().SetWriteDeadline(time.Now().Add(3 * time.Second))
	if _, err := main.conn().Write(full[:sent]); err != nil {
		panic(err)
	}
	if sent == len(full) {
		select {
		case <-p.arrived:
		case <-time.After(5 * time.Second):
			panic("request did not reach the upstream")
		}
	} else {
		time.Sleep(15 * time.Millisecond) // let the partial bytes be read by the connection's read loop
		if g.proto == "h2" && (g.phase == "body" || g.phase == "dfr") {
			// precondition of the case: MOSN has processed the HEADERS frame (the stream exists and is counted) before
			// the signal; on a loaded machine 15 ms are not always enough. Bounded: a stream that never appears makes
			// the case fail as it should.
			for dl := time.Now().Add(2 * time.Second); time.Now().Before(dl) &&
				metrics.NewListenerStats(m.name).Counter(metrics.DownstreamRequestActive).Count() < 1; {
				time.Sleep(time.Millisecond)
			}
		}
	}

	// the successor (new MOSN of a hot upgrade) takes over the listening socket through the exported fd path. It is
	// started after the connections of this run exist (both processes accept on the shared socket until the old one stops).
	var succ *mosnInst
	if g.succ {
		f, err := m.ln.ListenerFile()
		if err != nil {
			panic(err)
		}
		fl, err := net.FileListener(f)
		f.Close()
		if err != nil {
			panic(err)
		}
		succ = newMosn(g.proto, fl)
		defer succ.srv.Close()
		succ.waitRunning(network.VerifListenerState, int(network.ListenerRunning))
	}

	// the signal
	server.SetDrainTime(time.Duration(g.drain) * tick)
	stagemanager.SetState(stagemanager.State(g.stage))
	t0 := time.Now()
	var tReturn time.Duration
	var shutErr error
	done := make(chan struct{})
	go func() {
		shutErr = m.srv.Shutdown()
		tReturn = time.Since(t0)
		close(done)
	}()
	// multiplexed connection: the client, which has not yet seen any go-away, begins another request on it
	extraRes := "na"
	if g.extra {
		time.Sleep(15 * time.Millisecond)
		eid, ep := newPlan(false, true, 32)
		defer plans.Delete(eid)
		eh, eb := main.request(eid, 256)
		if _, err := main.conn().Write(append(append([]byte{}, eh...), eb...)); err != nil {
			extraRes = "fail"
		} else {
			to := 60 * time.Millisecond // HTTP/2: the stream is ignored, nothing will come
			if g.proto == "bolt" {
				to = 3 * time.Second // served: the answer comes at once
			}
			extraRes = okTok(main.readResp(ep, to))
		}
		main.(interface{ rewind() }).rewind()
	}
	// the in-flight request may proceed `hold` ticks after the signal
	time.Sleep(time.Until(t0.Add(time.Duration(g.hold) * tick)))
	close(bgStop)
	tContinue := time.Since(t0)
	var reqErr error
	close(p.release)
	if sent < len(full) {
		_, reqErr = main.conn().Write(full[sent:])
	}
	if reqErr == nil {
		reqErr = main.readResp(p, 20*time.Second)
	}
	bgWG.Wait()
	select {
	case <-done:
	case <-time.After(time.Duration(g.drain)*tick + 5*time.Second):
		panic("Shutdown did not return")
	}
	exitFirst := 0
	if tReturn < tContinue {
		exitFirst = 1
	}
	counts = append(counts, fmt.Sprintf("gs.return_vs_continue_ms=%+d", roundTo((tReturn-tContinue).Milliseconds(), 50)))

	// after the listener stopped: a new connection, and a new request on an existing keep-alive connection
	newc := probeNew(g.proto, m.addr)
	for i := 0; i < 6 && newc != "ref" && network.VerifListenerState(m.ln) == int(network.ListenerClosed); i++ {
		time.Sleep(250 * time.Millisecond) // the freed port may have been taken by an unrelated socket of a parallel run
		newc = probeNew(g.proto, m.addr)
	}
	late := "na"
	if len(idle) > 0 {
		late = okTok(quick(idle[0]))
	}
	// go-away broadcast: OnShutdown events delivered per existing connection
	want := g.idle + g.bg + 1
	dl := time.Now().Add(2 * time.Second)
	var evs []string
	for {
		evs = evs[:0]
		sum := 0
		for _, r := range recsOf(m.name) {
			n := int(atomic.LoadInt32(&r.shutdown))
			sum += n
			evs = append(evs, fmt.Sprint(n))
		}
		if sum >= want || time.Now().After(dl) {
			break
		}
		time.Sleep(2 * time.Millisecond)
	}
	sort.Strings(evs)
	// go-away notifications that reached the clients (bolt go-away frame, HTTP/2 GOAWAY; HTTP/1 has none)
	cga := 0
	for _, k := range conns {
		cga += k.goAways(300 * time.Millisecond)
	}
	lst := network.VerifListenerState(m.ln)
	impl := fmt.Sprintf("req=%s new=%s exitfirst=%d goaway=%s cga=%d late=%s bgfail=%d bgretry=%d lstate=%d shut=%s extra=%s",
		okTok(reqErr), newc, exitFirst, strings.Join(evs, ","), cga, late, atomic.LoadInt32(&bgFail), atomic.LoadInt32(&bgRetry), lst, okTok(shutErr), extraRes)
	if reqErr != nil && debugGS {
		fmt.Fprintf(os.Stderr, "DEBUG %s: req error: %v\n", g.String(), reqErr)
	}
	counts = append(counts, "gs.proto="+g.proto, "gs.phase="+g.phase, fmt.Sprintf("gs.stage=%d", g.stage), "gs.new="+newc,
		fmt.Sprintf("gs.exitfirst=%d", exitFirst))
	return impl, counts
}

func roundTo(v, q int64) int64 {
	if v >= 0 {
		return (v + q/2) / q * q
	}
	return -((-v + q/2) / q * q)
}

func genGS(c *hx.Ctx, i int) gsCase {
	r := c.Rng
	phases := []string{"pre", "hdr", "body", "wait", "resp"}
	stages := []int{int(stagemanager.GracefulStopping), int(stagemanager.GracefulStopping), int(stagemanager.Running), int(stagemanager.Upgrading), int(stagemanager.Upgrading)}
	g := gsCase{proto: []string{"h1", "bolt", "h2"}[(i/len(phases))%3], phase: phases[i%len(phases)], stage: stages[r.Intn(len(stages))], idle: r.Intn(3), inherit: r.Bool()}
	g.drain = r.Pick([]int{12, 16, 20, 26})
	if g.phase == "wait" || g.phase == "resp" {
		g.bg = r.Intn(3)
		if r.Chance(70) {
			g.hold = 2 + r.Intn(g.drain-9) // completes well within the drain time
		} else {
			g.hold = g.drain + 10 + r.Intn(6) // outlives the drain time
		}
	} else {
		g.hold = 6 + r.Intn(8)
	}
	if g.stage == int(stagemanager.Upgrading) {
		g.succ = r.Chance(60)
	}
	// (not in phase resp: the scripted bolt upstream cannot interleave another frame into its half-written response)
	if g.proto != "h1" && g.phase == "wait" && g.hold >= 8 {
		g.extra = r.Chance(50)
	}
	return g
}
