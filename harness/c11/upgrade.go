//go:build verif

package c11

// Hot-upgrade hand-over inside ONE process (child of the harness binary, fresh global state): the "old" servers pass
// their listener fds over the real unix socket (sendInheritListeners through a verif hook -> GetInheritListeners), the
// "new" servers are built on the inherited sockets, the old ones run Shutdown in stage Upgrading and StopConnection,
// and the bolt connections are transferred with their buffered bytes through the real TransferServer / transferRead /
// transferWrite machinery. Two real processes, real SIGHUP and the exit of the old process are NOT exhibited.

import (
	"bytes"
	"fmt"
	"net"
	"os"
	"os/exec"
	"strings"
	"sync/atomic"
	"time"

	v2 "mosn.io/mosn/pkg/config/v2"
	"mosn.io/mosn/pkg/configmanager"
	"mosn.io/mosn/pkg/metrics"
	"mosn.io/mosn/pkg/network"
	"mosn.io/mosn/pkg/server"
	"mosn.io/mosn/pkg/stagemanager"
	"mosn.io/mosn/pkg/types"
	"verif/harness/hx"
)

type upCase struct {
	half int // bytes of the bolt frame written before the hand-over (0 < half < frame length)
	idle int // idle bolt connections
	wait int // 1: one bolt request is waiting for the upstream during the hand-over
	h1   int // 1: an HTTP/1 listener + connection exist as well (not transferable: stays with the old server)
}

func (u upCase) String() string {
	return fmt.Sprintf("up half=%d idle=%d wait=%d h1=%d", u.half, u.idle, u.wait, u.h1)
}

const upFrameContent = 600

func upOut(s string) { os.Stdout.WriteString(s + "\n") }

// newMosnOn builds a server whose listener must inherit one of the given sockets (ParseListenerConfig matches by address).
func newMosnOn(proto, addr string, inherited []net.Listener) *mosnInst {
	n := atomic.AddInt64(&lnSeq, 1)
	name := fmt.Sprintf("c11_new%d_%d", os.Getpid(), n)
	lc := &v2.Listener{ListenerConfig: v2.ListenerConfig{
		Name: name, AddrConfig: addr, BindToPort: true, Network: "tcp",
		FilterChains: []v2.FilterChain{{FilterChainConfig: v2.FilterChainConfig{Filters: []v2.Filter{
			{Type: recFilter, Config: map[string]interface{}{}},
			{Type: "proxy", Config: map[string]interface{}{
				"downstream_protocol": protoName(proto), "upstream_protocol": protoName(proto), "router_config_name": "c11_router_" + proto,
				"extend_config": map[string]interface{}{"enable_bolt_goaway": true},
			}},
		}}}},
	}}
	lc = configmanager.ParseListenerConfig(lc, inherited, nil)
	if lc.InheritListener == nil {
		panic("the new listener did not inherit a socket for " + addr)
	}
	srv := server.NewServer(&server.Config{ServerName: name}, cmFilter{}, clusterMng)
	if _, err := srv.AddListener(lc); err != nil {
		panic(err)
	}
	go srv.Start()
	return &mosnInst{srv: srv, name: name, ln: srv.Handler().FindListenerByName(name)}
}

func upChild(args []string) {
	var u upCase
	fmt.Sscan(args[0], &u.half)
	fmt.Sscan(args[1], &u.idle)
	fmt.Sscan(args[2], &u.wait)
	fmt.Sscan(args[3], &u.h1)
	time.AfterFunc(40*time.Second, func() { upOut("x:timeout"); os.Exit(98) })
	initEnv()
	types.DefaultConnReadTimeout = 100 * time.Millisecond // the read loop looks at the stop channel once per read timeout
	network.SetTransferTimeout(250 * time.Millisecond) // transferable connections move after 250-500 ms; the others are given up after 10x
	running := func(m *mosnInst) { m.waitRunning(network.VerifListenerState, int(network.ListenerRunning)) }

	oldB := newMosn("bolt", nil)
	running(oldB)
	var oldH *mosnInst
	if u.h1 == 1 {
		oldH = newMosn("h1", nil)
		running(oldH)
	}
	must := func(err error, what string) {
		if err != nil {
			upOut("x:" + what + ": " + strings.ReplaceAll(err.Error(), "\n", " "))
			os.Exit(96)
		}
	}
	dial := func(proto, addr string) cli {
		k, err := dialProto(proto, addr)
		must(err, "dial")
		return k
	}
	var idle []cli
	for i := 0; i < u.idle; i++ {
		k := dial("bolt", oldB.addr)
		must(quick(k), "warm-up")
		idle = append(idle, k)
	}
	// a frame of which only the first `half` bytes are sent before the hand-over
	hc := dial("bolt", oldB.addr)
	must(quick(hc), "warm-up")
	hid, hp := newPlan(false, true, 300)
	hh, hb := hc.request(hid, upFrameContent)
	hfull := append(append([]byte{}, hh...), hb...)
	if u.half <= 0 || u.half >= len(hfull) {
		must(fmt.Errorf("half=%d out of range (frame %d)", u.half, len(hfull)), "case")
	}
	_, err := hc.conn().Write(hfull[:u.half])
	must(err, "write half")
	// a request waiting for the upstream
	var wc cli
	var wp *plan
	if u.wait == 1 {
		wc = dial("bolt", oldB.addr)
		var wid string
		wid, wp = newPlan(false, false, 300)
		a, b := wc.request(wid, 100)
		_, err := wc.conn().Write(append(append([]byte{}, a...), b...))
		must(err, "write waiting request")
		select {
		case <-wp.arrived:
		case <-time.After(5 * time.Second):
			must(fmt.Errorf("not at the upstream"), "waiting request")
		}
	}
	var h1c cli
	if u.h1 == 1 {
		h1c = dial("h1", oldH.addr)
		must(quick(h1c), "warm-up h1")
	}
	time.Sleep(20 * time.Millisecond)

	// ---- the new server starts: listeners over the unix socket
	type inh struct {
		ls  []net.Listener
		err error
	}
	got := make(chan inh, 1)
	go func() {
		ls, _, uc, err := server.GetInheritListeners()
		if uc != nil {
			defer uc.Close()
		}
		got <- inh{ls, err}
	}()
	dl := time.Now().Add(5 * time.Second)
	for {
		if _, err := os.Stat(types.TransferListenDomainSocket); err == nil {
			break
		}
		if time.Now().After(dl) {
			must(fmt.Errorf("listen.sock did not appear"), "inherit")
		}
		time.Sleep(time.Millisecond)
	}
	sc, err := server.VerifSendInheritListeners()
	must(err, "sendInheritListeners")
	defer sc.Close()
	r := <-got
	must(r.err, "GetInheritListeners")
	upOut(fmt.Sprintf("r:fds=%d", len(r.ls)))
	newB := newMosnOn("bolt", oldB.addr, r.ls)
	running(newB)
	var newH *mosnInst
	if u.h1 == 1 {
		newH = newMosnOn("h1", oldH.addr, r.ls)
		running(newH)
	}
	go network.TransferServer(newB.srv.Handler())
	dl = time.Now().Add(5 * time.Second)
	for {
		if _, err := os.Stat(types.TransferConnDomainSocket); err == nil {
			break
		}
		if time.Now().After(dl) {
			must(fmt.Errorf("conn.sock did not appear"), "transfer server")
		}
		time.Sleep(time.Millisecond)
	}

	// ---- the old server: ReconfigureHandler's shutdownServers() in stage Upgrading, then StopConnection
	stagemanager.SetState(stagemanager.Upgrading)
	server.SetDrainTime(50 * time.Millisecond)
	must(oldB.srv.Shutdown(), "old shutdown")
	oldB.srv.Handler().StopConnection()
	if oldH != nil {
		must(oldH.srv.Shutdown(), "old h1 shutdown")
		oldH.srv.Handler().StopConnection()
	}
	upOut(fmt.Sprintf("r:oldstate=%d", network.VerifListenerState(oldB.ln)))
	// the bolt connections move after TransferTimeout + rand(TransferTimeout)
	want := u.idle + 1 + u.wait
	dl = time.Now().Add(6 * time.Second)
	for len(recsOf(newB.name)) < want && time.Now().Before(dl) {
		time.Sleep(5 * time.Millisecond)
	}
	time.Sleep(150 * time.Millisecond) // no further connection may arrive
	upOut(fmt.Sprintf("r:adopted=%d", len(recsOf(newB.name))))
	adoptedH := 0
	if newH != nil {
		adoptedH = len(recsOf(newH.name))
	}
	upOut(fmt.Sprintf("r:adoptedh1=%d", adoptedH))

	// ---- after the hand-over
	// (first the connection that stays with the old server: the old server gives such connections up 10 x TransferTimeout
	// after StopConnection, long after it has exited in a real upgrade)
	h1res := "na"
	if h1c != nil {
		h1res = okTok(quick(h1c))
	}
	_, err = hc.conn().Write(hfull[u.half:])
	if err == nil {
		err = hc.readResp(hp, 5*time.Second)
	}
	upOut("r:half=" + okTok(err))
	if err != nil && os.Getenv("C11_DEBUG") != "" {
		fmt.Fprintln(os.Stderr, "half-error:", err)
	}
	if wc != nil {
		close(wp.release)
		upOut("r:wait=" + okTok(wc.readResp(wp, 5*time.Second)))
	} else {
		upOut("r:wait=na")
	}
	res := "ok"
	for _, k := range idle {
		if err := quick(k); err != nil {
			res = "fail"
		}
	}
	if len(idle) == 0 {
		res = "na"
	}
	upOut("r:idle=" + res)
	upOut("r:h1=" + h1res)
	upOut("r:new=" + probeNew("bolt", oldB.addr))
	// which server worked: requests begun on each listener (the waiting request began on the old one)
	upOut(fmt.Sprintf("r:newreq=%d", metrics.NewListenerStats(newB.name).Counter(metrics.DownstreamRequestTotal).Count()))
	os.Exit(0)
}

func runUP(c *hx.Ctx, u upCase) {
	cmd := exec.Command(os.Args[0], "C11", "upchild", fmt.Sprint(u.half), fmt.Sprint(u.idle), fmt.Sprint(u.wait), fmt.Sprint(u.h1))
	var elog bytes.Buffer
	if os.Getenv("C11_UPLOG") != "" {
		cmd.Stderr = &elog
	}
	out, err := cmd.Output()
	out = append(out, elog.Bytes()...)
	if d := os.Getenv("C11_UPLOG"); d != "" && strings.Contains(string(out), "=fail") {
		os.WriteFile(fmt.Sprintf("%s/up_%d_%d.log", d, os.Getpid(), time.Now().UnixNano()), out, 0o644)
	}
	code := 0
	if err != nil {
		if ee, ok := err.(*exec.ExitError); ok {
			code = ee.ExitCode()
		} else {
			panic(err)
		}
	}
	var res []string
	for _, l := range strings.Split(string(out), "\n") {
		if strings.HasPrefix(l, "r:") {
			res = append(res, l[2:])
		} else if strings.HasPrefix(l, "x:") {
			res = append(res, "error="+hx.Tok(l[2:]))
		}
	}
	res = append(res, fmt.Sprintf("exit=%d", code))
	c.Emit("C11", u.String(), strings.Join(res, " "))
	c.Count("up")
}

func genUP(c *hx.Ctx, i int) upCase {
	r := c.Rng
	frame := boltReqHdr + len(boltClass) + len(boltKV("service", "c11.service", "x-plan", "p2")) + upFrameContent
	u := upCase{idle: r.Intn(3), wait: r.Intn(2), h1: r.Intn(2)}
	switch i % 4 {
	case 0:
		u.half = 1 + r.Intn(boltReqHdr-1) // inside the fixed header
	case 1:
		u.half = boltReqHdr + r.Intn(len(boltClass)+40) // inside class / header block
	case 2:
		u.half = frame - 1 - r.Intn(upFrameContent-1) // inside the content
	default:
		// boundaries: around the fixed header, the last byte, and the size classes of the byte pool (a buffer
		// that is exactly full when it is handed over)
		u.half = r.Pick([]int{1, boltReqHdr - 1, boltReqHdr, boltReqHdr + 1, frame - 1, 63, 64, 65, 128, 256, 512})
	}
	return u
}
