//go:build verif

package c11

// Which listener of the NEW process adopts a handed-over connection.
//
// Kind tl: the real transferFindListen (verif hook) against a real connHandler holding generated listeners (never
// started: only their configured addresses matter) and generated local addresses (4-byte / IPv4-mapped / IPv6 / zoned
// TCP addresses, wildcards, unix paths, a UDP address for the default branch).
//
// Kind tf: the real hand-over of ONE connection inside this process: real listening sockets of the "old" side on
// [::]:0 / 0.0.0.0:0 / 127.0.0.1:0 / [::1]:0, an IPv4 or IPv6 client, half of a bolt request sent and read by the old
// side, then transferRead (old half) -> unix socket -> transferHandler -> transferNewConn -> transferFindListen ->
// activeListener.OnAccept (new half) against a real server holding the new configuration's listeners; afterwards the
// client completes the request on the adopted connection.

import (
	"bufio"
	"fmt"
	"io"
	"net"
	"os"
	"strconv"
	"strings"
	"sync"
	"sync/atomic"
	"syscall"
	"time"

	v2 "mosn.io/mosn/pkg/config/v2"
	"mosn.io/mosn/pkg/network"
	"mosn.io/mosn/pkg/server"
	"mosn.io/mosn/pkg/types"
	"verif/harness/hx"
)

type lkListener struct {
	network string // tcp | udp | unix
	addr    string // address text to resolve
	bind    bool
}

func lkResolve(l lkListener) net.Addr {
	var a net.Addr
	var err error
	switch l.network {
	case "udp":
		a, err = net.ResolveUDPAddr("udp", l.addr)
	case "unix":
		a, err = net.ResolveUnixAddr("unix", l.addr)
	default:
		a, err = net.ResolveTCPAddr("tcp", l.addr)
	}
	if err != nil {
		panic(err)
	}
	return a
}

func lkConfig(name string, l lkListener) *v2.Listener {
	return &v2.Listener{
		ListenerConfig: v2.ListenerConfig{Name: name, Network: l.network, BindToPort: l.bind, FilterChains: boltChain()},
		Addr:           lkResolve(l),
	}
}

// lkToken prints the listeners as the look-up sees them: Addr().Network() | Addr().String()
func lkToken(ls []types.Listener, sub func(string) string) string {
	if len(ls) == 0 {
		return "-"
	}
	var t []string
	for _, l := range ls {
		t = append(t, l.Addr().Network()+"|"+sub(l.Addr().String()))
	}
	return strings.Join(t, ",")
}

func lkIndex(ls []types.Listener, l types.Listener) string {
	if l == nil {
		return "-"
	}
	for i, x := range ls {
		if x == l {
			return fmt.Sprint(i)
		}
	}
	return "?"
}

// lkLocalToks: kind, Network(), String(), decimal port, To4() != nil
func lkLocalToks(a net.Addr, sub func(string) string) string {
	switch x := a.(type) {
	case *net.TCPAddr:
		v4 := 0
		if x.IP.To4() != nil {
			v4 = 1
		}
		return fmt.Sprintf("tcp %s %s %d %d", x.Network(), sub(x.String()), x.Port, v4)
	case *net.UnixAddr:
		return fmt.Sprintf("unix %s %s 0 0", x.Network(), x.String())
	}
	return fmt.Sprintf("other %s %s 0 0", a.Network(), sub(a.String()))
}

var lkSeq int64

func lkName() string { return fmt.Sprintf("c11_t%d_%d", os.Getpid(), atomic.AddInt64(&lkSeq, 1)) }

var lkTcpHosts = []string{"0.0.0.0", "[::]", "127.0.0.1", "[::1]", "10.1.2.3", "[fe80::1%lo]", "[2001:db8::7]"}
var lkPorts = []int{80, 2045, 2046}

func runTL(c *hx.Ctx, fixed *[2]interface{}) {
	r := c.Rng
	h := server.NewHandler(cmFilter{}, clusterMng)
	var cfgs []lkListener
	var local net.Addr
	if fixed != nil {
		cfgs = fixed[0].([]lkListener)
		local = fixed[1].(net.Addr)
	} else {
		port := r.Pick(lkPorts)
		n := r.Intn(5)
		for i := 0; i < n; i++ {
			p := port
			if r.Chance(25) {
				p = r.Pick(lkPorts)
			}
			switch r.Intn(10) {
			case 0:
				cfgs = append(cfgs, lkListener{"udp", fmt.Sprintf("%s:%d", lkTcpHosts[r.Intn(len(lkTcpHosts))], p), true})
			case 1:
				cfgs = append(cfgs, lkListener{"unix", fmt.Sprintf("/tmp/c11_%d.sock", r.Intn(2)), true})
			default:
				hosts := lkTcpHosts
				if r.Chance(60) {
					hosts = lkTcpHosts[:4]
				}
				cfgs = append(cfgs, lkListener{"tcp", fmt.Sprintf("%s:%d", hosts[r.Intn(len(hosts))], p), !r.Chance(20)})
			}
		}
		switch r.Intn(12) {
		case 0:
			local = &net.UnixAddr{Name: fmt.Sprintf("/tmp/c11_%d.sock", r.Intn(2)), Net: "unix"}
		case 1:
			local = &net.UDPAddr{IP: net.IPv4(127, 0, 0, 1), Port: port}
		default:
			ips := []net.IP{net.IPv4(127, 0, 0, 1).To4(), net.IPv4(127, 0, 0, 1), net.ParseIP("::1"), net.IPv4(10, 1, 2, 3),
				net.ParseIP("2001:db8::7"), net.IPv4zero, net.IPv6unspecified, net.IPv4(192, 168, 0, 9).To4()}
			ta := &net.TCPAddr{IP: ips[r.Intn(len(ips))], Port: port}
			if r.Chance(8) {
				ta = &net.TCPAddr{IP: net.ParseIP("fe80::1"), Zone: "lo", Port: port}
			}
			local = ta
		}
	}
	var ls []types.Listener
	for _, l := range cfgs {
		// (a connection handler holds one listener per name; equal addresses under different names are allowed)
		name := lkName()
		if _, err := h.AddOrUpdateListener(lkConfig(name, l)); err != nil {
			panic(err)
		}
		ls = append(ls, h.FindListenerByName(name))
	}
	id := func(s string) string { return s }
	got := network.VerifTransferFindListen(local, h)
	c.Emit("C11", fmt.Sprintf("tl %s %s", lkToken(ls, id), lkLocalToks(local, id)), lkIndex(ls, got))
	if got == nil {
		c.Count("tl.none")
	} else {
		c.Count("tl.found")
	}
}

var fixedTL = [][2]interface{}{
	// an IPv4 peer of a dual-stack listener, as a 16-byte (IPv4-mapped) and as a 4-byte address
	{[]lkListener{{"tcp", "[::]:2045", true}}, net.Addr(&net.TCPAddr{IP: net.IPv4(127, 0, 0, 1), Port: 2045})},
	{[]lkListener{{"tcp", "0.0.0.0:80", true}, {"udp", "[::]:2045", true}, {"tcp", "[::]:2045", true}}, net.Addr(&net.TCPAddr{IP: net.IPv4(127, 0, 0, 1).To4(), Port: 2045})},
	{[]lkListener{{"tcp", "[::]:2045", true}}, net.Addr(&net.TCPAddr{IP: net.ParseIP("::1"), Port: 2045})},
	{[]lkListener{{"tcp", "0.0.0.0:2045", true}}, net.Addr(&net.TCPAddr{IP: net.ParseIP("::1"), Port: 2045})},
	{[]lkListener{{"tcp", "0.0.0.0:80", true}, {"tcp", "127.0.0.1:80", false}}, net.Addr(&net.TCPAddr{IP: net.IPv4(127, 0, 0, 1), Port: 80})},
	{[]lkListener{{"tcp", "[::]:80", true}, {"tcp", "0.0.0.0:80", true}}, net.Addr(&net.TCPAddr{IP: net.ParseIP("::1"), Port: 80})},
	{[]lkListener{{"unix", "/tmp/c11_0.sock", true}}, net.Addr(&net.UnixAddr{Name: "/tmp/c11_0.sock", Net: "unix"})},
	{[]lkListener{}, net.Addr(&net.TCPAddr{IP: net.IPv4(127, 0, 0, 1), Port: 80})},
}

// ---- kind tf: the real hand-over ----

type tfCase struct {
	old    []string     // host part of the old side's listening sockets ("[::]", "0.0.0.0", "127.0.0.1", "[::1]"), all on one port
	target int          // which old socket the client connects to
	fam    int          // 4 | 6: address family of the client
	newLs  []lkListener // the new process's listeners; "P" in the address = the old port, "Q" = another port
	half   int          // bytes of the bolt frame sent (and read by the old side) before the hand-over
}

var (
	tfV6Once sync.Once
	tfV6     bool
)

func tfHaveV6() bool {
	tfV6Once.Do(func() {
		l, err := net.Listen("tcp", "[::1]:0")
		if err == nil {
			l.Close()
			tfV6 = true
		}
	})
	return tfV6
}

func (t tfCase) needsV6() bool {
	if t.fam == 6 {
		return true
	}
	for _, h := range t.old {
		if strings.HasPrefix(h, "[") {
			return true
		}
	}
	return false
}

// runTF returns false when the case could not be set up (socket combination not bindable here).
func runTF(c *hx.Ctx, t tfCase) bool {
	initEnv()
	if t.needsV6() && !tfHaveV6() {
		c.Count("tf.skipped-no-ipv6")
		return false
	}
	// ---- old side: real sockets on one port
	var socks []net.Listener
	defer func() {
		for _, s := range socks {
			s.Close()
		}
	}()
	first, err := net.Listen("tcp", t.old[0]+":0")
	if err != nil {
		c.Count("tf.skipped-bind")
		return false
	}
	socks = append(socks, first)
	port := first.Addr().(*net.TCPAddr).Port
	for _, h := range t.old[1:] {
		s, err := net.Listen("tcp", fmt.Sprintf("%s:%d", h, port))
		if err != nil {
			c.Count("tf.skipped-bind")
			return false
		}
		socks = append(socks, s)
	}
	other := port + 1
	if other > 65000 {
		other = port - 1
	}
	sub := func(s string) string {
		s = strings.ReplaceAll(s, ":"+strconv.Itoa(port), ":7001")
		return strings.ReplaceAll(s, ":"+strconv.Itoa(other), ":7002")
	}
	// ---- new side: a real server with the new configuration's listeners (not started: the sockets belong to the old side)
	srv := server.NewServer(&server.Config{ServerName: lkName()}, cmFilter{}, clusterMng)
	defer srv.Close()
	var ls []types.Listener
	var names []string
	for _, l := range t.newLs {
		l.addr = strings.ReplaceAll(strings.ReplaceAll(l.addr, "P", strconv.Itoa(port)), "Q", strconv.Itoa(other))
		name := lkName()
		if _, err := srv.AddListener(lkConfig(name, l)); err != nil {
			panic(err)
		}
		names = append(names, name)
		ls = append(ls, srv.Handler().FindListenerByName(name))
	}
	// the transfer socket of the new process (what TransferServer does: accept, one transferHandler per connection)
	syscall.Unlink(types.TransferConnDomainSocket)
	ul, err := net.Listen("unix", types.TransferConnDomainSocket)
	if err != nil {
		panic(err)
	}
	defer ul.Close()
	var tmap sync.Map
	go func() {
		for {
			uc, err := ul.Accept()
			if err != nil {
				return
			}
			go network.VerifTransferHandler(uc, srv.Handler(), &tmap)
		}
	}()

	// ---- the client and the connection accepted by the old side
	dst := "127.0.0.1"
	nw := "tcp4"
	if t.fam == 6 {
		dst, nw = "[::1]", "tcp6"
	}
	type acc struct {
		c   net.Conn
		err error
	}
	accCh := make(chan acc, 1)
	go func() {
		socks[t.target].(*net.TCPListener).SetDeadline(time.Now().Add(3 * time.Second))
		k, err := socks[t.target].Accept()
		accCh <- acc{k, err}
	}()
	raw, err := net.DialTimeout(nw, fmt.Sprintf("%s:%d", dst, port), 2*time.Second)
	if err != nil {
		c.Count("tf.skipped-dial")
		return false
	}
	cl := &boltClient{c: raw}
	cl.br = bufio.NewReader(raw)
	defer raw.Close()
	a := <-accCh
	if a.err != nil {
		c.Count("tf.skipped-accepted-elsewhere") // another socket of the port took the connection
		return false
	}
	srvConn := a.c
	local := srvConn.LocalAddr()
	id, p := newPlan(false, true, 200)
	defer plans.Delete(id)
	hd, bd := cl.request(id, 300)
	full := append(append([]byte{}, hd...), bd...)
	half := t.half
	if half >= len(full) {
		half = len(full) - 1
	}
	raw.SetWriteDeadline(time.Now().Add(3 * time.Second))
	if _, err := raw.Write(full[:half]); err != nil {
		panic(err)
	}
	buffered := make([]byte, half)
	srvConn.SetReadDeadline(time.Now().Add(3 * time.Second))
	if _, err := io.ReadFull(srvConn, buffered); err != nil {
		panic(err)
	}
	srvConn.SetReadDeadline(time.Time{})

	// ---- the hand-over
	newID, terr := network.VerifTransferRead(srvConn, buffered)
	srvConn.Close() // the old process's descriptor; the new process holds its own
	idTok := "0"
	if terr != nil {
		idTok = "err"
	} else if newID != 0 {
		idTok = "1"
	}
	by := "-"
	dl := time.Now().Add(2 * time.Second)
	for by == "-" && idTok == "1" && time.Now().Before(dl) {
		for i, n := range names {
			if len(recsOf(n)) > 0 {
				by = fmt.Sprint(i)
			}
		}
		time.Sleep(time.Millisecond)
	}
	req := "fail"
	to := 3 * time.Second
	if idTok != "1" {
		to = 150 * time.Millisecond // nobody holds the connection any more
	}
	if _, err := raw.Write(full[half:]); err == nil {
		if err := cl.readResp(p, to); err == nil {
			req = "ok"
		}
	}
	accIdx := "-"
	oldAddr := strings.ReplaceAll(t.old[t.target]+":P", "P", strconv.Itoa(port)) // as configured ("0.0.0.0:p" opens [::]:p)
	for i, l := range ls {
		if l.Addr().Network() == "tcp" && l.Addr().String() == oldAddr {
			accIdx = fmt.Sprint(i)
			break
		}
	}
	v4 := 0
	if local.(*net.TCPAddr).IP.To4() != nil {
		v4 = 1
	}
	c.Emit("C11", fmt.Sprintf("tf %s acc=%s fam=%d half=%d", lkToken(ls, sub), accIdx, t.fam, half),
		fmt.Sprintf("local=%s v4=%d id=%s by=%s req=%s", sub(local.String()), v4, idTok, by, req))
	c.Count("tf.id=" + idTok)
	c.Count(fmt.Sprintf("tf.old=%s.fam=%d", strings.Join(t.old, "+"), t.fam))
	return true
}

// boundary hand-overs replayed on every run
var fixedTF = []tfCase{
	{old: []string{"[::]"}, fam: 4, newLs: []lkListener{{"tcp", "[::]:P", true}}, half: 28},
	{old: []string{"[::]"}, fam: 6, newLs: []lkListener{{"tcp", "[::]:P", true}}, half: 28},
	{old: []string{"0.0.0.0"}, fam: 4, newLs: []lkListener{{"tcp", "0.0.0.0:P", true}}, half: 64},
	{old: []string{"0.0.0.0"}, fam: 6, newLs: []lkListener{{"tcp", "0.0.0.0:P", true}}, half: 22},
	{old: []string{"[::]"}, fam: 4, newLs: []lkListener{{"tcp", "0.0.0.0:Q", true}, {"tcp", "[::]:Q", true}, {"tcp", "[::]:P", true}}, half: 1},
}

func genTF(c *hx.Ctx, i int) tfCase {
	r := c.Rng
	t := tfCase{fam: 4}
	virt := lkListener{"tcp", "127.0.0.1:P", false}
	switch i % 10 {
	case 0: // dual stack, IPv4 peer
		t.old, t.newLs = []string{"[::]"}, []lkListener{{"tcp", "[::]:P", true}}
	case 1: // dual stack, IPv6 peer
		t.old, t.fam, t.newLs = []string{"[::]"}, 6, []lkListener{{"tcp", "[::]:P", true}}
	case 2: // configured on the IPv4 wildcard (Go opens a dual-stack socket for it): IPv4 or IPv6 peer
		t.old, t.newLs = []string{"0.0.0.0"}, []lkListener{{"tcp", "0.0.0.0:P", true}}
		if r.Chance(40) {
			t.fam = 6
		}
	case 3:
		t.old, t.newLs = []string{"127.0.0.1"}, []lkListener{{"tcp", "127.0.0.1:P", true}}
	case 4:
		t.old, t.fam, t.newLs = []string{"[::1]"}, 6, []lkListener{{"tcp", "[::1]:P", true}}
	case 5: // a listener that binds no port on exactly the connection's address, next to the wildcard owner
		t.old, t.newLs = []string{r.PickS([]string{"0.0.0.0", "[::]"})}, []lkListener{{"tcp", "W:P", true}, virt}
		t.newLs[0].addr = t.old[0] + ":P"
		if r.Bool() {
			t.newLs[0], t.newLs[1] = t.newLs[1], t.newLs[0]
		}
	case 6: // two sockets on one port: IPv4 and IPv6 loopback
		t.old, t.newLs = []string{"127.0.0.1", "[::1]"}, []lkListener{{"tcp", "127.0.0.1:P", true}, {"tcp", "[::1]:P", true}}
		if r.Bool() {
			t.fam, t.target = 6, 1
		}
	case 7: // the new configuration no longer has the listener
		t.old, t.newLs = []string{r.PickS([]string{"0.0.0.0", "[::]", "127.0.0.1"})}, []lkListener{{"tcp", "0.0.0.0:Q", true}}
		if r.Bool() {
			t.newLs = nil
		}
	case 8: // the new configuration moved from the IPv6 to the IPv4 wildcard
		t.old, t.newLs = []string{"[::]"}, []lkListener{{"tcp", "0.0.0.0:P", true}}
		if r.Bool() {
			t.fam = 6
		}
	default: // ... or from the IPv4 to the IPv6 wildcard
		t.old, t.newLs = []string{"0.0.0.0"}, []lkListener{{"tcp", "[::]:P", true}}
	}
	// distractors on another port, a UDP listener on the same address text
	for k := r.Intn(3); k > 0; k-- {
		d := lkListener{"tcp", r.PickS([]string{"0.0.0.0:Q", "[::]:Q", "127.0.0.1:Q"}), true}
		if r.Chance(25) {
			d = lkListener{"udp", r.PickS([]string{"0.0.0.0:P", "[::]:P"}), true}
		}
		if r.Bool() {
			t.newLs = append([]lkListener{d}, t.newLs...)
		} else {
			t.newLs = append(t.newLs, d)
		}
	}
	frame := boltReqHdr + len(boltClass) + 40 + 300
	t.half = r.Pick([]int{1, boltReqHdr - 1, boltReqHdr, 28, 63, 64, 65, 128, frame - 1, 1 + r.Intn(frame-2)})
	return t
}
