//go:build verif

package c11

// hwl: a LARGE write of the old process is IN PROGRESS when the hand-over of its connection is triggered. The accepted
// socket gets a small send buffer and the client does not read, so the real connection.Write (-> writeDirectly ->
// doWrite -> writev loop) is blocked on a full socket after a part of the response. Then the real connection.transfer()
// is started. The harness observes whether the old side dials the transfer socket (= the descriptor leaves) while that
// write is still in progress (`early`); then the new side (real transferHandler -> adopted connection) writes a frame
// of its own on the adopted connection, the old side issues further writes (diverted -> forwarded), the client reads
// everything, and the received stream is compared with write1 ++ write2 ++ write3… byte by byte.

import (
	"bytes"
	"encoding/binary"
	"fmt"
	"net"
	"sync"
	"sync/atomic"
	"syscall"
	"time"

	"mosn.io/api"
	"mosn.io/mosn/pkg/network"
	"mosn.io/mosn/pkg/server"
	"mosn.io/mosn/pkg/types"
	"mosn.io/pkg/buffer"
	"verif/harness/hx"
)

type c11w9Case struct {
	sz int // bytes of the write in progress
	f2 int // bytes of the frame the new process writes
	n3 int // further writes of the old process after the hand-over (diverted)
}

// c11w9Frame: 0xC2, id, 4-byte length, then a payload that depends on the id and the position (a frame inserted into
// another one is visible at the first byte).
func c11w9Frame(id byte, n int, seed uint64) []byte {
	b := make([]byte, 6+n)
	b[0], b[1] = 0xC2, id
	binary.BigEndian.PutUint32(b[2:], uint32(n))
	x := seed*0x9E3779B97F4A7C15 + uint64(id)
	for i := 0; i < n; i++ {
		x ^= x << 13
		x ^= x >> 7
		x ^= x << 17
		b[6+i] = byte(x>>24) | 1 // never 0xC2's neighbour pattern by accident: payload bytes are odd, 0xC2 is even
	}
	return b
}

func runC11w9(c *hx.Ctx, h c11w9Case) bool {
	initEnv()
	ln, err := net.Listen("tcp", "127.0.0.1:0")
	if err != nil {
		c.Count("hwl.skipped-bind")
		return false
	}
	defer ln.Close()
	srv := server.NewServer(&server.Config{ServerName: lkName()}, cmFilter{}, clusterMng)
	defer srv.Close()
	name := lkName()
	if _, err := srv.AddListener(lkConfig(name, lkListener{network: "tcp", addr: ln.Addr().String(), bind: true})); err != nil {
		panic(err)
	}
	syscall.Unlink(types.TransferConnDomainSocket)
	ul, err := net.Listen("unix", types.TransferConnDomainSocket)
	if err != nil {
		panic(err)
	}
	defer ul.Close()
	accepted := make(chan net.Conn, 64)
	go func() {
		for {
			uc, err := ul.Accept()
			if err != nil {
				close(accepted)
				return
			}
			accepted <- uc
		}
	}()
	accCh := make(chan net.Conn, 1)
	go func() {
		ln.(*net.TCPListener).SetDeadline(time.Now().Add(3 * time.Second))
		k, _ := ln.Accept()
		accCh <- k
	}()
	cl, err := net.DialTimeout("tcp", ln.Addr().String(), 2*time.Second)
	if err != nil {
		c.Count("hwl.skipped-dial")
		return false
	}
	defer cl.Close()
	srvConn := <-accCh
	if srvConn == nil {
		c.Count("hwl.skipped-accept")
		return false
	}
	defer srvConn.Close()
	cl.(*net.TCPConn).SetReadBuffer(16 << 10)
	srvConn.(*net.TCPConn).SetWriteBuffer(16 << 10)

	seed := c.Rng.U64()
	want := [][]byte{c11w9Frame(1, h.sz, seed), c11w9Frame(2, h.f2, seed)}
	for i := 0; i < h.n3; i++ {
		want = append(want, c11w9Frame(byte(3+i), 1+c.Rng.Intn(300), seed))
	}
	all := bytes.Join(want, nil)

	// ---- write 1 begins; the client does not read
	old := network.VerifNewHandover(srvConn, nil)
	var werr int64
	w1done := make(chan struct{})
	go func() {
		defer close(w1done)
		if err := old.Write(want[0]); err != nil {
			atomic.AddInt64(&werr, 1)
		}
	}()
	select {
	case <-w1done:
		c.Count("hwl.skipped-not-blocked") // the kernel took the whole write: nothing is in progress
		old.Stop()
		return false
	case <-time.After(120 * time.Millisecond):
	}

	// ---- the hand-over is triggered while write 1 is blocked inside doWrite
	tdone := make(chan struct{})
	go func() { defer close(tdone); hx.Safe(old.Transfer) }()
	var first net.Conn
	early := 0
	select {
	case first = <-accepted:
		select {
		case <-w1done: // cannot be: nobody reads
		default:
			early = 1
		}
	case <-time.After(250 * time.Millisecond):
	}

	// the client begins to read
	var got []byte
	var gmu sync.Mutex
	var writersDone int64
	rdone := make(chan struct{})
	startReader := func() {
		go func() {
			defer close(rdone)
			buf := make([]byte, 64<<10)
			dl := time.Now().Add(12 * time.Second)
			for {
				gmu.Lock()
				n := len(got)
				gmu.Unlock()
				to := 1500 * time.Millisecond
				if n >= len(all) {
					to = 80 * time.Millisecond // nothing more may follow
				}
				if time.Now().After(dl) {
					return
				}
				cl.SetReadDeadline(time.Now().Add(to))
				k, err := cl.Read(buf)
				gmu.Lock()
				got = append(got, buf[:k]...)
				gmu.Unlock()
				if ne, ok := err.(net.Error); ok && ne.Timeout() && n < len(all) && atomic.LoadInt64(&writersDone) == 0 {
					continue // a loaded machine: the writers are not through yet
				}
				if err != nil {
					return
				}
			}
		}()
	}
	w1fin := 0
	if early == 0 {
		startReader()
		select {
		case <-w1done:
			w1fin = 1
		case <-time.After(8 * time.Second):
		}
		select {
		case first = <-accepted:
		case <-time.After(3 * time.Second):
		}
	}
	// ---- the new side adopts the connection and writes a frame of its own
	var tmap sync.Map
	adopted := 0
	var nc api.Connection
	if first != nil {
		network.VerifTransferHandler(first, srv.Handler(), &tmap)
		tmap.Range(func(k, v interface{}) bool {
			if x, ok := v.(api.Connection); ok {
				nc = x
				adopted = 1
			}
			return true
		})
	}
	stop := make(chan struct{})
	hdone := make(chan struct{})
	go func() {
		defer close(hdone)
		for {
			select {
			case uc, ok := <-accepted:
				if !ok {
					return
				}
				network.VerifTransferHandler(uc, srv.Handler(), &tmap)
			case <-stop:
				return
			}
		}
	}()
	w2done := make(chan struct{})
	go func() {
		defer close(w2done)
		if nc != nil {
			if err := nc.Write(buffer.NewIoBufferBytes(want[1])); err != nil {
				atomic.AddInt64(&werr, 1)
			}
		}
	}()
	if early == 1 {
		time.Sleep(60 * time.Millisecond) // the new side's write has reached the socket (or waits for room, like write 1)
		startReader()
		select {
		case <-w1done:
			w1fin = 1
		case <-time.After(8 * time.Second):
		}
	}
	select {
	case <-w2done:
	case <-time.After(5 * time.Second):
	}
	// ---- further writes of the old process: diverted, forwarded, written by the new side
	w3done := make(chan struct{})
	go func() {
		defer close(w3done)
		for i := 0; i < h.n3; i++ {
			if err := old.Write(want[2+i]); err != nil {
				atomic.AddInt64(&werr, 1)
			}
		}
	}()
	select {
	case <-w3done:
	case <-time.After(5 * time.Second):
	}
	atomic.StoreInt64(&writersDone, 1)
	<-rdone
	old.Stop()
	select {
	case <-tdone:
	case <-time.After(2 * time.Second):
	}
	close(stop)
	ul.Close()
	<-hdone

	gmu.Lock()
	g := got
	gmu.Unlock()
	stream := "intact"
	switch {
	case bytes.Equal(g, all):
	case len(g) < len(all) && bytes.Equal(g, all[:len(g)]):
		stream = "short"
	case len(g) > len(all) && bytes.Equal(g[:len(all)], all):
		stream = "long"
	default:
		stream = "corrupt"
	}
	c.Emit("C11", fmt.Sprintf("hwl sz=%d f2=%d n3=%d", h.sz, h.f2, h.n3),
		fmt.Sprintf("early=%d w1fin=%d adopted=%d werr=%d stream=%s", early, w1fin, adopted, atomic.LoadInt64(&werr), stream))
	c.Count(fmt.Sprintf("hwl.sz=%dMiB", (h.sz+(1<<20)-1)>>20))
	c.Count(fmt.Sprintf("hwl.n3=%d", h.n3))
	return true
}

func runC11w9BigWrites(c *hx.Ctx) {
	for _, h := range []c11w9Case{{sz: 1 << 20, f2: 64, n3: 0}, {sz: 8 << 20, f2: 1, n3: 2}} {
		runC11w9(c, h)
	}
	for i := 0; i < c.N(2, 10); i++ {
		runC11w9(c, c11w9Case{sz: 1<<20 + c.Rng.Intn(7<<20+1), f2: 1 + c.Rng.Intn(4000), n3: c.Rng.Intn(10)})
	}
}
