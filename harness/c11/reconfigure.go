//go:build verif

package c11

// rh: the real server.ReconfigureHandler (the OLD process's side of a hot upgrade) run in a child of the harness binary
// against a scripted NEW MOSN on the real unix listen socket: the peer receives the listener fds (GetInheritListeners),
// writes its ready byte and waits `dl` ms for the ack (the real new process waits the regenerated 3 s; the scaled
// deadline keeps a case short), then would give up. One request may be in flight at the old server and outlast the
// drain time. Observed: whether the ack came in time, whether the old listener was still accepting at the instant the
// ack arrived, whether a client is served at the instant the peer gives up, ReconfigureHandler's result.

import (
	"bytes"
	"fmt"
	"os"
	"os/exec"
	"strings"
	"sync/atomic"
	"time"

	"mosn.io/mosn/pkg/network"
	"mosn.io/mosn/pkg/server"
	"mosn.io/mosn/pkg/stagemanager"
	"mosn.io/mosn/pkg/types"
	"verif/harness/hx"
)

type rhCase struct {
	drain int // drain time of shutdownServers, ms
	hold  int // 0: no request in flight; else the upstream answers the request in flight after hold ms
	dl    int // the scripted new MOSN's ack deadline, ms
}

func (r rhCase) String() string { return fmt.Sprintf("rh drain=%d hold=%d dl=%d", r.drain, r.hold, r.dl) }

func rhChild(args []string) {
	var r rhCase
	fmt.Sscan(args[0], &r.drain)
	fmt.Sscan(args[1], &r.hold)
	fmt.Sscan(args[2], &r.dl)
	time.AfterFunc(40*time.Second, func() { upOut("x:timeout"); os.Exit(98) })
	initEnv()
	types.DefaultConnReadTimeout = 100 * time.Millisecond
	network.SetTransferTimeout(10 * time.Second) // no connection hand-over inside this run (there is no transfer server)
	server.GracefulTimeout = 50 * time.Millisecond
	must := func(err error, what string) {
		if err != nil {
			upOut("x:" + what + ": " + strings.ReplaceAll(err.Error(), "\n", " "))
			os.Exit(96)
		}
	}
	oldB := newMosn("bolt", nil)
	oldB.waitRunning(network.VerifListenerState, int(network.ListenerRunning))
	if r.hold > 0 {
		wc, err := dialProto("bolt", oldB.addr)
		must(err, "dial")
		wid, wp := newPlan(false, false, 300)
		a, b := wc.request(wid, 100)
		_, err = wc.conn().Write(append(append([]byte{}, a...), b...))
		must(err, "write waiting request")
		select {
		case <-wp.arrived:
		case <-time.After(5 * time.Second):
			must(fmt.Errorf("not at the upstream"), "waiting request")
		}
		time.AfterFunc(time.Duration(r.hold)*time.Millisecond, func() { close(wp.release) })
	}
	accepting := func() bool { return network.VerifListenerState(oldB.ln) == int(network.ListenerRunning) }
	var stopped int32
	go func() {
		for {
			if !accepting() {
				atomic.StoreInt32(&stopped, 1)
				return
			}
			time.Sleep(time.Millisecond)
		}
	}()
	// ---- the scripted new MOSN
	type peerRes struct{ ack, ackacc, probe string }
	pres := make(chan peerRes, 1)
	go func() {
		_, _, uc, err := server.GetInheritListeners()
		if err != nil || uc == nil {
			pres <- peerRes{"nofds", "na", "na"}
			return
		}
		defer uc.Close()
		if _, err := uc.Write([]byte{0}); err != nil { // ready
			pres <- peerRes{"noready", "na", "na"}
			return
		}
		uc.SetReadDeadline(time.Now().Add(time.Duration(r.dl) * time.Millisecond))
		var buf [1]byte
		n, _ := uc.Read(buf[:])
		acc := accepting()
		if n == 1 {
			pres <- peerRes{"intime", map[bool]string{true: "1", false: "0"}[acc], "na"}
			return
		}
		// the new process gives up now (the stage manager stops it): is anybody serving the listener?
		probe := "unserved"
		if k, err := dialProto("bolt", oldB.addr); err == nil {
			done := make(chan error, 1)
			go func() { done <- quick(k) }()
			select {
			case err := <-done:
				if err == nil {
					probe = "served"
				}
			case <-time.After(400 * time.Millisecond):
			}
		}
		pres <- peerRes{"late", "na", probe}
	}()
	dl := time.Now().Add(5 * time.Second)
	for {
		if _, err := os.Stat(types.TransferListenDomainSocket); err == nil {
			break
		}
		if time.Now().After(dl) {
			must(fmt.Errorf("listen.sock did not appear"), "inherit")
		}
		time.Sleep(time.Millisecond)
	}
	// ---- the old MOSN: what the stage manager's runUpgrade does
	stagemanager.SetState(stagemanager.Upgrading)
	server.SetDrainTime(time.Duration(r.drain) * time.Millisecond)
	err := server.ReconfigureHandler()
	p := <-pres
	upOut("r:ret=" + okTok(err))
	upOut("r:ack=" + p.ack)
	upOut("r:ackacc=" + p.ackacc)
	upOut("r:probe=" + p.probe)
	upOut(fmt.Sprintf("r:stopped=%d", atomic.LoadInt32(&stopped)))
	os.Exit(0)
}

func runRH(c *hx.Ctx, r rhCase) {
	cmd := exec.Command(os.Args[0], "C11", "rhchild", fmt.Sprint(r.drain), fmt.Sprint(r.hold), fmt.Sprint(r.dl))
	var elog bytes.Buffer
	if os.Getenv("C11_UPLOG") != "" {
		cmd.Stderr = &elog
	}
	out, err := cmd.Output()
	if os.Getenv("C11_UPLOG") != "" {
		os.Stderr.Write(elog.Bytes())
	}
	code := 0
	if err != nil {
		if ee, ok := err.(*exec.ExitError); ok {
			code = ee.ExitCode()
		} else {
			panic(err)
		}
	}
	var res []string
	for _, l := range strings.Split(string(out), "\n") {
		if strings.HasPrefix(l, "r:") {
			res = append(res, l[2:])
		} else if strings.HasPrefix(l, "x:") {
			res = append(res, "error="+hx.Tok(l[2:]))
		}
	}
	res = append(res, fmt.Sprintf("exit=%d", code))
	c.Emit("C11", r.String(), strings.Join(res, " "))
	c.Count("rh")
}

func runReconfigure(c *hx.Ctx) {
	// a request in flight that outlasts both the drain time and the ack deadline; none in flight; one that ends inside the drain
	cases := []rhCase{{drain: 700, hold: 2000, dl: 300}, {drain: 200, hold: 0, dl: 600}, {drain: 900, hold: 300, dl: 650}}
	if c.Thorough() {
		cases = append(cases, rhCase{drain: 1200, hold: 2500, dl: 500}, rhCase{drain: 400 + 100*c.Rng.Intn(4), hold: 1500 + 100*c.Rng.Intn(10), dl: 300 + 10*c.Rng.Intn(10)})
	}
	for _, r := range cases {
		runRH(c, r)
	}
}
