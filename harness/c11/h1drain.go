//go:build verif

package c11

// kind h1d: the drain mark of an HTTP/1 server connection.  The REAL server stream connection of pkg/stream/http
// (newServerStreamConnection: its request loop serve(), serverStream.endStream) runs on a recording api.Connection.
// Raw request bytes are handed to Dispatch the way the connection's read loop does; the transfer event listener the
// stream connection installed with SetTransferEventListener — what the read loop of network.connection calls once the
// old process of a hot upgrade has closed the stop channel (StopConnection) — is invoked at a generated point of the
// request cycle:
//
//	M      the mark, between two reads (idle before request k / request half received / request parsed, waiting)
//	P<c>   a complete request in one read       (c=1: it carries `Connection: close`, c=2: `Connection: keep-alive`)
//	A<c>   the first half of a request (cut inside the request line / the header block / the body), B the rest
//	R      the upstream's answer is ready: the proxy appends headers and body, the response is written
//	W      the same, and the mark arrives while the response is being written (inside the connection's Write,
//	       after endStream has looked at the mark)
//
// observed per event: `r0` / `r1` a response without / with `Connection: close`, `x` the connection closed by MOSN.

import (
	"bytes"
	"context"
	"fmt"
	"net"
	"strings"
	"sync"
	"time"

	"github.com/valyala/fasthttp"
	"mosn.io/api"
	mosnhttp "mosn.io/mosn/pkg/protocol/http"
	shttp "mosn.io/mosn/pkg/stream/http"
	"mosn.io/mosn/pkg/types"
	"mosn.io/pkg/buffer"
	"mosn.io/pkg/variable"
	"verif/harness/hx"
)

type h1Conn struct {
	api.Connection
	mu        sync.Mutex
	out       []string
	closed    bool
	transfer  func() bool
	listeners []api.ConnectionEventListener
	onWrite   func()
	rest      []byte
}

func (c *h1Conn) ID() uint64           { return 12 }
func (c *h1Conn) LocalAddr() net.Addr  { return &net.TCPAddr{} }
func (c *h1Conn) RemoteAddr() net.Addr { return &net.TCPAddr{} }
func (c *h1Conn) RawConn() net.Conn    { return nil }
func (c *h1Conn) SetTransferEventListener(f func() bool) {
	c.transfer = f
}
func (c *h1Conn) AddConnectionEventListener(l api.ConnectionEventListener) {
	c.listeners = append(c.listeners, l)
}
func (c *h1Conn) State() api.ConnState {
	c.mu.Lock()
	defer c.mu.Unlock()
	if c.closed {
		return api.ConnClosed
	}
	return api.ConnActive
}
func (c *h1Conn) Close(t api.ConnectionCloseType, ev api.ConnectionEvent) error {
	c.mu.Lock()
	was := c.closed
	c.closed = true
	if !was {
		c.out = append(c.out, "x")
	}
	c.mu.Unlock()
	if !was {
		for _, l := range c.listeners {
			l.OnEvent(ev)
		}
	}
	return nil
}
func (c *h1Conn) Write(bufs ...buffer.IoBuffer) error {
	if f := c.onWrite; f != nil {
		c.onWrite = nil
		f()
	}
	c.mu.Lock()
	defer c.mu.Unlock()
	for _, b := range bufs {
		c.rest = append(c.rest, b.Bytes()...)
	}
	// complete responses: header block, then Content-Length bytes
	for {
		i := bytes.Index(c.rest, []byte("\r\n\r\n"))
		if i < 0 {
			return nil
		}
		head := strings.ToLower(string(c.rest[:i]))
		n := 0
		if k := strings.Index(head, "content-length:"); k >= 0 {
			fmt.Sscan(strings.TrimSpace(head[k+len("content-length:"):]), &n)
		}
		if len(c.rest) < i+4+n {
			return nil
		}
		cl := 0
		for _, ln := range strings.Split(head, "\r\n") {
			if strings.HasPrefix(ln, "connection:") && strings.Contains(ln, "close") {
				cl = 1
			}
		}
		st := ""
		if !strings.HasPrefix(head, "http/1.1 200") {
			st = "s" + strings.Fields(head + " ? ?")[1]
		}
		c.out = append(c.out, fmt.Sprintf("r%d%s", cl, st))
		c.rest = c.rest[i+4+n:]
	}
}
func (c *h1Conn) cut() string {
	c.mu.Lock()
	defer c.mu.Unlock()
	o := "-"
	if len(c.out) > 0 {
		o = strings.Join(c.out, "+")
	}
	c.out = nil
	return o
}

type h1Got struct {
	ctx    context.Context
	sender types.StreamSender
}

type h1Listener struct{ got chan h1Got }

func (l *h1Listener) NewStreamDetect(ctx context.Context, sender types.StreamSender, span api.Span) types.StreamReceiveListener {
	return &h1Receiver{l: l, ctx: ctx, sender: sender}
}
func (l *h1Listener) OnGoAway() {}

type h1Receiver struct {
	l      *h1Listener
	ctx    context.Context
	sender types.StreamSender
}

func (r *h1Receiver) OnReceive(ctx context.Context, headers types.HeaderMap, data types.IoBuffer, trailers types.HeaderMap) {
	r.l.got <- h1Got{ctx: ctx, sender: r.sender}
}
func (r *h1Receiver) OnDecodeError(ctx context.Context, err error, headers types.HeaderMap) {}

type h1Ev struct {
	kind byte // M | P | A | B | R | W
	cc   int  // P/A: 0 no Connection header, 1 close, 2 keep-alive
	body int  // P/A: request body length
	cut  int  // A: bytes in the first half
}

func (e h1Ev) String() string {
	switch e.kind {
	case 'P':
		return fmt.Sprintf("P%d.%d", e.cc, e.body)
	case 'A':
		return fmt.Sprintf("A%d.%d.%d", e.cc, e.body, e.cut)
	}
	return string(e.kind)
}

func h1Request(seq, cc, body int) []byte {
	var b bytes.Buffer
	m := "GET"
	if body > 0 {
		m = "POST"
	}
	fmt.Fprintf(&b, "%s /h1d/%d HTTP/1.1\r\nHost: c11.test\r\n", m, seq)
	switch cc {
	case 1:
		b.WriteString("Connection: close\r\n")
	case 2:
		b.WriteString("Connection: keep-alive\r\n")
	}
	if body > 0 {
		fmt.Fprintf(&b, "Content-Length: %d\r\n", body)
	}
	b.WriteString("\r\n")
	b.Write(bytes.Repeat([]byte("q"), body))
	return b.Bytes()
}

func runH1D(c *hx.Ctx, evs []h1Ev) {
	conn := &h1Conn{}
	ln := &h1Listener{got: make(chan h1Got, 4)}
	ctx := variable.NewVariableContext(context.Background())
	sc := (&shttp.StreamConnFactory{}).CreateServerStream(ctx, conn, ln)
	if conn.transfer == nil {
		panic("the HTTP/1 server stream connection installed no transfer event listener")
	}
	mark := func() {
		if conn.transfer() {
			conn.mu.Lock()
			conn.out = append(conn.out, "transferable")
			conn.mu.Unlock()
		}
	}
	dispatch := func(p []byte) bool {
		if conn.State() == api.ConnClosed {
			return false
		}
		done := make(chan struct{})
		go func() {
			defer close(done)
			hx.Safe(func() { sc.Dispatch(buffer.NewIoBufferBytes(p)) })
		}()
		select {
		case <-done:
			return true
		case <-time.After(3 * time.Second):
			conn.mu.Lock()
			conn.out = append(conn.out, "stuck")
			conn.mu.Unlock()
			return false
		}
	}
	var cur *h1Got
	await := func() {
		select {
		case g := <-ln.got:
			cur = &g
		case <-time.After(3 * time.Second):
			conn.mu.Lock()
			conn.out = append(conn.out, "norequest")
			conn.mu.Unlock()
		}
	}
	var pending []byte
	seq := 0
	var toks, obs []string
	for _, e := range evs {
		switch e.kind {
		case 'M':
			mark()
		case 'P':
			seq++
			if dispatch(h1Request(seq, e.cc, e.body)) {
				await()
			}
		case 'A':
			seq++
			full := h1Request(seq, e.cc, e.body)
			if dispatch(full[:e.cut]) {
				pending = full[e.cut:]
			}
		case 'B':
			if pending != nil && dispatch(pending) {
				await()
			}
			pending = nil
		case 'R', 'W':
			if cur != nil {
				if e.kind == 'W' {
					conn.onWrite = mark
				}
				g := *cur
				cur = nil
				hx.Safe(func() {
					h := mosnhttp.ResponseHeader{ResponseHeader: &fasthttp.ResponseHeader{}}
					h.SetStatusCode(200)
					g.sender.AppendHeaders(g.ctx, h, false)
					g.sender.AppendData(g.ctx, buffer.NewIoBufferBytes([]byte("answer")), true)
				})
				conn.onWrite = nil
			}
		}
		toks = append(toks, e.String())
		obs = append(obs, conn.cut())
	}
	if conn.State() != api.ConnClosed {
		conn.Close(api.NoFlush, api.RemoteClose) // ends serve()
	}
	c.Emit("C11", "h1d "+strings.Join(toks, ","), strings.Join(obs, ","))
}

// genH1D: a keep-alive client sending 2-5 requests one after the other; the mark at a generated point of the cycle
// (90 %), sometimes twice.
func genH1D(c *hx.Ctx) ([]h1Ev, string) {
	r := c.Rng
	n := 2 + r.Intn(4)
	type slot struct{ pos, k int }
	// positions per request k: 0 idle before it, 1 half received, 2 parsed and waiting, 3 while the response is written
	markAt := slot{-1, -1}
	where := "none"
	if r.Intn(10) < 9 {
		markAt = slot{r.Intn(4), r.Intn(n)}
		where = []string{"idle-before-request", "request-half-received", "waiting-for-upstream", "response-being-written"}[markAt.pos]
	}
	second := slot{-1, -1}
	if markAt.pos >= 0 && r.Intn(8) == 0 {
		second = slot{r.Intn(3), r.Intn(n)}
	}
	var evs []h1Ev
	for k := 0; k < n; k++ {
		cc := 0
		switch x := r.Intn(20); {
		case x == 0:
			cc = 1 // the client itself asks for the close
		case x < 5:
			cc = 2
		}
		body := 0
		if r.Intn(3) == 0 {
			body = []int{1, 10, 1000, 5000}[r.Intn(4)]
		}
		has := func(s slot, pos int) bool { return s.k == k && s.pos == pos }
		if has(markAt, 0) || has(second, 0) {
			evs = append(evs, h1Ev{kind: 'M'})
		}
		half := has(markAt, 1) || has(second, 1) || r.Intn(4) == 0
		if half {
			full := len(h1Request(k+1, cc, body))
			cut := 1 + r.Intn(full-1)
			switch r.Intn(4) {
			case 0:
				cut = 1 + r.Intn(10) // inside the request line
			case 1:
				if body > 0 {
					cut = full - body + r.Intn(body) // inside the body (or right after the header block)
				}
			case 2:
				cut = full - body - 2 // between the CRLFs that end the header block
			}
			evs = append(evs, h1Ev{kind: 'A', cc: cc, body: body, cut: cut})
			if has(markAt, 1) || has(second, 1) {
				evs = append(evs, h1Ev{kind: 'M'})
			}
			evs = append(evs, h1Ev{kind: 'B'})
		} else {
			evs = append(evs, h1Ev{kind: 'P', cc: cc, body: body})
		}
		if has(markAt, 2) || has(second, 2) {
			evs = append(evs, h1Ev{kind: 'M'})
		}
		if has(markAt, 3) {
			evs = append(evs, h1Ev{kind: 'W'})
		} else {
			evs = append(evs, h1Ev{kind: 'R'})
		}
	}
	return evs, where
}

// fixed boundary scripts: the mark while the keep-alive connection is idle (the client sends two more requests), with
// a request half received, with a request waiting for the upstream, while the response is written; no mark at all.
var fixedH1D = [][]h1Ev{
	{{kind: 'P'}, {kind: 'R'}, {kind: 'M'}, {kind: 'P'}, {kind: 'R'}, {kind: 'P'}, {kind: 'R'}},
	{{kind: 'P'}, {kind: 'R'}, {kind: 'A', cut: 9}, {kind: 'M'}, {kind: 'B'}, {kind: 'R'}, {kind: 'P'}, {kind: 'R'}},
	{{kind: 'P', cc: 2}, {kind: 'M'}, {kind: 'R'}, {kind: 'P'}, {kind: 'R'}},
	{{kind: 'P'}, {kind: 'W'}, {kind: 'P', body: 10}, {kind: 'R'}, {kind: 'P'}, {kind: 'R'}},
	{{kind: 'M'}, {kind: 'P'}, {kind: 'R'}},
	{{kind: 'P'}, {kind: 'R'}, {kind: 'P', cc: 2}, {kind: 'R'}, {kind: 'P', cc: 1}, {kind: 'R'}},
	{{kind: 'A', body: 1000, cut: 500}, {kind: 'M'}, {kind: 'M'}, {kind: 'B'}, {kind: 'R'}},
}

func runH1Drain(c *hx.Ctx) {
	for _, q := range fixedH1D {
		runH1D(c, q)
		c.Count("h1d.fixed")
	}
	for i := 0; i < c.N(250, 1500); i++ {
		evs, where := genH1D(c)
		runH1D(c, evs)
		c.Count("h1d.generated")
		c.Count("h1d.mark=" + where)
	}
}
