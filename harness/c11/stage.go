//go:build verif

package c11

// The real stage manager (pkg/stagemanager) run to completion in a child process of the harness binary, with a
// recording Application, real signals (SIGTERM/SIGINT through pkg/server/keeper) and the real process exit code.

import (
	"errors"
	"fmt"
	"os"
	"os/exec"
	"strings"
	"syscall"
	"time"

	v2 "mosn.io/mosn/pkg/config/v2"
	"mosn.io/mosn/pkg/configmanager"
	"mosn.io/mosn/pkg/log"
	_ "mosn.io/mosn/pkg/server/keeper"
	"mosn.io/mosn/pkg/stagemanager"
	"verif/harness/hx"
)

type smApp struct {
	flags map[string]bool
}

func smOut(s string) { os.Stdout.WriteString(s + "\n") }

func (a *smApp) Init(*v2.MOSNConfig) error {
	smOut("c:init")
	if a.flags["initfail"] {
		return errors.New("init failed")
	}
	return nil
}
func (a *smApp) Start() { smOut("c:start") }
func (a *smApp) InheritConnections() error {
	smOut("c:inherit")
	if a.flags["inhfail"] {
		return errors.New("inherit failed")
	}
	return nil
}
func (a *smApp) Shutdown() error {
	smOut(fmt.Sprintf("c:shutdown@%d", stagemanager.GetState()))
	if a.flags["shuterr"] {
		return errors.New("shutdown failed")
	}
	return nil
}
func (a *smApp) Close(isUpgrade bool) {
	if isUpgrade {
		smOut("c:close1")
	} else {
		smOut("c:close0")
	}
}
func (a *smApp) IsFromUpgrade() bool { return a.flags["fromupg"] }

// smChild runs one script in this (child) process. Never returns.
func smChild(flagTok, actTok string) {
	log.DefaultLogger.SetLogLevel(log.FATAL)
	log.StartLogger.SetLogLevel(log.FATAL)
	flags := map[string]bool{}
	for _, f := range strings.Split(flagTok, "+") {
		flags[f] = true
	}
	var actions []string
	if actTok != "-" {
		actions = strings.Split(actTok, ",")
	}
	configmanager.RegisterConfigLoadFunc(func(string) *v2.MOSNConfig { return &v2.MOSNConfig{} })
	app := &smApp{flags: flags}
	stm := stagemanager.InitStageManager(nil, "c11.json", app)
	stagemanager.RegisterOnStateChanged(func(s stagemanager.State) { smOut(fmt.Sprintf("s:%d", s)) })
	if flags["earlyterm"] || flags["earlyint"] {
		act := stagemanager.GracefulStop
		if flags["earlyint"] {
			act = stagemanager.Stop
		}
		stm.AppendInitStage(func(*v2.MOSNConfig) { stagemanager.NoticeStop(act) })
	}
	go func() {
		for _, a := range actions {
			dl := time.Now().Add(5 * time.Second)
			for stagemanager.GetState() != stagemanager.Running {
				if time.Now().After(dl) {
					smOut("x:never-running")
					os.Exit(97)
				}
				time.Sleep(time.Millisecond)
			}
			// pkg/server/keeper installs its signal handlers from goroutines started in init(): give them time to run
			time.Sleep(30 * time.Millisecond)
			switch a {
			case "term":
				syscall.Kill(os.Getpid(), syscall.SIGTERM)
			case "int":
				syscall.Kill(os.Getpid(), syscall.SIGINT)
			case "upgok":
				stagemanager.RegisterUpgradeHandler(func() error { smOut(fmt.Sprintf("c:upgrade@%d", stagemanager.GetState())); return nil })
				stagemanager.NoticeStop(stagemanager.Upgrade)
			case "upgerr":
				stagemanager.RegisterUpgradeHandler(func() error {
					smOut(fmt.Sprintf("c:upgrade@%d", stagemanager.GetState()))
					return errors.New("new server failed")
				})
				stagemanager.NoticeStop(stagemanager.Upgrade)
			case "upgnil":
				stagemanager.RegisterUpgradeHandler(nil)
				stagemanager.NoticeStop(stagemanager.Upgrade)
			}
			if a == "term" || a == "int" || a == "upgok" {
				return
			}
			time.Sleep(3 * time.Millisecond)
		}
	}()
	time.AfterFunc(20*time.Second, func() { smOut("x:timeout"); os.Exit(98) })
	stm.RunAll()
	smOut("x:returned")
	os.Exit(0)
}

func runSM(c *hx.Ctx, flagTok, actTok string) {
	var out []byte
	code := 0
	for attempt := 0; attempt < 4; attempt++ {
		cmd := exec.Command(os.Args[0], "C11", "smchild", flagTok, actTok)
		var err error
		out, err = cmd.Output()
		code = 0
		if err != nil {
			if ee, ok := err.(*exec.ExitError); ok {
				code = ee.ExitCode()
			} else {
				panic(err)
			}
		}
		if code != -1 {
			break
		}
		// killed by the signal's default action: keeper's handler goroutine had not called signal.Notify yet
		// (not the code under test) - run the script again
		c.Count("sm.retry-signal-before-notify")
	}
	var states, calls []string
	for _, l := range strings.Split(string(out), "\n") {
		switch {
		case strings.HasPrefix(l, "s:"):
			states = append(states, l[2:])
		case strings.HasPrefix(l, "c:"):
			calls = append(calls, l[2:])
		case strings.HasPrefix(l, "x:") && l != "x:returned":
			calls = append(calls, "!"+l[2:])
		}
	}
	j := func(x []string) string {
		if len(x) == 0 {
			return "-"
		}
		return strings.Join(x, ",")
	}
	c.Emit("C11", fmt.Sprintf("sm %s %s", flagTok, actTok), fmt.Sprintf("%s %s %d", j(states), j(calls), code))
	c.Count("sm.exit=" + fmt.Sprint(code))
}

func runStage(c *hx.Ctx) {
	r := c.Rng
	fixed := [][2]string{
		{"-", "term"}, {"-", "int"}, {"-", "upgok"}, {"-", "upgerr,term"}, {"-", "upgnil,term"}, {"-", "upgerr,upgok"},
		{"-", "upgnil,int"}, {"shuterr", "term"}, {"shuterr", "upgok"}, {"shuterr", "int"},
		{"initfail", "-"}, {"inhfail", "-"}, {"earlyterm", "-"}, {"earlyint", "-"},
		{"fromupg+initfail", "-"}, {"fromupg+earlyterm", "-"}, {"fromupg", "term"}, {"fromupg+inhfail", "-"},
	}
	for _, f := range fixed {
		runSM(c, f[0], f[1])
	}
	for i := 0; i < c.N(4, 12); i++ {
		var acts []string
		for k := r.Intn(4); k > 0; k-- {
			acts = append(acts, r.PickS([]string{"upgerr", "upgnil"}))
		}
		acts = append(acts, r.PickS([]string{"term", "int", "upgok"}))
		fl := "-"
		if r.Chance(30) {
			fl = "shuterr"
		}
		runSM(c, fl, strings.Join(acts, ","))
	}
}
