//go:build verif

package c11

// Hand-over of a TLS connection during hot upgrade (pkg/mtls/crypto/tls/tls_custom.go GetTLSInfo / TransferTLSConn,
// pkg/mtls/conn.go GetTLSInfo / GetTLSConn, pkg/network/transfer.go transferRead / transferHandler).
//
// A real MOSN TLS server connection (mtls server context manager, throw-away ECDSA certificate) is handshaken with a
// reference crypto/tls client whose ciphertext passes through a gate: the records of a bolt request are produced by
// the client but delivered to the socket by the harness, so that the old side can be stopped at a chosen point of
// the record stream:
//   * the old side has consumed `m` plaintext bytes of the first record (the rest of it stays in the connection's
//     decrypted buffer `input`), or has not read at all (m = 0);
//   * `k` ciphertext bytes of the following records have arrived and sit in `rawInput`
//     (0, 1, 5 = a header, a partial record, exactly one record, one and a half records, everything).
// The state actually reached is read back through the verif hook VerifPendingState and printed into the case.
//
// Kind tg: serialise (TLSConn.GetTLSInfo, gob) and restore (mtls.GetTLSConn) in place; the restored record-layer
//          state is printed, then the client's remaining bytes are delivered and the restored connection must
//          decrypt the rest of the request and encrypt an answer the client accepts.
// Kind tx: the two real halves (transferRead -> unix socket -> transferHandler -> transferNewConn -> OnAccept) against
//          a real server; the client completes the bolt request on the adopted connection and reads the response.

import (
	"bufio"
	"bytes"
	"crypto/ecdsa"
	"crypto/elliptic"
	"crypto/rand"
	gotls "crypto/tls"
	"crypto/x509"
	"crypto/x509/pkix"
	"encoding/binary"
	"encoding/pem"
	"fmt"
	"io"
	"math/big"
	"net"
	"sync"
	"syscall"
	"time"
	"unsafe"

	v2 "mosn.io/mosn/pkg/config/v2"
	"mosn.io/mosn/pkg/mtls"
	mtls_tls "mosn.io/mosn/pkg/mtls/crypto/tls"
	"mosn.io/mosn/pkg/network"
	"mosn.io/mosn/pkg/server"
	"mosn.io/mosn/pkg/types"
	"mosn.io/pkg/buffer"
	"verif/harness/hx"
)

// ---- throw-away certificate and the real server context manager

var (
	thOnce sync.Once
	thMng  types.TLSContextManager
	thSeq  int
)

func thManager() types.TLSContextManager {
	thOnce.Do(func() {
		key, err := ecdsa.GenerateKey(elliptic.P256(), rand.Reader)
		if err != nil {
			panic(err)
		}
		tmpl := &x509.Certificate{
			SerialNumber: big.NewInt(1109),
			Subject:      pkix.Name{CommonName: "c11.test"},
			DNSNames:     []string{"c11.test"},
			NotBefore:    time.Now().Add(-time.Hour),
			NotAfter:     time.Now().Add(24 * time.Hour),
			KeyUsage:     x509.KeyUsageDigitalSignature,
			ExtKeyUsage:  []x509.ExtKeyUsage{x509.ExtKeyUsageServerAuth},
		}
		der, err := x509.CreateCertificate(rand.Reader, tmpl, tmpl, &key.PublicKey, key)
		if err != nil {
			panic(err)
		}
		kb, err := x509.MarshalECPrivateKey(key)
		if err != nil {
			panic(err)
		}
		cfg := v2.TLSConfig{Status: true,
			CertChain:  string(pem.EncodeToMemory(&pem.Block{Type: "CERTIFICATE", Bytes: der})),
			PrivateKey: string(pem.EncodeToMemory(&pem.Block{Type: "EC PRIVATE KEY", Bytes: kb}))}
		ln := &v2.Listener{ListenerConfig: v2.ListenerConfig{Name: "c11-tls-handover",
			FilterChains: []v2.FilterChain{{TLSContexts: []v2.TLSConfig{cfg}}}}}
		thMng, err = mtls.NewTLSServerContextManager(ln)
		if err != nil {
			panic(err)
		}
	})
	return thMng
}

// gateConn is the client's transport: while `hold` is set, what the TLS client writes is kept (one entry per Write
// call) instead of being sent.
type gateConn struct {
	net.Conn
	mu   sync.Mutex
	hold bool
	held [][]byte
}

func (g *gateConn) Write(b []byte) (int, error) {
	g.mu.Lock()
	if g.hold {
		g.held = append(g.held, append([]byte{}, b...))
		g.mu.Unlock()
		return len(b), nil
	}
	g.mu.Unlock()
	return g.Conn.Write(b)
}

func (g *gateConn) setHold(h bool) {
	g.mu.Lock()
	g.hold = h
	g.mu.Unlock()
}

// tlshCase: one generated stop point.
type tlshCase struct {
	vers  uint16 // TLS version of the connection (hand-over state exists below 1.3 only)
	suite uint16
	split [2]int // the request plaintext is cut into three records at these offsets
	m     int    // plaintext bytes the old side consumes before the hand-over (0 = it never reads)
	kSel  string // 0 | 1 | hdr | part | rec | rec+half | all | rnd
	kRnd  int
}

var thSuites = []uint16{
	gotls.TLS_ECDHE_ECDSA_WITH_AES_128_GCM_SHA256,
	gotls.TLS_ECDHE_ECDSA_WITH_AES_256_GCM_SHA384,
	gotls.TLS_ECDHE_ECDSA_WITH_CHACHA20_POLY1305,
	gotls.TLS_ECDHE_ECDSA_WITH_AES_128_CBC_SHA,
	gotls.TLS_ECDHE_ECDSA_WITH_AES_256_CBC_SHA,
}

func thSuiteTok(s uint16) string {
	switch s {
	case gotls.TLS_ECDHE_ECDSA_WITH_AES_128_GCM_SHA256:
		return "aes128gcm"
	case gotls.TLS_ECDHE_ECDSA_WITH_AES_256_GCM_SHA384:
		return "aes256gcm"
	case gotls.TLS_ECDHE_ECDSA_WITH_CHACHA20_POLY1305:
		return "chacha"
	case gotls.TLS_ECDHE_ECDSA_WITH_AES_128_CBC_SHA:
		return "aes128cbc"
	case gotls.TLS_ECDHE_ECDSA_WITH_AES_256_CBC_SHA:
		return "aes256cbc"
	}
	return fmt.Sprintf("x%04x", s)
}

var thKSel = []string{"0", "1", "hdr", "part", "rec", "rec+half", "all", "rnd"}

func genTLSH(c *hx.Ctx, i int, total int) tlshCase {
	r := c.Rng
	t := tlshCase{vers: gotls.VersionTLS12, suite: thSuites[r.Intn(len(thSuites))]}
	if r.Chance(15) {
		t.vers = gotls.VersionTLS11
		t.suite = thSuites[3+r.Intn(2)] // AEAD suites need 1.2
	}
	a := 1 + r.Intn(total-2)
	b := a + 1 + r.Intn(total-a-1)
	t.split = [2]int{a, b}
	switch r.Intn(6) {
	case 0:
		t.m = 0
	case 1:
		t.m = 1
	case 2, 3:
		t.m = a // the whole first record
	default:
		t.m = 1 + r.Intn(a)
	}
	t.kSel = thKSel[i%len(thKSel)]
	t.kRnd = r.Intn(1 << 20)
	return t
}

func seqNum(s [8]byte) uint64 { return binary.BigEndian.Uint64(s[:]) }

// pendingBytes: bytes waiting in the kernel receive queue of a TCP connection.
func pendingBytes(c net.Conn) int {
	sc, ok := c.(syscall.Conn)
	if !ok {
		return -1
	}
	rc, err := sc.SyscallConn()
	if err != nil {
		return -1
	}
	n := -1
	rc.Control(func(fd uintptr) {
		var v int32
		if _, _, e := syscall.Syscall(syscall.SYS_IOCTL, fd, syscall.TIOCINQ, uintptr(unsafe.Pointer(&v))); e == 0 {
			n = int(v)
		}
	})
	return n
}

// tlshStage is a TLS connection brought to the stop point of a case.
type tlshStage struct {
	raw      net.Conn // client's TCP connection
	gate     *gateConn
	client   *gotls.Conn
	srvRaw   net.Conn // the old side's accepted TCP connection
	old      *mtls.TLSConn
	consumed []byte // plaintext the old side has read (its connection's read buffer)
	later    []byte // ciphertext the client still has to deliver
	wantRest []byte // plaintext the new side has to produce after `consumed`
	// the state found at the stop point
	rawIn, in     []byte
	inSeq, outSeq uint64
	transferable  bool
}

func (s *tlshStage) close() {
	if s.raw != nil {
		s.raw.Close()
	}
	if s.srvRaw != nil {
		s.srvRaw.Close()
	}
}

// tlshPrepare handshakes and stops the old side at the point of the case. ln is the listening socket the connection
// is accepted on. ok=false: the set-up failed before the property comes into play (counted, not a case).
func tlshPrepare(c *hx.Ctx, t tlshCase, ln net.Listener, plain []byte) (*tlshStage, bool) {
	s := &tlshStage{}
	accCh := make(chan net.Conn, 1)
	go func() {
		ln.(*net.TCPListener).SetDeadline(time.Now().Add(3 * time.Second))
		k, _ := ln.Accept()
		accCh <- k
	}()
	raw, err := net.DialTimeout("tcp", ln.Addr().String(), 2*time.Second)
	if err != nil {
		c.Count("th.skipped-dial")
		return nil, false
	}
	s.raw = raw
	s.srvRaw = <-accCh
	if s.srvRaw == nil {
		s.close()
		c.Count("th.skipped-accept")
		return nil, false
	}
	conn, err := thManager().Conn(s.srvRaw)
	if err != nil {
		panic(err)
	}
	old, ok := conn.(*mtls.TLSConn)
	if !ok {
		panic(fmt.Sprintf("server context returned %T", conn))
	}
	s.old = old
	s.gate = &gateConn{Conn: raw}
	s.client = gotls.Client(s.gate, &gotls.Config{InsecureSkipVerify: true, ServerName: "c11.test",
		MinVersion: t.vers, MaxVersion: t.vers, CipherSuites: []uint16{t.suite}})
	dl := time.Now().Add(8 * time.Second)
	raw.SetDeadline(dl)
	s.srvRaw.SetDeadline(dl)
	hs := make(chan error, 1)
	go func() { hs <- old.Handshake() }()
	cerr := s.client.Handshake()
	serr := <-hs
	if cerr != nil || serr != nil {
		panic(fmt.Sprintf("handshake: client %v server %v", cerr, serr))
	}
	raw.SetDeadline(time.Time{})
	s.srvRaw.SetDeadline(time.Time{})

	// the three records of the request, produced but not sent
	s.gate.setHold(true)
	parts := [][]byte{plain[:t.split[0]], plain[t.split[0]:t.split[1]], plain[t.split[1]:]}
	for _, p := range parts {
		if _, err := s.client.Write(p); err != nil {
			panic(err)
		}
	}
	s.gate.setHold(false)
	if len(s.gate.held) != 3 {
		panic(fmt.Sprintf("%d writes for 3 records", len(s.gate.held)))
	}
	rec1, rec2, rec3 := s.gate.held[0], s.gate.held[1], s.gate.held[2]
	tail := append(append([]byte{}, rec2...), rec3...)
	var k int
	switch t.kSel {
	case "0":
		k = 0
	case "1":
		k = 1
	case "hdr":
		k = 5
	case "part":
		k = 5 + (len(rec2)-5)/2
	case "rec":
		k = len(rec2)
	case "rec+half":
		k = len(rec2) + len(rec3)/2
	case "all":
		k = len(tail)
	default:
		k = t.kRnd % (len(tail) + 1)
	}
	first := append(append([]byte{}, rec1...), tail[:k]...)
	s.later = tail[k:]
	raw.SetWriteDeadline(time.Now().Add(3 * time.Second))
	if _, err := raw.Write(first); err != nil {
		panic(err)
	}
	// everything sent so far has reached the old side's socket before it reads
	for dl := time.Now().Add(3 * time.Second); pendingBytes(s.srvRaw) < len(first); {
		if time.Now().After(dl) {
			panic("bytes did not arrive")
		}
		time.Sleep(200 * time.Microsecond)
	}
	if t.m > 0 {
		buf := make([]byte, t.m)
		s.srvRaw.SetReadDeadline(time.Now().Add(3 * time.Second))
		n, err := old.Read(buf)
		if err != nil {
			panic(err)
		}
		s.srvRaw.SetReadDeadline(time.Time{})
		s.consumed = buf[:n]
	}
	s.wantRest = plain[len(s.consumed):]
	var is, os [8]byte
	s.rawIn, s.in, is, os, s.transferable = mtls_tls.VerifPendingState(old.Conn)
	s.inSeq, s.outSeq = seqNum(is), seqNum(os)
	return s, true
}

func (t tlshCase) versTok() string {
	switch t.vers {
	case gotls.VersionTLS12:
		return "12"
	case gotls.VersionTLS11:
		return "11"
	case gotls.VersionTLS10:
		return "10"
	}
	return "13"
}

func (s *tlshStage) caseToks(t tlshCase) string {
	return fmt.Sprintf("ver=%s suite=%s m=%d ksel=%s data=%s in=%s raw=%s inseq=%d outseq=%d",
		t.versTok(), thSuiteTok(t.suite), len(s.consumed), t.kSel, hx.Hex(s.consumed), hx.Hex(s.in), hx.Hex(s.rawIn), s.inSeq, s.outSeq)
}

func (s *tlshStage) count(c *hx.Ctx, kind string, t tlshCase) {
	c.Count(fmt.Sprintf("%s.raw=%s.in=%s", kind, sizeClass(len(s.rawIn)), sizeClass(len(s.in))))
	c.Count(fmt.Sprintf("%s.ksel=%s", kind, t.kSel))
	c.Count(fmt.Sprintf("%s.ver=%s.%s", kind, t.versTok(), thSuiteTok(t.suite)))
}

// runTG: serialise and restore in place.
func runTG(c *hx.Ctx, t tlshCase) bool {
	ln, err := net.Listen("tcp", "127.0.0.1:0")
	if err != nil {
		c.Count("tg.skipped-bind")
		return false
	}
	defer ln.Close()
	plain := c.Rng.Bytes(t.split[1] + 1 + c.Rng.Intn(60))
	s, ok := tlshPrepare(c, t, ln, plain)
	if !ok {
		return false
	}
	defer s.close()
	// old half: what transferReadSendData does with the connection's read buffer
	buf := buffer.NewIoBufferBytes(append([]byte{}, s.consumed...))
	s1 := buf.Len()
	s2 := s.old.GetTLSInfo(buf)
	all := buf.Bytes()
	gobTok := "ok"
	if s2 == 0 {
		gobTok = "none"
	}
	impl := fmt.Sprintf("gob=%s", gobTok)
	if s2 != 0 {
		// new half: what transferNewConn does with the TLS bytes
		nc, err := mtls.GetTLSConn(s.srvRaw, all[s1:s1+s2])
		if err != nil {
			impl = "gob=bad"
		} else {
			neu := nc.(*mtls.TLSConn)
			r2, i2, is2, os2, _ := mtls_tls.VerifPendingState(neu.Conn)
			// the client delivers the rest; the restored connection has to produce the rest of the plaintext
			s.raw.SetWriteDeadline(time.Now().Add(3 * time.Second))
			if len(s.later) > 0 {
				if _, err := s.raw.Write(s.later); err != nil {
					panic(err)
				}
			}
			dec := "ok"
			got := make([]byte, len(s.wantRest))
			s.srvRaw.SetReadDeadline(time.Now().Add(2 * time.Second))
			if _, err := io.ReadFull(neu, got); err != nil || !bytes.Equal(got, s.wantRest) {
				dec = "fail"
			}
			// ... and answer with the right keys and sequence number
			wr := "fail"
			answer := []byte("answer-of-the-new-process")
			s.srvRaw.SetWriteDeadline(time.Now().Add(2 * time.Second))
			if _, err := neu.Write(answer); err == nil {
				back := make([]byte, len(answer))
				s.raw.SetReadDeadline(time.Now().Add(2 * time.Second))
				if _, err := io.ReadFull(s.client, back); err == nil && bytes.Equal(back, answer) {
					wr = "ok"
				}
			}
			impl = fmt.Sprintf("gob=ok in=%s raw=%s inseq=%d outseq=%d dec=%s wr=%s", hx.Hex(i2), hx.Hex(r2), seqNum(is2), seqNum(os2), dec, wr)
		}
	}
	c.Emit("C11", "tg "+s.caseToks(t), impl)
	s.count(c, "tg", t)
	return true
}

// runTX: the real hand-over through both halves, then the client completes its bolt request.
func runTX(c *hx.Ctx, t tlshCase) bool {
	initEnv()
	ln, err := net.Listen("tcp", "127.0.0.1:0")
	if err != nil {
		c.Count("tx.skipped-bind")
		return false
	}
	defer ln.Close()
	// new side: a real server with a listener on the old address (not started: the socket belongs to the old side)
	srv := server.NewServer(&server.Config{ServerName: lkName()}, cmFilter{}, clusterMng)
	defer srv.Close()
	name := lkName()
	if _, err := srv.AddListener(lkConfig(name, lkListener{network: "tcp", addr: ln.Addr().String(), bind: true})); err != nil {
		panic(err)
	}
	syscall.Unlink(types.TransferConnDomainSocket)
	ul, err := net.Listen("unix", types.TransferConnDomainSocket)
	if err != nil {
		panic(err)
	}
	defer ul.Close()
	var tmap sync.Map
	go func() {
		for {
			uc, err := ul.Accept()
			if err != nil {
				return
			}
			go network.VerifTransferHandler(uc, srv.Handler(), &tmap)
		}
	}()

	cl := &boltClient{}
	id, p := newPlan(false, true, 200)
	defer plans.Delete(id)
	hd, bd := cl.request(id, 300)
	full := append(append([]byte{}, hd...), bd...)
	s, ok := tlshPrepare(c, t, ln, full)
	if !ok {
		return false
	}
	defer s.close()
	cl.c, cl.br = s.client, bufio.NewReader(s.client)

	newID, terr := network.VerifTransferRead(s.old, s.consumed)
	s.srvRaw.Close() // the old process's descriptor (no close_notify: the connection lives on in the new process)
	idTok := "0"
	if terr != nil {
		idTok = "err"
	} else if newID != 0 {
		idTok = "1"
	}
	req := "fail"
	to := 3 * time.Second
	if idTok != "1" {
		to = 150 * time.Millisecond
	}
	s.raw.SetWriteDeadline(time.Now().Add(3 * time.Second))
	_, werr := s.raw.Write(s.later)
	if len(s.later) == 0 {
		werr = nil
	}
	if werr == nil {
		if err := cl.readResp(p, to); err == nil {
			req = "ok"
		}
	}
	c.Emit("C11", "tx "+s.caseToks(t), fmt.Sprintf("id=%s req=%s", idTok, req))
	s.count(c, "tx", t)
	c.Count("tx.req=" + req)
	return true
}

func runTLSHandover(c *hx.Ctx) {
	frame := boltReqHdr + len(boltClass) + 40 + 300
	// boundaries replayed on every run: nothing buffered; one byte; a header; a partial record; one record; one and a half
	for i, ks := range thKSel[:7] {
		t := genTLSH(c, i, frame)
		t.vers, t.suite, t.kSel = gotls.VersionTLS12, thSuites[i%len(thSuites)], ks
		t.split = [2]int{64, 200}
		t.m = []int{64, 10}[i%2]
		runTG(c, t)
		runTX(c, t)
	}
	for i := 0; i < c.N(120, 900); i++ {
		runTG(c, genTLSH(c, i, 40+c.Rng.Intn(400)))
	}
	for i := 0; i < c.N(16, 80); i++ {
		runTX(c, genTLSH(c, i, frame))
	}
}
