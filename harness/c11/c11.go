//go:build verif

// Package c11: graceful shutdown / hot upgrade — transfer message codec, listener state machine, stage manager,
// and graceful stop of an in-process assembly at generated points of a request's lifetime.
package c11

import (
	"context"
	"fmt"

	"mosn.io/pkg/variable"
	"verif/harness/hx"
)

func init() { hx.Register("C11", Run) }

func getVar(ctx context.Context, name interface{}) (interface{}, error) { return variable.Get(ctx, name) }

func Run(c *hx.Ctx) {
	if len(c.Args) >= 3 && c.Args[0] == "smchild" {
		smChild(c.Args[1], c.Args[2]) // never returns
	}
	if len(c.Args) >= 5 && c.Args[0] == "upchild" {
		upChild(c.Args[1:]) // never returns
	}
	if len(c.Args) >= 4 && c.Args[0] == "rhchild" {
		rhChild(c.Args[1:]) // never returns
	}
	only := ""
	if len(c.Args) >= 2 && c.Args[0] == "only" {
		only = c.Args[1]
	}
	if only == "" || only == "transfer" {
		runTransfer(c)
	}
	if only == "" || only == "st" {
		runStartTiming(c)
	}
	if only == "" || only == "stage" {
		runStage(c)
	}
	if only == "" || only == "listener" {
		initEnv()
		for _, q := range fixedLS {
			runLS(c, q)
		}
		for i := 0; i < c.N(50, 170); i++ {
			runLS(c, genLS(c))
		}
	}
	if only == "" || only == "h2ga" {
		initEnv()
		runH2GoAway(c)
		runH2GoAwayWin(c)
	}
	if only == "" || only == "h1d" {
		initEnv()
		runH1Drain(c)
	}
	if only == "" || only == "lookup" {
		initEnv()
		for i := range fixedTL {
			runTL(c, &fixedTL[i])
		}
		for i := 0; i < c.N(150, 500); i++ {
			runTL(c, nil)
		}
		for _, t := range fixedTF {
			runTF(c, t)
		}
		for i := 0; i < c.N(30, 90); i++ {
			runTF(c, genTF(c, i))
		}
	}
	if only == "" || only == "tlsh" {
		runTLSHandover(c)
	}
	if only == "" || only == "hw" {
		initEnv()
		runHandoverWrites(c)
	}
	if only == "" || only == "hwl" { // c11w9: a large write in progress at the hand-over
		initEnv()
		runC11w9BigWrites(c)
	}
	if only == "" || only == "vl" {
		initEnv()
		for _, g := range fixedVL {
			runVL(c, g)
		}
		for i := 0; i < c.N(12, 30); i++ {
			runVL(c, genVL(c, i))
		}
	}
	if only == "" || only == "rh" {
		runReconfigure(c)
	}
	if only == "" || only == "up" {
		// boundary replayed on every run: inherited bytes that fill the new read buffer exactly (minimised past failure)
		runUP(c, upCase{half: 64, idle: 1, wait: 0, h1: 0})
		for i := 0; i < c.N(5, 12); i++ {
			runUP(c, genUP(c, i))
		}
	}
	if only == "one" { // debugging aid: one scenario given as proto stage phase idle bg drain hold
		g := gsCase{proto: c.Args[2], phase: c.Args[4]}
		fmt.Sscan(c.Args[3], &g.stage)
		fmt.Sscan(c.Args[5], &g.idle)
		fmt.Sscan(c.Args[6], &g.bg)
		fmt.Sscan(c.Args[7], &g.drain)
		fmt.Sscan(c.Args[8], &g.hold)
		g.extra = len(c.Args) > 9 && c.Args[9] == "extra"
		reps := 1
		if len(c.Args) > 10 {
			fmt.Sscan(c.Args[10], &reps)
		}
		for i := 0; i < reps; i++ {
			g.idle = (g.idle + 1) % 3
			runGS(c, g)
		}
	}
	if only == "" || only == "gs" {
		// boundary replayed on every run (minimised past failure): a second request with a body begun on a multiplexed
		// connection right after the signal, while the first one is still waiting for the upstream
		for _, p := range []string{"h2", "bolt"} {
			runGS(c, gsCase{proto: p, stage: 8, phase: "wait", drain: 20, hold: 9, extra: true})
		}
		// the signal between the DATA frames of an HTTP/2 request body ("goaway between data frames"), at the real listener
		for _, st := range []int{8, 13, 6} {
			g := genGS(c, 12) // an h2 body-phase scenario (idle connections, drain, hold, inherit, successor generated)
			g.proto, g.phase, g.stage, g.extra = "h2", "dfr", st, false
			if st != 13 {
				g.succ = false
			}
			runGS(c, g)
		}
		for i := 0; i < c.N(43, 75); i++ {
			runGS(c, genGS(c, i))
		}
	}
	// last: building the real binary loads the machine, keep it away from the timing-sensitive runs above
	if (only == "" && c.Thorough()) || only == "rs" {
		for i := 0; i < 6; i++ {
			runRS(c, genRS(c, i), i)
		}
	}
	// two real processes / one real process under load (see real2.go)
	if (only == "" && c.Thorough()) || only == "gs2" {
		for i := 0; i < 2; i++ {
			runGS2(c, genGS2(c, i), i)
		}
	}
	if (only == "" && c.Thorough()) || only == "up2" {
		runUP2(c, genUP2(c, 0), 100)
	}
}
