//go:build verif

package c11

// hw: writes of the old process issued WHILE one connection is being handed over. The real connection.transfer()
// (notifyTransfer; transferRead; transferWrite) runs against the real new-side transferHandler on the real unix
// transfer socket; the harness holds the new side's answer to the "transfer read" message back, so that the window
// between notifyTransfer and the return of transferRead stays open while a writer issues N writes through the real
// connection.Write (-> writeDirectly -> writeBufferChan). Then the new side is released and whatever reaches the
// client over the new process's connection is compared with what was written.
// The new side's handlers are run one after the other (TransferServer starts one goroutine per message: the order in
// which two "transfer write" messages are applied is not part of this check).

import (
	"fmt"
	"io"
	"net"
	"strings"
	"sync"
	"sync/atomic"
	"syscall"
	"time"

	"mosn.io/mosn/pkg/network"
	"mosn.io/mosn/pkg/server"
	"mosn.io/mosn/pkg/types"
	"verif/harness/hx"
)

type hwCase struct {
	n  int // writes issued by the old process, the first one inside the window
	sz int // filler bytes per write are drawn below sz
}

func hwMsg(i int, fill []byte) []byte {
	return append([]byte{0xC1, byte(i >> 8), byte(i), byte(len(fill))}, fill...)
}

// hwParse splits the byte stream the client received into the indices of the writes it consists of.
func hwParse(b []byte, want [][]byte) (idx []int, clean bool) {
	for len(b) > 0 {
		if len(b) < 4 || b[0] != 0xC1 || len(b) < 4+int(b[3]) {
			return idx, false
		}
		i := int(b[1])<<8 | int(b[2])
		m := b[:4+int(b[3])]
		if i >= len(want) || string(want[i]) != string(m) {
			return idx, false
		}
		idx = append(idx, i)
		b = b[len(m):]
	}
	return idx, true
}

func runHW(c *hx.Ctx, h hwCase) bool {
	initEnv()
	ln, err := net.Listen("tcp", "127.0.0.1:0")
	if err != nil {
		c.Count("hw.skipped-bind")
		return false
	}
	defer ln.Close()
	// new side: a real server with a listener on the old address (not started: the socket belongs to the old side)
	srv := server.NewServer(&server.Config{ServerName: lkName()}, cmFilter{}, clusterMng)
	defer srv.Close()
	name := lkName()
	if _, err := srv.AddListener(lkConfig(name, lkListener{network: "tcp", addr: ln.Addr().String(), bind: true})); err != nil {
		panic(err)
	}
	syscall.Unlink(types.TransferConnDomainSocket)
	ul, err := net.Listen("unix", types.TransferConnDomainSocket)
	if err != nil {
		panic(err)
	}
	defer ul.Close()
	accepted := make(chan net.Conn, 64)
	go func() {
		for {
			uc, err := ul.Accept()
			if err != nil {
				close(accepted)
				return
			}
			accepted <- uc
		}
	}()
	accCh := make(chan net.Conn, 1)
	go func() {
		ln.(*net.TCPListener).SetDeadline(time.Now().Add(3 * time.Second))
		k, _ := ln.Accept()
		accCh <- k
	}()
	cl, err := net.DialTimeout("tcp", ln.Addr().String(), 2*time.Second)
	if err != nil {
		c.Count("hw.skipped-dial")
		return false
	}
	defer cl.Close()
	srvConn := <-accCh
	if srvConn == nil {
		c.Count("hw.skipped-accept")
		return false
	}
	want := make([][]byte, h.n)
	total := 0
	for i := range want {
		want[i] = hwMsg(i, c.Rng.Bytes(c.Rng.Intn(h.sz)))
		total += len(want[i])
	}

	// ---- the hand-over begins; the window is open once the old side has dialled the transfer socket
	old := network.VerifNewHandover(srvConn, nil)
	tdone := make(chan struct{})
	go func() { defer close(tdone); hx.Safe(old.Transfer) }()
	var first net.Conn
	select {
	case first = <-accepted:
	case <-time.After(3 * time.Second):
		panic("the old side did not dial the transfer socket")
	}
	var issued, werr int64
	wdone := make(chan struct{})
	go func() {
		defer close(wdone)
		for i := 0; i < h.n; i++ {
			if err := old.Write(want[i]); err != nil {
				atomic.AddInt64(&werr, 1)
			}
			atomic.AddInt64(&issued, 1)
		}
	}()
	// until the writer is through or has made no progress for 150 ms (blocked on the full queue)
	last, lastAt := int64(-1), time.Now()
	for stalled := false; !stalled; {
		select {
		case <-wdone:
			stalled = true
		case <-time.After(5 * time.Millisecond):
			if n := atomic.LoadInt64(&issued); n != last {
				last, lastAt = n, time.Now()
			} else if time.Since(lastAt) > 150*time.Millisecond {
				stalled = true
			}
		}
	}
	inwin := atomic.LoadInt64(&issued)

	// ---- release the new side: adopt the connection, then apply the forwarded writes one after the other
	var tmap sync.Map
	network.VerifTransferHandler(first, srv.Handler(), &tmap)
	stop := make(chan struct{})
	hdone := make(chan struct{})
	go func() {
		defer close(hdone)
		for {
			select {
			case uc, ok := <-accepted:
				if !ok {
					return
				}
				network.VerifTransferHandler(uc, srv.Handler(), &tmap)
			case <-stop:
				return
			}
		}
	}()
	var got []byte
	buf := make([]byte, 4096)
	for len(got) < total {
		cl.SetReadDeadline(time.Now().Add(600 * time.Millisecond))
		n, err := cl.Read(buf)
		got = append(got, buf[:n]...)
		if err != nil {
			break
		}
	}
	if len(got) >= total { // nothing more may follow
		cl.SetReadDeadline(time.Now().Add(60 * time.Millisecond))
		if n, _ := io.ReadFull(cl, buf[:1]); n > 0 {
			got = append(got, buf[:n]...)
		}
	}
	select {
	case <-wdone:
	case <-time.After(2 * time.Second):
	}
	wfin := 0
	select {
	case <-wdone:
		wfin = 1
	default:
	}
	old.Stop()
	select {
	case <-tdone:
	case <-time.After(2 * time.Second):
	}
	close(stop)
	ul.Close()
	<-hdone
	srvConn.Close()

	// the adopting listener's connection record is written by the new connection's filter chain (its own goroutine)
	adopted := 0
	for dl := time.Now().Add(2 * time.Second); adopted == 0 && time.Now().Before(dl); time.Sleep(2 * time.Millisecond) {
		adopted = len(recsOf(name))
	}
	idx, clean := hwParse(got, want)
	inorder := 1
	seen := map[int]bool{}
	for i, v := range idx {
		if i > 0 && idx[i-1] >= v {
			inorder = 0
		}
		seen[v] = true
	}
	var lost []string
	for i := 0; i < h.n; i++ {
		if !seen[i] {
			lost = append(lost, fmt.Sprint(i))
		}
	}
	lostTok := "-"
	if len(lost) > 0 {
		lostTok = strings.Join(lost, ",")
	}
	cleanTok := 1
	if !clean {
		cleanTok = 0
	}
	c.Emit("C11", fmt.Sprintf("hw n=%d sz=%d", h.n, h.sz),
		fmt.Sprintf("adopted=%d inwin=%d wfin=%d werr=%d got=%d inorder=%d clean=%d lost=%s", adopted, inwin, wfin, atomic.LoadInt64(&werr), len(idx), inorder, cleanTok, lostTok))
	c.Count(fmt.Sprintf("hw.n=%d", h.n))
	return true
}

func runHandoverWrites(c *hx.Ctx) {
	// around the queue's capacity (8), none, far above
	for _, n := range []int{0, 1, 8, 9, 17, 40} {
		runHW(c, hwCase{n: n, sz: 1 + c.Rng.Intn(60)})
	}
	for i := 0; i < c.N(4, 20); i++ {
		runHW(c, hwCase{n: c.Rng.Pick([]int{2, 7, 8, 9, 10, 16, 24, 33}), sz: 1 + c.Rng.Intn(200)})
	}
}
