//go:build verif

package c18

// kinds (builder c18h10):
//
//	hufftree -                    the decoding tree buildRootHuffmanNode built (read through the VerifHuffmanTree hook), in
//	                              preorder; the model builds its tree from the regenerated table with the regenerated
//	                              addDecoderNode expressions and must get the same one
//	huff <maxLen> <hex>           huffmanDecode(buf, maxLen, payload): MOSN vs golang.org/x/net/http2/hpack
//	huffenc <hex>                 AppendHuffmanString / HuffmanEncodeLength: MOSN encoder -> x/net decoder, x/net encoder ->
//	                              MOSN decoder, both encoders byte for byte
//
// Strings range over all 256 octets, with long runs of the symbols whose codes have 28..30 bits; malformed payloads:
// over-long padding, padding that is not all ones, EOS inside the string, truncations, bit flips, random octets.

import (
	"fmt"
	"strings"

	xhpack "golang.org/x/net/http2/hpack"
	mhpack "mosn.io/mosn/pkg/module/http2/hpack"
	"verif/harness/hx"
)

func h10Tok(s string, kind string) string {
	if kind != "" {
		return kind
	}
	return "ok:" + hx.Hex([]byte(s))
}

func h10XKind(err error) string {
	switch err {
	case nil:
		return ""
	case xhpack.ErrInvalidHuffman:
		return "huffman"
	case xhpack.ErrStringLength:
		return "strlen"
	}
	if de, ok := err.(xhpack.DecodingError); ok {
		return h10XKind(de.Err)
	}
	return "other"
}

// h10XDecode: the reference decoder on a Huffman payload. maxLen 0: HuffmanDecodeToString. maxLen > 0: a Decoder with
// SetMaxStringLength(maxLen) reading one literal field whose value is the payload (the Decoder first refuses an ENCODED
// length above maxLen, so the case is only comparable when the payload is not longer than maxLen).
func h10XDecode(maxLen int, payload []byte) string {
	if maxLen == 0 {
		s, err := xhpack.HuffmanDecodeToString(payload)
		return h10Tok(s, h10XKind(err))
	}
	if len(payload) > maxLen {
		return "na"
	}
	block := []byte{0x00, 0x01, 'a'}
	n := uint64(len(payload))
	if n < 127 {
		block = append(block, 0x80|byte(n))
	} else {
		block = append(block, 0xff)
		n -= 127
		for n >= 128 {
			block = append(block, byte(0x80|(n&0x7f)))
			n >>= 7
		}
		block = append(block, byte(n))
	}
	block = append(block, payload...)
	got, seen := "", false
	d := xhpack.NewDecoder(4096, func(f xhpack.HeaderField) { got, seen = f.Value, true })
	d.SetMaxStringLength(maxLen)
	_, err := d.Write(block)
	if err == nil {
		err = d.Close()
	}
	if err != nil {
		return h10XKind(err)
	}
	if !seen {
		return "other"
	}
	return "ok:" + hx.Hex([]byte(got))
}

// symbols by code length (RFC 7541 Appendix B): the longest codes
var h10Long = []byte{10, 13, 22, 0, 1, 2, 3, 4, 5, 6, 7, 8, 11, 12, 14, 15, 16, 17, 18, 19, 20, 21, 23, 24, 25, 26, 27, 28, 29, 30, 31, 127, 220, 249, 254, 255, 192, 193, 200, 201, 202, 205, 210, 213, 218, 219, 238, 240, 242, 243}

func h10String(c *hx.Ctx) []byte {
	r := c.Rng
	n := r.Intn(24)
	switch r.Intn(12) {
	case 0:
		n = 0
	case 1:
		n = 1
	case 2:
		n = 40 + r.Intn(200)
	}
	s := make([]byte, n)
	switch r.Intn(6) {
	case 0: // text
		const al = "abcdefghijklmnopqrstuvwxyz0123456789-_.:/=%ABCDEXYZ ;,"
		for i := range s {
			s[i] = al[r.Intn(len(al))]
		}
		c.Count("huff.str.text")
	case 1: // all octets
		for i := range s {
			s[i] = byte(r.Intn(256))
		}
		c.Count("huff.str.octets")
	case 2: // runs of the longest codes
		for i := 0; i < len(s); {
			b := h10Long[r.Intn(3)]
			run := 1 + r.Intn(9)
			for k := 0; k < run && i < len(s); k++ {
				s[i] = b
				i++
			}
		}
		c.Count("huff.str.run30")
	case 3:
		for i := range s {
			s[i] = h10Long[r.Intn(len(h10Long))]
		}
		c.Count("huff.str.longcodes")
	case 4: // short codes only (5 bits): the padding is between 0 and 7 bits, every value
		const al = "012aceiost"
		for i := range s {
			s[i] = al[r.Intn(len(al))]
		}
		c.Count("huff.str.shortcodes")
	default: // mixed
		for i := range s {
			if r.Intn(3) == 0 {
				s[i] = h10Long[r.Intn(len(h10Long))]
			} else {
				s[i] = byte(32 + r.Intn(95))
			}
		}
		c.Count("huff.str.mixed")
	}
	return s
}

func h10RLE(row []int32) string {
	var parts []string
	tok := func(v int32) string {
		switch {
		case v < 0:
			return "-"
		case v&0x20000 != 0:
			return fmt.Sprintf("P%d", v&0xffff)
		default:
			return fmt.Sprintf("L%d.%d", v&0xff, (v>>8)&0xff)
		}
	}
	for i := 0; i < len(row); {
		j := i
		for j < len(row) && row[j] == row[i] {
			j++
		}
		if j-i > 1 {
			parts = append(parts, fmt.Sprintf("%s*%d", tok(row[i]), j-i))
		} else {
			parts = append(parts, tok(row[i]))
		}
		i = j
	}
	return strings.Join(parts, ",")
}

func runHuffman(c *hx.Ctx) {
	// the tree
	tree := mhpack.VerifHuffmanTree()
	var rows []string
	for _, row := range tree {
		rows = append(rows, h10RLE(row))
	}
	c.Emit("C18", "hufftree -", strings.Join(rows, ";"))
	c.Count("hufftree")

	emitDec := func(maxLen int, payload []byte, class string) {
		s, kind := mhpack.VerifHuffmanDecode(maxLen, payload)
		m := h10Tok(s, kind)
		x := h10XDecode(maxLen, payload)
		c.Emit("C18", fmt.Sprintf("huff %d %s", maxLen, hx.Hex(payload)), "m="+m+" x="+x)
		c.Count("huff." + class + "." + strings.SplitN(m, ":", 2)[0])
		if maxLen != 0 {
			c.Count("huff.maxLen")
		}
	}
	// directed: the boundaries the property names
	directed := [][]byte{
		{}, {0xff}, {0xff, 0xff}, {0xff, 0xff, 0xff}, {0xff, 0xff, 0xff, 0xff}, {0xff, 0xff, 0xff, 0xfc}, {0xff, 0xff, 0xff, 0xfb},
		{0xf1}, {0xf1, 0xff}, {0xf0}, {0xf1, 0xe3, 0xc7}, {0xf1, 0xe3, 0xc2}, {0xf1, 0xe3, 0xc7, 0xff}, {0x00}, {0x07}, {0x1f}, {0x3f}, {0x7f}, {0xfe}, {0xfc},
		{0xff, 0xff, 0xff, 0xf0}, {0xff, 0xff, 0xff, 0xf3, 0xff}, {0xff, 0xff, 0xff, 0xff, 0xff},
	}
	for _, p := range directed {
		emitDec(0, p, "directed")
		emitDec(1, p, "directed")
	}
	m := c.N(500, 3000)
	for k := 0; k < m; k++ {
		s := h10String(c)
		enc := mhpack.AppendHuffmanString(nil, string(s))
		// encoders
		xe := xhpack.AppendHuffmanString(nil, string(s))
		xs, xerr := xhpack.HuffmanDecodeToString(enc)
		ms, mkind := mhpack.VerifHuffmanDecode(0, xe)
		c.Emit("C18", "huffenc "+hx.Hex(s),
			fmt.Sprintf("e=%s l=%d xe=%s xl=%d xd=%s md=%s", hx.Hex(enc), mhpack.HuffmanEncodeLength(string(s)), hx.Hex(xe),
				xhpack.HuffmanEncodeLength(string(s)), h10Tok(xs, h10XKind(xerr)), h10Tok(ms, mkind)))
		c.Count("huffenc")
		c.Count(fmt.Sprintf("huffenc.pad=%d", (8-h10Bits(s)%8)%8))
		// decoders on the valid payload and on malformed variants of it
		maxLen := 0
		switch c.Rng.Intn(8) {
		case 0:
			maxLen = len(s)
		case 1:
			maxLen = len(s) + 1
		case 2:
			if len(s) > 1 {
				maxLen = len(s) - 1
			}
		case 3:
			maxLen = 1
		}
		emitDec(maxLen, enc, "valid")
		p := append([]byte(nil), enc...)
		class := ""
		switch c.Rng.Intn(9) {
		case 0: // one more byte of ones: 8..15 bits of padding
			p = append(p, 0xff)
			class = "pad8"
		case 1: // two
			p = append(p, 0xff, 0xff)
			class = "pad16"
		case 2: // a padding bit cleared
			if len(p) > 0 {
				p[len(p)-1] &^= 1 << uint(c.Rng.Intn(3))
			}
			class = "padzero"
		case 3: // EOS inside
			cut := 0
			if len(p) > 0 {
				cut = c.Rng.Intn(len(p))
			}
			q := append([]byte(nil), p[:cut]...)
			q = append(q, 0xff, 0xff, 0xff, 0xff)
			p = append(q, p[cut:]...)
			class = "eos"
		case 4: // truncated
			if len(p) > 0 {
				p = p[:c.Rng.Intn(len(p))]
			}
			class = "trunc"
		case 5: // one bit flipped
			if len(p) > 0 {
				p[c.Rng.Intn(len(p))] ^= 1 << uint(c.Rng.Intn(8))
			}
			class = "flip"
		case 6: // random octets
			p = c.Rng.Bytes(c.Rng.Intn(12))
			class = "random"
		case 7: // a zero byte appended (a complete 5-bit code + 3 zero bits)
			p = append(p, 0x00)
			class = "zero"
		default: // ones only
			p = make([]byte, 1+c.Rng.Intn(6))
			for i := range p {
				p[i] = 0xff
			}
			if c.Rng.Bool() {
				p[len(p)-1] = byte(0xff << uint(c.Rng.Intn(8)))
			}
			class = "ones"
		}
		emitDec(maxLen, p, class)
	}
}

func h10Bits(s []byte) int {
	n := 0
	for _, b := range s {
		// the reference's length in bits cannot be read directly: use whole-string length differences
		n += int(xhpack.HuffmanEncodeLength(string([]byte{b, b, b, b, b, b, b, b}))) // 8 copies = exactly len bits bytes
	}
	return n
}
