//go:build verif

package c18

import (
	"bytes"
	"context"
	"fmt"
	"os"
	"os/exec"
	"strings"
	"time"

	xh2 "golang.org/x/net/http2"
	xhpack "golang.org/x/net/http2/hpack"
	mh2 "mosn.io/mosn/pkg/module/http2"
	mhpack "mosn.io/mosn/pkg/module/http2/hpack"
	"mosn.io/pkg/buffer"
	"verif/harness/hx"
)

// ---------------------------------------------------------------------------------------------------------
// frame sequences: written by one framer (+ its hpack encoder), read by MFramer.ReadFrame (whole and segmented) and
// by the reference framer.

type fSpec struct {
	kind     byte // D H S W P R G Y U
	sid      uint32
	es       bool
	pad      int // -1 = not padded
	data     []byte
	prio     *[3]uint32 // dep, exclusive, weight
	nfrag    int
	emptyHd  bool // HEADERS frame itself carries an empty fragment
	fields   []hItem
	settings [][2]uint32
	ack      bool
	v1, v2   uint32
	typ, fl  uint8
}

func (f fSpec) String() string {
	padTok := "-"
	if f.pad >= 0 {
		padTok = fmt.Sprint(f.pad)
	}
	switch f.kind {
	case 'D':
		return fmt.Sprintf("D:%d:%s:%s:%s", f.sid, b01(f.es), padTok, hx.Hex(f.data))
	case 'H':
		pr := "-"
		if f.prio != nil {
			pr = fmt.Sprintf("%d.%d.%d", f.prio[0], f.prio[1], f.prio[2])
		}
		var fs []string
		for _, it := range f.fields {
			fs = append(fs, it.String())
		}
		return fmt.Sprintf("H:%d:%s:%s:%s:%d%s:%s", f.sid, b01(f.es), padTok, pr, f.nfrag, map[bool]string{true: "e", false: ""}[f.emptyHd], strings.Join(fs, "+"))
	case 'S':
		var ss []string
		for _, s := range f.settings {
			ss = append(ss, fmt.Sprintf("%d=%d", s[0], s[1]))
		}
		return fmt.Sprintf("S:%s:%s", b01(f.ack), strings.Join(ss, ";"))
	case 'W':
		return fmt.Sprintf("W:%d:%d", f.sid, f.v1)
	case 'P':
		return fmt.Sprintf("P:%s:%s", b01(f.ack), hx.Hex(f.data))
	case 'R':
		return fmt.Sprintf("R:%d:%d", f.sid, f.v1)
	case 'G':
		return fmt.Sprintf("G:%d:%d:%s", f.v1, f.v2, hx.Hex(f.data))
	case 'Y':
		return fmt.Sprintf("Y:%d:%d.%d.%d", f.sid, f.prio[0], f.prio[1], f.prio[2])
	}
	return fmt.Sprintf("U:%d:%d:%d:%s", f.typ, f.fl, f.sid, hx.Hex(f.data))
}

func splitBlock(block []byte, nfrag int, emptyFirst bool) [][]byte {
	var out [][]byte
	if emptyFirst {
		out = append(out, []byte{})
		nfrag--
	}
	if nfrag < 1 {
		nfrag = 1
	}
	sz := (len(block) + nfrag - 1) / nfrag
	if sz == 0 {
		sz = 1
	}
	for i := 0; i < nfrag; i++ {
		lo, hi := i*sz, (i+1)*sz
		if lo > len(block) {
			lo = len(block)
		}
		if hi > len(block) || i == nfrag-1 {
			hi = len(block)
		}
		out = append(out, block[lo:hi])
	}
	return out
}

// ---- writers
func writeX(specs []fSpec) []byte {
	var wire, hb bytes.Buffer
	fr := xh2.NewFramer(&wire, nil)
	fr.AllowIllegalWrites = true
	enc := xhpack.NewEncoder(&hb)
	for _, f := range specs {
		switch f.kind {
		case 'D':
			if f.pad >= 0 {
				fr.WriteDataPadded(f.sid, f.es, f.data, make([]byte, f.pad))
			} else {
				fr.WriteData(f.sid, f.es, f.data)
			}
		case 'H':
			hb.Reset()
			for _, it := range f.fields {
				enc.WriteField(xhpack.HeaderField{Name: it.name, Value: it.val, Sensitive: it.sens})
			}
			frags := splitBlock(append([]byte(nil), hb.Bytes()...), f.nfrag, f.emptyHd)
			p := xh2.HeadersFrameParam{StreamID: f.sid, BlockFragment: frags[0], EndStream: f.es, EndHeaders: len(frags) == 1}
			if f.pad > 0 {
				p.PadLength = uint8(f.pad)
			}
			if f.prio != nil {
				p.Priority = xh2.PriorityParam{StreamDep: f.prio[0], Exclusive: f.prio[1] == 1, Weight: uint8(f.prio[2])}
			}
			fr.WriteHeaders(p)
			for i := 1; i < len(frags); i++ {
				fr.WriteContinuation(f.sid, i == len(frags)-1, frags[i])
			}
		case 'S':
			if f.ack {
				fr.WriteSettingsAck()
			} else {
				var ss []xh2.Setting
				for _, s := range f.settings {
					ss = append(ss, xh2.Setting{ID: xh2.SettingID(s[0]), Val: s[1]})
				}
				fr.WriteSettings(ss...)
			}
		case 'W':
			fr.WriteWindowUpdate(f.sid, f.v1)
		case 'P':
			var d [8]byte
			copy(d[:], f.data)
			fr.WritePing(f.ack, d)
		case 'R':
			fr.WriteRSTStream(f.sid, xh2.ErrCode(f.v1))
		case 'G':
			fr.WriteGoAway(f.v1, xh2.ErrCode(f.v2), f.data)
		case 'Y':
			fr.WritePriority(f.sid, xh2.PriorityParam{StreamDep: f.prio[0], Exclusive: f.prio[1] == 1, Weight: uint8(f.prio[2])})
		default:
			fr.WriteRawFrame(xh2.FrameType(f.typ), xh2.Flags(f.fl), f.sid, f.data)
		}
	}
	return wire.Bytes()
}

func be32(v uint32) []byte { return []byte{byte(v >> 24), byte(v >> 16), byte(v >> 8), byte(v)} }

func writeM(specs []fSpec) []byte {
	w := newFakeConn()
	cc := mh2.NewClientConn(w)
	var hb bytes.Buffer
	enc := mhpack.NewEncoder(&hb)
	fr := cc.Framer
	for _, f := range specs {
		switch f.kind {
		case 'D':
			if len(f.data) == 0 {
				fr.VerifWriteData(f.sid, f.es, nil)
			} else {
				fr.VerifWriteData(f.sid, f.es, f.data) // MOSN never pads; chunks of 16384
			}
		case 'H':
			hb.Reset()
			for _, it := range f.fields {
				enc.WriteField(mhpack.HeaderField{Name: it.name, Value: it.val, Sensitive: it.sens})
			}
			frags := splitBlock(append([]byte(nil), hb.Bytes()...), f.nfrag, f.emptyHd)
			p := mh2.HeadersFrameParam{StreamID: f.sid, BlockFragment: frags[0], EndStream: f.es, EndHeaders: len(frags) == 1}
			if f.pad > 0 {
				p.PadLength = uint8(f.pad)
			}
			if f.prio != nil {
				p.Priority = mh2.PriorityParam{StreamDep: f.prio[0], Exclusive: f.prio[1] == 1, Weight: uint8(f.prio[2])}
			}
			fr.VerifWriteHeaders(p)
			for i := 1; i < len(frags); i++ {
				fr.VerifWriteContinuation(f.sid, i == len(frags)-1, frags[i])
			}
		case 'S':
			var p []byte
			fl := mh2.Flags(0)
			if f.ack {
				fl = mh2.FlagSettingsAck
			}
			for _, s := range f.settings {
				p = append(p, byte(s[0]>>8), byte(s[0]))
				p = append(p, be32(s[1])...)
			}
			fr.VerifWriteRaw(mh2.FrameSettings, fl, 0, p)
		case 'W':
			fr.VerifWriteRaw(mh2.FrameWindowUpdate, 0, f.sid, be32(f.v1))
		case 'P':
			fl := mh2.Flags(0)
			if f.ack {
				fl = mh2.FlagPingAck
			}
			d := make([]byte, 8)
			copy(d, f.data)
			fr.VerifWriteRaw(mh2.FramePing, fl, 0, d)
		case 'R':
			fr.VerifWriteRaw(mh2.FrameRSTStream, 0, f.sid, be32(f.v1))
		case 'G':
			fr.VerifWriteRaw(mh2.FrameGoAway, 0, 0, append(append(be32(f.v1), be32(f.v2)...), f.data...))
		case 'Y':
			v := f.prio[0]
			if f.prio[1] == 1 {
				v |= 1 << 31
			}
			fr.VerifWriteRaw(mh2.FramePriority, 0, f.sid, append(be32(v), byte(f.prio[2])))
		default:
			fr.VerifWriteRaw(mh2.FrameType(f.typ), mh2.Flags(f.fl), f.sid, f.data)
		}
	}
	return w.all()
}

// ---- readers -> canonical summaries
func hfTok(name, val string, sens bool) string {
	return fmt.Sprintf("f%s:%s:%s", b01(sens), hx.Hex([]byte(name)), hx.Hex([]byte(val)))
}

func sumM(f mh2.Frame) string {
	h := f.Header()
	switch x := f.(type) {
	case *mh2.DataFrame:
		return fmt.Sprintf("D:%d:%d:%d:%s", h.StreamID, h.Flags, h.Length, hx.Hex(x.Data()))
	case *mh2.MetaHeadersFrame:
		pr := "-"
		if x.HasPriority() {
			pr = fmt.Sprintf("%d.%s.%d", x.Priority.StreamDep, b01(x.Priority.Exclusive), x.Priority.Weight)
		}
		var fs []string
		for _, hf := range x.Fields {
			fs = append(fs, hfTok(hf.Name, hf.Value, hf.Sensitive))
		}
		t := ""
		if x.Truncated {
			t = ":trunc"
		}
		return fmt.Sprintf("H:%d:%d:%s:%s%s", h.StreamID, h.Flags, pr, orDash(strings.Join(fs, "+")), t)
	case *mh2.SettingsFrame:
		var ss []string
		x.ForeachSetting(func(s mh2.Setting) error { ss = append(ss, fmt.Sprintf("%d=%d", s.ID, s.Val)); return nil })
		return fmt.Sprintf("S:%d:%s", h.Flags, orDash(strings.Join(ss, ";")))
	case *mh2.WindowUpdateFrame:
		return fmt.Sprintf("W:%d:%d", h.StreamID, x.Increment)
	case *mh2.PingFrame:
		return fmt.Sprintf("P:%d:%s", h.Flags, hx.Hex(x.Data[:]))
	case *mh2.RSTStreamFrame:
		return fmt.Sprintf("R:%d:%d", h.StreamID, x.ErrCode)
	case *mh2.GoAwayFrame:
		return fmt.Sprintf("G:%d:%d:%s", x.LastStreamID, x.ErrCode, hx.Hex(x.DebugData()))
	case *mh2.PriorityFrame:
		return fmt.Sprintf("Y:%d:%d.%s.%d", h.StreamID, x.StreamDep, b01(x.Exclusive), x.Weight)
	case *mh2.UnknownFrame:
		return fmt.Sprintf("U:%d:%d:%d:%s", h.Type, h.Flags, h.StreamID, hx.Hex(x.Payload()))
	}
	return fmt.Sprintf("O:%d:%d:%d:%d", h.Type, h.Flags, h.StreamID, h.Length)
}

func sumX(f xh2.Frame) string {
	h := f.Header()
	switch x := f.(type) {
	case *xh2.DataFrame:
		return fmt.Sprintf("D:%d:%d:%d:%s", h.StreamID, h.Flags, h.Length, hx.Hex(x.Data()))
	case *xh2.MetaHeadersFrame:
		pr := "-"
		if x.HasPriority() {
			pr = fmt.Sprintf("%d.%s.%d", x.Priority.StreamDep, b01(x.Priority.Exclusive), x.Priority.Weight)
		}
		var fs []string
		for _, hf := range x.Fields {
			fs = append(fs, hfTok(hf.Name, hf.Value, hf.Sensitive))
		}
		t := ""
		if x.Truncated {
			t = ":trunc"
		}
		return fmt.Sprintf("H:%d:%d:%s:%s%s", h.StreamID, h.Flags, pr, orDash(strings.Join(fs, "+")), t)
	case *xh2.SettingsFrame:
		var ss []string
		x.ForeachSetting(func(s xh2.Setting) error { ss = append(ss, fmt.Sprintf("%d=%d", s.ID, s.Val)); return nil })
		return fmt.Sprintf("S:%d:%s", h.Flags, orDash(strings.Join(ss, ";")))
	case *xh2.WindowUpdateFrame:
		return fmt.Sprintf("W:%d:%d", h.StreamID, x.Increment)
	case *xh2.PingFrame:
		return fmt.Sprintf("P:%d:%s", h.Flags, hx.Hex(x.Data[:]))
	case *xh2.RSTStreamFrame:
		return fmt.Sprintf("R:%d:%d", h.StreamID, x.ErrCode)
	case *xh2.GoAwayFrame:
		return fmt.Sprintf("G:%d:%d:%s", x.LastStreamID, x.ErrCode, hx.Hex(x.DebugData()))
	case *xh2.PriorityFrame:
		return fmt.Sprintf("Y:%d:%d.%s.%d", h.StreamID, x.StreamDep, b01(x.Exclusive), x.Weight)
	case *xh2.UnknownFrame:
		return fmt.Sprintf("U:%d:%d:%d:%s", h.Type, h.Flags, h.StreamID, hx.Hex(x.Payload()))
	}
	return fmt.Sprintf("O:%d:%d:%d:%d", h.Type, h.Flags, h.StreamID, h.Length)
}

func orDash(s string) string {
	if s == "" {
		return "-"
	}
	return s
}

func errTokM(err error) string {
	switch e := err.(type) {
	case mh2.ConnectionError:
		return fmt.Sprintf("E:conn:%d", uint32(e))
	case mh2.StreamError:
		return fmt.Sprintf("E:stream:%d:%d", e.StreamID, uint32(e.Code))
	}
	if err == mh2.ErrFrameTooLarge {
		return "E:toolarge"
	}
	return "E:other"
}

func errTokX(err error) string {
	switch e := err.(type) {
	case xh2.ConnectionError:
		return fmt.Sprintf("E:conn:%d", uint32(e))
	case xh2.StreamError:
		return fmt.Sprintf("E:stream:%d:%d", e.StreamID, uint32(e.Code))
	}
	if err == xh2.ErrFrameTooLarge {
		return "E:toolarge"
	}
	return "E:other"
}

// readM parses `wire` with MFramer.ReadFrame, feeding it in the given chunks (one chunk = whole).
func readM(wire []byte, cuts []int) string {
	sc := mh2.NewServerConn(newFakeConn())
	fr := sc.Framer
	ctx := context.Background()
	data := buffer.NewIoBuffer(len(wire))
	var out []string
	prev := 0
	dead := false
	feed := func(chunk []byte) {
		data.Write(chunk)
		for !dead {
			var f mh2.Frame
			var err error
			msg, panicked := hx.Safe(func() { f, _, err = fr.ReadFrame(ctx, data, 0) })
			if panicked {
				out = append(out, "E:panic:"+hx.Tok(msg))
				dead = true
				return
			}
			if err == mh2.ErrAGAIN {
				return
			}
			if err != nil {
				out = append(out, errTokM(err))
				dead = true // every ReadFrame error is fatal for the connection in MOSN's stream layer except StreamError; stop for comparability
				return
			}
			out = append(out, sumM(f))
		}
	}
	for _, c := range cuts {
		if c > prev && c <= len(wire) {
			feed(wire[prev:c])
			prev = c
		}
	}
	feed(wire[prev:])
	if !dead && data.Len() > 0 {
		out = append(out, "E:short")
	}
	return orDash(strings.Join(out, ","))
}

func readX(wire []byte) string {
	fr := xh2.NewFramer(nil, bytes.NewReader(wire))
	fr.ReadMetaHeaders = xhpack.NewDecoder(4096, nil)
	fr.MaxHeaderListSize = 1 << 20
	fr.SetMaxReadFrameSize(1 << 20)
	var out []string
	for {
		f, err := fr.ReadFrame()
		if err != nil {
			if err.Error() == "EOF" {
				// the stream ended on a frame boundary; inside a HEADERS/CONTINUATION sequence that is still incomplete
				// (io.ReadFull also reports plain EOF when a frame header is complete and no payload byte follows)
				if !wholeFrames(wire) || openHeaderBlock(wire) {
					out = append(out, "E:short")
				}
				break
			}
			if err.Error() == "unexpected EOF" {
				// io.ErrUnexpectedEOF is both "the stream ends inside a frame" and the payload parsers' short read
				if wholeFrames(wire) {
					out = append(out, "E:other")
				} else {
					out = append(out, "E:short")
				}
				break
			}
			out = append(out, errTokX(err))
			break
		}
		out = append(out, sumX(f))
	}
	return orDash(strings.Join(out, ","))
}

// openHeaderBlock reports whether wire (a whole number of frames) ends before the END_HEADERS of a header block.
func openHeaderBlock(wire []byte) bool {
	open := false
	for len(wire) >= 9 {
		l := int(wire[0])<<16 | int(wire[1])<<8 | int(wire[2])
		if len(wire) < 9+l {
			return open
		}
		if wire[3] == 1 || wire[3] == 9 {
			open = wire[4]&4 == 0
		}
		wire = wire[9+l:]
	}
	return open
}

// wholeFrames reports whether wire is a whole number of frames.
func wholeFrames(wire []byte) bool {
	for len(wire) > 0 {
		if len(wire) < 9 {
			return false
		}
		l := int(wire[0])<<16 | int(wire[1])<<8 | int(wire[2])
		if len(wire) < 9+l {
			return false
		}
		wire = wire[9+l:]
	}
	return true
}

func genReqFields(r *hx.Rng, pool *[]hItem, response bool) []hItem {
	var fs []hItem
	if response {
		fs = append(fs, hItem{kind: 'f', name: ":status", val: []string{"200", "204", "404", "500", "302"}[r.Intn(5)]})
	} else {
		fs = append(fs, hItem{kind: 'f', name: ":method", val: []string{"GET", "POST", "PUT"}[r.Intn(3)]},
			hItem{kind: 'f', name: ":scheme", val: "http"},
			hItem{kind: 'f', name: ":authority", val: "peer.example"},
			hItem{kind: 'f', name: ":path", val: "/" + string(genTok(r, r.Intn(30)))})
	}
	n := r.Intn(10)
	for j := 0; j < n; j++ {
		f := genField(r, pool)
		if strings.HasPrefix(f.name, ":") {
			f.name = "x" + strings.ReplaceAll(f.name, ":", "-")
		}
		// keep values inside what both framers accept as a header value (validation is not part of the model)
		v := []byte(f.val)
		for i := range v {
			if v[i] < 0x20 || v[i] == 0x7f {
				v[i] = 'a' + v[i]%26
			}
		}
		f.val = string(v)
		fs = append(fs, f)
	}
	return fs
}

// canarySpecs: one HEADERS frame whose block is spread over three CONTINUATION frames.
func canarySpecs() []fSpec {
	return []fSpec{{kind: 'H', sid: 1, es: true, pad: -1, nfrag: 4, fields: []hItem{
		{kind: 'f', name: ":status", val: "200"}, {kind: 'f', name: "x-a", val: "0123456789abcdef0123456789abcdef"},
		{kind: 'f', name: "x-b", val: "0123456789abcdef0123456789abcdef"}}}}
}

// canaryContinuation runs in a child process: a reader that does not terminate cannot be stopped from inside.
func canaryContinuation() {
	fmt.Println(readM(writeX(canarySpecs()), nil))
}

// continuationTerminates reports whether MFramer.ReadFrame returns on a multi-CONTINUATION header block (checked in
// a child process with a deadline: a looping reader also allocates without bound).
func continuationTerminates() (bool, string) {
	cmd := exec.Command(os.Args[0], "C18", "-tier", "canary-continuation")
	var out bytes.Buffer
	cmd.Stdout = &out
	if err := cmd.Start(); err != nil {
		return true, ""
	}
	done := make(chan error, 1)
	go func() { done <- cmd.Wait() }()
	select {
	case <-done:
		lines := strings.Split(strings.TrimSpace(out.String()), "\n")
		return true, lines[len(lines)-1]
	case <-time.After(10 * time.Second):
		cmd.Process.Kill()
		<-done
		return false, ""
	}
}

func runFrameSeqs(c *hx.Ctx) {
	multiCont := true
	if ok, _ := continuationTerminates(); !ok {
		// report it as a case of its own and keep the rest of the run alive by not feeding such blocks in-process
		specs := canarySpecs()
		wire := writeX(specs)
		c.Emit("C18", "frames x2m - - "+specs[0].String(), hx.Hex(wire)+" m=E:hang s=E:hang x="+readX(wire))
		c.Count("frames.reader-does-not-terminate")
		multiCont = false
	}
	m := c.N(400, 2500)
	for k := 0; k < m; k++ {
		r := c.Rng
		dir := "x2m"
		if k%3 == 2 {
			dir = "m2x"
		}
		var specs []fSpec
		var pool []hItem
		nf := 1 + r.Intn(7)
		sid := uint32(1)
		response := r.Intn(3) == 0
		for j := 0; j < nf; j++ {
			x := r.Intn(100)
			switch {
			case x < 40:
				f := fSpec{kind: 'H', sid: sid, es: r.Intn(3) == 0, pad: -1, nfrag: 1}
				sid += 2
				f.fields = genReqFields(r, &pool, response)
				if r.Intn(3) == 0 {
					f.nfrag = 2 + r.Intn(4) // CONTINUATION frames
					c.Count("frames.continuation")
					if f.nfrag >= 3 {
						c.Count("frames.continuation>=2")
					}
				}
				if r.Intn(8) == 0 {
					f.emptyHd = true
					f.nfrag++
					c.Count("frames.empty-headers-fragment")
				}
				if !multiCont && f.nfrag > 2 {
					f.nfrag = 2
				}
				if r.Intn(4) == 0 {
					f.pad = []int{1, 2, 17, 255}[r.Intn(4)]
					c.Count("frames.headers-padded")
				}
				if r.Intn(4) == 0 {
					f.prio = &[3]uint32{uint32(r.Intn(50)), uint32(r.Intn(2)), uint32(r.Intn(256))}
					if f.prio[0] == 0 && f.prio[1] == 0 && f.prio[2] == 0 {
						f.prio[2] = 15
					}
					c.Count("frames.headers-priority")
				}
				if r.Intn(60) == 0 { // a header block beyond two frames
					f.fields = append(f.fields, hItem{kind: 'f', name: "x-big", val: string(genTok(r, 40000))})
					f.nfrag = 3 + r.Intn(2)
					if !multiCont {
						f.nfrag = 2
					}
					c.Count("frames.big-header-block")
				}
				specs = append(specs, f)
			case x < 65:
				f := fSpec{kind: 'D', sid: 1 + 2*uint32(r.Intn(4)), es: r.Intn(4) == 0, pad: -1}
				f.data = r.Bytes([]int{0, 1, 5, 100, 100, 100, 1000, 1000, 100, 5, 16384, 1, 300, 17, 64, 255}[r.Intn(16)])
				if dir == "x2m" && r.Intn(3) == 0 {
					f.pad = []int{0, 1, 7, 255}[r.Intn(4)]
					c.Count("frames.data-padded")
				}
				if dir == "m2x" && r.Intn(24) == 0 {
					f.data = r.Bytes(16384*2 + r.Intn(100)) // MFramer.writeData cuts it into 16384-byte frames
				}
				specs = append(specs, f)
			case x < 73:
				f := fSpec{kind: 'S'}
				if r.Intn(4) == 0 {
					f.ack = true
				} else {
					for q := 0; q < r.Intn(4); q++ {
						id := uint32(1 + r.Intn(7))
						v := []uint32{0, 1, 100, 4096, 16384, 65535, 1 << 20, 1<<24 - 1, 1<<31 - 1}[r.Intn(9)]
						if id == 5 && (v < 16384 || v > 1<<24-1) {
							v = 16384
						}
						f.settings = append(f.settings, [2]uint32{id, v})
					}
				}
				specs = append(specs, f)
			case x < 80:
				specs = append(specs, fSpec{kind: 'W', sid: uint32(r.Intn(6)), v1: []uint32{1, 2, 65535, 1<<31 - 1}[r.Intn(4)]})
			case x < 85:
				specs = append(specs, fSpec{kind: 'P', ack: r.Bool(), data: r.Bytes(8)})
			case x < 89:
				specs = append(specs, fSpec{kind: 'R', sid: 1 + 2*uint32(r.Intn(4)), v1: uint32(r.Intn(14))})
			case x < 92:
				specs = append(specs, fSpec{kind: 'G', v1: uint32(r.Intn(100)), v2: uint32(r.Intn(14)), data: r.Bytes(r.Intn(10))})
			case x < 95:
				specs = append(specs, fSpec{kind: 'Y', sid: 1 + 2*uint32(r.Intn(4)), prio: &[3]uint32{uint32(r.Intn(50)), uint32(r.Intn(2)), uint32(r.Intn(256))}})
			default:
				specs = append(specs, fSpec{kind: 'U', typ: uint8(10 + r.Intn(240)), fl: uint8(r.Intn(256)), sid: uint32(r.Intn(9)), data: r.Bytes(r.Intn(20))})
			}
		}
		var wire []byte
		if dir == "x2m" {
			wire = writeX(specs)
		} else {
			wire = writeM(specs)
		}
		// malformed stream: damage a valid sequence in a modelled way
		mal := ""
		if r.Intn(12) == 0 && len(wire) > 9 {
			switch r.Intn(3) {
			case 0: // truncate
				wire = wire[:r.Intn(len(wire))]
				mal = "trunc"
			case 1: // flip the type of the first frame to CONTINUATION
				wire = append([]byte(nil), wire...)
				wire[3] = 9
				mal = "stray-continuation"
			default: // set PADDED on the first frame if it is DATA (on HEADERS the result is decided by header validation, not modelled)
				if wire[3] == 0 {
					wire = append([]byte(nil), wire...)
					wire[4] |= 8
					mal = "forced-padded"
				}
			}
			if mal != "" {
				c.Count("frames.malformed." + mal)
			}
		}
		// segmentation points
		var cuts []int
		ncuts := 1 + r.Intn(6)
		for q := 0; q < ncuts && len(wire) > 0; q++ {
			cuts = append(cuts, r.Intn(len(wire)+1))
		}
		sortInts(cuts)
		var ss []string
		for _, s := range specs {
			ss = append(ss, s.String())
		}
		cs := make([]string, len(cuts))
		for i, x := range cuts {
			cs[i] = fmt.Sprint(x)
		}
		whole := readM(wire, nil)
		seg := readM(wire, cuts)
		x := readX(wire)
		c.Emit("C18", fmt.Sprintf("frames %s %s %s %s", dir, orDash(mal), orDash(strings.Join(cs, ";")), strings.Join(ss, ",")),
			hx.Hex(wire)+" m="+whole+" s="+seg+" x="+x)
		c.Count("frames." + dir)
	}
}

func sortInts(a []int) {
	for i := 1; i < len(a); i++ {
		for j := i; j > 0 && a[j] < a[j-1]; j-- {
			a[j], a[j-1] = a[j-1], a[j]
		}
	}
}
