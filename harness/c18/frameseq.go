//go:build verif

package c18

import "verif/harness/hx"

func runFrameSeqs(c *hx.Ctx) {}
