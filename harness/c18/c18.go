//go:build verif

// Package c18: HTTP/2 wire compatibility (fork vs golang.org/x/net/http2{,/hpack}) and send-side flow control.
//
// kinds of case lines (see lean/MosnVerif/Drive/C18.lean for the model side):
//
//	flowops <withConn> <op,op,…>            the real flow type through hooks: a<n> add, c<n> add on conn, t<n> take, v available
//	peer <client|server> <ev,ev,…>          a raw-frame reference peer against MClientConn / MServerConn: DATA frames
//	                                        observed between peer events + MOSN's windows after each event
//	int <n> <i>                             prefix integer: MOSN encode, MOSN decode, reference encode where reachable
//	intdec <n> <hex>                        readVarInt on arbitrary bytes
//	str <hex>                               string literal: MOSN encode / decode, reference decode
//	strdec <maxlen> <hex>                   Decoder.readString on arbitrary bytes
//	fh <len> <type> <flags> <sid>           frame header written by MFramer, parsed by the reference and vice versa
//	fhdec <hex>                             MFramer.readFrameHeader on arbitrary bytes vs reference
//	hdr <dir> <ops…>                        header lists + table size updates encoded by one side, decoded by the other
//	hdrcut <ops…>                           header blocks decoded while the emit callback switches emitting off mid-block (hdrcut.go)
//	frames <dir> <frames…>                  frame sequences (padding, priority, CONTINUATION) written by one framer, read by the other
//	hufftree / huff / huffenc               Huffman tree, decoder, encoder against the reference (h10_huff.go)
//	fpay …                                  frame payload writers / parsers, every type at every boundary length (h10_fpay.go)
//	lim rf … / lim conn …                   limits: frame size / padding / fixed lengths / SETTINGS ranges / WINDOW_UPDATE overflow at their boundaries (c18r6_limits.go)
package c18

import (
	"bytes"
	"sync"

	"mosn.io/api"
	"mosn.io/pkg/buffer"
	"verif/harness/hx"
)

func init() { hx.Register("C18", Run) }

func Run(c *hx.Ctx) {
	if c.Tier == "canary-continuation" {
		canaryContinuation()
		return
	}
	// hx.NewRng(seed) and hx.NewRng(seed+1) are the same splitmix stream one draw apart; scatter the seeds
	c.Rng = hx.NewRng(scatter(c.Seed))
	if len(c.Args) >= 2 && c.Args[0] == "only" && c.Args[1] == "peerneg" { // debugging aid
		runPeerNeg(c)
		return
	}
	runFlowOps(c)
	runInts(c)
	runStrings(c)
	runFrameHeaders(c)
	runHeaderLists(c)
	runHdrCuts(c)
	runFrameSeqs(c)
	runPeer(c)
	runPeerNeg(c)
	runLimits(c) // c18r6_limits.go
	runHuffman(c)  // h10_huff.go
	runFramePayloads(c) // h10_fpay.go
}

func scatter(z uint64) uint64 {
	z += 0x632BE59BD9B4E019
	z = (z ^ (z >> 30)) * 0xBF58476D1CE4E5B9
	z = (z ^ (z >> 27)) * 0x94D049BB133111EB
	return z ^ (z >> 31)
}

// fakeConn is the in-memory pipe: everything MOSN writes is appended to `out` as one record per Write call.
type fakeConn struct {
	api.Connection
	mu   sync.Mutex
	cond *sync.Cond
	recs [][]byte
	st   api.ConnState
}

func newFakeConn() *fakeConn {
	f := &fakeConn{st: api.ConnActive}
	f.cond = sync.NewCond(&f.mu)
	return f
}

func (c *fakeConn) Write(bufs ...buffer.IoBuffer) error {
	c.mu.Lock()
	for _, b := range bufs {
		c.recs = append(c.recs, append([]byte(nil), b.Bytes()...))
	}
	c.cond.Broadcast()
	c.mu.Unlock()
	return nil
}

func (c *fakeConn) State() api.ConnState {
	c.mu.Lock()
	defer c.mu.Unlock()
	return c.st
}

func (c *fakeConn) Close(api.ConnectionCloseType, api.ConnectionEvent) error {
	c.mu.Lock()
	c.st = api.ConnClosed
	c.mu.Unlock()
	return nil
}

func (c *fakeConn) ID() uint64 { return 1 }

// take returns the records written since the last call.
func (c *fakeConn) take() [][]byte {
	c.mu.Lock()
	defer c.mu.Unlock()
	r := c.recs
	c.recs = nil
	return r
}

func (c *fakeConn) all() []byte {
	var b bytes.Buffer
	for _, r := range c.take() {
		b.Write(r)
	}
	return b.Bytes()
}
