//go:build verif

package c18

import (
	"bytes"
	"fmt"
	"strings"

	xhpack "golang.org/x/net/http2/hpack"
	mhpack "mosn.io/mosn/pkg/module/http2/hpack"
	"verif/harness/hx"
)

// ---------------------------------------------------------------------------------------------------------
// prefix integers

func intValues(r *hx.Rng, n int) []uint64 {
	k := uint64(1)<<uint(n) - 1
	vs := []uint64{0, 1, k - 1, k, k + 1, k + 127, k + 128, k + 129, k + 16383, k + 16384, 1<<32 - 1, 1 << 32, 1<<56 + k, 1<<63 - 1, 1<<63 - 1 + k, 1<<63 + k, 1<<63 + k + 1, 1<<64 - 1}
	for j := 0; j < 6; j++ {
		vs = append(vs, r.U64()>>uint(r.Intn(64)))
	}
	return vs
}

func decTok(i uint64, rest []byte, kind string) string {
	if kind != "" {
		return kind
	}
	return fmt.Sprintf("ok:%d:%d", i, len(rest))
}

func runInts(c *hx.Ctx) {
	rounds := c.N(3, 60)
	for round := 0; round < rounds; round++ {
		for n := 1; n <= 8; n++ {
			for _, v := range intValues(c.Rng, n) {
				enc := mhpack.VerifAppendVarInt(nil, byte(n), v)
				i, rest, kind := mhpack.VerifReadVarInt(byte(n), append(append([]byte(nil), enc...), 0x55))
				out := hx.Hex(enc) + " " + decTok(i, rest, kind)
				if n == 5 && v <= 1<<32-1 {
					// the reference encoder writes a 5-bit-prefix integer in a dynamic table size update
					var b bytes.Buffer
					e := xhpack.NewEncoder(&b)
					e.SetMaxDynamicTableSizeLimit(1<<32 - 1)
					e.SetMaxDynamicTableSize(uint32(v))
					e.WriteField(xhpack.HeaderField{Name: ":method", Value: "GET"})
					x := b.Bytes()
					// "minSize < maxSize" can emit two updates; with a fresh encoder (4096) a smaller v emits one, a larger v two? no: only v
					out += " x5=" + hx.Hex(x[:len(x)-1])
					c.Count("int.x5")
				}
				c.Emit("C18", fmt.Sprintf("int %d %d", n, v), out)
				c.Count(fmt.Sprintf("int.n=%d", n))
				c.Count("int.dec." + strings.SplitN(decTok(i, rest, kind), ":", 2)[0])
			}
		}
	}
	// malformed stream: arbitrary bytes, truncated encodings, over-long continuations
	m := c.N(600, 20000)
	for k := 0; k < m; k++ {
		n := 1 + c.Rng.Intn(8)
		var p []byte
		switch c.Rng.Intn(4) {
		case 0:
			p = c.Rng.Bytes(c.Rng.Intn(14))
		case 1:
			p = mhpack.VerifAppendVarInt(nil, byte(n), c.Rng.U64()>>uint(c.Rng.Intn(64)))
			p = p[:c.Rng.Intn(len(p)+1)]
		case 2:
			p = append([]byte{0xff}, bytes.Repeat([]byte{0x80 | byte(c.Rng.Intn(128))}, c.Rng.Intn(12))...)
			if c.Rng.Bool() {
				p = append(p, byte(c.Rng.Intn(128)))
			}
		default:
			p = append([]byte{byte(c.Rng.Intn(256))}, c.Rng.Bytes(c.Rng.Intn(11))...)
		}
		i, rest, kind := mhpack.VerifReadVarInt(byte(n), p)
		c.Emit("C18", fmt.Sprintf("intdec %d %s", n, hx.Hex(p)), decTok(i, rest, kind))
		c.Count("intdec." + strings.SplitN(decTok(i, rest, kind), ":", 2)[0])
	}
}

// ---------------------------------------------------------------------------------------------------------
// string literals

func genString(r *hx.Rng, huge bool) []byte {
	lens := []int{0, 1, 2, 3, 30, 126, 127, 128, 129, 254, 255, 256, 1000}
	l := lens[r.Intn(len(lens))]
	if huge {
		l = []int{16383, 16384, 16511, 70000}[r.Intn(4)]
	}
	b := make([]byte, l)
	switch r.Intn(4) {
	case 0: // text: Huffman shorter
		const al = "abcdefghijklmnopqrstuvwxyz0123456789-/.:= "
		for i := range b {
			b[i] = al[r.Intn(len(al))]
		}
	case 1: // binary: plain
		copy(b, r.Bytes(l))
	case 2: // long codes
		for i := range b {
			b[i] = byte(0xf0 + r.Intn(16))
		}
	default: // mixed near the break-even point
		for i := range b {
			if r.Intn(8) < 5 {
				b[i] = "etaoin0123"[r.Intn(10)]
			} else {
				b[i] = byte(r.Intn(256))
			}
		}
	}
	return b
}

func runStrings(c *hx.Ctx) {
	m := c.N(500, 5000)
	for k := 0; k < m; k++ {
		s := genString(c.Rng, k%100 == 99)
		enc := mhpack.VerifAppendHpackString(nil, string(s))
		ds, rest, kind := mhpack.VerifReadString(0, append(append([]byte(nil), enc...), 0x55))
		dec := kind
		if kind == "" {
			dec = fmt.Sprintf("ok:%s:%d", hx.Hex([]byte(ds)), len(rest))
		}
		// reference decoder on MOSN's bytes: literal without indexing, new name = s
		block := append([]byte{0x00}, enc...)
		block = append(block, mhpack.VerifAppendHpackString(nil, "v")...)
		x := "x=err"
		if fs, err := xhpack.NewDecoder(4096, nil).DecodeFull(block); err == nil && len(fs) == 1 {
			x = "x=" + hx.Hex([]byte(fs[0].Name))
		}
		// reference encoder's bytes read by MOSN
		var b bytes.Buffer
		xe := xhpack.NewEncoder(&b)
		xe.WriteField(xhpack.HeaderField{Name: string(s), Value: "", Sensitive: true})
		xb := b.Bytes()
		rx := "rx=err"
		if len(xb) > 1 && xb[0] == 0x10 {
			if rs, _, k2 := mhpack.VerifReadString(0, xb[1:]); k2 == "" {
				rx = "rx=" + hx.Hex([]byte(rs))
			}
			if !bytes.Equal(xb[1:len(xb)-1], enc) {
				rx += ":bytes-differ"
			}
		}
		c.Emit("C18", "str "+hx.Hex(s), hx.Hex(enc)+" "+dec+" "+x+" "+rx)
		if len(enc) > 0 && enc[0]&0x80 != 0 {
			c.Count("str.huffman")
		} else {
			c.Count("str.plain")
		}
	}
	// malformed stream for readString
	m = c.N(500, 8000)
	for k := 0; k < m; k++ {
		var p []byte
		switch c.Rng.Intn(4) {
		case 0:
			p = c.Rng.Bytes(c.Rng.Intn(20))
		case 1:
			p = mhpack.VerifAppendHpackString(nil, string(genString(c.Rng, false)))
			p = p[:c.Rng.Intn(len(p)+1)]
		case 2:
			p = mhpack.VerifAppendHpackString(nil, string(genString(c.Rng, false)))
			if len(p) > 1 {
				p[1+c.Rng.Intn(len(p)-1)] ^= byte(1 << uint(c.Rng.Intn(8)))
			}
		default: // huffman flag with arbitrary payload (invalid codes, EOS, bad padding)
			body := c.Rng.Bytes(c.Rng.Intn(9))
			if c.Rng.Intn(3) == 0 {
				body = append(body, 0xff, 0xff, 0xff, 0xff)
			}
			p = append([]byte{0x80 | byte(len(body))}, body...)
		}
		maxLen := []int{0, 0, 5, 100}[c.Rng.Intn(4)]
		ds, rest, kind := mhpack.VerifReadString(maxLen, p)
		dec := kind
		consumed := p
		if kind == "" {
			dec = fmt.Sprintf("ok:%s:%d", hx.Hex([]byte(ds)), len(rest))
			consumed = p[:len(p)-len(rest)]
		}
		// the reference decoder on the same bytes (what MOSN consumed), as the value of a literal field named "n"
		xd := xhpack.NewDecoder(4096, nil)
		xd.SetMaxStringLength(maxLen)
		x := "x=err"
		if fs, err := xd.DecodeFull(append([]byte{0x00, 0x01, 'n'}, consumed...)); err == nil && len(fs) == 1 {
			x = "x=" + hx.Hex([]byte(fs[0].Value))
		}
		c.Emit("C18", fmt.Sprintf("strdec %d %s", maxLen, hx.Hex(p)), dec+" "+x)
		c.Count("strdec." + strings.SplitN(dec, ":", 2)[0])
	}
}

// ---------------------------------------------------------------------------------------------------------
// header lists and table-size updates, both directions

type hItem struct {
	kind      byte // 'B' block boundary, 't' SetMaxDynamicTableSize, 'l' limit (+ decoder allowance), 'f' field
	v         uint32
	name, val string
	sens      bool
}

func (it hItem) String() string {
	switch it.kind {
	case 'B':
		return "B"
	case 't', 'l':
		return fmt.Sprintf("%c%d", it.kind, it.v)
	}
	return fmt.Sprintf("f%s:%s:%s", b01(it.sens), hx.Hex([]byte(it.name)), hx.Hex([]byte(it.val)))
}

var commonNames = []string{":method", ":path", ":status", ":authority", "content-type", "cookie", "set-cookie", "x-trace-id", "user-agent", "accept", "x-a", "x-b", "etag", "host"}
var commonVals = []string{"GET", "POST", "/", "/index.html", "200", "404", "gzip, deflate", "application/json", "", "a", "1", "peer.example"}

func genField(r *hx.Rng, pool *[]hItem) hItem {
	// repeats: reuse an earlier field or its name
	if len(*pool) > 0 && r.Intn(10) < 4 {
		f := (*pool)[r.Intn(len(*pool))]
		if r.Intn(3) == 0 {
			f.val = commonVals[r.Intn(len(commonVals))]
		}
		if r.Intn(8) == 0 {
			f.sens = !f.sens
		}
		return f
	}
	f := hItem{kind: 'f'}
	switch r.Intn(10) {
	case 0, 1, 2, 3:
		f.name = commonNames[r.Intn(len(commonNames))]
	case 4, 5:
		f.name = "x-" + string(genTok(r, 1+r.Intn(20)))
	case 6:
		f.name = string(genTok(r, 1+r.Intn(200)))
	default:
		f.name = commonNames[r.Intn(len(commonNames))]
	}
	switch r.Intn(12) {
	case 0, 1, 2, 3:
		f.val = commonVals[r.Intn(len(commonVals))]
	case 4, 5, 6:
		f.val = string(genString(r, false))
	case 7:
		if r.Intn(8) == 0 {
			f.val = string(genTok(r, r.Intn(4000)))
		} else {
			f.val = string(genTok(r, r.Intn(300)))
		}
	case 8:
		f.val = string(genTok(r, 100))
	default:
		f.val = string(genTok(r, r.Intn(60)))
	}
	f.sens = r.Intn(8) == 0
	*pool = append(*pool, f)
	return f
}

func genTok(r *hx.Rng, n int) []byte {
	const al = "abcdefghijklmnopqrstuvwxyz0123456789-_"
	b := make([]byte, n)
	for i := range b {
		b[i] = al[r.Intn(len(al))]
	}
	return b
}

type hEncoder interface {
	SetMaxDynamicTableSize(uint32)
	SetMaxDynamicTableSizeLimit(uint32)
}

func fieldsTok(names, vals []string, sens []bool) string {
	if len(names) == 0 {
		return "-"
	}
	var p []string
	for i := range names {
		p = append(p, fmt.Sprintf("f%s:%s:%s", b01(sens[i]), hx.Hex([]byte(names[i])), hx.Hex([]byte(vals[i]))))
	}
	return strings.Join(p, "+")
}

func runHeaderList(c *hx.Ctx, dir string, items []hItem) {
	var mb, xb bytes.Buffer
	me := mhpack.NewEncoder(&mb)
	xe := xhpack.NewEncoder(&xb)
	md := mhpack.NewDecoder(4096, nil)
	xd := xhpack.NewDecoder(4096, nil)
	var blocks, decoded []string
	flush := func() {
		var enc []byte
		var names, vals []string
		var sens []bool
		var err error
		if dir == "m2x" {
			enc = append([]byte(nil), mb.Bytes()...)
			mb.Reset()
			var fs []xhpack.HeaderField
			fs, err = xd.DecodeFull(enc)
			for _, f := range fs {
				names, vals, sens = append(names, f.Name), append(vals, f.Value), append(sens, f.Sensitive)
			}
		} else {
			enc = append([]byte(nil), xb.Bytes()...)
			xb.Reset()
			var fs []mhpack.HeaderField
			fs, err = md.DecodeFull(enc)
			for _, f := range fs {
				names, vals, sens = append(names, f.Name), append(vals, f.Value), append(sens, f.Sensitive)
			}
		}
		blocks = append(blocks, hx.Hex(enc))
		if err != nil {
			decoded = append(decoded, "err")
			c.Count("hdr.decode-error")
		} else {
			decoded = append(decoded, fieldsTok(names, vals, sens))
		}
	}
	dead := false
	var done []hItem
	for _, it := range items {
		if dead {
			break // a decoding error is a connection error (COMPRESSION_ERROR): nothing follows
		}
		done = append(done, it)
		switch it.kind {
		case 'B':
			flush()
			dead = decoded[len(decoded)-1] == "err"
		case 't':
			if dir == "m2x" {
				me.SetMaxDynamicTableSize(it.v)
			} else {
				xe.SetMaxDynamicTableSize(it.v)
			}
		case 'l':
			if dir == "m2x" {
				me.SetMaxDynamicTableSizeLimit(it.v)
				xd.SetAllowedMaxDynamicTableSize(it.v)
			} else {
				xe.SetMaxDynamicTableSizeLimit(it.v)
				md.SetAllowedMaxDynamicTableSize(it.v)
			}
		case 'f':
			if dir == "m2x" {
				me.WriteField(mhpack.HeaderField{Name: it.name, Value: it.val, Sensitive: it.sens})
			} else {
				xe.WriteField(xhpack.HeaderField{Name: it.name, Value: it.val, Sensitive: it.sens})
			}
		}
	}
	var its []string
	for _, it := range done {
		its = append(its, it.String())
	}
	out := strings.Join(blocks, ",") + " " + strings.Join(decoded, ",")
	if dead {
		// classify: the failing block opens with two dynamic table size updates (RFC 7541 4.2: smallest, then final size)
		last := hx.Unhex(blocks[len(blocks)-1])
		if _, r1, k1 := mhpack.VerifReadVarInt(5, last); len(last) > 0 && last[0]&0xe0 == 0x20 && k1 == "" && len(r1) > 0 && r1[0]&0xe0 == 0x20 {
			out += " quirk=double-size-update"
			c.Count("hdr.double-size-update-refused")
		}
	}
	c.Emit("C18", "hdr "+dir+" "+strings.Join(its, ","), out)
}

func runHeaderLists(c *hx.Ctx) {
	m := c.N(700, 5000)
	sizes := []uint32{0, 1, 32, 33, 64, 100, 512, 4095, 4096, 4097, 8192, 65536}
	for k := 0; k < m; k++ {
		r := c.Rng
		dir := "m2x"
		if k%2 == 1 {
			dir = "x2m"
		}
		var items []hItem
		var pool []hItem
		nblocks := 1 + r.Intn(4)
		for b := 0; b < nblocks; b++ {
			// table size changes happen between header blocks (SETTINGS from the peer)
			if r.Intn(10) < 4 {
				for j := 0; j < 1+r.Intn(3); j++ {
					if r.Intn(4) == 0 {
						items = append(items, hItem{kind: 'l', v: sizes[r.Intn(len(sizes))]})
						c.Count("hdr.limit-change")
					} else {
						items = append(items, hItem{kind: 't', v: sizes[r.Intn(len(sizes))]})
						c.Count("hdr.size-update")
					}
				}
			}
			nf := 1 + r.Intn(12)
			if r.Intn(20) == 0 {
				nf = 60 + r.Intn(100) // enough to overflow a 4096-byte table several times
			}
			hugeAt := -1
			if r.Intn(80) == 0 {
				hugeAt = r.Intn(nf) // one huge value (beyond a frame / beyond the table), never repeated
			}
			for j := 0; j < nf; j++ {
				f := genField(r, &pool)
				if j == hugeAt {
					f = hItem{kind: 'f', name: commonNames[r.Intn(len(commonNames))], val: string(genString(r, true)), sens: r.Intn(4) == 0}
				}
				items = append(items, f)
				if f.sens {
					c.Count("hdr.sensitive")
				}
				if len(f.val) > 16000 {
					c.Count("hdr.huge-value")
				}
			}
			items = append(items, hItem{kind: 'B'})
		}
		runHeaderList(c, dir, items)
		c.Count("hdr." + dir)
	}
}
