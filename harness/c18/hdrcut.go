//go:build verif

package c18

import (
	"bytes"
	"context"
	"fmt"
	"strings"

	xh2 "golang.org/x/net/http2"
	xhpack "golang.org/x/net/http2/hpack"
	mh2 "mosn.io/mosn/pkg/module/http2"
	mhpack "mosn.io/mosn/pkg/module/http2/hpack"
	"mosn.io/pkg/buffer"
	"verif/harness/hx"
)

// Kind 'hdrcut': sequences of >= 2 header blocks written by the REFERENCE encoder and decoded on ONE decoder whose emit
// callback switches emitting off in the middle of a block, exactly as MFramer.readMetaFrame does (header list beyond the
// block's limit => truncated; invalid field name => invalid), SetMaxStringLength(limit) included.  Three decoders read the
// same bytes: MOSN's hpack.Decoder with the harness callback, x/net's hpack.Decoder with the same callback, and MOSN's
// MFramer.ReadFrame (HEADERS [+ CONTINUATION] frames, fr.MaxHeaderListSize = limit) with its own decoder.  After every
// block the kept fields, the truncated / invalid flag and — through the VerifDynTable hook — the dynamic table of both
// MOSN decoders are printed.  Block 1 of the directed scripts carries NEW literals with incremental indexing AFTER the
// cut-off and block 2 references them (by full index and by name index).
//
//	hdrcut <item,…> => <block hex,…> <dec,…> <tab,…> <xdec,…> <mfr,…> <mtab,…>
//	item:  f<s>:<name>:<value> field | t<n> encoder SetMaxDynamicTableSize | B<limit> end of block with that header-list limit
//	dec:   <fields>/<-|T|I> | err        tab: <size>/<max>/<name>:<value>+… (oldest first)

type cutItem struct {
	kind      byte // 'f' | 't' | 'B'
	v         uint32
	name, val string
	sens      bool
}

func (it cutItem) String() string {
	switch it.kind {
	case 'B', 't':
		return fmt.Sprintf("%c%d", it.kind, it.v)
	}
	return fmt.Sprintf("f%s:%s:%s", b01(it.sens), hx.Hex([]byte(it.name)), hx.Hex([]byte(it.val)))
}

func cutInvalidName(n string) bool { return strings.ToLower(n) != n }

type cutFrSt struct {
	remain  uint32
	kept    []string
	flag    string
	disable func()
}

func (s *cutFrSt) emit(name, value string, sens bool) {
	if cutInvalidName(name) {
		s.flag = "I"
		s.disable()
		return
	}
	size := uint32(len(name) + len(value) + 32)
	if size > s.remain {
		s.flag = "T"
		s.disable()
		return
	}
	s.remain -= size
	s.kept = append(s.kept, fmt.Sprintf("f%s:%s:%s", b01(sens), hx.Hex([]byte(name)), hx.Hex([]byte(value))))
}

func (s *cutFrSt) tok() string {
	k := "-"
	if len(s.kept) > 0 {
		k = strings.Join(s.kept, "+")
	}
	return k + "/" + s.flag
}

func cutTabTok(d *mhpack.Decoder) string {
	ents, size, max := d.VerifDynTable()
	var p []string
	for _, e := range ents {
		p = append(p, hx.Hex([]byte(e.Name))+":"+hx.Hex([]byte(e.Value)))
	}
	k := "-"
	if len(p) > 0 {
		k = strings.Join(p, "+")
	}
	return fmt.Sprintf("%d/%d/%s", size, max, k)
}

func runHdrCut(c *hx.Ctx, items []cutItem, how string) {
	var xb bytes.Buffer
	xe := xhpack.NewEncoder(&xb)
	md := mhpack.NewDecoder(4096, nil)
	xd := xhpack.NewDecoder(4096, nil)
	sc := mh2.NewServerConn(newFakeConn())
	fr := sc.Framer
	fdec := fr.ReadMetaHeaders
	ctx := context.Background()
	var blocks, dec, tab, xdec, mfr, mtab []string
	dead := false
	streamID := uint32(1)
	var done []string
	for _, it := range items {
		if dead {
			break
		}
		done = append(done, it.String())
		switch it.kind {
		case 't':
			xe.SetMaxDynamicTableSize(it.v)
		case 'f':
			xe.WriteField(xhpack.HeaderField{Name: it.name, Value: it.val, Sensitive: it.sens})
		case 'B':
			enc := append([]byte(nil), xb.Bytes()...)
			xb.Reset()
			blocks = append(blocks, hx.Hex(enc))
			limit := it.v
			maxStr := int(limit) // Framer.maxHeaderStringLen()
			// (a) MOSN decoder, harness callback
			st := &cutFrSt{remain: limit, flag: "-"}
			st.disable = func() { md.SetEmitEnabled(false) }
			md.SetEmitEnabled(true)
			md.SetMaxStringLength(maxStr)
			md.SetEmitFunc(func(f mhpack.HeaderField) { st.emit(f.Name, f.Value, f.Sensitive) })
			var err error
			msg, panicked := hx.Safe(func() {
				if _, err = md.Write(enc); err == nil {
					err = md.Close()
				}
			})
			switch {
			case panicked:
				dec = append(dec, "panic:"+hx.Tok(msg))
				dead = true
			case err != nil:
				dec = append(dec, "err")
				dead = true
			default:
				dec = append(dec, st.tok())
			}
			tab = append(tab, cutTabTok(md))
			// (b) reference decoder, same callback
			xs := &cutFrSt{remain: limit, flag: "-"}
			xs.disable = func() { xd.SetEmitEnabled(false) }
			xd.SetEmitEnabled(true)
			xd.SetMaxStringLength(maxStr)
			xd.SetEmitFunc(func(f xhpack.HeaderField) { xs.emit(f.Name, f.Value, f.Sensitive) })
			_, xerr := xd.Write(enc)
			if xerr == nil {
				xerr = xd.Close()
			}
			if xerr != nil {
				xdec = append(xdec, "err")
			} else {
				xdec = append(xdec, xs.tok())
			}
			// (c) MOSN's framer: HEADERS [+ CONTINUATION] written by the reference framer
			var wire bytes.Buffer
			xfr := xh2.NewFramer(&wire, nil)
			const chunk = 16000
			first := enc
			if len(first) > chunk {
				first = enc[:chunk]
			}
			xfr.WriteHeaders(xh2.HeadersFrameParam{StreamID: streamID, BlockFragment: first, EndHeaders: len(first) == len(enc), EndStream: true})
			for off := len(first); off < len(enc); off += chunk {
				end := off + chunk
				if end > len(enc) {
					end = len(enc)
				}
				xfr.WriteContinuation(streamID, end == len(enc), enc[off:end])
			}
			streamID += 2
			fr.MaxHeaderListSize = limit
			data := buffer.NewIoBufferBytes(wire.Bytes())
			var f mh2.Frame
			var ferr error
			msg, panicked = hx.Safe(func() { f, _, ferr = fr.ReadFrame(ctx, data, 0) })
			switch {
			case panicked:
				mfr = append(mfr, "panic:"+hx.Tok(msg))
			case ferr != nil:
				if se, ok := ferr.(mh2.StreamError); ok && se.Code == mh2.ErrCodeProtocol {
					mfr = append(mfr, "?/I")
				} else {
					mfr = append(mfr, "err")
				}
			default:
				mh, ok := f.(*mh2.MetaHeadersFrame)
				if !ok {
					mfr = append(mfr, "notmeta")
					break
				}
				var kept []string
				for _, hf := range mh.Fields {
					kept = append(kept, fmt.Sprintf("f%s:%s:%s", b01(hf.Sensitive), hx.Hex([]byte(hf.Name)), hx.Hex([]byte(hf.Value))))
				}
				k := "-"
				if len(kept) > 0 {
					k = strings.Join(kept, "+")
				}
				fl := "-"
				if mh.Truncated {
					fl = "T"
				}
				mfr = append(mfr, k+"/"+fl)
			}
			mtab = append(mtab, cutTabTok(fdec))
			last := dec[len(dec)-1]
			if i := strings.LastIndex(last, "/"); i >= 0 {
				last = last[i+1:]
			}
			c.Count("hdrcut.block." + strings.SplitN(last, ":", 2)[0])
		}
	}
	j := func(l []string) string { return strings.Join(l, ",") }
	c.Emit("C18", "hdrcut "+j(done), j(blocks)+" "+j(dec)+" "+j(tab)+" "+j(xdec)+" "+j(mfr)+" "+j(mtab))
	c.Count("hdrcut." + how)
}

func cutSize(f cutItem) uint32 { return uint32(len(f.name) + len(f.val) + 32) }

func cutField(r *hx.Rng, seq *int) cutItem {
	names := []string{"x-a", "x-b", "cookie", "etag", "x-trace-id", "accept", "user-agent", "x-" + string(genTok(r, 1+r.Intn(12)))}
	f := cutItem{kind: 'f', name: names[r.Intn(len(names))]}
	*seq++
	switch r.Intn(6) {
	case 0:
		f.val = commonVals[r.Intn(len(commonVals))]
	case 1:
		f.val = ""
	case 2:
		f.val = string(genTok(r, 30+r.Intn(60)))
	default:
		f.val = fmt.Sprintf("%s%d", string(genTok(r, r.Intn(10))), *seq) // fresh: a new table entry
	}
	f.sens = r.Intn(12) == 0
	return f
}

func runHdrCuts(c *hx.Ctx) {
	r := c.Rng
	seq := 0
	// directed: block 1 is cut at field k (limit or invalid name), NEW indexed literals follow; block 2 references them
	for it := 0; it < c.N(250, 2500); it++ {
		var items []cutItem
		if r.Intn(5) == 0 {
			items = append(items, cutItem{kind: 't', v: uint32(r.Pick([]int{0, 64, 100, 4096, 200}))})
		}
		nPre := r.Intn(4)
		nPost := 1 + r.Intn(4)
		var b1 []cutItem
		for j := 0; j < nPre+1+nPost; j++ {
			b1 = append(b1, cutField(r, &seq))
		}
		limit := uint32(0)
		for j := 0; j < nPre; j++ {
			limit += cutSize(b1[j])
		}
		byInvalid := r.Intn(3) == 0
		if byInvalid {
			b1[nPre].name = "X-Bad" + b1[nPre].name
			limit = 1 << 16
		} else {
			limit += uint32(r.Intn(int(cutSize(b1[nPre])))) // the field at nPre does not fit
			if limit == 0 {
				limit = 1 // 0 means "default" to the framer and "unlimited" to the decoder
			}
			// every single string must stay within maxStrLen = limit, or the block is a decoding error instead
			for j := range b1 {
				if uint32(len(b1[j].val)) > limit {
					b1[j].val = b1[j].val[:limit]
				}
				if uint32(len(b1[j].name)) > limit {
					limit = uint32(len(b1[j].name))
				}
			}
		}
		items = append(items, b1...)
		items = append(items, cutItem{kind: 'B', v: limit})
		if r.Intn(6) == 0 {
			items = append(items, cutItem{kind: 't', v: uint32(r.Pick([]int{0, 80, 4096, 150}))})
		}
		// block 2: references to the fields after the cut (same pair => indexed, same name => name index) and others
		var b2 []cutItem
		for j := nPre + 1; j < len(b1); j++ {
			f := b1[j]
			if r.Intn(3) == 0 {
				f.val = fmt.Sprintf("other%d", seq)
				seq++
			}
			b2 = append(b2, f)
		}
		if r.Bool() {
			b2 = append(b2, b1[r.Intn(len(b1))])
		}
		if r.Bool() {
			b2 = append(b2, cutField(r, &seq))
		}
		for j := range b2 { // an invalid name would cut block 2 as well; allowed, but mostly keep it whole
			if cutInvalidName(b2[j].name) && r.Intn(4) != 0 {
				b2[j].name = strings.ToLower(b2[j].name)
			}
		}
		items = append(items, b2...)
		items = append(items, cutItem{kind: 'B', v: uint32(r.Pick([]int{1 << 16, 1 << 16, 1 << 20, 200}))})
		if r.Intn(3) == 0 { // a third block re-using everything
			for j := 0; j < 1+r.Intn(4); j++ {
				items = append(items, b1[r.Intn(len(b1))])
			}
			items = append(items, cutItem{kind: 'B', v: 1 << 16})
		}
		how := "directed.limit"
		if byInvalid {
			how = "directed.invalid"
		}
		runHdrCut(c, items, how)
	}
	// random scripts: 2..4 blocks, random limits around the partial sums
	for it := 0; it < c.N(150, 1500); it++ {
		var items []cutItem
		var pool []cutItem
		for b := 2 + r.Intn(3); b > 0; b-- {
			if r.Intn(5) == 0 {
				items = append(items, cutItem{kind: 't', v: uint32(r.Pick([]int{0, 33, 64, 100, 512, 4096, 8192}))})
			}
			n := 1 + r.Intn(8)
			var sum uint32
			var sums []uint32
			for j := 0; j < n; j++ {
				var f cutItem
				if len(pool) > 0 && r.Intn(10) < 5 {
					f = pool[r.Intn(len(pool))]
				} else {
					f = cutField(r, &seq)
					pool = append(pool, f)
				}
				if r.Intn(25) == 0 {
					f.name = "X-" + f.name
				}
				items = append(items, f)
				sum += cutSize(f)
				sums = append(sums, sum)
			}
			limit := uint32(1 << 16)
			if r.Intn(3) != 0 {
				limit = sums[r.Intn(len(sums))] + uint32(r.Intn(3)) - 1
				if limit < 40 {
					limit = 40
				}
			}
			items = append(items, cutItem{kind: 'B', v: limit})
		}
		runHdrCut(c, items, "random")
	}
}
