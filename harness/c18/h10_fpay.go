//go:build verif

package c18

// kind fpay (builder c18h10): frame payload codecs of every frame type, both directions, against golang.org/x/net/http2's Framer.
//
//	fpay w <spec>                              MOSN's Framer.Write* (and, where MOSN's connections have one, MFramer's own writer) and the
//	                                           reference writer on the same arguments: the bytes (or the refusal); the reference reads
//	                                           MOSN's bytes, MFramer.ReadFrame reads the reference's
//	fpay p <type> <flags> <sid> <hex payload>  ONE raw frame (9-octet header built by hand, reserved bit of the stream id as given)
//	                                           read by MFramer.ReadFrame and by the reference, ReadMetaHeaders nil.  A CONTINUATION
//	                                           frame is preceded by a HEADERS frame without END_HEADERS on stream 1.
//
// p cases: every frame type 0..9 and unknown ones, at every boundary length of the type's fixed fields, stream 0 / non-0 /
// reserved bit, flags incl. ACK / PADDED / PRIORITY / all ones, payloads random, zero, all ones, zero increments, reserved bits,
// SETTINGS with every identifier and boundary values, duplicated INITIAL_WINDOW_SIZE entries, pad lengths around the rest.

import (
	"bytes"
	"context"
	"fmt"
	"strings"

	xh2 "golang.org/x/net/http2"
	xhpack "golang.org/x/net/http2/hpack"
	mh2 "mosn.io/mosn/pkg/module/http2"
	"mosn.io/pkg/buffer"
	"verif/harness/hx"
)

func h10SumM(f mh2.Frame) string {
	h := f.Header()
	switch x := f.(type) {
	case *mh2.DataFrame:
		return fmt.Sprintf("D:%d:%d:%s", h.StreamID, h.Flags, hx.Hex(x.Data()))
	case *mh2.HeadersFrame:
		pr := "-"
		if x.HasPriority() {
			pr = fmt.Sprintf("%d.%s.%d", x.Priority.StreamDep, b01(x.Priority.Exclusive), x.Priority.Weight)
		}
		return fmt.Sprintf("H:%d:%d:%s:%s", h.StreamID, h.Flags, pr, hx.Hex(x.HeaderBlockFragment()))
	case *mh2.PushPromiseFrame:
		return fmt.Sprintf("PP:%d:%d:%d:%s", h.StreamID, h.Flags, x.PromiseID, hx.Hex(x.HeaderBlockFragment()))
	case *mh2.ContinuationFrame:
		return fmt.Sprintf("C:%d:%d:%s", h.StreamID, h.Flags, hx.Hex(x.HeaderBlockFragment()))
	}
	return sumM(f)
}

func h10SumX(f xh2.Frame) string {
	h := f.Header()
	switch x := f.(type) {
	case *xh2.DataFrame:
		return fmt.Sprintf("D:%d:%d:%s", h.StreamID, h.Flags, hx.Hex(x.Data()))
	case *xh2.HeadersFrame:
		pr := "-"
		if x.HasPriority() {
			pr = fmt.Sprintf("%d.%s.%d", x.Priority.StreamDep, b01(x.Priority.Exclusive), x.Priority.Weight)
		}
		return fmt.Sprintf("H:%d:%d:%s:%s", h.StreamID, h.Flags, pr, hx.Hex(x.HeaderBlockFragment()))
	case *xh2.PushPromiseFrame:
		return fmt.Sprintf("PP:%d:%d:%d:%s", h.StreamID, h.Flags, x.PromiseID, hx.Hex(x.HeaderBlockFragment()))
	case *xh2.ContinuationFrame:
		return fmt.Sprintf("C:%d:%d:%s", h.StreamID, h.Flags, hx.Hex(x.HeaderBlockFragment()))
	}
	return sumX(f)
}

// h10ReadM reads every frame of wire with MFramer.ReadFrame (raw frames: ReadMetaHeaders nil); the last token is the result.
func h10ReadM(wire []byte) []string {
	sc := mh2.NewServerConn(newFakeConn())
	fr := sc.Framer
	fr.ReadMetaHeaders = nil
	ctx := context.Background()
	data := buffer.NewIoBufferBytes(append([]byte(nil), wire...))
	var out []string
	for data.Len() > 0 {
		var f mh2.Frame
		var n int
		var err error
		msg, panicked := hx.Safe(func() { f, n, err = fr.ReadFrame(ctx, data, 0) })
		if panicked {
			return append(out, "E:panic:"+hx.Tok(msg))
		}
		if err == mh2.ErrAGAIN {
			return append(out, "E:short")
		}
		if err != nil {
			return append(out, errTokM(err))
		}
		out = append(out, h10SumM(f))
		if f.Header().Type == mh2.FrameContinuation {
			data.Drain(n) // ReadFrame leaves a CONTINUATION frame to readMetaFrame's caller
		}
	}
	return out
}

func h10ReadX(wire []byte) []string {
	fr := xh2.NewFramer(nil, bytes.NewReader(wire))
	fr.SetMaxReadFrameSize(1 << 20)
	var out []string
	for {
		f, err := fr.ReadFrame()
		if err != nil {
			switch err.Error() {
			case "EOF":
				if !wholeFrames(wire) {
					out = append(out, "E:short")
				}
				return out
			case "unexpected EOF":
				if wholeFrames(wire) {
					return append(out, "E:other")
				}
				return append(out, "E:short")
			}
			return append(out, errTokX(err))
		}
		out = append(out, h10SumX(f))
	}
}

func h10Last(toks []string) string {
	if len(toks) == 0 {
		return "-"
	}
	return toks[len(toks)-1]
}

func h10Hdr(length int, ty, flags uint8, sid uint32) []byte {
	return []byte{byte(length >> 16), byte(length >> 8), byte(length), ty, flags, byte(sid >> 24), byte(sid >> 16), byte(sid >> 8), byte(sid)}
}

// the HEADERS frame (stream 1, no END_HEADERS, one octet of block) that precedes a CONTINUATION case
var h10Prelude = append(h10Hdr(1, 1, 0, 1), 0x82)

func (s *h10Gen) parseCase(ty, flags uint8, sid uint32, payload []byte) {
	wire := append(h10Hdr(len(payload), ty, flags, sid), payload...)
	if ty == 9 {
		wire = append(append([]byte(nil), h10Prelude...), wire...)
	}
	m := h10Last(h10ReadM(wire))
	x := h10Last(h10ReadX(wire))
	s.c.Emit("C18", fmt.Sprintf("fpay p %d %d %d %s", ty, flags, sid, hx.Hex(payload)), "m="+m+" x="+x)
	name := []string{"DATA", "HEADERS", "PRIORITY", "RST_STREAM", "SETTINGS", "PUSH_PROMISE", "PING", "GOAWAY", "WINDOW_UPDATE", "CONTINUATION"}
	tn := "UNKNOWN"
	if int(ty) < len(name) {
		tn = name[ty]
	}
	out := "ok"
	if strings.HasPrefix(m, "E:") {
		p := strings.Split(m, ":")
		out = p[1]
		if len(p) > 2 && p[1] == "conn" {
			out += p[2]
		}
		if len(p) > 3 && p[1] == "stream" {
			out += p[3]
		}
	}
	s.c.Count("fpay.p." + tn + "." + out)
}

type h10Gen struct {
	c *hx.Ctx
}

func (s *h10Gen) payload(n int) []byte {
	r := s.c.Rng
	p := r.Bytes(n)
	switch r.Intn(6) {
	case 0:
		for i := range p {
			p[i] = 0
		}
	case 1:
		for i := range p {
			p[i] = 0xff
		}
	case 2:
		if n > 0 {
			p[0] |= 0x80 // reserved / exclusive bit of a leading 32-bit word
		}
	case 3:
		if n > 0 {
			p[0] &= 0x7f
		}
	}
	return p
}

var h10Sids = []uint32{0, 1, 3, 2, 1<<31 - 1, 1 << 31, 1<<31 + 1, 1<<32 - 1}
var h10Flags = []uint8{0, 1, 4, 5, 8, 9, 0x0c, 0x20, 0x28, 0x2d, 0xff, 0xfe, 0xf7}

func (s *h10Gen) parseSweep() {
	r := s.c.Rng
	// boundary lengths of every type
	lens := map[uint8][]int{
		0: {0, 1, 2, 5, 17}, 1: {0, 1, 4, 5, 6, 7, 12}, 2: {0, 4, 5, 6, 10}, 3: {0, 3, 4, 5, 8}, 4: {0, 1, 5, 6, 7, 11, 12, 13, 18, 24},
		5: {0, 1, 3, 4, 5, 6, 9, 12}, 6: {0, 7, 8, 9, 16}, 7: {0, 4, 7, 8, 9, 20}, 8: {0, 3, 4, 5, 8}, 9: {0, 1, 7}, 10: {0, 1, 9}, 0xfa: {0, 5},
	}
	for ty := uint8(0); ty <= 10; ty++ {
		for _, n := range lens[ty] {
			for _, sid := range []uint32{0, 1, 1<<31 + 1} {
				for _, fl := range []uint8{0, 1, 8, 0x28, 0xff} {
					s.parseCase(ty, fl, sid, s.payload(n))
				}
			}
		}
	}
	// directed: zero increments, reserved bits, pad lengths
	for _, sid := range []uint32{0, 1, 5} {
		for _, p := range [][]byte{{0, 0, 0, 0}, {0x80, 0, 0, 0}, {0, 0, 0, 1}, {0x80, 0, 0, 1}, {0x7f, 0xff, 0xff, 0xff}, {0xff, 0xff, 0xff, 0xff}} {
			s.parseCase(8, 0, sid, p)
			s.parseCase(3, 0, sid, p)
		}
		for _, p := range [][]byte{{0x80, 0, 0, 3, 0, 0, 0, 2}, {0xff, 0xff, 0xff, 0xff, 0xff, 0xff, 0xff, 0xff, 1, 2, 3}, {0, 0, 0, 0, 0, 0, 0, 0}} {
			s.parseCase(7, 0, sid, p)
		}
		for _, p := range [][]byte{{0x80, 0, 0, 3, 16}, {0, 0, 0, 0, 0}, {0xff, 0xff, 0xff, 0xff, 0xff}, {0, 0, 0, 1, 255}} {
			s.parseCase(2, 0, sid, p)
		}
		// PUSH_PROMISE: pad length 0 / exactly the rest / one more
		for _, fl := range []uint8{0, 4, 8, 0x0c} {
			s.parseCase(5, fl, sid, []byte{0x80, 0, 0, 2})
			s.parseCase(5, fl, sid, []byte{0, 0x80, 0, 0, 2})
			s.parseCase(5, fl, sid, []byte{2, 0x80, 0, 0, 2, 9, 0, 0})
			s.parseCase(5, fl, sid, []byte{3, 0x80, 0, 0, 2, 9, 0, 0})
			s.parseCase(5, fl, sid, []byte{4, 0x80, 0, 0, 2, 9, 0, 0})
			s.parseCase(5, fl, sid, []byte{255, 0, 0, 0, 2})
		}
	}
	// SETTINGS: every identifier, boundary values, duplicates of INITIAL_WINDOW_SIZE in both orders
	vals := []uint32{0, 1, 2, 16383, 16384, 1<<24 - 1, 1 << 24, 1<<31 - 1, 1 << 31, 1<<32 - 1}
	setting := func(id uint16, v uint32) []byte { return []byte{byte(id >> 8), byte(id), byte(v >> 24), byte(v >> 16), byte(v >> 8), byte(v)} }
	for id := uint16(0); id <= 8; id++ {
		for _, v := range vals {
			s.parseCase(4, 0, 0, setting(id, v))
		}
	}
	for _, a := range []uint32{65535, 1<<31 - 1, 1 << 31} {
		for _, b := range []uint32{65535, 1<<31 - 1, 1 << 31} {
			s.parseCase(4, 0, 0, append(setting(4, a), setting(4, b)...))
			s.parseCase(4, 0, 0, append(append(setting(3, 7), setting(4, a)...), setting(4, b)...))
		}
	}
	s.parseCase(4, 1, 0, nil)
	s.parseCase(4, 1, 0, setting(3, 1))
	s.parseCase(4, 1, 1, nil)
	s.parseCase(4, 0, 1, setting(3, 1))
	// random
	m := s.c.N(600, 6000)
	for k := 0; k < m; k++ {
		ty := uint8(r.Intn(11))
		if r.Intn(12) == 0 {
			ty = uint8(r.Intn(256))
		}
		ls := lens[ty]
		n := r.Intn(30)
		if len(ls) > 0 && r.Intn(3) != 0 {
			n = ls[r.Intn(len(ls))]
		}
		if ty == 4 && r.Intn(2) == 0 {
			n = 6 * r.Intn(5)
		}
		fl := h10Flags[r.Intn(len(h10Flags))]
		if r.Intn(4) == 0 {
			fl = uint8(r.Intn(256))
		}
		p := s.payload(n)
		if ty == 4 && n%6 == 0 {
			for i := 0; i+6 <= n; i += 6 {
				p[i] = 0
				p[i+1] = byte(r.Intn(8))
				if r.Intn(2) == 0 {
					copy(p[i+2:], []byte{0, 0, 0xff, 0xff})
				}
			}
		}
		if (ty == 0 || ty == 1 || ty == 5) && n > 0 && r.Intn(2) == 0 {
			p[0] = byte(n - 6 + r.Intn(8)) // pad length around the rest
		}
		s.parseCase(ty, fl, h10Sids[r.Intn(len(h10Sids))], p)
	}
}

// ---------------------------------------------------------------------------------------------------------
// writers

type h10W struct {
	spec string
	m    func(fr *mh2.Framer) error
	x    func(fr *xh2.Framer) error
	mm   func(fr *mh2.MFramer) error // MFramer's own writer, if it has one
}

func (s *h10Gen) writeCase(w h10W) {
	var mb, xb bytes.Buffer
	mfr := mh2.NewFramer(&mb, nil)
	xfr := xh2.NewFramer(&xb, nil)
	mtok, xtok := "", ""
	if err := w.m(mfr); err != nil {
		mtok = "refused"
	} else {
		mtok = hx.Hex(mb.Bytes())
	}
	if err := w.x(xfr); err != nil {
		xtok = "refused"
	} else {
		xtok = hx.Hex(xb.Bytes())
	}
	xr, mr := "-", "-"
	if mtok != "refused" {
		xr = h10Last(h10ReadX(h10WithPrelude(mb.Bytes())))
	}
	if xtok != "refused" {
		mr = h10Last(h10ReadM(h10WithPrelude(xb.Bytes())))
	}
	mmtok := "-"
	if w.mm != nil {
		fc := newFakeConn()
		cc := mh2.NewClientConn(fc)
		if err := w.mm(cc.Framer); err != nil {
			mmtok = "refused"
		} else {
			mmtok = hx.Hex(fc.all())
		}
	}
	s.c.Emit("C18", "fpay w "+w.spec, fmt.Sprintf("m=%s x=%s xr=%s mr=%s mm=%s", mtok, xtok, xr, mr, mmtok))
	out := "written"
	if mtok == "refused" {
		out = "refused"
	}
	s.c.Count("fpay.w." + strings.SplitN(w.spec, ":", 2)[0] + "." + out)
}

func h10WithPrelude(frame []byte) []byte {
	if len(frame) >= 9 && frame[3] == 9 {
		return append(append([]byte(nil), h10Prelude...), frame...)
	}
	return frame
}

func (s *h10Gen) writeSweep() {
	r := s.c.Rng
	sids := []uint32{0, 1, 3, 1<<31 - 1, 1 << 31, 1<<31 + 5}
	frag := func() []byte { return r.Bytes(r.Intn(12)) }
	m := s.c.N(40, 400)
	for k := 0; k < m; k++ {
		sid := sids[r.Intn(len(sids))]
		if r.Intn(2) == 0 {
			sid = uint32(1 + 2*r.Intn(1000))
		}
		// SETTINGS
		var ss []mh2.Setting
		var xs []xh2.Setting
		var sp []string
		for i := r.Intn(5); i > 0; i-- {
			id := uint16(1 + r.Intn(7))
			v := []uint32{0, 1, 100, 65535, 1<<31 - 1, 16384, 1<<24 - 1}[r.Intn(7)]
			if id == 4 && r.Intn(4) == 0 {
				v = 1 << 31
			}
			ss = append(ss, mh2.Setting{ID: mh2.SettingID(id), Val: v})
			xs = append(xs, xh2.Setting{ID: xh2.SettingID(id), Val: v})
			sp = append(sp, fmt.Sprintf("%d=%d", id, v))
		}
		s.writeCase(h10W{"S:" + orDash(strings.Join(sp, ";")), func(f *mh2.Framer) error { return f.WriteSettings(ss...) },
			func(f *xh2.Framer) error { return f.WriteSettings(xs...) }, func(f *mh2.MFramer) error { return f.VerifWriteSettings(ss...) }})
		s.writeCase(h10W{"SA:-", func(f *mh2.Framer) error { return f.WriteSettingsAck() }, func(f *xh2.Framer) error { return f.WriteSettingsAck() }, nil})
		// PING
		var d8 [8]byte
		copy(d8[:], r.Bytes(8))
		ack := r.Bool()
		s.writeCase(h10W{fmt.Sprintf("P:%s:%s", b01(ack), hx.Hex(d8[:])), func(f *mh2.Framer) error { return f.WritePing(ack, d8) },
			func(f *xh2.Framer) error { return f.WritePing(ack, d8) }, nil})
		// GOAWAY
		last := []uint32{0, 1, 1<<31 - 1, 1 << 31, 1<<31 + 7, 1<<32 - 1}[r.Intn(6)]
		code := []uint32{0, 1, 2, 13, 1<<32 - 1}[r.Intn(5)]
		dbg := frag()
		s.writeCase(h10W{fmt.Sprintf("G:%d:%d:%s", last, code, hx.Hex(dbg)), func(f *mh2.Framer) error { return f.WriteGoAway(last, mh2.ErrCode(code), dbg) },
			func(f *xh2.Framer) error { return f.WriteGoAway(last, xh2.ErrCode(code), dbg) }, nil})
		// WINDOW_UPDATE
		incr := []uint32{0, 1, 2, 65535, 1<<31 - 1, 1 << 31, 1<<31 + 1, 1<<32 - 1}[r.Intn(8)]
		s.writeCase(h10W{fmt.Sprintf("W:%d:%d", sid, incr), func(f *mh2.Framer) error { return f.WriteWindowUpdate(sid, incr) },
			func(f *xh2.Framer) error { return f.WriteWindowUpdate(sid, incr) }, func(f *mh2.MFramer) error { return f.VerifWriteWindowUpdate(sid, incr) }})
		// RST_STREAM
		s.writeCase(h10W{fmt.Sprintf("R:%d:%d", sid, code), func(f *mh2.Framer) error { return f.WriteRSTStream(sid, mh2.ErrCode(code)) },
			func(f *xh2.Framer) error { return f.WriteRSTStream(sid, xh2.ErrCode(code)) }, nil})
		// PRIORITY
		dep := []uint32{0, 1, 5, 1<<31 - 1, 1 << 31, 1<<31 + 3}[r.Intn(6)]
		ex := r.Bool()
		wt := uint8(r.Intn(256))
		s.writeCase(h10W{fmt.Sprintf("Y:%d:%d.%s.%d", sid, dep, b01(ex), wt),
			func(f *mh2.Framer) error {
				return f.WritePriority(sid, mh2.PriorityParam{StreamDep: dep, Exclusive: ex, Weight: wt})
			},
			func(f *xh2.Framer) error {
				return f.WritePriority(sid, xh2.PriorityParam{StreamDep: dep, Exclusive: ex, Weight: wt})
			}, nil})
		// PUSH_PROMISE
		pid := sids[r.Intn(len(sids))]
		eh := r.Bool()
		pl := uint8([]int{0, 0, 1, 7, 255}[r.Intn(5)])
		fg := frag()
		s.writeCase(h10W{fmt.Sprintf("PP:%d:%d:%s:%d:%s", sid, pid, b01(eh), pl, hx.Hex(fg)),
			func(f *mh2.Framer) error {
				return f.WritePushPromise(mh2.PushPromiseParam{StreamID: sid, PromiseID: pid, BlockFragment: fg, EndHeaders: eh, PadLength: pl})
			},
			func(f *xh2.Framer) error {
				return f.WritePushPromise(xh2.PushPromiseParam{StreamID: sid, PromiseID: pid, BlockFragment: fg, EndHeaders: eh, PadLength: pl})
			}, nil})
		// CONTINUATION (on stream 1 it continues the prelude)
		csid := sid
		if r.Intn(2) == 0 {
			csid = 1
		}
		s.writeCase(h10W{fmt.Sprintf("C:%d:%s:%s", csid, b01(eh), hx.Hex(fg)), func(f *mh2.Framer) error { return f.WriteContinuation(csid, eh, fg) },
			func(f *xh2.Framer) error { return f.WriteContinuation(csid, eh, fg) }, func(f *mh2.MFramer) error { return f.VerifWriteContinuation(csid, eh, fg) }})
		// unknown type
		ut := uint8(10 + r.Intn(246))
		ufl := uint8(r.Intn(256))
		s.writeCase(h10W{fmt.Sprintf("U:%d:%d:%d:%s", ut, ufl, sid, hx.Hex(fg)), func(f *mh2.Framer) error { return f.WriteRawFrame(mh2.FrameType(ut), mh2.Flags(ufl), sid, fg) },
			func(f *xh2.Framer) error { return f.WriteRawFrame(xh2.FrameType(ut), xh2.Flags(ufl), sid, fg) }, nil})
		// DATA
		es := r.Bool()
		var pad []byte
		padTok := "-"
		switch r.Intn(5) {
		case 0:
			pad = []byte{}
			padTok = "00:"
		case 1:
			pad = make([]byte, 1+r.Intn(255))
			padTok = fmt.Sprintf("%02x:", len(pad))
		case 2:
			pad = make([]byte, 1+r.Intn(8))
			pad[r.Intn(len(pad))] = 1 // illegal: non-zero padding
			padTok = "nz:" + hx.Hex(pad)
		}
		dt := frag()
		s.writeCase(h10W{fmt.Sprintf("D:%d:%s:%s:%s", sid, b01(es), hx.Hex(dt), padTok), func(f *mh2.Framer) error { return f.WriteDataPadded(sid, es, dt, pad) },
			func(f *xh2.Framer) error { return f.WriteDataPadded(sid, es, dt, pad) },
			func() func(f *mh2.MFramer) error {
				if pad != nil || len(dt) == 0 {
					return nil
				}
				return func(f *mh2.MFramer) error { return f.VerifWriteData(sid, es, dt) }
			}()})
		// HEADERS
		hdep := dep
		hex := ex
		hwt := wt
		if r.Intn(3) == 0 {
			hdep, hex, hwt = 0, false, 0
		}
		hp := mh2.HeadersFrameParam{StreamID: sid, BlockFragment: fg, EndStream: es, EndHeaders: eh, PadLength: pl,
			Priority: mh2.PriorityParam{StreamDep: hdep, Exclusive: hex, Weight: hwt}}
		xp := xh2.HeadersFrameParam{StreamID: sid, BlockFragment: fg, EndStream: es, EndHeaders: eh, PadLength: pl,
			Priority: xh2.PriorityParam{StreamDep: hdep, Exclusive: hex, Weight: hwt}}
		s.writeCase(h10W{fmt.Sprintf("H:%d:%s:%s:%d:%d.%s.%d:%s", sid, b01(es), b01(eh), pl, hdep, b01(hex), hwt, hx.Hex(fg)),
			func(f *mh2.Framer) error { return f.WriteHeaders(hp) }, func(f *xh2.Framer) error { return f.WriteHeaders(xp) },
			func(f *mh2.MFramer) error { return f.VerifWriteHeaders(hp) }})
	}
}

// ---------------------------------------------------------------------------------------------------------
// the frames MServerConn / MClientConn write in line (SETTINGS ack, PING ack, GOAWAY, RST_STREAM; MClientConn.WritePing)
//
//	fpay i <server|client> <ev,ev,…>   events: ping:<8 octets> (the peer's PING), set:<id>=<val> (the peer's SETTINGS),
//	                                   open:<sid> (server: a GET on that stream), shutdown (server: GracefulShutdown), push
//	                                   (server: a PUSH_PROMISE frame, a connection error), data:<sid> (server: DATA on the
//	                                   half-closed stream, a stream error), wping:<ack>:<8 octets> (client: WritePing);
//	                                   output: the octets MOSN wrote after each event

func (s *h10Gen) inlineCase(side string, evs []string) {
	fc := newFakeConn()
	ctx := context.Background()
	var sc *mh2.MServerConn
	var cc *mh2.MClientConn
	var fr *mh2.MFramer
	if side == "server" {
		sc = mh2.NewServerConn(fc)
		sc.Init()
		fr = sc.Framer
	} else {
		cc = mh2.NewClientConn(fc)
		cc.WriteInitFrame()
		fr = cc.Framer
	}
	fc.take()
	var hbuf bytes.Buffer
	henc := xhpack.NewEncoder(&hbuf)
	feed := func(write func(x *xh2.Framer)) {
		var wire bytes.Buffer
		xf := xh2.NewFramer(&wire, nil)
		xf.AllowIllegalWrites = true
		write(xf)
		data := buffer.NewIoBufferBytes(wire.Bytes())
		hx.Safe(func() {
			for data.Len() > 0 {
				f, _, err := fr.ReadFrame(ctx, data, 0)
				if err != nil {
					return
				}
				if sc != nil {
					sc.HandleFrame(ctx, f)
				} else {
					cc.HandleFrame(ctx, f)
				}
			}
		})
	}
	var outs []string
	for _, ev := range evs {
		p := strings.Split(ev, ":")
		switch p[0] {
		case "ping":
			var d [8]byte
			copy(d[:], hx.Unhex(p[1]))
			feed(func(x *xh2.Framer) { x.WritePing(false, d) })
		case "set":
			var id, val uint32
			fmt.Sscanf(p[1], "%d=%d", &id, &val)
			feed(func(x *xh2.Framer) { x.WriteSettings(xh2.Setting{ID: xh2.SettingID(id), Val: val}) })
		case "open":
			var sid uint32
			fmt.Sscanf(p[1], "%d", &sid)
			hbuf.Reset()
			for _, kv := range [][2]string{{":method", "GET"}, {":scheme", "http"}, {":authority", "peer"}, {":path", "/c18"}} {
				henc.WriteField(xhpack.HeaderField{Name: kv[0], Value: kv[1]})
			}
			block := append([]byte(nil), hbuf.Bytes()...)
			feed(func(x *xh2.Framer) {
				x.WriteHeaders(xh2.HeadersFrameParam{StreamID: sid, BlockFragment: block, EndStream: true, EndHeaders: true})
			})
		case "shutdown":
			sc.GracefulShutdown()
		case "push":
			feed(func(x *xh2.Framer) { x.WritePushPromise(xh2.PushPromiseParam{StreamID: 1, PromiseID: 2, EndHeaders: true}) })
		case "data":
			var sid uint32
			fmt.Sscanf(p[1], "%d", &sid)
			feed(func(x *xh2.Framer) { x.WriteData(sid, false, []byte{1, 2, 3}) })
		case "wping":
			var d [8]byte
			copy(d[:], hx.Unhex(p[2]))
			cc.WritePing(p[1] == "1", d)
		}
		var recs []string
		for _, r := range fc.take() {
			recs = append(recs, hx.Hex(r))
		}
		outs = append(outs, orDash(strings.Join(recs, "+")))
	}
	s.c.Emit("C18", fmt.Sprintf("fpay i %s %s", side, strings.Join(evs, ",")), strings.Join(outs, ","))
	s.c.Count("fpay.i." + side + "." + strings.Split(evs[len(evs)-1], ":")[0])
}

func (s *h10Gen) inlineSweep() {
	r := s.c.Rng
	m := s.c.N(12, 100)
	for k := 0; k < m; k++ {
		d := hx.Hex(r.Bytes(8))
		sid := uint32(1 + 2*r.Intn(2000))
		set := []string{"set:1=4096", "set:1=0", "set:3=100", "set:4=65535", "set:4=2147483647", "set:5=16384", "set:5=16777215", "set:6=1048576"}[r.Intn(8)] // valid settings only
		s.inlineCase("server", []string{"ping:" + d})
		s.inlineCase("server", []string{set})
		s.inlineCase("server", []string{"shutdown"})
		s.inlineCase("server", []string{"push"})
		s.inlineCase("server", []string{fmt.Sprintf("open:%d", sid), "shutdown"})
		s.inlineCase("server", []string{fmt.Sprintf("open:%d", sid), "push"})
		s.inlineCase("server", []string{fmt.Sprintf("open:%d", sid), fmt.Sprintf("data:%d", sid)})
		s.inlineCase("server", []string{fmt.Sprintf("open:%d", sid), "ping:" + d, set})
		s.inlineCase("client", []string{"ping:" + d})
		s.inlineCase("client", []string{set})
		s.inlineCase("client", []string{"wping:" + b01(r.Bool()) + ":" + d, "ping:" + d})
	}
}

func runFramePayloads(c *hx.Ctx) {
	s := &h10Gen{c: c}
	s.parseSweep()
	s.writeSweep()
	s.inlineSweep()
}
