//go:build verif

package c18

import "verif/harness/hx"

func runFramePayloads(c *hx.Ctx) {}
