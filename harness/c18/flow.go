//go:build verif

package c18

import (
	"bytes"
	"context"
	"fmt"
	"net/http"
	"net/url"
	"strings"
	"sync"
	"sync/atomic"
	"time"

	xh2 "golang.org/x/net/http2"
	xhpack "golang.org/x/net/http2/hpack"
	"mosn.io/api"
	mh2 "mosn.io/mosn/pkg/module/http2"
	"mosn.io/pkg/buffer"
	"verif/harness/hx"
)

// ---------------------------------------------------------------------------------------------------------
// flowops: the real flow type

const maxI32 = 1<<31 - 1
const minI32 = -1 << 31

var flowBoundary = []int64{0, 1, 2, 16383, 16384, 65535, 65536, maxI32 - 65535, maxI32 - 2, maxI32 - 1, maxI32, -1, -2, -65535, minI32, minI32 + 1}

func genI32(r *hx.Rng) int32 {
	switch r.Intn(4) {
	case 0:
		return int32(flowBoundary[r.Intn(len(flowBoundary))])
	case 1:
		return int32(r.Intn(70000))
	case 2:
		return int32(r.U64())
	default:
		return int32(maxI32 - r.Intn(70000))
	}
}

func runFlowOps(c *hx.Ctx) {
	n := c.N(1500, 30000)
	for k := 0; k < n; k++ {
		withConn := c.Rng.Intn(4) != 0
		f := mh2.VerifNewFlow(withConn)
		nops := 1 + c.Rng.Intn(10)
		var ops, res []string
		if c.Rng.Intn(3) != 0 { // usually start from open windows
			v := int32(1 + c.Rng.Intn(1<<20))
			ops, res = append(ops, fmt.Sprintf("a%d", v)), append(res, fmt.Sprintf("%s:%d", b01(f.Add(v)), f.N()))
			if withConn {
				v = int32(1 + c.Rng.Intn(1<<20))
				ops, res = append(ops, fmt.Sprintf("c%d", v)), append(res, fmt.Sprintf("%s:%d", b01(f.AddConn(v)), f.ConnN()))
			}
		}
		for j := 0; j < nops; j++ {
			switch x := c.Rng.Intn(10); {
			case x < 4:
				v := genI32(c.Rng)
				ok := f.Add(v)
				ops = append(ops, fmt.Sprintf("a%d", v))
				res = append(res, fmt.Sprintf("%s:%d", b01(ok), f.N()))
				c.Count("flowops.add." + okStr(ok))
			case x < 6 && withConn:
				v := genI32(c.Rng)
				ok := f.AddConn(v)
				ops = append(ops, fmt.Sprintf("c%d", v))
				res = append(res, fmt.Sprintf("%s:%d", b01(ok), f.ConnN()))
				c.Count("flowops.addconn." + okStr(ok))
			case x < 9:
				// mostly takes within the window, sometimes above it (panics), rarely negative
				a := int64(f.Available())
				var v int32
				switch y := c.Rng.Intn(10); {
				case y < 6 && a > 0:
					v = int32(1 + c.Rng.Intn(int(minI64(a, 1<<20))))
					if c.Rng.Intn(3) == 0 {
						v = int32(a)
					}
				case y < 8:
					v = int32(minI64(a+1+int64(c.Rng.Intn(3)), maxI32))
				case y < 9:
					v = 0
				default:
					v = -int32(c.Rng.Intn(5))
				}
				p := f.Take(v)
				ops = append(ops, fmt.Sprintf("t%d", v))
				if p {
					res = append(res, "p")
					c.Count("flowops.take.panic")
				} else {
					res = append(res, fmt.Sprintf("%d:%d", f.N(), f.ConnN()))
					c.Count("flowops.take.ok")
				}
			default:
				ops = append(ops, "v")
				res = append(res, fmt.Sprintf("%d", f.Available()))
			}
		}
		c.Emit("C18", fmt.Sprintf("flowops %s %s", b01(withConn), strings.Join(ops, ",")), strings.Join(res, ","))
	}
	// the exact boundary table of add
	for _, a := range flowBoundary {
		for _, b := range flowBoundary {
			f := mh2.VerifNewFlow(false)
			ok1 := f.Add(int32(a))
			n1 := f.N()
			ok2 := f.Add(int32(b))
			c.Emit("C18", fmt.Sprintf("flowops 0 a%d,a%d", a, b), fmt.Sprintf("%s:%d,%s:%d", b01(ok1), n1, b01(ok2), f.N()))
			c.Count("flowops.boundary")
		}
	}
}

func b01(b bool) string {
	if b {
		return "1"
	}
	return "0"
}
func okStr(b bool) string {
	if b {
		return "accepted"
	}
	return "refused"
}
func minI64(a, b int64) int64 {
	if a < b {
		return a
	}
	return b
}
func maxI64(a, b int64) int64 {
	if a > b {
		return a
	}
	return b
}

// ---------------------------------------------------------------------------------------------------------
// peer: raw-frame reference peer against MOSN's client / server connection

type peerEv struct {
	kind byte // O open(len) | S stream window update (i, v) | C connection window update | I initial window | M max frame size
	i    int
	v    uint32
}

func (e peerEv) String() string {
	switch e.kind {
	case 'S':
		return fmt.Sprintf("S%d:%d", e.i, e.v)
	default:
		return fmt.Sprintf("%c%d", e.kind, e.v)
	}
}

// wireLog is what the peer sees MOSN write, decoded as it is written.
type wireLog struct {
	mu      sync.Mutex
	cond    *sync.Cond
	frames  []string         // "i:size" / "i:e" in wire order since the last cut
	bytes   map[uint32]int64 // DATA bytes per stream id (total)
	ended   map[uint32]bool
	goaway  bool
	total   int64
	raw     bytes.Buffer // everything after the preface, for the reference parser
	st      api.ConnState
	api.Connection
}

func newWireLog() *wireLog {
	w := &wireLog{bytes: map[uint32]int64{}, ended: map[uint32]bool{}, st: api.ConnActive}
	w.cond = sync.NewCond(&w.mu)
	return w
}

var preface = []byte("PRI * HTTP/2.0\r\n\r\nSM\r\n\r\n")

func (w *wireLog) Write(bufs ...buffer.IoBuffer) error {
	w.mu.Lock()
	defer w.mu.Unlock()
	for _, b := range bufs {
		p := b.Bytes()
		if bytes.HasPrefix(p, preface) {
			p = p[len(preface):]
		}
		w.raw.Write(p)
		for len(p) >= 9 {
			l := int(p[0])<<16 | int(p[1])<<8 | int(p[2])
			typ, flags := p[3], p[4]
			sid := (uint32(p[5])<<24 | uint32(p[6])<<16 | uint32(p[7])<<8 | uint32(p[8])) & (1<<31 - 1)
			if len(p) < 9+l {
				break
			}
			switch typ {
			case 0: // DATA
				idx := int(sid) / 2 // client streams 1,3,5,… = index 0,1,2,…
				if l > 0 || flags&1 == 0 {
					w.frames = append(w.frames, fmt.Sprintf("%d:%d", idx, l))
				}
				w.bytes[sid] += int64(l)
				w.total += int64(l)
				if flags&1 != 0 {
					w.frames = append(w.frames, fmt.Sprintf("%d:e", idx))
					w.ended[sid] = true
				}
			case 7:
				w.goaway = true
			}
			p = p[9+l:]
		}
	}
	w.cond.Broadcast()
	return nil
}
func (w *wireLog) State() api.ConnState {
	w.mu.Lock()
	defer w.mu.Unlock()
	return w.st
}
func (w *wireLog) Close(api.ConnectionCloseType, api.ConnectionEvent) error {
	w.mu.Lock()
	w.st = api.ConnClosed
	w.mu.Unlock()
	return nil
}
func (w *wireLog) ID() uint64 { return 7 }

// waitFor blocks until pred (evaluated under the lock) holds or d elapsed; reports whether pred held.
func (w *wireLog) waitFor(d time.Duration, pred func() bool) bool {
	deadline := time.Now().Add(d)
	t := time.AfterFunc(d, func() { w.mu.Lock(); w.cond.Broadcast(); w.mu.Unlock() })
	defer t.Stop()
	w.mu.Lock()
	defer w.mu.Unlock()
	for !pred() {
		if !time.Now().Before(deadline) {
			return false
		}
		w.cond.Wait()
	}
	return true
}

func (w *wireLog) cut() []string {
	w.mu.Lock()
	defer w.mu.Unlock()
	f := w.frames
	w.frames = nil
	return f
}

// refBooks is only a synchronisation aid (how many bytes to wait for); it is NOT the oracle — the Lean model is.
type refBooks struct {
	cn, init, maxf int64
	n, rem         []int64
	closed         bool
}

func (r *refBooks) expectedNew() (total int64, ends int) {
	if r.closed || r.maxf < 1 {
		return 0, 0
	}
	var sum int64
	for i := range r.n {
		d := minI64(maxI64(r.n[i], 0), r.rem[i])
		sum += d
	}
	total = minI64(maxI64(r.cn, 0), sum)
	return total, 0
}

type peerSide interface {
	feed(write func(fr *xh2.Framer)) (connErr bool)
	open(idx int, body []byte) error
	windows(idx int) (conn int32, stream int32)
	// settled waits until a stream whose END_STREAM is on the wire has also left MOSN's stream table (the server
	// closes the stream in a deferred call right after the write)
	settled(idx int)
	resetAll()
	// parked: sender goroutines inside cond.Wait() that no Broadcast has reached (-1: unknown); live: sender goroutines
	// that have not returned
	parked() int
	live() int
}

// ---- client side: MClientConn sends request bodies
type clientSide struct {
	w    *wireLog
	cc   *mh2.MClientConn
	ms   []*mh2.MClientStream
	wg   sync.WaitGroup
	ctx  context.Context
	nliv int32
}

func (s *clientSide) parked() int { return s.cc.VerifParkedSenders() }
func (s *clientSide) live() int   { return int(atomic.LoadInt32(&s.nliv)) }

func newClientSide() *clientSide {
	w := newWireLog()
	cc := mh2.NewClientConn(w)
	cc.WriteInitFrame()
	return &clientSide{w: w, cc: cc, ctx: context.Background()}
}

func (s *clientSide) feed(write func(fr *xh2.Framer)) bool {
	var wire bytes.Buffer
	write(xh2.NewFramer(&wire, nil))
	data := buffer.NewIoBufferBytes(wire.Bytes())
	for data.Len() > 0 {
		f, _, err := s.cc.Framer.ReadFrame(s.ctx, data, 0)
		if err != nil {
			_, isConn := err.(mh2.ConnectionError)
			return isConn || err != mh2.ErrAGAIN
		}
		if _, _, _, _, _, err = s.cc.HandleFrame(s.ctx, f); err != nil {
			if _, ok := err.(mh2.ConnectionError); ok {
				return true
			}
		}
	}
	return false
}

func (s *clientSide) open(idx int, body []byte) error {
	req := &http.Request{Method: "POST", URL: &url.URL{Scheme: "http", Host: "peer", Path: "/c18"}, Host: "peer", Header: http.Header{}}
	ms := mh2.NewMClientStream(s.cc, req)
	ms.SendData = buffer.NewIoBufferBytes(body)
	if err := ms.RoundTrip(s.ctx); err != nil { // HEADERS
		return err
	}
	s.ms = append(s.ms, ms)
	s.wg.Add(1)
	atomic.AddInt32(&s.nliv, 1)
	go func() {
		defer s.wg.Done()
		defer atomic.AddInt32(&s.nliv, -1)
		hx.Safe(func() { ms.RoundTrip(s.ctx) }) // body, END_STREAM
	}()
	return nil
}

func (s *clientSide) windows(idx int) (int32, int32) { return s.ms[idx].VerifSendWindows() }
func (s *clientSide) settled(idx int)                {}
func (s *clientSide) resetAll() {
	s.w.Close(api.NoFlush, api.LocalClose)
	for _, m := range s.ms {
		m.Reset()
	}
	waitSenders(&s.wg, func() {
		s.feed(func(fr *xh2.Framer) { fr.WriteSettings(xh2.Setting{ID: xh2.SettingInitialWindowSize, Val: 1}) })
	})
}

// waitSenders waits for the sender goroutines; a sender can miss the wake-up of its stream's reset (closeStream
// broadcasts before it marks the stream closed), so the connection is closed and `kick` makes MOSN broadcast again.
func waitSenders(wg *sync.WaitGroup, kick func()) {
	done := make(chan struct{})
	go func() { wg.Wait(); close(done) }()
	for i := 0; i < 400; i++ {
		select {
		case <-done:
			return
		case <-time.After(5 * time.Millisecond):
			kick()
		}
	}
	panic("sender goroutines did not terminate")
}

// ---- server side: MServerConn sends response bodies
type serverSide struct {
	w    *wireLog
	sc   *mh2.MServerConn
	ms   []*mh2.MStream
	wg   sync.WaitGroup
	ctx  context.Context
	henc *xhpack.Encoder
	hbuf bytes.Buffer
	nliv int32
}

func (s *serverSide) parked() int { return s.sc.VerifParkedSenders() }
func (s *serverSide) live() int   { return int(atomic.LoadInt32(&s.nliv)) }

func newServerSide() *serverSide {
	w := newWireLog()
	sc := mh2.NewServerConn(w)
	sc.Init()
	s := &serverSide{w: w, sc: sc, ctx: context.Background()}
	s.henc = xhpack.NewEncoder(&s.hbuf)
	return s
}

func (s *serverSide) feedRaw(write func(fr *xh2.Framer)) (ms *mh2.MStream, connErr bool) {
	var wire bytes.Buffer
	write(xh2.NewFramer(&wire, nil))
	data := buffer.NewIoBufferBytes(wire.Bytes())
	for data.Len() > 0 {
		f, _, err := s.sc.Framer.ReadFrame(s.ctx, data, 0)
		if err != nil {
			_, isConn := err.(mh2.ConnectionError)
			return ms, isConn || err != mh2.ErrAGAIN
		}
		m, _, _, _, err := s.sc.HandleFrame(s.ctx, f)
		if m != nil {
			ms = m
		}
		if err != nil {
			if _, ok := err.(mh2.ConnectionError); ok {
				return ms, true
			}
		}
	}
	return ms, false
}

func (s *serverSide) feed(write func(fr *xh2.Framer)) bool {
	_, ce := s.feedRaw(write)
	return ce
}

func (s *serverSide) open(idx int, body []byte) error {
	// the peer (a reference client) sends a GET on stream 2*idx+1; MOSN answers with `body`
	s.hbuf.Reset()
	for _, kv := range [][2]string{{":method", "GET"}, {":scheme", "http"}, {":authority", "peer"}, {":path", "/c18"}} {
		s.henc.WriteField(xhpack.HeaderField{Name: kv[0], Value: kv[1]})
	}
	block := append([]byte(nil), s.hbuf.Bytes()...)
	ms, ce := s.feedRaw(func(fr *xh2.Framer) {
		fr.WriteHeaders(xh2.HeadersFrameParam{StreamID: uint32(2*idx + 1), BlockFragment: block, EndStream: true, EndHeaders: true})
	})
	if ce || ms == nil {
		return fmt.Errorf("request refused")
	}
	ms.Response = &http.Response{StatusCode: 200, Header: http.Header{"Content-Type": []string{"application/octet-stream"}, "Date": []string{"x"}}}
	ms.SendData = buffer.NewIoBufferBytes(body)
	s.ms = append(s.ms, ms)
	// response HEADERS synchronously, body from a goroutine (as the proxy's worker does)
	if err := ms.WriteHeader(false); err != nil {
		return err
	}
	s.wg.Add(1)
	atomic.AddInt32(&s.nliv, 1)
	go func() {
		defer s.wg.Done()
		defer atomic.AddInt32(&s.nliv, -1)
		hx.Safe(func() {
			if err := ms.WriteData(); err == nil {
				ms.WriteTrailers()
			}
		})
	}()
	return nil
}
func (s *serverSide) windows(idx int) (int32, int32) { return s.ms[idx].VerifSendWindows() }
func (s *serverSide) settled(idx int) {
	for i := 0; i < 20000 && !s.ms[idx].VerifClosed(); i++ {
		time.Sleep(100 * time.Microsecond)
	}
}
func (s *serverSide) resetAll() {
	s.w.Close(api.NoFlush, api.LocalClose)
	for _, m := range s.ms {
		m.Reset()
	}
	waitSenders(&s.wg, func() {
		s.feed(func(fr *xh2.Framer) { fr.WriteSettings() })
	})
}

// runScript executes one script and returns the executed prefix and the observations.
func runScript(c *hx.Ctx, side string, evs []peerEv) (string, string) {
	var ps peerSide
	var w *wireLog
	if side == "client" {
		cs := newClientSide()
		ps, w = cs, cs.w
	} else {
		ss := newServerSide()
		ps, w = ss, ss.w
	}
	ref := &refBooks{cn: 65535, init: 65535, maxf: 16384}
	w.cut()
	w.mu.Lock()
	w.total = 0
	w.mu.Unlock()
	var done []string
	var obs []string
	sentBefore := map[int]int64{}
	var bodyLen []int64
	slow := false
	for _, e := range evs {
		connErr := false
		switch e.kind {
		case 'O':
			body := bytes.Repeat([]byte{byte('a' + len(ref.n)%26)}, int(e.v))
			if err := ps.open(len(ref.n), body); err != nil {
				connErr = true
			} else {
				ref.n = append(ref.n, ref.init)
				ref.rem = append(ref.rem, int64(e.v))
				bodyLen = append(bodyLen, int64(e.v))
			}
		case 'S':
			sid := uint32(2*e.i + 1)
			connErr = ps.feed(func(fr *xh2.Framer) { fr.WriteWindowUpdate(sid, e.v) })
			if e.i < len(ref.n) && (side == "client" || ref.rem[e.i] > 0) { // the server forgets a stream once its body is out
				if ref.n[e.i]+int64(e.v) > maxI32 {
					ref.closed = true
				} else {
					ref.n[e.i] += int64(e.v)
				}
			}
		case 'C':
			connErr = ps.feed(func(fr *xh2.Framer) { fr.WriteWindowUpdate(0, e.v) })
			if ref.cn+int64(e.v) > maxI32 {
				ref.closed = true
			} else {
				ref.cn += int64(e.v)
			}
		case 'I':
			connErr = ps.feed(func(fr *xh2.Framer) {
				fr.WriteSettings(xh2.Setting{ID: xh2.SettingInitialWindowSize, Val: e.v})
			})
			if int64(e.v) > maxI32 {
				ref.closed = true
			} else {
				d := int64(e.v) - ref.init
				for i := range ref.n {
					if side == "server" && ref.rem[i] == 0 {
						continue
					}
					if ref.n[i]+d > maxI32 {
						if side == "server" {
							ref.closed = true
						}
					} else {
						ref.n[i] += d
					}
				}
				ref.init = int64(e.v)
			}
		case 'M':
			connErr = ps.feed(func(fr *xh2.Framer) { fr.WriteSettings(xh2.Setting{ID: xh2.SettingMaxFrameSize, Val: e.v}) })
			if side == "server" && (e.v < 16384 || e.v > 1<<24-1) {
				ref.closed = true
			} else {
				ref.maxf = int64(e.v)
			}
		}
		done = append(done, e.String())
		if connErr {
			// the stream layer closes the connection on a connection error
			w.Close(api.NoFlush, api.LocalClose)
			ref.closed = true
		}
		// wait for what the greedy senders can write now
		want, _ := ref.expectedNew()
		w.mu.Lock()
		base := w.total
		w.mu.Unlock()
		target := base + want
		// a body that has been written completely is closed with END_STREAM
		wantEnds := func() bool {
			if ref.closed {
				return true
			}
			for i := range ref.n {
				sid := uint32(2*i + 1)
				if w.bytes[sid] == bodyLen[i] && !w.ended[sid] {
					return false
				}
			}
			return true
		}
		// a sound sender never makes us wait the full delay; once timeouts have been seen (an implementation that
		// under-sends) the delay drops so that a violation search stays fast
		d := 3 * time.Second
		if slow || syncTimeouts >= 3 {
			d = 60 * time.Millisecond
		}
		if !w.waitFor(d, func() bool { return w.total >= target && wantEnds() }) {
			slow = true
			syncTimeouts++
			c.Count("peer.sync-timeout")
		}
		for i := range ref.n {
			w.mu.Lock()
			ended := w.ended[uint32(2*i+1)]
			w.mu.Unlock()
			if ended {
				ps.settled(i)
			}
		}
		// the next peer frame is fed only when every sender goroutine that has not finished is parked in cond.Wait():
		// a frame handled while a signalled sender has not yet re-evaluated its guard would hide a wake-up that the
		// frame itself fails to give (the schedule in which a lost wake-up shows is the one where everybody sleeps)
		if !connErr {
			quiesce(c, ps)
		}
		frames := w.cut()
		// account what was actually written
		w.mu.Lock()
		var sum int64
		for i := range ref.n {
			sid := uint32(2*i + 1)
			dlt := w.bytes[sid] - sentBefore[i]
			sentBefore[i] = w.bytes[sid]
			ref.n[i] -= dlt
			ref.rem[i] -= dlt
			sum += dlt
		}
		ref.cn -= sum
		goaway := w.goaway
		w.mu.Unlock()
		o := "-"
		if len(frames) > 0 {
			o = strings.Join(frames, "+")
		}
		var ws []string
		if len(ref.n) == 0 {
			ws = append(ws, "x")
		}
		for i := range ref.n {
			cn, sn := ps.windows(i)
			if i == 0 {
				ws = append(ws, fmt.Sprint(cn))
			}
			ws = append(ws, fmt.Sprint(sn))
		}
		o += "/" + strings.Join(ws, ";")
		if connErr || goaway {
			o += "!"
		}
		obs = append(obs, o)
		if connErr {
			break
		}
	}
	// late frames (a sender that writes more than the windows allow shows up here)
	time.Sleep(2 * time.Millisecond)
	if late := w.cut(); len(late) > 0 {
		obs = append(obs, "late:"+strings.Join(late, "+"))
	}
	ps.resetAll()
	// the reference framer must parse everything MOSN wrote and count the same DATA bytes
	w.mu.Lock()
	raw := append([]byte(nil), w.raw.Bytes()...)
	mine := map[uint32]int64{}
	for k, v := range w.bytes {
		mine[k] = v
	}
	w.mu.Unlock()
	xfr := xh2.NewFramer(nil, bytes.NewReader(raw))
	xfr.SetMaxReadFrameSize(1 << 24)
	theirs := map[uint32]int64{}
	xok := "xparse-ok"
	for {
		f, err := xfr.ReadFrame()
		if err != nil {
			if err.Error() != "EOF" {
				xok = "xparse-error"
			}
			break
		}
		if df, ok := f.(*xh2.DataFrame); ok {
			theirs[df.StreamID] += int64(df.Length)
		}
	}
	for k, v := range mine {
		if theirs[k] != v {
			xok = "xparse-mismatch"
		}
	}
	return strings.Join(done, ","), strings.Join(obs, ",") + " " + xok
}

var syncTimeouts int

func quiesce(c *hx.Ctx, ps peerSide) {
	for k := 0; k < 20000; k++ {
		p := ps.parked()
		if p < 0 { // sync.Cond layout not recognised: settle by time
			time.Sleep(time.Millisecond)
			c.Count("peer.quiesce-by-sleep")
			return
		}
		if p >= ps.live() {
			return
		}
		time.Sleep(50 * time.Microsecond)
	}
	c.Count("peer.quiesce-timeout")
}

var initWindows = []uint32{0, 1, 16383, 65535, maxI32}
var frameSizes = []uint32{16384, 16385, 32768, 65536, 1<<24 - 1}

func genScript(c *hx.Ctx, side string) []peerEv {
	r := c.Rng
	var evs []peerEv
	// the peer's first SETTINGS
	if r.Intn(10) < 8 {
		evs = append(evs, peerEv{kind: 'I', v: initWindows[r.Intn(len(initWindows))]})
	}
	if r.Intn(10) < 4 {
		evs = append(evs, peerEv{kind: 'M', v: frameSizes[r.Intn(len(frameSizes))]})
	}
	if r.Intn(10) < 2 {
		evs = append(evs, peerEv{kind: 'C', v: uint32(1 + r.Intn(1<<20))})
	}
	nstreams := 1
	if r.Intn(10) < 3 {
		nstreams = 2 + r.Intn(2)
	}
	opened := 0
	bodyLens := []int{0, 1, 2, 100, 16383, 16384, 16385, 40000, 65535, 65536, 70000, 150000}
	nev := 3 + r.Intn(12)
	for k := 0; k < nev; k++ {
		x := r.Intn(100)
		switch {
		case opened < nstreams && (opened == 0 || x < 20):
			l := bodyLens[r.Intn(len(bodyLens))]
			if r.Intn(3) == 0 {
				l = r.Intn(200000)
			}
			evs = append(evs, peerEv{kind: 'O', v: uint32(l)})
			opened++
		case x < 55 && opened > 0:
			inc := []uint32{1, 1, 2, 100, 16383, 16384, 16385, 65535, 100000}[r.Intn(9)]
			if r.Intn(3) == 0 {
				inc = uint32(1 + r.Intn(300000))
			}
			evs = append(evs, peerEv{kind: 'S', i: r.Intn(opened), v: inc})
		case x < 80:
			inc := []uint32{1, 2, 100, 16384, 65535, 100000, 1 << 20}[r.Intn(7)]
			if r.Intn(3) == 0 {
				inc = uint32(1 + r.Intn(300000))
			}
			evs = append(evs, peerEv{kind: 'C', v: inc})
		case x < 90:
			v := initWindows[r.Intn(len(initWindows))]
			if r.Intn(2) == 0 {
				v = uint32(r.Intn(200000))
			}
			evs = append(evs, peerEv{kind: 'I', v: v})
		case x < 95:
			evs = append(evs, peerEv{kind: 'M', v: frameSizes[r.Intn(len(frameSizes))]})
		default:
			// the malformed stream: overflowing increments / settings, invalid frame sizes
			switch r.Intn(5) {
			case 0:
				evs = append(evs, peerEv{kind: 'C', v: maxI32})
			case 1:
				if opened > 0 {
					evs = append(evs, peerEv{kind: 'S', i: r.Intn(opened), v: maxI32})
				}
			case 2:
				evs = append(evs, peerEv{kind: 'I', v: 1 << 31})
			case 3:
				if side == "server" {
					evs = append(evs, peerEv{kind: 'M', v: []uint32{0, 16383, 1 << 24}[r.Intn(3)]})
				} else {
					evs = append(evs, peerEv{kind: 'M', v: []uint32{100, 16383, 1 << 24, maxI32}[r.Intn(4)]})
				}
			default:
				evs = append(evs, peerEv{kind: 'S', i: opened + 3, v: 5}) // window update for a stream never opened
			}
		}
	}
	return evs
}

// negSim is the generator's rough account of MOSN's send windows (greedy senders, one stream at a time); it only
// steers the choice of the next event towards the sign changes of a stream window and is never compared with anything.
type negSim struct {
	cn, init int64
	n, rem   []int64
}

func (g *negSim) pump() {
	for i := range g.n {
		d := minI64(minI64(maxI64(g.n[i], 0), maxI64(g.cn, 0)), g.rem[i])
		g.n[i] -= d
		g.rem[i] -= d
		g.cn -= d
	}
}

// genNegScript: scripts in which the peer LOWERS SETTINGS_INITIAL_WINDOW_SIZE while a body is in flight, so that the
// stream window MOSN keeps goes negative (RFC 7540 6.9.2), and then raises it again — by WINDOW_UPDATE on the stream in
// one step across zero, in two steps (still negative / exactly zero, then positive), by a larger SETTINGS value, or by
// both — in generated orders, interleaved with connection-level updates, for 1-2 streams; ends with grants that cover
// the bodies.  A sender parked on the negative window has to be woken by whichever frame makes it positive.
func genNegScript(c *hx.Ctx, side string) []peerEv {
	r := c.Rng
	g := &negSim{cn: 65535, init: 65535}
	var evs []peerEv
	add := func(e peerEv) {
		evs = append(evs, e)
		switch e.kind {
		case 'O':
			g.n, g.rem = append(g.n, g.init), append(g.rem, int64(e.v))
		case 'S':
			if e.i < len(g.n) && (side == "client" || g.rem[e.i] > 0) {
				g.n[e.i] += int64(e.v)
			}
		case 'C':
			g.cn += int64(e.v)
		case 'I':
			d := int64(e.v) - g.init
			for i := range g.n {
				if side == "client" || g.rem[i] > 0 {
					g.n[i] += d
				}
			}
			g.init = int64(e.v)
		}
		g.pump()
	}
	if r.Intn(5) != 0 { // usually a roomy connection window: only the stream windows block
		add(peerEv{kind: 'C', v: uint32(100000 + r.Intn(900000))})
	}
	iw := []uint32{65535, 65535, 16384, 30000, 100000, 1}[r.Intn(6)]
	if iw != 65535 || r.Intn(2) == 0 {
		add(peerEv{kind: 'I', v: iw})
	}
	nstreams := 1
	if r.Intn(4) == 0 {
		nstreams = 2
	}
	for k := 0; k < nstreams; k++ {
		add(peerEv{kind: 'O', v: uint32(int(iw) + 1 + r.Intn(150000))})
	}
	nev := 3 + r.Intn(8)
	for k := 0; k < nev; k++ {
		i := r.Intn(len(g.n))
		neg := g.n[i] < 0
		switch x := r.Intn(100); {
		case !neg && g.init > 0 && (x < 70 || k == 0):
			// lower the initial window mid-body
			low := []int64{0, 1, 100, g.init / 2, g.init - 1}[r.Intn(5)]
			if r.Intn(3) == 0 {
				low = int64(r.Intn(int(g.init)))
			}
			add(peerEv{kind: 'I', v: uint32(low)})
		case neg && x < 30:
			// across zero in one WINDOW_UPDATE
			add(peerEv{kind: 'S', i: i, v: uint32(-g.n[i] + []int64{1, 2, 100, 16384, 70000}[r.Intn(5)])})
		case neg && x < 45:
			// exactly to zero, then (later) positive
			add(peerEv{kind: 'S', i: i, v: uint32(-g.n[i])})
		case neg && x < 60 && g.n[i] < -1:
			// part of the way: still negative
			add(peerEv{kind: 'S', i: i, v: uint32(1 + r.Intn(int(-g.n[i]-1)))})
		case neg && x < 80:
			// a larger SETTINGS value: across zero, to zero, or part of the way
			up := -g.n[i] + []int64{1, 100, 0, -1, 20000}[r.Intn(5)]
			if up < 1 {
				up = 1
			}
			if g.init+up <= maxI32 {
				add(peerEv{kind: 'I', v: uint32(g.init + up)})
			}
		case x < 90:
			add(peerEv{kind: 'C', v: uint32(1 + r.Intn(100000))})
		default:
			add(peerEv{kind: 'S', i: i, v: uint32(1 + r.Intn(70000))})
		}
	}
	// grants covering what is left
	for i := range g.n {
		if g.rem[i] > 0 {
			need := g.rem[i] - g.n[i]
			if need > 0 && g.n[i]+need <= maxI32 {
				add(peerEv{kind: 'S', i: i, v: uint32(need)})
			}
		}
	}
	var left int64
	for i := range g.rem {
		left += g.rem[i]
	}
	if left > 0 {
		add(peerEv{kind: 'C', v: uint32(left - minI64(g.cn, 0))})
	}
	return evs
}

// negFixed: the schedule of Props/C18 `lazy_broadcast_loses_wakeup` and its variants as peer scripts.
var negFixed = [][]peerEv{
	{{kind: 'C', v: 100000}, {kind: 'O', v: 70000}, {kind: 'I', v: 100}, {kind: 'S', i: 0, v: 70000}, {kind: 'S', i: 0, v: 1000}},
	{{kind: 'C', v: 100000}, {kind: 'O', v: 70000}, {kind: 'I', v: 100}, {kind: 'S', i: 0, v: 65435}, {kind: 'S', i: 0, v: 1}, {kind: 'S', i: 0, v: 5000}},
	{{kind: 'C', v: 100000}, {kind: 'O', v: 70000}, {kind: 'I', v: 100}, {kind: 'S', i: 0, v: 30000}, {kind: 'I', v: 40000}, {kind: 'S', i: 0, v: 5000}},
	{{kind: 'C', v: 300000}, {kind: 'O', v: 70000}, {kind: 'O', v: 90000}, {kind: 'I', v: 0}, {kind: 'S', i: 1, v: 70000}, {kind: 'S', i: 0, v: 70000}, {kind: 'S', i: 1, v: 30000}},
	{{kind: 'I', v: 16384}, {kind: 'O', v: 40000}, {kind: 'I', v: 1}, {kind: 'C', v: 5}, {kind: 'S', i: 0, v: 16384}, {kind: 'S', i: 0, v: 30000}},
}

func runPeerNeg(c *hx.Ctx) {
	for _, side := range []string{"client", "server"} {
		for _, evs := range negFixed {
			d, o := runScript(c, side, evs)
			c.Emit("C18", "peer "+side+" "+d, o)
			c.Count("peer.neg." + side + ".fixed")
		}
	}
	n := c.N(160, 1200)
	for k := 0; k < n; k++ {
		side := "server"
		if k%2 == 1 {
			side = "client"
		}
		evs := genNegScript(c, side)
		d, o := runScript(c, side, evs)
		c.Emit("C18", "peer "+side+" "+d, o)
		c.Count("peer.neg." + side)
		if strings.Contains(o, ";-") {
			c.Count("peer.neg." + side + ".stream-window-negative")
		}
		if strings.Contains(o, ":e") {
			c.Count("peer.neg.body-completed")
		}
	}
}

func runPeer(c *hx.Ctx) {
	// fixed boundary scripts first: every advertised initial window × a body that needs several updates
	for _, side := range []string{"client", "server"} {
		for _, iw := range initWindows {
			for _, mf := range []uint32{0, 32768} {
				evs := []peerEv{{kind: 'I', v: iw}}
				if mf != 0 {
					evs = append(evs, peerEv{kind: 'M', v: mf})
				}
				evs = append(evs, peerEv{kind: 'O', v: 70000}, peerEv{kind: 'S', i: 0, v: 1}, peerEv{kind: 'S', i: 0, v: 40000},
					peerEv{kind: 'C', v: 10000}, peerEv{kind: 'I', v: 100000}, peerEv{kind: 'C', v: 100000})
				d, o := runScript(c, side, evs)
				c.Emit("C18", "peer "+side+" "+d, o)
				c.Count("peer." + side + ".boundary")
			}
		}
	}
	n := c.N(260, 1500)
	for k := 0; k < n; k++ {
		side := "client"
		if k%2 == 1 {
			side = "server"
		}
		evs := genScript(c, side)
		d, o := runScript(c, side, evs)
		c.Emit("C18", "peer "+side+" "+d, o)
		c.Count("peer." + side)
		c.Count(fmt.Sprintf("peer.events=%d", len(evs)/4*4))
		if strings.Contains(o, "!") {
			c.Count("peer.connection-error")
		}
		if strings.Contains(o, ":e") {
			c.Count("peer.body-completed")
		}
	}
}
