//go:build verif

package c18

// c18r6: boundary sweep of every limit MOSN's HTTP/2 framer and connections enforce, differential against x/net's
// Framer configured with the limit MOSN ADVERTISES (parsed from the SETTINGS frame MServerConn.Init really writes).
//
//	lim rf <side> <cfg> <type> <flags> <sid> <len> <pad> <fill> <cut>  =>  a=<advertised MAX_FRAME_SIZE|-> m=<outcome> x=<outcome>
//	    one frame, payload = <len> octets all equal to <fill> except the pad-length octet <pad> of a PADDED DATA / HEADERS /
//	    PUSH_PROMISE frame; cfg = own (the framer as NewServerConn / NewClientConn configure it; the reference gets the
//	    advertised limit) | set<N> (SetMaxReadFrameSize(N) on both); cut = number of octets supplied (- = all).
//	    fr.ReadMetaHeaders is nil on both sides (the HPACK part of HEADERS is the matter of kinds hdr / hdrcut / frames).
//	    outcome: again | toolarge | ok:<n> | conn:<code> | stream:<code> | short | other | panic
//	lim conn <side> <ev,ev,…>  =>  m=<o,o,…> x=<o,o,…>
//	    S<id>:<val> one SETTINGS parameter, W<inc> connection-level WINDOW_UPDATE; read by MFramer.ReadFrame and handled by
//	    MServerConn / MClientConn.HandleFrame; x = reference Framer parse + Setting.Valid(); stops at the first connection error.

import (
	"bytes"
	"context"
	"fmt"
	"io"
	"strings"

	xh2 "golang.org/x/net/http2"
	mh2 "mosn.io/mosn/pkg/module/http2"
	"mosn.io/pkg/buffer"
	"verif/harness/hx"
)

const (
	c18r6MaxFrame = 1<<24 - 1
	c18r6Preface  = "PRI * HTTP/2.0\r\n\r\nSM\r\n\r\n"
)

// c18r6Advertised returns the SETTINGS_MAX_FRAME_SIZE value in the first SETTINGS frame MOSN writes (-1: not advertised).
func c18r6Advertised(side string) int64 {
	fc := newFakeConn()
	if side == "server" {
		sc := mh2.NewServerConn(fc)
		if err := sc.Init(); err != nil {
			return -2
		}
	} else {
		cc := mh2.NewClientConn(fc)
		cc.WriteInitFrame()
	}
	wire := fc.all()
	wire = bytes.TrimPrefix(wire, []byte(c18r6Preface))
	fr := xh2.NewFramer(nil, bytes.NewReader(wire))
	for {
		f, err := fr.ReadFrame()
		if err != nil {
			return -1
		}
		if sf, ok := f.(*xh2.SettingsFrame); ok && !sf.IsAck() {
			if v, ok := sf.Value(xh2.SettingMaxFrameSize); ok {
				return int64(v)
			}
			return -1
		}
	}
}

func c18r6Wire(ty, flags int, sid uint32, length, pad, fill int, cut int) []byte {
	n := length
	if cut >= 0 && cut < 9+length {
		n = cut - 9
		if n < 0 {
			n = 0
		}
	}
	w := make([]byte, 9+n)
	w[0], w[1], w[2] = byte(length>>16), byte(length>>8), byte(length)
	w[3], w[4] = byte(ty), byte(flags)
	w[5], w[6], w[7], w[8] = byte(sid>>24), byte(sid>>16), byte(sid>>8), byte(sid)
	if fill != 0 {
		p := w[9:]
		for i := range p {
			p[i] = byte(fill)
		}
	}
	if (ty == 0 || ty == 1 || ty == 5) && flags&8 != 0 && n >= 1 {
		w[9] = byte(pad)
	}
	if cut >= 0 && cut < len(w) {
		w = w[:cut]
	}
	return w
}

func c18r6ErrM(err error) string {
	switch e := err.(type) {
	case mh2.ConnectionError:
		return fmt.Sprintf("conn:%d", uint32(e))
	case mh2.StreamError:
		return fmt.Sprintf("stream:%d", uint32(e.Code))
	}
	switch err {
	case mh2.ErrFrameTooLarge:
		return "toolarge"
	case mh2.ErrAGAIN:
		return "again"
	case io.ErrUnexpectedEOF:
		return "short"
	}
	return "other"
}

func c18r6ErrX(err error, complete bool) string {
	switch e := err.(type) {
	case xh2.ConnectionError:
		return fmt.Sprintf("conn:%d", uint32(e))
	case xh2.StreamError:
		return fmt.Sprintf("stream:%d", uint32(e.Code))
	}
	if err == xh2.ErrFrameTooLarge {
		return "toolarge"
	}
	if err == io.EOF || err == io.ErrUnexpectedEOF {
		if !complete {
			return "again" // the reference blocks / fails on a stream that ends inside the frame
		}
		return "short"
	}
	return "other"
}

func c18r6ReadM(side, cfg string, wire []byte) string {
	var fr *mh2.MFramer
	if side == "server" {
		fr = mh2.NewServerConn(newFakeConn()).Framer
	} else {
		fr = mh2.NewClientConn(newFakeConn()).Framer
	}
	fr.ReadMetaHeaders = nil
	if strings.HasPrefix(cfg, "set") {
		var n uint64
		fmt.Sscanf(cfg[3:], "%d", &n)
		fr.SetMaxReadFrameSize(uint32(n))
	}
	data := buffer.NewIoBuffer(len(wire))
	data.Write(wire)
	var f mh2.Frame
	var err error
	if msg, panicked := hx.Safe(func() { f, _, err = fr.ReadFrame(context.Background(), data, 0) }); panicked {
		_ = msg
		return "panic"
	}
	if err != nil {
		return c18r6ErrM(err)
	}
	switch x := f.(type) {
	case *mh2.DataFrame:
		return fmt.Sprintf("ok:%d", len(x.Data()))
	case *mh2.HeadersFrame:
		return fmt.Sprintf("ok:%d", len(x.HeaderBlockFragment()))
	case *mh2.PushPromiseFrame:
		return fmt.Sprintf("ok:%d", len(x.HeaderBlockFragment()))
	}
	return fmt.Sprintf("ok:%d", f.Header().Length)
}

func c18r6ReadX(limit uint32, wire []byte, complete bool) string {
	fr := xh2.NewFramer(nil, bytes.NewReader(wire))
	fr.SetMaxReadFrameSize(limit)
	f, err := fr.ReadFrame()
	if err != nil {
		return c18r6ErrX(err, complete)
	}
	switch x := f.(type) {
	case *xh2.DataFrame:
		return fmt.Sprintf("ok:%d", len(x.Data()))
	case *xh2.HeadersFrame:
		return fmt.Sprintf("ok:%d", len(x.HeaderBlockFragment()))
	case *xh2.PushPromiseFrame:
		return fmt.Sprintf("ok:%d", len(x.HeaderBlockFragment()))
	}
	return fmt.Sprintf("ok:%d", f.Header().Length)
}

type c18r6Sweep struct {
	c    *hx.Ctx
	adv  map[string]int64
	seen map[string]bool
	big  int
}

// rf emits one read-frame case.
func (s *c18r6Sweep) rf(side, cfg string, ty, flags int, sid uint32, length, pad, fill, cut int) {
	if length < 0 || length > c18r6MaxFrame {
		return
	}
	cutTok := "-"
	if cut >= 0 {
		cutTok = fmt.Sprint(cut)
	} else if length > 1<<20+1 && !strings.HasPrefix(cfg, "set16777215") && !strings.HasPrefix(cfg, "set16777216") && !strings.HasPrefix(cfg, "set4294967295") {
		cut, cutTok = 9, "9" // a frame far beyond the limit is refused from its header alone
	}
	caseToks := fmt.Sprintf("lim rf %s %s %d %d %d %d %d %d %s", side, cfg, ty, flags, sid, length, pad, fill, cutTok)
	if s.seen[caseToks] {
		return
	}
	s.seen[caseToks] = true
	wire := c18r6Wire(ty, flags, sid, length, pad, fill, cut)
	complete := len(wire) == 9+length
	adv := s.adv[side]
	var limit uint32
	switch {
	case strings.HasPrefix(cfg, "set"):
		var n uint64
		fmt.Sscanf(cfg[3:], "%d", &n)
		limit = uint32(n)
	case adv >= 0:
		limit = uint32(adv)
	default:
		limit = 1 << 20 // the client advertises nothing (RFC default 16384) and reads up to 1 MiB: see the driver's Spec
	}
	m := c18r6ReadM(side, cfg, wire)
	x := c18r6ReadX(limit, wire, complete)
	advTok := "-"
	if adv >= 0 {
		advTok = fmt.Sprint(adv)
	}
	s.c.Emit("C18", caseToks, fmt.Sprintf("a=%s m=%s x=%s", advTok, m, x))
	s.c.Count("lim-rf-" + side + "-" + strings.TrimRight(cfg, "0123456789") + "-" + strings.SplitN(m, ":", 2)[0])
	if len(wire) >= 1<<19 {
		s.big++
		s.c.Count("lim-rf-large-frame")
	}
}

var c18r6Types = []int{0, 1, 2, 3, 4, 5, 6, 7, 8, 9, 0x20}

func c18r6Sid(ty int, alt bool) uint32 {
	switch ty {
	case 4, 6, 7:
		return 0
	case 8:
		if alt {
			return 0
		}
	}
	return 1
}

func runLimits(c *hx.Ctx) {
	s := &c18r6Sweep{c: c, adv: map[string]int64{"server": c18r6Advertised("server"), "client": c18r6Advertised("client")}, seen: map[string]bool{}}
	r := c.Rng
	L := int(s.adv["server"])
	if L < 0 {
		L = 1 << 20
	}
	boundary := func(lim int) []int {
		ls := []int{0, 1, 16383, 16384, 16385}
		for d := -9; d <= 1; d++ {
			ls = append(ls, lim+d)
		}
		return ls
	}
	fixed := map[int]int{2: 5, 3: 4, 4: 6, 6: 8, 7: 8, 8: 4}
	// (1) the limit MOSN advertises, framers as the connections configure them
	for _, ty := range c18r6Types {
		full := ty == 0 || ty == 1 || ty == 4 || ty == 0x20 || c.Thorough()
		ls := boundary(L)
		if !full {
			ls = []int{0, 1, fixed[ty], 16384, L - 9, L - 8, L, L + 1}
		}
		for _, l := range ls {
			s.rf("server", "own", ty, 0, c18r6Sid(ty, l%2 == 0), l, 0, 1, -1)
		}
	}
	for _, ty := range []int{0, 1, 4, 5, 0x20} {
		ls := []int{0, 16384, 16385, L - 9, L - 8, L, L + 1}
		if ty == 1 || ty == 5 {
			ls = []int{0, 16384, 16385, L, L + 1}
		}
		for _, l := range ls {
			s.rf("client", "own", ty, 0, c18r6Sid(ty, false), l, 0, 1, -1)
		}
	}
	// (2) other limits through SetMaxReadFrameSize, on both framers: RFC minimum, maximum, clamped values, 0, random
	for _, ty := range c18r6Types {
		for _, l := range boundary(16384) {
			s.rf("server", "set16384", ty, 0, c18r6Sid(ty, l%2 == 1), l, 0, 1, -1)
		}
	}
	for _, cfg := range []string{"set16777215", "set16777216", "set4294967295"} {
		ls := []int{c18r6MaxFrame - 8, c18r6MaxFrame}
		if cfg == "set16777215" {
			ls = []int{c18r6MaxFrame - 9, c18r6MaxFrame - 8, c18r6MaxFrame - 1, c18r6MaxFrame}
		}
		for _, l := range ls {
			s.rf("server", cfg, 0, 0, 1, l, 0, 1, -1)
		}
		s.rf("server", cfg, 6, 0, 0, c18r6MaxFrame, 0, 1, 9)
	}
	for _, l := range []int{0, 1, 8, 9} {
		s.rf("server", "set0", 0x20, 0, 1, l, 0, 1, -1)
		s.rf("client", "set8", 0, 0, 1, l, 0, 1, -1)
	}
	for i := 0; i < c.N(150, 3000); i++ {
		n := 1 + r.Intn(70000)
		ty := c18r6Types[r.Intn(len(c18r6Types))]
		side := "server"
		if r.Chance(30) {
			side = "client"
		}
		fl := 0
		if r.Chance(30) {
			fl = []int{1, 4, 8, 32, 40, 5}[r.Intn(6)]
		}
		s.rf(side, fmt.Sprintf("set%d", n), ty, fl, uint32(r.Intn(3)), n-9+r.Intn(11), r.Intn(256), r.Intn(2), -1)
	}
	// (3) padding at the boundaries: pad length vs remaining payload, small and at the frame size limit
	for _, ty := range []int{0, 1, 5} {
		for _, fl := range []int{8, 8 | 32} {
			if fl == 8|32 && ty != 1 {
				continue
			}
			for l := 0; l <= 12; l++ {
				for _, p := range []int{0, 1, l - 7, l - 6, l - 5, l - 2, l - 1, l, 255} {
					if p >= 0 && p <= 255 {
						s.rf("server", "own", ty, fl, 1, l, p, 1, -1)
					}
				}
			}
			for _, l := range []int{254, 255, 256, 257, 261, 262, L, L + 1} {
				for _, p := range []int{0, 254, 255} {
					if l >= L && p != 255 && !c.Thorough() {
						continue
					}
					s.rf("server", "own", ty, fl, 1, l, p, 1, -1)
				}
			}
		}
	}
	// (4) completeness tests: header and payload cut at every edge
	for _, ty := range []int{0, 4, 6, 0x20} {
		for _, l := range []int{0, 6, 8, 12} {
			for _, cut := range []int{0, 1, 8, 9, 9 + l - 1, 9 + l} {
				s.rf("server", "own", ty, 0, c18r6Sid(ty, false), l, 0, 1, cut)
			}
		}
	}
	s.rf("server", "own", 0, 0, 1, L, 0, 1, 9+L-1)
	s.rf("server", "own", 0, 0, 1, L+1, 0, 1, 9)
	s.rf("server", "own", 0, 0, 1, L+1, 0, 1, 8)
	// (5) stream id and zero-increment tests
	for _, ty := range c18r6Types {
		for _, sid := range []uint32{0, 1, 2} {
			l := fixed[ty]
			s.rf("server", "own", ty, 0, sid, l, 0, 0, -1)
			s.rf("client", "own", ty, 0, sid, l, 0, 1, -1)
			s.rf("server", "own", ty, 1, sid, l, 0, 1, -1)
			s.rf("server", "own", ty, 1, sid, 0, 0, 1, -1)
		}
	}
	runLimitConn(c)
}

// ---- SETTINGS values and WINDOW_UPDATE increments at connection level

type c18r6Ev struct {
	set      bool
	id       uint16
	val, inc uint32
}

func (e c18r6Ev) String() string {
	if e.set {
		return fmt.Sprintf("S%d:%d", e.id, e.val)
	}
	return fmt.Sprintf("W%d", e.inc)
}

func (e c18r6Ev) wire() []byte {
	var b bytes.Buffer
	fr := xh2.NewFramer(&b, nil)
	fr.AllowIllegalWrites = true
	if e.set {
		fr.WriteSettings(xh2.Setting{ID: xh2.SettingID(e.id), Val: e.val})
	} else {
		fr.WriteWindowUpdate(0, e.inc)
	}
	return b.Bytes()
}

func c18r6Conn(c *hx.Ctx, side string, evs []c18r6Ev) {
	var toks []string
	for _, e := range evs {
		toks = append(toks, e.String())
	}
	fc := newFakeConn()
	var sc *mh2.MServerConn
	var cc *mh2.MClientConn
	var fr *mh2.MFramer
	if side == "server" {
		sc = mh2.NewServerConn(fc)
		sc.Init()
		fr = sc.Framer
	} else {
		cc = mh2.NewClientConn(fc)
		cc.WriteInitFrame()
		fr = cc.Framer
	}
	ctx := context.Background()
	var ms, xs []string
	for _, e := range evs {
		w := e.wire()
		// reference: Framer parse, then Setting.Valid
		x := "ok"
		xf, xerr := xh2.NewFramer(nil, bytes.NewReader(w)).ReadFrame()
		if xerr != nil {
			x = c18r6ErrX(xerr, true)
		} else if sf, ok := xf.(*xh2.SettingsFrame); ok {
			sf.ForeachSetting(func(s xh2.Setting) error {
				if err := s.Valid(); err != nil && x == "ok" {
					x = c18r6ErrX(err, true)
				}
				return nil
			})
		}
		xs = append(xs, x)
		data := buffer.NewIoBuffer(len(w))
		data.Write(w)
		var f mh2.Frame
		var err error
		_, panicked := hx.Safe(func() {
			f, _, err = fr.ReadFrame(ctx, data, 0)
			if err == nil {
				if sc != nil {
					_, _, _, _, err = sc.HandleFrame(ctx, f)
				} else {
					_, _, _, _, _, err = cc.HandleFrame(ctx, f)
				}
			}
		})
		m := "ok"
		if panicked {
			m = "panic"
		} else if err != nil {
			m = c18r6ErrM(err)
		}
		ms = append(ms, m)
		if m != "ok" {
			break
		}
	}
	c.Emit("C18", fmt.Sprintf("lim conn %s %s", side, strings.Join(toks, ",")), "m="+strings.Join(ms, ",")+" x="+strings.Join(xs, ","))
	c.Count("lim-conn-" + side + "-" + strings.SplitN(ms[len(ms)-1], ":", 2)[0])
}

func runLimitConn(c *hx.Ctx) {
	r := c.Rng
	edges := []uint32{0, 1, 2, 16383, 16384, 16385, 1<<24 - 2, 1<<24 - 1, 1 << 24, 1<<31 - 2, 1<<31 - 1, 1 << 31, 1<<32 - 1}
	for _, side := range []string{"server", "client"} {
		for id := uint16(1); id <= 7; id++ {
			for _, v := range edges {
				c18r6Conn(c, side, []c18r6Ev{{set: true, id: id, val: v}})
			}
		}
		const room = 1<<31 - 1 - 65535 // what the initial connection send window leaves to 2^31-1
		for _, seq := range [][]uint32{{0}, {1}, {1<<31 - 1}, {room}, {room + 1}, {room - 1, 1}, {room - 1, 1, 1}, {room - 1, 2}, {1, 0},
			{room / 2, room / 2, 1}, {room / 2, room / 2, 2}, {room / 2, room/2 + 1, 1}} {
			var evs []c18r6Ev
			for _, i := range seq {
				evs = append(evs, c18r6Ev{inc: i})
			}
			c18r6Conn(c, side, evs)
		}
		for i := 0; i < c.N(60, 1500); i++ {
			var evs []c18r6Ev
			left := int64(room)
			for k := 1 + r.Intn(5); k > 0; k-- {
				switch r.Intn(5) {
				case 0:
					evs = append(evs, c18r6Ev{set: true, id: uint16(1 + r.Intn(7)), val: edges[r.Intn(len(edges))]})
				case 1:
					evs = append(evs, c18r6Ev{set: true, id: uint16(2 + r.Intn(4)), val: uint32(r.U64())})
				case 2: // exactly to the edge, or one beyond
					if left > 1 {
						inc := left - int64(r.Intn(2)) + int64(r.Intn(2))
						evs = append(evs, c18r6Ev{inc: uint32(inc)})
						left -= inc
					}
				default:
					if left > 1 {
						inc := 1 + int64(r.U64()%uint64(left))
						evs = append(evs, c18r6Ev{inc: uint32(inc)})
						left -= inc
					}
				}
			}
			if len(evs) > 0 {
				c18r6Conn(c, side, evs)
			}
		}
	}
}
