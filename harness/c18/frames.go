//go:build verif

package c18

import (
	"bytes"
	"fmt"

	xh2 "golang.org/x/net/http2"
	mh2 "mosn.io/mosn/pkg/module/http2"
	"mosn.io/pkg/buffer"
	"verif/harness/hx"
)

// ---------------------------------------------------------------------------------------------------------
// frame headers: MFramer.startWrite/endWrite -> reference ReadFrameHeader; reference WriteRawFrame -> MFramer.readFrameHeader

func fhTok(l uint32, t, fl uint8, sid uint32) string { return fmt.Sprintf("%d:%d:%d:%d", l, t, fl, sid) }

var zeros = make([]byte, 1<<24+1)

func runFrameHeaders(c *hx.Ctx) {
	lens := []uint32{0, 1, 8, 9, 255, 256, 16383, 16384, 16385, 65535, 65536, 1 << 20}
	sids := []uint32{0, 1, 2, 3, 255, 256, 65535, 65536, 1<<24 - 1, 1 << 24, 1<<31 - 1, 1 << 31, 1<<31 + 5, 1<<32 - 1}
	m := c.N(400, 4000)
	for k := 0; k < m; k++ {
		l := lens[c.Rng.Intn(len(lens))]
		switch c.Rng.Intn(40) {
		case 0:
			l = 1<<24 - 1
		case 1:
			l = 1 << 24
		case 2, 3, 4, 5:
			l = uint32(c.Rng.Intn(70000))
		}
		t := uint8(c.Rng.Intn(256))
		if c.Rng.Intn(2) == 0 {
			t = uint8(c.Rng.Intn(10))
		}
		fl := uint8(c.Rng.Intn(256))
		sid := sids[c.Rng.Intn(len(sids))]
		if c.Rng.Intn(3) == 0 {
			sid = uint32(c.Rng.U64())
		}
		payload := zeros[:l]
		// MOSN writes, the reference reads
		w := newFakeConn()
		cc := mh2.NewClientConn(w)
		err := cc.Framer.VerifWriteRaw(mh2.FrameType(t), mh2.Flags(fl), sid, payload)
		out := ""
		if err != nil {
			if err == mh2.ErrFrameTooLarge {
				out = "toolarge -"
			} else {
				out = "error -"
			}
		} else {
			b := w.all()
			hd := b
			if len(hd) > 9 {
				hd = hd[:9]
			}
			out = hx.Hex(hd)
			if len(b) != 9+int(l) {
				out += ":badlen"
			}
			if xf, err := xh2.ReadFrameHeader(bytes.NewReader(b)); err == nil {
				out += " x=" + fhTok(xf.Length, uint8(xf.Type), uint8(xf.Flags), xf.StreamID)
			} else {
				out += " x=err"
			}
		}
		// the reference writes, MOSN reads
		var xb bytes.Buffer
		xfr := xh2.NewFramer(&xb, nil)
		xfr.AllowIllegalWrites = true
		if err := xfr.WriteRawFrame(xh2.FrameType(t), xh2.Flags(fl), sid, payload); err != nil {
			out += " r=xtoolarge"
		} else {
			mf, err := cc.Framer.VerifReadFrameHeader(buffer.NewIoBufferBytes(xb.Bytes()), 0)
			if err != nil {
				out += " r=err"
			} else {
				out += " r=" + fhTok(mf.Length, uint8(mf.Type), uint8(mf.Flags), mf.StreamID)
			}
			if hb := xb.Bytes(); len(hb) >= 9 {
				out += " xw=" + hx.Hex(hb[:9])
			}
		}
		c.Emit("C18", fmt.Sprintf("fh %d %d %d %d", l, t, fl, sid), out)
		c.Count("fh")
		if l >= 1<<24-1 {
			c.Count("fh.len>=2^24-1")
		}
		if sid >= 1<<31 {
			c.Count("fh.reserved-bit")
		}
	}
	// arbitrary bytes
	m = c.N(300, 6000)
	for k := 0; k < m; k++ {
		n := c.Rng.Intn(14)
		if c.Rng.Intn(3) != 0 {
			n = 9 + c.Rng.Intn(4)
		}
		p := c.Rng.Bytes(n)
		cc := mh2.NewClientConn(newFakeConn())
		out := ""
		mf, err := cc.Framer.VerifReadFrameHeader(buffer.NewIoBufferBytes(p), 0)
		if err == mh2.ErrAGAIN {
			out = "again"
		} else if err != nil {
			out = "err"
		} else {
			out = fhTok(mf.Length, uint8(mf.Type), uint8(mf.Flags), mf.StreamID)
		}
		if xf, err := xh2.ReadFrameHeader(bytes.NewReader(p)); err == nil {
			out += " x=" + fhTok(xf.Length, uint8(xf.Type), uint8(xf.Flags), xf.StreamID)
		} else {
			out += " x=short"
		}
		c.Emit("C18", "fhdec "+hx.Hex(p), out)
		c.Count("fhdec")
	}
}
