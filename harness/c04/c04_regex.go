//go:build verif

package c04

import (
	"regexp"
	"strings"

	"mosn.io/mosn/pkg/types"
	"verif/harness/hx"
)

// Regular-expression matchers (stream `eg`): every matcher kind that compiles a configured pattern
// (variable matcher `regex`, path `regex` route, header matcher with `regex: true` through CreateHTTPHeaderMatcher and
// through CreateCommonHeaderMatcher, the lone `service` matcher of an RPC rule) x a pattern universe (pure literals,
// literals with anchors, dot / dot-star, character classes, alternations, groups, ? + *, an escaped meta character) x the
// request values {equal to the pattern's core literal, carrying it as prefix / suffix / infix, not containing it, a
// proper prefix of it, empty, unset}.  regexp.MatchString is UNANCHORED: a pattern may match anywhere in the value.

type c04rPat struct {
	pat   string
	cores []string // literals the pattern is built around: the request values are derived from them
}

var c04rPatterns = []c04rPat{
	// pure literals (no meta character)
	{"/v1/", []string{"/v1/"}}, {"v1", []string{"v1"}}, {"GET", []string{"GET"}}, {"s1", []string{"s1"}}, {"abc", []string{"abc"}},
	{"a", []string{"a"}}, {"/api/v1/users", []string{"/api/v1/users"}}, {"q=1", []string{"q=1"}}, {"aab", []string{"aab", "aaab", "ab"}},
	// literals with anchors
	{"^/v1/", []string{"/v1/"}}, {"/v1/$", []string{"/v1/"}}, {"^v1$", []string{"v1"}}, {"^GET$", []string{"GET"}}, {"^s1", []string{"s1"}},
	{"bc$", []string{"bc", "abc"}}, {"^$", []string{"a"}}, {"^", []string{"a"}}, {"$", []string{"a"}},
	// dot, dot-star
	{"^/v1/.*", []string{"/v1/"}}, {".*v1.*", []string{"v1"}}, {"v.1", []string{"v.1", "vx1", "v1"}}, {"a.cc", []string{"a.cc", "axcc", "acc"}},
	{"^a.*c$", []string{"ac", "abc", "abcb"}}, {".", []string{"a"}}, {"^.$", []string{"a", "ab"}}, {".*", []string{"a"}},
	// character classes
	{"^v[12]$", []string{"v1", "v2", "v3"}}, {"[a-c]+", []string{"abc", "xyz", "b"}}, {"/v[0-9]+/", []string{"/v1/", "/v12/", "/v/", "/vx/"}},
	{"[^/]+$", []string{"a", "/", "/a", "a/"}}, {"^[^/]*$", []string{"a", "/", "a/b"}}, {"[a.]c", []string{"ac", ".c", "bc"}},
	// alternation and groups
	{"GET|POST", []string{"GET", "POST", "PUT"}}, {"^(GET|POST)$", []string{"GET", "POST", "PUT"}}, {"v1|v2", []string{"v1", "v2", "v3"}},
	{"^(a|b)c?$", []string{"a", "bc", "ac", "c", "abc"}}, {"^v1|v2$", []string{"v1", "v2", "v1v3", "v3v2"}}, {"a(b|)c", []string{"abc", "ac", "adc"}},
	{"(a|b)(c|d)", []string{"ac", "bd", "ab", "cd"}}, {"a|", []string{"a", "b"}},
	// ? + *
	{"/api/?v1", []string{"/api/v1", "/apiv1", "/api//v1"}}, {"ab*c", []string{"ac", "abc", "abbbc", "adc"}}, {"^(ab)+$", []string{"ab", "abab", "aba", "a"}},
	{"a+b?", []string{"a", "aab", "b"}}, {"^a*$", []string{"a", "aaa", "ab"}}, {"(a*)*b", []string{"b", "aab", "aa"}}, {"(a|ab)(c|bcd)$", []string{"abcd", "ac", "abc", "abd"}},
	// escaped meta characters
	{"a\\.cc", []string{"a.cc", "axcc"}}, {"^/v1\\?q$", []string{"/v1?q", "/v1"}},
}

func c04rIsLiteral(p string) bool { return p != "" && regexp.QuoteMeta(p) == p }

// c04rPatternClass: the syntactic class of a configured pattern (distribution printed into the evidence)
func c04rPatternClass(p string) string {
	if _, err := regexp.Compile(p); err != nil {
		return "does-not-compile"
	}
	if c04rIsLiteral(p) {
		return "pure-literal"
	}
	core := strings.TrimSuffix(strings.TrimPrefix(p, "^"), "$")
	if core == "" || c04rIsLiteral(core) {
		return "anchored-literal"
	}
	switch {
	case strings.ContainsAny(p, "|("):
		return "alternation-or-group"
	case strings.Contains(p, "["):
		return "class"
	case strings.Contains(p, "\\"):
		return "escape"
	case strings.ContainsAny(p, "*+?"):
		return "repetition"
	}
	return "dot"
}

// c04rValues: request values derived from the literals a pattern is built around
func c04rValues(p c04rPat) []string {
	seen := map[string]bool{}
	var out []string
	add := func(tag, v string) {
		if !seen[v] {
			seen[v] = true
			out = append(out, v)
		}
	}
	for _, l := range p.cores {
		add("equal", l)
		add("prefix", l+"x")
		add("suffix", "x"+l)
		add("infix", "x"+l+"y")
		add("infix", "/api"+l+"users")
		add("twice", l+l)
		if len(l) > 1 {
			add("proper-prefix", l[:len(l)-1])
			add("proper-suffix", l[1:])
			add("interleaved", l[:1]+"-"+l[1:])
		}
		add("upper", strings.ToUpper(l))
	}
	add("absent", "zzz")
	add("empty", "")
	add("pattern-text", p.pat) // the text of the pattern itself as the value
	return out
}

func c04rValueClass(p c04rPat, v string) string {
	switch {
	case v == "":
		return "empty"
	case v == p.pat && !c04rIsLiteral(p.pat):
		return "pattern-text"
	}
	for _, l := range p.cores {
		switch {
		case v == l:
			return "equal"
		case strings.HasPrefix(v, l) && strings.HasSuffix(v, l):
			return "twice"
		case strings.HasPrefix(v, l):
			return "core-is-prefix"
		case strings.HasSuffix(v, l):
			return "core-is-suffix"
		case strings.Contains(v, l):
			return "core-is-infix"
		}
	}
	return "core-absent"
}

type c04rKind struct {
	tag  string
	mk   func(p string) rule
	req  func(v *string) []request
	slow bool // thorough tier only
}

func c04rReqVar(name string, kinds string) func(v *string) []request {
	return func(v *string) []request {
		var out []request
		for i := 0; i < len(kinds); i++ {
			rq := newReq(kinds[i])
			rq.vars[types.VarHost], rq.vars[types.VarPath], rq.vars[types.VarMethod] = sp("x.org"), sp("/a"), sp("GET")
			rq.pseudo = [3]string{"x.org", "/a", "GET"}
			rq.vars[name] = v
			if v != nil && name == types.VarPath {
				rq.pseudo[1] = *v
			}
			out = append(out, rq)
		}
		return out
	}
}

func c04rReqHdr(name string, kinds string) func(v *string) []request {
	return func(v *string) []request {
		var out []request
		for i := 0; i < len(kinds); i++ {
			rq := newReq(kinds[i])
			rq.vars[types.VarHost], rq.vars[types.VarPath], rq.vars[types.VarMethod] = sp("x.org"), sp("/a"), sp("GET")
			rq.pseudo = [3]string{"x.org", "/a", "GET"}
			rq.add("k2", "v1")
			if v != nil {
				rq.add(name, *v)
			}
			out = append(out, rq)
		}
		return out
	}
}

var c04rKinds = []c04rKind{
	{"variable", func(p string) rule { return rule{vars: []varM{{name: types.VarPath, regex: p}}} }, c04rReqVar(types.VarPath, "c"), false},
	{"variable-value-and-regex", func(p string) rule { return rule{vars: []varM{{name: types.VarPath, value: "/other", regex: p}}} }, c04rReqVar(types.VarPath, "c"), true},
	{"variable-or-group", func(p string) rule {
		return rule{vars: []varM{{name: types.VarMethod, value: "POST", model: "or"}, {name: types.VarQueryString, regex: p, model: "and"}, {name: types.VarMethod, value: "GET"}}}
	}, c04rReqVar(types.VarQueryString, "h"), false},
	{"path-regex", func(p string) rule { return rule{regex: p} }, c04rReqVar(types.VarPath, "c"), false},
	{"http-header", func(p string) rule { return rule{prefix: "/", hdrs: []hdrM{{"k1", p, true}}} }, c04rReqHdr("k1", "ch2"), false},
	{"http-header-two", func(p string) rule { return rule{path: "/a", hdrs: []hdrM{{"k2", "v1", false}, {"K1", p, true}}} }, c04rReqHdr("k1", "h"), true},
	{"rpc-header", func(p string) rule { return rule{hdrs: []hdrM{{"k1", p, true}}} }, c04rReqHdr("k1", "cb"), false},
	{"rpc-header-two", func(p string) rule { return rule{hdrs: []hdrM{{"k1", p, true}, {"k2", "^v1$", true}}} }, c04rReqHdr("k1", "b"), true},
	{"rpc-service", func(p string) rule { return rule{hdrs: []hdrM{{"service", p, true}}} }, c04rReqHdr("service", "c"), false},
}

func c04rEnumerateRegex(c *hx.Ctx, thorough bool) {
	for _, p := range c04rPatterns {
		vals := c04rValues(p)
		for _, k := range c04rKinds {
			if k.slow && !thorough {
				continue
			}
			// the rule under test, then a literal rule that must NOT be reached when the first one holds, then a catch-all
			vhs := []vhost{{domains: []string{"*"}, rules: []rule{k.mk(p.pat), {vars: []varM{{name: types.VarMethod, value: "GET"}}}, {}}}}
			b := buildReal(vhs)
			c.Count("enum.regex=" + k.tag)
			for _, v := range vals {
				v := v
				for _, rq := range k.req(&v) {
					emit(c, "eg", vhs, b, rq)
					c.Count("regex.value=" + c04rValueClass(p, v))
				}
			}
			for _, rq := range k.req(nil) {
				emit(c, "eg", vhs, b, rq)
				c.Count("regex.value=unset")
			}
		}
	}
}
