//go:build verif

// Package c04: route selection. Real router.NewRouters + MatchRoute / MatchAllRoutes on generated
// (configuration, request) pairs; the virtual host alone is observed through a twin configuration whose virtual
// hosts each carry one catch-all rule.  One case line per pair (see Drive/C04.lean for the token grammar).
package c04

import (
	"context"
	"fmt"
	nethttp "net/http"
	"regexp"
	"sort"
	"strconv"
	"strings"
	"sync"
	"time"

	"github.com/valyala/fasthttp"
	"mosn.io/api"
	"mosn.io/mosn/pkg/cel"
	"mosn.io/mosn/pkg/cel/attribute"
	"mosn.io/mosn/pkg/cel/extract"
	v2 "mosn.io/mosn/pkg/config/v2"
	mlog "mosn.io/mosn/pkg/log"
	"mosn.io/mosn/pkg/protocol"
	mhttp2 "mosn.io/mosn/pkg/protocol/http2"
	"mosn.io/mosn/pkg/protocol/xprotocol/bolt"
	"mosn.io/mosn/pkg/router"
	"mosn.io/mosn/pkg/types"
	plog "mosn.io/pkg/log"
	phttp "mosn.io/pkg/protocol/http"
	"mosn.io/pkg/variable"
	"verif/harness/hx"
)

func init() { hx.Register("C04", Run) }

// ---------------------------------------------------------------- case description

type hdrM struct {
	name, value string
	regex       bool
}
type varM struct{ name, value, regex, model string }
type rule struct {
	prefix, path, regex string
	vars                []varM
	hdrs                []hdrM
	dsl                 []string
}
type vhost struct {
	domains []string
	rules   []rule
}
type kv struct{ k, v string }

// request: the variable context plus the header map. kind selects the api.HeaderMap implementation that carries the
// headers: 'c' protocol.CommonHeader, 'b' a bolt request frame (header.BytesHeader, the xprotocol map); both compare names exactly,
// 'h' the HTTP/1 map over fasthttp, '2' the HTTP/2 request map (both compare names ignoring case; a name may repeat).
type request struct {
	vars   map[string]*string // nil pointer = variable left unset
	kind   byte
	hdrs   []kv      // in the order they are added to the map
	pseudo [3]string // HTTP/2 request line: authority, path, method
}

func newReq(kind byte) request {
	return request{vars: map[string]*string{}, kind: kind}
}

// add: a header as the protocol's decoder would store it (the exact maps hold one value per name)
func (rq *request) add(k, v string) {
	if rq.kind == 0 {
		rq.kind = 'c'
	}
	if rq.kind == 'c' || rq.kind == 'b' {
		for i := range rq.hdrs {
			if rq.hdrs[i].k == k {
				rq.hdrs[i].v = v
				return
			}
		}
	}
	if rq.kind == 'h' && v == "" {
		// fasthttp keeps an empty value that is appended into a recycled slot as nil and then reports the header as
		// absent (the quirk mosn.io/pkg's RequestHeader.Set works around with a placeholder): a repeated name carries a
		// non-empty value here, the first occurrence is stored with that Set (see mkHeaders)
		for _, e := range rq.hdrs {
			if strings.EqualFold(e.k, k) {
				v = "-"
			}
		}
	}
	rq.hdrs = append(rq.hdrs, kv{k, v})
}

var pseudoNames = [3]string{":authority", ":path", ":method"}

// mkHeaders builds the real header map of the request's kind
func mkHeaders(rq request) api.HeaderMap {
	switch rq.kind {
	case 'b':
		h := &bolt.Request{} // what the bolt decoder hands to the router: header.BytesHeader inside the request frame
		for _, e := range rq.hdrs {
			h.Set(e.k, e.v)
		}
		return h
	case 'h':
		h := phttp.RequestHeader{RequestHeader: &fasthttp.RequestHeader{}}
		seen := map[string]bool{}
		for _, e := range rq.hdrs {
			if f := strings.ToLower(e.k); !seen[f] {
				seen[f] = true
				h.Set(e.k, e.v) // keeps an empty value observable
			} else {
				h.Add(e.k, e.v) // a repeated header line is appended
			}
		}
		return h
	case '2':
		hd := nethttp.Header{}
		for _, e := range rq.hdrs {
			hd.Add(e.k, e.v) // canonical key, values in arrival order (what the HTTP/2 server does)
		}
		return mhttp2.NewReqHeader(&nethttp.Request{Header: hd, Host: rq.pseudo[0], RequestURI: rq.pseudo[1], Method: rq.pseudo[2]})
	}
	h := protocol.CommonHeader{}
	for _, e := range rq.hdrs {
		h[e.k] = e.v
	}
	return h
}

const unset = "!"

func tok(s string) string {
	if s == "" {
		return "%"
	}
	var sb strings.Builder
	for i := 0; i < len(s); i++ {
		b := s[i]
		switch {
		case b >= 'a' && b <= 'z', b >= 'A' && b <= 'Z', b >= '0' && b <= '9',
			strings.IndexByte("._*/:[]-^$()+?|\\", b) >= 0:
			sb.WriteByte(b)
		default:
			fmt.Fprintf(&sb, "%%%02x", b)
		}
	}
	return sb.String()
}

// regex patterns are numbered per case
type rxTab struct {
	ids  map[string]int
	pats []string
	dids map[string]int // DSL expressions, numbered per case
	dsls []string
}

func (t *rxTab) dslID(e string) (int, bool) {
	if t.dids == nil {
		t.dids = map[string]int{}
	}
	i, ok := t.dids[e]
	if !ok {
		i = len(t.dsls) + 1
		t.dids[e] = i
		t.dsls = append(t.dsls, e)
	}
	_, _, err := dslCompiler.Compile(e)
	return i, err == nil
}

// the CEL oracle: the same compiler and attribute bag the DSL rule uses, evaluated by the harness
var dslCompiler = cel.NewExpressionBuilder(extract.Attributemanifest, cel.CompatCEXL)

func dslEval(e string, rq request) string {
	ex, _, err := dslCompiler.Compile(e)
	if err != nil {
		return ""
	}
	out := "e"
	hx.Safe(func() {
		ctx := mkCtx(rq)
		hd := mkHeaders(rq)
		bag := attribute.NewMutableBag(extract.ExtractAttributes(ctx, hd, nil, nil, nil, nil, time.Now()))
		bag.Set(extract.KContext, ctx)
		res, err := ex.Evaluate(bag)
		if err != nil {
			return
		}
		if b, ok := res.(bool); ok {
			if b {
				out = "t"
			} else {
				out = "f"
			}
		} else {
			out = "n" // not a boolean: the rule's type assertion panics
		}
	})
	return out
}

func (t *rxTab) id(p string) (int, bool) {
	if i, ok := t.ids[p]; ok {
		_, err := regexp.Compile(p)
		return i, err == nil
	}
	i := len(t.pats) + 1
	t.ids[p] = i
	t.pats = append(t.pats, p)
	_, err := regexp.Compile(p)
	return i, err == nil
}

func (t *rxTab) ref(p string) string {
	if p == "" {
		return unset
	}
	i, ok := t.id(p)
	return fmt.Sprintf("%d:%s", i, b01(ok))
}

func b01(b bool) string {
	if b {
		return "1"
	}
	return "0"
}

func encodeCfg(vhs []vhost, t *rxTab) string {
	var p []string
	p = append(p, strconv.Itoa(len(vhs)))
	for _, vh := range vhs {
		p = append(p, "vh", strconv.Itoa(len(vh.domains)))
		for _, d := range vh.domains {
			p = append(p, tok(d))
		}
		p = append(p, strconv.Itoa(len(vh.rules)))
		for _, r := range vh.rules {
			p = append(p, "r", tok(r.prefix), tok(r.path), t.ref(r.regex), strconv.Itoa(len(r.vars)))
			for _, v := range r.vars {
				p = append(p, tok(v.name), tok(v.value), t.ref(v.regex), tok(v.model))
			}
			p = append(p, strconv.Itoa(len(r.hdrs)))
			for _, h := range r.hdrs {
				id, ok := 0, false
				if h.regex {
					id, ok = t.id(h.value)
				}
				p = append(p, tok(h.name), tok(h.value), b01(h.regex), strconv.Itoa(id), b01(ok))
			}
			p = append(p, strconv.Itoa(len(r.dsl)))
			for _, e := range r.dsl {
				if e == "" {
					p = append(p, "1", "0", "0")
				} else {
					id, ok := t.dslID(e)
					p = append(p, "0", strconv.Itoa(id), b01(ok))
				}
			}
		}
	}
	return strings.Join(p, " ")
}

func sortedKeys[V any](m map[string]V) []string {
	var ks []string
	for k := range m {
		ks = append(ks, k)
	}
	sort.Strings(ks)
	return ks
}

func encodeReq(rq request, t *rxTab) string {
	var p []string
	kind := rq.kind
	if kind == 0 {
		kind = 'c'
	}
	p = append(p, "req", string(kind), strconv.Itoa(len(rq.vars)))
	inputs := map[string]bool{"": true}
	for _, k := range sortedKeys(rq.vars) {
		v := rq.vars[k]
		if v == nil {
			p = append(p, tok(k), unset)
		} else {
			p = append(p, tok(k), tok(*v))
			inputs[*v] = true
		}
	}
	p = append(p, strconv.Itoa(len(rq.hdrs)))
	for _, e := range rq.hdrs {
		p = append(p, tok(e.k), tok(e.v))
		inputs[e.v] = true
	}
	if kind == '2' {
		p = append(p, "ps", "3")
		for i, n := range pseudoNames {
			p = append(p, tok(n), tok(rq.pseudo[i]))
			inputs[rq.pseudo[i]] = true
		}
	} else {
		p = append(p, "ps", "0")
	}
	// the regex truth table: Go regexp on exactly the (pattern, input) pairs this case can ask for
	var rows []string
	for i, pat := range t.pats {
		re, err := regexp.Compile(pat)
		if err != nil {
			continue
		}
		for _, in := range sortedKeys(inputs) {
			rows = append(rows, strconv.Itoa(i+1), tok(in), b01(re.MatchString(in)))
		}
	}
	p = append(p, "rx", strconv.Itoa(len(rows)/3))
	p = append(p, rows...)
	var drows []string
	for i, e := range t.dsls {
		if v := dslEval(e, rq); v != "" {
			drows = append(drows, strconv.Itoa(i+1), v)
		}
	}
	p = append(p, "dx", strconv.Itoa(len(drows)/2))
	p = append(p, drows...)
	// the pattern texts: the driver parses the ones inside the reference regex subset (Model/RouteRegex.lean) and
	// evaluates the reference matcher on every row of the truth table
	p = append(p, "pt", strconv.Itoa(len(t.pats)))
	for i, pat := range t.pats {
		p = append(p, strconv.Itoa(i+1), tok(pat))
	}
	return strings.Join(p, " ")
}

// ---------------------------------------------------------------- the real code

func toV2(vhs []vhost, catchAll bool) *v2.RouterConfiguration {
	cfg := &v2.RouterConfiguration{}
	for i, vh := range vhs {
		x := v2.VirtualHost{Name: fmt.Sprintf("v%d", i), Domains: append([]string{}, vh.domains...)}
		rules := vh.rules
		if catchAll {
			rules = []rule{{}}
		}
		for j, r := range rules {
			m := v2.RouterMatch{Prefix: r.prefix, Path: r.path, Regex: r.regex}
			for _, h := range r.hdrs {
				m.Headers = append(m.Headers, v2.HeaderMatcher{Name: h.name, Value: h.value, Regex: h.regex})
			}
			for _, v := range r.vars {
				m.Variables = append(m.Variables, v2.VariableMatcher{Name: v.name, Value: v.value, Regex: v.regex, Model: v.model})
			}
			for _, e := range r.dsl {
				m.DslExpressions = append(m.DslExpressions, v2.DslExpressionMatcher{Expression: e})
			}
			x.Routers = append(x.Routers, v2.Router{RouterConfig: v2.RouterConfig{
				Match: m,
				Route: v2.RouteAction{RouterActionConfig: v2.RouterActionConfig{ClusterName: fmt.Sprintf("v%dr%d", i, j)}},
			}})
		}
		cfg.VirtualHosts = append(cfg.VirtualHosts, x)
	}
	return cfg
}

func errTok(err error) string {
	switch err {
	case router.ErrNilRouterConfig:
		return "nilConfig"
	case router.ErrNoVirtualHost:
		return "noVirtualHost"
	case router.ErrNoVirtualHostPort:
		return "noVirtualHostPort"
	case router.ErrDuplicateVirtualHost:
		return "duplicateVirtualHost"
	case router.ErrDuplicateHostPort:
		return "duplicateHostPort"
	}
	if strings.Contains(err.Error(), "error parsing regexp") {
		return "badRegex"
	}
	if strings.Contains(err.Error(), "variable matcher") {
		return "badVariable"
	}
	return "otherError"
}

func mkCtx(rq request) context.Context {
	ctx := variable.NewVariableContext(context.Background())
	for k, v := range rq.vars {
		if v != nil {
			if err := variable.SetString(ctx, k, *v); err != nil {
				panic("cannot set variable " + k + ": " + err.Error())
			}
		}
	}
	return ctx
}

func routeName(ctx context.Context, r api.Route) string {
	if r == nil {
		return "none"
	}
	rr := r.RouteRule()
	cn := rr.ClusterName(ctx) // "v<i>r<j>"
	vn := rr.VirtualHost().Name()
	if !strings.HasPrefix(cn, vn+"r") {
		return "mismatch:" + vn + "/" + cn
	}
	return cn[1:len(vn)] + "." + cn[len(vn)+1:]
}

type built struct {
	full, twin types.Routers
	err        string
	concurrent bool // also look the request up from several goroutines at once and demand the same answers
}

func buildReal(vhs []vhost) built {
	var b built
	full, err := router.NewRouters(toV2(vhs, false))
	if err != nil {
		b.err = errTok(err)
		return b
	}
	twin, err := router.NewRouters(toV2(vhs, true))
	if err != nil {
		b.err = "twin:" + errTok(err)
		return b
	}
	b.full, b.twin = full, twin
	return b
}

func observe(b built, rq request) string {
	if b.err != "" {
		return b.err
	}
	var out string
	msg, bad := hx.Safe(func() {
		hd := mkHeaders(rq)
		ctx := mkCtx(rq)
		vh := "-1"
		if r := b.twin.MatchRoute(ctx, hd); r != nil {
			vh = strings.TrimPrefix(r.RouteRule().VirtualHost().Name(), "v")
		}
		ctx = mkCtx(rq)
		one := routeName(ctx, b.full.MatchRoute(ctx, hd))
		ctx = mkCtx(rq)
		var all []string
		for _, r := range b.full.MatchAllRoutes(ctx, hd) {
			all = append(all, routeName(ctx, r))
		}
		if len(all) == 0 {
			all = []string{"-"}
		}
		out = fmt.Sprintf("ok %s %s %s", vh, one, strings.Join(all, ","))
		if b.concurrent {
			const g = 6
			res := make([]string, g)
			var wg sync.WaitGroup
			for i := 0; i < g; i++ {
				wg.Add(1)
				go func(i int) {
					defer wg.Done()
					defer func() {
						if recover() != nil {
							res[i] = "panic"
						}
					}()
					cx := mkCtx(rq)
					h2 := mkHeaders(rq) // a map per goroutine: fasthttp's Peek writes a scratch buffer
					res[i] = routeName(cx, b.full.MatchRoute(cx, h2))
				}(i)
			}
			wg.Wait()
			for _, x := range res {
				if x != one {
					out = "nondeterministic " + one + " vs " + x
				}
			}
		}
	})
	if bad {
		_ = msg
		return "panic"
	}
	return out
}

func emit(c *hx.Ctx, kind string, vhs []vhost, b built, rq request) {
	t := &rxTab{ids: map[string]int{}}
	cs := encodeCfg(vhs, t)
	rs := encodeReq(rq, t)
	impl := observe(b, rq)
	c.Emit("C04", kind+" "+cs+" "+rs, impl)
	for _, pat := range t.pats {
		c.Count("pattern=" + c04rPatternClass(pat))
	}
	f := strings.Fields(impl)
	switch {
	case f[0] != "ok":
		c.Count("result=" + f[0])
	case f[1] == "-1":
		c.Count("result=no-vhost")
	case f[2] == "none":
		c.Count("result=vhost-no-route")
	default:
		c.Count("result=route")
		if f[3] != f[2] {
			c.Count("result=several-rules-match")
		}
	}
	k := rq.kind
	if k == 0 {
		k = 'c'
	}
	c.Count("map=" + map[byte]string{'c': "CommonHeader", 'b': "BytesHeader", 'h': "http1", '2': "http2"}[k])
}

// ---------------------------------------------------------------- generators

var labels = []string{"a", "b", "cc"}
var ports = []string{"", ":80", ":8080", ":*"}

func mixCase(r *hx.Rng, s string) string {
	if !r.Chance(25) {
		return s
	}
	b := []byte(s)
	for i := range b {
		if b[i] >= 'a' && b[i] <= 'z' && r.Bool() {
			b[i] -= 32
		}
	}
	return string(b)
}

func genName(r *hx.Rng, min, max int) string {
	n := min + r.Intn(max-min+1)
	var p []string
	for i := 0; i < n; i++ {
		p = append(p, r.PickS(labels))
	}
	return strings.Join(p, ".")
}

func genDomain(r *hx.Rng) string {
	host := ""
	switch k := r.Intn(100); {
	case k < 40: // exact
		host = genName(r, 1, 3)
	case k < 80: // wildcard suffix, overlapping on purpose
		switch r.Intn(4) {
		case 0:
			host = "*." + genName(r, 1, 2)
		case 1:
			host = "*" + genName(r, 1, 2) // no leading dot: "*a.cc"
		case 2:
			host = "*.cc"
		default:
			host = "*." + genName(r, 2, 3)
		}
	case k < 88:
		host = "*" // with a port below: "*:80" is a wildcard with empty suffix, "*"/"*:*" the default
	case k < 92:
		host = r.PickS([]string{"[::1]", "[a.cc]", "a.cc.", "", "-"})
	default: // malformed
		return r.PickS([]string{"a*.cc", "", ":", "a:b:c", "::1", "[::1", "*a*", "a.*", "x]:80", "[::1]x:80", "*:", ":80", ":*"})
	}
	return mixCase(r, host) + r.PickS(ports)
}

var prefixes = []string{"/", "/a", "/a/b", "/A", "/b"}
var paths = []string{"/a", "/a/b", "/A/B", "/", "/b"}
var pathRegexes = []string{"^/a.*", "/b$", "^/[ab]+/c$", ".*", "^$", "b", "/a/", "a/b", "/b", "^/a$", "/(a|b)/c", "/ab?/c", "^/a/[^/]+$"}
var hdrRegexes = []string{"^v[12]$", "v.*", "^$", ".*", "v1", "v", "1", "^v1", "v2$", "v1|v3", "GET", "s1", "s", "^(s1|s2)$", "b"}
var varRegexes = []string{"^/a", "^G", "q=", ".*", "^$", "/a", "a/b", "/b", "GET", "ET", "q=1", "http", "a.cc", "cc", "(GET|POST)", "^/a/b$", "P?OST", "ht+ps?$", "[a-c]+"}

// configured header names: lower case, mixed case, all upper case, the RPC key in both cases, a pseudo header
var cfgHdrNames = []string{"k1", "k1", "k2", "K1", "Service-Name", "Service-Name", "service-name", "SERVICE-NAME", "X-Tag", ":authority"}

// caseVariants: the spellings under which a request may carry a configured name
func caseVariants(n string) []string {
	out := []string{n}
	for _, v := range []string{strings.ToLower(n), strings.ToUpper(n), strings.Title(strings.ToLower(n))} {
		dup := false
		for _, o := range out {
			dup = dup || o == v
		}
		if !dup {
			out = append(out, v)
		}
	}
	return out
}

func genHdrs(r *hx.Rng, http bool) []hdrM {
	var hs []hdrM
	n := r.Pick([]int{0, 0, 0, 1, 1, 2, 3})
	for i := 0; i < n; i++ {
		switch k := r.Intn(100); {
		case k < 35:
			hs = append(hs, hdrM{r.PickS(cfgHdrNames), r.PickS([]string{"v1", "v2", ""}), false})
		case k < 55:
			hs = append(hs, hdrM{r.PickS(append([]string{"service", "Service"}, cfgHdrNames...)), r.PickS(hdrRegexes), true})
		case k < 60:
			hs = append(hs, hdrM{"k1", "v(", true}) // does not compile: MOSN ignores the matcher
		case k < 80:
			// `Method` is not the method matcher: it is an ordinary header matcher on a header of that name
			hs = append(hs, hdrM{r.PickS([]string{"method", "method", "method", "Method"}), r.PickS([]string{"GET", "POST"}), r.Chance(20)})
		default:
			hs = append(hs, hdrM{r.PickS([]string{"service", "service", "Service"}), r.PickS([]string{"s1", "s2", ".*", ""}), false})
		}
	}
	return hs
}

// boolean CEL expressions over the request (plus an empty one and one that does not compile: both are skipped)
var dslPool = []string{
	`request.method == "GET"`,
	`request.method == "POST"`,
	`conditional((request.method == "GET") && (request.host == "a.cc"),true,false)`,
	`request.headers["k1"] == "v1"`,
	`conditional((request.headers["k2"] == "v1"),true,false)`,
	`request.host == "a.cc" || request.host == "b.a.cc:80"`,
	`request.path == "/a"`,
	`true`,
	`false`,
	``,
	`request.method == `,
	`request.method`, // compiles, but is not a boolean
}

var varNames = []string{types.VarPath, types.VarMethod, types.VarQueryString, types.VarScheme, types.VarHost, "verif_undefined_variable"}

func genRule(c *hx.Ctx, r *hx.Rng) rule {
	var x rule
	switch k := r.Intn(100); {
	case k < 22:
		x.prefix = r.PickS(prefixes)
		x.hdrs = genHdrs(r, true)
		c.Count("rule=prefix")
	case k < 40:
		x.path = r.PickS(paths)
		x.hdrs = genHdrs(r, true)
		c.Count("rule=path")
	case k < 58:
		x.regex = r.PickS(pathRegexes)
		x.hdrs = genHdrs(r, true)
		c.Count("rule=regex")
	case k < 76:
		n := 1 + r.Intn(3)
		for i := 0; i < n; i++ {
			v := varM{name: r.PickS(varNames)}
			switch r.Intn(4) {
			case 0:
				v.regex = r.PickS(varRegexes)
			case 1:
				v.regex = r.PickS([]string{"^/a", "T$", "GE", "GET", "/a"})
				v.value = "GET" // regex wins over value
			case 2:
				v.value = r.PickS([]string{"/a", "GET", "POST", "q=1", "http", "a.cc"})
			default:
				if r.Chance(15) {
					// neither value nor regex: the item can never hold
				} else {
					v.value = r.PickS([]string{"/a/b", "GET", "a.cc:80"})
				}
			}
			v.model = r.PickS([]string{"", "", "and", "or", "OR", "And"})
			if r.Chance(2) { // a matcher ParseToVariableMatchItem rejects: the configuration must be refused
				if r.Bool() {
					v.regex = "^/a("
				} else {
					v.model = "xor"
				}
				c.Count("rule=bad-variable-matcher")
			}
			x.vars = append(x.vars, v)
		}
		if r.Chance(30) {
			x.hdrs = genHdrs(r, false) // ignored by a variable rule
		}
		c.Count("rule=variable")
	case k < 86:
		n := 1 + r.Intn(3)
		for i := 0; i < n; i++ {
			x.dsl = append(x.dsl, r.PickS(dslPool))
		}
		if r.Chance(30) {
			x.hdrs = genHdrs(r, false) // ignored by a DSL rule
		}
		c.Count("rule=dsl")
	default:
		switch r.Intn(6) {
		case 0: // catch-all
		case 1:
			x.hdrs = []hdrM{{r.PickS([]string{"service", "service", "Service"}), r.PickS([]string{"s1", "s2", ".*", ""}), false}}
		case 2:
			x.hdrs = []hdrM{{r.PickS([]string{"service", "service", "SERVICE"}), r.PickS([]string{"^s[12]$", ".*", "s.*", "s1", "s", "b", "^s1", "s1|s2"}), true}}
		default:
			x.hdrs = genHdrs(r, false)
		}
		c.Count("rule=rpc")
	}
	// a few rules set several kinds at once: NewRouteBase takes the first of prefix, path, regex, variables, dsl
	if r.Chance(8) {
		for n := 1 + r.Intn(2); n > 0; n-- {
			switch r.Intn(5) {
			case 0:
				x.prefix = r.PickS(prefixes)
			case 1:
				x.path = r.PickS(paths)
			case 2:
				x.regex = r.PickS(pathRegexes)
			case 3:
				x.vars = append(x.vars, varM{name: types.VarMethod, value: r.PickS([]string{"GET", "POST"})})
			default:
				x.dsl = append(x.dsl, r.PickS(dslPool))
			}
		}
		c.Count("rule=mixed-kinds")
	}
	if r.Chance(2) {
		x.regex = "/a(" // does not compile: NewRouters fails if this is the rule's kind
		c.Count("rule=bad-regex-field")
	}
	return x
}

func genConfig(c *hx.Ctx, r *hx.Rng) []vhost {
	n := 1 + r.Intn(6)
	var vhs []vhost
	seen := map[string]bool{}
	dupOK := r.Chance(6)
	hasDefault := r.Chance(65)
	defAt := r.Intn(n)
	for i := 0; i < n; i++ {
		var vh vhost
		nd := r.Pick([]int{1, 1, 1, 2, 2, 3})
		if r.Chance(3) {
			nd = 0
		}
		for j := 0; j < nd; j++ {
			for try := 0; try < 8; try++ {
				d := genDomain(r)
				k := strings.ToLower(d)
				if k == "*" || k == "*:*" {
					continue // the default is placed explicitly
				}
				if seen[k] && !dupOK {
					continue
				}
				seen[k] = true
				vh.domains = append(vh.domains, d)
				break
			}
		}
		if hasDefault && i == defAt {
			vh.domains = append(vh.domains, r.PickS([]string{"*", "*", "*:*"}))
		}
		nr := r.Intn(7)
		for j := 0; j < nr; j++ {
			vh.rules = append(vh.rules, genRule(c, r))
		}
		vhs = append(vhs, vh)
	}
	c.Count(fmt.Sprintf("config.vhosts=%d", n))
	if hasDefault {
		c.Count("config.default=present")
	} else {
		c.Count("config.default=absent")
	}
	return vhs
}

func sp(s string) *string { return &s }

func genHost(c *hx.Ctx, r *hx.Rng, vhs []vhost) *string {
	switch k := r.Intn(100); {
	case k < 4:
		c.Count("host=unset")
		return nil
	case k < 8:
		c.Count("host=empty")
		return sp("")
	case k < 40: // derived from a configured domain: hit exact entries, extend wildcard suffixes
		var ds []string
		for _, vh := range vhs {
			ds = append(ds, vh.domains...)
		}
		if len(ds) == 0 {
			break
		}
		d := r.PickS(ds)
		if strings.HasPrefix(d, "*") {
			d = r.PickS([]string{"a", "b.a", "x", "", "a.", "*"}) + d[1:]
		}
		if i := strings.LastIndex(d, ":"); i >= 0 && strings.HasSuffix(d, ":*") {
			d = d[:i] + r.PickS([]string{"", ":80", ":8080", ":81", ":*"})
		} else if r.Chance(25) {
			if i >= 0 && !strings.Contains(d, "]") {
				d = d[:i]
			}
			d += r.PickS([]string{"", ":80", ":8080", ":81"})
		}
		c.Count("host=from-config")
		return sp(mixCase(r, d))
	case k < 80:
		c.Count("host=alphabet")
		return sp(mixCase(r, genName(r, 1, 4)) + r.PickS([]string{"", "", ":80", ":8080", ":81", ":*"}))
	}
	c.Count("host=exotic")
	return sp(r.PickS([]string{"[::1]", "[::1]:80", "[::1]:8080", "::1", "[::1", "a.cc.", "a.cc.:80", "A.CC.", "a:b:c", ".cc", "*.cc", "*",
		":80", ":", "a.cc:", "[a.cc]:80", "[A.cc]", "x]:80", "[::1]x:80", "cc", "CC:80", "-", "a.cc:*", "b.a.cc:*", "xn--bcher-kva.cc", "a..cc"}))
}

// configuredNames: the header names the configuration's matchers use
func configuredNames(vhs []vhost) []string {
	seen := map[string]bool{}
	var out []string
	for _, vh := range vhs {
		for _, ru := range vh.rules {
			for _, h := range ru.hdrs {
				if !seen[h.name] {
					seen[h.name] = true
					out = append(out, h.name)
				}
			}
		}
	}
	return out
}

func genRequest(c *hx.Ctx, r *hx.Rng, vhs []vhost) request {
	rq := newReq("cccbbhhh22"[r.Intn(10)])
	rq.vars[types.VarHost] = genHost(c, r, vhs)
	switch k := r.Intn(100); {
	case k < 5:
		rq.vars[types.VarPath] = nil
	case k < 10:
		rq.vars[types.VarPath] = sp("")
	default:
		rq.vars[types.VarPath] = sp(r.PickS([]string{"/", "/a", "/A", "/a/b", "/A/b", "/a/b/c", "/b", "/ab/c", "/a/c", "/c/b"}))
	}
	switch k := r.Intn(100); {
	case k < 10:
		rq.vars[types.VarMethod] = nil
	default:
		rq.vars[types.VarMethod] = sp(r.PickS([]string{"GET", "POST", "get", ""}))
	}
	if r.Chance(50) {
		rq.vars[types.VarQueryString] = sp(r.PickS([]string{"q=1", "", "x=2&q=1"}))
	}
	if r.Chance(40) {
		rq.vars[types.VarScheme] = sp(r.PickS([]string{"http", "https"}))
	}
	if rq.kind == '2' {
		// the request line; mostly what the variables say, now and then a value a header matcher could ask for
		get := func(k string, d string) string {
			if v := rq.vars[k]; v != nil && r.Chance(70) {
				return *v
			}
			return d
		}
		rq.pseudo = [3]string{get(types.VarHost, r.PickS([]string{"v1", "a.cc", ""})), get(types.VarPath, "/a"), get(types.VarMethod, r.PickS([]string{"GET", "v1"}))}
	}
	hvals := []string{"v1", "v2", "", "v3", "v1", "v2", "^$", "^v[12]$", "xv1", "v1x", "xv1x", "GET", "s1"} // now and then the text of a configured pattern itself
	svals := []string{"s1", "s2", "", "abc", ".*", "xs1", "s1x", "xs1x"}
	vals := func(n string) []string {
		if strings.EqualFold(n, "service") {
			return svals
		}
		if strings.EqualFold(n, "method") {
			return []string{"GET", "POST"}
		}
		return hvals
	}
	// the names the configuration asks for, each carried under its configured spelling, another spelling, both (in
	// either order, with different values) or not at all
	for _, n := range configuredNames(vhs) {
		if n == "method" && !r.Chance(15) {
			continue // a header called method is not the request method
		}
		vs := caseVariants(n)
		other := vs[r.Intn(len(vs))]
		switch k := r.Intn(100); {
		case k < 30:
			rq.add(n, r.PickS(vals(n)))
			c.Count("reqhdr=configured-spelling")
		case k < 50:
			rq.add(other, r.PickS(vals(n)))
			if other != n {
				c.Count("reqhdr=other-spelling")
			} else {
				c.Count("reqhdr=configured-spelling")
			}
		case k < 60:
			rq.add(n, r.PickS(vals(n)))
			rq.add(other, r.PickS(vals(n)))
			c.Count("reqhdr=both-configured-first")
		case k < 70:
			rq.add(other, r.PickS(vals(n)))
			rq.add(n, r.PickS(vals(n)))
			c.Count("reqhdr=both-other-first")
		default:
			c.Count("reqhdr=absent")
		}
	}
	for _, k := range []string{"k1", "k2"} {
		if r.Chance(25) {
			rq.add(k, r.PickS(hvals))
		}
	}
	if r.Chance(30) {
		rq.add("service", r.PickS(svals))
	}
	return rq
}

// ---------------------------------------------------------------- update history

var upSeq int

// compiles: NewRouteBase accepts the rule (AddRoute refuses it otherwise)
func compiles(r rule) bool {
	if r.regex != "" {
		if _, err := regexp.Compile(r.regex); err != nil {
			return false
		}
	}
	for _, v := range r.vars {
		if v.regex != "" {
			if _, err := regexp.Compile(v.regex); err != nil {
				return false
			}
		}
		if m := strings.ToLower(v.model); m != "" && m != "and" && m != "or" {
			return false
		}
	}
	return true
}

// safeDomain: a lower-case exact domain of virtual host i that AddRoute/RemoveAllRoutes resolve to i (priority 1)
func safeDomain(vhs []vhost) (int, string) {
	count := map[string]int{}
	for _, vh := range vhs {
		for _, d := range vh.domains {
			count[strings.ToLower(d)]++
		}
	}
	for i, vh := range vhs {
		for _, d := range vh.domains {
			if d == strings.ToLower(d) && !strings.ContainsAny(d, "*[]") && strings.Count(d, ":") <= 1 && d != "" && d != ":" &&
				!strings.HasSuffix(d, ":") && !strings.HasPrefix(d, ":") && count[d] == 1 {
				return i, d
			}
		}
	}
	return -1, ""
}

// buildViaManager reaches the configuration through the routers manager after an unrelated earlier configuration
// was stored under the same name, then applies AddRoute / RemoveAllRoutes; it returns the configuration the router
// must now behave as (a fresh NewRouters of it is the reference).
func buildViaManager(c *hx.Ctx, r *hx.Rng, vhs []vhost) (built, []vhost) {
	upSeq++
	name := fmt.Sprintf("c04-%d-%d", c.Seed, upSeq)
	mgr := router.GetRoutersMangerInstance()
	prev := toV2(genConfig(c, r), false)
	prev.RouterConfigName = name
	_ = mgr.AddOrUpdateRouters(prev)
	cur := toV2(vhs, false)
	cur.RouterConfigName = name
	if err := mgr.AddOrUpdateRouters(cur); err != nil {
		return built{err: errTok(err)}, vhs
	}
	out := make([]vhost, len(vhs))
	copy(out, vhs)
	if i, d := safeDomain(vhs); i >= 0 {
		switch k := r.Intn(100); {
		case k < 45:
			nr := genRule(c, r)
			for !compiles(nr) {
				nr = genRule(c, r)
			}
			j := len(out[i].rules)
			m := toV2([]vhost{{rules: []rule{nr}}}, false).VirtualHosts[0].Routers[0]
			m.Route.ClusterName = fmt.Sprintf("v%dr%d", i, j)
			if err := mgr.AddRoute(name, d, &m); err != nil {
				return built{err: "addRouteFailed"}, vhs
			}
			out[i].rules = append(append([]rule{}, out[i].rules...), nr)
			c.Count("update=AddRoute")
		case k < 60:
			if err := mgr.RemoveAllRoutes(name, d); err != nil {
				return built{err: "removeAllRoutesFailed"}, vhs
			}
			out[i].rules = nil
			c.Count("update=RemoveAllRoutes")
		default:
			c.Count("update=replace-only")
		}
	} else {
		c.Count("update=replace-only")
	}
	w := mgr.GetRouterWrapperByName(name)
	if w == nil || w.GetRouters() == nil {
		return built{err: "noRouters"}, out
	}
	twin, err := router.NewRouters(toV2(out, true))
	if err != nil {
		return built{err: "twin:" + errTok(err)}, out
	}
	return built{full: w.GetRouters(), twin: twin, concurrent: true}, out
}

// small-scope enumeration: every set of <= k domains of a fixed universe (one virtual host each) x every host
var universe = []string{"*", "a.cc", "a.cc:80", "A.cc:*", "*.cc", "*.CC:80", "*.cc:*", "*.a.cc", "*a.cc", "*.a.cc:80", "*:80", "b.a.cc", "B.A.CC:80", "*cc", "*.b.a.cc:*"}
var hostSet = []string{unset, "", "a.cc", "A.CC", "a.cc:80", "a.cc:81", "b.a.cc", "b.a.cc:80", "B.A.cc:8080", "c.b.a.cc", "c.b.a.cc:80", "ba.cc", "cc", ".cc", "x.cc:80",
	"x.org", "x.org:80", "[::1]:80", "a:b:c", "a.cc.", "aa.cc:*"}

func enumerate(c *hx.Ctx, k int) {
	var rec func(start int, cur []int)
	rec = func(start int, cur []int) {
		if len(cur) > 0 {
			var vhs []vhost
			for _, i := range cur {
				vhs = append(vhs, vhost{domains: []string{universe[i]}, rules: []rule{{}}})
			}
			b := buildReal(vhs)
			for _, h := range hostSet {
				rq := newReq('c')
				if h == unset {
					rq.vars[types.VarHost] = nil
				} else {
					rq.vars[types.VarHost] = sp(h)
				}
				emit(c, "en", vhs, b, rq)
			}
			c.Count(fmt.Sprintf("enum.domains=%d", len(cur)))
		}
		if len(cur) == k {
			return
		}
		for i := start; i < len(universe); i++ {
			rec(i+1, append(append([]int{}, cur...), i))
		}
	}
	rec(0, nil)
}

// small-scope enumeration of rule lists: every ordered list of <= k rules of a fixed universe in one default
// virtual host x a fixed request set (shadowing between rules of different kinds)
var ruleUniverse = []rule{
	{prefix: "/a"},
	{prefix: "/a", hdrs: []hdrM{{"method", "GET", false}}},
	{path: "/A"},
	{regex: "^/a.*"},
	{prefix: "/", hdrs: []hdrM{{"k1", "v1", false}}},
	{prefix: "/", hdrs: []hdrM{{"k1", "^v[12]$", true}, {"method", "POST", false}}},
	{},
	{hdrs: []hdrM{{"service", "s1", false}}},
	{vars: []varM{{name: types.VarMethod, value: "GET"}}},
	{vars: []varM{{name: types.VarPath, regex: "^/b", model: "or"}, {name: types.VarMethod, value: "POST"}}},
	{dsl: []string{`request.method == "GET"`}},
}

func enumerateRules(c *hx.Ctx, k int) {
	var reqs []request
	for _, path := range []string{"/a", "/b", unset} {
		for _, method := range []string{"GET", "POST"} {
			for _, k1 := range []string{"v1", unset} {
				for _, kind := range []byte{'c', 'h'} {
					rq := newReq(kind)
					rq.vars[types.VarHost], rq.vars[types.VarMethod] = sp("x.org"), sp(method)
					if path != unset {
						rq.vars[types.VarPath] = sp(path)
					}
					if k1 != unset {
						rq.add("k1", k1)
						rq.add("service", "s1")
					}
					reqs = append(reqs, rq)
				}
			}
		}
	}
	var rec func(cur []int)
	rec = func(cur []int) {
		if len(cur) > 0 {
			vh := vhost{domains: []string{"*"}}
			for _, i := range cur {
				vh.rules = append(vh.rules, ruleUniverse[i])
			}
			vhs := []vhost{vh}
			b := buildReal(vhs)
			for _, rq := range reqs {
				emit(c, "er", vhs, b, rq)
			}
			c.Count(fmt.Sprintf("enum.rules=%d", len(cur)))
		}
		if len(cur) == k {
			return
		}
		for i := range ruleUniverse {
			rec(append(append([]int{}, cur...), i))
		}
	}
	rec(nil)
}

// small-scope enumeration of header NAME handling: a rule keyed on one header (RPC rule = CreateCommonHeaderMatcher,
// prefix rule = CreateHTTPHeaderMatcher; exact or regex value; alone or with a second matcher) followed by a catch-all,
// x every configured spelling x every header-map kind x the request carrying the configured spelling, another
// spelling, both (either order, different values), neither, an empty value
func enumerateHeaderNames(c *hx.Ctx, thorough bool) {
	names := []string{"Service-Name", "service-name", "SERVICE-NAME", "service", "Service", "X-Tag", ":authority", "method", "Method"}
	if !thorough {
		names = []string{"Service-Name", "service-name", "service", "Service", ":authority", "Method"}
	}
	type form struct {
		tag string
		mk  func(n string) rule
	}
	forms := []form{
		{"rpc-exact", func(n string) rule { return rule{hdrs: []hdrM{{n, "v1", false}}} }},
		{"rpc-regex", func(n string) rule { return rule{hdrs: []hdrM{{n, "^v[12]$", true}}} }},
		{"rpc-two", func(n string) rule { return rule{hdrs: []hdrM{{"k1", "v1", false}, {n, "v1", false}}} }},
		{"http-exact", func(n string) rule { return rule{prefix: "/", hdrs: []hdrM{{n, "v1", false}}} }},
		{"http-regex", func(n string) rule { return rule{path: "/a", hdrs: []hdrM{{n, "^v[12]$", true}}} }},
	}
	for _, n := range names {
		for _, f := range forms {
			vhs := []vhost{{domains: []string{"*"}, rules: []rule{f.mk(n), {}}}}
			b := buildReal(vhs)
			c.Count("enum.hdrname=" + f.tag)
			for _, kind := range []byte{'c', 'b', 'h', '2'} {
				var sets [][]kv
				vs := caseVariants(n)
				sets = append(sets, nil, []kv{{n, "v1"}}, []kv{{n, ""}}, []kv{{n, "v3"}})
				for _, o := range vs[1:] {
					sets = append(sets, []kv{{o, "v1"}}, []kv{{o, "v1"}, {n, "v3"}}, []kv{{n, "v3"}, {o, "v1"}}, []kv{{n, "v1"}, {o, "v3"}})
				}
				for _, set := range sets {
					rq := newReq(kind)
					rq.vars[types.VarHost], rq.vars[types.VarPath], rq.vars[types.VarMethod] = sp("x.org"), sp("/a"), sp("v1")
					rq.pseudo = [3]string{"v1", "/a", "v1"}
					rq.add("k1", "v1")
					for _, e := range set {
						rq.add(e.k, e.v)
					}
					emit(c, "eh", vhs, b, rq)
				}
			}
		}
	}
}

// exhaustive host:port grammar: every string of <= n characters over a 7-letter alphabet as the request host against
// a fixed configuration, and every string of <= m characters as a single configured domain probed by a few hosts
// (validates the model of net.SplitHostPort / splitHostPortGraceful and of the domain classification)
func enumerateGrammar(c *hx.Ctx, n, m int) {
	alpha := []byte("a:[].*8")
	var words func(k int) []string
	words = func(k int) []string {
		if k == 0 {
			return []string{""}
		}
		var out []string
		for _, w := range words(k - 1) {
			out = append(out, w)
			if len(w) == k-1 {
				for _, ch := range alpha {
					out = append(out, w+string(ch))
				}
			}
		}
		return out
	}
	fixed := []vhost{
		{domains: []string{"a"}, rules: []rule{{}}}, {domains: []string{"a:8"}, rules: []rule{{}}},
		{domains: []string{"*.a", "*:8"}, rules: []rule{{}}}, {domains: []string{"[::]:8", "[a]"}, rules: []rule{{}}},
		{domains: []string{"*a:*", "."}, rules: []rule{{}}}, {domains: []string{"*"}, rules: []rule{{}}},
	}
	b := buildReal(fixed)
	for _, w := range words(n) {
		rq := newReq('c')
		rq.vars[types.VarHost] = sp(w)
		emit(c, "gh", fixed, b, rq)
	}
	c.Count("grammar.hosts")
	probes := []string{"a", "a:8", "aa:8", "[a]:8", ".a", "8.a:8"}
	for _, w := range words(m) {
		vhs := []vhost{{domains: []string{w}, rules: []rule{{}}}, {domains: []string{"*:*"}, rules: []rule{{}}}}
		bb := buildReal(vhs)
		ps := probes
		if bb.err != "" {
			ps = probes[:1]
		}
		for _, pr := range append([]string{w}, ps...) {
			rq := newReq('c')
			rq.vars[types.VarHost] = sp(pr)
			emit(c, "gd", vhs, bb, rq)
		}
	}
	c.Count("grammar.domains")
}

func Run(c *hx.Ctx) {
	// the router logs every failed match at ERROR level: keep the run quiet
	mlog.DefaultLogger.SetLogLevel(plog.FATAL)
	mlog.Proxy.SetLogLevel(plog.FATAL)
	mlog.StartLogger.SetLogLevel(plog.FATAL)
	// hx.Rng is counter based (state = (seed+i)*golden): the streams of seeds s and s+1 are the same stream shifted by
	// one draw. Everything random here therefore hangs off one fork, whose state is a mixed 64-bit value.
	top := c.Rng.Fork()
	// the enumerations do not depend on the seed: in the thorough tier (seeds s*1000+k) only the first seed runs them,
	// one size larger
	if !c.Thorough() {
		enumerate(c, 2)
		enumerateRules(c, 2)
		enumerateGrammar(c, 3, 2)
		enumerateHeaderNames(c, false)
		c04rEnumerateRegex(c, false)
	} else if c.Seed%1000 == 0 {
		enumerate(c, 4)
		enumerateRules(c, 3)
		enumerateGrammar(c, 5, 4)
		enumerateHeaderNames(c, true)
		c04rEnumerateRegex(c, true)
	}
	nCfg := c.N(450, 12000)
	for i := 0; i < nCfg; i++ {
		r := top.Fork()
		vhs := genConfig(c, r)
		b := buildReal(vhs)
		n := 8
		if b.err != "" {
			n = 1
		}
		for j := 0; j < n; j++ {
			emit(c, "rt", vhs, b, genRequest(c, r, vhs))
		}
	}
	// the same kind of configurations reached through the routers manager after an earlier configuration, AddRoute and
	// RemoveAllRoutes, looked up concurrently: the answers must be those of the configuration now in force
	for i := 0; i < c.N(120, 2500); i++ {
		r := top.Fork()
		vhs := genConfig(c, r)
		b, now := buildViaManager(c, r, vhs)
		n := 6
		if b.err != "" {
			n = 1
		}
		for j := 0; j < n; j++ {
			emit(c, "up", now, b, genRequest(c, r, now))
		}
	}
	// many long overlapping suffix chains on one port: sort.Sort leaves insertion sort (n > 12) and is unstable
	for i := 0; i < c.N(30, 300); i++ {
		r := top.Fork()
		var vhs []vhost
		seen := map[string]bool{}
		n := 13 + r.Intn(12)
		for len(vhs) < n {
			d := "*" + r.PickS([]string{".", "", "-"}) + genName(r, 1, 4)
			if seen[d] {
				continue
			}
			seen[d] = true
			vhs = append(vhs, vhost{domains: []string{d}, rules: []rule{{}}})
		}
		b := buildReal(vhs)
		for j := 0; j < 10; j++ {
			rq := newReq('c')
			rq.vars[types.VarHost] = sp(r.PickS([]string{"x.", "x", "x-", ""}) + genName(r, 1, 5))
			emit(c, "ch", vhs, b, rq)
		}
		c.Count("chain.configs")
	}
}
