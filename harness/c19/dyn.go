//go:build verif

package c19

// Directory ("dynamic") mode of the cluster manager (`clusters_configs`) and of a router (`router_configs`):
//
//   dyn     : a configuration whose clusters / virtual hosts live one per file in a directory, through the real
//             configmanager.Load -> SetMosnConfig / cluster manager / SetRouter -> InheritMosnconfig (the dump rewrites the
//             directory) -> load of the dump -> second dump.  Observed: the cluster / virtual-host names of the effective
//             configuration after the first load and after the reload, and the hash of dump + directory contents after the
//             first and second dump.  Names have lengths around the file-name truncation bound and characters that
//             matter in file names; some names collide after truncation / separator replacement.
//             Before the reload the dump is repeated (n = 1, 2 or 3 dumps into the same directories: dump ; dump = dump):
//             every repeated dump must leave the documents of the first one.
//   dynnul  : the same with a NUL byte in a name (repaired defect: the dump used to fail); NUL bytes are also part of
//             the ordinary name generator.
//   dynpair : v2.ClusterManagerConfig / v2.RouterConfiguration (Un)MarshalJSON directly, items in a known order:
//             the exact file names the dump leaves in the directory and the items read back.

import (
	"bytes"
	"encoding/hex"
	"encoding/json"
	"fmt"
	"io/ioutil"
	"os"
	"path/filepath"
	"sort"
	"strings"

	v2 "mosn.io/mosn/pkg/config/v2"
	"mosn.io/mosn/pkg/configmanager"
	"verif/harness/hx"
)

var boundaryLens = []int{1, 2, 100, 118, 119, 120, 121, 122, 123, 124, 125, 126, 127, 128, 129, 130, 131, 133, 200, 255}

var nameSpecials = []string{"/", "_", ".", " ", "%", "\\", ":", "|", "*", "?", "~", "#", "é", "中", "\U0001F600", "//", "/_", "..", "-", "\x00", "\x00", "/\x00", "\x00_"}

var wholeNames = []string{".", "..", "a.json", "x.json.tmp", "a_1", "a/1", "a_1.json", ".hidden", "con", "a b", "json", ".json", "_", "/", "a/", "/a", "\x00", "\x00\x00", "/\x00/", "a\x00", "\x00.json"}

type dynItem struct {
	name string
	id   int
}

func (it dynItem) tok() string { return fmt.Sprintf("%s.%d", hx.Hex([]byte(it.name)), it.id) }

func itemsTok(items []dynItem, sorted bool) string {
	if len(items) == 0 {
		return "-"
	}
	var ts []string
	for _, it := range items {
		ts = append(ts, it.tok())
	}
	if sorted {
		sort.Strings(ts)
	}
	return strings.Join(ts, ",")
}

// mkName: a name of L bytes (valid UTF-8) with a distinguishing tail and, often, characters that matter in file names
// at the head, the tail or around the truncation bound.
func mkName(c *hx.Ctx, r *hx.Rng, L int) string {
	if L < 1 {
		L = 1
	}
	b := bytes.Repeat([]byte{byte('a' + r.Intn(3))}, L)
	b[L-1] = byte('0' + r.Intn(5))
	put := func(pos int, s string) {
		if pos < 0 {
			pos = 0
		}
		if pos+len(s) > L {
			pos = L - len(s)
		}
		if pos < 0 {
			return
		}
		copy(b[pos:], s)
	}
	switch k := r.Intn(10); {
	case k < 3:
		c.Count("dyn.name.chars=plain")
	case k < 7:
		c.Count("dyn.name.chars=special")
		s := r.PickS(nameSpecials)
		pos := []int{0, L - len(s), 128 - len(s), 127, 128, 126, 123, 124, r.Intn(L)}[r.Intn(9)]
		put(pos, s)
	default:
		c.Count("dyn.name.chars=several-specials")
		for i := 0; i < 3; i++ {
			s := r.PickS(nameSpecials)
			put(r.Intn(L), s)
		}
	}
	// repair a multi-byte rune that was partly overwritten
	return strings.ToValidUTF8(string(b), "x")
}

// dynNames: n distinct, valid-UTF-8, non-empty names; about a third of the cases contain a family of names that share
// their first 128 bytes or differ only in '/' versus '_'.
func dynNames(c *hx.Ctx, r *hx.Rng, n int) []string {
	seen := map[string]bool{}
	var out []string
	add := func(s string) {
		if s != "" && !seen[s] && len(out) < n {
			if strings.ContainsRune(s, 0) {
				c.Count("dyn.name.with-NUL")
			}
			seen[s] = true
			out = append(out, s)
		}
	}
	for tries := 0; len(out) < n && tries < 100; tries++ {
		var L int
		switch k := r.Intn(10); {
		case k < 7:
			L = boundaryLens[r.Intn(len(boundaryLens))]
		case k < 9:
			L = 1 + r.Intn(140)
		default:
			add(r.PickS(wholeNames))
			continue
		}
		nm := mkName(c, r, L)
		add(nm)
		switch r.Intn(8) {
		case 0: // same first 128 bytes
			base := nm
			for len(base) < 128 {
				base += "p"
			}
			base = strings.ToValidUTF8(base[:128], "x")
			for len(base) < 128 {
				base += "q"
			}
			c.Count("dyn.family=common-128-prefix")
			add(base + "A")
			add(base + "B" + strings.Repeat("z", r.Intn(3)))
			if r.Bool() {
				add(base)
			}
		case 1: // separator versus its replacement
			c.Count("dyn.family=separator-vs-underscore")
			short := nm
			if len(short) > 20 {
				short = strings.ToValidUTF8(short[:20], "x")
			}
			add(short + "/v")
			add(short + "_v")
			switch r.Intn(3) {
			case 0:
				add(short + "_v_1")
			case 1:
				add(short + "\x00v")
			}
		}
	}
	return out
}

// collisionFamily: 2..4 distinct names that get the same file name before uniqueFileName (they differ only in bytes
// that are replaced by '_', or behind byte 128), sometimes with the name a uniqueness suffix would produce, in a random order.
func collisionFamily(c *hx.Ctx, r *hx.Rng) []string {
	var out []string
	switch r.Intn(4) {
	case 0:
		c.Count("dyn.family2=svc/v1-svc_v1")
		out = []string{"svc/v1", "svc_v1"}
		if r.Bool() {
			out = append(out, "svc\x00v1")
		}
		if r.Bool() {
			out = append(out, "svc_v1_1")
		}
	case 1:
		c.Count("dyn.family2=common-128-prefix")
		base := strings.Repeat(string(rune('a'+r.Intn(3))), 126) + r.PickS([]string{"/x", "__", "\x00/", "ab"})
		out = []string{base + "A", base + "B"}
		if r.Bool() {
			out = append(out, base)
		}
		if r.Bool() {
			out = append(out, base+"/C")
		}
	case 2:
		c.Count("dyn.family2=only-replaced-bytes")
		out = []string{"/", "_", "\x00"}[:2+r.Intn(2)]
		if r.Bool() {
			out = append(out, "__1")
		}
	default:
		c.Count("dyn.family2=random-stem")
		stem := mkName(c, r, 1+r.Intn(30))
		out = []string{stem + "/v", stem + "_v"}
		if r.Bool() {
			out = append(out, stem+"\x00v")
		}
		if r.Bool() {
			out = append(out, stem+"_v_1")
		}
	}
	seen := map[string]bool{}
	var uniq []string
	for _, s := range out {
		if !seen[s] {
			seen[s] = true
			uniq = append(uniq, s)
		}
	}
	for j := len(uniq) - 1; j > 0; j-- {
		k := r.Intn(j + 1)
		uniq[j], uniq[k] = uniq[k], uniq[j]
	}
	return uniq
}

func lenClass(n int) string {
	switch {
	case n < 118:
		return "<118"
	case n <= 123:
		return "118-123"
	case n <= 128:
		return "124-128"
	case n <= 133:
		return "129-133"
	}
	return ">133"
}

func clusterDoc(it dynItem) map[string]interface{} {
	return map[string]interface{}{"name": it.name, "type": "SIMPLE", "lb_type": "LB_RANDOM", "sub_type": fmt.Sprint(it.id),
		"connect_timeout": []string{"90s", "1m30s", "1500ms", "0s"}[it.id%4],
		"hosts":           []interface{}{map[string]interface{}{"address": fmt.Sprintf("127.0.0.1:%d", 8000+it.id)}}}
}

func vhostDoc(it dynItem) map[string]interface{} {
	d := map[string]interface{}{"domains": []interface{}{fmt.Sprintf("v%d.example.com", it.id)},
		"routers": []interface{}{map[string]interface{}{"match": map[string]interface{}{"prefix": "/"},
			"route": map[string]interface{}{"cluster_name": "c", "timeout": []string{"90s", "2m", "0s"}[it.id%3]}}}}
	if it.name != "" {
		d["name"] = it.name
	}
	return d
}

// populate writes the operator's files: one document per file under names unrelated to the item names, plus files
// the loader ignores.
func populate(r *hx.Rng, dir string, docs []map[string]interface{}) []string {
	os.RemoveAll(dir)
	os.MkdirAll(dir, 0755)
	var names []string
	for i, d := range docs {
		b, _ := json.MarshalIndent(d, "", " ")
		fn := fmt.Sprintf("op%02d.json", i)
		ioutil.WriteFile(filepath.Join(dir, fn), b, 0644)
		names = append(names, fn)
	}
	if r.Chance(30) {
		ioutil.WriteFile(filepath.Join(dir, "README.txt"), []byte("not a config"), 0644)
		names = append(names, "README.txt")
	}
	if r.Chance(30) {
		ioutil.WriteFile(filepath.Join(dir, "empty.json"), nil, 0644)
		names = append(names, "empty.json")
	}
	return names
}

// dirDigest: the documents of a directory (key-sorted JSON, sorted; file names left out: they are private to the
// dump) and the names of the files the loader would ignore.
func dirDigest(dir string) string {
	if dir == "" {
		return ""
	}
	fs, err := ioutil.ReadDir(dir)
	if err != nil {
		return "unreadable"
	}
	var docs, other []string
	for _, f := range fs {
		b, _ := ioutil.ReadFile(filepath.Join(dir, f.Name()))
		if filepath.Ext(f.Name()) == ".json" && len(b) > 0 {
			s, _ := canon(b)
			docs = append(docs, s)
		} else {
			other = append(other, f.Name())
		}
	}
	sort.Strings(docs)
	return strings.Join(docs, "\n") + "\nignored:" + strings.Join(other, ",")
}

func liveItems() (cl, vh []dynItem) {
	live := configmanager.VerifLive()
	for n, c := range live.Cluster {
		id := 0
		fmt.Sscan(c.SubType, &id)
		cl = append(cl, dynItem{n, id})
	}
	for _, rc := range live.Routers {
		for _, v := range rc.VirtualHosts {
			id := -1
			if len(v.Domains) > 0 {
				fmt.Sscanf(v.Domains[0], "v%d.", &id)
			}
			vh = append(vh, dynItem{v.Name, id})
		}
	}
	return
}

func dynCase(c *hx.Ctx, tmp string, kind string, mode string, cl, vh []dynItem, nd int) {
	r := c.Rng
	root := filepath.Join(tmp, "dyn")
	os.RemoveAll(root)
	os.MkdirAll(root, 0755)
	cdir, rdir := "", ""
	cm := map[string]interface{}{}
	var cdocs, vdocs []map[string]interface{}
	for _, it := range cl {
		cdocs = append(cdocs, clusterDoc(it))
		c.Count("dyn.cluster-name-len=" + lenClass(len(it.name)))
	}
	for _, it := range vh {
		vdocs = append(vdocs, vhostDoc(it))
		c.Count("dyn.vhost-name-len=" + lenClass(len(it.name)))
	}
	if strings.Contains(mode, "cl") {
		cdir, _ = filepath.Abs(filepath.Join(root, "clusters"))
		populate(r, cdir, cdocs)
		cm["clusters_configs"] = cdir
	} else {
		var l []interface{}
		for _, d := range cdocs {
			l = append(l, d)
		}
		cm["clusters"] = l
	}
	server := map[string]interface{}{}
	router := map[string]interface{}{"router_config_name": "r1"}
	if strings.Contains(mode, "rt") {
		rdir, _ = filepath.Abs(filepath.Join(root, "routers"))
		populate(r, rdir, vdocs)
		router["router_configs"] = rdir
	} else {
		var l []interface{}
		for _, d := range vdocs {
			l = append(l, d)
		}
		router["virtual_hosts"] = l
	}
	listener := map[string]interface{}{"name": "l1", "address": "127.0.0.1:2045", "filter_chains": []interface{}{
		map[string]interface{}{"filters": []interface{}{map[string]interface{}{"type": "connection_manager", "config": router}}}}}
	if strings.Contains(mode, "lrt") { // the router comes from the listener's connection_manager filter
		server["listeners"] = []interface{}{listener}
	} else {
		server["routers"] = []interface{}{router}
	}
	cfg := map[string]interface{}{"servers": []interface{}{server}, "cluster_manager": cm}
	path := filepath.Join(root, "mosn.json")
	ioutil.WriteFile(path, []byte(canonV(cfg)), 0644)

	caseToks := fmt.Sprintf("%s %s cl=%s vh=%s n=%d", kind, mode, itemsTok(cl, true), itemsTok(vh, true), nd)
	c.Count("dyn.mode=" + mode)
	c.Count(fmt.Sprintf("dyn.dumps-before-reload=%d", nd))
	d1, why := loadDump(path)
	if why != "" {
		c.Count(kind + ".result=" + why)
		c.Emit("C19", caseToks, "fail:load1-"+why)
		return
	}
	cl0, vh0 := liveItems()
	h1 := dumpHash(d1) + hashS(dirDigest(cdir)+"\x00"+dirDigest(rdir))
	// dump ; dump (; dump): the running process persists its configuration again into the same directories
	hs := h1
	for k := 1; k < nd; k++ {
		dk, err := configmanager.InheritMosnconfig()
		if err != nil {
			c.Count(kind + ".result=redump-error")
			c.Emit("C19", caseToks, "fail:dump-again")
			return
		}
		d1 = dk
		hs += "," + dumpHash(dk) + hashS(dirDigest(cdir)+"\x00"+dirDigest(rdir))
	}
	h1 = hs
	p2 := filepath.Join(root, "dump1.json")
	ioutil.WriteFile(p2, d1, 0644)
	d2, why := loadDump(p2)
	if why != "" {
		c.Count(kind + ".result=reload-" + why)
		c.Emit("C19", caseToks, "fail:load2-"+why)
		return
	}
	cl1, vh1 := liveItems()
	h2 := dumpHash(d2) + hashS(dirDigest(cdir)+"\x00"+dirDigest(rdir))
	c.Count(kind + ".result=ok")
	c.Emit("C19", caseToks, fmt.Sprintf("ok:%s/%s:%s/%s:%s:%s", itemsTok(cl0, true), itemsTok(vh0, true), itemsTok(cl1, true), itemsTok(vh1, true), h1, h2))
}

func hashS(s string) string {
	return dumpHash([]byte(fmt.Sprintf("%q", s)))
}

func mkItems(names []string, base int) []dynItem {
	var out []dynItem
	for i, n := range names {
		out = append(out, dynItem{n, base + i})
	}
	return out
}

func dyns(c *hx.Ctx, tmp string, n int) {
	modes := []string{"cl", "rt", "lrt", "cl+rt", "cl+lrt", "static"}
	for i := 0; i < n; i++ {
		r := c.Rng
		mode := modes[i%len(modes)]
		cl := mkItems(dynNames(c, r, 1+r.Intn(5)), 1)
		vnames := dynNames(c, r, 1+r.Intn(4))
		if r.Chance(30) { // virtual hosts need no name
			vnames = append(vnames, "")
			if r.Bool() {
				vnames = append(vnames, "")
			}
		}
		if r.Chance(15) && len(vnames) > 0 { // nor distinct names
			vnames = append(vnames, vnames[0])
			c.Count("dyn.vhost-duplicate-name")
		}
		vh := mkItems(vnames, 1)
		if i%4 == 3 { // names that collide after sanitising: every later dump must keep the disambiguated files
			c.Count("dyn.collision-family-case")
			cl = mkItems(collisionFamily(c, r), 1)
			vh = mkItems(collisionFamily(c, r), 1)
		}
		dynCase(c, tmp, "dyn", mode, cl, vh, 1+(i/len(modes))%3)
	}
	// a NUL byte in a name (dump fails on the unchanged tree: known finding)
	for i := 0; i < 2; i++ {
		dynCase(c, tmp, "dynnul", []string{"cl", "rt"}[i], []dynItem{{"a\x00b", 1}, {"c", 2}, {"a_b", 3}}, []dynItem{{"v\x00", 1}, {"\x00", 2}, {"_", 3}}, 1+i)
	}
}

// ---------------------------------------------------------------- the two directory pairs, directly

func isStamp(fn string) bool {
	b := strings.TrimSuffix(fn, ".json")
	if b == fn || len(b) < 18 || len(b) > 20 {
		return false
	}
	for i := 0; i < len(b); i++ {
		if b[i] < '0' || b[i] > '9' {
			return false
		}
	}
	return true
}

func listDir(dir string) string {
	fs, _ := ioutil.ReadDir(dir)
	var names []string
	k := 0
	for _, f := range fs { // ReadDir sorts: stamps (decimal, equal length) come in time order
		fn := f.Name()
		if isStamp(fn) {
			fn = fmt.Sprintf("T%d.json", k)
			k++
		}
		names = append(names, hx.Hex([]byte(fn)))
	}
	sort.Strings(names)
	if len(names) == 0 {
		return "-"
	}
	return strings.Join(names, ",")
}

func dynPairs(c *hx.Ctx, tmp string, n int) {
	r := c.Rng
	dir, _ := filepath.Abs(filepath.Join(tmp, "dynpair"))
	for i := 0; i < n; i++ {
		what := []string{"cl", "vh"}[i%2]
		names := dynNames(c, r, 1+r.Intn(5))
		if i%5 == 4 {
			c.Count("dynpair.collision-family-case")
			names = collisionFamily(c, r)
		}
		if what == "vh" {
			if r.Chance(30) {
				names = append(names, "")
			}
			if r.Chance(20) {
				names = append(names, names[0])
			}
		}
		r2 := r.Fork()
		for j := len(names) - 1; j > 0; j-- { // any order
			k := r2.Intn(j + 1)
			names[j], names[k] = names[k], names[j]
		}
		items := mkItems(names, 1)
		// the operator's directory: documents under unrelated names, some under names the dump will choose too
		var docs []map[string]interface{}
		for _, it := range items {
			if what == "cl" {
				docs = append(docs, clusterDoc(it))
			} else {
				docs = append(docs, vhostDoc(it))
			}
		}
		init := populate(r, dir, docs)
		var initHex []string
		for _, f := range init {
			initHex = append(initHex, hx.Hex([]byte(f)))
		}
		sort.Strings(initHex)
		nd := 1 + (i/2)%3
		c.Count(fmt.Sprintf("dynpair.dumps=%d", nd))
		caseToks := fmt.Sprintf("dynpair %s init=%s items=%s n=%d", what, strings.Join(initHex, ","), itemsTok(items, false), nd)
		var res string
		if what == "cl" {
			res = pairCluster(dir, items, nd)
		} else {
			res = pairVhost(dir, items, nd)
		}
		c.Count("dynpair." + what + "=" + strings.SplitN(res, ":", 2)[0])
		c.Emit("C19", caseToks, res)
	}
}

// pairCluster: ClusterManagerConfig with the items in this order -> MarshalJSON (writes the directory) -> UnmarshalJSON.
func pairCluster(dir string, items []dynItem, nd int) string {
	cm := v2.ClusterManagerConfig{}
	cm.ClusterConfigPath = dir
	for _, it := range items {
		b, _ := json.Marshal(clusterDoc(it))
		var cl v2.Cluster
		if err := json.Unmarshal(b, &cl); err != nil {
			return "fail:setup"
		}
		cm.Clusters = append(cm.Clusters, cl)
	}
	b, err := json.Marshal(cm)
	for k := 1; k < nd && err == nil; k++ { // the same value dumped again into the same directory
		b, err = json.Marshal(cm)
	}
	if err != nil {
		return "fail:dump"
	}
	files := listDir(dir)
	var cm2 v2.ClusterManagerConfig
	if err := json.Unmarshal(b, &cm2); err != nil {
		return "fail:reload"
	}
	var back []dynItem
	for _, cl := range cm2.Clusters {
		id := 0
		fmt.Sscan(cl.SubType, &id)
		back = append(back, dynItem{cl.Name, id})
	}
	return "ok:" + files + ":" + itemsTok(back, true)
}

func pairVhost(dir string, items []dynItem, nd int) string {
	rc := v2.RouterConfiguration{}
	rc.RouterConfigName = "r"
	rc.RouterConfigPath = dir
	for _, it := range items {
		b, _ := json.Marshal(vhostDoc(it))
		var vh v2.VirtualHost
		if err := json.Unmarshal(b, &vh); err != nil {
			return "fail:setup"
		}
		rc.VirtualHosts = append(rc.VirtualHosts, vh)
	}
	b, err := json.Marshal(rc)
	for k := 1; k < nd && err == nil; k++ {
		b, err = json.Marshal(rc)
	}
	if err != nil {
		return "fail:dump"
	}
	files := listDir(dir)
	var rc2 v2.RouterConfiguration
	if err := json.Unmarshal(b, &rc2); err != nil {
		return "fail:reload"
	}
	var back []dynItem
	for _, v := range rc2.VirtualHosts {
		id := -1
		if len(v.Domains) > 0 {
			fmt.Sscanf(v.Domains[0], "v%d.", &id)
		}
		back = append(back, dynItem{v.Name, id})
	}
	return "ok:" + files + ":" + itemsTok(back, true)
}

var _ = hex.EncodeToString
