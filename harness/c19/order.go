//go:build verif

package c19

// order: the ORDER of the lists across dump and reload.
//
// A generated configuration with 2..5 elements in every order-sensitive list (extends with repeated types out of
// alphabetical order; filter chains, network filters, stream / listener filters, virtual hosts, routes, header and variable
// matchers, headers to add / remove, weighted clusters, hosts, subset selectors) goes through the real start path
// (loadDump), the effective configuration is read through the verif hook (run), dumped by transferConfig (dump), the dump
// is loaded by a fresh start and the effective configuration read again (reload).  Every element (listener / cluster /
// router by name, extend by type) is printed as its key and, for EVERY JSON array inside it, the path of the array and the
// labels of its items in order (label = hash of the item's key-sorted JSON): the comparison is order-sensitive for every
// list inside an element and for `extends`, and order-insensitive only for the three name-keyed lists themselves.
//
//   order <i> X=<type/cfg=h,…in config order> L=<names> C=<names> R=<names>
//      => run L=… C=… R=… X=… dump L=… C=… R=… X=… reload L=… C=… R=… X=…   |   unloadable:<why>

import (
	"bytes"
	"crypto/sha1"
	"encoding/hex"
	"encoding/json"
	"fmt"
	"io/ioutil"
	"path/filepath"
	"reflect"
	"sort"
	"strings"

	v2 "mosn.io/mosn/pkg/config/v2"
	"mosn.io/mosn/pkg/configmanager"
	"verif/harness/hx"
)

var orderExtTypes = []string{"zeta", "mid", "alpha", "omega", "beta", "nu"}

var orderWide = map[string]bool{
	"MOSNConfig.Extends": true, "ListenerConfig.StreamFilters": true, "ListenerConfig.ListenerFilters": true,
	"FilterChainConfig.Filters": true, "RouterConfigurationConfig.StaticVirtualHosts": true, "RouterConfiguration.VirtualHosts": true, "VirtualHost.Routers": true,
	"RouterMatch.Headers": true, "RouterMatch.Variables": true, "Cluster.Hosts": true,
	"RouterConfigurationConfig.RequestHeadersToAdd": true, "RouterConfigurationConfig.ResponseHeadersToAdd": true,
	"RouterConfigurationConfig.RequestHeadersToRemove": true, "RouterConfigurationConfig.ResponseHeadersToRemove": true,
	"RouterActionConfig.RequestHeadersToAdd": true, "RouterActionConfig.ResponseHeadersToAdd": true,
	"RouterActionConfig.RequestHeadersToRemove": true, "RouterActionConfig.WeightedClusters": true,
	"VirtualHost.RequestHeadersToAdd": true, "VirtualHost.ResponseHeadersToAdd": true, "VirtualHost.RequestHeadersToRemove": true,
	"ServerConfig.Listeners": true, "ClusterManagerConfig.Clusters": true, "ServerConfig.Routers": true,
}

func orderLabel(v interface{}) string {
	h := sha1.Sum([]byte(canonV(v)))
	return hex.EncodeToString(h[:3])
}

// orderSig: every array below v as "<path>=<label>.<label>…", in a fixed (key-sorted) traversal order
func orderSig(v interface{}, path string, out *[]string) {
	switch x := v.(type) {
	case map[string]interface{}:
		ks := make([]string, 0, len(x))
		for k := range x {
			ks = append(ks, k)
		}
		sort.Strings(ks)
		for _, k := range ks {
			p := k
			if path != "" {
				p = path + ":" + k
			}
			orderSig(x[k], p, out)
		}
	case []interface{}:
		labs := make([]string, len(x))
		for i, e := range x {
			labs[i] = orderLabel(e)
		}
		*out = append(*out, hx.Tok(path)+"="+strings.Join(labs, "."))
		for i, e := range x {
			orderSig(e, fmt.Sprintf("%s:%d", path, i), out)
		}
	}
}

func orderTree(b []byte) interface{} {
	dec := json.NewDecoder(bytes.NewReader(b))
	dec.UseNumber()
	var v interface{}
	dec.Decode(&v)
	return v
}

func orderElem(key string, v interface{}) string {
	var out []string
	orderSig(v, "", &out)
	return strings.Join(append([]string{hx.Tok(key)}, out...), "/")
}

func orderList(elems []string) string {
	if len(elems) == 0 {
		return "-"
	}
	return strings.Join(elems, ",")
}

func orderExt(e v2.ExtendConfig) string {
	var raw interface{} = orderTree(e.Config)
	return hx.Tok(e.Type) + "/cfg=" + orderLabel(raw)
}

// orderLive: the effective configuration as element lists (the three maps in key order: they have no order of their own)
func orderLive() string {
	live := configmanager.VerifLive()
	var ls, cs, rs, xs []string
	for n, l := range live.Listener {
		b, _ := json.Marshal(l)
		ls = append(ls, orderElem(n, orderTree(b)))
	}
	for n, c := range live.Cluster {
		b, _ := json.Marshal(c)
		cs = append(cs, orderElem(n, orderTree(b)))
	}
	for n, r := range live.Routers {
		b, _ := json.Marshal(&r)
		rs = append(rs, orderElem(n, orderTree(b)))
	}
	sort.Strings(ls)
	sort.Strings(cs)
	sort.Strings(rs)
	for _, e := range live.ExtendConfigs {
		xs = append(xs, orderExt(e))
	}
	return "L=" + orderList(ls) + " C=" + orderList(cs) + " R=" + orderList(rs) + " X=" + orderList(xs)
}

// orderDump: the element lists of a dumped configuration, every list in the order of the document
func orderDump(d []byte) string {
	tree, _ := orderTree(d).(map[string]interface{})
	var ls, cs, rs, xs []string
	named := func(arr interface{}, key string) []string {
		var out []string
		a, _ := arr.([]interface{})
		for _, e := range a {
			m, _ := e.(map[string]interface{})
			n, _ := m[key].(string)
			out = append(out, orderElem(n, e))
		}
		return out
	}
	if srv, ok := tree["servers"].([]interface{}); ok && len(srv) > 0 {
		s0, _ := srv[0].(map[string]interface{})
		ls = named(s0["listeners"], "name")
		rs = named(s0["routers"], "router_config_name")
	}
	if cm, ok := tree["cluster_manager"].(map[string]interface{}); ok {
		cs = named(cm["clusters"], "name")
	}
	if ex, ok := tree["extends"].([]interface{}); ok {
		for _, e := range ex {
			m, _ := e.(map[string]interface{})
			t, _ := m["type"].(string)
			xs = append(xs, hx.Tok(t)+"/cfg="+orderLabel(m["config"]))
		}
	}
	return "L=" + orderList(ls) + " C=" + orderList(cs) + " R=" + orderList(rs) + " X=" + orderList(xs)
}

func orders(c *hx.Ctx, tmp string, n int) {
	for i := 0; i < n; i++ {
		g := &cgen{c: c, r: c.Rng.Fork(), names: map[string]int{}, wide: true}
		cfg := &v2.MOSNConfig{}
		g.fill(reflect.ValueOf(cfg).Elem(), nil, "", 0)
		if len(cfg.Extends) < 2 {
			cfg.Extends = nil
			for k, m := 0, 2+g.r.Intn(4); k < m; k++ {
				cfg.Extends = append(cfg.Extends, v2.ExtendConfig{Type: g.r.PickS(orderExtTypes)})
			}
		}
		for k := range cfg.Extends {
			cfg.Extends[k].Config = json.RawMessage(fmt.Sprintf(`{"at":%d,"v":[%d,1]}`, k, g.r.Intn(3)))
		}
		b, err := json.Marshal(cfg)
		if err != nil {
			c.Count("order.marshal-error")
			continue
		}
		var xs, ls, cs, rs []string
		types := []string{}
		for _, e := range cfg.Extends {
			xs = append(xs, orderExt(e))
			types = append(types, e.Type)
		}
		if !sort.StringsAreSorted(types) {
			c.Count("order.extends-unsorted")
		}
		seen, dup := map[string]bool{}, false
		for _, t := range types {
			dup = dup || seen[t]
			seen[t] = true
		}
		if dup {
			c.Count("order.extends-repeated-type")
		}
		c.Count(fmt.Sprintf("order.extends=%d", len(cfg.Extends)))
		for _, l := range cfg.Servers[0].Listeners {
			ls = append(ls, hx.Tok(l.Name))
			c.Count(fmt.Sprintf("order.stream_filters=%d", len(l.StreamFilters)))
			if len(l.FilterChains) > 0 {
				c.Count(fmt.Sprintf("order.network_filters=%d", len(l.FilterChains[0].Filters)))
			}
		}
		for _, cl := range cfg.ClusterManager.Clusters {
			cs = append(cs, hx.Tok(cl.Name))
			c.Count(fmt.Sprintf("order.hosts=%d", len(cl.Hosts)))
		}
		for _, r := range cfg.Servers[0].Routers {
			if r != nil && r.RouterConfigName != "" {
				rs = append(rs, hx.Tok(r.RouterConfigName))
				c.Count(fmt.Sprintf("order.virtual_hosts=%d", len(r.VirtualHosts)))
				for _, vh := range r.VirtualHosts {
					c.Count(fmt.Sprintf("order.routes=%d", len(vh.Routers)))
				}
			}
		}
		caseT := fmt.Sprintf("order %d X=%s L=%s C=%s R=%s", i, orderList(xs), orderList(ls), orderList(cs), orderList(rs))
		path := filepath.Join(tmp, "order.json")
		ioutil.WriteFile(path, b, 0644)
		d1, why := loadDump(path)
		if why != "" {
			c.Count("order.unloadable=" + why)
			c.Emit("C19", caseT, "unloadable:"+why)
			continue
		}
		run := orderLive()
		p2 := filepath.Join(tmp, "order1.json")
		ioutil.WriteFile(p2, d1, 0644)
		if _, why := loadDump(p2); why != "" {
			c.Count("order.reload-fails=" + why)
			c.Emit("C19", caseT, "run "+run+" dump "+orderDump(d1)+" reload-fails:"+why)
			continue
		}
		c.Count("order.loaded")
		c.Emit("C19", caseT, "run "+run+" dump "+orderDump(d1)+" reload "+orderLive())
	}
}
