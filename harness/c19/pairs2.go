//go:build verif

package c19

// Further custom (Un)MarshalJSON pairs against their Lean models:
//   pair cw  : ClusterWeight   (metadata_match <-> MetadataMatch)
//   pair ra  : RouteAction     (metadata_match <-> MetadataMatch, timeout <-> Timeout)
//   pair rt  : Router          (metadata <-> Metadata)
//   pair cb  : CircuitBreakers (the bare thresholds array)
//   pair ln  : Listener        (network default / lower-casing, address <-> resolved net.Addr); the case carries the
//              answers of the resolver (net.Resolve{TCP,UDP,Unix}Addr) for the address and for its own answers.
// Members that have a custom pair of their own (weighted_clusters[].cluster, retry_policy, route, filter_chains) are
// generated in the form their own pair writes, so that the generic field-table codec is exact for them.

import (
	"encoding/json"
	"fmt"
	"net"
	"reflect"
	"strings"

	v2 "mosn.io/mosn/pkg/config/v2"
	"verif/harness/hx"
)

type member struct{ k, v string }

// spoilMember replaces (or adds) member k by a value of the wrong JSON kind
func spoilMember(ms []member, k, v string) []member {
	var out []member
	for _, m := range ms {
		if m.k != k {
			out = append(out, m)
		}
	}
	return append(out, member{k, v})
}

func (g *wgen) obj(ms []member) string {
	r := g.r
	for i := len(ms) - 1; i > 0; i-- {
		j := r.Intn(i + 1)
		ms[i], ms[j] = ms[j], ms[i]
	}
	var p []string
	for _, m := range ms {
		p = append(p, fmt.Sprintf("%q:%s", caseVariant(r, m.k), m.v))
	}
	if r.Chance(8) {
		p = append(p, `"zz_unknown":[1]`)
	}
	return "{" + strings.Join(p, ",") + "}"
}

// metaJSON: a MetadataConfig in canonical form (canon) or in any accepted form
func (g *wgen) metaJSON(canon bool, kind string) string {
	r := g.r
	if canon {
		return r.PickS([]string{`{"filter_metadata":{"mosn.lb":{"zone":"a"}}}`, `{"filter_metadata":{"mosn.lb":{"version":"1.0","zone":"b"}}}`})
	}
	switch r.Intn(10) {
	case 0:
		return `null`
	case 1:
		return `{}`
	case 2:
		return `{"filter_metadata":{}}`
	case 3:
		return `{"filter_metadata":{"mosn.lb":{}}}`
	case 4:
		return `{"filter_metadata":{"mosn.lb":null}}`
	case 5:
		g.c.Count("pair." + kind + ".metadata=non-string-values")
		return `{"filter_metadata":{"mosn.lb":{"zone":"a","n":1,"b":true,"o":{"x":"y"},"nil":null,"e":""}}}`
	case 6:
		g.c.Count("pair." + kind + ".metadata=only-non-string")
		return `{"filter_metadata":{"mosn.lb":{"n":1}}}`
	case 7:
		g.c.Count("pair." + kind + ".metadata=duplicate-key")
		return `{"filter_metadata":{"mosn.lb":{"zone":"a","zone":"b","x":"1"}}}`
	case 8:
		g.c.Count("pair." + kind + ".malformed")
		return `{"filter_metadata":{"mosn.lb":[1]}}`
	}
	return `{"filter_metadata":{"mosn.lb":{"zone":"a","version":"1.0"}}}`
}

func (g *wgen) num(xs ...int) string { return fmt.Sprint(xs[g.r.Intn(len(xs))]) }

func (g *wgen) cwWire(canon bool) string {
	r := g.r
	var ms []member
	if r.Chance(80) {
		ms = append(ms, member{"name", fmt.Sprintf("%q", g.word())})
	}
	if r.Chance(70) {
		ms = append(ms, member{"weight", g.num(0, 1, 50, 100, 101, 4294967295)})
	}
	if r.Chance(60) {
		ms = append(ms, member{"metadata_match", g.metaJSON(canon, "cw")})
	}
	if !canon && r.Chance(5) {
		ms = spoilMember(ms, "weight", `"x"`)
		g.c.Count("pair.cw.malformed")
	}
	return g.obj(ms)
}

func (g *wgen) headerOpts() string {
	r := g.r
	n := r.Intn(3)
	var p []string
	for i := 0; i < n; i++ {
		var ms []member
		if r.Chance(80) {
			ms = append(ms, member{"header", r.PickS([]string{`{"key":"k","value":"v"}`, `{"key":"k"}`, `{}`, `null`})})
		}
		if r.Chance(50) {
			ms = append(ms, member{"append", r.PickS([]string{"true", "false", "null"})})
		}
		p = append(p, g.obj(ms))
	}
	return "[" + strings.Join(p, ",") + "]"
}

// retryCanon: a retry policy as RetryPolicy.MarshalJSON writes it
func (g *wgen) retryCanon() string {
	r := g.r
	ms := []member{{"retry_timeout", fmt.Sprintf("%q", durPool[r.Intn(len(durPool))].String())}}
	if r.Bool() {
		ms = append(ms, member{"retry_on", "true"})
	}
	if r.Bool() {
		ms = append(ms, member{"num_retries", g.num(1, 3)})
	}
	if r.Bool() {
		ms = append(ms, member{"status_codes", `[500,503]`})
	}
	return g.obj(ms)
}

func (g *wgen) raWire() string {
	r := g.r
	var ms []member
	add := func(p int, k, v string) {
		if r.Chance(p) {
			ms = append(ms, member{k, v})
		}
	}
	add(70, "cluster_name", fmt.Sprintf("%q", g.word()))
	add(15, "cluster_variable", `"var"`)
	add(20, "upstream_protocol", `"Http1"`)
	add(15, "cluster_header", `"x-cluster"`)
	if r.Chance(35) {
		n := r.Intn(3)
		var p []string
		for i := 0; i < n; i++ {
			p = append(p, `{"cluster":`+g.cwWire(true)+`}`)
		}
		ms = append(ms, member{"weighted_clusters", "[" + strings.Join(p, ",") + "]"})
	}
	add(25, "hash_policy", r.PickS([]string{`[]`, `[{"header":{"key":"k"}}]`, `[{"cookie":{"name":"c","path":"/","ttl":"90s"}},{"source_ip":{}}]`, `null`}))
	add(60, "metadata_match", g.metaJSON(false, "ra"))
	switch r.Intn(8) {
	case 0:
		ms = append(ms, member{"timeout", "0"})
	case 1:
		g.c.Count("pair.ra.timeout=number")
		ms = append(ms, member{"timeout", "5"})
	case 2:
		g.c.Count("pair.ra.timeout=null")
		ms = append(ms, member{"timeout", "null"})
	case 3:
	default:
		ms = append(ms, member{"timeout", fmt.Sprintf("%q", g.durString())})
	}
	add(35, "retry_policy", r.PickS([]string{g.retryCanon(), g.retryCanon(), "null"}))
	add(25, "prefix_rewrite", `"/p"`)
	add(20, "regex_rewrite", r.PickS([]string{`{"pattern":{"regex":"^/a"},"substitution":"/b"}`, `{"pattern":{"google_re2":{"max_program_size":7},"regex":"x"}}`, `{}`, `null`}))
	add(20, "host_rewrite", `"h"`)
	add(20, "auto_host_rewrite", r.PickS([]string{"true", "false"}))
	add(10, "auto_host_rewrite_header", `"x-h"`)
	add(25, "request_headers_to_add", g.headerOpts())
	add(20, "request_headers_to_remove", r.PickS([]string{`[]`, `["a","b"]`, `null`}))
	add(20, "response_headers_to_add", g.headerOpts())
	add(15, "response_headers_to_remove", `["c"]`)
	if r.Chance(4) {
		ms = spoilMember(ms, "weighted_clusters", `{"a":1}`)
		g.c.Count("pair.ra.malformed")
	}
	return g.obj(ms)
}

// raCanon: a route action as RouteAction.MarshalJSON writes it
func (g *wgen) raCanon() string {
	r := g.r
	ms := []member{{"timeout", fmt.Sprintf("%q", durPool[r.Intn(len(durPool))].String())}}
	if r.Bool() {
		ms = append(ms, member{"cluster_name", `"c1"`})
	}
	if r.Bool() {
		ms = append(ms, member{"metadata_match", g.metaJSON(true, "ra")})
	}
	if r.Chance(30) {
		ms = append(ms, member{"retry_policy", g.retryCanon()})
	}
	return g.obj(ms)
}

func (g *wgen) routerWire() string {
	r := g.r
	var ms []member
	add := func(p int, k, v string) {
		if r.Chance(p) {
			ms = append(ms, member{k, v})
		}
	}
	add(70, "match", r.PickS([]string{`{"prefix":"/"}`, `{"path":"/a","headers":[{"name":"h","value":"v","regex":true}]}`, `{"regex":"^/x"}`, `{}`, `null`,
		`{"variables":[{"name":"n","value":"v","model":"and"}],"dsl_expressions":[{"expression":"e"},{}]}`}))
	ms = append(ms, member{"route", g.raCanon()}) // RouteAction is not omitted by Router.MarshalJSON: keep it canonical
	add(25, "redirect", r.PickS([]string{`{"response_code":301,"path_redirect":"/n"}`, `{}`, `null`}))
	add(25, "direct_response", r.PickS([]string{`{"status":200,"body":"ok"}`, `{"status":0}`, `null`}))
	add(60, "metadata", g.metaJSON(false, "rt"))
	add(30, "per_filter_config", g.holeJSON())
	add(25, "request_mirror_policies", r.PickS([]string{`{"cluster":"m","percent":50}`, `{"trace_sampled":true}`, `{}`, `null`}))
	if r.Chance(4) {
		ms = spoilMember(ms, "per_filter_config", `[1]`)
		g.c.Count("pair.rt.malformed")
	}
	return g.obj(ms)
}

func (g *wgen) cbWire() string {
	r := g.r
	switch r.Intn(12) {
	case 0:
		return "null"
	case 1:
		return "[]"
	case 2:
		g.c.Count("pair.cb.malformed")
		return r.PickS([]string{`{}`, `{"max_connections":1}`, `"x"`, `7`, `[1]`, `[{"max_connections":"1"}]`, `[[]]`})
	}
	n := 1 + r.Intn(3)
	var p []string
	for i := 0; i < n; i++ {
		if r.Chance(10) {
			p = append(p, "null")
			continue
		}
		var ms []member
		for _, k := range []string{"max_connections", "max_pending_requests", "max_requests", "max_retries"} {
			if r.Chance(55) {
				ms = append(ms, member{k, g.num(0, 1, 1024, 65535, 4294967295)})
			}
		}
		p = append(p, g.obj(ms))
	}
	return "[" + strings.Join(p, ",") + "]"
}

var lnAddrs = []string{"127.0.0.1:80", "127.0.0.1:0", "0.0.0.0:2045", ":8080", "[::1]:8080", "[::]:80", "localhost:80", "127.0.0.1:http",
	"/tmp/mosn.sock", "@abstract", "nohost", "127.0.0.1", "127.0.0.1:99999", "300.1.1.1:80", "127.1:80", "010.0.0.1:80", "[fe80::1%lo]:80", "", "127.0.0.1:080"}

// fcCanon: a filter chain as FilterChain.MarshalJSON writes it
func (g *wgen) fcCanon() string {
	r := g.r
	ms := []member{{"tls_context_set", r.PickS([]string{`[{}]`, `[{"status":true,"server_name":"a"}]`, `[{"type":"t"},{"alpn":"h2"}]`})}}
	if r.Bool() {
		ms = append(ms, member{"match", `"m"`})
	}
	if r.Chance(70) {
		ms = append(ms, member{"filters", r.PickS([]string{`[{"type":"proxy","go_plugin_config":null,"config":{"k":1}}]`, `[{"type":"x","go_plugin_config":{"so_path":"p","factory_method":"F"}}]`})})
	}
	return g.obj(ms)
}

func (g *wgen) lnWire() string {
	r := g.r
	var ms []member
	add := func(p int, k, v string) {
		if r.Chance(p) {
			ms = append(ms, member{k, v})
		}
	}
	add(70, "name", fmt.Sprintf("%q", g.word()))
	add(40, "type", r.PickS([]string{`"ingress"`, `"egress"`, `""`, `"Ingress"`}))
	if r.Chance(60) {
		ms = append(ms, member{"address", fmt.Sprintf("%q", lnAddrs[r.Intn(7)])}) // resolvable under tcp and udp
	} else {
		add(90, "address", fmt.Sprintf("%q", lnAddrs[r.Intn(len(lnAddrs))]))
	}
	add(30, "bind_port", r.PickS([]string{"true", "false"}))
	add(15, "reuseport", "true")
	add(60, "network", r.PickS([]string{`"tcp"`, `"TCP"`, `"Tcp"`, `"udp"`, `"UDP"`, `"unix"`, `"Unix"`, `""`, `"sctp"`, `null`, `"tcp4"`, `"tcp"`, `"udp"`, `"TCP"`, `""`}))
	add(25, "use_original_dst", r.PickS([]string{`"redirect"`, `"tproxy"`, `""`}))
	add(25, "access_logs", r.PickS([]string{`[]`, `[{"log_path":"/a","log_format":"%f"}]`, `[{}]`, `null`}))
	add(20, "listener_filters", `[{"type":"original_dst","go_plugin_config":null}]`)
	if r.Chance(70) {
		n := r.Intn(3)
		var p []string
		for i := 0; i < n; i++ {
			p = append(p, g.fcCanon())
		}
		ms = append(ms, member{"filter_chains", "[" + strings.Join(p, ",") + "]"})
	}
	add(20, "stream_filters", `[{"type":"f","go_plugin_config":null,"config":{"a":[1]}}]`)
	add(20, "inspector", r.PickS([]string{"true", "false"}))
	add(30, "connection_idle_timeout", r.PickS([]string{`"90s"`, `"0s"`, `null`, `"1h"`, fmt.Sprintf("%q", g.durString())}))
	add(20, "default_read_buffer_size", g.num(0, 1, 1024, 65536))
	if r.Chance(4) {
		ms = spoilMember(ms, "bind_port", `"yes"`)
		g.c.Count("pair.ln.malformed")
	}
	return g.obj(ms)
}

func resolveTok(network, addr string) string {
	var a net.Addr
	var err error
	switch network {
	case "tcp":
		a, err = net.ResolveTCPAddr("tcp", addr)
	case "udp":
		a, err = net.ResolveUDPAddr("udp", addr)
	case "unix":
		a, err = net.ResolveUnixAddr("unix", addr)
	}
	if err != nil {
		return "err"
	}
	return "ok" + esc(a.String())
}

// lnOracle: what the resolver answers for the listener's address under each network, and for its own answers.
func lnOracle(wire string) string {
	var lc v2.ListenerConfig
	json.Unmarshal([]byte(wire), &lc) // the generic codec, to read the address member as encoding/json sees it
	var toks []string
	for _, n := range []string{"tcp", "udp", "unix"} {
		a := resolveTok(n, lc.AddrConfig)
		again := "-"
		if strings.HasPrefix(a, "ok") {
			again = resolveTok(n, unesc(a[2:]))
		}
		toks = append(toks, n+"="+a+"/"+again)
	}
	return strings.Join(toks, ",")
}

func unesc(raw string) string {
	var sb strings.Builder
	for i := 0; i < len(raw); i++ {
		if raw[i] == '%' && i+2 < len(raw) {
			var x int
			fmt.Sscanf(raw[i+1:i+3], "%02x", &x)
			sb.WriteByte(byte(x))
			i += 2
		} else {
			sb.WriteByte(raw[i])
		}
	}
	return sb.String()
}

func pairs2(c *hx.Ctx, n int) {
	g := &wgen{c: c, r: c.Rng.Fork(), spoil: -1}
	for i := 0; i < n; i++ {
		var kind, wire, extra string
		var t reflect.Type
		switch i % 5 {
		case 0:
			kind, wire, t = "cw", g.cwWire(false), reflect.TypeOf(v2.ClusterWeight{})
		case 1:
			kind, wire, t = "ra", g.raWire(), reflect.TypeOf(v2.RouteAction{})
		case 2:
			kind, wire, t = "rt", g.routerWire(), reflect.TypeOf(v2.Router{})
		case 3:
			kind, wire, t = "cb", g.cbWire(), reflect.TypeOf(v2.CircuitBreakers{})
		default:
			kind, wire, t = "ln", g.lnWire(), reflect.TypeOf(v2.Listener{})
			extra = " " + lnOracle(wire)
		}
		res := cycle(t, wire)
		if res == "err" {
			c.Count("pair." + kind + ".result=err")
		} else {
			c.Count("pair." + kind + ".result=ok")
		}
		c.Emit("C19", "pair "+kind+" "+esc(wire)+extra, res)
	}
}

var _ = hx.Hex
