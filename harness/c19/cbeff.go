//go:build verif

package c19

// cbeff: the EFFECTIVE circuit-breaker thresholds of a cluster before the dump and after the reload.
//
// MOSN does not group thresholds by priority: cluster.NewResourceManager uses circuit_breakers[0] only.  So the position
// of every entry is configuration: an entry that sets no limit (`{}`, `{"priority":"HIGH"}` — priority is not a member
// MOSN knows —, `{"max_connections":0}`, null) in front of one that does means "no limits", and a dump that drops it moves
// the next entry to the front: after a reload the cluster has other limits, although the dumped JSON is a fixpoint of
// the (Un)MarshalJSON pair.
//
// Case: `cbeff <esc circuit_breakers wire>`: lists of 0..3 entries with all-zero entries at every position (plus null,
// wrong kinds).  The wire is put into a cluster document, decoded into v2.Cluster, the cluster is built with
// cluster.NewCluster and the limits of its resource manager are read; the cluster is marshalled, decoded and built
// again.  Output: `ok:<entries>/<connections,pending,requests,retries>:<the same after the reload>` | `err`.

import (
	"encoding/json"
	"fmt"
	"strings"

	v2 "mosn.io/mosn/pkg/config/v2"
	"mosn.io/mosn/pkg/upstream/cluster"
	"verif/harness/hx"
)

func (g *wgen) cbEntry(zero bool) string {
	r := g.r
	if zero {
		switch r.Intn(6) {
		case 0:
			return "{}"
		case 1:
			return `{"priority":"HIGH"}`
		case 2:
			return "null"
		case 3:
			return g.obj([]member{{"max_connections", "0"}})
		case 4:
			return g.obj([]member{{"max_retries", "0"}, {"priority", `"DEFAULT"`}})
		default:
			return g.obj([]member{{"max_connections", "0"}, {"max_pending_requests", "0"}, {"max_requests", "0"}, {"max_retries", "0"}})
		}
	}
	var ms []member
	keys := []string{"max_connections", "max_pending_requests", "max_requests", "max_retries"}
	for _, k := range keys {
		if r.Chance(55) {
			ms = append(ms, member{k, g.num(0, 1, 10, 1024, 65535, 4294967295)})
		}
	}
	if len(ms) == 0 {
		ms = append(ms, member{keys[r.Intn(4)], g.num(1, 10, 4294967295)})
	}
	if r.Chance(30) {
		ms = append(ms, member{"priority", r.PickS([]string{`"DEFAULT"`, `"HIGH"`, `0`})})
	}
	return g.obj(ms)
}

func (g *wgen) cbEffWire() (string, string) {
	r := g.r
	switch r.Intn(20) {
	case 0:
		return "null", "null"
	case 1:
		return r.PickS([]string{`{}`, `{"max_connections":1}`, `"x"`, `7`, `[1]`, `[{"max_connections":"1"}]`, `[[]]`, `[{"max_retries":true}]`, `[{"max_requests":[]}]`}), "malformed"
	}
	n := r.Intn(4)
	var p []string
	shape := ""
	for i := 0; i < n; i++ {
		z := r.Chance(45)
		p = append(p, g.cbEntry(z))
		if z {
			shape += "z"
		} else {
			shape += "L"
		}
	}
	if shape == "" {
		shape = "empty"
	}
	return "[" + strings.Join(p, ",") + "]", shape
}

func cbLimits(cfg v2.Cluster) string {
	cl := cluster.NewCluster(cfg)
	rm := cl.Snapshot().ClusterInfo().ResourceManager()
	return fmt.Sprintf("%d/%d,%d,%d,%d", len(cfg.CirBreThresholds.Thresholds), rm.Connections().Max(), rm.PendingRequests().Max(),
		rm.Requests().Max(), rm.Retries().Max())
}

func cbEffOne(wire string) string {
	doc := `{"name":"cbeff","type":"SIMPLE","lb_type":"LB_RANDOM","circuit_breakers":` + wire + `}`
	var c0 v2.Cluster
	if err := json.Unmarshal([]byte(doc), &c0); err != nil {
		return "err"
	}
	e0 := cbLimits(c0)
	b, err := json.Marshal(c0)
	if err != nil {
		return "ok:" + e0 + ":dump-fails"
	}
	var c1 v2.Cluster
	if err := json.Unmarshal(b, &c1); err != nil {
		return "ok:" + e0 + ":reload-fails"
	}
	return "ok:" + e0 + ":" + cbLimits(c1)
}

func cbEffs(c *hx.Ctx, n int) {
	g := &wgen{c: c, r: c.Rng.Fork(), spoil: -1}
	fixed := []string{`[{"priority":"HIGH"},{"max_connections":10}]`, `[{},{"max_connections":10}]`, `[{"max_connections":10},{}]`,
		`[null,{"max_retries":3}]`, `[{"max_connections":0},{"max_requests":5},{}]`, `[]`, `[{}]`, `[{},{},{"max_pending_requests":1}]`}
	for i := 0; i < n; i++ {
		var wire, shape string
		if i < len(fixed) {
			wire, shape = fixed[i], "fixed"
		} else {
			wire, shape = g.cbEffWire()
		}
		res := ""
		if _, panicked := hx.Safe(func() { res = cbEffOne(wire) }); panicked {
			res = "panic"
		}
		c.Count("cbeff.entries=" + shape)
		c.Count("cbeff.result=" + strings.SplitN(res, ":", 2)[0])
		c.Emit("C19", "cbeff "+esc(wire), res)
	}
}
