//go:build verif

// Package c19: configuration survives dump and reload unchanged.
//
//   sample / gen : real configmanager.Load -> SetMosnConfig / ParseClusterConfig + the real cluster manager /
//                  ParseListenerConfig + SetListenerConfig / SetRouter / SetExtend -> transferConfig (InheritMosnconfig),
//                  on EVERY config sample under configs/ and examples/ and on generated configurations; the dump is
//                  loaded again and dumped again; first vs second dump compared (key-sorted, name-keyed lists sorted).
//   generic      : encoding/json on each v2 struct whose codec is the generic one, against the field-table codec model.
//   pair         : the custom (Un)MarshalJSON pairs FilterChain, Host, RetryPolicy against their models.
//   fix          : EVERY v2 struct, custom (Un)MarshalJSON included: Unmarshal / Marshal twice, second output = first.
//   dur          : time.ParseDuration / Duration.String against the digit-level model.
package c19

import (
	"bytes"
	"crypto/sha1"
	"encoding/hex"
	"encoding/json"
	"fmt"
	"io/ioutil"
	"net"
	"os"
	"path/filepath"
	"reflect"
	"sort"
	"strings"
	"time"

	"github.com/ghodss/yaml"
	"mosn.io/api"
	v2 "mosn.io/mosn/pkg/config/v2"
	"mosn.io/mosn/pkg/configmanager"
	_ "mosn.io/mosn/pkg/filter/network/proxy"
	"mosn.io/mosn/pkg/upstream/cluster"
	"verif/harness/hx"
)

func init() { hx.Register("C19", Run) }

const v2Pkg = "mosn.io/mosn/pkg/config/v2"

func esc(s string) string {
	var sb strings.Builder
	for i := 0; i < len(s); i++ {
		c := s[i]
		if c >= 'a' && c <= 'z' || c >= 'A' && c <= 'Z' || c >= '0' && c <= '9' || c == '_' || c == '.' || c == '-' {
			sb.WriteByte(c)
		} else {
			fmt.Fprintf(&sb, "%%%02x", c)
		}
	}
	return sb.String()
}

// canon: key-sorted compact JSON with number literals preserved.
func canon(b []byte) (string, error) {
	dec := json.NewDecoder(bytes.NewReader(b))
	dec.UseNumber()
	var v interface{}
	if err := dec.Decode(&v); err != nil {
		return "", err
	}
	return canonV(v), nil
}

func canonV(v interface{}) string {
	var buf bytes.Buffer
	enc := json.NewEncoder(&buf)
	enc.SetEscapeHTML(false)
	enc.Encode(v)
	return strings.TrimSpace(buf.String())
}

// ---------------------------------------------------------------- load -> dump

func precheck(path string) string {
	content, err := ioutil.ReadFile(path)
	if err != nil {
		return "read"
	}
	if ext := filepath.Ext(path); ext == ".yaml" || ext == ".yml" {
		b, err := yaml.YAMLToJSON(content)
		if err != nil {
			return "yaml"
		}
		content = b
	}
	cfg := &v2.MOSNConfig{}
	if err := json.Unmarshal(content, cfg); err != nil {
		return "unmarshal"
	}
	for _, c := range cfg.ClusterManager.Clusters {
		if c.Name == "" {
			return "cluster-without-name"
		}
	}
	if len(cfg.Servers) > 1 {
		return "multiple-servers"
	}
	for _, s := range cfg.Servers {
		for _, l := range s.Listeners {
			var err error
			switch strings.ToLower(l.Network) {
			case "udp":
				_, err = net.ResolveUDPAddr("udp", l.AddrConfig)
			case "unix":
				_, err = net.ResolveUnixAddr("unix", l.AddrConfig)
			case "", "tcp":
				_, err = net.ResolveTCPAddr("tcp", l.AddrConfig)
			default:
				return "listener-network"
			}
			if err != nil {
				return "listener-address"
			}
			if len(l.FilterChains) == 0 {
				return "listener-without-filter-chain"
			}
		}
	}
	return ""
}

// loadDump: what mosn does with a config file at start (pkg/mosn: NewMosn / initClusterManager / initServer /
// HandleExtendConfig), as far as the effective config is concerned, then the persisted dump.
func loadDump(path string) ([]byte, string) {
	if why := precheck(path); why != "" {
		return nil, why
	}
	configmanager.Reset()
	cfg := configmanager.Load(path)
	configmanager.SetMosnConfig(cfg)
	clusters, cmap := configmanager.ParseClusterConfig(cfg.ClusterManager.Clusters)
	cm := cluster.NewClusterManagerSingleton(clusters, cmap, &cfg.ClusterManager)
	defer func() {
		if d, ok := cm.(interface{ Destroy() }); ok {
			d.Destroy()
		}
	}()
	if len(cfg.Servers) > 0 {
		sc := cfg.Servers[0]
		for i := range sc.Listeners {
			lc := configmanager.ParseListenerConfig(&sc.Listeners[i], nil, nil)
			configmanager.SetListenerConfig(*lc)
			if dr, err := configmanager.ParseRouterConfiguration(&lc.FilterChains[0]); err == nil && dr.RouterConfigName != "" {
				configmanager.SetRouter(*dr) // RouterManager.AddOrUpdateRouters stores a new router unconditionally
			}
		}
		for _, rc := range sc.Routers {
			if rc != nil && rc.RouterConfigName != "" {
				configmanager.SetRouter(*rc)
			}
		}
	}
	for _, e := range cfg.Extends {
		configmanager.SetExtend(e.Type, e.Config)
	}
	b, err := configmanager.InheritMosnconfig()
	if err != nil {
		return nil, "dump-error"
	}
	return b, ""
}

func sortNamed(v interface{}) interface{} {
	switch x := v.(type) {
	case map[string]interface{}:
		for k, e := range x {
			x[k] = sortNamed(e)
			if arr, ok := x[k].([]interface{}); ok && (k == "listeners" || k == "clusters" || k == "routers") {
				key := "name"
				if k == "routers" {
					key = "router_config_name"
				}
				sort.SliceStable(arr, func(i, j int) bool {
					a, _ := arr[i].(map[string]interface{})
					b, _ := arr[j].(map[string]interface{})
					as, _ := a[key].(string)
					bs, _ := b[key].(string)
					return as < bs
				})
			}
		}
		return x
	case []interface{}:
		for i := range x {
			x[i] = sortNamed(x[i])
		}
		return x
	}
	return v
}

func dumpHash(b []byte) string {
	dec := json.NewDecoder(bytes.NewReader(b))
	dec.UseNumber()
	var v interface{}
	dec.Decode(&v)
	s := canonV(sortNamed(v))
	h := sha1.Sum([]byte(s))
	return hex.EncodeToString(h[:8])
}

// flatten lists every scalar of a JSON tree as "key.key.key=value" (array positions dropped, durations in
// canonical spelling, tls_context read as a one-element tls_context_set).
func flatten(v interface{}, path string, out map[string]bool) {
	switch x := v.(type) {
	case map[string]interface{}:
		for k, e := range x {
			kk := strings.ToLower(k)
			if kk == "tls_context" && strings.HasSuffix(path, "filter_chains") {
				kk = "tls_context_set"
			}
			flatten(e, path+"."+kk, out)
		}
	case []interface{}:
		for _, e := range x {
			flatten(e, path, out)
		}
	case string:
		if d, err := time.ParseDuration(x); err == nil && x != "0" {
			x = d.String()
		}
		out[path+"=s:"+x] = true
	case json.Number:
		out[path+"=n:"+x.String()] = true
	case bool:
		out[path+fmt.Sprintf("=b:%v", x)] = true
	}
}

// normalised: scalars the parsers are known to rewrite on load (defaults, clamping, lower-casing) or that a
// custom pair drops by design (non-string lb metadata); zero values may disappear behind omitempty.
func normalised(fact string) bool {
	i := strings.LastIndex(fact, "=")
	path, val := fact[:i], fact[i+1:]
	if val == "s:" || val == "n:0" || val == "b:false" || val == "s:0s" {
		return true
	}
	for _, p := range []string{".listeners.network", ".clusters.max_request_per_conn", ".clusters.conn_buffer_limit_bytes",
		".clusters.hosts.weight", ".clusters.lb_subset_config.fall_back_policy"} {
		if strings.HasSuffix(path, p) {
			return true
		}
	}
	if strings.Contains(path, ".filter_metadata.mosn.lb.") && !strings.HasPrefix(val, "s:") {
		return true // only string values are metadata
	}
	return false
}

// schema of v2.MOSNConfig as JSON key paths, read off the struct tags only (never through the (Un)MarshalJSON
// methods under test): exact scalar paths, and prefixes below which everything is kept as is (untyped holes, maps).
var schemaPaths, schemaOpaque = func() (map[string]bool, []string) {
	paths := map[string]bool{}
	var opaque []string
	var walk func(t reflect.Type, path string, depth int)
	walk = func(t reflect.Type, path string, depth int) {
		if depth > 25 {
			return
		}
		if isHole(t) || t == rawType {
			opaque = append(opaque, path)
			return
		}
		if t.PkgPath() != "" && t.PkgPath() != v2Pkg {
			paths[path] = true
			return
		}
		switch t.Kind() {
		case reflect.Ptr, reflect.Slice, reflect.Array:
			walk(t.Elem(), path, depth+1)
		case reflect.Map:
			opaque = append(opaque, path)
		case reflect.Struct:
			for i := 0; i < t.NumField(); i++ {
				f := t.Field(i)
				if f.Anonymous && f.Tag.Get("json") == "" {
					walk(f.Type, path, depth+1)
					continue
				}
				if k, ok := jsonKey(f); ok {
					walk(f.Type, path+"."+strings.ToLower(k), depth+1)
				}
			}
		default:
			paths[path] = true
		}
	}
	walk(reflect.TypeOf(v2.MOSNConfig{}), "", 0)
	return paths, opaque
}()

// understood: the JSON key path is one MOSN's config types declare.
func understood(path string) bool {
	if schemaPaths[path] {
		return true
	}
	for _, p := range schemaOpaque {
		if path == p || strings.HasPrefix(path, p+".") {
			return true
		}
	}
	return false
}

// lost: scalars of the input configuration, at paths MOSN understands, that the first dump no longer has.
func lost(c *hx.Ctx, kind string, orig []byte, d1 []byte) int {
	var a, b interface{}
	da := json.NewDecoder(bytes.NewReader(orig))
	da.UseNumber()
	if da.Decode(&a) != nil {
		return 0
	}
	db := json.NewDecoder(bytes.NewReader(d1))
	db.UseNumber()
	db.Decode(&b)
	fa, fb := map[string]bool{}, map[string]bool{}
	flatten(a, "", fa)
	flatten(b, "", fb)
	n := 0
	for f := range fa {
		if !fb[f] && understood(f[:strings.LastIndex(f, "=")]) && !normalised(f) {
			n++
			c.Count(kind + ".lost=" + f[:strings.LastIndex(f, "=")])
		}
	}
	return n
}

func readJSON(path string) []byte {
	content, err := ioutil.ReadFile(path)
	if err != nil {
		return nil
	}
	if ext := filepath.Ext(path); ext == ".yaml" || ext == ".yml" {
		content, _ = yaml.YAMLToJSON(content)
	}
	return content
}

// roundTrip loads path, dumps, loads the dump, dumps again; returns the impl token.
func roundTrip(c *hx.Ctx, path, tmp, kind string) string {
	d1, why := loadDump(path)
	if why != "" {
		c.Count(kind + ".unloadable=" + why)
		return "unloadable:" + why
	}
	nlost := lost(c, kind, readJSON(path), d1)
	p2 := filepath.Join(tmp, "dump1.json")
	ioutil.WriteFile(p2, d1, 0644)
	d2, why := loadDump(p2)
	if why != "" {
		c.Count(kind + ".reload-fails=" + why)
		return fmt.Sprintf("ok:%s:reload-%s:lost%d", dumpHash(d1), why, nlost)
	}
	c.Count(kind + ".loaded")
	return fmt.Sprintf("ok:%s:%s:lost%d", dumpHash(d1), dumpHash(d2), nlost)
}

func samples(c *hx.Ctx, tmp string) {
	repo := os.Getenv("VERIF_REPO")
	if repo == "" {
		repo = "/repo"
	}
	var files []string
	for _, root := range []string{"configs", "examples"} {
		filepath.Walk(filepath.Join(repo, root), func(p string, fi os.FileInfo, err error) error {
			if err == nil && !fi.IsDir() {
				if e := filepath.Ext(p); e == ".json" || e == ".yaml" || e == ".yml" {
					files = append(files, p)
				}
			}
			return nil
		})
	}
	sort.Strings(files)
	for _, f := range files {
		rel := strings.TrimPrefix(f, repo+"/")
		res := roundTrip(c, f, tmp, "sample")
		if strings.HasPrefix(res, "unloadable") {
			c.Count("sample.unloadable-file=" + rel)
		}
		c.Emit("C19", "sample "+esc(rel), res)
	}
}

// ---------------------------------------------------------------- reflection helpers

var (
	rawType  = reflect.TypeOf(json.RawMessage{})
	holeMap  = reflect.TypeOf(map[string]interface{}{})
	durCfg   = reflect.TypeOf(api.DurationConfig{})
	durType  = reflect.TypeOf(time.Duration(0))
	metaType = reflect.TypeOf(api.Metadata{})
	marshT   = reflect.TypeOf((*json.Marshaler)(nil)).Elem()
	unmarshT = reflect.TypeOf((*json.Unmarshaler)(nil)).Elem()
)

func isHole(t reflect.Type) bool {
	return t == holeMap || (t.Kind() == reflect.Interface && t.NumMethod() == 0)
}

func hasCustom(t reflect.Type) bool {
	pt := reflect.PtrTo(t)
	return t.Implements(marshT) || pt.Implements(marshT) || t.Implements(unmarshT) || pt.Implements(unmarshT)
}

func jsonKey(f reflect.StructField) (string, bool) {
	if f.PkgPath != "" {
		return "", false
	}
	tag := f.Tag.Get("json")
	name := strings.Split(tag, ",")[0]
	if name == "-" {
		return "", false
	}
	if name == "" {
		name = f.Name
	}
	return name, true
}

// genericType mirrors Model.ConfigCodec.expandTy: scalars, untyped holes (not RawMessage), generic v2 structs without
// custom marshalers / embedded fields / external field types, slices, string-keyed maps, pointers to scalars or structs.
// classified: custom pairs the extractor classifies from their method bodies (Gen/ConfigPairs.lean) and the model unfolds:
// mirror / metadata wrappers go through their embedded (or private) config struct, boxed ones through their single field.
// The driver answers `E` for a struct it cannot unfold, so a pair that is no longer recognised shows up as a broken tie.
var classified = map[string]reflect.Type{
	"CircuitBreakers":     reflect.TypeOf([]v2.Thresholds{}),
	"ClusterWeight":       reflect.TypeOf(v2.ClusterWeightConfig{}),
	"DelayInject":         reflect.TypeOf(v2.DelayInjectConfig{}),
	"FaultInject":         reflect.TypeOf(v2.FaultInjectConfig{}),
	"HealthCheck":         reflect.TypeOf(v2.HealthCheckConfig{}),
	"HealthCheckFilter":   reflect.TypeOf(v2.HealthCheckFilterConfig{}),
	"Host":                reflect.TypeOf(v2.HostConfig{}),
	"KeepAlive":           reflect.TypeOf(v2.KeepAliveConfig{}),
	"RetryPolicy":         reflect.TypeOf(v2.RetryPolicyConfig{}),
	"RouteAction":         reflect.TypeOf(v2.RouterActionConfig{}),
	"Router":              reflect.TypeOf(v2.RouterConfig{}),
	"SecretConfigWrapper": reflect.TypeOf(v2.SecretConfigWrapperConfig{}),
}

// wireType: the type whose JSON form a value of t has
func wireType(t reflect.Type) reflect.Type {
	if t.PkgPath() == v2Pkg {
		if w, ok := classified[t.Name()]; ok {
			return w
		}
	}
	return t
}

func genericType(t reflect.Type, depth int) bool {
	if depth > 30 {
		return false
	}
	if w := wireType(t); w != t {
		return genericType(w, depth+1)
	}
	if isHole(t) || t == durCfg {
		return true
	}
	if t == rawType || (t.PkgPath() != "" && t.PkgPath() != v2Pkg) {
		return false
	}
	switch t.Kind() {
	case reflect.String, reflect.Bool, reflect.Int, reflect.Int8, reflect.Int16, reflect.Int32, reflect.Int64,
		reflect.Uint, reflect.Uint8, reflect.Uint16, reflect.Uint32, reflect.Uint64, reflect.Float32, reflect.Float64:
		return !hasCustom(t)
	case reflect.Slice:
		return t.Elem().Kind() != reflect.Uint8 && genericType(t.Elem(), depth+1)
	case reflect.Map:
		return t.Key().Kind() == reflect.String && genericType(t.Elem(), depth+1)
	case reflect.Ptr:
		e := t.Elem()
		if e == durCfg {
			return true
		}
		if isHole(e) {
			return false
		}
		switch e.Kind() {
		case reflect.Slice, reflect.Map, reflect.Ptr, reflect.Interface:
			return false
		}
		return genericType(e, depth+1)
	case reflect.Struct:
		if t.PkgPath() != v2Pkg || hasCustom(t) {
			return false
		}
		for i := 0; i < t.NumField(); i++ {
			f := t.Field(i)
			if f.Anonymous {
				return false
			}
			if _, ok := jsonKey(f); !ok {
				continue
			}
			if !genericType(f.Type, depth+1) {
				return false
			}
		}
		return true
	}
	return false
}

func v2Structs() []reflect.Type {
	seen := map[reflect.Type]bool{}
	var out []reflect.Type
	var walk func(t reflect.Type)
	walk = func(t reflect.Type) {
		switch t.Kind() {
		case reflect.Ptr, reflect.Slice, reflect.Array, reflect.Map:
			walk(t.Elem())
		case reflect.Struct:
			if seen[t] || (t.PkgPath() != v2Pkg && t.PkgPath() != "mosn.io/mosn/pkg/configmanager") {
				return
			}
			seen[t] = true
			if t.PkgPath() == v2Pkg {
				out = append(out, t)
			}
			for i := 0; i < t.NumField(); i++ {
				walk(t.Field(i).Type)
			}
		}
	}
	walk(reflect.TypeOf(configmanager.VerifLiveConfig{}))
	for _, x := range []interface{}{v2.Proxy{}, v2.StreamGzip{}, v2.StreamPayloadLimit{}, v2.StreamTranscoder{}, v2.StreamRouteConfig{},
		v2.FaultToleranceFilterConfig{}, v2.SkyWalkingTraceConfig{}, v2.StreamDSL{}, v2.AbortInject{}} {
		walk(reflect.TypeOf(x))
	}
	sort.Slice(out, func(i, j int) bool { return out[i].Name() < out[j].Name() })
	return out
}

// ---------------------------------------------------------------- wire generators

type wgen struct {
	c *hx.Ctx
	r *hx.Rng
	// malformed: index of the field value to spoil (counted down), -1 = none
	spoil int
}

func (g *wgen) word() string {
	return g.r.PickS([]string{"a", "b", "srv", "x1", "", "v", "127.0.0.1:80", "Ab_c", "tcp",
		"10.0.0.0/8", "0.0.0.0/0", "192.168.1.1/32", "::/0", "fe80::/10", "10.0.0.0/33", "a", "b", "srv"})
}

func caseVariant(r *hx.Rng, k string) string {
	switch r.Intn(8) {
	case 0:
		return strings.ToUpper(k)
	case 1:
		return strings.Title(k)
	}
	return k
}

func (g *wgen) holeJSON() string {
	return g.r.PickS([]string{`{}`, `null`, `{"k":1}`, `{"s":"x","n":{"a":[1,"b",true,null]}}`, `{"z":2,"a":{"b":{}}}`, `{"l":[]}`,
		`{"zone":"a","version":"1.0"}`, `{"zone":"a","n":1,"e":""}`})
}

func (g *wgen) wrongKind(t reflect.Type) string {
	switch t.Kind() {
	case reflect.String:
		return "7"
	case reflect.Bool:
		return `"true"`
	case reflect.Slice:
		return `{"a":1}`
	case reflect.Map, reflect.Struct:
		return `[1]`
	case reflect.Ptr:
		return g.wrongKind(t.Elem())
	}
	return `"x"`
}

// value renders a JSON value for Go type t.
func (g *wgen) value(t reflect.Type, depth int) string {
	r := g.r
	t = wireType(t)
	if isHole(t) {
		return g.holeJSON()
	}
	switch {
	case t == durCfg:
		switch r.Intn(12) {
		case 0:
			return "0"
		case 1:
			return "null"
		case 2:
			return "7"
		}
		return fmt.Sprintf("%q", g.durString())
	case t.PkgPath() != "" && t.PkgPath() != v2Pkg && t.Kind() == reflect.Uint64:
		return r.PickS([]string{"0", "1", "1024", "1536", `"1KB"`, `"10 MB"`, `"1.5MB"`, `"x"`, "1048576",
			`"0"`, `"1B"`, `"1023B"`, `"1024B"`, `"1kb"`, `"1MB"`, `"1GB"`, `"1TB"`, `"1PB"`, `"15EB"`, `"16EB"`, `"1KB "`, `"1K"`, `"1048575"`,
			"18446744073709551615", "18446744073709551616", `"18446744073709551615B"`, `"-1"`, `""`})
	case t.PkgPath() != "" && t.PkgPath() != v2Pkg:
		return "null"
	}
	if g.spoil == 0 {
		g.spoil = -1
		g.c.Count("generic.spoiled=" + t.Kind().String())
		return g.wrongKind(t)
	}
	if g.spoil > 0 {
		g.spoil--
	}
	if r.Chance(6) {
		return "null"
	}
	switch t.Kind() {
	case reflect.String:
		return fmt.Sprintf("%q", g.word())
	case reflect.Bool:
		return r.PickS([]string{"true", "false"})
	case reflect.Uint8:
		return fmt.Sprint(r.Intn(4))
	case reflect.Int, reflect.Int8, reflect.Int16, reflect.Int32, reflect.Int64, reflect.Uint, reflect.Uint16, reflect.Uint32, reflect.Uint64,
		reflect.Float32, reflect.Float64:
		return fmt.Sprint([]int{0, 0, 1, 2, 7, 80, 1024, 65535}[r.Intn(8)])
	case reflect.Slice:
		n := []int{0, 1, 1, 2}[r.Intn(4)]
		if depth > 5 {
			n = 0
		}
		var parts []string
		for i := 0; i < n; i++ {
			parts = append(parts, g.value(t.Elem(), depth+1))
		}
		return "[" + strings.Join(parts, ",") + "]"
	case reflect.Map:
		if r.Chance(40) || depth > 5 {
			return "{}"
		}
		return `{"k1":` + g.value(t.Elem(), depth+1) + `,"k0":` + g.value(t.Elem(), depth+1) + `}`
	case reflect.Ptr:
		return g.value(t.Elem(), depth+1)
	case reflect.Struct:
		return g.object(t, depth+1)
	}
	return "null"
}

func (g *wgen) object(t reflect.Type, depth int) string {
	r := g.r
	if w := wireType(t); w != t {
		return g.value(w, depth)
	}
	var parts []string
	dupAt := map[int]int{}
	var fields []reflect.StructField
	var collect func(t reflect.Type)
	collect = func(t reflect.Type) {
		for i := 0; i < t.NumField(); i++ {
			f := t.Field(i)
			if f.Anonymous && f.Tag.Get("json") == "" && f.Type.Kind() == reflect.Struct {
				collect(f.Type) // promoted members of an embedded config struct
				continue
			}
			fields = append(fields, f)
		}
	}
	collect(t)
	for _, f := range fields {
		k, ok := jsonKey(f)
		if !ok || !r.Chance(65) {
			continue
		}
		switch k {
		case "clusters_configs", "router_configs":
			continue // dynamic-mode directories: the marshalers would write files
		case "address":
			if t.Name() == "Listener" {
				parts = append(parts, fmt.Sprintf(`"address":"127.0.0.1:%d"`, 3000+r.Intn(1000)))
				continue
			}
		case "network":
			if t.Name() == "Listener" {
				parts = append(parts, `"network":`+r.PickS([]string{`"tcp"`, `"TCP"`, `"udp"`, `""`, `"unix"`, `"sctp"`}))
				continue
			}
		}
		// a duplicated scalar member: the last one wins (both non-null: a null after a value is a no-op in
		// encoding/json, which the model does not distinguish)
		if f.Type.Kind() == reflect.String && r.Chance(4) {
			parts = append(parts, fmt.Sprintf("%q:%q", caseVariant(r, k), g.word()), fmt.Sprintf("%q:%q", strings.ToUpper(k), "dup"))
			g.c.Count("generic.duplicate-member")
			dupAt[len(parts)-1] = len(parts) - 2
			continue
		}
		parts = append(parts, fmt.Sprintf("%q:%s", caseVariant(r, k), g.value(f.Type, depth)))
	}
	if r.Chance(15) {
		parts = append(parts, `"zz_unknown":{"x":[1]}`)
	}
	// members in any order (a duplicated pair is moved as one block)
	blocks := [][]string{}
	for i := 0; i < len(parts); i++ {
		if j, ok := dupAt[i+1]; ok && j == i {
			blocks = append(blocks, []string{parts[i], parts[i+1]})
			i++
		} else {
			blocks = append(blocks, []string{parts[i]})
		}
	}
	for i := len(blocks) - 1; i > 0; i-- {
		j := r.Intn(i + 1)
		blocks[i], blocks[j] = blocks[j], blocks[i]
	}
	parts = parts[:0]
	for _, b := range blocks {
		parts = append(parts, b...)
	}
	return "{" + strings.Join(parts, ",") + "}"
}

// cycle: Unmarshal into a fresh T, Marshal (j1), again (j2).
func cycle(t reflect.Type, wire string) string {
	v := reflect.New(t).Interface()
	if err := json.Unmarshal([]byte(wire), v); err != nil {
		return "err"
	}
	b1, err := json.Marshal(v)
	if err != nil {
		return "err"
	}
	j1, _ := canon(b1)
	v2 := reflect.New(t).Interface()
	j2 := "<second-load-fails>"
	if err := json.Unmarshal(b1, v2); err == nil {
		if b2, err := json.Marshal(v2); err == nil {
			j2, _ = canon(b2)
		}
	}
	return "ok:" + esc(j1) + ":" + esc(j2)
}

func generics(c *hx.Ctx, n int) {
	var gen []reflect.Type
	for _, t := range v2Structs() {
		if genericType(t, 0) {
			gen = append(gen, t)
		}
	}
	c.Count(fmt.Sprintf("generic.structs=%d", len(gen)))
	for i := 0; i < n; i++ {
		t := gen[i%len(gen)]
		g := &wgen{c: c, r: c.Rng.Fork(), spoil: -1}
		if g.r.Chance(10) {
			g.spoil = g.r.Intn(4)
		}
		wire := g.object(t, 0)
		res := cycle(t, wire)
		if res == "err" {
			c.Count("generic.result=err")
		} else {
			c.Count("generic.result=ok")
		}
		c.Emit("C19", "generic "+t.Name()+" "+esc(wire), res)
	}
}

// fixpoints: EVERY struct of v2 (custom marshalers included) through Unmarshal / Marshal twice: what the first cycle
// writes must be what the second writes (no Lean model: the predicate is evaluated on the implementation).
func fixpoints(c *hx.Ctx, n int) {
	all := v2Structs()
	for i := 0; i < n; i++ {
		t := all[i%len(all)]
		g := &wgen{c: c, r: c.Rng.Fork(), spoil: -1}
		wire := g.object(t, 0)
		res := cycle(t, wire)
		if res == "err" {
			c.Count("fix.result=err")
		} else {
			c.Count("fix.result=ok")
			if hasCustom(t) {
				c.Count("fix.custom=" + t.Name())
			}
		}
		c.Emit("C19", "fix "+t.Name()+" "+esc(wire), res)
	}
}

// ---------------------------------------------------------------- durations

var durPool = []time.Duration{0, 1, 999, 1000, 1500, 999999, time.Millisecond, 1500 * time.Microsecond, 999999999, time.Second,
	90 * time.Second, 59999999999, time.Minute, time.Hour, time.Hour + time.Minute + time.Second + 1, 36 * time.Hour,
	1<<63 - 1, -1 << 63, -1, -1500 * time.Millisecond}

var durWild = []string{"90s", "1.5h", "1h2m3.000000004s", ".5s", "1.s", "0", "+5s", "-0s", "5", "", "1m30", "1d", "s", ".s", "-", "+",
	"9223372036854775807ns", "9223372036854775808ns", "-9223372036854775808ns", "9223372036854775809ns", "2562047h47m16.854775807s",
	"2562047h47m16.854775808s", "2562048h", "1e3s", " 1s", "1s ", "1µs", "1μs", "1us", "1.000001ms", "0.5ms", "1.000000001s",
	"100000000000000000000s", "3000000h", "1h1h", "1s1ms1us1ns", "0.000000001s", "1.0s", "01s", "1m0.5s", "-1m30s", "1S", "1 s"}

func (g *wgen) durString() string {
	r := g.r
	switch r.Intn(4) {
	case 0:
		return durPool[r.Intn(len(durPool))].String()
	case 1:
		return durWild[r.Intn(len(durWild))]
	case 2:
		return time.Duration(r.U64() >> uint(r.Intn(64))).String()
	}
	// composed: integer or short fraction + unit, one or two terms
	units := []string{"ns", "us", "ms", "s", "m", "h"}
	maxFrac := []int{0, 3, 6, 9, 9, 9}
	var sb strings.Builder
	if r.Chance(15) {
		sb.WriteString("-")
	}
	for k := 0; k < 1+r.Intn(2); k++ {
		u := r.Intn(len(units))
		fmt.Fprintf(&sb, "%d", r.Intn(1000))
		if maxFrac[u] > 0 && r.Chance(40) {
			d := 1 + r.Intn(maxFrac[u])
			fmt.Fprintf(&sb, ".%0*d", d, r.Intn(pow10(d)))
		}
		sb.WriteString(units[u])
	}
	return sb.String()
}

func pow10(n int) int {
	p := 1
	for i := 0; i < n && p < 1000000000; i++ {
		p *= 10
	}
	return p
}

func durs(c *hx.Ctx, n int) {
	g := &wgen{c: c, r: c.Rng.Fork(), spoil: -1}
	emit := func(s string) {
		d, err := time.ParseDuration(s)
		if err != nil {
			c.Count("dur.result=err")
			c.Emit("C19", "dur ="+esc(s), "err")
			return
		}
		c.Count("dur.result=ok")
		c.Emit("C19", "dur ="+esc(s), "ok:"+esc(d.String()))
	}
	for _, s := range durWild {
		emit(s)
	}
	for _, d := range durPool {
		emit(d.String())
	}
	for i := 0; i < n; i++ {
		emit(g.durString())
	}
}

// ---------------------------------------------------------------- custom pairs

func (g *wgen) tlsObj() string {
	r := g.r
	var p []string
	add := func(k, v string) {
		if r.Chance(40) {
			p = append(p, fmt.Sprintf("%q:%s", caseVariant(r, k), v))
		}
	}
	add("status", r.PickS([]string{"true", "false"}))
	add("type", `"t"`)
	add("server_name", fmt.Sprintf("%q", g.word()))
	add("ca_cert", `"ca"`)
	add("cert_chain", `"chain"`)
	add("private_key", `"key"`)
	add("verify_client", "true")
	add("insecure_skip", "false")
	add("cipher_suites", `"ECDHE-RSA-AES256-GCM-SHA384"`)
	add("alpn", `"h2,http/1.1"`)
	add("fall_back", "true")
	add("callbacks", r.PickS([]string{`[]`, `["a","b"]`, `null`}))
	add("extend_verify", g.holeJSON())
	return "{" + strings.Join(p, ",") + "}"
}

func (g *wgen) filterObj() string {
	r := g.r
	p := []string{fmt.Sprintf(`"type":%q`, g.word())}
	if r.Chance(50) {
		p = append(p, `"config":`+g.holeJSON())
	}
	if r.Chance(25) {
		p = append(p, r.PickS([]string{`"go_plugin_config":{"so_path":"p.so","factory_method":"F"}`, `"go_plugin_config":null`, `"go_plugin_config":{}`}))
	}
	return "{" + strings.Join(p, ",") + "}"
}

func (g *wgen) fcWire() string {
	r := g.r
	var p []string
	if r.Chance(40) {
		p = append(p, fmt.Sprintf(`"match":%q`, g.word()))
	}
	switch k := r.Intn(10); {
	case k < 3:
		g.c.Count("pair.fc.tls=context")
		p = append(p, `"tls_context":`+g.tlsObj())
	case k < 6:
		g.c.Count("pair.fc.tls=set")
		n := 1 + r.Intn(2)
		var s []string
		for i := 0; i < n; i++ {
			s = append(s, g.tlsObj())
		}
		p = append(p, `"tls_context_set":[`+strings.Join(s, ",")+`]`)
	case k < 7:
		g.c.Count("pair.fc.tls=both")
		p = append(p, `"tls_context":`+g.tlsObj(), `"tls_context_set":[`+g.tlsObj()+`]`)
	case k < 8:
		g.c.Count("pair.fc.tls=empty-set-and-context")
		p = append(p, `"tls_context":`+g.tlsObj(), r.PickS([]string{`"tls_context_set":[]`, `"tls_context_set":null`}))
	default:
		g.c.Count("pair.fc.tls=none")
	}
	if r.Chance(70) {
		n := r.Intn(3)
		var s []string
		for i := 0; i < n; i++ {
			s = append(s, g.filterObj())
		}
		p = append(p, `"filters":[`+strings.Join(s, ",")+`]`)
	}
	if r.Chance(8) {
		p = append(p, `"filters":"oops"`)
		g.c.Count("pair.fc.malformed")
	}
	return "{" + strings.Join(p, ",") + "}"
}

func (g *wgen) hostWire() string {
	r := g.r
	var p []string
	if r.Chance(80) {
		p = append(p, `"address":"127.0.0.1:`+fmt.Sprint(8000+r.Intn(100))+`"`)
	}
	if r.Chance(30) {
		p = append(p, fmt.Sprintf(`"hostname":%q`, g.word()))
	}
	if r.Chance(50) {
		p = append(p, fmt.Sprintf(`"weight":%d`, []int{0, 1, 100, 128, 129, 65535}[r.Intn(6)]))
	}
	if r.Chance(25) {
		p = append(p, `"tls_disable":`+r.PickS([]string{"true", "false"}))
	}
	switch r.Intn(9) {
	case 0:
		p = append(p, `"metadata":null`)
	case 1:
		p = append(p, `"metadata":{}`)
	case 2:
		p = append(p, `"metadata":{"filter_metadata":{}}`)
	case 3:
		p = append(p, `"metadata":{"filter_metadata":{"mosn.lb":{}}}`)
	case 4:
		p = append(p, `"metadata":{"filter_metadata":{"mosn.lb":{"zone":"a","version":"1.0"}}}`)
	case 5:
		g.c.Count("pair.host.metadata=non-string-values")
		p = append(p, `"metadata":{"filter_metadata":{"mosn.lb":{"zone":"a","n":1,"b":true,"o":{"x":"y"},"nil":null,"e":""}}}`)
	case 6:
		p = append(p, `"metadata":{"filter_metadata":{"mosn.lb":{"n":1}}}`)
	case 7:
		g.c.Count("pair.host.malformed")
		p = append(p, `"metadata":{"filter_metadata":{"mosn.lb":[1]}}`)
	}
	return "{" + strings.Join(p, ",") + "}"
}

func (g *wgen) retryWire() string {
	r := g.r
	var p []string
	if r.Chance(50) {
		p = append(p, `"retry_on":`+r.PickS([]string{"true", "false"}))
	}
	switch r.Intn(8) {
	case 0:
		p = append(p, `"retry_timeout":0`)
	case 1:
		g.c.Count("pair.retry.timeout=number")
		p = append(p, `"retry_timeout":5`)
	case 2:
		g.c.Count("pair.retry.timeout=null")
		p = append(p, `"retry_timeout":null`)
	case 3:
	default:
		p = append(p, fmt.Sprintf(`"retry_timeout":%q`, g.durString()))
	}
	if r.Chance(50) {
		p = append(p, fmt.Sprintf(`"num_retries":%d`, r.Intn(5)))
	}
	if r.Chance(50) {
		p = append(p, `"status_codes":`+r.PickS([]string{`[]`, `null`, `[500]`, `[500,503,0]`}))
	}
	if r.Chance(10) {
		p = append(p, `"zz":1`)
	}
	return "{" + strings.Join(p, ",") + "}"
}

func pairs(c *hx.Ctx, n int) {
	g := &wgen{c: c, r: c.Rng.Fork(), spoil: -1}
	for i := 0; i < n; i++ {
		var kind, wire string
		var t reflect.Type
		switch i % 3 {
		case 0:
			kind, wire, t = "fc", g.fcWire(), reflect.TypeOf(v2.FilterChain{})
		case 1:
			kind, wire, t = "host", g.hostWire(), reflect.TypeOf(v2.Host{})
		default:
			kind, wire, t = "retry", g.retryWire(), reflect.TypeOf(v2.RetryPolicy{})
		}
		res := cycle(t, wire)
		if res == "err" {
			c.Count("pair." + kind + ".result=err")
		} else {
			c.Count("pair." + kind + ".result=ok")
		}
		c.Emit("C19", "pair "+kind+" "+esc(wire), res)
	}
}

// ---------------------------------------------------------------- generated configurations

type cgen struct {
	c     *hx.Ctx
	r     *hx.Rng
	names map[string]int
	wide  bool // order cases: 2..5 elements in every order-sensitive list, extend types from a small unsorted pool
}

var boundaryDur = []time.Duration{0, 1, 1500 * time.Microsecond, time.Second, 90 * time.Second, time.Hour, 15 * time.Minute, 1<<63 - 1}

func (g *cgen) uniq(prefix string) string {
	g.names[prefix]++
	return fmt.Sprintf("%s%d", prefix, g.names[prefix])
}

func (g *cgen) fill(v reflect.Value, owner reflect.Type, field string, depth int) {
	t := v.Type()
	r := g.r
	if depth > 16 {
		return
	}
	switch t {
	case durCfg:
		v.Set(reflect.ValueOf(api.DurationConfig{Duration: boundaryDur[r.Intn(len(boundaryDur))]}))
		return
	case durType:
		v.SetInt(int64(boundaryDur[r.Intn(len(boundaryDur))]))
		return
	case metaType:
		if r.Chance(50) {
			v.Set(reflect.ValueOf(api.Metadata{"zone": "a", "version": fmt.Sprint(r.Intn(3))}))
		}
		return
	case rawType:
		if owner != nil && owner.Name() == "ExtendConfig" {
			v.SetBytes([]byte(r.PickS([]string{`{"enable":false}`, `{"a":[1,2,{"b":"c"}]}`, `null`, `"str"`, `17`})))
		}
		return
	case holeMap:
		if r.Chance(50) {
			var m map[string]interface{}
			json.Unmarshal([]byte(r.PickS([]string{`{"k":1}`, `{"s":"x","n":{"a":[1,"b",true,null]}}`, `{}`, `{"big":12345678901234567890,"f":1.5}`})), &m)
			v.Set(reflect.ValueOf(m))
		}
		return
	}
	if t.PkgPath() != "" && t.PkgPath() != v2Pkg {
		if t.Kind() == reflect.Uint64 && t.Name() == "ByteSize" {
			v.SetUint([]uint64{0, 1, 1023, 1024, 1 << 20, 3 << 19, 1 << 40}[r.Intn(7)])
		}
		return
	}
	key := ""
	if owner != nil {
		key = owner.Name() + "." + field
	}
	switch t.Kind() {
	case reflect.Interface:
		if key == "ServerConfig.Processor" && r.Chance(40) {
			v.Set(reflect.ValueOf(r.PickS([]string{"auto", "4"})))
		}
	case reflect.String:
		switch key {
		case "ListenerConfig.Name":
			v.SetString(g.uniq("l"))
		case "ListenerConfig.AddrConfig":
			v.SetString(fmt.Sprintf("127.0.0.1:%d", 2000+r.Intn(5000)))
		case "ListenerConfig.Network":
			v.SetString(r.PickS([]string{"", "tcp", "TCP", "udp"}))
		case "ListenerConfig.Type":
			v.SetString(r.PickS([]string{"", "ingress", "egress"}))
		case "ListenerConfig.OriginalDst":
			v.SetString(r.PickS([]string{"", "", "redirect", "tproxy"}))
		case "Cluster.Name":
			v.SetString(g.uniq("c"))
		case "Cluster.ClusterType":
			v.SetString(r.PickS([]string{"", "SIMPLE", "STATIC", "DYNAMIC", "EDS"}))
		case "Cluster.LbType":
			v.SetString(r.PickS([]string{"", "LB_RANDOM", "LB_ROUNDROBIN", "LB_LEAST_REQUEST", "LB_MAGLEV", "LB_WEIGHTED_ROUNDROBIN"}))
		case "HealthCheckConfig.ServiceName", "ClusterManagerConfigJson.ClusterConfigPath", "RouterConfigurationConfig.RouterConfigPath",
			"Cluster.DnsResolverFile", "Cluster.DnsResolverPort", "HealthCheckConfig.EventLogPath", "SlowStartConfig.Mode":
			// left empty: active health checks, dynamic-mode directories and resolver files have effects outside the config
		case "RouterConfigurationConfig.RouterConfigName":
			v.SetString(g.uniq("r"))
		case "HostConfig.Address":
			v.SetString(fmt.Sprintf("127.0.0.1:%d", 8000+g.names["host"]))
			g.names["host"]++
		case "ExtendConfig.Type":
			if g.wide {
				v.SetString(r.PickS(orderExtTypes)) // repeated on purpose, never in alphabetical order as a pool
				return
			}
			v.SetString(g.uniq("ext"))
		case "VirtualHost.Name":
			v.SetString(g.uniq("vh"))
		case "RouterMatch.Regex", "HeaderMatcher.Value", "VariableMatcher.Regex", "PatternConfig.Regex":
			v.SetString(r.PickS([]string{"", "/a.*", "^x$"}))
		default:
			v.SetString(r.PickS([]string{"a", "b", "srv", "x1", "", "v", "/p", "Ab_c"}))
		}
	case reflect.Bool:
		if t == reflect.TypeOf(true) && owner == reflect.TypeOf(v2.TLSConfig{}) && field == "Status" {
			return // TLS stays disabled: real certificates are out of scope
		}
		v.SetBool(r.Bool())
	case reflect.Int, reflect.Int8, reflect.Int16, reflect.Int32, reflect.Int64:
		v.SetInt(int64([]int{0, 1, 2, 80, 1024}[r.Intn(5)]))
	case reflect.Uint, reflect.Uint8, reflect.Uint16, reflect.Uint32, reflect.Uint64:
		if key == "LBSubsetConfig.FallBackPolicy" {
			v.SetUint(uint64(r.Intn(4)))
			return
		}
		v.SetUint(uint64([]int{0, 1, 2, 100, 128, 129, 200}[r.Intn(7)]))
	case reflect.Float32, reflect.Float64:
		v.SetFloat(float64(r.Intn(3)))
	case reflect.Ptr:
		if r.Chance(55) {
			p := reflect.New(t.Elem())
			g.fill(p.Elem(), owner, field, depth+1)
			v.Set(p)
		}
	case reflect.Slice:
		if t.Elem().Kind() == reflect.Uint8 {
			return
		}
		n := []int{0, 1, 1, 2}[r.Intn(4)]
		switch key {
		case "ListenerConfig.FilterChains":
			n = 1
		case "ServerConfig.Listeners", "ClusterManagerConfig.Clusters", "ServerConfig.Routers", "Cluster.Hosts":
			n = 1 + r.Intn(2)
		case "ClusterManagerConfigJson.ClustersJson":
			return
		case "LBSubsetConfig.SubsetSelectors":
			// an empty selector ([]) makes the pre-index subset builder panic (index out of range) — not this property
			if r.Chance(50) {
				v.Set(reflect.ValueOf([][]string{{"zone"}, {"zone", "version"}}))
			}
			return
		case "VirtualHost.Domains":
			v.Set(reflect.ValueOf([]string{g.uniq("d") + ".example.com"}))
			return
		case "FilterChainConfig.TLSConfigs", "MOSNConfig.Wasms":
			n = 0
		}
		if g.wide && orderWide[key] {
			n = 2 + r.Intn(4)
		}
		if n == 0 {
			return
		}
		s := reflect.MakeSlice(t, n, n)
		for i := 0; i < n; i++ {
			g.fill(s.Index(i), owner, field, depth+1)
		}
		v.Set(s)
	case reflect.Map:
		if t.Key().Kind() == reflect.String && r.Chance(50) {
			m := reflect.MakeMap(t)
			e := reflect.New(t.Elem()).Elem()
			g.fill(e, owner, field, depth+1)
			m.SetMapIndex(reflect.ValueOf("k").Convert(t.Key()), e)
			v.Set(m)
		}
	case reflect.Struct:
		if t.PkgPath() != v2Pkg {
			return
		}
		for i := 0; i < t.NumField(); i++ {
			f := t.Field(i)
			if f.PkgPath != "" && !f.Anonymous {
				continue
			}
			switch t.Name() + "." + f.Name {
			case "MOSNConfig.RawDynamicResources", "MOSNConfig.RawStaticResources", "MOSNConfig.Node", "TLSConfig.SdsConfig",
				"Listener.Addr", "Listener.InheritListener", "Listener.InheritPacketConn", "MOSNConfig.RawAdmin":
				continue
			case "MOSNConfig.Servers":
				s := make([]v2.ServerConfig, 1)
				g.fill(reflect.ValueOf(&s[0]).Elem(), t, f.Name, depth+1)
				v.Field(i).Set(reflect.ValueOf(s))
				continue
			}
			must := map[string]bool{"ListenerConfig.Name": true, "ListenerConfig.AddrConfig": true, "ListenerConfig.FilterChains": true,
				"Cluster.Name": true, "RouterConfigurationConfig.RouterConfigName": true, "ServerConfig.Listeners": true,
				"ClusterManagerConfig.Clusters": true, "MOSNConfig.ClusterManager": true, "ExtendConfig.Type": true, "HostConfig.Address": true,
				"Listener.ListenerConfig": true, "Host.HostConfig": true, "RouterConfiguration.RouterConfigurationConfig": true,
				"FilterChain.FilterChainConfig": true, "ClusterManagerConfig.ClusterManagerConfigJson": true}
			if !must[t.Name()+"."+f.Name] && !f.Anonymous && r.Chance(45) {
				continue
			}
			g.fill(v.Field(i), t, f.Name, depth+1)
		}
	}
}

// respell rewrites the marshalled config into other accepted wire forms: a one-element tls_context_set becomes a
// tls_context, host metadata gets non-string values, durations are spelled in seconds.
func respell(r *hx.Rng, v interface{}) interface{} {
	switch x := v.(type) {
	case map[string]interface{}:
		for k, e := range x {
			x[k] = respell(r, e)
		}
		if set, ok := x["tls_context_set"].([]interface{}); ok && len(set) == 1 && r.Chance(60) {
			delete(x, "tls_context_set")
			x["tls_context"] = set[0]
		}
		if lb, ok := x["mosn.lb"].(map[string]interface{}); ok && r.Chance(40) {
			lb["num"] = json.Number("3")
			lb["flag"] = true
		}
		return x
	case []interface{}:
		for i := range x {
			x[i] = respell(r, x[i])
		}
		return x
	case string:
		if d, err := time.ParseDuration(x); err == nil && d > 0 && d%time.Second == 0 && d < 1<<53 && strings.ContainsAny(x, "hm") && r.Chance(50) {
			return fmt.Sprintf("%ds", int64(d/time.Second))
		}
	}
	return v
}

func gens(c *hx.Ctx, tmp string, n int) {
	for i := 0; i < n; i++ {
		g := &cgen{c: c, r: c.Rng.Fork(), names: map[string]int{}}
		cfg := &v2.MOSNConfig{}
		g.fill(reflect.ValueOf(cfg).Elem(), nil, "", 0)
		b, err := json.Marshal(cfg)
		if err != nil {
			c.Count("gen.marshal-error")
			continue
		}
		dec := json.NewDecoder(bytes.NewReader(b))
		dec.UseNumber()
		var tree interface{}
		dec.Decode(&tree)
		tree = respell(g.r, tree)
		path := filepath.Join(tmp, "gen.json")
		ioutil.WriteFile(path, []byte(canonV(tree)), 0644)
		res := roundTrip(c, path, tmp, "gen")
		c.Count(fmt.Sprintf("gen.listeners=%d", len(cfg.Servers[0].Listeners)))
		c.Count(fmt.Sprintf("gen.clusters=%d", len(cfg.ClusterManager.Clusters)))
		c.Emit("C19", fmt.Sprintf("gen %d size=%d", i, len(b)), res)
	}
}

func Run(c *hx.Ctx) {
	tmp, err := ioutil.TempDir(".", "c19tmp")
	if err != nil {
		panic(err)
	}
	defer os.RemoveAll(tmp)
	samples(c, tmp)
	generics(c, c.N(2500, 25000))
	pairs(c, c.N(1500, 15000))
	fixpoints(c, c.N(2500, 25000))
	durs(c, c.N(1500, 20000))
	gens(c, tmp, c.N(300, 5000))
	pairs2(c, c.N(2500, 25000))
	cbEffs(c, c.N(1500, 15000))
	dynPairs(c, tmp, c.N(400, 6000))
	dyns(c, tmp, c.N(240, 3000))
	dynUpds(c, c.N(150, 1500))
	orders(c, tmp, c.N(300, 4000))
	laddrs(c, tmp, c.N(160, 2500))
}
