//go:build verif

package c19

// `laddr` cases: ONE listener per case whose `address` has one of the forms MOSN accepts — IPv4 literal, 0.0.0.0, IPv6 literal, the
// IPv6 wildcard [::], a bare :port, a host name, port 0, a unix socket path — under network tcp / udp / unix (in several spellings,
// or absent), through the path the `sample` / `gen` cases use: a configuration FILE loaded by configmanager.Load (json.Unmarshal ->
// Listener.UnmarshalJSON), ParseListenerConfig, SetListenerConfig, dumped by configmanager.InheritMosnconfig (Listener.MarshalJSON),
// the dump loaded the same way and dumped again — in the full-file mode and with the clusters / routers kept in DIRECTORY mode
// (clusters_configs / router_configs next to the file; the listener stays in the main file either way).
// Compared are the LOADED configurations: Addr.Network(), Addr.String(), AddrConfig after the first load and after the reload,
// the `network` / `address` members of both dumps, and — tcp, port 0 — what a socket listening on each loaded Addr accepts
// (a connect to 127.0.0.1 / to ::1).
// Line: `laddr <network> <class> <address> <resolver's IP for a name | -> <F|D> => <n1>|<s1>|<c1> <dn>|<da> <n2>|<s2>|<c2> <da2> <fam1>/<fam2>`.

import (
	"encoding/json"
	"fmt"
	"io/ioutil"
	"net"
	"os"
	"path/filepath"
	"strings"
	"time"

	"mosn.io/mosn/pkg/configmanager"
	"verif/harness/hx"
)

func laEsc(s string) string {
	if s == "" {
		return "%"
	}
	return esc(s)
}

type laLoaded struct {
	net, str, cfg string
	addr          net.Addr
}

func (l laLoaded) tok() string { return l.net + "|" + laEsc(l.str) + "|" + laEsc(l.cfg) }

// laLoadDump: load the file, parse its listener, dump. Returns what was loaded, the dump, the dumped listener's members.
func laLoadDump(path string) (ld laLoaded, dump []byte, dn, da string, why string) {
	if w := precheck(path); w != "" {
		return ld, nil, "", "", w
	}
	configmanager.Reset()
	cfg := configmanager.Load(path)
	configmanager.SetMosnConfig(cfg)
	if len(cfg.Servers) != 1 || len(cfg.Servers[0].Listeners) != 1 {
		return ld, nil, "", "", "shape"
	}
	lc := configmanager.ParseListenerConfig(&cfg.Servers[0].Listeners[0], nil, nil)
	configmanager.SetListenerConfig(*lc)
	if lc.Addr == nil {
		return ld, nil, "", "", "noaddr"
	}
	ld = laLoaded{net: lc.Addr.Network(), str: lc.Addr.String(), cfg: lc.AddrConfig, addr: lc.Addr}
	for _, cl := range cfg.ClusterManager.Clusters {
		configmanager.SetClusterConfig(cl)
	}
	for _, rc := range cfg.Servers[0].Routers {
		if rc != nil {
			configmanager.SetRouter(*rc)
		}
	}
	b, err := configmanager.InheritMosnconfig()
	if err != nil {
		return ld, nil, "", "", "dump-error"
	}
	var doc struct {
		Servers []struct {
			Listeners []map[string]interface{} `json:"listeners"`
		} `json:"servers"`
	}
	if json.Unmarshal(b, &doc) != nil || len(doc.Servers) != 1 || len(doc.Servers[0].Listeners) != 1 {
		return ld, b, "", "", "dump-shape"
	}
	m := doc.Servers[0].Listeners[0]
	dn, _ = m["network"].(string)
	da, _ = m["address"].(string)
	return ld, b, dn, da, ""
}

// laFamily: which loopback addresses reach a tcp socket listening on addr ("4", "6", "46", "none"; "err" = cannot listen)
func laFamily(a net.Addr) string {
	ta, ok := a.(*net.TCPAddr)
	if !ok || ta.Port != 0 {
		return "-"
	}
	ln, err := net.ListenTCP("tcp", ta)
	if err != nil {
		return "err"
	}
	defer ln.Close()
	port := ln.Addr().(*net.TCPAddr).Port
	go func() {
		for {
			c, err := ln.Accept()
			if err != nil {
				return
			}
			c.Close()
		}
	}()
	out := ""
	for _, h := range []struct{ host, tag string }{{"127.0.0.1", "4"}, {"[::1]", "6"}} {
		c, err := net.DialTimeout("tcp", fmt.Sprintf("%s:%d", h.host, port), 500*time.Millisecond)
		if err == nil {
			c.Close()
			out += h.tag
		}
	}
	if out == "" {
		return "none"
	}
	return out
}

func laCase(c *hx.Ctx, tmp string, network *string, class, address string, dirMode bool) {
	lm := map[string]interface{}{"name": "l", "address": address, "bind_port": false,
		"filter_chains": []interface{}{map[string]interface{}{"filters": []interface{}{map[string]interface{}{"type": "proxy",
			"config": map[string]interface{}{"downstream_protocol": "Http1", "upstream_protocol": "Http1", "router_config_name": "r"}}}}}}
	ntok := "-absent"
	if network != nil {
		lm["network"] = *network
		ntok = *network
	}
	dir := filepath.Join(tmp, "laddr")
	os.RemoveAll(dir)
	os.MkdirAll(dir, 0755)
	cm := map[string]interface{}{}
	router := map[string]interface{}{"router_config_name": "r"}
	if dirMode {
		os.MkdirAll(filepath.Join(dir, "clusters"), 0755)
		os.MkdirAll(filepath.Join(dir, "routers", "r"), 0755)
		ioutil.WriteFile(filepath.Join(dir, "clusters", "c1.json"), []byte(`{"name":"c1","type":"SIMPLE","lb_type":"LB_RANDOM","hosts":[{"address":"127.0.0.1:9"}]}`), 0644)
		ioutil.WriteFile(filepath.Join(dir, "routers", "r", "v.json"), []byte(`{"name":"v","domains":["*"],"routers":[{"match":{"prefix":"/"},"route":{"cluster_name":"c1"}}]}`), 0644)
		cm["clusters_configs"] = filepath.Join(dir, "clusters")
		router["router_configs"] = filepath.Join(dir, "routers", "r")
	} else {
		cm["clusters"] = []interface{}{map[string]interface{}{"name": "c1", "type": "SIMPLE", "lb_type": "LB_RANDOM", "hosts": []interface{}{map[string]interface{}{"address": "127.0.0.1:9"}}}}
		router["virtual_hosts"] = []interface{}{map[string]interface{}{"name": "v", "domains": []string{"*"},
			"routers": []interface{}{map[string]interface{}{"match": map[string]interface{}{"prefix": "/"}, "route": map[string]interface{}{"cluster_name": "c1"}}}}}
	}
	doc := map[string]interface{}{"servers": []interface{}{map[string]interface{}{"listeners": []interface{}{lm}, "routers": []interface{}{router}}}, "cluster_manager": cm}
	b, _ := json.Marshal(doc)
	p1 := filepath.Join(dir, "in.json")
	ioutil.WriteFile(p1, b, 0644)
	// the resolver's answer for a host name, carried in the case
	res := "-"
	if class == "name" {
		host := address[:strings.LastIndex(address, ":")]
		kind := "tcp"
		if network != nil && strings.ToLower(*network) == "udp" {
			kind = "udp"
		}
		var ip net.IP
		if kind == "udp" {
			if a, err := net.ResolveUDPAddr("udp", host+":1"); err == nil {
				ip = a.IP
			}
		} else if a, err := net.ResolveTCPAddr("tcp", host+":1"); err == nil {
			ip = a.IP
		}
		if ip != nil {
			res = laEsc(ip.String())
		}
	}
	mode := "F"
	if dirMode {
		mode = "D"
	}
	caseTok := fmt.Sprintf("laddr %s %s %s %s %s", laEsc(ntok), class, laEsc(address), res, mode)
	c.Count("laddr.class=" + class)
	c.Count("laddr.mode=" + mode)
	var impl string
	if _, p := hx.Safe(func() {
		l1, d1, dn, da, why := laLoadDump(p1)
		if why != "" {
			impl = "unloadable"
			c.Count("laddr.unloadable=" + why)
			return
		}
		p2 := filepath.Join(dir, "dump1.json")
		ioutil.WriteFile(p2, d1, 0644)
		l2, _, _, da2, why := laLoadDump(p2)
		if why != "" {
			impl = l1.tok() + " " + laEsc(dn) + "|" + laEsc(da) + " reload-fails"
			c.Count("laddr.reload-fails=" + why)
			return
		}
		fam := "-/-"
		if f1 := laFamily(l1.addr); f1 != "-" {
			fam = f1 + "/" + laFamily(l2.addr)
			c.Count("laddr.socket=" + f1)
		}
		impl = l1.tok() + " " + laEsc(dn) + "|" + laEsc(da) + " " + l2.tok() + " " + laEsc(da2) + " " + fam
		c.Count("laddr.loaded")
	}); p {
		impl = "panic"
	}
	c.Emit("C19", caseTok, impl)
}

func laddrs(c *hx.Ctx, tmp string, n int) {
	r := c.Rng.Fork()
	str := func(s string) *string { return &s }
	type form struct{ class, addr string }
	port := func() string {
		return r.PickS([]string{"0", "0", "80", "2045", "8080", "65535", "1", fmt.Sprint(1024 + r.Intn(60000))})
	}
	inet := func() form {
		switch r.Intn(9) {
		case 0:
			return form{"v4", fmt.Sprintf("%d.%d.%d.%d:%s", 1+r.Intn(223), r.Intn(256), r.Intn(256), 1+r.Intn(254), port())}
		case 1:
			return form{"v4", "127.0.0.1:" + port()}
		case 2:
			return form{"v4wild", "0.0.0.0:" + port()}
		case 3:
			return form{"v6loop", "[::1]:" + port()}
		case 4, 5:
			return form{"v6wild", "[::]:" + port()}
		case 6:
			return form{"bare", ":" + port()}
		case 7:
			return form{"v6", "[" + r.PickS([]string{"fe80::1", "2001:db8::1", "fd00::a:b", "::2"}) + "]:" + port()}
		default:
			return form{"name", "localhost:" + port()}
		}
	}
	unix := func() form {
		return form{"path", r.PickS([]string{"/tmp/mosn.sock", "/var/run/mosn/admin.sock", "@abstract", "relative.sock", "/tmp/with space.sock", "/tmp/a:b.sock"})}
	}
	// fixed boundary cases first: the wildcard forms on port 0 (sockets are opened), every class once, rejected forms
	fixed := []struct {
		net     *string
		f       form
	}{
		{str("tcp"), form{"v6wild", "[::]:0"}}, {str("tcp"), form{"v4wild", "0.0.0.0:0"}}, {nil, form{"bare", ":0"}},
		{str("tcp"), form{"v6loop", "[::1]:0"}}, {str("tcp"), form{"v4", "127.0.0.1:0"}}, {str("TCP"), form{"v6wild", "[::]:2045"}},
		{str("udp"), form{"v6wild", "[::]:53"}}, {str("udp"), form{"bare", ":0"}}, {str("UDP"), form{"v4wild", "0.0.0.0:5353"}},
		{str("unix"), form{"path", "/tmp/mosn.sock"}}, {str("Unix"), form{"path", "@abstract"}}, {str("tcp"), form{"name", "localhost:80"}},
		{str("udp"), form{"name", "localhost:0"}}, {str(""), form{"v4", "10.1.2.3:65535"}},
		{str("sctp"), form{"v4", "127.0.0.1:80"}}, {str("tcp"), form{"path", "/tmp/mosn.sock"}}, {str("tcp"), form{"v4", "300.1.1.1:80"}},
		{str("unix"), form{"v6wild", "[::]:80"}},
	}
	for i, f := range fixed {
		laCase(c, tmp, f.net, f.f.class, f.f.addr, i%5 == 4)
		c.Count("laddr.stream=fixed")
	}
	for i := 0; i < n; i++ {
		var nw *string
		var f form
		switch r.Intn(10) {
		case 0, 1, 2, 3:
			nw, f = str(r.PickS([]string{"tcp", "tcp", "TCP", "Tcp", ""})), inet()
		case 4:
			nw, f = nil, inet()
		case 5, 6, 7:
			nw, f = str(r.PickS([]string{"udp", "UDP"})), inet()
		default:
			nw, f = str(r.PickS([]string{"unix", "Unix", "UNIX"})), unix()
		}
		laCase(c, tmp, nw, f.class, f.addr, r.Chance(30))
		c.Count("laddr.stream=generated")
	}
}
