//go:build verif

package c19

// `dynupd` cases: a router first loaded in directory mode (`router_configs`) and later UPDATED at run time from a static
// configuration (`virtual_hosts`), and every other mix of the two persisted modes with code-built configurations, single-route
// additions and removals — the histories of harness/c12/mode.go, emitted as C19 lines: after the history the effective
// configuration is dumped (the persisted file; directory-mode routers are written into their directories) and loaded again
// through the real loader; the reload must succeed and the routers built from it must answer as the live ones.
// Line: `dynupd <op> … => <results> <name@live;…> <ok|loaderr> <name@rebuilt;…>`.

import (
	"verif/harness/c12"
	"verif/harness/hx"
)

func dynUpds(c *hx.Ctx, n int) { c12.RunModeCases(c, "C19", "dynupd", n) }
