//go:build verif

package c02

import (
	"verif/harness/dctx"
	"verif/harness/hx"
)

// ctxCases: kind `ctx` — no delivered request mixes exchanges: each receiver finds its own frame's id, headers, body,
// stream and context, whatever frames share its read (harness/dctx).
func ctxCases(c *hx.Ctx) { dctx.Cases(c, "C02") }
