//go:build verif

package c02

// The wire side of kind `e2e` / `e2ex`: what the raw client and the scripted upstream write and read, per protocol.
// Everything here is written against the wire FORMAT (these are the observers; MOSN's codecs are the subject): bolt and
// boltv2 by hand, dubbo with the hessian2 library for the service metadata, dubbo-thrift by hand (thrift binary message
// begin), tars with TarsGo's packet reader / writer. A request carries its token where the protocol's decoder exposes a
// header to the router and where it survives re-encoding (bolt / boltv2: header `tok`; dubbo / dubbo-thrift: the method
// name; tars: sFuncName) and in the body; an answer echoes it in the header channel the protocol has for responses
// (bolt / boltv2: header `tok`; dubbo-thrift: the message name; tars: sResultDesc; dubbo: none) and in the body.
//
// bolt keeps the encoding of kind `e2e` (timeouts in the frame / in the x-mosn-*-timeout headers, routes p / r); the
// others cannot carry arbitrary headers, their timeouts come from the routes P / G / T / R.

import (
	"bufio"
	"bytes"
	"encoding/binary"
	"fmt"
	"io"
	"regexp"
	"strconv"

	tcodec "github.com/TarsCloud/TarsGo/tars/protocol/codec"
	"github.com/TarsCloud/TarsGo/tars/protocol/res/requestf"
	hessian "github.com/apache/dubbo-go-hessian2"
	"mosn.io/mosn/pkg/types"
)

type e2eFrame struct {
	req    bool
	hb     bool
	id     uint64
	status uint16 // 0 = ok; 65535 = not a response at all
	htok   string // token in the header channel ("" = none)
	body   string
}

type e2eWire interface {
	tag() string  // token in the case line
	mosn() string // protocol name in MOSN's configuration
	// request: q == nil is a warm-up request (plain route, long timeout)
	request(id uint64, world int, tok string, q *e2eReq) []byte
	response(id uint64, tok string) []byte
	hbAck(id uint64) []byte
	read(br *bufio.Reader, wantReq bool) (*e2eFrame, error)
	// errorReplies: the protocol can express a local error reply (tars cannot: Hijack is "not support")
	errorReplies() bool
}

var e2eWires = []e2eWire{boltWire{}, boltV2Wire{}, dubboWire{}, thriftWire{}, tarsWire{}}

func e2eWireOf(tag string) e2eWire {
	for _, w := range e2eWires {
		if w.tag() == tag {
			return w
		}
	}
	return nil
}

// route of a request of the route-configured protocols
func e2eRouteOf(q *e2eReq) byte {
	if q == nil {
		return 'P'
	}
	switch q.kind {
	case 'g':
		return 'G'
	case 't':
		return 'T'
	case 'r':
		return 'R'
	}
	return 'P'
}

// ---------------------------------------------------------------------------------------------------------------------
// bolt v1

type boltWire struct{}

func (boltWire) tag() string        { return "bolt" }
func (boltWire) mosn() string       { return "bolt" }
func (boltWire) errorReplies() bool { return true }
func (boltWire) request(id uint64, world int, tok string, q *e2eReq) []byte {
	kv := []string{"service", e2eService(world, 'p'), "tok", tok}
	gto := e2eLong
	if q == nil {
		return bRequest(uint32(id), 400, bKV(kv...), []byte("w"))
	}
	switch q.kind {
	case 'g':
		gto = e2eTry
	case 't':
		kv = append(kv, types.HeaderTryTimeout, strconv.Itoa(e2eTry))
	case 'r':
		kv[1] = e2eService(world, 'r')
		kv = append(kv, types.HeaderTryTimeout, strconv.Itoa(e2eTry))
	}
	return bRequest(uint32(id), gto, bKV(kv...), []byte(tok))
}
func (boltWire) response(id uint64, tok string) []byte {
	return bResponse(uint32(id), 2, 0, bKV("tok", tok), []byte(tok))
}
func (boltWire) hbAck(id uint64) []byte { return bResponse(uint32(id), 0, 0, nil, nil) }
func (boltWire) read(br *bufio.Reader, wantReq bool) (*e2eFrame, error) {
	f, err := bRead(br)
	if err != nil {
		return nil, err
	}
	out := &e2eFrame{req: f.typ != 0, hb: f.cmd == 0, id: uint64(f.id), status: f.status, htok: f.hdr["tok"], body: string(f.content)}
	if !out.req && f.cmd != 2 {
		out.status = 65535
	}
	return out, nil
}

// ---------------------------------------------------------------------------------------------------------------------
// bolt v2: proto 2, ver1, type, cmdcode(2), ver2, id(4), codec, switch, timeout(4) | status(2), classLen(2), headerLen(2), contentLen(4)

type boltV2Wire struct{}

func (boltV2Wire) tag() string        { return "boltv2" }
func (boltV2Wire) mosn() string       { return "boltv2" }
func (boltV2Wire) errorReplies() bool { return true }
func (boltV2Wire) request(id uint64, world int, tok string, q *e2eReq) []byte {
	hdr := bKV("service", e2eService(world, e2eRouteOf(q)), "tok", tok)
	b := make([]byte, 24)
	b[0], b[1], b[2], b[5], b[10] = 2, 1, 1, 1, 1
	binary.BigEndian.PutUint16(b[3:], 1)
	binary.BigEndian.PutUint32(b[6:], uint32(id))
	binary.BigEndian.PutUint16(b[16:], uint16(len(bReqClass)))
	binary.BigEndian.PutUint16(b[18:], uint16(len(hdr)))
	binary.BigEndian.PutUint32(b[20:], uint32(len(tok)))
	b = append(b, bReqClass...)
	b = append(b, hdr...)
	return append(b, tok...)
}
func bv2Response(id uint64, cmd uint16, hdr, content []byte) []byte {
	b := make([]byte, 22)
	b[0], b[1], b[2], b[5], b[10] = 2, 1, 0, 1, 1
	binary.BigEndian.PutUint16(b[3:], cmd)
	binary.BigEndian.PutUint32(b[6:], uint32(id))
	cls := bRespClass
	if cmd == 0 {
		cls = ""
	}
	binary.BigEndian.PutUint16(b[14:], uint16(len(cls)))
	binary.BigEndian.PutUint16(b[16:], uint16(len(hdr)))
	binary.BigEndian.PutUint32(b[18:], uint32(len(content)))
	b = append(b, cls...)
	b = append(b, hdr...)
	return append(b, content...)
}
func (boltV2Wire) response(id uint64, tok string) []byte {
	return bv2Response(id, 2, bKV("tok", tok), []byte(tok))
}
func (boltV2Wire) hbAck(id uint64) []byte { return bv2Response(id, 0, nil, nil) }
func (boltV2Wire) read(br *bufio.Reader, wantReq bool) (*e2eFrame, error) {
	pre := make([]byte, 12)
	if _, err := io.ReadFull(br, pre); err != nil {
		return nil, err
	}
	if pre[0] != 2 {
		return nil, fmt.Errorf("not boltv2")
	}
	f := &e2eFrame{req: pre[2] != 0, id: uint64(binary.BigEndian.Uint32(pre[6:]))}
	cmd := binary.BigEndian.Uint16(pre[3:])
	f.hb = cmd == 0
	n := 10
	if f.req {
		n = 12
	}
	rest := make([]byte, n)
	if _, err := io.ReadFull(br, rest); err != nil {
		return nil, err
	}
	if !f.req {
		f.status = binary.BigEndian.Uint16(rest[0:])
		if cmd != 2 {
			f.status = 65535
		}
	}
	lens := rest[n-8:]
	cl, hl, bl := int(binary.BigEndian.Uint16(lens[0:])), int(binary.BigEndian.Uint16(lens[2:])), int(binary.BigEndian.Uint32(lens[4:]))
	if bl > 1<<20 {
		return nil, fmt.Errorf("frame too large")
	}
	body := make([]byte, cl+hl+bl)
	if _, err := io.ReadFull(br, body); err != nil {
		return nil, err
	}
	f.htok, f.body = bParseKV(body[cl:cl+hl])["tok"], string(body[cl+hl:])
	return f, nil
}

// ---------------------------------------------------------------------------------------------------------------------
// dubbo: da bb, flag, status, id(8), len(4), payload. Request payload (hessian2): dubbo version, path, version, method,
// parameter types, attachments. The token is the method name; an answer carries it as a hessian string in the payload.

type dubboWire struct{}

func (dubboWire) tag() string        { return "dubbo" }
func (dubboWire) mosn() string       { return "dubbo" }
func (dubboWire) errorReplies() bool { return true }
func dubboFrame(flag, status byte, id uint64, payload []byte) []byte {
	b := make([]byte, 16, 16+len(payload))
	b[0], b[1], b[2], b[3] = 0xda, 0xbb, flag, status
	binary.BigEndian.PutUint64(b[4:], id)
	binary.BigEndian.PutUint32(b[12:], uint32(len(payload)))
	return append(b, payload...)
}
func (dubboWire) request(id uint64, world int, tok string, q *e2eReq) []byte {
	e := hessian.NewEncoder()
	e.Encode("2.0.2")
	e.Encode(e2eService(world, e2eRouteOf(q)))
	e.Encode("0.0.0")
	e.Encode(tok)
	e.Encode("")
	e.Encode(map[interface{}]interface{}{})
	return dubboFrame(0x80|0x40|2, 0, id, e.Buffer())
}
func (dubboWire) response(id uint64, tok string) []byte {
	e := hessian.NewEncoder()
	e.Encode(tok)
	return dubboFrame(2, 20, id, e.Buffer())
}
func (dubboWire) hbAck(id uint64) []byte { return dubboFrame(0x20|2, 20, id, []byte{'N'}) }

var dubboErrMsg = regexp.MustCompile(`^\d+\|`)

func (dubboWire) read(br *bufio.Reader, wantReq bool) (*e2eFrame, error) {
	h := make([]byte, 16)
	if _, err := io.ReadFull(br, h); err != nil {
		return nil, err
	}
	if h[0] != 0xda || h[1] != 0xbb {
		return nil, fmt.Errorf("not dubbo")
	}
	n := binary.BigEndian.Uint32(h[12:])
	if n > 1<<20 {
		return nil, fmt.Errorf("frame too large")
	}
	p := make([]byte, n)
	if _, err := io.ReadFull(br, p); err != nil {
		return nil, err
	}
	f := &e2eFrame{req: h[2]&0x80 != 0, hb: h[2]&0x20 != 0, id: binary.BigEndian.Uint64(h[4:])}
	d := hessian.NewDecoder(p)
	str := func() string {
		v, err := d.Decode()
		if err != nil {
			return ""
		}
		s, _ := v.(string)
		return s
	}
	if f.hb {
		return f, nil
	}
	if f.req {
		str()
		str()
		str()
		f.htok = str() // the method name
		return f, nil
	}
	if h[3] != 20 {
		f.status = uint16(h[3])
	}
	f.body = str()
	if f.status != 0 && dubboErrMsg.MatchString(f.body) { // the description of a local error reply, not a payload
		f.body = ""
	}
	return f, nil
}

// ---------------------------------------------------------------------------------------------------------------------
// dubbo-thrift: len(4) | da bc, message length(4), header length(2), version(1), service(str32), id(8) | thrift binary
// message begin (80 01 00 type, name str32, seqid 4) + body. The token is the message (method) name.

type thriftWire struct{}

func (thriftWire) tag() string        { return "thrift" }
func (thriftWire) mosn() string       { return "dubbo-thrift" }
func (thriftWire) errorReplies() bool { return true }
func thriftStr(s string) []byte {
	b := make([]byte, 4, 4+len(s))
	binary.BigEndian.PutUint32(b, uint32(len(s)))
	return append(b, s...)
}
func thriftFrame(svc string, id uint64, mtype byte, name, body string) []byte {
	var m bytes.Buffer
	m.Write([]byte{0xda, 0xbc, 0, 0, 0, 0, 0, 0, 1})
	m.Write(thriftStr(svc))
	var idb [8]byte
	binary.BigEndian.PutUint64(idb[:], id)
	m.Write(idb[:])
	hl := m.Len()
	m.Write([]byte{0x80, 0x01, 0x00, mtype})
	m.Write(thriftStr(name))
	m.Write([]byte{0, 0, 0, 7})
	m.WriteString(body)
	msg := m.Bytes()
	binary.BigEndian.PutUint32(msg[2:], uint32(len(msg)))
	binary.BigEndian.PutUint16(msg[6:], uint16(hl))
	out := make([]byte, 4, 4+len(msg))
	binary.BigEndian.PutUint32(out, uint32(len(msg)))
	return append(out, msg...)
}
func (thriftWire) request(id uint64, world int, tok string, q *e2eReq) []byte {
	return thriftFrame(e2eService(world, e2eRouteOf(q)), id, 1, tok, tok)
}
func (thriftWire) response(id uint64, tok string) []byte {
	return thriftFrame("c02e2e.answer", id, 2, tok, tok)
}
func (thriftWire) hbAck(id uint64) []byte { return nil }
func (thriftWire) read(br *bufio.Reader, wantReq bool) (*e2eFrame, error) {
	l := make([]byte, 4)
	if _, err := io.ReadFull(br, l); err != nil {
		return nil, err
	}
	n := binary.BigEndian.Uint32(l)
	if n > 1<<20 || n < 9 {
		return nil, fmt.Errorf("bad thrift frame length")
	}
	m := make([]byte, n)
	if _, err := io.ReadFull(br, m); err != nil {
		return nil, err
	}
	if m[0] != 0xda || m[1] != 0xbc {
		return nil, fmt.Errorf("not dubbo-thrift")
	}
	p := 9
	rdStr := func() (string, bool) {
		if p+4 > len(m) {
			return "", false
		}
		k := int(binary.BigEndian.Uint32(m[p:]))
		p += 4
		if k < 0 || p+k > len(m) {
			return "", false
		}
		s := string(m[p : p+k])
		p += k
		return s, true
	}
	if _, ok := rdStr(); !ok || p+8+4 > len(m) {
		return nil, fmt.Errorf("short thrift header")
	}
	f := &e2eFrame{id: binary.BigEndian.Uint64(m[p:])}
	p += 8
	mtype := m[p+3]
	p += 4
	name, ok := rdStr()
	if !ok || p+4 > len(m) {
		return nil, fmt.Errorf("short thrift message")
	}
	p += 4
	f.req = mtype == 1
	f.htok = name
	switch mtype {
	case 1:
	case 2:
		f.body = string(m[p:])
	default: // an exception: a local error reply (its struct is not a payload)
		f.status = uint16(mtype)
	}
	return f, nil
}

// ---------------------------------------------------------------------------------------------------------------------
// tars: len(4, including itself) + RequestPacket / ResponsePacket (TarsGo). The token is sFuncName (request), sResultDesc
// and sBuffer (answer). iRequestId is an int32: ids are shown as the uint32 with the same bits.

type tarsWire struct{}

func (tarsWire) tag() string        { return "tars" }
func (tarsWire) mosn() string       { return "tars" }
func (tarsWire) errorReplies() bool { return false }
func tarsBytes(s string) []int8 {
	b := make([]int8, len(s))
	for i := range b {
		b[i] = int8(s[i])
	}
	return b
}
func tarsPack(w interface {
	WriteTo(*tcodec.Buffer) error
}) []byte {
	os := tcodec.NewBuffer()
	w.WriteTo(os)
	bs := os.ToBytes()
	b := make([]byte, 4, 4+len(bs))
	binary.BigEndian.PutUint32(b, uint32(4+len(bs)))
	return append(b, bs...)
}
func (tarsWire) request(id uint64, world int, tok string, q *e2eReq) []byte {
	return tarsPack(&requestf.RequestPacket{IVersion: 1, IRequestId: int32(uint32(id)), SServantName: e2eService(world, e2eRouteOf(q)),
		SFuncName: tok, SBuffer: tarsBytes(tok), ITimeout: 3000, Context: map[string]string{}, Status: map[string]string{}})
}
func (tarsWire) response(id uint64, tok string) []byte {
	return tarsPack(&requestf.ResponsePacket{IVersion: 1, IRequestId: int32(uint32(id)), IRet: 0, SBuffer: tarsBytes(tok),
		Status: map[string]string{}, SResultDesc: tok, Context: map[string]string{}})
}
func (tarsWire) hbAck(id uint64) []byte { return nil }
func (tarsWire) read(br *bufio.Reader, wantReq bool) (*e2eFrame, error) {
	l := make([]byte, 4)
	if _, err := io.ReadFull(br, l); err != nil {
		return nil, err
	}
	n := binary.BigEndian.Uint32(l)
	if n > 1<<20 || n < 4 {
		return nil, fmt.Errorf("bad tars package length")
	}
	p := make([]byte, n-4)
	if _, err := io.ReadFull(br, p); err != nil {
		return nil, err
	}
	str := func(b []int8) string {
		o := make([]byte, len(b))
		for i := range b {
			o[i] = byte(b[i])
		}
		return string(o)
	}
	if wantReq {
		q := &requestf.RequestPacket{}
		if err := q.ReadFrom(tcodec.NewReader(p)); err != nil {
			return nil, err
		}
		return &e2eFrame{req: true, id: uint64(uint32(q.IRequestId)), htok: q.SFuncName, body: str(q.SBuffer)}, nil
	}
	r := &requestf.ResponsePacket{}
	if err := r.ReadFrom(tcodec.NewReader(p)); err != nil {
		return nil, err
	}
	f := &e2eFrame{id: uint64(uint32(r.IRequestId)), htok: r.SResultDesc, body: str(r.SBuffer)}
	if r.IRet != 0 {
		f.status = 1
	}
	return f, nil
}
