//go:build verif

package c02

// Kind `h2tbl` (HTTP/2 client stream table): ONE real HTTP/2 stream client (pkg/stream.NewStreamClient with the HTTP2
// factory: receiver wrapper + pkg/stream/http2 clientStreamConnection + the http2 module's MClientConn) on a real
// loopback connection to a scripted in-process peer. Requests go out on the socket (the peer decodes every frame it
// receives with the golang.org/x/net framer: request ids and tokens, RST_STREAM frames); the peer's frames are built with
// the x/net framer + ONE hpack encoder per connection and dispatched synchronously into the client (OnData), one frame
// per call, in the order the script says. A frame addressed to stream object w carries w's id and token r<w> (header
// x-tok, body "r<w>.", trailer x-tok); a frame with a raw id carries a token no request has.
//
//   h2tbl <first id> <op,op,…> => <snapshot after every op …> <wire>
//
// ops: N open (NewStream + AppendHeaders, end of stream)   O the same without receiver (one-way)
//      B<g.g.g> n requests opened CONCURRENTLY behind a barrier; rendered with the order in which they got their ids
//      H<w>[e] HEADERS (:status 200)   D<w>[e] DATA   E<w> empty DATA + END_STREAM   T<w> trailers (HEADERS, END_STREAM, no
//      pseudo header)   R<w> RST_STREAM   - lower case h/d/e/t/r<id>: the same with a raw stream id
//      G<last> GOAWAY(NO_ERROR, last)   g<last> GOAWAY(INTERNAL_ERROR, last)   X<w> local ResetStream   C connection event
//      RemoteClose (client.OnEvent -> Reset)   Z SETTINGS   W<id> WINDOW_UPDATE   P PUSH_PROMISE (connection error)
// snapshot: n<next id>;m<module table>;t<stream table>;l<lastStream>;g<OnGoAway calls>;c<connection closed>;w<per stream
//      object id:deliveries:reset reasons|…>; a delivery is h<tok>/b<tok+tok…>/t<tok>. A script ends with the op that closed
//      the connection.

import (
	"bytes"
	"context"
	"fmt"
	"net"
	"net/http"
	"sort"
	"strconv"
	"strings"
	"sync"
	"time"

	xh2 "golang.org/x/net/http2"
	xhpack "golang.org/x/net/http2/hpack"
	"mosn.io/api"
	"mosn.io/mosn/pkg/network"
	"mosn.io/mosn/pkg/protocol"
	phttp2 "mosn.io/mosn/pkg/protocol/http2"
	"mosn.io/mosn/pkg/stream"
	shttp2 "mosn.io/mosn/pkg/stream/http2"
	"mosn.io/mosn/pkg/types"
	"mosn.io/pkg/buffer"
	"mosn.io/pkg/variable"
	"verif/harness/hx"
)

type h2tWaiter struct {
	w        *h2tWorld
	tok      int
	oneway   bool
	sender   types.StreamSender
	id       uint32
	got      []string
	resets   []string
	destroys int
}

func h2tTok(s string) string {
	if s == "" {
		return "-"
	}
	return hx.Tok(strings.TrimPrefix(s, "r"))
}

func (x *h2tWaiter) OnReceive(ctx context.Context, headers api.HeaderMap, data buffer.IoBuffer, trailers api.HeaderMap) {
	h, _ := headers.Get("X-Tok")
	body := "-"
	if data != nil && data.Len() > 0 {
		var bs []string
		for _, p := range strings.Split(strings.TrimSuffix(data.String(), "."), ".") {
			bs = append(bs, h2tTok(p))
		}
		body = strings.Join(bs, "+")
	}
	tr := ""
	if trailers != nil {
		tr, _ = trailers.Get("X-Tok")
	}
	x.w.mu.Lock()
	x.got = append(x.got, fmt.Sprintf("h%s/b%s/t%s", h2tTok(h), body, h2tTok(tr)))
	x.w.mu.Unlock()
}
func (x *h2tWaiter) OnDecodeError(ctx context.Context, err error, headers api.HeaderMap) {
	x.w.mu.Lock()
	x.got = append(x.got, "err")
	x.w.mu.Unlock()
}
func (x *h2tWaiter) OnResetStream(reason types.StreamResetReason) {
	l := "?"
	switch reason {
	case types.StreamLocalReset:
		l = "L"
	case types.StreamRemoteReset:
		l = "R"
	case types.StreamConnectionFailed:
		l = "F"
	case types.StreamConnectionTermination:
		l = "K"
	}
	x.w.mu.Lock()
	x.resets = append(x.resets, l)
	x.w.mu.Unlock()
}
func (x *h2tWaiter) OnDestroyStream() {
	x.w.mu.Lock()
	x.destroys++
	x.w.mu.Unlock()
}

type h2tWorld struct {
	ln      net.Listener
	mu      sync.Mutex
	wire    []byte
	eof     bool
	srv     net.Conn
	conn    types.ClientConnection
	cl      stream.Client
	csc     types.ClientStreamConnection
	goaways int
	waiters []*h2tWaiter
	hbuf    bytes.Buffer
	henc    *xhpack.Encoder
}

func (w *h2tWorld) OnGoAway() {
	w.mu.Lock()
	w.goaways++
	w.mu.Unlock()
}

func h2tNewWorld(first uint32) *h2tWorld {
	h1bQuiet()
	ln, err := net.Listen("tcp", "127.0.0.1:0")
	if err != nil {
		panic(err)
	}
	w := &h2tWorld{ln: ln}
	w.henc = xhpack.NewEncoder(&w.hbuf)
	acc := make(chan struct{})
	go func() {
		c, err := ln.Accept()
		if err != nil {
			close(acc)
			return
		}
		w.mu.Lock()
		w.srv = c
		w.mu.Unlock()
		close(acc)
		buf := make([]byte, 16384)
		for {
			n, err := c.Read(buf)
			w.mu.Lock()
			w.wire = append(w.wire, buf[:n]...)
			if err != nil {
				w.eof = true
			}
			w.mu.Unlock()
			if err != nil {
				return
			}
		}
	}()
	ctx := variable.NewVariableContext(context.Background())
	w.conn = network.NewClientConnection(2*time.Second, nil, ln.Addr(), nil)
	w.cl = stream.NewStreamClient(ctx, protocol.HTTP2, w.conn, nil)
	if w.cl == nil {
		panic("h2tbl: no HTTP/2 stream client")
	}
	w.cl.SetStreamConnectionEventListener(w)
	if err := w.cl.Connect(); err != nil {
		panic(err)
	}
	<-acc
	w.csc = stream.VerifClientStreamConn(w.cl)
	if !shttp2.VerifH2SetNextStreamID(w.csc, first) {
		panic("h2tbl: not an HTTP/2 client stream connection")
	}
	return w
}

func (w *h2tWorld) close() {
	w.conn.Close(api.NoFlush, api.LocalClose)
	w.ln.Close()
	w.mu.Lock()
	if w.srv != nil {
		w.srv.Close()
	}
	w.mu.Unlock()
}

func (w *h2tWorld) closed() bool { return w.conn.State() == api.ConnClosed }

// open: NewStream + AppendHeaders(end of stream) for a request with token tok
func (w *h2tWorld) open(tok int, oneway bool) *h2tWaiter {
	x := &h2tWaiter{w: w, tok: tok, oneway: oneway}
	ctx := buffer.NewBufferPoolContext(variable.NewVariableContext(context.Background()))
	if oneway {
		x.sender = w.cl.NewStream(ctx, nil)
	} else {
		x.sender = w.cl.NewStream(ctx, x)
	}
	x.sender.GetStream().AddEventListener(x)
	h := phttp2.NewHeaderMap(http.Header{})
	h.Set("x-tok", fmt.Sprintf("q%d", tok))
	x.sender.AppendHeaders(ctx, h, true)
	x.id = uint32(x.sender.GetStream().ID())
	return x
}

func (w *h2tWorld) feed(b []byte) {
	w.cl.OnData(buffer.NewIoBufferBytes(b))
}

func (w *h2tWorld) block(status bool, tok int) []byte {
	w.hbuf.Reset()
	if status {
		w.henc.WriteField(xhpack.HeaderField{Name: ":status", Value: "200"})
	}
	w.henc.WriteField(xhpack.HeaderField{Name: "x-tok", Value: fmt.Sprintf("r%d", tok)})
	return append([]byte(nil), w.hbuf.Bytes()...)
}

func (w *h2tWorld) frame(f func(fr *xh2.Framer)) {
	var b bytes.Buffer
	fr := xh2.NewFramer(&b, nil)
	fr.AllowIllegalWrites = true
	f(fr)
	w.feed(b.Bytes())
}

// target of a frame op: stream object (upper case) or raw id (lower case)
func (w *h2tWorld) target(op string, step int) (id uint32, tok int, end bool, ok bool) {
	body := op[1:]
	if strings.HasSuffix(body, "e") {
		end = true
		body = body[:len(body)-1]
	}
	n, err := strconv.ParseUint(body, 10, 32)
	if err != nil {
		return 0, 0, false, false
	}
	if op[0] >= 'A' && op[0] <= 'Z' {
		if int(n) >= len(w.waiters) {
			return 0, 0, false, false
		}
		return w.waiters[n].id, int(n), end, true
	}
	// a raw id that is the id of a stream object: the frame answers that request (token of the LAST object with the id)
	for k := len(w.waiters) - 1; k >= 0; k-- {
		if n != 0 && w.waiters[k].id == uint32(n) {
			return uint32(n), k, end, true
		}
	}
	return uint32(n), 9000 + step, end, true
}

// apply one op; returns the op as it is rendered in the case line
func (w *h2tWorld) apply(op string, step int) string {
	switch {
	case op == "N" || op == "O":
		w.waiters = append(w.waiters, w.open(len(w.waiters), op == "O"))
	case op[0] == 'B':
		n, _ := strconv.Atoi(op[1:])
		if n <= 0 { // a replayed line: B<g.g.g>
			n = len(strings.Split(op[1:], "."))
		}
		base := len(w.waiters)
		xs := make([]*h2tWaiter, n)
		start := make(chan struct{})
		var wg sync.WaitGroup
		for g := 0; g < n; g++ {
			wg.Add(1)
			go func(g int) {
				defer wg.Done()
				<-start
				xs[g] = w.open(base+g, false)
			}(g)
		}
		close(start)
		wg.Wait()
		w.waiters = append(w.waiters, xs...)
		order := make([]int, n)
		for g := range order {
			order[g] = g
		}
		// allocation order = id order; a request whose id was refused (id 0) came after the valid ones (scripts use batches
		// only while the counter is below 2^31)
		key := func(g int) uint64 {
			if xs[g].id == 0 {
				return 1 << 40
			}
			return uint64(xs[g].id)
		}
		sort.SliceStable(order, func(a, b int) bool { return key(order[a]) < key(order[b]) })
		var os []string
		for _, g := range order {
			os = append(os, strconv.Itoa(g))
		}
		return "B" + strings.Join(os, ".")
	case op[0] == 'H' || op[0] == 'h':
		if id, tok, end, ok := w.target(op, step); ok {
			blk := w.block(true, tok)
			w.frame(func(fr *xh2.Framer) {
				fr.WriteHeaders(xh2.HeadersFrameParam{StreamID: id, BlockFragment: blk, EndStream: end, EndHeaders: true})
			})
		}
	case op[0] == 'T' || op[0] == 't':
		if id, tok, _, ok := w.target(op, step); ok {
			blk := w.block(false, tok)
			w.frame(func(fr *xh2.Framer) {
				fr.WriteHeaders(xh2.HeadersFrameParam{StreamID: id, BlockFragment: blk, EndStream: true, EndHeaders: true})
			})
		}
	case op[0] == 'D' || op[0] == 'd':
		if id, tok, end, ok := w.target(op, step); ok {
			w.frame(func(fr *xh2.Framer) { fr.WriteData(id, end, []byte(fmt.Sprintf("r%d.", tok))) })
		}
	case op[0] == 'E' || op[0] == 'e':
		if id, _, _, ok := w.target(op, step); ok {
			w.frame(func(fr *xh2.Framer) { fr.WriteData(id, true, nil) })
		}
	case op[0] == 'R' || op[0] == 'r':
		if id, _, _, ok := w.target(op, step); ok {
			w.frame(func(fr *xh2.Framer) { fr.WriteRSTStream(id, xh2.ErrCodeCancel) })
		}
	case op[0] == 'G' || op[0] == 'g':
		last, _ := strconv.ParseUint(op[1:], 10, 32)
		code := xh2.ErrCodeNo
		if op[0] == 'g' {
			code = xh2.ErrCodeInternal
		}
		w.frame(func(fr *xh2.Framer) { fr.WriteGoAway(uint32(last), code, nil) })
	case op[0] == 'X':
		n, _ := strconv.Atoi(op[1:])
		if n < len(w.waiters) {
			w.waiters[n].sender.GetStream().ResetStream(types.StreamLocalReset)
		}
	case op == "C":
		w.cl.OnEvent(api.RemoteClose)
	case op == "Z":
		w.frame(func(fr *xh2.Framer) { fr.WriteSettings() })
	case op[0] == 'W':
		id, _ := strconv.ParseUint(op[1:], 10, 32)
		w.frame(func(fr *xh2.Framer) { fr.WriteWindowUpdate(uint32(id), 100) })
	case op == "P":
		blk := w.block(true, 9000+step)
		w.frame(func(fr *xh2.Framer) {
			fr.WritePushPromise(xh2.PushPromiseParam{StreamID: 1, PromiseID: 2, BlockFragment: blk, EndHeaders: true})
		})
	default:
		panic("h2tbl: bad op " + op)
	}
	return op
}

func h2tIDs(ids []uint32) string {
	var t []string
	for _, id := range ids {
		t = append(t, strconv.FormatUint(uint64(id), 10))
	}
	return strings.Join(t, ",")
}

func (w *h2tWorld) snapshot() string {
	tbl, mod, next, last, ok := shttp2.VerifH2ClientTable(w.csc)
	if !ok {
		panic("h2tbl: table")
	}
	cl := 0
	if w.closed() {
		cl = 1
	}
	w.mu.Lock()
	defer w.mu.Unlock()
	var ws []string
	for _, x := range w.waiters {
		ws = append(ws, fmt.Sprintf("%d:%s:%s", x.id, strings.Join(x.got, ","), strings.Join(x.resets, "")))
	}
	return fmt.Sprintf("n%d;m%s;t%s;l%d;g%d;c%d;w%s", next, h2tIDs(mod), h2tIDs(tbl), last, w.goaways, cl, strings.Join(ws, "|"))
}

// h2tParseWire: what the peer received: ids of the request HEADERS frames in order with the token each carried (""
// when the header block could not be decoded), RST_STREAM ids sorted
func h2tParseWire(data []byte) (ids []uint32, toks []string, rsts []uint32) {
	pre := []byte(xh2.ClientPreface)
	if !bytes.HasPrefix(data, pre) {
		return nil, nil, nil
	}
	fr := xh2.NewFramer(nil, bytes.NewReader(data[len(pre):]))
	dec := xhpack.NewDecoder(4096, func(f xhpack.HeaderField) {
		if f.Name == "x-tok" && len(toks) > 0 {
			toks[len(toks)-1] = f.Value
		}
	})
	for {
		f, err := fr.ReadFrame()
		if err != nil {
			break
		}
		switch x := f.(type) {
		case *xh2.HeadersFrame:
			ids = append(ids, x.StreamID)
			toks = append(toks, "")
			dec.Write(x.HeaderBlockFragment())
		case *xh2.ContinuationFrame:
			dec.Write(x.HeaderBlockFragment())
		case *xh2.RSTStreamFrame:
			rsts = append(rsts, x.StreamID)
		}
	}
	sort.Slice(rsts, func(i, j int) bool { return rsts[i] < rsts[j] })
	return
}

// wireView: `wire<ids of the request frames>;rst<ids>;mis<id>q<tok>,…` - mis lists the request frames whose token is not
// the token of the stream object registered under the frame's id
func (w *h2tWorld) wireView() string {
	// a last request as a marker: when the peer has it, it has everything written before (or the connection is closed: EOF)
	var marker *h2tWaiter
	if !w.closed() {
		if _, _, next, _, _ := shttp2.VerifH2ClientTable(w.csc); next != 0 && next < 1<<31 {
			marker = w.open(999999, true)
		}
	}
	deadline := time.Now().Add(2 * time.Second)
	lastLen, stable := -1, time.Now()
	for {
		w.mu.Lock()
		data := append([]byte{}, w.wire...)
		eof := w.eof
		w.mu.Unlock()
		ids, toks, rsts := h2tParseWire(data)
		sentinel := false
		if marker != nil && len(ids) > 0 && ids[len(ids)-1] == marker.id {
			sentinel = true
			ids, toks = ids[:len(ids)-1], toks[:len(toks)-1]
		}
		if len(data) != lastLen {
			lastLen, stable = len(data), time.Now()
		}
		done := sentinel || eof || (marker == nil && time.Since(stable) > 30*time.Millisecond)
		if done || time.Now().After(deadline) {
			var mis []string
			for i, id := range ids {
				if toks[i] == "" {
					continue
				}
				ok := false
				for _, x := range w.waiters {
					if x.id == id && toks[i] == fmt.Sprintf("q%d", x.tok) {
						ok = true
					}
				}
				if !ok {
					mis = append(mis, fmt.Sprintf("%d%s", id, hx.Tok(toks[i])))
				}
			}
			return fmt.Sprintf("wire%s;rst%s;mis%s", h2tIDs(ids), h2tIDs(rsts), strings.Join(mis, ","))
		}
		time.Sleep(200 * time.Microsecond)
	}
}

func h2tRun(c *hx.Ctx, first uint32, ops []string) {
	w := h2tNewWorld(first)
	defer w.close()
	var obs, done []string
	msg, panicked := hx.Safe(func() {
		for i, op := range ops {
			done = append(done, w.apply(op, i))
			obs = append(obs, w.snapshot())
			if w.closed() {
				break
			}
		}
	})
	if panicked {
		obs = append(obs, "panic="+hx.Tok(msg))
	} else {
		obs = append(obs, w.wireView())
	}
	c.Emit("C02", fmt.Sprintf("h2tbl %d %s", first, strings.Join(done, ",")), strings.Join(obs, " "))
	for _, o := range done {
		c.Count("h2tbl.op." + strings.TrimRight(strings.TrimRight(o, "e"), "0123456789."))
	}
	c.Count(fmt.Sprintf("h2tbl.streams=%02d", len(w.waiters)/4*4))
	if w.closed() {
		c.Count("h2tbl.conn-closed")
	}
	c.Count("h2tbl.cases")
}

var h2tFirsts = []uint32{1, 1, 1, 3, 1<<31 - 7, 1<<31 - 3, 1<<31 - 1, 1<<31 + 1, 1<<32 - 3, 1<<32 - 1, 2, 1 << 20}

// h2tAnswer: the frames of a complete answer to stream object k in one of several shapes
func h2tAnswer(r *hx.Rng, k int) []string {
	switch r.Intn(6) {
	case 0:
		return []string{fmt.Sprintf("H%de", k)}
	case 1:
		return []string{fmt.Sprintf("H%d", k), fmt.Sprintf("D%de", k)}
	case 2:
		return []string{fmt.Sprintf("H%d", k), fmt.Sprintf("D%d", k), fmt.Sprintf("D%d", k), fmt.Sprintf("E%d", k)}
	case 3:
		return []string{fmt.Sprintf("H%d", k), fmt.Sprintf("D%d", k), fmt.Sprintf("T%d", k)}
	case 4:
		return []string{fmt.Sprintf("H%d", k), fmt.Sprintf("T%d", k)}
	}
	return []string{fmt.Sprintf("H%d", k), fmt.Sprintf("E%d", k)}
}

// h2tGen: n requests (single and in concurrent batches), their answers' frames interleaved in a seeded order, plus
// duplicates of final frames, resets from both sides, GOAWAY in the middle, frames for unknown / finished ids, noise.
func h2tGen(r *hx.Rng, first uint32, n int) []string {
	var ops []string
	opened := 0
	var pending [][]string // per opened stream: frames still to be dispatched
	var finished []int
	ids := func(k int) uint32 { return first + 2*uint32(k) }
	// the request of stream object k goes out (its id is valid); a refused one is addressed only rarely (its id is 0: a
	// frame on stream 0 is a connection error)
	answer := func(k int) []string {
		if id := ids(k); id == 0 || id >= 1<<31 {
			if r.Chance(4) {
				return []string{fmt.Sprintf("H%de", k)}
			}
			return nil
		}
		return h2tAnswer(r, k)
	}
	openSome := func() {
		if opened >= n {
			return
		}
		if n-opened >= 2 && uint64(first)+2*uint64(opened+4) < 1<<31 && r.Chance(40) {
			b := 2 + r.Intn(3)
			if b > n-opened {
				b = n - opened
			}
			ops = append(ops, fmt.Sprintf("B%d", b))
			for i := 0; i < b; i++ {
				pending = append(pending, answer(opened+i))
			}
			opened += b
			return
		}
		if r.Chance(6) {
			ops = append(ops, "O")
		} else {
			ops = append(ops, "N")
		}
		pending = append(pending, answer(opened))
		opened++
	}
	openSome()
	goaway := false
	for steps := 0; steps < 8*n+12; steps++ {
		live := []int{}
		for k, p := range pending {
			if len(p) > 0 {
				live = append(live, k)
			}
		}
		if opened >= n && len(live) == 0 {
			break
		}
		x := r.Intn(100)
		switch {
		case x < 22:
			openSome()
		case x < 70 && len(live) > 0:
			k := live[r.Intn(len(live))]
			f := pending[k][0]
			pending[k] = pending[k][1:]
			ops = append(ops, f)
			if len(pending[k]) == 0 {
				finished = append(finished, k)
				if r.Chance(25) { // duplicate END_STREAM / late frame for the finished id
					ops = append(ops, []string{f, fmt.Sprintf("E%d", k), fmt.Sprintf("D%d", k), fmt.Sprintf("H%de", k), fmt.Sprintf("R%d", k), fmt.Sprintf("T%d", k)}[r.Intn(6)])
				}
			}
		case x < 76 && len(live) > 0: // the peer resets a stream that is (partly) unanswered
			k := live[r.Intn(len(live))]
			ops = append(ops, fmt.Sprintf("R%d", k))
			if r.Chance(60) { // … and goes on sending on it
				ops = append(ops, pending[k][0])
			}
			pending[k] = nil
			finished = append(finished, k)
		case x < 83 && len(live) > 0: // local reset (timeout), the answer arrives late
			k := live[r.Intn(len(live))]
			ops = append(ops, fmt.Sprintf("X%d", k))
			if r.Chance(70) {
				ops = append(ops, pending[k]...)
			}
			pending[k] = nil
			finished = append(finished, k)
		case x < 86 && len(finished) > 0:
			k := finished[r.Intn(len(finished))]
			ops = append(ops, []string{"H%de", "D%de", "E%d", "R%d", "X%d", "T%d", "H%d"}[r.Intn(7)])
			ops[len(ops)-1] = fmt.Sprintf(ops[len(ops)-1], k)
		case x < 90: // unknown ids: never opened (odd, below the counter is impossible: use even / far ones), not yet opened
			id := []uint32{2, 4, ids(opened) &^ 1, ids(opened + 3), ids(opened), 0x7ffffffd, 6}[r.Intn(7)]
			kind := []string{"h%de", "h%d", "r%d", "t%d", "W%d"}[r.Intn(5)]
			if r.Chance(6) { // DATA on an id that is not registered: stream error, or (never opened) connection error
				kind = "d%d"
			}
			ops = append(ops, fmt.Sprintf(kind, id&0x7fffffff))
		case x < 93 && !goaway && opened > 0:
			last := ids(r.Intn(opened))
			if r.Chance(20) {
				last = ids(opened + 1)
			}
			if r.Chance(15) {
				ops = append(ops, fmt.Sprintf("g%d", last&0x7fffffff))
			} else {
				ops = append(ops, fmt.Sprintf("G%d", last&0x7fffffff))
				goaway = true
			}
		case x < 95:
			ops = append(ops, "Z")
		case x < 97 && goaway:
			ops = append(ops, "C")
			for k := range pending {
				if len(pending[k]) > 0 {
					if r.Chance(30) {
						ops = append(ops, pending[k][0])
					}
					pending[k] = nil
					finished = append(finished, k)
				}
			}
		case x < 98 && r.Chance(8):
			ops = append(ops, "P")
		}
	}
	if r.Chance(15) {
		ops = append(ops, "C")
	}
	return ops
}

func h2tCases(c *hx.Ctx) {
	r := hx.NewRng(c.Seed ^ 0x42747b1)
	fixed := []struct {
		first uint32
		ops   string
	}{
		// three concurrent requests, answers interleaved frame by frame, in another order than the requests
		{1, "B3,H2,H0,D2,H1e,D0,D2e,E0"},
		// duplicate END_STREAM, frames for finished and unknown ids, RST of a half answered stream, then DATA on it
		{1, "N,N,N,H0e,H0e,E0,h9e,h2e,H1,R1,D1e,H2,D2,T2,T2,r5"},
		// GOAWAY with a last-stream-id in the middle: nothing is reset; the connection event resets the rest
		{1, "N,N,N,N,G3,H0e,H2,C,D2e,H3e"},
		// timeout, late answer; one-way; local reset of an answered stream
		{1, "N,O,N,X0,H0,D0e,H1e,H2e,X2,E2"},
		// DATA before HEADERS (stream error: the stream is reset), trailers without HEADERS closes the connection
		{1, "N,N,D0,H0e,T1"},
		// ids at the 31-bit boundary: the last valid id, then the counter has left the valid range
		{1<<31 - 3, "N,N,N,H0e,H1e,H2e,N"},
		{1<<31 - 1, "B3,H0e,H1e,H2e"},
		{1<<32 - 3, "N,N,N,N,H2e,H3,D3e"},
		// DATA on an id that was never opened: connection error
		{1, "N,N,H0,d5,D0e"},
	}
	for _, f := range fixed {
		h2tRun(c, f.first, strings.Split(f.ops, ","))
	}
	for i := 0; i < c.N(220, 2500); i++ {
		first := uint32(1) // what NewClientConn sets
		if r.Chance(35) {
			first = h2tFirsts[r.Intn(len(h2tFirsts))]
			if r.Chance(40) {
				first = uint32(1<<31) - 1 - 2*uint32(r.Intn(12))
			}
		}
		n := 1 + r.Intn(c.N(10, 20))
		h2tRun(c, first, h2tGen(r, first, n))
	}
}
