//go:build verif

package c02

// Kind `e2e`: request/response correlation END TO END. A raw bolt client (its own wire code, not MOSN's codec) talks to
// a real MOSN server connection on loopback: network.NewServerConnection + the real proxy network filter (real xprotocol
// server stream connection, proxy core with its worker pool, router, cluster manager, real multiplex connection pool and
// xprotocol client stream connection) in front of a scripted in-process bolt upstream that answers in any order, stays
// silent (per-try / global timeout, retries used up), answers late, twice, with unknown ids, or closes the connection.
// All N <= 16 requests of a case share ONE downstream and ONE upstream connection and are in flight together; the
// client's request ids never start at 1 and are chosen to collide with the ids MOSN allocates upstream.
// Observed: every frame the upstream received (id, token) and every frame the client received (id, status, token in
// the header, token in the body). The observed schedule (log) is handed to the Lean model as its schedule parameter.

import (
	"bufio"
	"bytes"
	"context"
	"encoding/binary"
	"fmt"
	"io"
	"net"
	"os"
	"path/filepath"
	"sort"
	"strconv"
	"strings"
	"sync"
	"sync/atomic"
	"time"

	"mosn.io/api"
	v2 "mosn.io/mosn/pkg/config/v2"
	"mosn.io/mosn/pkg/configmanager"
	proxyfilter "mosn.io/mosn/pkg/filter/network/proxy"
	"mosn.io/mosn/pkg/log"
	"mosn.io/mosn/pkg/network"
	"mosn.io/mosn/pkg/protocol/xprotocol"
	"mosn.io/mosn/pkg/protocol/xprotocol/bolt"
	"mosn.io/mosn/pkg/protocol/xprotocol/boltv2"
	"mosn.io/mosn/pkg/protocol/xprotocol/dubbo"
	"mosn.io/mosn/pkg/protocol/xprotocol/dubbothrift"
	"mosn.io/mosn/pkg/protocol/xprotocol/tars"
	"mosn.io/mosn/pkg/router"
	"mosn.io/mosn/pkg/types"
	"mosn.io/mosn/pkg/upstream/cluster"
	"mosn.io/pkg/variable"

	"verif/harness/hx"
)

const (
	e2eRouter  = "c02e2e"
	e2eWorlds  = 4
	e2eTry     = 70    // ms: per-try / global timeout of the requests that are meant to time out
	e2eLong    = 20000 // ms: global timeout of every other request
	e2eWarmID  = 0x7e000000
	e2eMaxWait = 4 * time.Second
)

// ---------------------------------------------------------------------------------------------------------------------
// bolt v1 wire, written against the format (this is the observer; MOSN's codec is the subject)

const (
	bReqClass  = "com.alipay.sofa.rpc.core.request.SofaRequest"
	bRespClass = "com.alipay.sofa.rpc.core.response.SofaResponse"
)

type bFrame struct {
	typ     byte
	cmd     uint16
	id      uint32
	status  uint16
	hdr     map[string]string
	content []byte
}

func bKV(kv ...string) []byte {
	var b bytes.Buffer
	for _, s := range kv {
		binary.Write(&b, binary.BigEndian, uint32(len(s)))
		b.WriteString(s)
	}
	return b.Bytes()
}

func bParseKV(b []byte) map[string]string {
	m := map[string]string{}
	var parts []string
	for len(b) >= 4 {
		n := int(binary.BigEndian.Uint32(b))
		b = b[4:]
		if n < 0 || n > len(b) {
			break
		}
		parts = append(parts, string(b[:n]))
		b = b[n:]
	}
	for i := 0; i+1 < len(parts); i += 2 {
		m[parts[i]] = parts[i+1]
	}
	return m
}

func bRequest(id uint32, timeoutMs int, hdr, content []byte) []byte {
	b := make([]byte, 22)
	b[0], b[1], b[4], b[9] = 1, 1, 1, 1
	binary.BigEndian.PutUint16(b[2:], 1)
	binary.BigEndian.PutUint32(b[5:], id)
	binary.BigEndian.PutUint32(b[10:], uint32(timeoutMs))
	binary.BigEndian.PutUint16(b[14:], uint16(len(bReqClass)))
	binary.BigEndian.PutUint16(b[16:], uint16(len(hdr)))
	binary.BigEndian.PutUint32(b[18:], uint32(len(content)))
	b = append(b, bReqClass...)
	b = append(b, hdr...)
	return append(b, content...)
}

func bResponse(id uint32, cmd uint16, status uint16, hdr, content []byte) []byte {
	b := make([]byte, 20)
	b[0], b[1], b[4], b[9] = 1, 0, 1, 1
	binary.BigEndian.PutUint16(b[2:], cmd)
	binary.BigEndian.PutUint32(b[5:], id)
	binary.BigEndian.PutUint16(b[10:], status)
	cls := bRespClass
	if cmd == 0 {
		cls = ""
	}
	binary.BigEndian.PutUint16(b[12:], uint16(len(cls)))
	binary.BigEndian.PutUint16(b[14:], uint16(len(hdr)))
	binary.BigEndian.PutUint32(b[16:], uint32(len(content)))
	b = append(b, cls...)
	b = append(b, hdr...)
	return append(b, content...)
}

func bRead(br *bufio.Reader) (*bFrame, error) {
	pre := make([]byte, 10)
	if _, err := io.ReadFull(br, pre); err != nil {
		return nil, err
	}
	f := &bFrame{typ: pre[1], cmd: binary.BigEndian.Uint16(pre[2:]), id: binary.BigEndian.Uint32(pre[5:])}
	n := 10
	if f.typ != 0 {
		n = 12
	}
	rest := make([]byte, n)
	if _, err := io.ReadFull(br, rest); err != nil {
		return nil, err
	}
	if f.typ == 0 {
		f.status = binary.BigEndian.Uint16(rest[0:])
	}
	lens := rest[n-8:]
	cl, hl, bl := int(binary.BigEndian.Uint16(lens[0:])), int(binary.BigEndian.Uint16(lens[2:])), int(binary.BigEndian.Uint32(lens[4:]))
	if bl > 1<<20 {
		return nil, fmt.Errorf("frame too large")
	}
	body := make([]byte, cl+hl+bl)
	if _, err := io.ReadFull(br, body); err != nil {
		return nil, err
	}
	f.hdr, f.content = bParseKV(body[cl:cl+hl]), body[cl+hl:]
	return f, nil
}

// ---------------------------------------------------------------------------------------------------------------------
// MOSN side (once per process)

var e2eBroken int32 // consecutive cases whose warm-up exchange did not complete

var (
	e2eOnce  sync.Once
	e2eFront = map[string]net.Listener{} // per protocol (wire tag): the downstream listener with that protocol's proxy filter
)

func e2eCluster(w int) string { return fmt.Sprintf("c02e2e-up%d", w) }
func e2eService(w int, route byte) string {
	return fmt.Sprintf("c02e2e.w%d.%c", w, route)
}

func e2eSetup() {
	e2eOnce.Do(func() {
		lvl := log.FATAL
		if os.Getenv("C02_DEBUG") != "" {
			lvl = log.DEBUG
		}
		log.DefaultLogger.SetLogLevel(lvl)
		log.StartLogger.SetLogLevel(lvl)
		log.Proxy.SetLogLevel(lvl)
		register()
		configmanager.ParseServerConfig(&v2.ServerConfig{})
		for _, c := range []api.XProtocolCodec{&bolt.XCodec{}, &boltv2.XCodec{}, &dubbo.XCodec{}, &dubbothrift.XCodec{}, &tars.XCodec{}} {
			_ = xprotocol.RegisterXProtocolCodec(c)
		}
		cluster.NewClusterManagerSingleton(nil, nil, nil)
		cm := cluster.GetClusterMngAdapterInstance()
		var routers []v2.Router
		for w := 0; w < e2eWorlds; w++ {
			if err := cm.AddOrUpdatePrimaryCluster(v2.Cluster{Name: e2eCluster(w), ClusterType: v2.SIMPLE_CLUSTER, LbType: v2.LB_ROUNDROBIN,
				MaxRequestPerConn: 1 << 20, ConnBufferLimitBytes: 32 * 1024}); err != nil {
				panic(err)
			}
			// p / r: bolt (timeouts travel in the frame and in headers); P / G / T / R: the protocols that cannot carry
			// arbitrary headers get their timeouts from the route (plain / global timeout / per-try timeout / retries)
			for _, rt := range []byte{'p', 'r', 'P', 'G', 'T', 'R'} {
				r := v2.Router{RouterConfig: v2.RouterConfig{
					Match: v2.RouterMatch{Headers: []v2.HeaderMatcher{{Name: "service", Value: e2eService(w, rt)}}},
					Route: v2.RouteAction{RouterActionConfig: v2.RouterActionConfig{ClusterName: e2eCluster(w)}},
				}}
				switch rt {
				case 'r':
					r.Route.RetryPolicy = &v2.RetryPolicy{RetryPolicyConfig: v2.RetryPolicyConfig{RetryOn: true, NumRetries: 3}}
				case 'P':
					r.Route.Timeout = e2eLong * time.Millisecond
				case 'G':
					r.Route.Timeout = e2eTry * time.Millisecond
				case 'T':
					r.Route.Timeout = e2eLong * time.Millisecond
					r.Route.RetryPolicy = &v2.RetryPolicy{RetryTimeout: e2eTry * time.Millisecond}
				case 'R':
					r.Route.Timeout = e2eLong * time.Millisecond
					r.Route.RetryPolicy = &v2.RetryPolicy{RetryPolicyConfig: v2.RetryPolicyConfig{RetryOn: true, NumRetries: 3},
						RetryTimeout: e2eTry * time.Millisecond}
				}
				routers = append(routers, r)
			}
		}
		rc := &v2.RouterConfiguration{
			RouterConfigurationConfig: v2.RouterConfigurationConfig{RouterConfigName: e2eRouter},
			VirtualHosts:              []v2.VirtualHost{{Name: "all", Domains: []string{"*"}, Routers: routers}},
		}
		if err := router.GetRoutersMangerInstance().AddOrUpdateRouters(rc); err != nil {
			panic(err)
		}
		for _, wire := range e2eWires {
			factory, err := proxyfilter.CreateProxyFactory(map[string]interface{}{
				"downstream_protocol": wire.mosn(), "upstream_protocol": wire.mosn(), "router_config_name": e2eRouter})
			if err != nil {
				panic(err)
			}
			front, err := net.Listen("tcp", "127.0.0.1:0")
			if err != nil {
				panic(err)
			}
			e2eFront[wire.tag()] = front
			// every accepted downstream connection gets the real proxy filter, as activeListener.OnNewConnection does
			go func() {
				for {
					rawc, err := front.Accept()
					if err != nil {
						return
					}
					ctx := variable.NewVariableContext(context.Background())
					variable.Set(ctx, types.VariableAccessLogs, []api.AccessLog{})
					variable.Set(ctx, types.VariableListenerName, "c02e2e")
					conn := network.NewServerConnection(ctx, rawc, nil)
					factory.CreateFilterChain(ctx, conn.FilterManager())
					conn.FilterManager().InitializeReadFilters()
					conn.Start(ctx)
				}
			}()
		}
	})
}

// ---------------------------------------------------------------------------------------------------------------------
// the scripted upstream and the recording client of one case

type e2eArr struct {
	uid  uint64
	tok  int // -1: no / unreadable token
	conn int
}

type e2eUp struct {
	ln    net.Listener
	mu    sync.Mutex
	conns []net.Conn
	wmu   []*sync.Mutex
	arr   []e2eArr // request frames other than heartbeats and warm-ups, in arrival order
	last  uint64   // id of the last frame of any kind (= the connection's id counter)
	hb    int
}

func e2eTokOf(f *e2eFrame) int {
	t := f.htok
	if !strings.HasPrefix(t, "t") {
		return -1
	}
	n, err := strconv.Atoi(t[1:])
	if err != nil {
		return -1
	}
	return n
}

func newE2EUp(wire e2eWire) *e2eUp {
	ln, err := net.Listen("tcp", "127.0.0.1:0")
	if err != nil {
		panic(err)
	}
	u := &e2eUp{ln: ln}
	go func() {
		for {
			c, err := ln.Accept()
			if err != nil {
				return
			}
			u.mu.Lock()
			idx := len(u.conns)
			u.conns = append(u.conns, c)
			wm := &sync.Mutex{}
			u.wmu = append(u.wmu, wm)
			u.mu.Unlock()
			go func() {
				br := bufio.NewReader(c)
				for {
					f, err := wire.read(br, true)
					if err != nil {
						return
					}
					if !f.req {
						continue
					}
					u.mu.Lock()
					u.last = f.id
					u.mu.Unlock()
					switch {
					case f.hb: // heartbeat
						u.mu.Lock()
						u.hb++
						u.mu.Unlock()
						wm.Lock()
						c.Write(wire.hbAck(f.id))
						wm.Unlock()
					case strings.HasPrefix(f.htok, "w"): // warm-up: answered at once
						wm.Lock()
						c.Write(wire.response(f.id, f.htok))
						wm.Unlock()
					default:
						u.mu.Lock()
						u.arr = append(u.arr, e2eArr{uid: f.id, tok: e2eTokOf(f), conn: idx})
						u.mu.Unlock()
					}
				}
			}()
		}
	}()
	return u
}

func (u *e2eUp) write(conn int, b []byte) {
	u.mu.Lock()
	if conn >= len(u.conns) {
		u.mu.Unlock()
		return
	}
	c, wm := u.conns[conn], u.wmu[conn]
	u.mu.Unlock()
	wm.Lock()
	c.Write(b)
	wm.Unlock()
}

func (u *e2eUp) closeAll() {
	u.ln.Close()
	u.mu.Lock()
	for _, c := range u.conns {
		c.Close()
	}
	u.mu.Unlock()
}

type e2eDn struct {
	id     uint64
	status uint16
	htok   string
	btok   string
}

type e2eCli struct {
	c      net.Conn
	mu     sync.Mutex
	frames []e2eDn // every response frame other than warm-up replies
	warm   map[uint64]uint16
	dead   bool
}

func newE2ECli(wire e2eWire) *e2eCli {
	c, err := net.Dial("tcp", e2eFront[wire.tag()].Addr().String())
	if err != nil {
		panic(err)
	}
	cl := &e2eCli{c: c, warm: map[uint64]uint16{}}
	go func() {
		br := bufio.NewReader(c)
		for {
			f, err := wire.read(br, false)
			if err != nil {
				cl.mu.Lock()
				cl.dead = true
				cl.mu.Unlock()
				return
			}
			cl.mu.Lock()
			if cl.warm != nil && f.id >= e2eWarmID && f.id < e2eWarmID+4096 {
				cl.warm[f.id] = f.status
			} else {
				h := f.htok
				if h == "" {
					h = "-"
				}
				b := f.body
				if b == "" {
					b = "-"
				}
				st := f.status
				if f.req { // not an rpc response at all
					st = 65535
				}
				cl.frames = append(cl.frames, e2eDn{f.id, st, hx.Tok(h), hx.Tok(b)})
			}
			cl.mu.Unlock()
		}
	}()
	return cl
}

func e2eWait(cond func() bool, max time.Duration) bool {
	dl := time.Now().Add(max)
	for !cond() {
		if time.Now().After(dl) {
			return false
		}
		time.Sleep(150 * time.Microsecond)
	}
	return true
}

// ---------------------------------------------------------------------------------------------------------------------
// plans

type e2eReq struct {
	did    uint32
	tok    int
	kind   byte // 'o' answered at the first try, 'g' global timeout, 't' per-try timeout without retry, 'r' retry route
	silent int  // 'r': tries left unanswered
	final  bool // 'r': the try after the silent ones is answered (otherwise: retries used up)
}

func (r e2eReq) String() string {
	s := fmt.Sprintf("%d:%d:%c", r.did, r.tok, r.kind)
	if r.kind == 'r' {
		s += strconv.Itoa(r.silent)
		if r.final {
			s += "a"
		} else {
			s += "n"
		}
	}
	return s
}

func (r e2eReq) tries() int {
	if r.kind != 'r' {
		return 1
	}
	if r.final {
		return r.silent + 1
	}
	return r.silent
}

type e2eStep struct {
	op  byte  // S send, a answer, d answer twice, j junk reply, e wait for an error reply, w wait for the next try, x close upstream
	ks  []int // S
	k   int
	try int
	id  uint32
}

func (s e2eStep) String() string {
	switch s.op {
	case 'S':
		var p []string
		for _, k := range s.ks {
			p = append(p, strconv.Itoa(k))
		}
		return "S" + strings.Join(p, ".")
	case 'a', 'd', 'w':
		return fmt.Sprintf("%c%d.%d", s.op, s.k, s.try)
	case 'e':
		return fmt.Sprintf("e%d", s.k)
	case 'j':
		return fmt.Sprintf("j%d", s.id)
	}
	return string(s.op)
}

type e2ePlan struct {
	extraWarm int
	reqs      []e2eReq
	steps     []e2eStep
}

func (p *e2ePlan) caseToks() string {
	var rs, ss []string
	for _, r := range p.reqs {
		rs = append(rs, r.String())
	}
	for _, s := range p.steps {
		ss = append(ss, s.String())
	}
	return fmt.Sprintf("e2e %d %s %s", p.extraWarm, strings.Join(rs, ","), strings.Join(ss, ","))
}

func e2eShuffle(r *hx.Rng, xs []int) []int {
	out := append([]int{}, xs...)
	for i := len(out) - 1; i > 0; i-- {
		j := r.Intn(i + 1)
		out[i], out[j] = out[j], out[i]
	}
	return out
}

func e2eGenPlan(r *hx.Rng) *e2ePlan {
	p := &e2ePlan{extraWarm: r.Pick([]int{0, 0, 1, 2, 5})}
	n := 1 + r.Intn(16)
	if r.Chance(35) {
		n = 1 + r.Intn(5)
	}
	if r.Chance(10) {
		n = 16
	}
	timed := r.Chance(45)
	for k := 0; k < n; k++ {
		q := e2eReq{tok: k, kind: 'o'}
		if timed && r.Chance(55) {
			switch x := r.Intn(100); {
			case x < 25:
				q.kind = 'g'
			case x < 50:
				q.kind = 't'
			default:
				q.kind = 'r'
				q.silent = r.Pick([]int{0, 1, 1, 2, 3, 4})
				q.final = q.silent < 4
			}
		}
		p.reqs = append(p.reqs, q)
	}
	// request ids of the client: never 1..n; mostly chosen inside the range of ids MOSN will allocate upstream
	pb := uint32(1 + p.extraWarm) // id of the last warm-up request on the upstream connection
	switch r.Intn(6) {
	case 0, 1: // a shuffle of the ids the upstream connection is about to use
		span := n + r.Intn(6)
		ids := e2eShuffle(r, seq(span))
		for k := range p.reqs {
			p.reqs[k].did = pb + 1 + uint32(ids[k])
		}
	case 2: // shifted by one: the id of request k is the upstream id of request k+1 if forwarded in order
		for k := range p.reqs {
			p.reqs[k].did = pb + 2 + uint32(k)
		}
	case 3: // around 2^31 and the top of the uint32 range
		base := []uint32{1<<31 - 5, 1<<32 - 20, 1 << 16}[r.Intn(3)]
		for k := range p.reqs {
			p.reqs[k].did = base + uint32(k)
		}
	case 4:
		used := map[uint32]bool{}
		for k := range p.reqs {
			v := uint32(r.U64())
			for used[v] || (v >= e2eWarmID && v < e2eWarmID+4096) {
				v++
			}
			used[v] = true
			p.reqs[k].did = v
		}
	default: // descending from 1000
		for k := range p.reqs {
			p.reqs[k].did = 1000 - uint32(k)*3
		}
	}
	// script
	var late, wave0, pendingOK []int
	for k, q := range p.reqs {
		if q.kind == 'o' && n > 1 && r.Chance(15) {
			late = append(late, k)
		} else {
			wave0 = append(wave0, k)
			if q.kind == 'o' {
				pendingOK = append(pendingOK, k)
			}
		}
	}
	if len(wave0) == 0 {
		wave0, late = late, nil
		pendingOK = append(pendingOK, wave0...)
	}
	xAt := -1 // the point at which the upstream closes the connection (-1: never)
	if r.Chance(22) {
		xAt = r.Intn(6)
	}
	closed := false
	point := 0
	answered := map[int]bool{}
	var staleable [][2]int // (k, try) abandoned tries that may be answered late
	add := func(s e2eStep) { p.steps = append(p.steps, s) }
	maybeX := func() {
		if !closed && xAt == point {
			add(e2eStep{op: 'x'})
			closed = true
		}
		point++
	}
	noise := func() {
		if closed {
			return
		}
		if r.Chance(12) {
			add(e2eStep{op: 'j', id: uint32(500000 + r.Intn(1000))})
		}
		if len(staleable) > 0 && r.Chance(45) {
			i := r.Intn(len(staleable))
			add(e2eStep{op: 'a', k: staleable[i][0], try: staleable[i][1]})
			if r.Chance(50) {
				staleable = append(staleable[:i], staleable[i+1:]...)
			}
		}
	}
	answer := func(k, try int) {
		op := byte('a')
		if r.Chance(15) {
			op = 'd'
		}
		add(e2eStep{op: op, k: k, try: try})
		answered[k] = true
		if r.Chance(30) {
			staleable = append(staleable, [2]int{k, try}) // a duplicate later on
		}
	}
	takeOK := func(all bool) []int {
		var now, keep []int
		for _, k := range e2eShuffle(r, pendingOK) {
			if all || r.Chance(40) {
				now = append(now, k)
			} else {
				keep = append(keep, k)
			}
		}
		pendingOK = keep
		return now
	}
	add(e2eStep{op: 'S', ks: wave0})
	maybeX()
	sendLate := func() {
		if len(late) > 0 && !closed {
			add(e2eStep{op: 'S', ks: late})
			pendingOK = append(pendingOK, late...)
			late = nil
		}
	}
	rounds := 0
	if timed {
		rounds = 4
	}
	for round := 1; ; round++ {
		// live answers of this round
		if !closed {
			var live []int
			for k, q := range p.reqs {
				if q.kind == 'r' && q.final && q.silent == round-1 && !answered[k] {
					live = append(live, k)
				}
			}
			// the answers to tries with a running per-try timer go first: they must arrive well inside the timer
			for _, k := range e2eShuffle(r, live) {
				answer(k, round)
			}
			for _, k := range takeOK(round > rounds) {
				noise()
				answer(k, 1)
			}
			if round == 1 && r.Chance(50) {
				sendLate()
			}
		}
		maybeX()
		if round > rounds {
			break
		}
		// what the timers of this round produce
		var waits []e2eStep
		for k, q := range p.reqs {
			switch {
			case (q.kind == 'g' || q.kind == 't') && round == 1:
				waits = append(waits, e2eStep{op: 'e', k: k})
				staleable = append(staleable, [2]int{k, 1})
			case q.kind == 'r' && !answered[k] && q.silent >= round:
				if round < 4 {
					waits = append(waits, e2eStep{op: 'w', k: k, try: round + 1})
				} else {
					waits = append(waits, e2eStep{op: 'e', k: k})
				}
				staleable = append(staleable, [2]int{k, round})
			}
		}
		if closed {
			break
		}
		for _, i := range e2eShuffle(r, seq(len(waits))) {
			add(waits[i])
		}
		if len(waits) == 0 && round > 1 {
			rounds = round // nothing timed is left
		}
		noise()
	}
	sendLate()
	if !closed {
		for _, k := range takeOK(true) {
			noise()
			answer(k, 1)
		}
		noise()
		if xAt >= 0 {
			add(e2eStep{op: 'x'})
			closed = true
		}
	}
	if closed && r.Chance(50) { // requests after the upstream is gone: local error before anything is forwarded
		var post []int
		for i := 0; i < 1+r.Intn(2) && len(p.reqs) < 16; i++ {
			k := len(p.reqs)
			p.reqs = append(p.reqs, e2eReq{did: p.reqs[0].did + 77 + uint32(i), tok: k, kind: 'o'})
			post = append(post, k)
		}
		if len(post) > 0 {
			add(e2eStep{op: 'S', ks: post})
		}
	}
	return p
}

// e2eParsePlan reads a plan back from its case tokens `e2e <warm> <did:tok:kind,…> <script>` (corpus / direct replay).
func e2eParsePlan(toks []string) (*e2ePlan, bool) {
	if len(toks) != 4 || toks[0] != "e2e" {
		return nil, false
	}
	p := &e2ePlan{}
	var err error
	if p.extraWarm, err = strconv.Atoi(toks[1]); err != nil || p.extraWarm < 0 || p.extraWarm > 50 {
		return nil, false
	}
	for _, t := range strings.Split(toks[2], ",") {
		f := strings.Split(t, ":")
		if len(f) != 3 || f[2] == "" {
			return nil, false
		}
		d, e1 := strconv.ParseUint(f[0], 10, 32)
		k, e2 := strconv.Atoi(f[1])
		if e1 != nil || e2 != nil {
			return nil, false
		}
		q := e2eReq{did: uint32(d), tok: k, kind: f[2][0]}
		switch q.kind {
		case 'o', 'g', 't':
			if len(f[2]) != 1 {
				return nil, false
			}
		case 'r':
			if len(f[2]) != 3 || f[2][1] < '0' || f[2][1] > '4' {
				return nil, false
			}
			q.silent = int(f[2][1] - '0')
			q.final = f[2][2] == 'a'
		default:
			return nil, false
		}
		p.reqs = append(p.reqs, q)
	}
	if len(p.reqs) > 18 {
		return nil, false
	}
	num := func(x string) (int, bool) { n, err := strconv.Atoi(x); return n, err == nil && n >= 0 }
	for _, t := range strings.Split(toks[3], ",") {
		if t == "" {
			return nil, false
		}
		st := e2eStep{op: t[0]}
		arg := t[1:]
		switch st.op {
		case 'x':
		case 'S':
			for _, x := range strings.Split(arg, ".") {
				k, ok := num(x)
				if !ok || k >= len(p.reqs) {
					return nil, false
				}
				st.ks = append(st.ks, k)
			}
		case 'a', 'd', 'w':
			f := strings.Split(arg, ".")
			if len(f) != 2 {
				return nil, false
			}
			k, ok1 := num(f[0])
			tr, ok2 := num(f[1])
			if !ok1 || !ok2 || k >= len(p.reqs) || tr < 1 {
				return nil, false
			}
			st.k, st.try = k, tr
		case 'e':
			k, ok := num(arg)
			if !ok || k >= len(p.reqs) {
				return nil, false
			}
			st.k = k
		case 'j':
			id, err := strconv.ParseUint(arg, 10, 32)
			if err != nil {
				return nil, false
			}
			st.id = uint32(id)
		default:
			return nil, false
		}
		p.steps = append(p.steps, st)
	}
	return p, true
}

// e2eCorpus: plans of minimised past failures (corpus/C02/*.txt), run before the generated ones.
func e2eCorpus() []*e2ePlan {
	files, _ := filepath.Glob(filepath.Join(os.Getenv("VERIF_CORPUS"), "C02", "*.txt"))
	if len(files) == 0 {
		if exe, err := os.Executable(); err == nil {
			// check copies the binary into <verif>/.run/<pid>/
			files, _ = filepath.Glob(filepath.Join(filepath.Dir(exe), "..", "..", "corpus", "C02", "*.txt"))
		}
	}
	sort.Strings(files)
	var out []*e2ePlan
	for _, f := range files {
		b, err := os.ReadFile(f)
		if err != nil {
			continue
		}
		for _, line := range strings.Split(string(b), "\n") {
			line = strings.TrimSpace(line)
			if line == "" || strings.HasPrefix(line, "#") {
				continue
			}
			toks := strings.Fields(strings.Split(line, " => ")[0])
			if len(toks) > 0 && toks[0] == "C02" {
				toks = toks[1:]
			}
			if p, ok := e2eParsePlan(toks); ok {
				out = append(out, p)
			}
		}
	}
	return out
}

func seq(n int) []int {
	out := make([]int, n)
	for i := range out {
		out[i] = i
	}
	return out
}

// ---------------------------------------------------------------------------------------------------------------------
// running one plan

type e2eResult struct {
	impl    string
	anomaly string
	stats   []string
}

func e2eRunPlan(world int, wire e2eWire, p *e2ePlan) e2eResult {
	up := newE2EUp(wire)
	defer up.closeAll()
	cm := cluster.GetClusterMngAdapterInstance()
	if err := cm.UpdateClusterHosts(e2eCluster(world), []v2.Host{{HostConfig: v2.HostConfig{Address: up.ln.Addr().String()}}}); err != nil {
		panic(err)
	}
	cl := newE2ECli(wire)
	defer cl.c.Close()
	res := e2eResult{}
	// warm-up: until the pool's connection is up, then extraWarm more (moves the upstream id counter). Bounded: when the
	// code under test cannot complete a single plain exchange the case is reported as such instead of being waited for.
	okWarm := 0
	warmEnd := time.Now().Add(2500 * time.Millisecond)
	if atomic.LoadInt32(&e2eBroken) >= 3 {
		warmEnd = time.Now()
	}
	for i := 0; i < 400 && okWarm < 1+p.extraWarm && time.Now().Before(warmEnd); i++ {
		id := uint64(e2eWarmID + i)
		cl.c.Write(wire.request(id, world, fmt.Sprintf("w%d", i), nil))
		var st uint16
		got := e2eWait(func() bool {
			cl.mu.Lock()
			defer cl.mu.Unlock()
			s, ok := cl.warm[id]
			st = s
			return ok
		}, time.Second)
		if !got {
			break
		}
		if st == 0 {
			okWarm++
		} else {
			time.Sleep(2 * time.Millisecond)
		}
	}
	if okWarm < 1+p.extraWarm {
		atomic.AddInt32(&e2eBroken, 1)
		res.anomaly = "warmup-failed"
		res.impl = "warmup-failed"
		return res
	}
	atomic.StoreInt32(&e2eBroken, 0)
	caseEnd := time.Now().Add(8 * time.Second) // budget of all waits of the case
	e2eWait := func(cond func() bool, max time.Duration) bool {
		if left := time.Until(caseEnd); left < max {
			max = left
			if max < 30*time.Millisecond {
				max = 30 * time.Millisecond
			}
		}
		return e2eWait(cond, max)
	}
	cl.mu.Lock()
	cl.warm = nil // from here on every frame is recorded
	cl.mu.Unlock()
	up.mu.Lock()
	base := up.last
	up.mu.Unlock()

	logged := 0
	tries := make([]int, len(p.reqs))    // tries seen by the upstream per request
	wireOf := make([][]int, len(p.reqs)) // wire indices of the tries of each request
	done := make([]bool, len(p.reqs))    // a reply is accounted for
	sent := make([]bool, len(p.reqs))    // written by the client
	expected := 0                        // downstream frames accounted for so far
	closed := false
	byTok := map[int]int{}
	for k, q := range p.reqs {
		byTok[q.tok] = k
	}
	// log entries; a forward (with the abandon of the previous try in front of it) remembers the id it went out with
	var logv []e2eLogEnt
	addLog := func(s string) { logv = append(logv, e2eLogEnt{s, -1}) }
	syncArr := func() {
		up.mu.Lock()
		arr := append([]e2eArr{}, up.arr...)
		up.mu.Unlock()
		for ; logged < len(arr); logged++ {
			a := arr[logged]
			k, ok := byTok[a.tok]
			if !ok {
				addLog("F?")
				continue
			}
			t := fmt.Sprintf("F%d", k)
			if tries[k] > 0 {
				t = fmt.Sprintf("B%d,F%d", k, k)
			}
			tries[k]++
			wireOf[k] = append(wireOf[k], logged)
			logv = append(logv, e2eLogEnt{t, int64(a.uid)})
		}
	}
	nFrames := func() int {
		cl.mu.Lock()
		defer cl.mu.Unlock()
		return len(cl.frames)
	}
	fail := func(k int) { // an error reply for k is accounted for
		if !done[k] {
			done[k] = true
			expected++
			addLog(fmt.Sprintf("T%d", k))
		}
	}
	for _, st := range p.steps {
		syncArr()
		switch st.op {
		case 'S':
			var b []byte
			for _, k := range st.ks {
				q := p.reqs[k]
				b = append(b, wire.request(uint64(q.did), world, fmt.Sprintf("t%d", q.tok), &q)...)
				sent[k] = true
				addLog(fmt.Sprintf("Q%d", k))
			}
			cl.c.Write(b)
			if closed {
				for _, k := range st.ks {
					fail(k)
				}
				e2eWait(func() bool { return nFrames() >= expected }, e2eMaxWait)
			} else {
				for _, k := range st.ks {
					k := k
					e2eWait(func() bool { syncArr(); return tries[k] >= 1 }, e2eMaxWait)
				}
			}
		case 'a', 'd':
			if closed || st.try > len(wireOf[st.k]) {
				continue
			}
			wi := wireOf[st.k][st.try-1]
			up.mu.Lock()
			a := up.arr[wi]
			up.mu.Unlock()
			tk := fmt.Sprintf("t%d", a.tok)
			fr := wire.response(a.uid, tk)
			live := st.try == tries[st.k] && !done[st.k]
			up.write(a.conn, fr)
			addLog(fmt.Sprintf("A%d.%d", st.k, st.try))
			if st.op == 'd' {
				up.write(a.conn, fr)
				addLog(fmt.Sprintf("A%d.%d", st.k, st.try))
			}
			if live {
				done[st.k] = true
				expected++
			}
		case 'j':
			if closed {
				continue
			}
			up.write(0, wire.response(uint64(st.id), "t999"))
			addLog(fmt.Sprintf("J%d", st.id))
		case 'w':
			k := st.k
			e2eWait(func() bool { syncArr(); return tries[k] >= st.try || done[k] }, e2eMaxWait)
		case 'e':
			if !done[st.k] {
				want := expected + 1
				e2eWait(func() bool { return nFrames() >= want }, e2eMaxWait)
				syncArr()
				fail(st.k)
			}
		case 'x':
			// every reply written so far has been read by MOSN before the connection goes away
			e2eWait(func() bool { return nFrames() >= expected }, e2eMaxWait)
			syncArr()
			up.closeAll()
			closed = true
			addLog("X")
			for k := range p.reqs {
				if sent[k] {
					fail(k)
				}
			}
			e2eWait(func() bool { return nFrames() >= expected }, e2eMaxWait)
		}
	}
	// drain: every request gets exactly one reply in every plan
	nSent := 0
	for k := range p.reqs {
		if sent[k] {
			nSent++
		}
	}
	full := e2eWait(func() bool { return nFrames() >= nSent }, e2eMaxWait)
	time.Sleep(30 * time.Millisecond) // anything that should NOT arrive (stale, duplicate) had its chance
	syncArr()
	for k, q := range p.reqs {
		if sent[k] && !done[k] { // not accounted for by the script (skewed timing): accounted as a local error reply
			fail(k)
			if res.anomaly == "" {
				res.anomaly = "unaccounted-reply"
			}
		}
		if !closed && sent[k] && tries[k] != q.tries() && res.anomaly == "" {
			res.anomaly = fmt.Sprintf("tries-%c", q.kind)
		}
	}
	if !full && res.anomaly == "" {
		res.anomaly = "missing-reply"
	}
	up.mu.Lock()
	nconn, hb := len(up.conns), up.hb
	arr := append([]e2eArr{}, up.arr...)
	up.mu.Unlock()
	if (nconn != 1 || hb != 0) && res.anomaly == "" {
		res.anomaly = "upstream-connections"
	}
	var ups, dns []string
	for _, a := range arr {
		ups = append(ups, fmt.Sprintf("%d/%d", a.uid, a.tok))
	}
	cl.mu.Lock()
	for _, f := range cl.frames {
		dns = append(dns, fmt.Sprintf("%d/%d/%s/%s", f.id, f.status, f.htok, f.btok))
		res.stats = append(res.stats, fmt.Sprintf("e2e.status=%d", f.status))
	}
	cl.mu.Unlock()
	sort.Strings(dns)
	j := func(xs []string) string {
		if len(xs) == 0 {
			return "-"
		}
		return strings.Join(xs, ",")
	}
	res.impl = fmt.Sprintf("b%d c%d %s %s %s", base, nconn, j(e2eLinearize(logv)), j(ups), j(dns))
	return res
}

// e2eLinearize orders the forwards by the id they went out with: the upstream sees request frames in the order they were
// WRITTEN, the ids are allocated (newClientStream) before that, by concurrent workers, so the allocation order - the
// order of the model's forward events - is the order of the ids. A forward only ever moves to an earlier place (its
// allocation precedes its arrival), in front of the forwards with larger ids that arrived before it.
type e2eLogEnt struct {
	s   string
	uid int64 // -1: not a forward
}

func e2eLinearize(logv []e2eLogEnt) []string {
	type key struct {
		anchor, class int
		uid           int64
	}
	keys := make([]key, len(logv))
	bound := len(logv) + 1
	var fs []int
	for i, e := range logv {
		keys[i] = key{i, 1, 0}
		if e.uid >= 0 {
			fs = append(fs, i)
		}
	}
	sort.Slice(fs, func(a, b int) bool { return logv[fs[a]].uid > logv[fs[b]].uid })
	for _, i := range fs {
		pos := i
		if bound < pos {
			pos = bound
		}
		keys[i] = key{pos, 0, logv[i].uid}
		bound = pos
	}
	idx := seq(len(logv))
	sort.SliceStable(idx, func(a, b int) bool {
		x, y := keys[idx[a]], keys[idx[b]]
		if x.anchor != y.anchor {
			return x.anchor < y.anchor
		}
		if x.class != y.class {
			return x.class < y.class
		}
		return x.uid < y.uid
	})
	var out []string
	for _, i := range idx {
		out = append(out, logv[i].s)
	}
	return out
}

// e2eGenPlanFor: a plan the protocol can express (tars has no local error reply: only answered requests, the upstream
// stays up)
func e2eGenPlanFor(r *hx.Rng, wire e2eWire) *e2ePlan {
	for {
		p := e2eGenPlan(r)
		if wire.errorReplies() {
			return p
		}
		ok := true
		for _, q := range p.reqs {
			if q.kind != 'o' {
				ok = false
			}
		}
		for _, s := range p.steps {
			if s.op == 'x' || s.op == 'e' || s.op == 'w' {
				ok = false
			}
		}
		if ok {
			return p
		}
	}
}

func runE2E(c *hx.Ctx, rng *hx.Rng) {
	e2eSetup()
	if len(c.Args) == 4 && c.Args[0] == "e2e" { // direct replay of one plan: mosnh C02 e2e <warm> <reqs> <script>
		p, ok := e2eParsePlan(c.Args)
		if !ok {
			panic("bad e2e plan")
		}
		runE2EWire(c, boltWire{}, []*e2ePlan{p}, 0)
		return
	}
	if len(c.Args) == 5 && c.Args[0] == "e2ex" { // mosnh C02 e2ex <proto> <warm> <reqs> <script>
		wire := e2eWireOf(c.Args[1])
		p, ok := e2eParsePlan(append([]string{"e2e"}, c.Args[2:]...))
		if !ok || wire == nil {
			panic("bad e2ex plan")
		}
		runE2EWire(c, wire, []*e2ePlan{p}, 0)
		return
	}
	if !(len(c.Args) == 1 && c.Args[0] == "e2ex") { // `mosnh C02 e2ex`: only the other protocols
		plans := e2eCorpus()
		nc := len(plans)
		for i := 0; i < c.N(420, 2600); i++ {
			plans = append(plans, e2eGenPlan(rng.Fork()))
		}
		runE2EWire(c, boltWire{}, plans, nc)
	}
	// the other xprotocols through their own proxy filter and codec (kind e2ex)
	for _, wire := range e2eWires[1:] {
		var ps []*e2ePlan
		for i := 0; i < c.N(70, 320); i++ {
			ps = append(ps, e2eGenPlanFor(rng.Fork(), wire))
		}
		runE2EWire(c, wire, ps, 0)
	}
}

func runE2EWire(c *hx.Ctx, wire e2eWire, plans []*e2ePlan, nCorpus int) {
	for i := 0; i < nCorpus; i++ {
		c.Count("e2e.corpus")
	}
	kind := "e2e"
	if wire.tag() != "bolt" {
		kind = "e2ex." + wire.tag()
	}
	atomic.StoreInt32(&e2eBroken, 0)
	n := len(plans)
	results := make([]e2eResult, n)
	skews := make([]int, n)
	var wg sync.WaitGroup
	next := make(chan int, n)
	for i := range plans {
		next <- i
	}
	close(next)
	for w := 0; w < e2eWorlds; w++ {
		wg.Add(1)
		go func(w int) {
			defer wg.Done()
			for i := range next {
				for try := 0; try < 3; try++ {
					results[i] = e2eRunPlan(w, wire, plans[i])
					if results[i].anomaly == "" || results[i].anomaly == "warmup-failed" {
						break
					}
					skews[i]++
				}
			}
		}(w)
	}
	wg.Wait()
	for i, p := range plans {
		if results[i].anomaly != "" && results[i].anomaly != "warmup-failed" {
			// the timing of this run did not follow the plan three times in a row: the schedule handed to the model is
			// not trustworthy, only the property predicate is evaluated on what the client received
			results[i].impl += " skew:" + results[i].anomaly
		}
		toks := p.caseToks()
		if wire.tag() != "bolt" {
			toks = "e2ex " + wire.tag() + strings.TrimPrefix(toks, "e2e")
		}
		c.Emit("C02", toks, results[i].impl)
		c.Count(fmt.Sprintf("%s.n=%02d", kind, len(p.reqs)))
		for _, q := range p.reqs {
			c.Count(kind + ".req." + string(q.kind))
		}
		for _, s := range p.steps {
			c.Count(kind + ".step." + string(s.op))
		}
		for _, s := range results[i].stats {
			c.Count(strings.Replace(s, "e2e.", kind+".", 1))
		}
		for k := 0; k < skews[i]; k++ {
			c.Count(kind + ".rerun")
		}
		if results[i].anomaly != "" {
			c.Count(kind + ".anomaly." + results[i].anomaly)
		}
	}
}
