//go:build verif

package c02

// Kind `h1b`: per-request buffers of the HTTP/1 stream layer (pkg/stream/http httpBuffers: serverRequest / serverResponse /
// clientRequest / clientResponse + the two stream structs) are pooled (sync.Pool behind buffer.PoolContext) and handed to
// later requests of ANY connection after httpBufferCtx.Reset. One case = a sequence of exchanges, one after the other, on
// 1..3 downstream connections through the REAL HTTP/1 server stream connection + proxy core + HTTP/1 pool and client
// stream + a scripted upstream on loopback; every request / response carries a token unique to its exchange in a header
// and in its body. Exchanges: upstream reply with body / with empty body, HEAD, no route (404), direct response with and
// without body, upstream closing without an answer, dead cluster, route timeout. Observed per exchange: what the client
// received (status, X-Tok values, which planned body its body is) and what the upstream received.

import (
	"bufio"
	"context"
	"fmt"
	"io"
	"net"
	"os"
	"runtime"
	"strconv"
	"strings"
	"sync"
	"time"

	"mosn.io/api"
	v2 "mosn.io/mosn/pkg/config/v2"
	"mosn.io/mosn/pkg/configmanager"
	proxyfilter "mosn.io/mosn/pkg/filter/network/proxy"
	"mosn.io/mosn/pkg/log"
	"mosn.io/mosn/pkg/network"
	"mosn.io/mosn/pkg/router"
	_ "mosn.io/mosn/pkg/stream/http"
	"mosn.io/mosn/pkg/types"
	"mosn.io/mosn/pkg/upstream/cluster"
	"mosn.io/pkg/variable"

	"verif/harness/hx"
)

const (
	h1bCluster = "c02-h1b"
	h1bDead    = "c02-h1b-dead"
	h1bRouter  = "c02-h1b-router"
)

type h1bMsg struct {
	first string
	toks  []string // X-Tok values
	body  []byte
	close bool
}

func h1bRead(br *bufio.Reader, isRequest, headOnly bool) (*h1bMsg, error) {
	line, err := br.ReadString('\n')
	if err != nil {
		return nil, err
	}
	parts := strings.SplitN(strings.TrimRight(line, "\r\n"), " ", 3)
	if len(parts) < 2 {
		return nil, fmt.Errorf("bad first line")
	}
	m := &h1bMsg{}
	if isRequest {
		m.first = parts[0] + " " + parts[1]
	} else {
		m.first = parts[1]
	}
	cl, chunked := 0, false
	for {
		l, err := br.ReadString('\n')
		if err != nil {
			return nil, err
		}
		l = strings.TrimRight(l, "\r\n")
		if l == "" {
			break
		}
		i := strings.IndexByte(l, ':')
		if i < 0 {
			return nil, fmt.Errorf("bad header")
		}
		k, v := strings.ToLower(l[:i]), strings.TrimSpace(l[i+1:])
		switch k {
		case "x-tok":
			m.toks = append(m.toks, v)
		case "content-length":
			cl, _ = strconv.Atoi(v)
		case "transfer-encoding":
			chunked = strings.Contains(strings.ToLower(v), "chunked")
		case "connection":
			m.close = strings.EqualFold(v, "close")
		}
	}
	if headOnly {
		return m, nil
	}
	if chunked {
		for {
			sz, err := br.ReadString('\n')
			if err != nil {
				return nil, err
			}
			n, _ := strconv.ParseInt(strings.TrimSpace(sz), 16, 32)
			if n == 0 {
				br.ReadString('\n')
				break
			}
			b := make([]byte, n+2)
			if _, err := io.ReadFull(br, b); err != nil {
				return nil, err
			}
			m.body = append(m.body, b[:n]...)
		}
	} else if cl > 0 {
		m.body = make([]byte, cl)
		if _, err := io.ReadFull(br, m.body); err != nil {
			return nil, err
		}
	}
	return m, nil
}

// h1bBody: the body carrying token tok, n bytes long (n = 0: none)
func h1bBody(tok string, n int) []byte {
	if n == 0 {
		return nil
	}
	b := []byte(tok + ".")
	for len(b) < n {
		b = append(b, byte('a'+len(b)%23))
	}
	return b
}

var h1bDirectBodies = []string{"d0.direct-response-body-zero", "d1.another-direct-body-0123456789-0123456789", "d2.x"}

type h1bUpPlan struct {
	kind   string // u answer, c close without answer, s stay silent until released then close
	tok    string
	length int
	rel    chan struct{}
}

type h1bWorld struct {
	factory api.NetworkFilterChainFactory
	up      net.Listener
	front   net.Listener
	next    chan h1bUpPlan
	seen    chan *h1bMsg
}

var h1bOnce sync.Once
var h1bW *h1bWorld

func h1bSetup() *h1bWorld {
	h1bOnce.Do(func() {
		configmanager.ParseServerConfig(&v2.ServerConfig{})
		h1bQuiet()
		w := &h1bWorld{next: make(chan h1bUpPlan, 1), seen: make(chan *h1bMsg, 4)}
		var err error
		if w.up, err = net.Listen("tcp", "127.0.0.1:0"); err != nil {
			panic(err)
		}
		// a port nobody listens on and that is never handed out as an ephemeral port (a closed ephemeral listener's port
		// can be taken over by a parallel harness process)
		dead := "127.0.0.1:1"
		cluster.NewClusterManagerSingleton(nil, nil, nil)
		cm := cluster.GetClusterMngAdapterInstance()
		for _, cl := range []struct{ name, addr string }{{h1bCluster, w.up.Addr().String()}, {h1bDead, dead}} {
			if err := cm.AddOrUpdatePrimaryCluster(v2.Cluster{Name: cl.name, ClusterType: v2.SIMPLE_CLUSTER, LbType: v2.LB_RANDOM}); err != nil {
				panic(err)
			}
			if err := cm.UpdateClusterHosts(cl.name, []v2.Host{{HostConfig: v2.HostConfig{Address: cl.addr}}}); err != nil {
				panic(err)
			}
		}
		route := func(prefix, cl string, to time.Duration) v2.Router {
			r := v2.Router{RouterConfig: v2.RouterConfig{Match: v2.RouterMatch{Prefix: prefix},
				Route: v2.RouteAction{RouterActionConfig: v2.RouterActionConfig{ClusterName: cl}}}}
			r.Route.Timeout = to
			return r
		}
		direct := func(prefix string, code int, body string) v2.Router {
			return v2.Router{RouterConfig: v2.RouterConfig{Match: v2.RouterMatch{Prefix: prefix},
				DirectResponse: &v2.DirectResponseAction{StatusCode: code, Body: body}}}
		}
		rs := []v2.Router{route("/up", h1bCluster, 0), route("/slow", h1bCluster, 60*time.Millisecond), route("/dead", h1bDead, 0),
			direct("/e", 200, "")}
		for j, b := range h1bDirectBodies {
			rs = append(rs, direct(fmt.Sprintf("/d%d", j), 200, b))
		}
		rc := &v2.RouterConfiguration{
			RouterConfigurationConfig: v2.RouterConfigurationConfig{RouterConfigName: h1bRouter},
			VirtualHosts:              []v2.VirtualHost{{Name: "all", Domains: []string{"*"}, Routers: rs}},
		}
		if err := router.GetRoutersMangerInstance().AddOrUpdateRouters(rc); err != nil {
			panic(err)
		}
		w.factory, err = proxyfilter.CreateProxyFactory(map[string]interface{}{
			"downstream_protocol": "Http1", "upstream_protocol": "Http1", "router_config_name": h1bRouter})
		if err != nil {
			panic(err)
		}
		if w.front, err = net.Listen("tcp", "127.0.0.1:0"); err != nil {
			panic(err)
		}
		go func() {
			for {
				rawc, err := w.front.Accept()
				if err != nil {
					return
				}
				ctx := variable.NewVariableContext(context.Background())
				variable.Set(ctx, types.VariableAccessLogs, []api.AccessLog{})
				variable.Set(ctx, types.VariableListenerName, "c02-h1b")
				conn := network.NewServerConnection(ctx, rawc, nil)
				w.factory.CreateFilterChain(ctx, conn.FilterManager())
				conn.FilterManager().InitializeReadFilters()
				conn.Start(ctx)
			}
		}()
		go func() {
			for {
				conn, err := w.up.Accept()
				if err != nil {
					return
				}
				go func(conn net.Conn) {
					defer conn.Close()
					br := bufio.NewReader(conn)
					for {
						req, err := h1bRead(br, true, false)
						if err != nil {
							return
						}
						w.seen <- req
						p := <-w.next
						switch p.kind {
						case "c":
							return
						case "s":
							<-p.rel
							return
						}
						head := strings.HasPrefix(req.first, "HEAD ")
						body := h1bBody(p.tok, p.length)
						fmt.Fprintf(conn, "HTTP/1.1 200 OK\r\nX-Tok: %s\r\nContent-Length: %d\r\n\r\n", p.tok, len(body))
						if !head {
							conn.Write(body)
						}
					}
				}(conn)
			}
		}()
		h1bW = w
	})
	return h1bW
}

type h1bEx struct {
	conn    int
	kind    string // u h n e d0 d1 d2 c x t
	reqLen  int
	respLen int
}

func (e h1bEx) tok() string { return fmt.Sprintf("%d:%s:%d:%d", e.conn, e.kind, e.reqLen, e.respLen) }

// h1bStatus: what MOSN answers (settled from the code: no route 404, upstream connection failure / reset 502, timeout 504)
func h1bForwarded(kind string) bool { return kind == "u" || kind == "h" || kind == "c" || kind == "t" }

func h1bClassify(plan []h1bEx, b []byte) string {
	if len(b) == 0 {
		return "-"
	}
	for j, e := range plan {
		if string(b) == string(h1bBody(fmt.Sprintf("q%d", j), e.reqLen)) {
			return fmt.Sprintf("q%d", j)
		}
		if (e.kind == "u") && string(b) == string(h1bBody(fmt.Sprintf("r%d", j), e.respLen)) {
			return fmt.Sprintf("r%d", j)
		}
	}
	for j, d := range h1bDirectBodies {
		if string(b) == d {
			return fmt.Sprintf("d%d", j)
		}
	}
	return fmt.Sprintf("X%d", len(b))
}

func h1bToks(t []string) string {
	if len(t) == 0 {
		return "-"
	}
	for i := range t {
		t[i] = hx.Tok(t[i])
	}
	return strings.Join(t, "+")
}

func h1bRun(c *hx.Ctx, nconn int, plan []h1bEx) {
	w := h1bSetup()
	conns := make([]net.Conn, nconn)
	brs := make([]*bufio.Reader, nconn)
	defer func() {
		for _, cn := range conns {
			if cn != nil {
				cn.Close()
			}
		}
	}()
	var obs []string
	for k, e := range plan {
		// drain anything a previous exchange left behind
		for drained := false; !drained; {
			select {
			case <-w.seen:
			case <-w.next:
			default:
				drained = true
			}
		}
		if conns[e.conn] == nil {
			cn, err := net.Dial("tcp", w.front.Addr().String())
			if err != nil {
				panic(err)
			}
			conns[e.conn], brs[e.conn] = cn, bufio.NewReader(cn)
			c.Count("h1b.dial")
		}
		cn, br := conns[e.conn], brs[e.conn]
		path := map[string]string{"u": "/up", "h": "/up", "c": "/up", "t": "/slow", "n": "/nr", "e": "/e", "x": "/dead",
			"d0": "/d0", "d1": "/d1", "d2": "/d2"}[e.kind]
		method := "GET"
		if e.reqLen > 0 {
			method = "POST"
		}
		if e.kind == "h" {
			method = "HEAD"
		}
		qtok := fmt.Sprintf("q%d", k)
		body := h1bBody(qtok, e.reqLen)
		var rel chan struct{}
		if h1bForwarded(e.kind) {
			p := h1bUpPlan{kind: "u", tok: fmt.Sprintf("r%d", k), length: e.respLen}
			if e.kind == "c" {
				p.kind = "c"
			}
			if e.kind == "t" {
				rel = make(chan struct{})
				p.kind, p.rel = "s", rel
			}
			w.next <- p
		}
		req := fmt.Sprintf("%s %s/%d HTTP/1.1\r\nHost: h1b.test\r\nX-Tok: %s\r\n", method, path, k, qtok)
		if len(body) > 0 {
			req += fmt.Sprintf("Content-Length: %d\r\n", len(body))
		}
		cn.SetDeadline(time.Now().Add(8 * time.Second))
		cn.Write(append([]byte(req+"\r\n"), body...))
		resp, err := h1bRead(br, false, method == "HEAD")
		if rel != nil {
			close(rel)
		}
		up := "none"
		if h1bForwarded(e.kind) {
			select {
			case m := <-w.seen:
				up = h1bToks(m.toks) + "/" + h1bClassify(plan, m.body)
			case <-time.After(2 * time.Second):
				up = "lost"
			}
		} else {
			select {
			case m := <-w.seen:
				up = "unexpected:" + h1bToks(m.toks)
			default:
			}
		}
		if err != nil || resp == nil {
			obs = append(obs, "lost/-/-/"+up)
			cn.Close()
			conns[e.conn] = nil
			continue
		}
		obs = append(obs, fmt.Sprintf("%s/%s/%s/%s", resp.first, h1bToks(resp.toks), h1bClassify(plan, resp.body), up))
		if resp.close || e.kind == "t" || e.kind == "c" {
			// MOSN announces the close; a fresh connection is used next time
			if resp.close {
				cn.Close()
				conns[e.conn] = nil
			}
		}
		c.Count("h1b.kind=" + e.kind)
	}
	var pt []string
	for _, e := range plan {
		pt = append(pt, e.tok())
	}
	c.Emit("C02", fmt.Sprintf("h1b %d %s", nconn, strings.Join(pt, ",")), strings.Join(obs, ","))
}

func h1bGen(r *hx.Rng, n int) (int, []h1bEx) {
	nconn := 1 + r.Intn(3)
	var plan []h1bEx
	bodyLen := func() int {
		switch r.Intn(6) {
		case 0:
			return 0
		case 1:
			return 3000 + r.Intn(9000)
		default:
			return 6 + r.Intn(90)
		}
	}
	for i := 0; i < n; i++ {
		e := h1bEx{conn: r.Intn(nconn)}
		switch x := r.Intn(100); {
		case x < 30:
			e.kind, e.respLen = "u", 6+r.Intn(200)
			if r.Chance(15) {
				e.respLen = 3000 + r.Intn(20000)
			}
		case x < 45:
			e.kind, e.respLen = "u", 0
		case x < 52:
			e.kind, e.respLen = "h", 6+r.Intn(50)
		case x < 67:
			e.kind = "n"
		case x < 77:
			e.kind = "e"
		case x < 87:
			e.kind = fmt.Sprintf("d%d", r.Intn(len(h1bDirectBodies)))
		case x < 92:
			e.kind = "c"
		case x < 97:
			e.kind = "x"
		default:
			e.kind = "t"
		}
		if e.kind != "h" && r.Chance(55) {
			e.reqLen = bodyLen()
		}
		plan = append(plan, e)
	}
	return nconn, plan
}

// h1bQuiet: MOSN logs every local reply at WARN level on stderr; the check drains a harness's output only when it
// collects that harness, so a chatty harness blocks on a full pipe
func h1bQuiet() {
	if os.Getenv("C02_DEBUG") != "" {
		return
	}
	log.DefaultLogger.SetLogLevel(log.FATAL)
	log.StartLogger.SetLogLevel(log.FATAL)
	log.Proxy.SetLogLevel(log.FATAL)
}

func h1bCases(c *hx.Ctx) {
	h1bSetup()
	h1bQuiet()
	// one P: the goroutine that gives the buffers back and the one that takes them next share sync.Pool's per-P cache,
	// so a finished exchange's buffers are what the next exchange gets
	old := runtime.GOMAXPROCS(1)
	defer runtime.GOMAXPROCS(old)
	r := hx.NewRng(c.Seed ^ 0xb1b0f)
	// fixed boundary scripts first: body then body-less answers of every kind, on one and on two connections
	fixed := [][]h1bEx{
		{{0, "u", 0, 40}, {0, "n", 0, 0}, {0, "u", 20, 0}, {0, "e", 0, 0}, {0, "d0", 0, 0}, {0, "n", 9, 0}, {0, "u", 0, 0}},
		{{0, "u", 30, 5000}, {1, "n", 0, 0}, {1, "u", 0, 0}, {0, "e", 0, 0}, {1, "h", 0, 30}, {0, "u", 0, 0}, {1, "x", 0, 0}},
		{{0, "d1", 12, 0}, {0, "e", 0, 0}, {0, "n", 0, 0}, {0, "u", 50, 60}, {0, "u", 0, 0}, {0, "c", 0, 0}, {0, "n", 0, 0}},
		{{0, "u", 40, 40}, {0, "t", 0, 0}, {0, "n", 0, 0}, {0, "u", 0, 0}},
	}
	for _, p := range fixed {
		nc := 1
		for _, e := range p {
			if e.conn+1 > nc {
				nc = e.conn + 1
			}
		}
		h1bRun(c, nc, p)
	}
	for i := 0; i < c.N(60, 500); i++ {
		nconn, plan := h1bGen(r, 4+r.Intn(14))
		h1bRun(c, nconn, plan)
	}
}
