//go:build verif

// Package c02: request/response correlation on the REAL xprotocol client stream connection. A real stream client
// (pkg/stream.NewStreamClient: receiver wrapper + xprotocol streamConn) sits on a real loopback connection; requests go
// out on the socket (the upstream records them), replies are dispatched synchronously into the client in any order,
// with duplicates, unknown ids, resets and late replies. Kind `gen` drives every protocol's id generator directly.
package c02

import (
	"context"
	"fmt"
	"net"
	"runtime"
	"sort"
	"strconv"
	"strings"
	"sync"
	"time"

	"mosn.io/api"
	"mosn.io/mosn/pkg/network"
	"mosn.io/mosn/pkg/protocol"
	"mosn.io/mosn/pkg/protocol/xprotocol"
	"mosn.io/mosn/pkg/protocol/xprotocol/bolt"
	"mosn.io/mosn/pkg/protocol/xprotocol/boltv2"
	"mosn.io/mosn/pkg/protocol/xprotocol/dubbo"
	"mosn.io/mosn/pkg/protocol/xprotocol/dubbothrift"
	"mosn.io/mosn/pkg/protocol/xprotocol/tars"
	"mosn.io/mosn/pkg/stream"
	xstream "mosn.io/mosn/pkg/stream/xprotocol"
	"mosn.io/mosn/pkg/types"
	"mosn.io/pkg/buffer"
	"mosn.io/pkg/variable"
	"verif/harness/hx"
)

func init() { hx.Register("C02", Run) }

// bolt's wire format under a private protocol name (no clash with other harness packages of this binary)
const pname api.ProtocolName = "c02bolt"

type codec struct{ inner bolt.XCodec }

func (c *codec) ProtocolName() api.ProtocolName   { return pname }
func (c *codec) ProtocolMatch() api.ProtocolMatch { return nil }
func (c *codec) HTTPMapping() api.HTTPMapping     { return c.inner.HTTPMapping() }
func (c *codec) NewXProtocol(ctx context.Context) api.XProtocol {
	return &proto{c.inner.NewXProtocol(ctx)}
}

type proto struct{ api.XProtocol }

func (p *proto) Name() api.ProtocolName { return pname }

var regOnce sync.Once

func register() {
	regOnce.Do(func() {
		xprotocol.RegisterXProtocolAction(xstream.NewConnPool, xstream.NewStreamFactory, func(codec api.XProtocolCodec) {})
		if err := xprotocol.RegisterXProtocolCodec(&codec{}); err != nil {
			panic(err)
		}
	})
}

type waiter struct {
	sender types.StreamSender
	id     uint64
	got    []string // "<frame id>/<token>"
	resets int
}

func (w *waiter) OnReceive(ctx context.Context, headers api.HeaderMap, data buffer.IoBuffer, trailers api.HeaderMap) {
	fid := "?"
	if f, ok := headers.(api.XFrame); ok {
		fid = strconv.FormatUint(f.GetRequestId(), 10)
	}
	tok, _ := headers.Get("tok")
	w.got = append(w.got, fid+"/"+tok)
}
func (w *waiter) OnDecodeError(ctx context.Context, err error, headers api.HeaderMap) {}
func (w *waiter) OnResetStream(reason types.StreamResetReason)                        { w.resets++ }
func (w *waiter) OnDestroyStream()                                                    {}

type goAway struct{}

func (goAway) OnGoAway() {}

type world struct {
	ln      net.Listener
	mu      sync.Mutex
	wire    []byte
	srv     net.Conn
	conn    types.ClientConnection
	cl      stream.Client
	csc     types.ClientStreamConnection
	enc     api.XProtocol
	waiters []*waiter
}

func newWorld(base uint64) *world {
	register()
	ln, err := net.Listen("tcp", "127.0.0.1:0")
	if err != nil {
		panic(err)
	}
	w := &world{ln: ln}
	acc := make(chan struct{})
	go func() {
		c, err := ln.Accept()
		if err != nil {
			close(acc)
			return
		}
		w.mu.Lock()
		w.srv = c
		w.mu.Unlock()
		close(acc)
		buf := make([]byte, 8192)
		for {
			n, err := c.Read(buf)
			w.mu.Lock()
			w.wire = append(w.wire, buf[:n]...)
			w.mu.Unlock()
			if err != nil {
				return
			}
		}
	}()
	ctx := variable.NewVariableContext(context.Background())
	w.conn = network.NewClientConnection(2*time.Second, nil, ln.Addr(), nil)
	w.cl = stream.NewStreamClient(ctx, pname, w.conn, nil)
	if w.cl == nil {
		panic("no stream client")
	}
	w.cl.SetStreamConnectionEventListener(goAway{})
	if err := w.cl.Connect(); err != nil {
		panic(err)
	}
	<-acc
	w.csc = stream.VerifClientStreamConn(w.cl)
	if !xstream.VerifSetClientStreamIDBase(w.csc, base) {
		panic("not an xprotocol stream connection")
	}
	w.enc = (&bolt.XCodec{}).NewXProtocol(ctx)
	return w
}

func (w *world) close() {
	w.conn.Close(api.NoFlush, api.LocalClose)
	w.ln.Close()
	w.mu.Lock()
	if w.srv != nil {
		w.srv.Close()
	}
	w.mu.Unlock()
}

func newCtx() context.Context {
	return buffer.NewBufferPoolContext(variable.NewVariableContext(context.Background()))
}

func (w *world) reply(id uint64, tok int) {
	fr := bolt.NewRpcResponse(uint32(id), bolt.ResponseStatusSuccess, protocol.CommonHeader{"tok": strconv.Itoa(tok)}, nil)
	buf, err := w.enc.Encode(context.Background(), fr)
	if err != nil {
		panic(err)
	}
	w.cl.OnData(buffer.NewIoBufferBytes(append([]byte{}, buf.Bytes()...)))
}

// apply one op; ops: N (new stream), O (one-way stream), R<w> (reply carrying the id of stream object w),
// U<id> (reply with a raw id), X<w> (local reset of stream object w), C (connection reset).
func (w *world) apply(op string, step int) {
	num := func(p string) uint64 { n, _ := strconv.ParseUint(strings.TrimPrefix(op, p), 10, 64); return n }
	switch {
	case op == "N" || op == "O":
		ctx := newCtx()
		wt := &waiter{}
		if op == "N" {
			wt.sender = w.cl.NewStream(ctx, wt)
		} else {
			wt.sender = w.cl.NewStream(ctx, nil)
		}
		wt.sender.GetStream().AddEventListener(wt)
		wt.id = wt.sender.GetStream().ID()
		w.waiters = append(w.waiters, wt)
		wt.sender.AppendHeaders(ctx, bolt.NewRpcRequest(0, nil, nil), true)
	case strings.HasPrefix(op, "R"):
		w.reply(w.waiters[num("R")].id, step)
	case strings.HasPrefix(op, "U"):
		w.reply(num("U"), step)
	case strings.HasPrefix(op, "X"):
		w.waiters[num("X")].sender.GetStream().ResetStream(types.StreamLocalReset)
	case op == "C":
		w.cl.OnEvent(api.RemoteClose)
	default:
		panic("bad op " + op)
	}
}

func (w *world) snapshot() string {
	ids, base, ok := xstream.VerifClientStreamTable(w.csc)
	if !ok {
		panic("table")
	}
	sort.Slice(ids, func(i, j int) bool { return ids[i] < ids[j] })
	var t []string
	for _, id := range ids {
		t = append(t, strconv.FormatUint(id, 10))
	}
	var ws []string
	for _, wt := range w.waiters {
		ws = append(ws, fmt.Sprintf("%d:%s:%d", wt.id, strings.Join(wt.got, ","), wt.resets))
	}
	return fmt.Sprintf("b%d;t%s;w%s", base, strings.Join(t, ","), strings.Join(ws, ";"))
}

// wireIDs decodes the request frames the upstream received.
func (w *world) wireIDs(want int) string {
	deadline := time.Now().Add(3 * time.Second)
	for {
		w.mu.Lock()
		data := append([]byte{}, w.wire...)
		w.mu.Unlock()
		var ids []string
		buf := buffer.NewIoBufferBytes(data)
		ctx := variable.NewVariableContext(context.Background())
		for buf.Len() > 0 {
			fr, err := w.enc.Decode(ctx, buf)
			if err != nil || fr == nil {
				break
			}
			ids = append(ids, strconv.FormatUint(fr.(api.XFrame).GetRequestId(), 10))
		}
		if len(ids) >= want || time.Now().After(deadline) {
			return "wire" + strings.Join(ids, ",")
		}
		time.Sleep(time.Millisecond)
	}
}

func runScript(c *hx.Ctx, base uint64, ops []string) {
	w := newWorld(base)
	defer w.close()
	var obs []string
	n := 0
	for i, op := range ops {
		w.apply(op, i)
		if op == "N" || op == "O" {
			n++
		}
		obs = append(obs, w.snapshot())
	}
	obs = append(obs, w.wireIDs(n))
	c.Emit("C02", fmt.Sprintf("tbl bolt %d %s", base, strings.Join(ops, ",")), strings.Join(obs, " "))
	for _, o := range ops {
		c.Count("op." + strings.TrimRight(o, "0123456789"))
	}
	c.Count(fmt.Sprintf("streams=%02d", n/8*8))
}

func perms(n int) [][]int {
	if n == 0 {
		return [][]int{{}}
	}
	var out [][]int
	for _, p := range perms(n - 1) {
		for i := 0; i <= len(p); i++ {
			q := append(append(append([]int{}, p[:i]...), n-1), p[i:]...)
			out = append(out, q)
		}
	}
	return out
}

var bases = []uint64{0, 1, 1<<31 - 3, 1<<31 - 1, 1<<32 - 4, 1<<32 - 2, 1<<32 - 1, 1 << 32, 1<<33 - 2, 1<<63 - 2, 1<<64 - 3, 1<<64 - 1}

func genProto(name string) api.XProtocol {
	ctx := variable.NewVariableContext(context.Background())
	switch name {
	case "bolt":
		return (&bolt.XCodec{}).NewXProtocol(ctx)
	case "boltv2":
		return (&boltv2.XCodec{}).NewXProtocol(ctx)
	case "dubbo":
		return (&dubbo.XCodec{}).NewXProtocol(ctx)
	case "thrift":
		return (&dubbothrift.XCodec{}).NewXProtocol(ctx)
	case "tars":
		return (&tars.XCodec{}).NewXProtocol(ctx)
	}
	panic(name)
}

func Run(c *hx.Ctx) {
	if len(c.Args) == 2 { // replay: mosnh C02 <base> <ops>
		b, _ := strconv.ParseUint(c.Args[0], 10, 64)
		runScript(c, b, strings.Split(c.Args[1], ","))
		return
	}
	if len(c.Args) == 1 && c.Args[0] == "h1b" { // only the HTTP/1 buffer-recycling kind
		h1bCases(c)
		return
	}
	if len(c.Args) == 1 && c.Args[0] == "h2w" { // only the HTTP/2 header-block write-order kind
		h2wCases(c)
		return
	}
	if len(c.Args) >= 1 && c.Args[0] == "sgen" { // only the stream-object generation kind (2 args: one given schedule)
		if len(c.Args) == 2 {
			old := runtime.GOMAXPROCS(1)
			sgRun(c, sgParse(c.Args[1]))
			runtime.GOMAXPROCS(old)
			return
		}
		sgCases(c)
		return
	}
	if len(c.Args) >= 1 && c.Args[0] == "pgen" { // only the pooled-proxy-object generation kind (4 args: one given case)
		if len(c.Args) == 4 {
			old := runtime.GOMAXPROCS(1)
			pgRun(c, c.Args[1], c.Args[2], c.Args[3])
			runtime.GOMAXPROCS(old)
			return
		}
		pgCases(c)
		return
	}
	if len(c.Args) >= 1 && c.Args[0] == "h2tbl" { // only the HTTP/2 client stream table kind (3 args: one given script)
		if len(c.Args) == 3 {
			b, _ := strconv.ParseUint(c.Args[1], 10, 32)
			h2tRun(c, uint32(b), strings.Split(c.Args[2], ","))
			return
		}
		h2tCases(c)
		return
	}
	if len(c.Args) >= 1 && (c.Args[0] == "e2e" || c.Args[0] == "e2ex") { // only the end-to-end kinds (4 / 5 args: one given plan)
		runE2E(c, hx.NewRng(c.Seed^0xe2e0e2e))
		return
	}
	rng := c.Rng.Fork()
	// 0. per-frame isolation on the server stream connection: several frames per read, receiver keeps what it is handed (ctx.go)
	ctxCases(c)
	// 1. id generators, driven directly through their exported pointer argument
	for _, p := range []string{"bolt", "boltv2", "dubbo", "thrift", "tars"} {
		pr := genProto(p)
		bs := append([]uint64{}, bases...)
		for i := 0; i < c.N(6, 60); i++ {
			bs = append(bs, rng.U64()>>uint(rng.Intn(64)))
		}
		for _, b := range bs {
			base := b
			var ids []string
			for i := 0; i < 6; i++ {
				ids = append(ids, strconv.FormatUint(pr.GenerateRequestID(&base), 10))
			}
			c.Emit("C02", fmt.Sprintf("gen %s %d 6", p, b), fmt.Sprintf("%s b%d", strings.Join(ids, ","), base))
			c.Count("gen." + p)
		}
	}
	// 2. every permutation of the replies for N <= 5 (thorough: 6), plain and with a duplicate / unknown / reset
	maxN := c.N(5, 7)
	for n := 1; n <= maxN; n++ {
		for pi, p := range perms(n) {
			var ops []string
			for i := 0; i < n; i++ {
				ops = append(ops, "N")
			}
			for k, x := range p {
				ops = append(ops, fmt.Sprintf("R%d", x))
				switch (pi + k) % 5 {
				case 1:
					ops = append(ops, fmt.Sprintf("R%d", x)) // duplicate
				case 2:
					ops = append(ops, fmt.Sprintf("U%d", 77000+k)) // unknown id
				case 3:
					ops = append(ops, fmt.Sprintf("X%d", p[(k+1)%n])) // reset of another (maybe already answered) stream
				}
			}
			runScript(c, bases[(pi+n)%len(bases)], ops)
			c.Count(fmt.Sprintf("perm.n=%d", n))
		}
	}
	// 3. random scripts, up to 64 streams, counter pre-set around the wrap points
	for i := 0; i < c.N(1000, 6000); i++ {
		base := bases[rng.Intn(len(bases))]
		if rng.Chance(30) {
			base = uint64(1<<32) - uint64(rng.Intn(70))
		}
		target := 1 + rng.Intn(64)
		if rng.Chance(60) {
			target = 1 + rng.Intn(10)
		}
		var ops []string
		n := 0
		for len(ops) < 3*target+4 {
			r := rng.Intn(100)
			switch {
			case r < 34 && n < target:
				ops = append(ops, "N")
				n++
			case r < 37 && n < target:
				ops = append(ops, "O")
				n++
			case r < 75 && n > 0:
				ops = append(ops, fmt.Sprintf("R%d", rng.Intn(n)))
			case r < 80:
				ops = append(ops, fmt.Sprintf("U%d", rng.Intn(1<<20)))
			case r < 92 && n > 0:
				ops = append(ops, fmt.Sprintf("X%d", rng.Intn(n)))
			case r < 95:
				ops = append(ops, "C")
			default:
				if n < target {
					ops = append(ops, "N")
					n++
				}
			}
		}
		runScript(c, base, ops)
	}
	// 4. end to end through the real proxy core (e2e.go)
	runE2E(c, hx.NewRng(c.Seed^0xe2e0e2e))
	// 5. HTTP/1 per-request buffers recycled through the pool (h1b.go)
	h1bCases(c)
	// 6. HTTP/2 header blocks of concurrent writers on one connection, decoded in wire order (h2w.go)
	h2wCases(c)
	// 7. stream objects living in pooled buffers: destroy / deliver order of the receiver wrapper against the real HTTP/1 pool (sgen.go)
	sgCases(c)
	// 8. HTTP/2 client stream table: concurrent requests on one connection, answers frame by frame in any order (h2tbl.go)
	h2tCases(c)
	// 8. pooled downStream object: late timer callbacks against the generation tag (pgen.go)
	pgCases(c)
}
