//go:build verif

// Kind `h2w`: HPACK encode / frame write atomicity on one HTTP/2 connection. k header blocks are produced by k
// goroutines at the same time on ONE real MServerConn (responses) or MClientConn (requests); the connection below
// them is a gate that can hold one Write call back until a later Write call of another goroutine has gone out (or
// 30 ms passed). The recorded bytes are decoded in wire order by a reference peer (x/net Framer + ONE x/net hpack
// decoder, HEADERS/CONTINUATION assembled by hand): every stream must decode to exactly the header list it carried.
package c02

import (
	"bytes"
	"context"
	"fmt"
	"hash/fnv"
	"io"
	"net/http"
	"net/url"
	"sort"
	"strconv"
	"strings"
	"sync"
	"time"

	xh2 "golang.org/x/net/http2"
	xhpack "golang.org/x/net/http2/hpack"
	"mosn.io/api"
	mh2 "mosn.io/mosn/pkg/module/http2"
	"mosn.io/pkg/buffer"
	"verif/harness/hx"
)

const h2wTrailerBit = uint32(1) << 31

const h2wHoldTimeout = 30 * time.Millisecond
const h2wCaseTimeout = 20 * time.Second

var h2wPreface = []byte("PRI * HTTP/2.0\r\n\r\nSM\r\n\r\n")

// h2wGate is the api.Connection under the HTTP/2 connection: it records what is written in the order the writes
// really happen; once armed it holds the hold-th Write call until a later call went out or the timeout fired.
type h2wGate struct {
	api.Connection
	mu      sync.Mutex
	raw     []byte
	armed   bool
	hold    int // 0: none; 1 / 2: which Write call after arming is held
	n       int // Write calls since arming
	holding bool
	over    int // Write calls that overtook the held one
	pass    chan struct{}
	// match (clt cases): instead of counting, hold the first Write after arming whose frame satisfies match; only an
	// overtaking HEADERS frame lets it go on
	match func(ftype byte, sid uint32) bool
	held  bool
}

func h2wFrameHead(bufs []buffer.IoBuffer) (ftype byte, sid uint32, ok bool) {
	for _, b := range bufs {
		if b != nil && b.Len() >= 9 {
			x := b.Bytes()
			return x[3], (uint32(x[5])<<24 | uint32(x[6])<<16 | uint32(x[7])<<8 | uint32(x[8])) & 0x7fffffff, true
		}
	}
	return 0, 0, false
}

func h2wNewGate() *h2wGate { return &h2wGate{pass: make(chan struct{}, 1)} }

func (g *h2wGate) Write(bufs ...buffer.IoBuffer) error {
	g.mu.Lock()
	ftype, fsid, fok := h2wFrameHead(bufs)
	if g.armed {
		g.n++
		hit := g.hold != 0 && g.n == g.hold
		if g.match != nil {
			hit = !g.held && fok && g.match(ftype, fsid)
		}
		if hit {
			g.held = true
			g.holding = true
			g.mu.Unlock()
			t := time.NewTimer(h2wHoldTimeout)
			select {
			case <-g.pass:
			case <-t.C:
			}
			t.Stop()
			g.mu.Lock()
			g.holding = false
		}
	}
	for _, b := range bufs {
		if b != nil {
			g.raw = append(g.raw, b.Bytes()...)
		}
	}
	if g.holding && (g.match == nil || (fok && ftype == 1)) {
		g.over++
		select {
		case g.pass <- struct{}{}:
		default:
		}
	}
	g.mu.Unlock()
	return nil
}
func (g *h2wGate) State() api.ConnState                                     { return api.ConnActive }
func (g *h2wGate) Close(api.ConnectionCloseType, api.ConnectionEvent) error { return nil }
func (g *h2wGate) ID() uint64                                               { return 7 }

func (g *h2wGate) arm(hold int) {
	g.mu.Lock()
	g.armed, g.hold, g.n = true, hold, 0
	g.mu.Unlock()
}

func (g *h2wGate) snapshot() (raw []byte, over int) {
	g.mu.Lock()
	defer g.mu.Unlock()
	return append([]byte(nil), g.raw...), g.over
}

// h2wMsg is one header block to be sent: a response (srv) or a request (cli).
type h2wMsg struct {
	id     uint32 // stream id (cli: the nominal id 2*position+1, see h2wRunCli)
	status int    // srv
	method string // cli
	path   string // cli
	hdr    [][2]string
	big    bool
	trl    *h2wOpen // clt: this block is the trailers of an open stream (id = its nominal id + 1)
}

// h2wOpen is a client stream whose request headers went out without END_STREAM: body and trailers follow.
type h2wOpen struct {
	nominal uint32
	hdr     [][2]string
	data    []byte
	ms      *mh2.MClientStream
}

func h2wField(name, value string) string {
	v := hx.Hex([]byte(value))
	if len(value) > 64 {
		h := fnv.New32a()
		h.Write([]byte(value))
		v = fmt.Sprintf("L%d.%08x", len(value), h.Sum32())
	}
	return hx.Hex([]byte(name)) + ":" + v
}

func h2wFields(fs [][2]string) string {
	if len(fs) == 0 {
		return "-"
	}
	out := make([]string, 0, len(fs))
	for _, f := range fs {
		out = append(out, h2wField(f[0], f[1]))
	}
	sort.Strings(out)
	return strings.Join(out, ",")
}

// expected: what a correct peer decodes for the block (names lower-cased; the fields MOSN adds itself included).
func (m *h2wMsg) expected(side string) string {
	var fs [][2]string
	if m.trl != nil {
		// encodeTrailers: the trailer fields, names lower-cased, nothing added
	} else if side == "srv" {
		// MStream.WriteHeader: no body => content-length 0 for a response that may have a body ([c01h10] a 1xx / 204 response
		// carries none, a 304 / the answer to HEAD keeps the upstream's - none here); Date is present in the header set => not generated
		fs = append(fs, [2]string{":status", strconv.Itoa(m.status)}, [2]string{"date", "x"})
		if !(m.status >= 100 && m.status <= 199) && m.status != 204 && m.status != 304 {
			fs = append(fs, [2]string{"content-length", "0"})
		}
	} else {
		fs = append(fs, [2]string{":authority", "peer"}, [2]string{":method", m.method}, [2]string{":path", m.path},
			[2]string{":scheme", "http"}, [2]string{"user-agent", "h2w"})
		if m.method == "POST" || m.method == "PUT" { // shouldSendReqContentLength(method, 0)
			fs = append(fs, [2]string{"content-length", "0"})
		}
	}
	for _, kv := range m.hdr {
		fs = append(fs, [2]string{strings.ToLower(kv[0]), kv[1]})
	}
	return h2wFields(fs)
}

func (m *h2wMsg) header() http.Header {
	h := http.Header{}
	for _, kv := range m.hdr {
		h[kv[0]] = append(h[kv[0]], kv[1])
	}
	return h
}

const h2wLetters = "abcdefghijklmnopqrstuvwxyzABCDEFGHIJKLMNOPQRSTUVWXYZ0123456789-_.~"

func h2wText(r *hx.Rng, n int) string {
	b := make([]byte, n)
	var x uint64
	for i := range b {
		if i%8 == 0 {
			x = r.U64()
		}
		b[i] = h2wLetters[int(x&0xff)%len(h2wLetters)]
		x >>= 8
	}
	return string(b)
}

var h2wPool = [][2]string{
	{"X-P0", "pool-value-zero"}, {"X-P1", "pool-value-one-1"}, {"X-P2", "pool-two"},
	{"X-P3", "pool-value-three-333"}, {"X-P4", "p4"}, {"X-P5", "pool-value-five-55555"},
}

var h2wStatus = []int{200, 201, 202, 203, 204, 404, 500}
var h2wMethods = []string{"GET", "POST", "PUT", "DELETE", "OPTIONS"}

type h2wPlan struct {
	side  string
	mode  string
	n     int // streams opened (srv)
	warm  []*h2wMsg
	group []*h2wMsg // in stream-id order
	start []int     // indices into group: the order the goroutines are launched in
	cont  bool
	open  []*h2wOpen // clt
	repeat string    // clt: whether some trailers repeat a pair the concurrent request headers insert
}

func h2wShuffle(r *hx.Rng, xs []int) {
	for i := len(xs) - 1; i > 0; i-- {
		j := r.Intn(i + 1)
		xs[i], xs[j] = xs[j], xs[i]
	}
}

func h2wGen(r *hx.Rng, side string) *h2wPlan {
	p := &h2wPlan{side: side}
	switch x := r.Intn(10); {
	case x < 2:
		p.mode = "none"
	case x < 6:
		p.mode = "hold1"
	default:
		p.mode = "hold2"
	}
	k := 2 + r.Intn(3)
	maxW := 6 - k
	if maxW > 3 {
		maxW = 3
	}
	w := 1 + r.Intn(maxW)
	p.n = w + k + r.Intn(6-(w+k)+1)
	// stream ids: srv picks w + k of the n opened streams at random; cli numbers them in sending order
	ids := make([]int, p.n)
	for i := range ids {
		ids[i] = 2*i + 1
	}
	if side == "srv" {
		h2wShuffle(r, ids)
	} else {
		p.n = w + k
	}
	warmIDs, groupIDs := ids[:w], append([]int(nil), ids[w:w+k]...)
	sort.Ints(groupIDs)
	for j, id := range warmIDs {
		m := &h2wMsg{id: uint32(id), status: 200, method: "GET", path: "/warm"}
		if j == 0 {
			// the first warm-up block inserts fillers nobody refers to again (the server encodes in key order and
			// they sort before `Date` and the pool, so they are the oldest entries: a reference that is resolved
			// against a lagging table then still hits an entry instead of running off the table) and the whole pool
			nf := 4 + r.Intn(5)
			for i := 0; i < nf; i++ {
				m.hdr = append(m.hdr, [2]string{fmt.Sprintf("A-F%d", i), fmt.Sprintf("filler-%d-%s", i, h2wText(r, 2+r.Intn(6)))})
			}
			m.hdr = append(m.hdr, h2wPool...)
		} else {
			for _, kv := range h2wPool {
				if r.Chance(50) {
					m.hdr = append(m.hdr, kv)
				}
			}
			m.hdr = append(m.hdr, [2]string{fmt.Sprintf("X-W%d", id), fmt.Sprintf("w%d.%s", id, h2wText(r, 4+r.Intn(8)))})
		}
		p.warm = append(p.warm, m)
	}
	st := make([]int, len(h2wStatus))
	for i := range st {
		st[i] = i
	}
	h2wShuffle(r, st)
	for j, id := range groupIDs {
		m := &h2wMsg{id: uint32(id), status: h2wStatus[st[j]], method: r.PickS(h2wMethods), path: fmt.Sprintf("/r%d/%s", id, h2wText(r, 1+r.Intn(6)))}
		// 1-3 pairs of the pool (fully indexed references into the dynamic table)
		pi := []int{0, 1, 2, 3, 4, 5}
		h2wShuffle(r, pi)
		for _, x := range pi[:1+r.Intn(3)] {
			m.hdr = append(m.hdr, h2wPool[x])
		}
		// 1-4 new pairs: inserted into the dynamic table, every later index shifts
		nu := 1 + r.Intn(4)
		for i := 0; i < nu; i++ {
			m.hdr = append(m.hdr, [2]string{fmt.Sprintf("X-U%d-%d", id, i), fmt.Sprintf("r%d.%s", id, h2wText(r, 3+r.Intn(20)))})
		}
		if r.Chance(10) { // a new pair big enough to evict a good part of the table
			m.hdr = append(m.hdr, [2]string{fmt.Sprintf("X-M%d", id), fmt.Sprintf("r%d.%s", id, h2wText(r, 300+r.Intn(1500)))})
		}
		p.group = append(p.group, m)
	}
	if r.Chance(20) { // one block that needs CONTINUATION frames (> 16384 bytes)
		m := p.group[r.Intn(k)]
		m.big, p.cont = true, true
		if r.Bool() {
			m.hdr = append(m.hdr, [2]string{fmt.Sprintf("X-B%d", m.id), fmt.Sprintf("r%d.%s", m.id, h2wText(r, 20000+r.Intn(20001)))})
		} else {
			cnt := 40 + r.Intn(30)
			for i := 0; i < cnt; i++ {
				m.hdr = append(m.hdr, [2]string{fmt.Sprintf("X-B%d-%d", m.id, i), fmt.Sprintf("r%d.%s", m.id, h2wText(r, 500+r.Intn(400)))})
			}
		}
	}
	p.start = make([]int, k)
	for i := range p.start {
		p.start[i] = i
	}
	h2wShuffle(r, p.start)
	return p
}

func (p *h2wPlan) caseToks() string {
	var rs []string
	for _, m := range p.group {
		rs = append(rs, fmt.Sprintf("%d=%s", m.id, m.expected(p.side)))
	}
	return fmt.Sprintf("h2w %s %s %d %s", p.side, p.mode, len(p.warm), strings.Join(rs, ";"))
}

func (p *h2wPlan) holdIdx() int {
	switch p.mode {
	case "hold1":
		return 1
	case "hold2":
		return 2
	}
	return 0
}

// h2wConcurrent runs one function per group member from its own goroutine behind a start barrier.
func h2wConcurrent(p *h2wPlan, g *h2wGate, f func(j int)) {
	var wg sync.WaitGroup
	var pmu sync.Mutex
	var pmsg string
	startc := make(chan struct{})
	for _, j := range p.start {
		j := j
		wg.Add(1)
		go func() {
			defer wg.Done()
			<-startc
			if msg, bad := hx.Safe(func() { f(j) }); bad {
				pmu.Lock()
				pmsg = msg
				pmu.Unlock()
			}
		}()
	}
	g.arm(p.holdIdx())
	close(startc)
	done := make(chan struct{})
	go func() { wg.Wait(); close(done) }()
	select {
	case <-done:
	case <-time.After(h2wCaseTimeout):
		panic("h2w: writers did not return")
	}
	pmu.Lock()
	defer pmu.Unlock()
	if pmsg != "" {
		panic("h2w writer: " + pmsg)
	}
}

// h2wRunSrv: one MServerConn; the reference client opens n streams, MOSN answers w of them one after the other and
// k of them at the same time. Returns the wire bytes.
func h2wRunSrv(p *h2wPlan) []byte {
	g := h2wNewGate()
	sc := mh2.NewServerConn(g)
	sc.Init()
	ctx := context.Background()
	var hbuf bytes.Buffer
	henc := xhpack.NewEncoder(&hbuf)
	streams := map[uint32]*mh2.MStream{}
	for i := 0; i < p.n; i++ {
		sid := uint32(2*i + 1)
		hbuf.Reset()
		for _, kv := range [][2]string{{":method", "GET"}, {":scheme", "http"}, {":authority", "peer"}, {":path", fmt.Sprintf("/h2w/%d", sid)}} {
			henc.WriteField(xhpack.HeaderField{Name: kv[0], Value: kv[1]})
		}
		var wire bytes.Buffer
		xh2.NewFramer(&wire, nil).WriteHeaders(xh2.HeadersFrameParam{StreamID: sid, BlockFragment: hbuf.Bytes(), EndStream: true, EndHeaders: true})
		data := buffer.NewIoBufferBytes(wire.Bytes())
		for data.Len() > 0 {
			f, _, err := sc.Framer.ReadFrame(ctx, data, 0)
			if err != nil {
				panic(fmt.Sprint("h2w: request frame refused: ", err))
			}
			ms, _, _, _, err := sc.HandleFrame(ctx, f)
			if err != nil {
				panic(fmt.Sprint("h2w: request refused: ", err))
			}
			if ms != nil {
				streams[sid] = ms
			}
		}
		if streams[sid] == nil {
			panic("h2w: no stream object")
		}
	}
	send := func(m *h2wMsg) {
		ms := streams[m.id]
		h := m.header()
		h["Date"] = []string{"x"}
		ms.Response = &http.Response{StatusCode: m.status, Header: h}
		if err := ms.WriteHeader(true); err != nil {
			panic(fmt.Sprint("h2w: WriteHeader: ", err))
		}
	}
	for _, m := range p.warm {
		send(m)
	}
	h2wConcurrent(p, g, func(j int) { send(p.group[j]) })
	raw, _ := g.snapshot()
	return raw
}

// h2wRunCli: one MClientConn sending w requests one after the other and k at the same time. MOSN numbers the streams
// in the order the callers enter WriteHeaders, so the id a request gets is only known afterwards: the case line names
// the requests by their nominal id (2*position+1); actual maps MOSN's id to the nominal one.
func h2wRunCli(p *h2wPlan) (raw []byte, actual map[uint32]uint32) {
	g := h2wNewGate()
	cc := mh2.NewClientConn(g)
	cc.WriteInitFrame()
	ctx := context.Background()
	actual = map[uint32]uint32{}
	var amu sync.Mutex
	send := func(m *h2wMsg) {
		h := m.header()
		h["User-Agent"] = []string{"h2w"}
		req := &http.Request{Method: m.method, URL: &url.URL{Scheme: "http", Host: "peer", Path: m.path}, Host: "peer", Header: h}
		cs, err := cc.WriteHeaders(ctx, req, "", true)
		if err != nil || cs == nil {
			panic(fmt.Sprint("h2w: WriteHeaders: ", err))
		}
		amu.Lock()
		actual[cs.ID] = m.id
		amu.Unlock()
	}
	for _, m := range p.warm {
		send(m)
	}
	h2wConcurrent(p, g, func(j int) { send(p.group[j]) })
	raw, _ = g.snapshot()
	return raw, actual
}

// h2wGenClt: client side, request HEADERS of new streams racing with the TRAILERS of streams that are already open (both
// use the connection's one HPACK encoder). Nominal ids: warm-up requests, then the open streams, then the new requests;
// the trailers of the open stream with nominal id n are block n+1.
func h2wGenClt(r *hx.Rng) *h2wPlan {
	p := &h2wPlan{side: "clt", repeat: "no"}
	switch x := r.Intn(10); {
	case x < 1:
		p.mode = "none"
	case x < 7:
		p.mode = "holdh" // the first request HEADERS frame of the group is held
	default:
		p.mode = "holdt" // the first trailers HEADERS frame is held
	}
	w, na, nb := 1+r.Intn(2), 1+r.Intn(2), 1+r.Intn(2)
	id := uint32(1)
	for j := 0; j < w; j++ {
		m := &h2wMsg{id: id, method: "GET", path: "/warm"}
		if j == 0 {
			nf := 4 + r.Intn(5)
			for i := 0; i < nf; i++ {
				m.hdr = append(m.hdr, [2]string{fmt.Sprintf("A-F%d", i), fmt.Sprintf("filler-%d-%s", i, h2wText(r, 2+r.Intn(6)))})
			}
			m.hdr = append(m.hdr, h2wPool...)
		} else {
			m.hdr = append(m.hdr, [2]string{fmt.Sprintf("X-W%d", id), fmt.Sprintf("w%d.%s", id, h2wText(r, 4+r.Intn(8)))})
		}
		p.warm = append(p.warm, m)
		id += 2
	}
	for j := 0; j < na; j++ {
		o := &h2wOpen{nominal: id}
		for _, kv := range h2wPool {
			if r.Chance(40) {
				o.hdr = append(o.hdr, kv)
			}
		}
		o.hdr = append(o.hdr, [2]string{fmt.Sprintf("X-O%d", id), fmt.Sprintf("o%d.%s", id, h2wText(r, 4+r.Intn(8)))})
		if r.Bool() {
			o.data = []byte(h2wText(r, 1+r.Intn(200)))
		}
		p.open = append(p.open, o)
		id += 2
	}
	var reqs []*h2wMsg
	for j := 0; j < nb; j++ {
		m := &h2wMsg{id: id, method: r.PickS(h2wMethods), path: fmt.Sprintf("/r%d/%s", id, h2wText(r, 1+r.Intn(6)))}
		pi := []int{0, 1, 2, 3, 4, 5}
		h2wShuffle(r, pi)
		for _, x := range pi[:r.Intn(3)] {
			m.hdr = append(m.hdr, h2wPool[x])
		}
		// new pairs: inserted into the dynamic table by this block; the first one is what trailers repeat
		m.hdr = append(m.hdr, [2]string{fmt.Sprintf("X-Checksum-%d", id), fmt.Sprintf("c%d.%s", id, h2wText(r, 6+r.Intn(10)))})
		for i, nu := 0, r.Intn(3); i < nu; i++ {
			m.hdr = append(m.hdr, [2]string{fmt.Sprintf("X-U%d-%d", id, i), fmt.Sprintf("r%d.%s", id, h2wText(r, 3+r.Intn(20)))})
		}
		reqs = append(reqs, m)
		id += 2
	}
	for _, o := range p.open {
		m := &h2wMsg{id: o.nominal + 1, trl: o}
		if r.Chance(80) { // the pair a concurrent request block has just put into the table (or is about to)
			src := reqs[r.Intn(len(reqs))]
			for _, kv := range src.hdr {
				if strings.HasPrefix(kv[0], "X-Checksum-") {
					m.hdr = append(m.hdr, kv)
				}
			}
			p.repeat = "yes"
		}
		for _, kv := range h2wPool {
			if r.Chance(25) {
				m.hdr = append(m.hdr, kv)
			}
		}
		for i, nu := 0, 1+r.Intn(2); i < nu; i++ {
			m.hdr = append(m.hdr, [2]string{fmt.Sprintf("X-T%d-%d", o.nominal, i), fmt.Sprintf("t%d.%s", o.nominal, h2wText(r, 3+r.Intn(12)))})
		}
		p.group = append(p.group, m)
	}
	p.group = append(p.group, reqs...)
	sort.Slice(p.group, func(i, j int) bool { return p.group[i].id < p.group[j].id })
	if r.Chance(15) { // one block that needs CONTINUATION frames
		m := p.group[r.Intn(len(p.group))]
		m.big, p.cont = true, true
		m.hdr = append(m.hdr, [2]string{fmt.Sprintf("X-B%d", m.id), fmt.Sprintf("b%d.%s", m.id, h2wText(r, 20000+r.Intn(20001)))})
	}
	p.start = make([]int, len(p.group))
	for i := range p.start {
		p.start[i] = i
	}
	h2wShuffle(r, p.start)
	return p
}

// h2wRunClt: one MClientConn; warm-up requests and the headers of the open streams one after the other, then at the
// same time: the requests of the group (MClientConn.WriteHeaders) and body + trailers of the open streams
// (MClientStream.RoundTrip's second call = writeDataAndTrailer).
func h2wRunClt(p *h2wPlan) (raw []byte, actual map[uint32]uint32) {
	g := h2wNewGate()
	cc := mh2.NewClientConn(g)
	cc.WriteInitFrame()
	ctx := context.Background()
	actual = map[uint32]uint32{}
	var amu sync.Mutex
	mkReq := func(method, path string, hdr [][2]string) *http.Request {
		h := http.Header{}
		for _, kv := range hdr {
			h[kv[0]] = append(h[kv[0]], kv[1])
		}
		h["User-Agent"] = []string{"h2w"}
		return &http.Request{Method: method, URL: &url.URL{Scheme: "http", Host: "peer", Path: path}, Host: "peer", Header: h}
	}
	send := func(m *h2wMsg) {
		cs, err := cc.WriteHeaders(ctx, mkReq(m.method, m.path, m.hdr), "", true)
		if err != nil || cs == nil {
			panic(fmt.Sprint("h2w: WriteHeaders: ", err))
		}
		amu.Lock()
		actual[cs.ID] = m.id
		amu.Unlock()
	}
	for _, m := range p.warm {
		send(m)
	}
	openSid := map[uint32]bool{}
	for _, o := range p.open {
		ms := mh2.NewMClientStream(cc, mkReq("POST", fmt.Sprintf("/open/%d", o.nominal), o.hdr))
		ms.SendData = buffer.NewIoBufferBytes(append([]byte(nil), o.data...))
		tr := http.Header{}
		ms.Trailer = &tr
		if err := ms.RoundTrip(ctx); err != nil {
			panic(fmt.Sprint("h2w: RoundTrip (headers): ", err))
		}
		o.ms = ms
		actual[ms.GetID()] = o.nominal
		openSid[ms.GetID()] = true
	}
	switch p.mode {
	case "holdh":
		g.match = func(ftype byte, sid uint32) bool { return ftype == 1 && !openSid[sid] }
	case "holdt":
		g.match = func(ftype byte, sid uint32) bool { return ftype == 1 && openSid[sid] }
	}
	h2wConcurrent(p, g, func(j int) {
		m := p.group[j]
		if m.trl == nil {
			send(m)
			return
		}
		tr := http.Header{}
		for _, kv := range m.hdr {
			tr[kv[0]] = append(tr[kv[0]], kv[1])
		}
		m.trl.ms.Trailer = &tr
		if err := m.trl.ms.RoundTrip(ctx); err != nil {
			panic(fmt.Sprint("h2w: RoundTrip (trailers): ", err))
		}
	})
	raw, _ = g.snapshot()
	return raw, actual
}

type h2wDecoded struct {
	order       []uint32               // stream ids in the order of their HEADERS frames
	done        map[uint32][][2]string // completed blocks
	failed      map[uint32]bool        // blocks the decoder failed in (or that came after the failure)
	interleaved bool
	hpackErr    bool
	frameErr    string
}

// h2wDecode is the reference peer: frames in wire order, one HPACK decoder for the connection.
func h2wDecode(raw []byte) *h2wDecoded {
	d := &h2wDecoded{done: map[uint32][][2]string{}, failed: map[uint32]bool{}}
	raw = bytes.TrimPrefix(raw, h2wPreface)
	fr := xh2.NewFramer(io.Discard, bytes.NewReader(raw))
	fr.AllowIllegalReads = true // the CONTINUATION discipline is checked here, not by the framer
	fr.SetMaxReadFrameSize(1<<24 - 1)
	var feeding uint32
	cur := map[uint32][][2]string{}
	dec := xhpack.NewDecoder(4096, func(f xhpack.HeaderField) {
		cur[feeding] = append(cur[feeding], [2]string{f.Name, f.Value})
	})
	var open uint32    // stream whose header block is open (0: none)
	var openKey uint32 // its block key
	seen := map[uint32]bool{}
	feed := func(sid uint32, frag []byte, end bool) {
		openKey = sid
		if d.hpackErr {
			d.failed[sid] = true
		} else {
			feeding = sid
			if _, err := dec.Write(frag); err != nil {
				d.hpackErr = true
				d.failed[sid] = true
			}
		}
		if !end {
			open = sid
			return
		}
		open = 0
		if !d.hpackErr {
			if err := dec.Close(); err != nil {
				d.hpackErr = true
				d.failed[sid] = true
			}
		}
		if !d.failed[sid] {
			d.done[sid] = cur[sid]
		}
		if d.hpackErr {
			for s := range cur {
				if _, ok := d.done[s]; !ok {
					d.failed[s] = true
				}
			}
		}
	}
	for {
		f, err := fr.ReadFrame()
		if err == io.EOF {
			break
		}
		if err != nil {
			d.frameErr = err.Error()
			break
		}
		switch f := f.(type) {
		case *xh2.HeadersFrame:
			if open != 0 {
				d.interleaved = true
			}
			key := f.StreamID
			if seen[key] { // a second header block on the stream: its trailers
				key |= h2wTrailerBit
			}
			seen[key] = true
			d.order = append(d.order, key)
			feed(key, f.HeaderBlockFragment(), f.HeadersEnded())
		case *xh2.ContinuationFrame:
			if open == 0 || open&^h2wTrailerBit != f.StreamID {
				d.interleaved = true
			}
			key := f.StreamID
			if open != 0 {
				key = openKey
			}
			feed(key, f.HeaderBlockFragment(), f.HeadersEnded())
		default:
			if open != 0 {
				d.interleaved = true
			}
		}
	}
	if open != 0 {
		d.interleaved = true
	}
	return d
}

func h2wImpl(p *h2wPlan, raw []byte, actual map[uint32]uint32) string {
	d := h2wDecode(raw)
	// name maps a stream id on the wire to the id the case line uses (srv: the same; cli: the nominal id)
	name := func(sid uint32) (uint32, bool) {
		if actual == nil {
			return sid, sid&h2wTrailerBit == 0
		}
		n, ok := actual[sid&^h2wTrailerBit]
		if sid&h2wTrailerBit != 0 {
			n++
		}
		return n, ok
	}
	inGroup := map[uint32]bool{}
	for _, m := range p.group {
		inGroup[m.id] = true
	}
	isWarm := map[uint32]bool{}
	for _, m := range p.warm {
		isWarm[m.id] = true
	}
	for _, o := range p.open {
		isWarm[o.nominal] = true
	}
	var order []string
	res := map[uint32]string{}
	for _, sid := range d.order {
		n, ok := name(sid)
		switch {
		case !ok:
			order = append(order, fmt.Sprintf("?%d", sid))
		case isWarm[n]:
		default:
			order = append(order, strconv.Itoa(int(n)))
		}
	}
	for sid := range d.failed {
		if n, ok := name(sid); ok {
			res[n] = "err"
		}
	}
	for sid, fs := range d.done {
		if n, ok := name(sid); ok && res[n] == "" {
			res[n] = h2wFields(fs)
		}
	}
	flag := "ok"
	switch {
	case d.frameErr != "":
		flag = "frameerr"
	case d.interleaved:
		flag = "interleaved"
	case d.hpackErr:
		flag = "hpackerr"
	}
	var rs []string
	for _, m := range p.group {
		v := res[m.id]
		if v == "" {
			v = "missing"
		}
		rs = append(rs, fmt.Sprintf("%d=%s", m.id, v))
	}
	o := strings.Join(order, ",")
	if o == "" {
		o = "-"
	}
	return fmt.Sprintf("%s %s %s", o, flag, strings.Join(rs, ";"))
}

func h2wCase(c *hx.Ctx, r *hx.Rng, side string) {
	var p *h2wPlan
	if side == "clt" {
		p = h2wGenClt(r)
	} else {
		p = h2wGen(r, side)
	}
	impl := ""
	if msg, bad := hx.Safe(func() {
		if side == "clt" {
			raw, actual := h2wRunClt(p)
			impl = h2wImpl(p, raw, actual)
		} else if side == "srv" {
			impl = h2wImpl(p, h2wRunSrv(p), nil)
		} else {
			raw, actual := h2wRunCli(p)
			impl = h2wImpl(p, raw, actual)
		}
	}); bad {
		impl = "panic"
		c.Count("h2w.panic:" + hx.Tok(msg))
	}
	c.Emit("C02", p.caseToks(), impl)
	c.Count("h2w.side=" + side)
	c.Count("h2w.mode=" + p.mode)
	c.Count(fmt.Sprintf("h2w.k=%d", len(p.group)))
	c.Count(fmt.Sprintf("h2w.w=%d", len(p.warm)))
	if p.cont {
		c.Count("h2w.cont")
	}
	if side == "clt" {
		c.Count(fmt.Sprintf("h2w.clt.trailers=%d", len(p.open)))
		c.Count("h2w.clt.repeat=" + p.repeat)
	}
}

// h2wCases: quick 60 srv + 30 cli + 40 clt cases (a held write costs 30 ms on correct code).
func h2wCases(c *hx.Ctx) {
	rng := hx.NewRng(c.Seed ^ 0x683277c02)
	for i := 0; i < c.N(60, 600); i++ {
		h2wCase(c, rng.Fork(), "srv")
	}
	for i := 0; i < c.N(30, 300); i++ {
		h2wCase(c, rng.Fork(), "cli")
	}
	for i := 0; i < c.N(40, 400); i++ {
		h2wCase(c, rng.Fork(), "clt")
	}
}
