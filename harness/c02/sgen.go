//go:build verif

package c02

// Kind `sgen` (stream-object generations): the client stream OBJECT of an HTTP/1 exchange lives inside the pooled
// per-request buffers (httpBuffers.clientStream) and the receiver wrapper of pkg/stream/client.go keeps a POINTER to it.
// One case = a schedule of the steps a proxy worker and the upstream I/O goroutine take, driven against the REAL HTTP/1
// pool (pkg/stream/http connPool), real client connections + stream client + receiver wrapper + clientStreamConnection on
// loopback sockets and a scripted upstream (the answer to request token q<k> is r<k>, written when the schedule says so):
//   T<k>  exchange k takes a fresh buffer context and asks the pool for a stream (pool.NewStream with k's receiver;
//         k's own stream event listener is added, as the proxy's upstreamRequest does)
//   S<k>  k writes its request (AppendHeaders, end of stream)
//   R<k>[ops]  the upstream writes the answer to q<k>; the receiver that is notified runs `ops` (F / T / S steps)
//         SYNCHRONOUSLY inside its OnReceive, i.e. on the I/O goroutine in the middle of the wrapper's OnReceive -
//         exactly the window in which a proxy worker woken by the notification may finish the request, give the pooled
//         buffers back and let the next request take them
//   F<k>  k is finished: its buffer context is given back (buffer.PoolContext(ctx).Give())
// GOMAXPROCS(1): what Give puts into the sync.Pool is what the next Take gets. Observed per exchange: identity class of
// its stream object, connection it was leased, the answer tokens its receiver got, how often its stream listener saw
// OnDestroyStream and whether that happened before it had an answer, resets; at the end the pool's idle list and count.

import (
	"bufio"
	"context"
	"fmt"
	"net"
	"runtime"
	"strings"
	"sync"
	"time"

	"github.com/valyala/fasthttp"
	"mosn.io/api"
	v2 "mosn.io/mosn/pkg/config/v2"
	"mosn.io/mosn/pkg/configmanager"
	mosnhttp "mosn.io/mosn/pkg/protocol/http"
	httpstream "mosn.io/mosn/pkg/stream/http"
	"mosn.io/mosn/pkg/types"
	"mosn.io/mosn/pkg/upstream/cluster"
	"mosn.io/pkg/buffer"
	"mosn.io/pkg/variable"

	"verif/harness/hx"
)

type sgOp struct {
	kind   byte // T S R F
	k      int
	nested []sgOp
}

func (o sgOp) String() string {
	s := fmt.Sprintf("%c%d", o.kind, o.k)
	if len(o.nested) > 0 {
		var ns []string
		for _, n := range o.nested {
			ns = append(ns, n.String())
		}
		s += "[" + strings.Join(ns, ".") + "]"
	}
	return s
}

type sgUp struct {
	ln    net.Listener
	mu    sync.Mutex
	rel   map[int]chan struct{}
	seen  map[int]bool
	conns []net.Conn
}

var sgOnce sync.Once
var sgU *sgUp

func sgSetup() *sgUp {
	sgOnce.Do(func() {
		configmanager.ParseServerConfig(&v2.ServerConfig{})
		h1bQuiet()
		u := &sgUp{rel: map[int]chan struct{}{}, seen: map[int]bool{}}
		var err error
		if u.ln, err = net.Listen("tcp", "127.0.0.1:0"); err != nil {
			panic(err)
		}
		go func() {
			for {
				conn, err := u.ln.Accept()
				if err != nil {
					return
				}
				u.mu.Lock()
				u.conns = append(u.conns, conn)
				u.mu.Unlock()
				go u.serve(conn)
			}
		}()
		sgU = u
	})
	return sgU
}

func (u *sgUp) relOf(k int) chan struct{} {
	u.mu.Lock()
	defer u.mu.Unlock()
	ch, ok := u.rel[k]
	if !ok {
		ch = make(chan struct{})
		u.rel[k] = ch
	}
	return ch
}

func (u *sgUp) serve(conn net.Conn) {
	defer conn.Close()
	br := bufio.NewReader(conn)
	for {
		req, err := h1bRead(br, true, false)
		if err != nil {
			return
		}
		k := -1
		if len(req.toks) == 1 {
			fmt.Sscanf(req.toks[0], "q%d", &k)
		}
		u.mu.Lock()
		u.seen[k] = true
		u.mu.Unlock()
		<-u.relOf(k)
		body := h1bBody(fmt.Sprintf("r%d", k), 12+k%7)
		fmt.Fprintf(conn, "HTTP/1.1 200 OK\r\nX-Tok: r%d\r\nContent-Length: %d\r\n\r\n%s", k, len(body), body)
	}
}

// reset: a new case - forget the releases, drop the connections of the previous case
func (u *sgUp) reset() {
	u.mu.Lock()
	for _, ch := range u.rel {
		select {
		case <-ch:
		default:
			close(ch)
		}
	}
	conns := u.conns
	u.rel, u.seen, u.conns = map[int]chan struct{}{}, map[int]bool{}, nil
	u.mu.Unlock()
	for _, c := range conns {
		c.Close()
	}
}

type sgEx struct {
	w        *sgWorld
	k        int
	ctx      context.Context
	sender   types.StreamSender
	taken    bool
	obj      int
	conn     int
	fail     string
	got      []string
	destroys int
	early    bool
	resets   int
	gate     []sgOp
	released bool
}

type sgWorld struct {
	c       *hx.Ctx
	u       *sgUp
	pool    types.ConnectionPool
	mu      sync.Mutex
	ex      map[int]*sgEx
	objs    map[string]int
	conns   map[uint64]int
	deliv   int
	destroy int
	timeout int
}

func (e *sgEx) OnReceive(ctx context.Context, headers api.HeaderMap, data buffer.IoBuffer, trailers api.HeaderMap) {
	tok, _ := headers.Get("X-Tok")
	tok = strings.Clone(tok)
	if data != nil && !strings.HasPrefix(data.String(), tok+".") {
		tok += "!body"
	}
	e.w.mu.Lock()
	e.got = append(e.got, tok)
	gate := e.gate
	e.gate = nil
	e.w.mu.Unlock()
	for _, op := range gate {
		e.w.step(op)
	}
	e.w.mu.Lock()
	e.w.deliv++
	e.w.mu.Unlock()
}

func (e *sgEx) OnDecodeError(ctx context.Context, err error, headers api.HeaderMap) {
	e.w.mu.Lock()
	e.got = append(e.got, "err")
	e.w.deliv++
	e.w.mu.Unlock()
}

func (e *sgEx) OnResetStream(reason types.StreamResetReason) {
	e.w.mu.Lock()
	e.resets++
	e.w.mu.Unlock()
}

func (e *sgEx) OnDestroyStream() {
	e.w.mu.Lock()
	e.destroys++
	if !e.released && e.resets == 0 { // before the upstream was even told to answer k
		e.early = true
	}
	e.w.destroy++
	e.w.mu.Unlock()
}

func (w *sgWorld) wait(d time.Duration, f func() bool) bool {
	end := time.Now().Add(d)
	for {
		w.mu.Lock()
		ok := f()
		w.mu.Unlock()
		if ok {
			return true
		}
		if time.Now().After(end) {
			w.timeout++
			return false
		}
		runtime.Gosched()
		time.Sleep(200 * time.Microsecond)
	}
}

func (w *sgWorld) exOf(k int) *sgEx {
	w.mu.Lock()
	defer w.mu.Unlock()
	e, ok := w.ex[k]
	if !ok {
		e = &sgEx{w: w, k: k, obj: -1, conn: -1}
		w.ex[k] = e
	}
	return e
}

func (w *sgWorld) step(op sgOp) {
	e := w.exOf(op.k)
	switch op.kind {
	case 'T':
		if e.taken {
			return
		}
		e.ctx = buffer.NewBufferPoolContext(variable.NewVariableContext(context.Background()))
		_, sender, reason := w.pool.NewStream(e.ctx, e)
		e.taken = true
		if sender == nil {
			e.fail = string(reason)
			return
		}
		e.sender = sender
		sender.GetStream().AddEventListener(e)
		w.mu.Lock()
		key := fmt.Sprintf("%p", sender.GetStream())
		if _, ok := w.objs[key]; !ok {
			w.objs[key] = len(w.objs)
		}
		e.obj = w.objs[key]
		if v, err := variable.Get(e.ctx, types.VariableUpstreamConnectionID); err == nil {
			if id, ok := v.(uint64); ok {
				if _, ok := w.conns[id]; !ok {
					w.conns[id] = len(w.conns)
				}
				e.conn = w.conns[id]
			}
		}
		w.mu.Unlock()
	case 'S':
		if e.sender == nil {
			return
		}
		h := mosnhttp.RequestHeader{RequestHeader: &fasthttp.RequestHeader{}}
		h.Set("X-Tok", fmt.Sprintf("q%d", op.k))
		e.sender.AppendHeaders(e.ctx, h, true)
		// the request has reached the upstream (on a broken tree a second request pipelined on one connection is read
		// only after the first was answered: that wait runs out and is counted)
		end := time.Now().Add(150 * time.Millisecond)
		for time.Now().Before(end) {
			w.u.mu.Lock()
			seen := w.u.seen[op.k]
			w.u.mu.Unlock()
			if seen {
				break
			}
			time.Sleep(200 * time.Microsecond)
		}
	case 'F':
		if e.ctx == nil {
			return
		}
		if pc := buffer.PoolContext(e.ctx); pc != nil {
			pc.Give()
		}
		e.ctx, e.sender = nil, nil
	case 'R':
		w.mu.Lock()
		e.gate = op.nested
		e.released = true
		before := w.deliv
		w.mu.Unlock()
		ch := w.u.relOf(op.k)
		select {
		case <-ch:
		default:
			close(ch)
		}
		// somebody is notified (on the unchanged tree: k) ...
		w.wait(400*time.Millisecond, func() bool { return w.deliv > before })
		// ... and the wrapper's OnReceive has run to its end: every delivery is paired with a DestroyStream
		w.wait(150*time.Millisecond, func() bool { return w.destroy >= w.deliv })
		w.mu.Lock()
		if len(e.gate) > 0 { // nobody ran the gate (the answer went elsewhere or nowhere): run it now, the schedule goes on
			gate := e.gate
			e.gate = nil
			w.mu.Unlock()
			for _, n := range gate {
				w.step(n)
			}
		} else {
			w.mu.Unlock()
		}
	}
}

func sgRun(c *hx.Ctx, plan []sgOp) {
	u := sgSetup()
	u.reset()
	name := "c02-sgen"
	cc := v2.Cluster{Name: name, ClusterType: v2.SIMPLE_CLUSTER, LbType: v2.LB_RANDOM,
		Hosts: []v2.Host{{HostConfig: v2.HostConfig{Address: u.ln.Addr().String()}}}}
	info := cluster.NewCluster(cc).Snapshot().ClusterInfo()
	host := cluster.NewSimpleHost(cc.Hosts[0], info)
	w := &sgWorld{c: c, u: u, ex: map[int]*sgEx{}, objs: map[string]int{}, conns: map[uint64]int{}}
	w.pool = httpstream.NewConnPool(variable.NewVariableContext(context.Background()), host)
	msg, panicked := hx.Safe(func() {
		for _, op := range plan {
			w.step(op)
		}
	})
	// the schedule as it was run: every T with the object it was handed
	var render func(ops []sgOp, sep string) string
	render = func(ops []sgOp, sep string) string {
		var ts []string
		for _, op := range ops {
			t := fmt.Sprintf("%c%d", op.kind, op.k)
			if op.kind == 'T' {
				t += fmt.Sprintf(":%d", w.exOf(op.k).obj)
			}
			if len(op.nested) > 0 {
				t += "[" + render(op.nested, ".") + "]"
			}
			ts = append(ts, t)
		}
		return strings.Join(ts, sep)
	}
	maxK := -1
	for k := range w.ex {
		if k > maxK {
			maxK = k
		}
	}
	var obs []string
	w.mu.Lock()
	for k := 0; k <= maxK; k++ {
		e := w.ex[k]
		if e == nil || !e.taken {
			obs = append(obs, "-")
			continue
		}
		if e.fail != "" {
			obs = append(obs, "fail:"+hx.Tok(e.fail))
			continue
		}
		got := "-"
		if len(e.got) > 0 {
			got = strings.Join(e.got, "+")
		}
		early := ""
		if e.early {
			early = "e"
		}
		obs = append(obs, fmt.Sprintf("o%d/c%d/g%s/d%d%s/x%d", e.obj, e.conn, got, e.destroys, early, e.resets))
		if len(e.got) > 0 {
			c.Count("sgen.answered")
		}
	}
	reuse := len(w.objs) < len(w.ex)
	timeouts := w.timeout
	w.mu.Unlock()
	idle := "?"
	if books, total, ok := httpstream.VerifPoolBooks(w.pool); ok {
		var is []string
		for _, b := range books {
			w.mu.Lock()
			ci, ok := w.conns[b.ConnID]
			w.mu.Unlock()
			if !ok {
				ci = -1
			}
			is = append(is, fmt.Sprintf("%d", ci))
		}
		idle = fmt.Sprintf("idle=%s;total=%d", strings.Join(is, "+"), total)
	}
	if panicked {
		idle += ";panic=" + hx.Tok(msg)
	}
	if reuse {
		c.Count("sgen.object-reused")
	}
	if timeouts > 0 {
		c.Count("sgen.wait-ran-out")
	}
	c.Count("sgen.cases")
	c.Emit("C02", "sgen "+render(plan, ","), strings.Join(obs, ",")+" "+idle)
	w.pool.Close()
	u.reset()
}

func sgParse(s string) []sgOp {
	var ops []sgOp
	for _, t := range strings.Split(s, ",") {
		if t == "" {
			continue
		}
		op := sgOp{kind: t[0]}
		rest := t[1:]
		if i := strings.IndexByte(rest, '['); i >= 0 {
			for _, n := range strings.Split(strings.TrimSuffix(rest[i+1:], "]"), ".") {
				if n == "" {
					continue
				}
				no := sgOp{kind: n[0]}
				nr := n[1:]
				if j := strings.IndexByte(nr, ':'); j >= 0 {
					nr = nr[:j]
				}
				fmt.Sscanf(nr, "%d", &no.k)
				op.nested = append(op.nested, no)
			}
			rest = rest[:i]
		}
		if j := strings.IndexByte(rest, ':'); j >= 0 {
			rest = rest[:j]
		}
		fmt.Sscanf(rest, "%d", &op.k)
		ops = append(ops, op)
	}
	return ops
}

// sgGen: a random schedule that is meaningful on the unchanged tree: exchanges are taken, sent, answered (with a gate
// that finishes the answered exchange and starts / sends others inside the notification) and finished in any mix.
func sgGen(r *hx.Rng, n int) []sgOp {
	var plan []sgOp
	next := 0
	var taken, sent, answered []int // taken not sent / sent not answered / answered not finished
	pick := func(xs *[]int) int {
		i := r.Intn(len(*xs))
		k := (*xs)[i]
		*xs = append((*xs)[:i], (*xs)[i+1:]...)
		return k
	}
	for next < n || len(taken)+len(sent)+len(answered) > 0 {
		x := r.Intn(100)
		switch {
		case x < 25 && next < n && len(taken)+len(sent) < 4:
			plan = append(plan, sgOp{kind: 'T', k: next})
			taken = append(taken, next)
			next++
		case x < 45 && len(taken) > 0:
			k := pick(&taken)
			plan = append(plan, sgOp{kind: 'S', k: k})
			sent = append(sent, k)
		case x < 85 && len(sent) > 0:
			k := pick(&sent)
			op := sgOp{kind: 'R', k: k}
			fin := false
			if r.Chance(75) { // the worker finishes k inside the notification
				op.nested = append(op.nested, sgOp{kind: 'F', k: k})
				fin = true
			}
			for j := 0; j < 3 && next < n && r.Chance(60); j++ { // and the next request(s) take the buffers
				op.nested = append(op.nested, sgOp{kind: 'T', k: next})
				if r.Chance(40) {
					op.nested = append(op.nested, sgOp{kind: 'S', k: next})
					sent = append(sent, next)
				} else {
					taken = append(taken, next)
				}
				next++
			}
			if len(taken) > 0 && r.Chance(25) {
				k2 := pick(&taken)
				op.nested = append(op.nested, sgOp{kind: 'S', k: k2})
				sent = append(sent, k2)
			}
			plan = append(plan, op)
			if !fin {
				answered = append(answered, k)
			}
		case len(answered) > 0:
			plan = append(plan, sgOp{kind: 'F', k: pick(&answered)})
		case next >= n && len(taken) > 0:
			k := pick(&taken)
			plan = append(plan, sgOp{kind: 'S', k: k})
			sent = append(sent, k)
		}
	}
	return plan
}

func sgCases(c *hx.Ctx) {
	sgSetup()
	old := runtime.GOMAXPROCS(1)
	defer runtime.GOMAXPROCS(old)
	r := hx.NewRng(c.Seed ^ 0x5e9e17)
	fixed := []string{
		// A answered; inside the notification A is finished and B takes the buffers (and its stream); then C asks the pool
		// before B has written its request; B and C are answered in that order
		"T0,S0,R0[F0.T1],T2,S1,S2,R1,R2,F1,F2",
		// the same with B sending inside the window, and a fourth exchange on the recycled buffers of B
		"T0,S0,R0[F0.T1.S1],T2,S2,R1[F1.T3],S3,R2,R3,F2,F3",
		// chain: every notification recycles into the next request, three deep; answers in reverse order
		"T0,S0,R0[F0.T1.T2],S1,S2,T3,S3,R3[F3.T4],R2[F2],S4,R1[F1],R4[F4]",
		// no recycling inside the window (finished later): the object is not reused early
		"T0,S0,T1,S1,R0[T2],R1[T3.S3],S2,F0,F1,R3[F3],R2[F2]",
		// plain sequential reuse
		"T0,S0,R0,F0,T1,S1,R1,F1,T2,S2,R2,F2",
	}
	for _, f := range fixed {
		sgRun(c, sgParse(f))
	}
	for i := 0; i < c.N(40, 300); i++ {
		sgRun(c, sgGen(r, 3+r.Intn(c.N(8, 14))))
	}
}
