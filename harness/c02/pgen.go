//go:build verif

// Kind `pgen` (C02, builder c02g10): generation tags of the pooled downStream object against LATE timer callbacks.
//
// One case = a real proxy core (px fixture: real downStream / upstreamRequest / timers / worker pool / buffer pools) with
// a per-try timeout (timer pt, site 0) or only a global timeout (timer gt, site 1). Request A is sent upstream; its timer
// callback is PARKED by the verif yield point at the very start of the callback (started by the runtime, so the Stop of
// cleanStream comes too late; nothing read or written yet). Then, per case:
//
//	aEnd = r200 | r503   A's upstream answers right then (the answer races with the started callback), A completes and its
//	                     buffers are recycled; B is requested (GOMAXPROCS 1: B takes the object A gave back)
//	aEnd = own           A is not answered: the released callback times out its OWN exchange
//	rel  = p             the callback is released before B is requested (object in the pool)
//	       t             … while B is in flight on the recycled object (forwarded upstream, not answered)
//	       a             … after B was answered
//	       n             the callback is never parked and A is answered long before the deadline (plain run)
//
// Observed: whether B runs on A's object (VerifSameStream), status and upstream response token of A's and B's client
// reply (a local reply carries no response token), whether B's upstream stream was reset by the proxy.
// Line: C02 pgen <timer> <aEnd> <rel> => <reused|fresh> A=<status>:<rtok> B=<status>:<rtok> Bup=<live|reset> [skew:<why>]
package c02

import (
	"fmt"
	"runtime"
	"strings"
	"sync"
	"time"

	v2 "mosn.io/mosn/pkg/config/v2"
	"mosn.io/mosn/pkg/proxy"

	"verif/harness/hx"
	"verif/harness/px"
)

const pgDeadline = 40 * time.Millisecond

type pgPark struct {
	mu       sync.Mutex
	site     int
	armed    bool
	started  chan struct{}
	release  chan struct{}
	returned chan struct{}
}

func (p *pgPark) hook(site int) {
	p.mu.Lock()
	if !p.armed || site != p.site {
		p.mu.Unlock()
		return
	}
	p.armed = false
	p.mu.Unlock()
	close(p.started)
	<-p.release
	go func() { time.Sleep(2 * time.Millisecond); close(p.returned) }()
}

func pgObs(ex *px.Exchange) (string, bool) {
	status, reset := "-", false
	for _, t := range ex.Trace() {
		if strings.HasPrefix(t, "dh:") {
			status = strings.SplitN(t, ":", 3)[1]
		}
		if strings.HasPrefix(t, "ur:") {
			reset = true
		}
	}
	rtok := "-"
	hs, _ := ex.ResponseHeaders()
	for _, kv := range hs {
		if kv[0] == "x-rtok" {
			rtok = kv[1]
		}
	}
	return status + ":" + rtok, reset
}

func pgRun(c *hx.Ctx, timer, aEnd, rel string) {
	for try := 0; try < 8; try++ {
		if pgRun1(c, timer, aEnd, rel, try == 7) {
			return
		}
		c.Count("pgen.retry-fresh")
	}
}

// pgRun1 runs the case once; unless last, a run in which B did not get A's object (sync.Pool gave another one) is not
// emitted and reported as false
func pgRun1(c *hx.Ctx, timer, aEnd, rel string, last bool) bool {
	var route = px.Route("/", "c", px.Retry(false, 0, pgDeadline), px.Timeout(2*time.Second))
	site := 0
	if timer == "gt" {
		route = px.Route("/", "c", px.Timeout(pgDeadline))
		site = 1
	}
	f := px.New(px.Config{Clusters: []px.Cluster{{Name: "c", Hosts: 1}}, Routes: []v2.Router{route}, TerminateHandle: true})
	defer f.Close()
	park := &pgPark{site: site, armed: rel != "n", started: make(chan struct{}), release: make(chan struct{}), returned: make(chan struct{})}
	proxy.VerifSetTimerYield(park.hook)
	defer proxy.VerifSetTimerYield(nil)
	skew := ""
	released := false
	releaseCb := func() {
		if !released {
			released = true
			close(park.release)
			select {
			case <-park.returned:
			case <-time.After(200 * time.Millisecond):
			}
		}
	}
	defer releaseCb()

	exA := f.Request(px.H(":path", "/a", ":authority", "svc", "x-qtok", "q0"), nil, nil)
	a0 := exA.WaitAttempt(0)
	if a0 == nil {
		c.Emit("C02", fmt.Sprintf("pgen %s %s %s", timer, aEnd, rel), "no-attempt")
		return true
	}
	if rel != "n" {
		select {
		case <-park.started:
		case <-time.After(pgDeadline + 400*time.Millisecond):
			skew = "skew:timer-not-started"
		}
	}
	code := 200
	if aEnd == "r503" {
		code = 503
	}
	if aEnd == "own" {
		releaseCb()
		exA.WaitDone(300 * time.Millisecond)
	} else {
		a0.Respond(code, map[string]string{"x-rtok": "r0"}, []byte("body-r0"), nil)
		if !exA.WaitDone(300 * time.Millisecond) {
			skew = "skew:A-not-done"
		}
	}
	if rel == "p" {
		releaseCb()
	}
	exB := f.Request(px.H(":path", "/a", ":authority", "svc", "x-qtok", "q1"), nil, nil)
	b0 := exB.WaitAttempt(0)
	reuse := "fresh"
	if exA.SharesStreamWith(exB) {
		reuse = "reused"
	}
	if rel == "t" {
		releaseCb()
		exB.WaitQuiescent()
	}
	if b0 != nil {
		b0.Respond(200, map[string]string{"x-rtok": "r1"}, []byte("body-r1"), nil)
	}
	// a B whose response token was taken away ends by its own timer
	exB.WaitDone(pgDeadline + 300*time.Millisecond)
	if rel == "a" {
		releaseCb()
	}
	releaseCb()
	exB.WaitQuiescent()
	aObs, _ := pgObs(exA)
	bObs, bReset := pgObs(exB)
	bup := "live"
	if bReset {
		bup = "reset"
	}
	impl := fmt.Sprintf("%s A=%s B=%s Bup=%s", reuse, aObs, bObs, bup)
	if reuse == "fresh" && aEnd != "own" && !last && skew == "" && impl == fmt.Sprintf("fresh A=%d:r0 B=200:r1 Bup=live", code) {
		return false
	}
	if skew != "" {
		impl += " " + skew
		c.Count("pgen.skew")
	}
	c.Count("pgen." + timer + "." + aEnd + "." + rel)
	c.Count("pgen." + reuse)
	c.Emit("C02", fmt.Sprintf("pgen %s %s %s", timer, aEnd, rel), impl)
	return true
}

func pgCases(c *hx.Ctx) {
	old := runtime.GOMAXPROCS(1)
	defer runtime.GOMAXPROCS(old)
	rounds := c.N(2, 8)
	for r := 0; r < rounds; r++ {
		for _, timer := range []string{"pt", "gt"} {
			for _, aEnd := range []string{"r200", "r503", "own"} {
				for _, rel := range []string{"t", "p", "a", "n"} {
					if aEnd == "own" && rel != "t" {
						continue
					}
					pgRun(c, timer, aEnd, rel)
				}
			}
		}
	}
}
