//go:build verif

package c09

// mux.go — kind `mux`: the REAL xprotocol multiplex pool (bolt frames under its own protocol name, PoolMode() =
// Multiplex) driven by operation lists against the loopback upstream. One slot per allowed connection; a slot holds the
// client whose state word walks Init -> Connecting -> Connected -> GoAway. After every operation the line carries the
// hook-read slots (state + connection), Requests().Cur(), the state of every TCP connection as agreed by both ends and
// what every stream's listeners were told.
//
// op tokens:
//   I<k> / IF<k> / IT<k>  pool.CheckAndInit with slot k chosen by the downstream context (a dial made by it succeeds /
//                         is refused / times out); IA: no slot in the context, the pool's round-robin counter chooses
//   N<k>                  pool.NewStream with slot k in the context (+ send the request)
//   O<k>                  a ONE-WAY request: pool.NewStream(ctx, nil) with slot k in the context (+ send a bolt one-way
//                         request frame); the stream gets no response and is never destroyed or reset
//   R<s> L<s> X<s>        upstream answers stream s / local reset of stream s / garbage on the connection of stream s
//   G<c>                  go-away frame on open connection c
//   CR<c> / CL<c>         open connection c is closed by the upstream / by MOSN
//   S / Z                 pool.Shutdown() / pool.Close()
//   E+ / E-               another pool of the cluster takes / gives back a slot of the shared requests breaker

import (
	"context"
	"fmt"
	"strconv"
	"strings"
	"sync"
	"sync/atomic"
	"time"

	"mosn.io/api"
	"mosn.io/mosn/pkg/protocol/xprotocol"
	"mosn.io/mosn/pkg/protocol/xprotocol/bolt"
	xstream "mosn.io/mosn/pkg/stream/xprotocol"
	"mosn.io/mosn/pkg/types"
	"mosn.io/pkg/variable"
	"verif/harness/hx"
)

const mxName api.ProtocolName = "c09mx"

type mxCodec struct{ inner bolt.XCodec }

func (c *mxCodec) ProtocolName() api.ProtocolName   { return mxName }
func (c *mxCodec) ProtocolMatch() api.ProtocolMatch { return nil }
func (c *mxCodec) HTTPMapping() api.HTTPMapping     { return c.inner.HTTPMapping() }
func (c *mxCodec) NewXProtocol(ctx context.Context) api.XProtocol {
	return &mxProto{c.inner.NewXProtocol(ctx)}
}

type mxProto struct{ api.XProtocol }

func (p *mxProto) Name() api.ProtocolName { return mxName }
func (p *mxProto) PoolMode() api.PoolMode { return api.Multiplex }

var mxOnce sync.Once

func registerMux() {
	register()
	mxOnce.Do(func() {
		if err := xprotocol.RegisterXProtocolCodec(&mxCodec{}); err != nil {
			panic(err)
		}
	})
}

func (w *world) muxSlots() ([]xstream.VerifMuxSlot, bool) {
	s, sd, ok := xstream.VerifMultiplexBooks(w.pool)
	if !ok {
		panic("not a multiplex pool")
	}
	return s, sd
}

// muxQuiet: no slot is mid-connect (the init goroutine has finished) unless the pool is shut down.
func (w *world) muxQuiet() bool {
	slots, sd := w.muxSlots()
	if sd {
		return true
	}
	for _, s := range slots {
		if s.Present && s.State == xstream.Connecting {
			return false
		}
	}
	return true
}

func muxCtx(slot int) context.Context {
	ctx := newCtx()
	if slot >= 0 {
		_ = variable.Set(ctx, types.VariableConnectionPoolIndex, int64(slot))
	}
	return ctx
}

var muxStateLetter = map[uint32]string{xstream.Init: "I", xstream.Connecting: "K", xstream.Connected: "C", xstream.GoAway: "G"}

func (w *world) muxSnapshot() string {
	slots, sd := w.muxSlots()
	var sb strings.Builder
	sb.WriteString("b")
	for k, s := range slots {
		if k > 0 {
			sb.WriteByte(',')
		}
		switch {
		case !s.Present:
			sb.WriteByte('-')
		case !s.HasConn:
			sb.WriteString(muxStateLetter[s.State] + "f")
		default:
			fmt.Fprintf(&sb, "%s%d", muxStateLetter[s.State], w.connIndexByID(s.ConnID))
		}
	}
	if sd {
		sb.WriteString(";d1")
	} else {
		sb.WriteString(";d0")
	}
	g := w.gauges()
	fmt.Fprintf(&sb, ";q%d;a%d:%d;n", w.reqResource().Cur(), g.reqHost, g.reqCluster)
	for _, m := range w.conns {
		switch {
		case m.mosnClosed() && m.upEOF():
			sb.WriteByte('c')
		case !m.mosnClosed() && !m.upEOF():
			sb.WriteByte('o')
		default:
			sb.WriteByte('?')
		}
	}
	sb.WriteString(";s")
	for k, s := range w.streams {
		if k > 0 {
			sb.WriteByte(',')
		}
		r, rs, d := s.get()
		fmt.Fprintf(&sb, "%d:%d:", s.conn, r)
		for _, x := range rs {
			if sh, ok := reasonShort[x]; ok {
				sb.WriteString(sh)
			} else {
				sb.WriteByte('?')
			}
		}
		fmt.Fprintf(&sb, ":%d", d)
	}
	return sb.String()
}

// ppOneway: a bolt one-way request (command type RequestOneway: the codec reports api.RequestOneWay).
func ppOneway() api.HeaderMap {
	r := bolt.NewRpcRequest(0, nil, nil)
	r.CmdType = bolt.CmdTypeRequestOneway
	return r
}

func (w *world) muxApply(op string) string {
	num := func(p string) int { n, _ := strconv.Atoi(strings.TrimPrefix(op, p)); return n }
	res := "-"
	switch {
	case op == "IA" || strings.HasPrefix(op, "IF") || strings.HasPrefix(op, "IT") || strings.HasPrefix(op, "I"):
		slot := -1
		switch {
		case op == "IA":
		case strings.HasPrefix(op, "IF"):
			slot = num("IF")
			w.failNext = true
		case strings.HasPrefix(op, "IT"):
			slot = num("IT")
			w.timeoutNext = true
		default:
			slot = num("I")
		}
		ok := w.pool.CheckAndInit(muxCtx(slot))
		// the connection is made by a goroutine of the pool: wait until it has finished
		if !waitFor(settleTimeout, w.muxQuiet) {
			w.timeouts++
		}
		w.failNext, w.timeoutNext = false, false
		w.lastDial = nil
		w.registerNew()
		if ok {
			res = "t"
		} else {
			res = "f"
		}
	case strings.HasPrefix(op, "W") || strings.HasPrefix(op, "V"):
		return w.muxRace(op)
	case strings.HasPrefix(op, "N"):
		ctx := muxCtx(num("N"))
		rec := &streamRec{conn: -1}
		_, sender, reason := w.pool.NewStream(ctx, rec)
		if reason != "" || sender == nil {
			switch reason {
			case types.Overflow:
				res = "ovf"
			case types.ConnectionFailure:
				res = "cf"
			default:
				res = "fail"
			}
			break
		}
		if idv, err := variable.Get(ctx, types.VariableUpstreamConnectionID); err == nil {
			if id, ok := idv.(uint64); ok {
				rec.conn = w.connIndexByID(id)
			}
		}
		if rec.conn < 0 {
			res = "noconn"
			break
		}
		rec.sender = sender
		sender.GetStream().AddEventListener(rec)
		w.streams = append(w.streams, rec)
		m := w.conns[rec.conn]
		before := int64(0)
		if m.up != nil {
			before = atomic.LoadInt64(&m.up.got)
		}
		sender.AppendHeaders(ctx, ppRequest(), true)
		if m.up != nil {
			if !waitFor(settleTimeout, func() bool {
				_, _, d := rec.get()
				return atomic.LoadInt64(&m.up.got) > before || d > 0
			}) {
				w.timeouts++
			}
		}
		res = fmt.Sprintf("ok%d", rec.conn)
	case strings.HasPrefix(op, "O"):
		// a one-way request: no receiver; the proxy sends the request and forgets the stream
		ctx := muxCtx(num("O"))
		_, sender, reason := w.pool.NewStream(ctx, nil)
		if reason != "" || sender == nil {
			switch reason {
			case types.Overflow:
				res = "ovf"
			case types.ConnectionFailure:
				res = "cf"
			default:
				res = "fail"
			}
			break
		}
		ci := -1
		if idv, err := variable.Get(ctx, types.VariableUpstreamConnectionID); err == nil {
			if id, ok := idv.(uint64); ok {
				ci = w.connIndexByID(id)
			}
		}
		if ci < 0 {
			res = "noconn"
			break
		}
		m := w.conns[ci]
		before := int64(0)
		if m.up != nil {
			before = atomic.LoadInt64(&m.up.got)
		}
		sender.AppendHeaders(ctx, ppOneway(), true)
		if m.up != nil {
			if !waitFor(settleTimeout, func() bool { return atomic.LoadInt64(&m.up.got) > before || m.mosnClosed() }) {
				w.timeouts++
			}
		}
		w.oneways++
		res = fmt.Sprintf("ok%d", ci)
	case strings.HasPrefix(op, "R"):
		w.response(num("R"), false)
	case strings.HasPrefix(op, "X"):
		w.garbage(num("X"))
	case strings.HasPrefix(op, "L"):
		// (guarded: a reset blocks for ever if the connection's stream table is locked by a stuck goroutine)
		st := w.streams[num("L")].sender.GetStream()
		if !muxGuard(func() { st.ResetStream(types.StreamLocalReset) }) {
			return "hang"
		}
	case strings.HasPrefix(op, "G"):
		ci := num("G")
		w.writeUp(ci, w.ppGoAway())
		id := w.conns[ci].conn.ID()
		// the frame has been handled when the client of that connection shows GoAway, has been replaced in its slot, or
		// the connection is closed
		waitFor(settleTimeout, func() bool {
			if w.conns[ci].mosnClosed() {
				return true
			}
			slots, _ := w.muxSlots()
			for _, s := range slots {
				if s.Present && s.HasConn && s.ConnID == id {
					return s.State == xstream.GoAway
				}
			}
			return false
		})
		time.Sleep(2 * time.Millisecond)
	case strings.HasPrefix(op, "CR"):
		m := w.conns[num("CR")]
		if m.up != nil {
			atomic.StoreInt32(&m.up.eof, 1)
			m.up.c.Close()
		}
	case strings.HasPrefix(op, "CL"):
		cn := w.conns[num("CL")].conn
		if !muxGuard(func() { cn.Close(api.NoFlush, api.LocalClose) }) {
			return "hang"
		}
	case op == "S":
		w.pool.Shutdown()
		waitFor(settleTimeout, func() bool { _, sd := w.muxSlots(); return sd })
	case op == "Z":
		done := make(chan struct{})
		go func() { w.pool.Close(); close(done) }()
		select {
		case <-done:
		case <-time.After(3 * time.Second):
			return "hang"
		}
	case op == "E+":
		w.reqResource().Increase()
		w.ext++
	case op == "E-":
		w.reqResource().Decrease()
		w.ext--
	default:
		panic("bad mux op " + op)
	}
	w.settle()
	return res
}

// muxGuard runs f on its own goroutine and reports whether it returned within 3 s.
func muxGuard(f func()) bool {
	done := make(chan struct{})
	go func() { f(); close(done) }()
	select {
	case <-done:
		return true
	case <-time.After(3 * time.Second):
		return false
	}
}

func (w *world) muxValid(op string) bool {
	in := func(l []int, n int) bool {
		for _, x := range l {
			if x == n {
				return true
			}
		}
		return false
	}
	num := func(p string) int {
		n, err := strconv.Atoi(strings.TrimPrefix(op, p))
		if err != nil {
			return -1
		}
		return n
	}
	slots, _ := w.muxSlots()
	slotOK := func(k int) bool { return k >= 0 && k < len(slots) }
	switch {
	case op == "IA" || op == "S" || op == "Z" || op == "E+":
		return true
	case op == "E-":
		return w.ext > 0
	case strings.HasPrefix(op, "IF"):
		return slotOK(num("IF"))
	case strings.HasPrefix(op, "IT"):
		return slotOK(num("IT"))
	case strings.HasPrefix(op, "I"):
		return slotOK(num("I"))
	case strings.HasPrefix(op, "N"):
		return slotOK(num("N"))
	case strings.HasPrefix(op, "W"):
		return slotOK(num("W"))
	case strings.HasPrefix(op, "V"):
		return slotOK(num("V"))
	case strings.HasPrefix(op, "O"):
		return slotOK(num("O"))
	case strings.HasPrefix(op, "R"):
		return in(w.liveStreams(), num("R"))
	case strings.HasPrefix(op, "X"):
		return in(w.liveStreams(), num("X"))
	case strings.HasPrefix(op, "L"):
		return in(w.liveStreams(), num("L"))
	case strings.HasPrefix(op, "G"):
		return in(w.openConns(), num("G"))
	case strings.HasPrefix(op, "CR"):
		return in(w.openConns(), num("CR"))
	case strings.HasPrefix(op, "CL"):
		return in(w.openConns(), num("CL"))
	}
	return false
}

func muxRunOps(c *hx.Ctx, maxConn, maxReq uint32, next func(w *world, step int) string) (ops, obs []string, w *world) {
	registerMux()
	w = newWorld("mx", maxConn, maxReq)
	hung := false
	defer func() {
		if hung {
			w.up.stop()
		} else {
			w.close()
		}
	}()
	for step := 0; ; step++ {
		op := next(w, step)
		if op == "" || !w.muxValid(op) {
			break
		}
		before := w.timeouts
		res := w.muxApply(op)
		ops = append(ops, op)
		if res == "hang" {
			obs = append(obs, res)
			hung = true
			break
		}
		obs = append(obs, res+";"+w.muxSnapshot())
		if w.timeouts > before {
			// the pool did not become quiescent: a goroutine of MOSN is stuck; the history ends here and the
			// connections are left alone (closing them could block on whatever it is stuck on)
			hung = true
			break
		}
	}
	return ops, obs, w
}

func muxEmit(c *hx.Ctx, maxConn, maxReq uint32, ops, obs []string, w *world) {
	muxEmitFor(c, "C09", maxConn, maxReq, ops, obs, w)
}

func muxEmitFor(c *hx.Ctx, prop string, maxConn, maxReq uint32, ops, obs []string, w *world) {
	if len(ops) == 0 {
		return
	}
	c.Emit(prop, fmt.Sprintf("mux %d %d %s", maxConn, maxReq, strings.Join(ops, ",")), strings.Join(obs, " "))
	for _, o := range ops {
		c.Count("mux.op." + strings.TrimRight(o, "0123456789"))
	}
	for _, o := range obs {
		r := o
		if k := strings.Index(o, ";"); k >= 0 {
			r = o[:k]
		}
		if r != "-" {
			c.Count("mux.result." + strings.TrimRight(r, "0123456789"))
		}
	}
	c.Count(fmt.Sprintf("mux.cfg.conn%d.req%d", maxConn, maxReq))
	if w.timeouts > 0 {
		c.Count("mux.settle.timeout")
	}
}

func muxGen(rng *hx.Rng, length int) func(w *world, step int) string {
	return func(w *world, step int) string {
		if step >= length {
			return ""
		}
		live, open := w.liveStreams(), w.openConns()
		slots, _ := w.muxSlots()
		type cand struct {
			op string
			wt int
		}
		var cs []cand
		add := func(op string, wt int) { cs = append(cs, cand{op, wt}) }
		for k := range slots {
			add(fmt.Sprintf("I%d", k), 16/len(slots)+1)
			add(fmt.Sprintf("IF%d", k), 2)
			add(fmt.Sprintf("IT%d", k), 2)
			add(fmt.Sprintf("N%d", k), 24/len(slots)+1)
			add(fmt.Sprintf("O%d", k), 10/len(slots)+1)
		}
		add("IA", 3)
		for _, s := range live {
			add(fmt.Sprintf("R%d", s), 10)
			add(fmt.Sprintf("L%d", s), 4)
			add(fmt.Sprintf("X%d", s), 2)
		}
		for _, k := range open {
			add(fmt.Sprintf("G%d", k), 6)
			add(fmt.Sprintf("CR%d", k), 3)
			add(fmt.Sprintf("CL%d", k), 2)
		}
		add("S", 1)
		add("Z", 2)
		if w.maxReq > 0 {
			add("E+", 4)
			if w.ext > 0 {
				add("E-", 5)
			}
		}
		tot := 0
		for _, x := range cs {
			tot += x.wt
		}
		r := rng.Intn(tot)
		for _, x := range cs {
			if r < x.wt {
				return x.op
			}
			r -= x.wt
		}
		return "IA"
	}
}

// fixed histories: go-away with requests in flight, re-connect, late completion, close of the drained connection
var muxBoundary = [][]string{
	{"I0", "I0", "N0", "N0", "R0", "R1"},
	{"N0", "I0", "N0", "R0"},
	{"I0", "N0", "G0", "I0", "N0", "R0", "R1"},
	{"I0", "N0", "G0", "I0", "R0", "I0", "N0", "R1"},
	{"I0", "N0", "G0", "I0", "R0", "CR0", "I0", "N0"},
	{"I0", "G0", "I0", "N0", "R0"},
	{"I0", "N0", "N0", "G0", "R0", "R1", "I0", "N0"},
	{"I0", "N0", "L0", "N0", "R1"},
	{"I0", "N0", "X0", "I0", "N0"},
	{"I0", "N0", "CR0", "I0", "N0", "R1"},
	{"I0", "N0", "CL0", "N0", "I0", "N0"},
	{"IF0", "N0", "IT0", "N0", "I0", "N0", "R0"},
	{"E+", "I0", "N0", "E-", "N0", "N0", "R0", "N0"},
	{"I0", "N0", "S", "R0", "CR0", "I0", "N0"},
	{"I0", "N0", "Z", "I0", "N0"},
	{"I0", "I1", "N0", "N1", "G0", "I0", "R0", "N0", "N1"},
	{"IA", "IA", "IA", "N0", "N1", "R0", "R1"},
	// one-way requests: they hold nothing — the breaker admits the next request after any number of them
	{"I0", "I0", "O0", "O0", "O0", "N0", "N0", "R0", "O0", "N0"},
	{"O0", "I0", "I0", "O0", "N0", "O0", "R0", "O0"},
	{"E+", "I0", "I0", "O0", "N0", "O0", "E-", "O0", "N0", "O0"},
	{"I0", "I0", "O0", "G0", "O0", "I0", "I0", "O0", "N0", "R0"},
	{"I0", "I0", "N0", "O0", "CR0", "O0", "I0", "I0", "O0", "N0"},
	{"I0", "I1", "I0", "O0", "O1", "N0", "N1", "O0", "O1", "R0", "R1"},
	{"I0", "I0", "O0", "O0", "Z", "O0", "I0", "I0", "O0", "N0", "N0"},
}

func runMux(c *hx.Ctx) { RunMux(c, "C09", c.N(250, 3000)) }

// RunMux runs the multiplex pool histories and emits them as cases of property prop (C09; C10 reuses them for the
// requests breaker and the request_active gauges, one-way requests included).
func RunMux(c *hx.Ctx, prop string, n int) {
	lims := []uint32{0, 1, 2}
	for _, mc := range lims {
		for _, mr := range lims {
			for bi, b := range muxBoundary {
				if !c.Thorough() && (bi+int(mc)+int(mr)+int(c.Seed))%2 != 0 {
					continue
				}
				ops, obs, w := muxRunOps(c, mc, mr, scripted(b))
				muxEmitFor(c, prop, mc, mr, ops, obs, w)
			}
		}
	}
	rng := c.Rng.Fork()
	for i := 0; i < n; i++ {
		mc := uint32(rng.Intn(3))
		mr := uint32(rng.Intn(3))
		if rng.Chance(6) {
			mc = 3
		}
		length := 3 + rng.Intn(10)
		ops, obs, w := muxRunOps(c, mc, mr, muxGen(rng, length))
		muxEmitFor(c, prop, mc, mr, ops, obs, w)
	}
}
