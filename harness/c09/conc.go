//go:build verif

package c09

import (
	"fmt"
	"runtime"
	"sync"
	"sync/atomic"
	"time"

	"mosn.io/mosn/pkg/types"
	"mosn.io/pkg/variable"
	"verif/harness/hx"
)

// runConc is the concurrent phase (support, not part of the model correspondence): `workers` goroutines lease, complete,
// reset and lose connections of ONE real pool at the same time; when all are done and the pool is quiescent the books
// must again equal the truth (the same observation predicate as after a sequential operation).
func runConc(c *hx.Ctx, kind string, maxConn, maxReq uint32, workers, iters int, seed uint64) {
	w := newWorld(kind, maxConn, maxReq)
	w.concurrent = true
	defer w.close()
	var big sync.Mutex // harness bookkeeping (w.conns, w.streams)
	var granted, refused int64
	var wg sync.WaitGroup
	for g := 0; g < workers; g++ {
		wg.Add(1)
		rng := hx.NewRng(seed*1000003 + uint64(g)*7919 + 17)
		go func() {
			defer wg.Done()
			for it := 0; it < iters; it++ {
				ctx := newCtx()
				rec := &streamRec{conn: -1}
				_, sender, reason := w.pool.NewStream(ctx, rec)
				big.Lock()
				w.registerNew()
				if reason == "" && sender != nil {
					if idv, err := variable.Get(ctx, types.VariableUpstreamConnectionID); err == nil {
						if id, ok := idv.(uint64); ok {
							rec.conn = w.connIndexByID(id)
						}
					}
				}
				if rec.conn >= 0 {
					rec.sender = sender
					w.streams = append(w.streams, rec)
				}
				var m *mconn
				if rec.conn >= 0 {
					m = w.conns[rec.conn]
				}
				big.Unlock()
				if reason != "" || sender == nil {
					atomic.AddInt64(&refused, 1)
					runtime.Gosched()
					continue
				}
				if m == nil || m.up == nil {
					// the harness could not match the connection with an upstream socket: give the lease back
					sender.GetStream().AddEventListener(rec)
					sender.GetStream().ResetStream(types.StreamLocalReset)
					c.Count("conc.unmatched")
					continue
				}
				atomic.AddInt64(&granted, 1)
				sender.GetStream().AddEventListener(rec)
				before := atomic.LoadInt64(&m.up.got)
				switch kind {
				case "h1":
					sender.AppendHeaders(ctx, h1Request(), true)
				default:
					sender.AppendHeaders(ctx, ppRequest(), true)
				}
				waitFor(settleTimeout, func() bool {
					_, _, d := rec.get()
					return atomic.LoadInt64(&m.up.got) > before || d > 0
				})
				switch r := rng.Intn(100); {
				case r < 70: // the upstream answers
					if kind == "h1" {
						m.up.c.Write([]byte("HTTP/1.1 200 OK\r\nContent-Length: 2\r\n\r\nok"))
					} else {
						m.up.c.Write(w.ppResponse(sender.GetStream().ID()))
					}
					waitFor(settleTimeout, func() bool { rr, rs, d := rec.get(); return rr > 0 || (d > 0 && len(rs) > 0) })
				case r < 90: // timeout / downstream reset
					sender.GetStream().ResetStream(types.StreamLocalReset)
				default: // the upstream drops the connection
					atomic.StoreInt32(&m.up.eof, 1)
					m.up.c.Close()
					waitFor(settleTimeout, func() bool { _, _, d := rec.get(); return d > 0 })
				}
			}
		}()
	}
	wg.Wait()
	big.Lock()
	w.registerNew()
	big.Unlock()
	w.settle()
	// the pool's own close listeners may still be running on the connections' goroutines: wait for stable books
	last, stable := "", 0
	waitFor(settleTimeout, func() bool {
		s := w.snapshot()
		if s == last {
			stable++
		} else {
			last, stable = s, 0
		}
		time.Sleep(2 * time.Millisecond)
		return stable >= 10
	})
	c.Emit("C09", fmt.Sprintf("conc %s %d %d %d %d %d", kind, maxConn, maxReq, workers, iters, seed), "-;"+w.snapshot())
	c.Count("conc.runs")
	c.Count(fmt.Sprintf("conc.granted=%d0%%", 10*granted/(granted+refused+1)/1))
	if w.timeouts > 0 {
		c.Count("settle.timeout")
	}
}
