//go:build verif

package c09

// once.go — kind `once`: overlapping ResetStream / DestroyStream calls on ONE real stream.BaseStream under a
// deterministic scheduler. The verif hook of pkg/stream places a yield point directly before every atomic access of
// BaseStream.state and before every Lock of the two methods; the scheduler owns those points: exactly one goroutine
// runs at a time, from its yield point to its next one. A goroutine parked before Lock is runnable only while the
// stream mutex is free (tested with TryLock while everything is parked). EVERY interleaving of the given goroutines is
// executed (stateless depth-first enumeration with replay), one case line per complete schedule; after every scheduler
// step the line carries BaseStream.state and what two counting listeners have been told so far.

import (
	"fmt"
	"strings"
	"sync/atomic"
	"time"

	"mosn.io/mosn/pkg/stream"
	"mosn.io/mosn/pkg/types"
	"verif/harness/hx"
)

type onceEv struct {
	done bool
	site int
}

type onceRig struct {
	bs       *stream.BaseStream
	cur      int
	resume   []chan struct{}
	back     chan onceEv
	resets   [2]int32
	destroys [2]int32
}

type onceListener struct {
	r *onceRig
	i int
}

func (l *onceListener) OnResetStream(reason types.StreamResetReason) { atomic.AddInt32(&l.r.resets[l.i], 1) }
func (l *onceListener) OnDestroyStream()                              { atomic.AddInt32(&l.r.destroys[l.i], 1) }

const onceStepTimeout = 20 * time.Second

func (r *onceRig) wait() (onceEv, bool) {
	select {
	case ev := <-r.back:
		return ev, true
	case <-time.After(onceStepTimeout):
		return onceEv{}, false
	}
}

func (r *onceRig) obs() string {
	s := fmt.Sprintf("%d:%d:%d", stream.VerifStreamState(r.bs), atomic.LoadInt32(&r.resets[0]), atomic.LoadInt32(&r.destroys[0]))
	if atomic.LoadInt32(&r.resets[0]) != atomic.LoadInt32(&r.resets[1]) || atomic.LoadInt32(&r.destroys[0]) != atomic.LoadInt32(&r.destroys[1]) {
		s += "!" // the two listeners disagree
	}
	return s
}

// onceRun executes the goroutines (thread t issues the calls of threads[t]: R = ResetStream, D = DestroyStream) under
// `prefix`, then keeps choosing the lowest runnable goroutine (a seeded random one when rng != nil). It returns the
// schedule, one observation per step, per step which goroutines were runnable before it, and how the run ended
// ("1" every call returned, "deadlock" unfinished goroutines but none runnable, "stuck" a resumed goroutine neither
// reached a yield point nor returned).
func onceRun(threads []string, prefix []int, rng *hx.Rng) (sched []int, obs []string, enabled [][]bool, end string) {
	n := len(threads)
	r := &onceRig{bs: &stream.BaseStream{}, back: make(chan onceEv)}
	r.bs.AddEventListener(&onceListener{r, 0})
	r.bs.AddEventListener(&onceListener{r, 1})
	for i := 0; i < n; i++ {
		r.resume = append(r.resume, make(chan struct{}))
	}
	stream.VerifSetStreamYield(func(s *stream.BaseStream, site int) {
		if s != r.bs {
			return
		}
		me := r.cur
		r.back <- onceEv{site: site}
		<-r.resume[me]
	})
	defer stream.VerifSetStreamYield(nil)
	finished := make([]bool, n)
	parked := make([]int, n)
	for t := 0; t < n; t++ {
		t := t
		go func() {
			<-r.resume[t]
			for _, call := range threads[t] {
				switch call {
				case 'R':
					r.bs.ResetStream(types.StreamLocalReset)
				case 'D':
					r.bs.DestroyStream()
				}
			}
			r.back <- onceEv{done: true}
		}()
	}
	// park every goroutine at its first yield point: nothing shared has been touched yet
	for t := 0; t < n; t++ {
		r.cur = t
		r.resume[t] <- struct{}{}
		ev, ok := r.wait()
		if !ok {
			return sched, obs, enabled, "stuck"
		}
		if ev.done {
			finished[t] = true
		}
		parked[t] = ev.site
	}
	for {
		left := 0
		for _, f := range finished {
			if !f {
				left++
			}
		}
		if left == 0 {
			return sched, obs, enabled, "1"
		}
		free := r.bs.TryLock()
		if free {
			r.bs.Unlock()
		}
		en := make([]bool, n)
		cnt := 0
		for t := 0; t < n; t++ {
			if !finished[t] && (parked[t] != stream.VerifSiteLock || free) {
				en[t] = true
				cnt++
			}
		}
		if cnt == 0 {
			return sched, obs, enabled, "deadlock"
		}
		t := -1
		if len(sched) < len(prefix) && en[prefix[len(sched)]] {
			t = prefix[len(sched)]
		} else if rng != nil {
			k := rng.Intn(cnt)
			for i, e := range en {
				if e {
					if k == 0 {
						t = i
						break
					}
					k--
				}
			}
		} else {
			for i, e := range en {
				if e {
					t = i
					break
				}
			}
		}
		enabled = append(enabled, en)
		r.cur = t
		r.resume[t] <- struct{}{}
		ev, ok := r.wait()
		sched = append(sched, t)
		if !ok {
			obs = append(obs, "stuck")
			return sched, obs, enabled, "stuck"
		}
		if ev.done {
			finished[t] = true
		}
		parked[t] = ev.site
		obs = append(obs, r.obs())
		if len(sched) > 512 {
			return sched, obs, enabled, "endless"
		}
	}
}

func onceEmit(c *hx.Ctx, threads []string, sched []int, obs []string, end string) {
	var ss []string
	for _, t := range sched {
		ss = append(ss, fmt.Sprint(t))
	}
	sc := "-"
	if len(ss) > 0 {
		sc = strings.Join(ss, ",")
	}
	c.Emit("C09", fmt.Sprintf("once %s %s", strings.Join(threads, ","), sc), strings.TrimSpace(strings.Join(obs, " ")+" end:"+end))
	c.Count("once.schedules")
	c.Count("once.end=" + end)
	if len(obs) > 0 {
		last := obs[len(obs)-1]
		if p := strings.Split(strings.TrimSuffix(last, "!"), ":"); len(p) == 3 {
			c.Count("once.final.resets=" + p[1])
			c.Count("once.final.destroys=" + p[2])
		}
	}
}

// onceExplore runs EVERY schedule of the goroutines (limit > 0: the first `limit` in depth-first order, then `limit`
// seeded random ones) and emits one case per schedule.
func onceExplore(c *hx.Ctx, threads []string, limit int) int {
	count := 0
	var prefix []int
	for {
		sched, obs, enabled, end := onceRun(threads, prefix, nil)
		onceEmit(c, threads, sched, obs, end)
		count++
		if end == "stuck" {
			return count // the parked goroutines of this run are lost; do not go on enumerating around a blocked step
		}
		if limit > 0 && count >= limit {
			for j := 0; j < limit; j++ {
				sched, obs, _, end := onceRun(threads, nil, c.Rng)
				onceEmit(c, threads, sched, obs, end)
				count++
				if end == "stuck" {
					break
				}
			}
			return count
		}
		i := len(sched) - 1
		if i >= len(enabled) {
			i = len(enabled) - 1
		}
		next := -1
		for ; i >= 0; i-- {
			for t := sched[i] + 1; t < len(threads); t++ {
				if enabled[i][t] {
					next = t
					break
				}
			}
			if next >= 0 {
				break
			}
		}
		if next < 0 {
			return count
		}
		prefix = append(append([]int{}, sched[:i]...), next)
	}
}

func runOnce(c *hx.Ctx) {
	cnt := func(threads []string, n int) {
		c.Count(fmt.Sprintf("once.goroutines=%d", len(threads)))
		c.Count("once.threads=" + strings.Join(threads, ","))
		_ = n
	}
	// one goroutine (sequential orders of the calls)
	for _, a := range []string{"R", "D", "RD", "DR", "RR", "DD", "RDR"} {
		cnt([]string{a}, onceExplore(c, []string{a}, 0))
	}
	// two goroutines: every pair over {R, D, RD}, every schedule; pairs with the longer call lists sampled in the quick tier
	base := []string{"R", "D", "RD"}
	for _, a := range base {
		for _, b := range base {
			cnt([]string{a, b}, onceExplore(c, []string{a, b}, 0))
		}
	}
	more := []string{"DR", "RR", "DD"}
	for ai, a := range append(append([]string{}, base...), more...) {
		for _, b := range more {
			lim := 0
			if !c.Thorough() {
				lim = 40
			}
			cnt([]string{a, b}, onceExplore(c, []string{a, b}, lim))
			if ai < len(base) {
				cnt([]string{b, a}, onceExplore(c, []string{b, a}, lim))
			}
		}
	}
	// three goroutines over {R, D}: every schedule in the thorough tier, a depth-first + random sample otherwise
	for _, a := range []string{"R", "D"} {
		for _, b := range []string{"R", "D"} {
			for _, d := range []string{"R", "D"} {
				lim := c.N(60, 0)
				cnt([]string{a, b, d}, onceExplore(c, []string{a, b, d}, lim))
			}
		}
	}
}
