//go:build verif

package c09

// Kind `dw` (pool10): the REAL xprotocol ping-pong pool / multiplex pool with a connection event landing INSIDE the
// windows between "the dial succeeded" and "the pool's books know the connection", and inside the accounting of the
// ping-pong NewStream (yield hooks pkg/stream/xprotocol/verif_yield_dial.go, called on the goroutine that dials):
//
//	pp  D<site><ev>  NewStream with event ev at site: 0 newActiveClient after Connect | 1 GetActiveClient before
//	                 totalClientCount.Inc | 3 NewStream after the end listener is registered | 4 after the request is counted
//	    N            plain NewStream            R<s>  response to stream s        C<c>  the upstream closes connection c
//	mx  I<ev>        CheckAndInit(slot 0) with event ev inside init's dial (site 2: newActiveClient after Connect, the
//	                 slot holds the Connecting placeholder, init holds clientMux)
//	    N / R<s> / C<c> as above
//	ev: n none | r the upstream closes the connection | l MOSN closes it (LocalClose) | g go-away frame (mx only)
//
// A peer close / go-away is waited for until MOSN's read loop has closed the connection and the pool's handler has run
// — or, where the handler needs a lock the dialing goroutine holds, until it is parked on that lock (grace period).
// A local close inside init is issued from another goroutine (the close event needs clientMux, which init holds).
// Observation after every operation (settled):
//	pp: res;t<total>;i<idle conns>;q<Requests.Cur>;a<host request_active>:<cluster>;c<host connection_active>:<cluster>;n<conn o|c>
//	mx: res;b<slot 0: - | <I|K|C|G><f|o|x>>;q..;a..;c..;n..      (o the client's connection is open, x closed, f placeholder)

import (
	"fmt"
	"strconv"
	"strings"
	"sync/atomic"
	"time"

	"mosn.io/api"
	xstream "mosn.io/mosn/pkg/stream/xprotocol"
	"mosn.io/mosn/pkg/types"
	"mosn.io/pkg/variable"

	"verif/harness/hx"
)

type dwListener struct{ closed int32 }

// dwPending: the listener the last window event registered behind the pool's own (it has been told of the close when
// the pool's handler has returned)
var dwPending *dwListener

// dwAwaitHandler: after the dialing goroutine has left the window, wait until the pool's close handler has run.
func (w *world) dwAwaitHandler(hit api.Connection) {
	l := dwPending
	dwPending = nil
	if l == nil || hit == nil {
		return
	}
	if hit.State() == api.ConnClosed && !waitFor(settleTimeout, func() bool { return atomic.LoadInt32(&l.closed) == 1 }) {
		w.timeouts++
	}
}

func (l *dwListener) OnEvent(e api.ConnectionEvent) {
	if e.IsClose() {
		atomic.StoreInt32(&l.closed, 1)
	}
}

const dwGrace = 30 * time.Millisecond

// dwHook returns the yield function: at `site` (once) event ev is delivered to the connection with the given id.
func (w *world) dwHook(site int, ev byte, locked bool, hit *api.Connection) func(s int, id uint64) {
	fired := false
	return func(s int, id uint64) {
		if s != site || fired {
			return
		}
		fired = true
		var conn api.Connection
		w.mu.Lock()
		for _, c := range w.created {
			if c.ID() == id {
				conn = c
			}
		}
		w.mu.Unlock()
		if conn == nil {
			return
		}
		*hit = conn
		if ev == 'n' {
			return
		}
		l := &dwListener{}
		conn.AddConnectionEventListener(l) // after the pool's own listener
		dwPending = l
		switch ev {
		case 'l':
			if locked {
				go conn.Close(api.NoFlush, api.LocalClose)
			} else {
				conn.Close(api.NoFlush, api.LocalClose)
			}
		case 'r', 'g':
			var uc *upConn
			waitFor(settleTimeout, func() bool {
				if a := conn.LocalAddr(); a != nil {
					uc = w.up.find(a.String())
				}
				return uc != nil
			})
			if uc == nil {
				w.timeouts++
				return
			}
			if ev == 'r' {
				uc.c.Close()
			} else {
				uc.c.Write(w.ppGoAway())
			}
		}
		if ev == 'g' {
			// a go-away frame closes an idle multiplex connection; nothing else shows from outside
			waitFor(300*time.Millisecond, func() bool { return conn.State() == api.ConnClosed })
			time.Sleep(dwGrace)
			return
		}
		if !waitFor(settleTimeout, func() bool { return conn.State() == api.ConnClosed }) {
			w.timeouts++
			return
		}
		if locked {
			// the pool's handler is parked on the lock held by this goroutine (or has run, if it needs no lock)
			time.Sleep(dwGrace)
			return
		}
		if !waitFor(settleTimeout, func() bool { return atomic.LoadInt32(&l.closed) == 1 }) {
			w.timeouts++
		}
	}
}

func (w *world) dwSnapshotTail() string {
	g := w.gauges()
	var sb strings.Builder
	fmt.Fprintf(&sb, ";q%d;a%d:%d;c%d:%d;n", w.reqResource().Cur(), g.reqHost, g.reqCluster, g.connHost, g.connCluster)
	for _, m := range w.conns {
		switch {
		case m.mosnClosed() && m.upEOF():
			sb.WriteByte('c')
		case !m.mosnClosed() && !m.upEOF():
			sb.WriteByte('o')
		default:
			sb.WriteByte('?')
		}
	}
	return sb.String()
}

func (w *world) dwSnapshot() string {
	if w.kind == "mx" {
		slots, _ := w.muxSlots()
		b := "-"
		if len(slots) > 0 && slots[0].Present {
			s := slots[0]
			b = muxStateLetter[s.State]
			switch {
			case !s.HasConn:
				b += "f"
			default:
				ci := w.connIndexByID(s.ConnID)
				if ci >= 0 && w.conns[ci].mosnClosed() {
					b += "x"
				} else {
					b += "o"
				}
			}
		}
		return ";b" + b + w.dwSnapshotTail()
	}
	idle, total := w.books()
	var sb strings.Builder
	fmt.Fprintf(&sb, ";t%d;i", int64(total))
	for k, b := range idle {
		if k > 0 {
			sb.WriteByte(',')
		}
		fmt.Fprintf(&sb, "%d", b.idx)
	}
	return sb.String() + w.dwSnapshotTail()
}

// dwHandOut registers a stream that NewStream handed out and sends its request.
func (w *world) dwHandOut(ctx interface{}, rec *streamRec, sender types.StreamSender) string {
	return w.handOut(rec, sender, func() { sender.AppendHeaders(newCtx(), ppRequest(), true) })
}

func (w *world) dwNewStream(site int, ev byte) string {
	var hit api.Connection
	if site >= 0 {
		xstream.VerifSetDialYield(w.dwHook(site, ev, false, &hit))
		defer xstream.VerifSetDialYield(nil)
	}
	ctx := newCtx()
	if w.kind == "mx" {
		ctx = muxCtx(0)
	}
	rec := &streamRec{conn: -1}
	_, sender, reason := w.pool.NewStream(ctx, rec)
	w.dwAwaitHandler(hit)
	w.registerNew()
	w.markClosedUnheard(hit)
	w.lastDial = nil
	if reason != "" || sender == nil {
		switch reason {
		case types.Overflow:
			return "ovf"
		case types.ConnectionFailure:
			return "cf"
		}
		return "fail"
	}
	if idv, err := variable.Get(ctx, types.VariableUpstreamConnectionID); err == nil {
		if id, ok := idv.(uint64); ok {
			rec.conn = w.connIndexByID(id)
		}
	}
	if rec.conn < 0 {
		return "noconn"
	}
	return w.dwHandOut(ctx, rec, sender)
}

func (w *world) dwInit(ev byte) string {
	var hit api.Connection
	xstream.VerifSetDialYield(w.dwHook(xstream.VerifDialSiteMuxDialed, ev, true, &hit))
	defer xstream.VerifSetDialYield(nil)
	ok := w.pool.CheckAndInit(muxCtx(0))
	if !waitFor(settleTimeout, w.muxQuiet) {
		w.timeouts++
	}
	w.lastDial = nil
	w.dwAwaitHandler(hit)
	w.registerNew()
	w.markClosedUnheard(hit)
	if ok {
		return "t"
	}
	return "f"
}

func (w *world) dwApply(op string) string {
	num := func(p string) int { n, _ := strconv.Atoi(strings.TrimPrefix(op, p)); return n }
	switch {
	case strings.HasPrefix(op, "D") && len(op) == 3:
		return w.dwNewStream(int(op[1]-'0'), op[2])
	case strings.HasPrefix(op, "I") && len(op) == 2:
		return w.dwInit(op[1])
	case op == "N":
		return w.dwNewStream(-1, 'n')
	case strings.HasPrefix(op, "R"):
		w.response(num("R"), false)
	case strings.HasPrefix(op, "C"):
		ci := num("C")
		if m := w.conns[ci]; m.up != nil {
			m.up.c.Close()
		}
		waitFor(settleTimeout, func() bool { return w.conns[ci].mosnClosed() })
	}
	return "-"
}

// dwValid: R targets a stream in flight on an open connection, C an open connection.
func (w *world) dwValid(op string) bool {
	num := func(p string) int { n, _ := strconv.Atoi(strings.TrimPrefix(op, p)); return n }
	switch {
	case strings.HasPrefix(op, "R"):
		si := num("R")
		if si >= len(w.streams) {
			return false
		}
		_, _, d := w.streams[si].get()
		return d == 0 && !w.conns[w.streams[si].conn].mosnClosed()
	case strings.HasPrefix(op, "C"):
		ci := num("C")
		return ci < len(w.conns) && !w.conns[ci].mosnClosed() && w.conns[ci].up != nil
	}
	return true
}

func dwRunOps(c *hx.Ctx, kind string, maxConn, maxReq uint32, next func(w *world) string) (ops, obs []string, w *world) {
	if kind == "mx" {
		registerMux()
	}
	w = newWorld(kind, maxConn, maxReq)
	defer w.close()
	for {
		op := next(w)
		if op == "" {
			break
		}
		if !w.dwValid(op) {
			continue
		}
		var res string
		if _, p := hx.Safe(func() { res = w.dwApply(op) }); p {
			res = "panic"
		}
		w.settle()
		if kind == "mx" {
			waitFor(settleTimeout, w.muxQuiet)
		}
		ops = append(ops, op)
		obs = append(obs, res+w.dwSnapshot())
	}
	return ops, obs, w
}

func dwEmit(c *hx.Ctx, prop, kind string, maxConn, maxReq uint32, ops, obs []string, w *world) {
	if len(ops) == 0 {
		return
	}
	c.Emit(prop, fmt.Sprintf("dw %s %d %d %s", kind, maxConn, maxReq, strings.Join(ops, ",")), strings.Join(obs, " "))
	for _, o := range ops {
		if o[0] == 'D' || o[0] == 'I' {
			c.Count("dw." + kind + ".op." + o)
		} else {
			c.Count("dw." + kind + ".op." + o[:1])
		}
	}
	for _, o := range obs {
		r := o[:strings.Index(o, ";")]
		if r != "-" {
			c.Count("dw." + kind + ".res." + strings.TrimRight(r, "0123456789"))
		}
	}
	c.Count(fmt.Sprintf("dw.cfg.%s.conn%d.req%d", kind, maxConn, maxReq))
	if w.timeouts > 0 {
		c.Count("dw.settle.timeout")
	}
}

func dwScripted(l []string) func(w *world) string {
	i := 0
	return func(w *world) string {
		if i >= len(l) {
			return ""
		}
		i++
		return l[i-1]
	}
}

// dwGen: a window operation, then follow-up requests that show a stuck counter / a dead Connected slot.
func dwGen(rng *hx.Rng, kind string, n int) func(w *world) string {
	i := 0
	ppWin := []string{"D0r", "D0l", "D1r", "D1l", "D3r", "D3l", "D4r", "D4l", "D0n", "D1n", "D3n", "D4n"}
	mxWin := []string{"Ir", "Il", "Ig", "In", "Ir", "Il"}
	return func(w *world) string {
		if i >= n {
			return ""
		}
		i++
		if i > n-2 {
			if kind == "mx" && i == n-1 {
				return "In"
			}
			return "N"
		}
		k := rng.Intn(10)
		switch {
		case k < 4:
			if kind == "mx" {
				return mxWin[rng.Intn(len(mxWin))]
			}
			return ppWin[rng.Intn(len(ppWin))]
		case k < 6:
			return "N"
		case k < 8:
			if len(w.streams) > 0 {
				return "R" + strconv.Itoa(rng.Intn(len(w.streams)))
			}
			return "N"
		default:
			if len(w.conns) > 0 {
				return "C" + strconv.Itoa(rng.Intn(len(w.conns)))
			}
			if kind == "mx" {
				return "In"
			}
			return "N"
		}
	}
}

var dwBoundary = map[string][][]string{
	"pp": {
		{"D0r", "N", "N"}, {"D0l", "N", "N"}, {"D1r", "N", "N"}, {"D1l", "N", "N"},
		{"D3r", "N", "N"}, {"D3l", "N", "N"}, {"D4r", "N", "N"}, {"D4l", "N", "N"},
		{"N", "R0", "D3l", "N"}, {"N", "R0", "D4r", "N"}, {"D0r", "D1l", "N", "R0", "N"},
	},
	"mx": {
		{"Ir", "In", "N", "N"}, {"Il", "In", "N", "N"}, {"Ig", "In", "N", "N"}, {"In", "N", "C0", "Ir", "In", "N"},
		{"In", "In", "N", "R0", "C0", "Il", "In", "N"},
	},
}

// RunDw: boundary scripts under max_connections x max_requests in {0,1,2}, then seeded histories.
func RunDw(c *hx.Ctx, prop string, n int) {
	lims := []uint32{0, 1, 2}
	for _, kind := range []string{"pp", "mx"} {
		for _, mc := range lims {
			for _, mr := range lims {
				for bi, b := range dwBoundary[kind] {
					if !c.Thorough() && mr != 0 && (bi+int(mc)+int(mr)+int(c.Seed))%3 != 0 {
						continue
					}
					ops, obs, w := dwRunOps(c, kind, mc, mr, dwScripted(b))
					dwEmit(c, prop, kind, mc, mr, ops, obs, w)
				}
			}
		}
	}
	rng := c.Rng.Fork()
	for i := 0; i < n; i++ {
		kind := []string{"pp", "mx"}[rng.Intn(2)]
		mc, mr := uint32(rng.Intn(3)), uint32(rng.Intn(3))
		ops, obs, w := dwRunOps(c, kind, mc, mr, dwGen(rng, kind, 3+rng.Intn(6)))
		dwEmit(c, prop, kind, mc, mr, ops, obs, w)
	}
}
