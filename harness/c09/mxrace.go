//go:build verif

package c09

// Operations of kinds `mux` / `mxw` that let a connection event land BETWEEN two statements of poolMultiplex.NewStream
// (yield hook pkg/stream/xprotocol/verif_yield_mux.go, called on the goroutine that runs NewStream):
//   W<k>  NewStream on slot k; after the stream was created on the client's connection and before the pool listens to
//         it, MOSN closes that connection (Close(NoFlush, LocalClose): the close event with the reset of every stream
//         in the connection's table is delivered synchronously)
//   V<k>  NewStream on slot k; after the state word was found Connected and before anything is created, the upstream's
//         go-away frame for that connection is received and handled (OnGoAway: state word GoAway; the connection is
//         closed at once when it carries no request)
// Everything after the hook is the ordinary N<k> operation (request sent when a stream is handed out, settle).

import (
	"time"

	"mosn.io/api"
	xstream "mosn.io/mosn/pkg/stream/xprotocol"
)

func (w *world) muxRace(op string) string {
	site := xstream.VerifMuxSitePlaced
	if op[0] == 'V' {
		site = xstream.VerifMuxSiteTested
	}
	fired := false
	xstream.VerifSetMuxYield(func(s int, id uint64) {
		if s != site || fired {
			return
		}
		fired = true
		ci := w.connIndexByID(id)
		if ci < 0 {
			return
		}
		if op[0] == 'W' {
			w.conns[ci].conn.Close(api.NoFlush, api.LocalClose)
			return
		}
		if w.conns[ci].mosnClosed() || w.conns[ci].up == nil {
			return
		}
		w.writeUp(ci, w.ppGoAway())
		waitFor(settleTimeout, func() bool {
			if w.conns[ci].mosnClosed() {
				return true
			}
			slots, _ := w.muxSlots()
			for _, sl := range slots {
				if sl.Present && sl.HasConn && sl.ConnID == id {
					return sl.State == xstream.GoAway
				}
			}
			return true
		})
		time.Sleep(2 * time.Millisecond)
	})
	defer xstream.VerifSetMuxYield(nil)
	return w.muxApply("N" + op[1:])
}
