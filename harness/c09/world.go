//go:build verif

// Package c09: the REAL HTTP/1 pool and the REAL xprotocol ping-pong pool driven by operation lists against an
// in-process loopback upstream that scripts replies, garbage and closes. After every operation the harness prints
// the hook-read books (idle list, totalClientCount, flags), Requests().Cur(), the state of every TCP connection as
// seen from both ends, and what every stream's listeners were told.
package c09

import (
	"context"
	"fmt"
	"net"
	"strings"
	"sync"
	"sync/atomic"
	"time"

	"github.com/valyala/fasthttp"
	"mosn.io/api"
	v2 "mosn.io/mosn/pkg/config/v2"
	"mosn.io/mosn/pkg/network"
	"mosn.io/mosn/pkg/protocol"
	mosnhttp "mosn.io/mosn/pkg/protocol/http"
	"mosn.io/mosn/pkg/protocol/xprotocol"
	"mosn.io/mosn/pkg/protocol/xprotocol/bolt"
	httpstream "mosn.io/mosn/pkg/stream/http"
	h2stream "mosn.io/mosn/pkg/stream/http2"
	xstream "mosn.io/mosn/pkg/stream/xprotocol"
	"mosn.io/mosn/pkg/types"
	"mosn.io/mosn/pkg/upstream/cluster"
	"mosn.io/pkg/buffer"
	"mosn.io/pkg/variable"
)

// ---------------------------------------------------------------------------------------------------------------
// ping-pong codec: bolt's wire format under its own protocol name, PoolMode() = PingPong (no built-in xprotocol is
// ping-pong; third-party codecs select the pool this way).

const ppName api.ProtocolName = "c09pp"

type ppCodec struct{ inner bolt.XCodec }

func (c *ppCodec) ProtocolName() api.ProtocolName   { return ppName }
func (c *ppCodec) ProtocolMatch() api.ProtocolMatch { return nil }
func (c *ppCodec) HTTPMapping() api.HTTPMapping     { return c.inner.HTTPMapping() }
func (c *ppCodec) NewXProtocol(ctx context.Context) api.XProtocol {
	return &ppProto{c.inner.NewXProtocol(ctx)}
}

type ppProto struct{ api.XProtocol }

func (p *ppProto) Name() api.ProtocolName { return ppName }
func (p *ppProto) PoolMode() api.PoolMode { return api.PingPong }

var regOnce sync.Once

func register() {
	regOnce.Do(func() {
		xprotocol.RegisterXProtocolAction(xstream.NewConnPool, xstream.NewStreamFactory, func(codec api.XProtocolCodec) {})
		if err := xprotocol.RegisterXProtocolCodec(&ppCodec{}); err != nil {
			panic(err)
		}
		if _, ok := protocol.GetProtocolStreamFactory(ppName); !ok {
			panic("c09pp stream factory not registered")
		}
		if _, ok := protocol.GetProtocolStreamFactory(protocol.HTTP1); !ok {
			panic("http1 stream factory not registered")
		}
	})
}

// ---------------------------------------------------------------------------------------------------------------
// loopback upstream

type upConn struct {
	c      net.Conn
	remote string
	got    int64 // bytes received
	eof    int32 // the peer (MOSN) closed / reset
	h2     *h2pConn // kind h2p: the HTTP/2 side of this connection (h2p.go)
}

type upstream struct {
	ln    net.Listener
	mu    sync.Mutex
	conns []*upConn
	serve func(uc *upConn) // what the upstream does with an accepted connection (nil: swallow the bytes)
}

func newUpstream() *upstream { return newUpstreamWith(nil) }

func newUpstreamWith(serve func(uc *upConn)) *upstream {
	ln, err := net.Listen("tcp", "127.0.0.1:0")
	if err != nil {
		panic(err)
	}
	u := &upstream{ln: ln, serve: serve}
	go func() {
		for {
			c, err := ln.Accept()
			if err != nil {
				return
			}
			uc := &upConn{c: c, remote: c.RemoteAddr().String()}
			u.mu.Lock()
			u.conns = append(u.conns, uc)
			u.mu.Unlock()
			if u.serve != nil {
				go u.serve(uc)
				continue
			}
			go func() {
				buf := make([]byte, 4096)
				for {
					n, err := c.Read(buf)
					atomic.AddInt64(&uc.got, int64(n))
					if err != nil {
						atomic.StoreInt32(&uc.eof, 1)
						return
					}
				}
			}()
		}
	}()
	return u
}

func (u *upstream) find(remote string) *upConn {
	u.mu.Lock()
	defer u.mu.Unlock()
	for _, c := range u.conns {
		if c.remote == remote {
			return c
		}
	}
	return nil
}

func (u *upstream) count() int {
	u.mu.Lock()
	defer u.mu.Unlock()
	return len(u.conns)
}

func (u *upstream) stop() {
	u.ln.Close()
	u.mu.Lock()
	defer u.mu.Unlock()
	for _, c := range u.conns {
		c.c.Close()
	}
}

// a loopback address nobody listens on: port 1 is below the ephemeral range, so no listener of this (or a parallel)
// harness process can ever be handed it; the connect is refused at once.
var deadAddr net.Addr = &net.TCPAddr{IP: net.IPv4(127, 0, 0, 1), Port: 1}

// ---------------------------------------------------------------------------------------------------------------
// recording host: the real simple host, but CreateConnection is observed (and can be pointed at a dead port)

type recHost struct {
	types.Host
	w *world
}

func (h *recHost) CreateConnection(ctx context.Context) types.CreateConnectionData {
	if h.w.failNext || h.w.timeoutNext {
		h.w.failedConnects++
		var c types.ClientConnection
		if h.w.timeoutNext {
			// a dial that TIMES OUT: the connect timeout (what the cluster's connect_timeout configures) is 1 ns, so the
			// dialer's deadline has passed before the connect is attempted (net.Dialer: "i/o timeout", Timeout() = true;
			// 20000 of 20000 trials, nothing ever reaches the listener) => MOSN delivers api.ConnectTimeout.
			c = network.NewClientConnection(time.Nanosecond, nil, h.w.up.ln.Addr(), nil)
		} else {
			c = network.NewClientConnection(500*time.Millisecond, nil, h.w.dead, nil)
		}
		d := &dialRec{}
		c.AddConnectionEventListener(d)
		h.w.lastDial = d
		return types.CreateConnectionData{Connection: c, Host: h.Host}
	}
	d := h.Host.CreateConnection(ctx)
	if h.w.winOn {
		// kind win: a listener registered AHEAD of the pool's (the pool adds its own after CreateConnection returns)
		d.Connection.AddConnectionEventListener(&winListener{w: h.w, conn: d.Connection})
	}
	h.w.mu.Lock()
	h.w.created = append(h.w.created, d.Connection)
	if h.w.concurrent {
		// concurrent phase: the listener list of a connection must not be appended to while its read loop may be
		// delivering an event, so the harness listener goes in first, before the pool sees the connection
		m := &mconn{conn: d.Connection}
		d.Connection.AddConnectionEventListener(m)
		h.w.pre = append(h.w.pre, m)
	}
	h.w.mu.Unlock()
	return d
}

// ---------------------------------------------------------------------------------------------------------------

// dialRec records the events of a connection whose dial is made to fail (registered before the pool's listener).
type dialRec struct {
	mu  sync.Mutex
	evs []api.ConnectionEvent
}

func (d *dialRec) OnEvent(e api.ConnectionEvent) {
	d.mu.Lock()
	d.evs = append(d.evs, e)
	d.mu.Unlock()
}

func (d *dialRec) saw(e api.ConnectionEvent) bool {
	d.mu.Lock()
	defer d.mu.Unlock()
	for _, x := range d.evs {
		if x == e {
			return true
		}
	}
	return false
}

type mconn struct {
	conn      types.ClientConnection
	up        *upConn
	closeEvts int32 // close events seen by the harness listener (registered last)
}

func (m *mconn) OnEvent(e api.ConnectionEvent) {
	if e.IsClose() {
		atomic.AddInt32(&m.closeEvts, 1)
	}
}

type streamRec struct {
	conn     int
	h2id     uint32 // kind h2p: the HTTP/2 stream id the upstream saw for this request
	sender   types.StreamSender
	mu       sync.Mutex
	recv     int
	decErr   int
	resets   []string
	destroys int
}

func (s *streamRec) OnReceive(ctx context.Context, headers api.HeaderMap, data buffer.IoBuffer, trailers api.HeaderMap) {
	s.mu.Lock()
	s.recv++
	s.mu.Unlock()
}
func (s *streamRec) OnDecodeError(ctx context.Context, err error, headers api.HeaderMap) {
	s.mu.Lock()
	s.decErr++
	s.mu.Unlock()
}
func (s *streamRec) OnResetStream(reason types.StreamResetReason) {
	s.mu.Lock()
	s.resets = append(s.resets, string(reason))
	s.mu.Unlock()
}
func (s *streamRec) OnDestroyStream() {
	s.mu.Lock()
	s.destroys++
	s.mu.Unlock()
}
func (s *streamRec) get() (recv int, resets []string, destroys int) {
	s.mu.Lock()
	defer s.mu.Unlock()
	return s.recv, append([]string{}, s.resets...), s.destroys
}

type world struct {
	kind           string // h1 | pp
	maxConn        uint32
	maxReq         uint32
	pool           types.ConnectionPool
	host           *recHost
	up             *upstream
	dead           net.Addr
	mu             sync.Mutex
	created        []api.Connection // every connection object handed to the pool by a successful-path CreateConnection
	conns          []*mconn         // registered (index = creation order = upstream accept order)
	streams        []*streamRec
	failNext       bool
	timeoutNext    bool     // the dial of the next CreateConnection times out
	lastDial       *dialRec // events of the last connection whose dial was made to fail
	failedConnects int
	ext            int
	timeouts       int
	proto          api.XProtocol
	concurrent     bool
	pre            []*mconn // concurrent phase: records made at creation (same order as created)
	oneways        int      // one-way requests sent
	gauge0         gaugeSet // the gauges when the world was made (a fresh cluster and host: all zero)
	winOn          bool           // kind win: every connection gets a winListener ahead of the pool's listener
	winArmed       api.Connection // the connection whose close event opens the window
	winRes         string         // result of the NewStream made inside the window
}

// gaugeSet: the upstream request_active / connection_active gauges of the host and of the cluster.
type gaugeSet struct{ reqHost, reqCluster, connHost, connCluster int64 }

func (w *world) gaugesRaw() gaugeSet {
	hs, cs := w.host.HostStats(), w.host.ClusterInfo().Stats()
	return gaugeSet{hs.UpstreamRequestActive.Count(), cs.UpstreamRequestActive.Count(),
		hs.UpstreamConnectionActive.Count(), cs.UpstreamConnectionActive.Count()}
}

// gauges: movement since the world was made.
func (w *world) gauges() gaugeSet {
	g := w.gaugesRaw()
	return gaugeSet{g.reqHost - w.gauge0.reqHost, g.reqCluster - w.gauge0.reqCluster,
		g.connHost - w.gauge0.connHost, g.connCluster - w.gauge0.connCluster}
}

var clusterSeq int64

func newWorld(kind string, maxConn, maxReq uint32) *world {
	register()
	w := &world{kind: kind, maxConn: maxConn, maxReq: maxReq, dead: deadAddr}
	if kind == "h2" {
		w.up = newUpstreamWith(h2pServe)
	} else {
		w.up = newUpstream()
	}
	addr := w.up.ln.Addr().String()
	name := fmt.Sprintf("c09-%d", atomic.AddInt64(&clusterSeq, 1))
	cc := v2.Cluster{
		Name:        name,
		ClusterType: v2.SIMPLE_CLUSTER,
		LbType:      v2.LB_RANDOM,
		CirBreThresholds: v2.CircuitBreakers{Thresholds: []v2.Thresholds{{
			MaxConnections: maxConn, MaxRequests: maxReq,
		}}},
		Hosts: []v2.Host{{HostConfig: v2.HostConfig{Address: addr}}},
	}
	info := cluster.NewCluster(cc).Snapshot().ClusterInfo()
	real := cluster.NewSimpleHost(cc.Hosts[0], info)
	w.host = &recHost{Host: real, w: w}
	w.gauge0 = w.gaugesRaw()
	ctx := variable.NewVariableContext(context.Background())
	switch kind {
	case "h1":
		w.pool = httpstream.NewConnPool(ctx, w.host)
	case "pp":
		codec := &ppCodec{}
		w.pool = xstream.NewConnPool(ctx, codec, w.host)
		w.proto = (&bolt.XCodec{}).NewXProtocol(ctx)
	case "mx":
		w.pool = xstream.NewConnPool(ctx, &mxCodec{}, w.host)
		w.proto = (&bolt.XCodec{}).NewXProtocol(ctx)
	case "h2":
		w.pool = h2stream.NewConnPool(ctx, w.host)
	default:
		panic("kind")
	}
	return w
}

func (w *world) close() {
	// (guarded: closing a connection blocks for ever when a goroutine of MOSN is stuck holding one of its locks;
	// that only happens on a broken tree, and the harness must still finish and report)
	done := make(chan struct{})
	go func() {
		for _, m := range w.conns {
			m.conn.Close(api.NoFlush, api.LocalClose)
		}
		close(done)
	}()
	select {
	case <-done:
	case <-time.After(3 * time.Second):
	}
	w.up.stop()
}

func waitFor(d time.Duration, f func() bool) bool {
	deadline := time.Now().Add(d)
	for i := 0; ; i++ {
		if f() {
			return true
		}
		if time.Now().After(deadline) {
			return false
		}
		if i < 50 {
			time.Sleep(100 * time.Microsecond)
		} else {
			time.Sleep(time.Millisecond)
		}
	}
}

const settleTimeout = 4 * time.Second

// registerNew registers connections created since the last call: waits for the upstream to accept them and
// appends the harness' own close listener (last in the listener list, so it fires after the pool's).
func (w *world) registerNew() {
	w.mu.Lock()
	created := append([]api.Connection{}, w.created...)
	w.mu.Unlock()
	for len(w.conns) < len(created) {
		c := created[len(w.conns)].(types.ClientConnection)
		m := &mconn{conn: c}
		if w.concurrent {
			w.mu.Lock()
			m = w.pre[len(w.conns)]
			w.mu.Unlock()
		}
		if w.concurrent {
			// another worker may still be inside Connect(): wait until the dial has finished
			waitFor(settleTimeout, func() bool { return c.State() != api.ConnInit })
		}
		if c.State() != api.ConnInit || c.LocalAddr() != nil {
			// (the connection reports "connected" a moment before its local address is filled in)
			if !waitFor(settleTimeout, func() bool {
				if a := c.LocalAddr(); a != nil {
					m.up = w.up.find(a.String())
				}
				return m.up != nil
			}) {
				w.timeouts++
			}
		}
		if !w.concurrent {
			c.AddConnectionEventListener(m)
		}
		w.conns = append(w.conns, m)
	}
}

func (w *world) connIndexByID(id uint64) int {
	for i, m := range w.conns {
		if m.conn.ID() == id {
			return i
		}
	}
	return -1
}

func (m *mconn) mosnClosed() bool { return m.conn.State() == api.ConnClosed }
func (m *mconn) upEOF() bool      { return m.up == nil || atomic.LoadInt32(&m.up.eof) == 1 }

// settle waits until both ends agree about every connection, every close has been delivered to all listeners,
// and every stream whose connection is gone has been destroyed.
func (w *world) settle() {
	ok := waitFor(settleTimeout, func() bool {
		for _, m := range w.conns {
			if m.mosnClosed() != m.upEOF() {
				return false
			}
			if m.mosnClosed() && atomic.LoadInt32(&m.closeEvts) == 0 {
				return false
			}
		}
		for _, s := range w.streams {
			_, _, d := s.get()
			if d == 0 && w.conns[s.conn].mosnClosed() {
				return false
			}
		}
		return true
	})
	if !ok {
		w.timeouts++
	}
}

// ---------------------------------------------------------------------------------------------------------------
// operations

func newCtx() context.Context {
	return buffer.NewBufferPoolContext(variable.NewVariableContext(context.Background()))
}

func (w *world) reqResource() types.Resource {
	return w.host.ClusterInfo().ResourceManager().Requests()
}

// newStream: pool.NewStream, and on success the request is sent at once (as the proxy does).
func (w *world) newStream(connectFails bool) string { return w.newStreamOpt(connectFails, true) }

// newStreamTimeout: pool.NewStream whose dial (if it makes one) ends in a connect TIMEOUT.
func (w *world) newStreamTimeout() string {
	w.timeoutNext = true
	defer func() { w.timeoutNext = false }()
	return w.newStreamOpt(false, true)
}

// newStreamOpt: with waitSent=false the harness does not wait until the upstream has received the request (the
// connection's own goroutines may not even have been scheduled yet when the next operation hits).
func (w *world) newStreamOpt(connectFails bool, waitSent bool) string {
	w.failNext = connectFails
	ctx := newCtx()
	rec := &streamRec{conn: -1}
	_, sender, reason := w.pool.NewStream(ctx, rec)
	w.failNext = false
	w.registerNew()
	dial := w.lastDial
	w.lastDial = nil
	if reason != "" || sender == nil {
		switch reason {
		case types.Overflow:
			return "ovf"
		case types.ConnectionFailure:
			// which failure it was is read off the event the connection delivered
			switch {
			case dial != nil && dial.saw(api.ConnectTimeout):
				return "ct"
			case dial != nil && dial.saw(api.ConnectFailed):
				return "cf"
			}
			return "cf?"
		}
		return "fail"
	}
	idv, err := variable.Get(ctx, types.VariableUpstreamConnectionID)
	if err == nil {
		if id, ok := idv.(uint64); ok {
			rec.conn = w.connIndexByID(id)
		}
	}
	if rec.conn < 0 {
		return "noconn"
	}
	rec.sender = sender
	sender.GetStream().AddEventListener(rec)
	w.streams = append(w.streams, rec)
	m := w.conns[rec.conn]
	before := int64(0)
	if m.up != nil {
		before = atomic.LoadInt64(&m.up.got)
	}
	switch w.kind {
	case "h1":
		sender.AppendHeaders(ctx, h1Request(), true)
	case "pp":
		sender.AppendHeaders(ctx, ppRequest(), true)
	}
	if m.up != nil && waitSent {
		if !waitFor(settleTimeout, func() bool {
			_, _, d := rec.get()
			return atomic.LoadInt64(&m.up.got) > before || d > 0
		}) {
			w.timeouts++
		}
	}
	return fmt.Sprintf("ok%d", rec.conn)
}

func h1Request() api.HeaderMap { return mosnhttp.RequestHeader{RequestHeader: &fasthttp.RequestHeader{}} }
func ppRequest() api.HeaderMap { return bolt.NewRpcRequest(0, nil, nil) }

func (w *world) writeUp(ci int, b []byte) {
	m := w.conns[ci]
	if m.up != nil {
		m.up.c.Write(b)
	}
}

func (w *world) ppResponse(id uint64) []byte {
	buf, err := w.proto.Encode(context.Background(), bolt.NewRpcResponse(uint32(id), bolt.ResponseStatusSuccess, nil, nil))
	if err != nil {
		panic(err)
	}
	return append([]byte{}, buf.Bytes()...)
}

func (w *world) ppGoAway() []byte {
	fr := &bolt.Request{RequestHeader: bolt.RequestHeader{Protocol: bolt.ProtocolCode, CmdType: bolt.CmdTypeRequest,
		CmdCode: bolt.CmdCodeGoAway, Version: bolt.ProtocolVersion, Codec: bolt.Hessian2Serialize}}
	buf, err := w.proto.Encode(context.Background(), fr)
	if err != nil {
		panic(err)
	}
	return append([]byte{}, buf.Bytes()...)
}

// response: the upstream answers stream si (connClose: HTTP `Connection: close`).
func (w *world) response(si int, connClose bool) {
	s := w.streams[si]
	switch w.kind {
	case "h1":
		if connClose {
			w.writeUp(s.conn, []byte("HTTP/1.1 200 OK\r\nContent-Length: 2\r\nConnection: close\r\n\r\nok"))
		} else {
			w.writeUp(s.conn, []byte("HTTP/1.1 200 OK\r\nContent-Length: 2\r\n\r\nok"))
		}
	case "pp", "mx":
		w.writeUp(s.conn, w.ppResponse(s.sender.GetStream().ID()))
	}
	// the receiver wrapper destroys the stream first and calls OnReceive second: wait for the delivery itself
	// (or for a reset, if the exchange failed instead)
	if !waitFor(settleTimeout, func() bool { r, rs, d := s.get(); return r > 0 || (d > 0 && len(rs) > 0) }) {
		w.timeouts++
	}
}

// garbage: the upstream answers stream si with bytes that are not a frame of the protocol.
func (w *world) garbage(si int) {
	s := w.streams[si]
	if w.kind == "pp" || w.kind == "mx" {
		// second byte = command type: not request / oneway / response => decode error
		w.writeUp(s.conn, append([]byte{0x01, 0x7f}, make([]byte, 40)...))
	} else {
		w.writeUp(s.conn, []byte("garbage garbage garbage garbage garbage\r\n\r\n"))
	}
	if !waitFor(settleTimeout, func() bool { _, _, d := s.get(); return d > 0 }) {
		w.timeouts++
	}
}

// goAway frame (ping-pong xprotocol) on connection ci.
func (w *world) goAway(ci int) {
	w.writeUp(ci, w.ppGoAway())
	// observable only for idle clients (hook flag); a leased client shows it at its next destroy, which is
	// ordered after this frame on the same read loop.
	waitFor(settleTimeout, func() bool {
		idle, _ := w.books()
		for _, b := range idle {
			if b.idx == ci {
				return b.closeConn
			}
		}
		return w.leasedConn(ci)
	})
	if w.leasedConn(ci) {
		time.Sleep(2 * time.Millisecond)
	}
}

func (w *world) leasedConn(ci int) bool {
	for _, s := range w.streams {
		if _, _, d := s.get(); s.conn == ci && d == 0 {
			return true
		}
	}
	return false
}

type clientBooks struct {
	idx                      int
	closed, closeConn, cwar bool
}

func (w *world) books() (idle []clientBooks, total uint64) {
	switch w.kind {
	case "h1":
		l, t, ok := httpstream.VerifPoolBooks(w.pool)
		if !ok {
			panic("not an http pool")
		}
		for _, b := range l {
			idle = append(idle, clientBooks{w.connIndexByID(b.ConnID), b.Closed, b.CloseConn, b.CloseWithActiveReq})
		}
		return idle, t
	default:
		l, t, ok := xstream.VerifPingPongBooks(w.pool)
		if !ok {
			panic("not a ping-pong pool")
		}
		for _, b := range l {
			idle = append(idle, clientBooks{w.connIndexByID(b.ConnID), b.Closed, b.ShouldCloseConn, b.CloseWithActiveReq})
		}
		return idle, t
	}
}

// reasons are reported by class: L local reset, R remote reset (unreadable response), K connection lost. Which of
// ConnectionTermination / ConnectionFailed / UpstreamReset a stream sees when its connection goes away depends on
// whether MOSN notices the loss by a read (RemoteClose) or by a failed asynchronous write — timing, not pool logic.
var reasonShort = map[string]string{
	string(types.StreamLocalReset):            "L",
	string(types.StreamRemoteReset):           "R",
	string(types.StreamConnectionTermination): "K",
	string(types.StreamConnectionFailed):      "K",
	string(types.UpstreamReset):               "K",
	string(types.StreamOverflow):              "O",
}

// snapshot: t<total>;i<idle>;q<requests cur>;n<conn states>;s<streams>
func (w *world) snapshot() string {
	idle, total := w.books()
	var sb strings.Builder
	fmt.Fprintf(&sb, "t%d;i", int64(total))
	for k, b := range idle {
		if k > 0 {
			sb.WriteByte(',')
		}
		fmt.Fprintf(&sb, "%d", b.idx)
		if b.closed {
			sb.WriteByte('x')
		}
		if b.closeConn {
			sb.WriteByte('g')
		}
		if b.cwar {
			sb.WriteByte('w')
		}
	}
	fmt.Fprintf(&sb, ";q%d;n", w.reqResource().Cur())
	for _, m := range w.conns {
		switch {
		case m.mosnClosed() && m.upEOF():
			sb.WriteByte('c')
		case !m.mosnClosed() && !m.upEOF():
			sb.WriteByte('o')
		default:
			sb.WriteByte('?')
		}
	}
	sb.WriteString(";s")
	for k, s := range w.streams {
		if k > 0 {
			sb.WriteByte(',')
		}
		r, rs, d := s.get()
		fmt.Fprintf(&sb, "%d:%d:", s.conn, r)
		for _, x := range rs {
			if sh, ok := reasonShort[x]; ok {
				sb.WriteString(sh)
			} else {
				sb.WriteByte('?')
			}
		}
		fmt.Fprintf(&sb, ":%d", d)
	}
	return sb.String()
}
