//go:build verif

package c09

// Kind `win`: histories on the REAL HTTP/1 pool and the REAL xprotocol ping-pong pool with (a) the whole ledger after
// every operation — Requests / Connections / PendingRequests resources, host and cluster upstream request_active and
// connection_active — and (b) the operation W<s>: stream s is reset locally (what the proxy does on a timeout or a
// downstream disconnect) and a SECOND NewStream is made on another goroutine INSIDE the window between "the pool closes
// the connection of the reset request" and "the pool's close handler has run": a connection event listener registered
// ahead of the pool's starts it and waits for it. The lease made there must not land on the connection being closed.
// Emitted for C09 (window, dirty reuse) and for C10 (ledger per request end cause, long histories, max_requests 1..3).

import (
	"fmt"
	"sort"
	"strconv"
	"strings"
	"sync/atomic"
	"time"

	"mosn.io/api"
	"mosn.io/mosn/pkg/types"
	"verif/harness/hx"
)

type winListener struct {
	w    *world
	conn api.Connection
}

func (l *winListener) OnEvent(e api.ConnectionEvent) {
	if !e.IsClose() {
		return
	}
	w := l.w
	if w.winArmed == nil || w.winArmed != l.conn {
		return
	}
	w.winArmed = nil
	done := make(chan string, 1)
	go func() { done <- w.newStreamOpt(false, false) }()
	select {
	case r := <-done:
		w.winRes = r
	case <-time.After(3 * time.Second):
		w.winRes = "hang"
	}
}

// winReset: local reset of live stream si with a NewStream inside the close window.
func (w *world) winReset(si int) string {
	s := w.streams[si]
	w.winArmed = w.conns[s.conn].conn
	w.winRes = "none"
	nBefore := len(w.streams)
	s.sender.GetStream().ResetStream(types.StreamLocalReset)
	w.winArmed = nil
	if len(w.streams) > nBefore {
		// the request of the inner stream: wait until the upstream has it (fresh connection) or the stream is gone
		in := w.streams[len(w.streams)-1]
		m := w.conns[in.conn]
		if m.up != nil && in.conn != s.conn {
			if !waitFor(settleTimeout, func() bool {
				_, _, d := in.get()
				return atomic.LoadInt64(&m.up.got) > 0 || d > 0
			}) {
				w.timeouts++
			}
		}
	}
	return "w:" + w.winRes
}

func (w *world) winSnapshot() string {
	idle, total := w.books()
	var sb strings.Builder
	fmt.Fprintf(&sb, "t%d;i", int64(total))
	for k, b := range idle {
		if k > 0 {
			sb.WriteByte(',')
		}
		fmt.Fprintf(&sb, "%d", b.idx)
		if b.closed {
			sb.WriteByte('x')
		}
		if b.closeConn {
			sb.WriteByte('g')
		}
	}
	rm := w.host.ClusterInfo().ResourceManager()
	g := w.gauges()
	fmt.Fprintf(&sb, ";q%d;k%d;p%d;a%d:%d;b%d:%d;n", rm.Requests().Cur(), rm.Connections().Cur(), rm.PendingRequests().Cur(),
		g.reqHost, g.reqCluster, g.connHost, g.connCluster)
	for _, m := range w.conns {
		switch {
		case m.mosnClosed() && m.upEOF():
			sb.WriteByte('c')
		case !m.mosnClosed() && !m.upEOF():
			sb.WriteByte('o')
		default:
			sb.WriteByte('?')
		}
	}
	sb.WriteString(";l")
	var live []int
	for _, s := range w.streams {
		if _, _, d := s.get(); d == 0 {
			live = append(live, s.conn)
		}
	}
	sort.Ints(live)
	for k, c := range live {
		if k > 0 {
			sb.WriteByte(',')
		}
		fmt.Fprintf(&sb, "%d", c)
	}
	return sb.String()
}

func winValid(w *world, op string) bool {
	if strings.HasPrefix(op, "W") {
		n, err := strconv.Atoi(op[1:])
		if err != nil {
			return false
		}
		for _, x := range w.liveStreams() {
			if x == n {
				return true
			}
		}
		return false
	}
	if op == "Y" {
		return true
	}
	switch {
	case op == "NT" || op == "NQ" || op == "S" || op == "Z" || strings.HasPrefix(op, "LL") || strings.HasPrefix(op, "CL") || strings.HasPrefix(op, "U"):
		return false
	}
	return w.valid(op)
}

func winRunOps(c *hx.Ctx, kind string, maxConn, maxReq uint32, next func(w *world, step int) string) (ops, obs []string, w *world) {
	w = newWorld(kind, maxConn, maxReq)
	w.winOn = true
	defer w.close()
	for step := 0; ; step++ {
		op := next(w, step)
		if op == "R^" {
			// fixed scripts: the response to the youngest request in flight
			if live := w.liveStreams(); len(live) > 0 {
				op = fmt.Sprintf("R%d", live[len(live)-1])
			}
		}
		if op == "" || !winValid(w, op) {
			break
		}
		var res string
		if strings.HasPrefix(op, "W") {
			n, _ := strconv.Atoi(op[1:])
			res = w.winReset(n)
			w.settle()
		} else if op == "Y" {
			// NewStream with the connection closed between the creation of the stream and the pool's listener (winyield.go)
			res = w.yieldNew()
			w.settle()
		} else {
			res = w.apply(op)
		}
		ops = append(ops, op)
		obs = append(obs, res+";"+w.winSnapshot())
	}
	return ops, obs, w
}

func winEmit(c *hx.Ctx, prop, kind string, maxConn, maxReq uint32, ops, obs []string, w *world) {
	if len(ops) == 0 {
		return
	}
	c.Emit(prop, fmt.Sprintf("win %s %d %d %s", kind, maxConn, maxReq, strings.Join(ops, ",")), strings.Join(obs, " "))
	for _, o := range ops {
		c.Count("win.op." + strings.TrimRight(o, "0123456789"))
	}
	for _, o := range obs {
		r := o[:strings.Index(o, ";")]
		if r != "-" {
			c.Count("win.res." + strings.TrimRight(r, "0123456789"))
		}
	}
	ln := "short"
	if len(ops) > 14 {
		ln = "long"
	}
	c.Count("win.len." + ln)
	c.Count(fmt.Sprintf("win.cfg.%s.conn%d.req%d", kind, maxConn, maxReq))
	if w.timeouts > 0 {
		c.Count("win.settle.timeout")
	}
	if len(obs) > 0 && strings.Contains(obs[len(obs)-1], ";q0;") && strings.HasSuffix(obs[len(obs)-1], ";l") {
		c.Count("win.ends_idle")
	}
}

// winGen: mostly requests and their end causes; W weighted up. `drainAt`: from that step on only ends of live requests.
func winGen(rng *hx.Rng, length, drainAt int) func(w *world, step int) string {
	return func(w *world, step int) string {
		live, open := w.liveStreams(), w.openConns()
		if step >= length || (step >= drainAt && len(live) == 0) {
			return ""
		}
		type cand struct {
			op string
			wt int
		}
		var cs []cand
		add := func(op string, wt int) { cs = append(cs, cand{op, wt}) }
		if step < drainAt {
			add("N", 30)
			add("NF", 4)
			add("Y", 7)
		}
		for _, s := range live {
			add(fmt.Sprintf("R%d", s), 12)
			add(fmt.Sprintf("L%d", s), 6)
			add(fmt.Sprintf("W%d", s), 9)
			add(fmt.Sprintf("X%d", s), 4)
			if w.kind == "h1" {
				add(fmt.Sprintf("RC%d", s), 5)
			}
		}
		if step < drainAt {
			for _, k := range open {
				add(fmt.Sprintf("CR%d", k), 3)
				if w.kind == "pp" {
					add(fmt.Sprintf("G%d", k), 2)
				}
			}
			if w.maxReq > 0 {
				add("E+", 3)
			}
		}
		if w.ext > 0 {
			add("E-", 5)
		}
		tot := 0
		for _, x := range cs {
			tot += x.wt
		}
		if tot == 0 {
			return ""
		}
		r := rng.Intn(tot)
		for _, x := range cs {
			if r < x.wt {
				return x.op
			}
			r -= x.wt
		}
		return ""
	}
}

// fixed scripts: every request end cause once, the window under every limit, leak amplification (the same end cause
// max_requests+1 times in a row: a leaked slot makes the last NewStream overflow).
var winBoundary = [][]string{
	{"N", "W0", "R1", "N", "R2"},
	{"N", "N", "W0", "W1", "R2", "R3", "N"},
	{"N", "R0", "N", "W1", "N", "R2", "R3"},
	{"N", "L0", "N", "L1", "N", "L2", "N", "L3", "N", "R4"},
	{"N", "RC0", "N", "RC1", "N", "RC2", "N", "RC3", "N", "R4"},
	{"N", "X0", "N", "X1", "N", "X2", "N", "X3", "N", "R4"},
	{"N", "CR0", "N", "CR1", "N", "CR2", "N", "CR3", "N", "R4"},
	{"N", "R0", "N", "R1", "N", "R2", "N", "R3", "N", "R4"},
	{"NF", "NF", "NF", "NF", "N", "R0"},
	{"E+", "N", "E-", "N", "L0", "N", "E+", "N", "E-", "N"},
	{"N", "G0", "R0", "N", "W1", "R2", "N"},
	{"N", "N", "L0", "RC1", "N", "N", "W2", "X3", "N", "R4", "R5"},
	// pool9: a connection closed INSIDE NewStream (stream created, pool not yet listening): fresh dial, reused idle
	// connection, max_requests+1 times in a row, with a request in flight elsewhere, with the breaker held elsewhere
	{"Y", "N", "R^"},
	{"N", "R0", "Y", "N", "R^"},
	{"Y", "Y", "Y", "Y", "N", "R^"},
	{"N", "Y", "R0", "Y", "N", "R^", "Y", "N"},
	{"E+", "Y", "E-", "Y", "N", "R^", "N", "R^", "Y", "N", "R^"},
}

// RunWin emits win histories as cases of property prop.
func RunWin(c *hx.Ctx, prop string, n int) {
	kinds := []string{"h1", "pp"}
	for _, k := range kinds {
		for _, mc := range []uint32{0, 1, 2} {
			for _, mr := range []uint32{0, 1, 2, 3} {
				for bi, b := range winBoundary {
					if !c.Thorough() && (bi+int(mc)+int(mr)+int(c.Seed))%2 != 0 {
						continue
					}
					ops, obs, w := winRunOps(c, k, mc, mr, scripted(b))
					winEmit(c, prop, k, mc, mr, ops, obs, w)
				}
			}
		}
	}
	rng := c.Rng.Fork()
	for i := 0; i < n; i++ {
		k := kinds[rng.Intn(2)]
		mc := uint32(rng.Intn(3))
		mr := uint32(rng.Intn(4))
		if rng.Chance(8) {
			mc = uint32(3 + rng.Intn(2))
		}
		length := 4 + rng.Intn(11)
		drainAt := length
		if i%6 == 0 {
			// long history that ends idle: max_requests 1..3, every request ended at the end
			mr = uint32(1 + rng.Intn(3))
			length = 30 + rng.Intn(30)
			drainAt = length - 8
		}
		ops, obs, w := winRunOps(c, k, mc, mr, winGen(rng, length, drainAt))
		winEmit(c, prop, k, mc, mr, ops, obs, w)
	}
}
