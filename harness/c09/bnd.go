//go:build verif

package c09

// Kind `bnd` (pool9): histories on the REAL xprotocol BINDING pool (pkg/stream/xprotocol/connpool_binding.go: one
// upstream connection per downstream connection, bolt frames under its own protocol name, PoolMode() = TCP) with the
// plumbing of kind `mxw` (loopback upstream, recording host, ledger after every operation).
// The downstream connection is a recording stand-in (the pool only registers a close listener on it and closes it when
// the upstream connection fails); when the pool has closed it the next request comes from a NEW downstream connection.
// ops: N NewStream | Y NewStream with the upstream connection closed by MOSN between the creation of the stream and the
//      pool's listener (yield hook) | R<s> response | L<s> local reset | CR<c> / CL<c> close by the upstream / by MOSN |
//      E+ / E- breaker slot held elsewhere.
// token: <res>;q<Requests.Cur>;a<host>:<cluster> request_active;b<host>:<cluster> connection_active;n<o|c ...>;l<in flight>

import (
	"context"
	"fmt"
	"strconv"
	"strings"
	"sync"
	"sync/atomic"

	"mosn.io/api"
	"mosn.io/mosn/pkg/protocol/xprotocol"
	"mosn.io/mosn/pkg/protocol/xprotocol/bolt"
	xstream "mosn.io/mosn/pkg/stream/xprotocol"
	"mosn.io/mosn/pkg/types"
	"mosn.io/pkg/variable"
	"verif/harness/hx"
)

const bdName api.ProtocolName = "c09bd"

type bdCodec struct{ inner bolt.XCodec }

func (c *bdCodec) ProtocolName() api.ProtocolName   { return bdName }
func (c *bdCodec) ProtocolMatch() api.ProtocolMatch { return nil }
func (c *bdCodec) HTTPMapping() api.HTTPMapping     { return c.inner.HTTPMapping() }
func (c *bdCodec) NewXProtocol(ctx context.Context) api.XProtocol {
	return &bdProto{c.inner.NewXProtocol(ctx)}
}

type bdProto struct{ api.XProtocol }

func (p *bdProto) Name() api.ProtocolName { return bdName }
func (p *bdProto) PoolMode() api.PoolMode { return api.TCP }

var bdOnce sync.Once

func registerBnd() {
	registerMux()
	bdOnce.Do(func() {
		if err := xprotocol.RegisterXProtocolCodec(&bdCodec{}); err != nil {
			panic(err)
		}
	})
}

// downConn: the downstream connection as the binding pool uses it.
type downConn struct {
	api.Connection
	id     uint64
	mu     sync.Mutex
	ls     []api.ConnectionEventListener
	closed int32
}

func (d *downConn) ID() uint64 { return d.id }
func (d *downConn) AddConnectionEventListener(l api.ConnectionEventListener) {
	d.mu.Lock()
	d.ls = append(d.ls, l)
	d.mu.Unlock()
}
func (d *downConn) Close(t api.ConnectionCloseType, e api.ConnectionEvent) error {
	if !atomic.CompareAndSwapInt32(&d.closed, 0, 1) {
		return nil
	}
	d.mu.Lock()
	ls := append([]api.ConnectionEventListener{}, d.ls...)
	d.mu.Unlock()
	for _, l := range ls {
		l.OnEvent(e)
	}
	return nil
}

var downSeq uint64 = 1 << 40

type bndWorld struct {
	*world
	down *downConn
}

func newBndWorld(maxReq uint32) *bndWorld {
	registerBnd()
	w := newWorld("mx", 0, maxReq)
	w.pool = xstream.NewConnPool(variable.NewVariableContext(context.Background()), &bdCodec{}, w.host)
	return &bndWorld{world: w}
}

func (b *bndWorld) ctx() context.Context {
	if b.down == nil || atomic.LoadInt32(&b.down.closed) == 1 {
		b.down = &downConn{id: atomic.AddUint64(&downSeq, 1)}
	}
	ctx := newCtx()
	_ = variable.Set(ctx, types.VariableConnectionID, b.down.id)
	_ = variable.Set(ctx, types.VariableConnection, api.Connection(b.down))
	return ctx
}

func (b *bndWorld) newStream(yield bool) string {
	w := b.world
	var closed api.Connection
	if yield {
		hook := w.yieldClose(&closed)
		xstream.VerifSetPoolYield(func(pool int, id uint64) {
			if pool == xstream.VerifPoolBinding {
				hook(id)
			}
		})
		defer xstream.VerifSetPoolYield(nil)
	}
	ctx := b.ctx()
	rec := &streamRec{conn: -1}
	_, sender, reason := w.pool.NewStream(ctx, rec)
	w.registerNew()
	w.markClosedUnheard(closed)
	if reason != "" || sender == nil {
		switch reason {
		case types.Overflow:
			return "ovf"
		case types.ConnectionFailure:
			return "cf"
		}
		return "fail"
	}
	// (the binding pool does not publish the upstream connection id of a reused client: the stream's connection is the
	// one bound to this downstream connection = the youngest connection the pool made)
	rec.conn = len(w.conns) - 1
	if rec.conn < 0 {
		return "noconn"
	}
	return w.handOut(rec, sender, func() { sender.AppendHeaders(ctx, ppRequest(), true) })
}

func (b *bndWorld) valid(op string) bool {
	w := b.world
	in := func(l []int, n int) bool {
		for _, x := range l {
			if x == n {
				return true
			}
		}
		return false
	}
	num := func(p string) int {
		n, err := strconv.Atoi(strings.TrimPrefix(op, p))
		if err != nil {
			return -1
		}
		return n
	}
	switch {
	case op == "N" || op == "Y" || op == "E+":
		return true
	case op == "E-":
		return w.ext > 0
	case strings.HasPrefix(op, "R"):
		return in(w.liveStreams(), num("R"))
	case strings.HasPrefix(op, "L"):
		return in(w.liveStreams(), num("L"))
	case strings.HasPrefix(op, "CR"):
		return in(w.openConns(), num("CR"))
	case strings.HasPrefix(op, "CL"):
		return in(w.openConns(), num("CL"))
	}
	return false
}

func bndRunOps(maxReq uint32, next func(w *world, step int) string) (ops, obs []string, w *world) {
	b := newBndWorld(maxReq)
	w = b.world
	defer w.close()
	for step := 0; ; step++ {
		op := next(w, step)
		if op == "R^" {
			if live := w.liveStreams(); len(live) > 0 {
				op = fmt.Sprintf("R%d", live[len(live)-1])
			}
		}
		if op == "" || !b.valid(op) {
			break
		}
		var res string
		switch op {
		case "N":
			res = b.newStream(false)
			w.settle()
		case "Y":
			res = b.newStream(true)
			w.settle()
		default:
			res = w.apply(op)
		}
		ops = append(ops, op)
		obs = append(obs, res+";"+w.mxwSnapshot())
	}
	return ops, obs, w
}

var bndBoundary = [][]string{
	{"N", "R^", "N", "R^"},
	{"N", "N", "R0", "L1", "N", "R^"},
	{"Y", "N", "R^"},
	{"N", "R^", "Y", "N", "R^"},
	{"Y", "Y", "Y", "Y", "N", "R^"},
	{"N", "Y", "N", "R^", "Y", "N"},
	{"N", "N", "Y", "N", "R^"},
	{"E+", "Y", "E-", "Y", "N", "R^", "N", "R^", "Y", "N", "R^"},
	{"N", "CR0", "N", "CL1", "N", "R^"},
	{"N", "L0", "N", "L1", "N", "L2", "N", "L3", "N", "R^"},
}

func bndGen(rng *hx.Rng, length int) func(w *world, step int) string {
	return func(w *world, step int) string {
		if step >= length {
			return ""
		}
		type cand struct {
			op string
			wt int
		}
		cs := []cand{{"N", 30}, {"Y", 10}}
		for _, s := range w.liveStreams() {
			cs = append(cs, cand{fmt.Sprintf("R%d", s), 12}, cand{fmt.Sprintf("L%d", s), 6})
		}
		for _, k := range w.openConns() {
			cs = append(cs, cand{fmt.Sprintf("CR%d", k), 3}, cand{fmt.Sprintf("CL%d", k), 2})
		}
		if w.maxReq > 0 {
			cs = append(cs, cand{"E+", 3})
		}
		if w.ext > 0 {
			cs = append(cs, cand{"E-", 5})
		}
		tot := 0
		for _, x := range cs {
			tot += x.wt
		}
		r := rng.Intn(tot)
		for _, x := range cs {
			if r < x.wt {
				return x.op
			}
			r -= x.wt
		}
		return ""
	}
}

func bndEmit(c *hx.Ctx, prop string, maxReq uint32, ops, obs []string, w *world) {
	if len(ops) == 0 {
		return
	}
	c.Emit(prop, fmt.Sprintf("bnd %d %s", maxReq, strings.Join(ops, ",")), strings.Join(obs, " "))
	for _, o := range ops {
		c.Count("bnd.op." + strings.TrimRight(o, "0123456789"))
	}
	for _, o := range obs {
		if r := o[:strings.Index(o, ";")]; r != "-" {
			c.Count("bnd.res." + strings.TrimRight(r, "0123456789"))
		}
	}
	c.Count(fmt.Sprintf("bnd.cfg.req%d", maxReq))
	if w.timeouts > 0 {
		c.Count("bnd.settle.timeout")
	}
}

// RunBnd emits bnd histories as cases of property prop.
func RunBnd(c *hx.Ctx, prop string, n int) {
	for _, mr := range []uint32{0, 1, 2, 3} {
		for _, b := range bndBoundary {
			ops, obs, w := bndRunOps(mr, scripted(b))
			bndEmit(c, prop, mr, ops, obs, w)
		}
	}
	rng := c.Rng.Fork()
	for i := 0; i < n; i++ {
		mr := uint32(rng.Intn(4))
		ops, obs, w := bndRunOps(mr, bndGen(rng, 4+rng.Intn(12)))
		bndEmit(c, prop, mr, ops, obs, w)
	}
}
