//go:build verif

package c09

// Operation `Y` of kind `win` (pool9): NewStream on the REAL HTTP/1 pool / xprotocol ping-pong pool with a connection
// event landing BETWEEN two statements of the pool's NewStream (yield hooks pkg/stream/http/verif_yield_pool.go,
// pkg/stream/xprotocol/verif_yield_pools.go, called on the goroutine that runs NewStream): after the stream was created
// on the client's connection (fresh dial or reuse of an idle connection) and before the pool listens to it, MOSN closes
// that connection (Close(NoFlush, LocalClose): the close event is delivered synchronously to every listener — the pool's
// close handler and the codec client, which resets what is in the connection's stream table).
// A stream that is handed out all the same gets its request sent at once, as the proxy does.
// Result token: y:<ok<conn> | cf | ovf>.

import (
	"fmt"
	"sync/atomic"
	"time"

	"mosn.io/api"
	httpstream "mosn.io/mosn/pkg/stream/http"
	xstream "mosn.io/mosn/pkg/stream/xprotocol"
	"mosn.io/mosn/pkg/types"
	"mosn.io/pkg/variable"
)

// yieldClose returns the hook body: closes (once) the connection with the given id.
func (w *world) yieldClose(closed *api.Connection) func(id uint64) {
	fired := false
	return func(id uint64) {
		if fired {
			return
		}
		fired = true
		w.mu.Lock()
		for _, c := range w.created {
			if c.ID() == id {
				*closed = c
			}
		}
		w.mu.Unlock()
		if *closed != nil {
			(*closed).Close(api.NoFlush, api.LocalClose)
		}
	}
}

// markClosedUnheard: a connection closed before the harness' own listener was registered (a fresh dial closed inside
// NewStream) delivered its close event to the listeners of that moment only.
func (w *world) markClosedUnheard(closed api.Connection) {
	if closed == nil {
		return
	}
	for _, m := range w.conns {
		if api.Connection(m.conn) == closed && m.mosnClosed() && atomic.LoadInt32(&m.closeEvts) == 0 {
			atomic.StoreInt32(&m.closeEvts, 1)
		}
	}
}

// handOut: the stream NewStream returned is registered and its request is sent; a stream on a closed connection that
// nobody ends within a short while is given up by the harness (the pool's ledger is what the observation shows).
func (w *world) handOut(rec *streamRec, sender types.StreamSender, send func()) string {
	rec.sender = sender
	sender.GetStream().AddEventListener(rec)
	w.streams = append(w.streams, rec)
	m := w.conns[rec.conn]
	before := int64(0)
	if m.up != nil {
		before = atomic.LoadInt64(&m.up.got)
	}
	send()
	if m.mosnClosed() {
		if !waitFor(300*time.Millisecond, func() bool { _, _, d := rec.get(); return d > 0 }) {
			// never told of its end: the stream was reset before anybody listened. Give it up (not in flight any more
			// for the harness; what the pool still holds for it stays visible in the counters).
			rec.OnDestroyStream()
		}
	} else if m.up != nil {
		if !waitFor(settleTimeout, func() bool {
			_, _, d := rec.get()
			return atomic.LoadInt64(&m.up.got) > before || d > 0
		}) {
			w.timeouts++
		}
	}
	return fmt.Sprintf("ok%d", rec.conn)
}

// yieldNew: NewStream with the connection closed by MOSN between the creation of the stream and the pool's listener.
func (w *world) yieldNew() string {
	var closed api.Connection
	hook := w.yieldClose(&closed)
	switch w.kind {
	case "h1":
		httpstream.VerifSetPoolYield(hook)
		defer httpstream.VerifSetPoolYield(nil)
	case "pp":
		xstream.VerifSetPoolYield(func(pool int, id uint64) {
			if pool == xstream.VerifPoolPingPong {
				hook(id)
			}
		})
		defer xstream.VerifSetPoolYield(nil)
	default:
		panic("yield: kind")
	}
	ctx := newCtx()
	rec := &streamRec{conn: -1}
	_, sender, reason := w.pool.NewStream(ctx, rec)
	w.registerNew()
	w.markClosedUnheard(closed)
	w.lastDial = nil
	if reason != "" || sender == nil {
		switch reason {
		case types.Overflow:
			return "y:ovf"
		case types.ConnectionFailure:
			return "y:cf"
		}
		return "y:fail"
	}
	if idv, err := variable.Get(ctx, types.VariableUpstreamConnectionID); err == nil {
		if id, ok := idv.(uint64); ok {
			rec.conn = w.connIndexByID(id)
		}
	}
	if rec.conn < 0 {
		return "y:noconn"
	}
	return "y:" + w.handOut(rec, sender, func() {
		switch w.kind {
		case "h1":
			sender.AppendHeaders(ctx, h1Request(), true)
		case "pp":
			sender.AppendHeaders(ctx, ppRequest(), true)
		}
	})
}
