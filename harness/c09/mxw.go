//go:build verif

package c09

// Kinds `mxw` / `h2w`: histories on the REAL xprotocol multiplex pool and the REAL HTTP/2 pool in the style of kind
// `win`: after EVERY operation the request / connection ledger (Requests().Cur(), host:cluster upstream request_active,
// host:cluster upstream connection_active, the state of every TCP connection as agreed by both ends, the connections
// with a request in flight). max_requests 0..3; every request end cause (response, local reset, garbage => connection
// lost / RST_STREAM, connection closed by the upstream / by MOSN, go-away then drain, refused dial, breaker refusal)
// repeated max_requests+1 times (a leaked slot makes the last NewStream overflow, a slot given back twice shows as a
// counter below the ambient load); connection loss with SEVERAL requests in flight; long random histories that end idle.
// The operations are those of kinds `mux` / `h2p` (muxApply / h2Apply). Emitted for C09 and C10.

import (
	"fmt"
	"sort"
	"strings"

	"mosn.io/mosn/pkg/protocol"
	"verif/harness/hx"
)

func (w *world) mxwSnapshot() string {
	var sb strings.Builder
	g := w.gauges()
	fmt.Fprintf(&sb, "q%d;a%d:%d;b%d:%d;n", w.reqResource().Cur(), g.reqHost, g.reqCluster, g.connHost, g.connCluster)
	for _, m := range w.conns {
		switch {
		case m.mosnClosed() && m.upEOF():
			sb.WriteByte('c')
		case !m.mosnClosed() && !m.upEOF():
			sb.WriteByte('o')
		default:
			sb.WriteByte('?')
		}
	}
	sb.WriteString(";l")
	var live []int
	for _, s := range w.streams {
		if _, _, d := s.get(); d == 0 {
			live = append(live, s.conn)
		}
	}
	sort.Ints(live)
	for k, c := range live {
		if k > 0 {
			sb.WriteByte(',')
		}
		fmt.Fprintf(&sb, "%d", c)
	}
	return sb.String()
}

// mxwResolve: abstract script tokens -> concrete operations on the world as it is ("" = skip).
//   I connect slot 0 | IF refused dial | N request (slot 0) | NF (h2w) request whose dial is refused
//   R / L / X  response / local reset / garbage or RST_STREAM on the OLDEST request in flight; R! L! the NEWEST
//   CR / CL / G  on the NEWEST open connection | E+ / E-
func mxwResolve(w *world, h2 bool, tok string) string {
	live, open := w.liveStreams(), w.openConns()
	switch tok {
	case "I":
		if h2 {
			return ""
		}
		return "I0"
	case "I1":
		if h2 {
			return ""
		}
		return "I1"
	case "IF":
		if h2 {
			return "NF"
		}
		return "IF0"
	case "N":
		if h2 {
			return "N"
		}
		return "N0"
	case "N1":
		if h2 {
			return "N"
		}
		return "N1"
	case "NF":
		if h2 {
			return "NF"
		}
		return "IF0"
	case "W", "V":
		// a connection event inside NewStream (multiplex pool only, see mxrace.go)
		if h2 {
			return ""
		}
		return tok + "0"
	case "R", "L", "X":
		if len(live) == 0 {
			return ""
		}
		return fmt.Sprintf("%s%d", tok, live[0])
	case "R!", "L!":
		if len(live) == 0 {
			return ""
		}
		return fmt.Sprintf("%s%d", tok[:1], live[len(live)-1])
	case "CR", "CL", "G":
		if len(open) == 0 {
			return ""
		}
		return fmt.Sprintf("%s%d", tok, open[len(open)-1])
	case "E+":
		return "E+"
	case "E-":
		if w.ext <= 0 {
			return ""
		}
		return "E-"
	}
	return tok
}

func mxwRunOps(c *hx.Ctx, h2 bool, maxConn, maxReq uint32, next func(w *world, step int) string) (ops, obs []string, w *world) {
	if h2 {
		register()
		if _, ok := protocol.GetProtocolStreamFactory(protocol.HTTP2); !ok {
			panic("http2 stream factory not registered")
		}
		w = newWorld("h2", 0, maxReq)
	} else {
		registerMux()
		w = newWorld("mx", maxConn, maxReq)
	}
	hung := false
	defer func() {
		if hung {
			w.up.stop()
		} else {
			w.close()
		}
	}()
	for step := 0; ; step++ {
		op := next(w, step)
		if op == "" {
			break
		}
		if op == "skip" {
			continue
		}
		if (h2 && !w.h2Valid(op)) || (!h2 && !w.muxValid(op)) {
			break
		}
		before := w.timeouts
		var res string
		if h2 {
			res = w.h2Apply(op)
		} else {
			res = w.muxApply(op)
		}
		ops = append(ops, op)
		if res == "hang" {
			obs = append(obs, res)
			hung = true
			break
		}
		obs = append(obs, res+";"+w.mxwSnapshot())
		if w.timeouts > before {
			hung = true
			break
		}
	}
	return ops, obs, w
}

func mxwEmit(c *hx.Ctx, prop string, h2 bool, maxConn, maxReq uint32, ops, obs []string, w *world) {
	if len(ops) == 0 {
		return
	}
	kind := "mxw"
	if h2 {
		kind = "h2w"
		c.Emit(prop, fmt.Sprintf("h2w %d %s", maxReq, strings.Join(ops, ",")), strings.Join(obs, " "))
	} else {
		c.Emit(prop, fmt.Sprintf("mxw %d %d %s", maxConn, maxReq, strings.Join(ops, ",")), strings.Join(obs, " "))
	}
	for _, o := range ops {
		c.Count(kind + ".op." + strings.TrimRight(o, "0123456789"))
	}
	maxLive := 0
	for i, o := range obs {
		k := strings.Index(o, ";")
		if k < 0 {
			continue
		}
		if r := o[:k]; r != "-" {
			c.Count(kind + ".res." + strings.TrimRight(r, "0123456789"))
		}
		l := o[strings.LastIndex(o, ";l")+2:]
		n := 0
		if l != "" {
			n = strings.Count(l, ",") + 1
		}
		if n > maxLive {
			maxLive = n
		}
		// a connection lost / closed with several requests in flight
		if i > 0 && (strings.HasPrefix(ops[i], "C") || strings.HasPrefix(ops[i], "X")) {
			pl := obs[i-1][strings.LastIndex(obs[i-1], ";l")+2:]
			pn := 0
			if pl != "" {
				pn = strings.Count(pl, ",") + 1
			}
			if pn-n >= 2 {
				c.Count(kind + ".lost_with_several_in_flight")
			}
		}
	}
	c.Count(fmt.Sprintf("%s.max_in_flight.%d", kind, maxLive))
	if len(ops) > 20 {
		c.Count(kind + ".len.long")
	} else {
		c.Count(kind + ".len.short")
	}
	c.Count(fmt.Sprintf("%s.cfg.conn%d.req%d", kind, maxConn, maxReq))
	if last := obs[len(obs)-1]; strings.HasSuffix(last, ";l") && strings.Contains(last, ";a0:0;") {
		c.Count(kind + ".ends_idle")
	}
	if w.timeouts > 0 {
		c.Count(kind + ".settle.timeout")
	}
}

func mxwScripted(h2 bool, toks []string) func(w *world, step int) string {
	return func(w *world, step int) string {
		if step >= len(toks) {
			return ""
		}
		op := mxwResolve(w, h2, toks[step])
		if op == "" {
			return "skip"
		}
		return op
	}
}

// mxwScripts: every end cause repeated maxReq+1 times; connection loss with several requests in flight.
func mxwScripts(maxReq uint32) [][]string {
	rep := int(maxReq) + 1
	var out [][]string
	for _, cause := range [][]string{{"R"}, {"L"}, {"X", "I"}, {"CR", "I"}, {"CL", "I"}, {"G", "R", "I"}, {"G", "L", "I"}} {
		s := []string{"I"}
		for i := 0; i < rep; i++ {
			s = append(s, "N")
			s = append(s, cause...)
		}
		s = append(s, "N", "R", "N", "R")
		out = append(out, s)
	}
	k := int(maxReq)
	if k == 0 || k > 3 {
		k = 3
	}
	for _, lose := range []string{"CR", "CL", "X", "G"} {
		s := []string{"I"}
		for round := 0; round < 2; round++ {
			for i := 0; i < k; i++ {
				s = append(s, "N")
			}
			s = append(s, "N", lose) // one more than the breaker admits when maxReq = k
			if lose == "G" {
				for i := 0; i < k; i++ {
					s = append(s, "R")
				}
			}
			s = append(s, "I")
		}
		s = append(s, "N", "R", "N", "L", "N", "R")
		out = append(out, s)
	}
	// connection closed between the creation of the stream and the listener registration, maxReq+1 times (a leaked slot
	// makes the last NewStream overflow); the same with a request in flight; go-away between the state test and the
	// creation of the stream, on an idle connection (closed at once) and on one with a request in flight (served)
	{
		s := []string{"I"}
		for i := 0; i < rep; i++ {
			s = append(s, "W", "I")
		}
		out = append(out, append(s, "N", "R", "N", "R"))
		s = []string{"I"}
		for i := 0; i < rep; i++ {
			s = append(s, "V", "I")
		}
		out = append(out, append(s, "N", "R", "N", "R"))
	}
	out = append(out,
		[]string{"I", "N", "W", "I", "N", "R", "W", "I", "N", "R"},
		[]string{"I", "N", "V", "R", "R", "I", "N", "V", "L", "L", "I", "N", "R"},
		[]string{"E+", "I", "W", "I", "V", "I", "N", "E-", "R", "W", "N", "I", "N", "R"},
		[]string{"IF", "N", "IF", "N", "I", "N", "R", "N", "R"},
		[]string{"E+", "I", "N", "E-", "N", "N", "R", "N", "E+", "N", "L", "E-", "N", "R!", "R"},
		[]string{"I", "N", "N", "G", "I", "N", "R", "R", "R", "N", "R"},
		[]string{"I", "N", "N", "G", "N", "L", "L", "I", "N", "R"},
		[]string{"I", "I1", "N", "N1", "N", "CR", "N", "N1", "I1", "N1", "R", "R", "R", "R"},
		[]string{"I", "N", "N", "L!", "CR", "I", "N", "N", "X", "I", "N", "R"},
	)
	return out
}

func mxwGen(rng *hx.Rng, h2 bool, length, drainAt int) func(w *world, step int) string {
	return func(w *world, step int) string {
		live, open := w.liveStreams(), w.openConns()
		if step >= length+20 || (step >= drainAt && len(live) == 0 && w.ext == 0) {
			return ""
		}
		type cand struct {
			op string
			wt int
		}
		var cs []cand
		add := func(op string, wt int) { cs = append(cs, cand{op, wt}) }
		if step < drainAt {
			if h2 {
				add("N", 34)
				add("NF", 3)
			} else {
				slots, _ := w.muxSlots()
				for k := range slots {
					add(fmt.Sprintf("I%d", k), 8)
					add(fmt.Sprintf("IF%d", k), 1)
					add(fmt.Sprintf("N%d", k), 34/len(slots)+1)
					add(fmt.Sprintf("W%d", k), 3)
					add(fmt.Sprintf("V%d", k), 3)
				}
			}
			for _, k := range open {
				add(fmt.Sprintf("CR%d", k), 3)
				add(fmt.Sprintf("CL%d", k), 2)
				add(fmt.Sprintf("G%d", k), 3)
			}
			if w.maxReq > 0 {
				add("E+", 3)
			}
		}
		for _, s := range live {
			add(fmt.Sprintf("R%d", s), 10)
			add(fmt.Sprintf("L%d", s), 5)
			add(fmt.Sprintf("X%d", s), 2)
		}
		if w.ext > 0 {
			add("E-", 5)
		}
		tot := 0
		for _, x := range cs {
			tot += x.wt
		}
		if tot == 0 {
			return ""
		}
		r := rng.Intn(tot)
		for _, x := range cs {
			if r < x.wt {
				return x.op
			}
			r -= x.wt
		}
		return ""
	}
}

// RunMxw emits mxw / h2w histories as cases of property prop.
func RunMxw(c *hx.Ctx, prop string, n int) {
	for _, h2 := range []bool{false, true} {
		for _, mr := range []uint32{0, 1, 2, 3} {
			mcs := []uint32{1, 2}
			if h2 {
				mcs = []uint32{0}
			}
			for _, mc := range mcs {
				for bi, b := range mxwScripts(mr) {
					if !c.Thorough() && (mc == 2 || mr == 0) && (bi+int(c.Seed))%3 != 0 {
						continue
					}
					ops, obs, w := mxwRunOps(c, h2, mc, mr, mxwScripted(h2, b))
					mxwEmit(c, prop, h2, mc, mr, ops, obs, w)
				}
			}
		}
	}
	rng := c.Rng.Fork()
	for i := 0; i < n; i++ {
		h2 := rng.Intn(2) == 0
		mc := uint32(1 + rng.Intn(2))
		if h2 {
			mc = 0
		}
		mr := uint32(rng.Intn(4))
		length := 4 + rng.Intn(12)
		drainAt := length
		if i%4 == 0 {
			mr = uint32(1 + rng.Intn(3))
			length = 30 + rng.Intn(30)
			drainAt = length - 6
		}
		ops, obs, w := mxwRunOps(c, h2, mc, mr, mxwGen(rng, h2, length, drainAt))
		mxwEmit(c, prop, h2, mc, mr, ops, obs, w)
	}
}
