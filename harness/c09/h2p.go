//go:build verif

package c09

// h2p.go — kind `h2p`: the REAL HTTP/2 connection pool (pkg/stream/http2 connPool: one client per pool, replaced after
// GOAWAY) driven by operation lists against a scripted in-process HTTP/2 upstream speaking raw frames (x/net framer):
// it answers requests, resets streams, sends a graceful GOAWAY (NO_ERROR, last stream id 2^31-1) and keeps or closes
// each of its connections when the script says so. After every operation the line carries the pool's client (hook:
// connection + go-away mark), the host / cluster upstream connection_active gauges, Requests().Cur(), the host /
// cluster upstream request_active gauges, the state of every TCP connection the upstream accepted (as agreed by both
// ends) and what every stream's listeners were told; the result of NewStream names the connection that serves it.
//
// op tokens:
//   N / NF / NT     pool.NewStream (+ send the request); a dial made by it succeeds / is refused / times out
//   R<s> L<s> X<s>  upstream answers stream s / the proxy resets stream s / the upstream resets stream s (RST_STREAM)
//   G<c>            graceful GOAWAY on open connection c (the connection stays open)
//   CR<c> / CL<c>   open connection c is closed by the upstream / by MOSN
//   S / Z           pool.Shutdown() / pool.Close()
//   E+ / E-         another pool of the cluster takes / gives back a slot of the shared requests breaker

import (
	"bytes"
	"fmt"
	"io"
	"strconv"
	"strings"
	"sync"
	"sync/atomic"

	xh2 "golang.org/x/net/http2"
	xhpack "golang.org/x/net/http2/hpack"
	"mosn.io/api"
	"mosn.io/mosn/pkg/protocol"
	h2stream "mosn.io/mosn/pkg/stream/http2"
	"mosn.io/mosn/pkg/types"
	"mosn.io/pkg/variable"
	"verif/harness/hx"
)

// h2pConn: the upstream's side of one HTTP/2 connection.
type h2pConn struct {
	fr   *xh2.Framer
	wmu  sync.Mutex
	enc  *xhpack.Encoder
	hb   bytes.Buffer
	mu   sync.Mutex
	reqs []uint32 // stream ids of the requests received, in arrival order
	acks map[[8]byte]bool
	seq  uint64
}

// h2pServe is the upstream's connection handler: preface, SETTINGS, then it records requests and PING acks.
func h2pServe(uc *upConn) {
	c := uc.c
	hc := &h2pConn{fr: xh2.NewFramer(c, c), acks: map[[8]byte]bool{}}
	hc.fr.AllowIllegalWrites = true
	hc.enc = xhpack.NewEncoder(&hc.hb)
	pre := make([]byte, len(xh2.ClientPreface))
	if _, err := io.ReadFull(c, pre); err != nil || string(pre) != xh2.ClientPreface {
		atomic.StoreInt32(&uc.eof, 1)
		c.Close()
		return
	}
	hc.wmu.Lock()
	hc.fr.WriteSettings()
	hc.wmu.Unlock()
	uc.h2 = hc
	atomic.AddInt64(&uc.got, 1) // (got > 0: the HTTP/2 side is up)
	for {
		f, err := hc.fr.ReadFrame()
		if err != nil {
			atomic.StoreInt32(&uc.eof, 1)
			return
		}
		switch x := f.(type) {
		case *xh2.SettingsFrame:
			if !x.IsAck() {
				hc.wmu.Lock()
				hc.fr.WriteSettingsAck()
				hc.wmu.Unlock()
			}
		case *xh2.HeadersFrame:
			hc.mu.Lock()
			hc.reqs = append(hc.reqs, x.StreamID)
			hc.mu.Unlock()
		case *xh2.PingFrame:
			if x.IsAck() {
				hc.mu.Lock()
				hc.acks[x.Data] = true
				hc.mu.Unlock()
			} else {
				hc.wmu.Lock()
				hc.fr.WritePing(true, x.Data)
				hc.wmu.Unlock()
			}
		}
	}
}

func (hc *h2pConn) nreqs() int {
	hc.mu.Lock()
	defer hc.mu.Unlock()
	return len(hc.reqs)
}

func (hc *h2pConn) respond(id uint32) {
	hc.wmu.Lock()
	defer hc.wmu.Unlock()
	hc.hb.Reset()
	hc.enc.WriteField(xhpack.HeaderField{Name: ":status", Value: "200"})
	hc.enc.WriteField(xhpack.HeaderField{Name: "x-up", Value: "1"})
	hc.fr.WriteHeaders(xh2.HeadersFrameParam{StreamID: id, BlockFragment: append([]byte(nil), hc.hb.Bytes()...), EndHeaders: true, EndStream: true})
}

func (hc *h2pConn) rst(id uint32) {
	hc.wmu.Lock()
	defer hc.wmu.Unlock()
	hc.fr.WriteRSTStream(id, xh2.ErrCodeCancel)
}

func (hc *h2pConn) goAway() {
	hc.wmu.Lock()
	defer hc.wmu.Unlock()
	hc.fr.WriteGoAway(1<<31-1, xh2.ErrCodeNo, nil)
}

// barrier: a PING after what was written; its ack shows that MOSN's read loop has handled everything before it.
func (hc *h2pConn) barrier(alive func() bool) bool {
	var d [8]byte
	hc.mu.Lock()
	hc.seq++
	n := hc.seq
	hc.mu.Unlock()
	copy(d[:], fmt.Sprintf("%08d", n%100000000))
	hc.wmu.Lock()
	hc.fr.WritePing(false, d)
	hc.wmu.Unlock()
	return waitFor(settleTimeout, func() bool {
		hc.mu.Lock()
		ok := hc.acks[d]
		hc.mu.Unlock()
		return ok || !alive()
	})
}

// ---------------------------------------------------------------------------------------------------------------

func (w *world) h2conn(ci int) *h2pConn {
	m := w.conns[ci]
	if m.up == nil {
		return nil
	}
	waitFor(settleTimeout, func() bool { return atomic.LoadInt64(&m.up.got) > 0 || m.upEOF() })
	return m.up.h2
}

func (w *world) h2Snapshot() string {
	present, id, goaway, ok := h2stream.VerifH2PoolBooks(w.pool)
	if !ok {
		panic("not an HTTP/2 pool")
	}
	var sb strings.Builder
	sb.WriteString("p")
	switch {
	case !present:
		sb.WriteByte('-')
	default:
		ci := w.connIndexByID(id)
		if ci < 0 {
			sb.WriteByte('?')
		} else {
			sb.WriteString(strconv.Itoa(ci))
		}
		if goaway {
			sb.WriteByte('g')
		}
	}
	g := w.gauges()
	fmt.Fprintf(&sb, ";c%d:%d;q%d;a%d:%d;n", g.connHost, g.connCluster, w.reqResource().Cur(), g.reqHost, g.reqCluster)
	for _, m := range w.conns {
		switch {
		case m.mosnClosed() && m.upEOF():
			sb.WriteByte('c')
		case !m.mosnClosed() && !m.upEOF():
			sb.WriteByte('o')
		default:
			sb.WriteByte('?')
		}
	}
	sb.WriteString(";s")
	for k, s := range w.streams {
		if k > 0 {
			sb.WriteByte(',')
		}
		r, rs, d := s.get()
		fmt.Fprintf(&sb, "%d:%d:", s.conn, r)
		for _, x := range rs {
			if sh, ok := reasonShort[x]; ok {
				sb.WriteString(sh)
			} else {
				sb.WriteByte('?')
			}
		}
		fmt.Fprintf(&sb, ":%d", d)
	}
	return sb.String()
}


func (w *world) h2Apply(op string) string {
	num := func(p string) int { n, _ := strconv.Atoi(strings.TrimPrefix(op, p)); return n }
	alive := func(ci int) func() bool { return func() bool { return !w.conns[ci].mosnClosed() && !w.conns[ci].upEOF() } }
	res := "-"
	switch {
	case op == "N" || op == "NF" || op == "NT":
		w.failNext, w.timeoutNext = op == "NF", op == "NT"
		ctx := newCtx()
		variable.SetString(ctx, types.VarMethod, "GET")
		variable.SetString(ctx, types.VarHost, "up.test")
		variable.SetString(ctx, types.VarPath, "/p")
		rec := &streamRec{conn: -1}
		var sender types.StreamSender
		var reason types.PoolFailureReason
		if !muxGuard(func() { _, sender, reason = w.pool.NewStream(ctx, rec) }) {
			return "hang"
		}
		w.failNext, w.timeoutNext = false, false
		w.lastDial = nil
		w.registerNew()
		if reason != "" || sender == nil {
			switch reason {
			case types.Overflow:
				res = "ovf"
			case types.ConnectionFailure:
				res = "cf"
			default:
				res = "fail"
			}
			break
		}
		if idv, err := variable.Get(ctx, types.VariableUpstreamConnectionID); err == nil {
			if id, ok := idv.(uint64); ok {
				rec.conn = w.connIndexByID(id)
			}
		}
		if rec.conn < 0 {
			res = "noconn"
			break
		}
		rec.sender = sender
		sender.GetStream().AddEventListener(rec)
		w.streams = append(w.streams, rec)
		hc := w.h2conn(rec.conn)
		before := 0
		if hc != nil {
			before = hc.nreqs()
		}
		if !muxGuard(func() { sender.AppendHeaders(ctx, protocol.CommonHeader{"x-req": "1"}, true) }) {
			return "hang"
		}
		if hc != nil {
			if !waitFor(settleTimeout, func() bool {
				_, _, d := rec.get()
				return hc.nreqs() > before || d > 0
			}) {
				w.timeouts++
			}
			hc.mu.Lock()
			if len(hc.reqs) > before {
				rec.h2id = hc.reqs[before]
			}
			hc.mu.Unlock()
		}
		res = fmt.Sprintf("ok%d", rec.conn)
	case strings.HasPrefix(op, "R"):
		s := w.streams[num("R")]
		if hc := w.h2conn(s.conn); hc != nil && s.h2id != 0 {
			hc.respond(s.h2id)
		}
		if !waitFor(settleTimeout, func() bool { r, rs, d := s.get(); return r > 0 || (d > 0 && len(rs) > 0) }) {
			w.timeouts++
		}
	case strings.HasPrefix(op, "X"):
		s := w.streams[num("X")]
		if hc := w.h2conn(s.conn); hc != nil && s.h2id != 0 {
			hc.rst(s.h2id)
		}
		if !waitFor(settleTimeout, func() bool { _, _, d := s.get(); return d > 0 }) {
			w.timeouts++
		}
	case strings.HasPrefix(op, "L"):
		st := w.streams[num("L")].sender.GetStream()
		if !muxGuard(func() { st.ResetStream(types.StreamLocalReset) }) {
			return "hang"
		}
	case strings.HasPrefix(op, "G"):
		ci := num("G")
		if hc := w.h2conn(ci); hc != nil {
			hc.goAway()
			if !hc.barrier(alive(ci)) {
				w.timeouts++
			}
		}
	case strings.HasPrefix(op, "CR"):
		m := w.conns[num("CR")]
		if m.up != nil {
			atomic.StoreInt32(&m.up.eof, 1)
			m.up.c.Close()
		}
	case strings.HasPrefix(op, "CL"):
		cn := w.conns[num("CL")].conn
		if !muxGuard(func() { cn.Close(api.NoFlush, api.LocalClose) }) {
			return "hang"
		}
	case op == "S":
		w.pool.Shutdown()
	case op == "Z":
		if !muxGuard(func() { w.pool.Close() }) {
			return "hang"
		}
	case op == "E+":
		w.reqResource().Increase()
		w.ext++
	case op == "E-":
		w.reqResource().Decrease()
		w.ext--
	default:
		panic("bad h2p op " + op)
	}
	w.settle()
	return res
}

func (w *world) h2Valid(op string) bool {
	in := func(l []int, n int) bool {
		for _, x := range l {
			if x == n {
				return true
			}
		}
		return false
	}
	num := func(p string) int {
		n, err := strconv.Atoi(strings.TrimPrefix(op, p))
		if err != nil {
			return -1
		}
		return n
	}
	switch {
	case op == "N" || op == "NF" || op == "NT" || op == "S" || op == "Z" || op == "E+":
		return true
	case op == "E-":
		return w.ext > 0
	case strings.HasPrefix(op, "R"):
		return in(w.liveStreams(), num("R"))
	case strings.HasPrefix(op, "X"):
		return in(w.liveStreams(), num("X"))
	case strings.HasPrefix(op, "L"):
		return in(w.liveStreams(), num("L"))
	case strings.HasPrefix(op, "G"):
		return in(w.openConns(), num("G"))
	case strings.HasPrefix(op, "CR"):
		return in(w.openConns(), num("CR"))
	case strings.HasPrefix(op, "CL"):
		return in(w.openConns(), num("CL"))
	}
	return false
}

func h2RunOps(c *hx.Ctx, maxReq uint32, next func(w *world, step int) string) (ops, obs []string, w *world) {
	register()
	if _, ok := protocol.GetProtocolStreamFactory(protocol.HTTP2); !ok {
		panic("http2 stream factory not registered")
	}
	w = newWorld("h2", 0, maxReq)
	hung := false
	defer func() {
		if hung {
			w.up.stop()
		} else {
			w.close()
		}
	}()
	for step := 0; ; step++ {
		op := next(w, step)
		if op == "" || !w.h2Valid(op) {
			break
		}
		before := w.timeouts
		res := w.h2Apply(op)
		ops = append(ops, op)
		if res == "hang" {
			obs = append(obs, res)
			hung = true
			break
		}
		obs = append(obs, res+";"+w.h2Snapshot())
		if w.timeouts > before {
			hung = true
			break
		}
	}
	return ops, obs, w
}

func h2Emit(c *hx.Ctx, prop string, maxReq uint32, ops, obs []string, w *world) {
	if len(ops) == 0 {
		return
	}
	c.Emit(prop, fmt.Sprintf("h2p %d %s", maxReq, strings.Join(ops, ",")), strings.Join(obs, " "))
	gone := false
	for _, o := range ops {
		c.Count("h2p.op." + strings.TrimRight(o, "0123456789"))
		if strings.HasPrefix(o, "G") {
			gone = true
		}
		if gone && strings.HasPrefix(o, "N") {
			c.Count("h2p.request-after-goaway")
			gone = false
		}
	}
	for _, o := range obs {
		r := o
		if k := strings.Index(o, ";"); k >= 0 {
			r = o[:k]
		}
		if r != "-" {
			c.Count("h2p.result." + strings.TrimRight(r, "0123456789"))
		}
	}
	// the drained connection closes AFTER a request came since its GOAWAY (late close), or before any (early close)
	for i, o := range ops {
		if !strings.HasPrefix(o, "CR") && !strings.HasPrefix(o, "CL") {
			continue
		}
		cn := o[2:]
		told, asked := false, false
		for _, p := range ops[:i] {
			if p == "G"+cn {
				told = true
			} else if told && strings.HasPrefix(p, "N") {
				asked = true
			}
		}
		switch {
		case told && asked:
			c.Count("h2p.close-of-goaway-connection.late")
		case told:
			c.Count("h2p.close-of-goaway-connection.early")
		}
	}
	c.Count(fmt.Sprintf("h2p.cfg.req%d", maxReq))
	c.Count(fmt.Sprintf("h2p.conns.%d", len(w.conns)))
	if w.timeouts > 0 {
		c.Count("h2p.settle.timeout")
	}
}

func h2Gen(rng *hx.Rng, length int) func(w *world, step int) string {
	return func(w *world, step int) string {
		if step >= length {
			return ""
		}
		live, open := w.liveStreams(), w.openConns()
		type cand struct {
			op string
			wt int
		}
		var cs []cand
		add := func(op string, wt int) { cs = append(cs, cand{op, wt}) }
		add("N", 26)
		add("NF", 2)
		add("NT", 2)
		for _, s := range live {
			add(fmt.Sprintf("R%d", s), 8)
			add(fmt.Sprintf("L%d", s), 3)
			add(fmt.Sprintf("X%d", s), 2)
		}
		for _, k := range open {
			add(fmt.Sprintf("G%d", k), 9)
			add(fmt.Sprintf("CR%d", k), 5)
			add(fmt.Sprintf("CL%d", k), 2)
		}
		add("S", 1)
		add("Z", 2)
		if w.maxReq > 0 {
			add("E+", 4)
			if w.ext > 0 {
				add("E-", 5)
			}
		}
		tot := 0
		for _, x := range cs {
			tot += x.wt
		}
		r := rng.Intn(tot)
		for _, x := range cs {
			if r < x.wt {
				return x.op
			}
			r -= x.wt
		}
		return "N"
	}
}

// fixed histories: GOAWAY, replacement, late / early close of the drained connection, failed replacement dial
var h2Boundary = [][]string{
	{"N", "R0", "G0", "N", "R1", "CR0", "N", "R2", "CR1"},
	{"N", "G0", "N", "R0", "R1", "CR0", "CR1"},
	{"N", "R0", "G0", "CR0", "N", "R1"},
	{"N", "R0", "G0", "CR0"},
	{"N", "G0", "N", "G1", "N", "CR0", "CR1", "N", "CL2"},
	{"N", "G0", "NF", "N", "R0", "R1", "CR0"},
	{"N", "G0", "N", "CL0", "N", "Z", "N", "R2"},
	{"E+", "N", "E-", "N", "G0", "E+", "N", "E-", "N", "R1", "L0"},
	{"N", "N", "X0", "G0", "N", "L1", "CR0", "R2"},
	{"N", "CR0", "N", "CL1", "N", "Z", "N", "R3"},
	{"NT", "N", "S", "G0", "G0", "Z", "N"},
	{"N", "G0", "N", "CR1", "N", "CR0", "N", "R3"},
	{"N", "G0", "N", "G1", "CR0", "CR1", "NF", "N", "R3", "Z"},
}

// RunH2 runs the HTTP/2 pool histories and emits them as cases of property prop (C09; C10 reuses them for the gauges).
func RunH2(c *hx.Ctx, prop string, n int) {
	lims := []uint32{0, 1, 2}
	for _, mr := range lims {
		for bi, b := range h2Boundary {
			if !c.Thorough() && (bi+int(mr)+int(c.Seed))%2 != 0 && bi > 3 {
				continue
			}
			ops, obs, w := h2RunOps(c, mr, scripted(b))
			h2Emit(c, prop, mr, ops, obs, w)
		}
	}
	rng := c.Rng.Fork()
	for i := 0; i < n; i++ {
		mr := uint32(rng.Intn(3))
		length := 3 + rng.Intn(10)
		ops, obs, w := h2RunOps(c, mr, h2Gen(rng, length))
		h2Emit(c, prop, mr, ops, obs, w)
	}
}
