//go:build verif

package c09

import (
	"fmt"
	"os"
	"path/filepath"
	"sort"
	"strconv"
	"strings"
	"sync/atomic"
	"time"

	"mosn.io/api"
	"mosn.io/mosn/pkg/types"
	"verif/harness/hx"
)

func init() { hx.Register("C09", Run) }

// op tokens:
//   N / NF        pool.NewStream (+ send the request); NF: a connect attempted by this call fails
//   NT            pool.NewStream; a connect attempted by this call TIMES OUT (api.ConnectTimeout instead of ConnectFailed)
//   NQ            like N, but the next operation follows at once (the harness does not wait for the request to arrive)
//   R<s> / RC<s>  upstream answers stream s (RC: HTTP `Connection: close`)
//   X<s>          upstream answers stream s with garbage
//   L<s>          local reset of live stream s (what the proxy does on timeout / downstream reset)
//   LL<s>         late local reset + destroy of an already finished stream s (must change nothing)
//   G<c>          go-away frame on open connection c (ping-pong xprotocol only)
//   U<c>          reply with an unknown request id on open connection c (ping-pong xprotocol only)
//   CR<c> / CL<c> open connection c is closed by the upstream / by MOSN
//   S             pool.Shutdown()
//   Z             pool.Close()
//   E+ / E-       another pool of the same cluster takes / gives back one slot of the shared requests breaker

func (w *world) liveStreams() []int {
	var r []int
	for i, s := range w.streams {
		if _, _, d := s.get(); d == 0 {
			r = append(r, i)
		}
	}
	return r
}
func (w *world) doneStreams() []int {
	var r []int
	for i, s := range w.streams {
		if _, _, d := s.get(); d > 0 {
			r = append(r, i)
		}
	}
	return r
}
func (w *world) openConns() []int {
	var r []int
	for i, m := range w.conns {
		if !m.mosnClosed() && !m.upEOF() {
			r = append(r, i)
		}
	}
	return r
}

// apply executes one op on the real pool; returns the result token ("-" when the op has no result).
func (w *world) apply(op string) string {
	num := func(p string) int { n, _ := strconv.Atoi(strings.TrimPrefix(op, p)); return n }
	res := "-"
	switch {
	case op == "N":
		res = w.newStream(false)
	case op == "NF":
		res = w.newStream(true)
	case op == "NT":
		res = w.newStreamTimeout()
	case op == "NQ":
		res = w.newStreamOpt(false, false)
	case strings.HasPrefix(op, "RC"):
		w.response(num("RC"), true)
	case strings.HasPrefix(op, "R"):
		w.response(num("R"), false)
	case strings.HasPrefix(op, "X"):
		w.garbage(num("X"))
	case strings.HasPrefix(op, "LL"):
		s := w.streams[num("LL")]
		s.sender.GetStream().ResetStream(types.StreamLocalReset)
		s.sender.GetStream().DestroyStream()
	case strings.HasPrefix(op, "L"):
		w.streams[num("L")].sender.GetStream().ResetStream(types.StreamLocalReset)
	case strings.HasPrefix(op, "G"):
		w.goAway(num("G"))
	case strings.HasPrefix(op, "U"):
		w.writeUp(num("U"), w.ppResponse(0xdead00))
		time.Sleep(3 * time.Millisecond)
	case strings.HasPrefix(op, "CR"):
		m := w.conns[num("CR")]
		if m.up != nil {
			// the upstream's own view flips at once (its reader goroutine would notice only later, and settle()
			// must not see "both ends open" in between)
			atomic.StoreInt32(&m.up.eof, 1)
			m.up.c.Close()
		}
	case strings.HasPrefix(op, "CL"):
		w.conns[num("CL")].conn.Close(api.NoFlush, api.LocalClose)
	case op == "S":
		w.pool.Shutdown()
	case op == "Z":
		done := make(chan struct{})
		go func() { w.pool.Close(); close(done) }()
		select {
		case <-done:
		case <-time.After(3 * time.Second):
			return "hang" // pool.Close() does not return: the history ends here (the books can no longer be read)
		}
	case op == "E+":
		w.reqResource().Increase()
		w.ext++
	case op == "E-":
		w.reqResource().Decrease()
		w.ext--
	default:
		panic("bad op " + op)
	}
	w.settle()
	return res
}

// valid says whether op may be applied in the current (observed) state; the generator only emits valid ops and a
// replayed case stops at the first invalid one (cannot happen for cases this harness printed).
func (w *world) valid(op string) bool {
	in := func(l []int, n int) bool {
		for _, x := range l {
			if x == n {
				return true
			}
		}
		return false
	}
	num := func(p string) int {
		n, err := strconv.Atoi(strings.TrimPrefix(op, p))
		if err != nil {
			return -1
		}
		return n
	}
	switch {
	case op == "N" || op == "NF" || op == "NT" || op == "NQ" || op == "S" || op == "E+" || op == "Z":
		return true
	case op == "E-":
		return w.ext > 0
	case strings.HasPrefix(op, "RC"):
		return w.kind == "h1" && in(w.liveStreams(), num("RC"))
	case strings.HasPrefix(op, "R"):
		return in(w.liveStreams(), num("R"))
	case strings.HasPrefix(op, "X"):
		return in(w.liveStreams(), num("X"))
	case strings.HasPrefix(op, "LL"):
		return in(w.doneStreams(), num("LL"))
	case strings.HasPrefix(op, "L"):
		return in(w.liveStreams(), num("L"))
	case strings.HasPrefix(op, "G"):
		return w.kind == "pp" && in(w.openConns(), num("G"))
	case strings.HasPrefix(op, "U"):
		return w.kind == "pp" && in(w.openConns(), num("U"))
	case strings.HasPrefix(op, "CR"):
		return in(w.openConns(), num("CR"))
	case strings.HasPrefix(op, "CL"):
		return in(w.openConns(), num("CL"))
	}
	return false
}

// runOps drives one history; returns the executed ops and one observation token per op.
func runOps(c *hx.Ctx, kind string, maxConn, maxReq uint32, next func(w *world, step int) string) (ops, obs []string, w *world) {
	w = newWorld(kind, maxConn, maxReq)
	hung := false
	defer func() {
		if hung {
			w.up.stop() // pool.Close() still holds the pool's mutex: closing MOSN-side connections would block too
		} else {
			w.close()
		}
	}()
	for step := 0; ; step++ {
		op := next(w, step)
		if op == "" || !w.valid(op) {
			break
		}
		res := w.apply(op)
		ops = append(ops, op)
		if res == "hang" {
			obs = append(obs, res)
			hung = true
			break
		}
		obs = append(obs, res+";"+w.snapshot())
	}
	return ops, obs, w
}

func emit(c *hx.Ctx, kind string, maxConn, maxReq uint32, ops, obs []string, w *world) {
	if len(ops) == 0 {
		return
	}
	c.Emit("C09", fmt.Sprintf("pool %s %d %d %s", kind, maxConn, maxReq, strings.Join(ops, ",")), strings.Join(obs, " "))
	for _, o := range ops {
		c.Count("op." + strings.TrimRight(o, "0123456789"))
	}
	for _, o := range obs {
		r := o
		if k := strings.Index(o, ";"); k >= 0 {
			r = o[:k]
		}
		if r != "-" {
			c.Count("newStream." + strings.TrimRight(r, "0123456789"))
		}
	}
	c.Count(fmt.Sprintf("len=%02d", len(ops)))
	c.Count(fmt.Sprintf("cfg.%s.conn%d.req%d", kind, maxConn, maxReq))
	if w.timeouts > 0 {
		c.Count("settle.timeout")
	}
	reused := false
	seen := map[int]int{}
	for _, s := range w.streams {
		seen[s.conn]++
		if seen[s.conn] > 1 {
			reused = true
		}
	}
	if reused {
		c.Count("history.with_reuse")
	}
}

// gen picks the next op: mostly valid and progress-making, weighted towards leases, completions and faults.
func gen(c *hx.Ctx, rng *hx.Rng, length int) func(w *world, step int) string {
	return func(w *world, step int) string {
		if step >= length {
			return ""
		}
		live, done, open := w.liveStreams(), w.doneStreams(), w.openConns()
		type cand struct {
			op string
			wt int
		}
		var cs []cand
		add := func(op string, wt int) { cs = append(cs, cand{op, wt}) }
		add("N", 27)
		add("NQ", 4)
		add("NF", 5)
		add("NT", 6)
		for _, s := range live {
			add(fmt.Sprintf("R%d", s), 14)
			add(fmt.Sprintf("L%d", s), 6)
			add(fmt.Sprintf("X%d", s), 4)
			if w.kind == "h1" {
				add(fmt.Sprintf("RC%d", s), 4)
			}
		}
		for _, s := range done {
			add(fmt.Sprintf("LL%d", s), 1)
		}
		for _, k := range open {
			add(fmt.Sprintf("CR%d", k), 3)
			add(fmt.Sprintf("CL%d", k), 2)
			if w.kind == "pp" {
				add(fmt.Sprintf("G%d", k), 3)
				add(fmt.Sprintf("U%d", k), 1)
			}
		}
		add("S", 2)
		add("Z", 2)
		if w.maxReq > 0 {
			add("E+", 5)
			if w.ext > 0 {
				add("E-", 6)
			}
		}
		tot := 0
		for _, x := range cs {
			tot += x.wt
		}
		r := rng.Intn(tot)
		for _, x := range cs {
			if r < x.wt {
				return x.op
			}
			r -= x.wt
		}
		return "N"
	}
}

func scripted(ops []string) func(w *world, step int) string {
	return func(w *world, step int) string {
		if step >= len(ops) {
			return ""
		}
		return ops[step]
	}
}

func runScript(c *hx.Ctx, kind string, maxConn, maxReq uint32, script []string) {
	ops, obs, w := runOps(c, kind, maxConn, maxReq, scripted(script))
	emit(c, kind, maxConn, maxReq, ops, obs, w)
}

// fixed histories: the boundaries the property names (overflow + reset + reuse in one history).
var boundary = [][]string{
	{"N", "N", "R0", "N", "R1", "R2"},
	{"N", "E+", "N", "R0", "N", "N"},
	{"E+", "N", "E-", "N", "N", "R0", "N"},
	{"E+", "E+", "N", "N", "E-", "E-", "N", "N", "N"},
	{"N", "L0", "N", "R1", "N"},
	{"N", "X0", "N", "R1", "N", "R2"},
	{"N", "R0", "N", "X1", "N", "R2", "N"},
	{"N", "CR0", "N", "R1", "CR1", "N"},
	{"N", "R0", "CR0", "N", "R1", "CL1", "N"},
	{"N", "CL0", "N", "R1", "N", "R2"},
	{"NF", "N", "NF", "R0", "NF", "N"},
	{"NT", "NT", "N", "NT", "R0", "NT", "N"},
	{"NT", "NT", "NT", "N", "N", "NF", "NT", "N"},
	{"N", "NT", "L0", "NT", "NT", "N", "R1", "N"},
	{"E+", "NT", "E-", "NT", "N", "CR0", "NT", "N"},
	{"N", "N", "N", "R0", "R1", "N", "N", "N"},
	{"N", "R0", "S", "N", "R1", "N", "R2"},
	{"N", "S", "R0", "N", "R1"},
	{"N", "N", "N", "R1", "R0", "Z", "N", "R2", "Z", "N"},
	{"N", "R0", "LL0", "N", "R1", "LL0", "LL1", "N"},
	{"N", "RC0", "N", "R1", "N"},
	{"N", "G0", "R0", "N", "R1", "G1", "N", "R2", "N"},
	{"N", "R0", "G0", "N", "R1", "N"},
	{"N", "U0", "R0", "U0", "N", "R1"},
	{"N", "N", "L0", "X1", "N", "N", "R2", "R3", "N", "N"},
	{"N", "R0", "N", "R1", "N", "R2", "N", "R3", "N", "R4", "N", "R5"},
	{"NQ", "CL0", "NQ", "CR1", "NQ", "L2", "NQ", "R3", "NQ", "X4", "N", "R5"},
}

func Run(c *hx.Ctx) {
	// replay of explicit cases: mosnh C09 <kind> <maxConn> <maxReq> <ops>
	if len(c.Args) == 4 && c.Args[0] == "mux" {
		mc, _ := strconv.Atoi(c.Args[1])
		mr, _ := strconv.Atoi(c.Args[2])
		ops, obs, w := muxRunOps(c, uint32(mc), uint32(mr), scripted(strings.Split(c.Args[3], ",")))
		muxEmit(c, uint32(mc), uint32(mr), ops, obs, w)
		return
	}
	if len(c.Args) == 3 && c.Args[0] == "h2p" {
		mr, _ := strconv.Atoi(c.Args[1])
		ops, obs, w := h2RunOps(c, uint32(mr), scripted(strings.Split(c.Args[2], ",")))
		h2Emit(c, "C09", uint32(mr), ops, obs, w)
		return
	}
	if len(c.Args) == 4 && c.Args[0] == "mxw" {
		mc, _ := strconv.Atoi(c.Args[1])
		mr, _ := strconv.Atoi(c.Args[2])
		ops, obs, w := mxwRunOps(c, false, uint32(mc), uint32(mr), scripted(strings.Split(c.Args[3], ",")))
		mxwEmit(c, "C09", false, uint32(mc), uint32(mr), ops, obs, w)
		return
	}
	if len(c.Args) == 3 && c.Args[0] == "h2w" {
		mr, _ := strconv.Atoi(c.Args[1])
		ops, obs, w := mxwRunOps(c, true, 0, uint32(mr), scripted(strings.Split(c.Args[2], ",")))
		mxwEmit(c, "C09", true, 0, uint32(mr), ops, obs, w)
		return
	}
	if len(c.Args) == 5 && c.Args[0] == "win" {
		mc, _ := strconv.Atoi(c.Args[2])
		mr, _ := strconv.Atoi(c.Args[3])
		ops, obs, w := winRunOps(c, c.Args[1], uint32(mc), uint32(mr), scripted(strings.Split(c.Args[4], ",")))
		winEmit(c, "C09", c.Args[1], uint32(mc), uint32(mr), ops, obs, w)
		return
	}
	if len(c.Args) == 5 && c.Args[0] == "dw" {
		mc, _ := strconv.Atoi(c.Args[2])
		mr, _ := strconv.Atoi(c.Args[3])
		ops, obs, w := dwRunOps(c, c.Args[1], uint32(mc), uint32(mr), dwScripted(strings.Split(c.Args[4], ",")))
		dwEmit(c, "C09", c.Args[1], uint32(mc), uint32(mr), ops, obs, w)
		return
	}
	if len(c.Args) == 4 {
		mc, _ := strconv.Atoi(c.Args[1])
		mr, _ := strconv.Atoi(c.Args[2])
		runScript(c, c.Args[0], uint32(mc), uint32(mr), strings.Split(c.Args[3], ","))
		return
	}
	// corpus first
	files, _ := filepath.Glob("../../corpus/C09/*.txt")
	sort.Strings(files)
	for _, f := range files {
		b, err := os.ReadFile(f)
		if err != nil {
			continue
		}
		for _, line := range strings.Split(string(b), "\n") {
			t := strings.Fields(line)
			if len(t) >= 6 && t[0] == "C09" && t[1] == "pool" {
				mc, _ := strconv.Atoi(t[3])
				mr, _ := strconv.Atoi(t[4])
				runScript(c, t[2], uint32(mc), uint32(mr), strings.Split(t[5], ","))
				c.Count("corpus")
			}
			if len(t) >= 6 && t[0] == "C09" && t[1] == "win" {
				mc, _ := strconv.Atoi(t[3])
				mr, _ := strconv.Atoi(t[4])
				ops, obs, w := winRunOps(c, t[2], uint32(mc), uint32(mr), scripted(strings.Split(t[5], ",")))
				winEmit(c, "C09", t[2], uint32(mc), uint32(mr), ops, obs, w)
				c.Count("corpus")
			}
			if len(t) >= 4 && t[0] == "C09" && t[1] == "h2p" {
				mr, _ := strconv.Atoi(t[2])
				ops, obs, w := h2RunOps(c, uint32(mr), scripted(strings.Split(t[3], ",")))
				h2Emit(c, "C09", uint32(mr), ops, obs, w)
				c.Count("corpus")
			}
			if len(t) >= 5 && t[0] == "C09" && t[1] == "mux" {
				mc, _ := strconv.Atoi(t[2])
				mr, _ := strconv.Atoi(t[3])
				ops, obs, w := muxRunOps(c, uint32(mc), uint32(mr), scripted(strings.Split(t[4], ",")))
				muxEmit(c, uint32(mc), uint32(mr), ops, obs, w)
				c.Count("corpus")
			}
		}
	}
	kinds := []string{"h1", "pp"}
	// boundary scripts under every limit combination (invalid steps cut the script short)
	lims := []uint32{0, 1, 2}
	for _, k := range kinds {
		for _, mc := range lims {
			for _, mr := range lims {
				for bi, b := range boundary {
					if !c.Thorough() && (bi+int(mc)+int(mr)+int(c.Seed))%3 != 0 {
						continue
					}
					runScript(c, k, mc, mr, b)
				}
			}
		}
	}
	// the close window of OnDestroyStream and the whole ledger (win.go)
	RunWin(c, "C09", c.N(160, 1500))
	// the multiplex pool (mux.go), one-way requests included
	runMux(c)
	// the HTTP/2 pool against the scripted HTTP/2 upstream (h2p.go)
	RunH2(c, "C09", c.N(220, 2500))
	// the multiplex and HTTP/2 pools' ledger per request end cause (mxw.go)
	RunMxw(c, "C09", c.N(120, 1200))
	// pool9: the binding pool's ledger with a connection closed inside NewStream (bnd.go)
	RunBnd(c, "C09", c.N(30, 300))
	// overlapping ResetStream / DestroyStream calls on one real BaseStream, every interleaving (once.go)
	runOnce(c)
	// concurrent phase (support): books equal the truth again once concurrent leases, resets and closes have settled
	for i := 0; i < c.N(6, 40); i++ {
		k := kinds[i%2]
		runConc(c, k, uint32(c.Rng.Intn(4)), uint32(c.Rng.Intn(4)), 2+c.Rng.Intn(5), 6+c.Rng.Intn(10), c.Seed*131+uint64(i))
	}
	// seeded random histories. hx.NewRng(k+1) is hx.NewRng(k) advanced by one draw, so neighbouring seeds would
	// replay the same histories once their draw positions re-align: fork a well-mixed generator first.
	rng := c.Rng.Fork()
	n := c.N(500, 6000)
	for i := 0; i < n; i++ {
		k := kinds[rng.Intn(2)]
		mc := uint32(rng.Intn(3))
		mr := uint32(rng.Intn(3))
		if rng.Chance(8) {
			mc = uint32(3 + rng.Intn(2))
		}
		length := 3 + rng.Intn(10)
		ops, obs, w := runOps(c, k, mc, mr, gen(c, rng, length))
		emit(c, k, mc, mr, ops, obs, w)
	}
	// pool10: connection events inside the dial windows and the NewStream accounting window (dialwin.go)
	RunDw(c, "C09", c.N(60, 900))
}
