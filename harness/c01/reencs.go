//go:build verif

package c01

// `reencm` cases driven through the REAL xprotocol client stream layer (bolt, boltv2): what upstreamRequest does for the
// first try and for a retry on another host. A request frame is decoded by the real codec, modified once through the
// XFrame / HeaderMap API, and then for every try a NEW client stream on one of two real client connections (host A, host
// B, alternating) gets AppendHeaders(frame) + AppendData(body) with the SAME frame object and the SAME body buffer
// (xStream.AppendData -> frame.SetData, endStream -> SetRequestId(stream id) -> Encode -> connection.Write). Observed: the
// frame each upstream peer received. Same line format and same judgement as the codec-level reencm cases (the ids are the
// stream ids the stream connections assigned).

import (
	"context"
	"fmt"
	"net"
	"strings"
	"sync"
	"time"

	"mosn.io/api"
	"mosn.io/mosn/pkg/network"
	"mosn.io/mosn/pkg/protocol/xprotocol"
	"mosn.io/mosn/pkg/stream"
	xstream "mosn.io/mosn/pkg/stream/xprotocol"
	"mosn.io/mosn/pkg/types"
	"mosn.io/pkg/buffer"
	"mosn.io/pkg/variable"

	"verif/harness/framegen"
	"verif/harness/hx"
)

type reencsCodec struct {
	inner api.XProtocolCodec
	name  api.ProtocolName
}

func (c *reencsCodec) ProtocolName() api.ProtocolName   { return c.name }
func (c *reencsCodec) ProtocolMatch() api.ProtocolMatch { return nil }
func (c *reencsCodec) HTTPMapping() api.HTTPMapping     { return c.inner.HTTPMapping() }
func (c *reencsCodec) NewXProtocol(ctx context.Context) api.XProtocol {
	return &reencsProto{c.inner.NewXProtocol(ctx), c.name}
}

type reencsProto struct {
	api.XProtocol
	name api.ProtocolName
}

func (p *reencsProto) Name() api.ProtocolName { return p.name }

var reencsOnce sync.Once

func reencsRegister() {
	reencsOnce.Do(func() {
		xprotocol.RegisterXProtocolAction(xstream.NewConnPool, xstream.NewStreamFactory, func(codec api.XProtocolCodec) {})
		for _, n := range []string{"bolt", "boltv2"} {
			if err := xprotocol.RegisterXProtocolCodec(&reencsCodec{framegen.Codec(n), api.ProtocolName("c01r7" + n)}); err != nil {
				panic(err)
			}
		}
	})
}

type reencsRecv struct{}

func (reencsRecv) OnReceive(ctx context.Context, headers api.HeaderMap, data buffer.IoBuffer, trailers api.HeaderMap) {
}
func (reencsRecv) OnDecodeError(ctx context.Context, err error, headers api.HeaderMap) {}

type reencsGoAway struct{}

func (reencsGoAway) OnGoAway() {}

// reencsHost: one upstream host = listener + accepted peer collecting what arrives + MOSN's client connection and
// stream client to it.
type reencsHost struct {
	ln   net.Listener
	mu   sync.Mutex
	wire []byte
	srv  net.Conn
	conn types.ClientConnection
	cl   stream.Client
}

func reencsNewHost(name string) *reencsHost {
	ln, err := net.Listen("tcp", "127.0.0.1:0")
	if err != nil {
		panic(err)
	}
	h := &reencsHost{ln: ln}
	acc := make(chan struct{})
	go func() {
		c, err := ln.Accept()
		if err != nil {
			close(acc)
			return
		}
		h.mu.Lock()
		h.srv = c
		h.mu.Unlock()
		close(acc)
		buf := make([]byte, 65536)
		for {
			n, err := c.Read(buf)
			h.mu.Lock()
			h.wire = append(h.wire, buf[:n]...)
			h.mu.Unlock()
			if err != nil {
				return
			}
		}
	}()
	ctx := variable.NewVariableContext(context.Background())
	h.conn = network.NewClientConnection(2*time.Second, nil, ln.Addr(), nil)
	h.cl = stream.NewStreamClient(ctx, api.ProtocolName("c01r7"+name), h.conn, nil)
	if h.cl == nil {
		panic("no stream client")
	}
	h.cl.SetStreamConnectionEventListener(reencsGoAway{})
	if err := h.cl.Connect(); err != nil {
		panic(err)
	}
	<-acc
	return h
}

func (h *reencsHost) close() {
	h.conn.Close(api.NoFlush, api.LocalClose)
	h.ln.Close()
	h.mu.Lock()
	if h.srv != nil {
		h.srv.Close()
	}
	h.mu.Unlock()
}

// take waits for one whole frame on the wire (decoded with the real codec on a copy) and removes it.
func (h *reencsHost) take(proto api.XProtocol) ([]byte, bool) {
	deadline := time.Now().Add(3 * time.Second)
	for time.Now().Before(deadline) {
		h.mu.Lock()
		cp := append([]byte{}, h.wire...)
		h.mu.Unlock()
		if len(cp) > 0 {
			b := buffer.NewIoBufferBytes(cp)
			var cmd interface{}
			var err error
			hx.Safe(func() { cmd, err = proto.Decode(newStreamCtx(), b) })
			if err != nil {
				return nil, false
			}
			if cmd != nil {
				n := len(cp) - b.Len()
				h.mu.Lock()
				out := append([]byte{}, h.wire[:n]...)
				h.wire = h.wire[n:]
				h.mu.Unlock()
				return out, true
			}
		}
		time.Sleep(200 * time.Microsecond)
	}
	return nil, false
}

func reencsOps(r *hx.Rng, hdrKeys [][]byte) []op {
	var ops []op
	n := r.Pick([]int{0, 1, 1, 2, 2, 3})
	for i := 0; i < n; i++ {
		switch r.Intn(4) {
		case 0, 1:
			k := r.Bytes(1 + r.Intn(6))
			if len(hdrKeys) > 0 && r.Bool() {
				k = hdrKeys[r.Intn(len(hdrKeys))]
			}
			ops = append(ops, op{kind: 'S', k: k, v: r.Bytes(r.Intn(40))})
		case 2:
			k := r.Bytes(1 + r.Intn(3))
			if len(hdrKeys) > 0 && r.Chance(70) {
				k = hdrKeys[r.Intn(len(hdrKeys))]
			}
			ops = append(ops, op{kind: 'D', k: k})
		default:
			ops = append(ops, op{kind: 'B', v: r.Bytes(r.Pick([]int{0, 1, 2, 50, 255, 256, 300, 3000}))})
		}
	}
	return ops
}

func runReencStream(c *hx.Ctx) {
	reencsRegister()
	r := c.Rng.Fork()
	for _, name := range []string{"bolt", "boltv2"} {
		proto := framegen.Codec(name).NewXProtocol(context.Background())
		hosts := []*reencsHost{reencsNewHost(name), reencsNewHost(name)}
		for i := 0; i < c.N(150, 1500); i++ {
			f := framegen.Gen(r, name, true)
			if len(f.Bytes) > 8000 || !framegen.Valid(f) {
				c.Count("reencs.gen.skipped")
				continue
			}
			ctx := newStreamCtx()
			in := append([]byte{}, f.Bytes...)
			rb := buffer.NewIoBufferBytes(in)
			var cmd interface{}
			var err error
			if _, p := hx.Safe(func() { cmd, err = proto.Decode(ctx, rb) }); p || err != nil || cmd == nil {
				c.Count("reencs.gen.undecodable")
				continue
			}
			frame, ok := cmd.(api.XFrame)
			if !ok || frame.GetStreamType() == api.Response {
				c.Count("reencs.gen.not-a-request")
				continue
			}
			dec := fmt.Sprintf("frame:%d", len(f.Bytes)-rb.Len())
			for j := range in {
				in[j] = 0xEE
			}
			rb.Reset()
			var keys [][]byte
			frame.GetHeader().Range(func(k, v string) bool {
				keys = append(keys, []byte(k))
				return true
			})
			ops := reencsOps(r, keys)
			body := frame.GetData()
			for _, o := range ops {
				switch o.kind {
				case 'S':
					frame.GetHeader().Set(string(o.k), string(o.v))
				case 'D':
					frame.GetHeader().Del(string(o.k))
				case 'B':
					// a stream filter replaced the request body: the proxy passes the new buffer to every try
					body = buffer.NewIoBufferBytes(append([]byte{}, o.v...))
				}
			}
			n := 2 + r.Intn(2)
			var ids, res []string
			broken := false
			for k := 0; k < n; k++ {
				h := hosts[k%2]
				sctx := newStreamCtx()
				var snd types.StreamSender
				var e1, e2 error
				_, p := hx.Safe(func() {
					snd = h.cl.NewStream(sctx, reencsRecv{})
					e1 = snd.AppendHeaders(sctx, frame.GetHeader(), body == nil)
					if e1 == nil && body != nil {
						e2 = snd.AppendData(sctx, body, true)
					}
				})
				id := uint64(0)
				if snd != nil {
					id = snd.GetStream().ID()
				}
				ids = append(ids, fmt.Sprint(id))
				switch {
				case p:
					res = append(res, "panic:-")
					broken = true
				case e1 != nil || e2 != nil:
					res = append(res, "err:-")
				default:
					got, ok := h.take(proto)
					if !ok {
						res = append(res, "werr:-")
						broken = true
					} else {
						res = append(res, "ok:"+hx.Hex(got))
					}
				}
				if snd != nil {
					hx.Safe(func() { snd.GetStream().ResetStream(types.StreamLocalReset) })
				}
			}
			c.Emit("C01", fmt.Sprintf("reencm %s %s %s %s", strings.Join(ids, ","), name, opsTok(ops), hx.Hex(f.Bytes)), dec+" "+strings.Join(res, ","))
			c.Count(fmt.Sprintf("reencs.%s.nops=%d.tries=%d", name, len(ops), n))
			if broken {
				for _, h := range hosts {
					h.close()
				}
				hosts = []*reencsHost{reencsNewHost(name), reencsNewHost(name)}
			}
		}
		for _, h := range hosts {
			h.close()
		}
	}
}
