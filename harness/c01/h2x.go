//go:build verif

package c01

import (
	"bufio"
	"bytes"
	"context"
	"fmt"
	"io"
	"net"
	"strings"
	"sync"
	"time"

	"mosn.io/api"
	v2 "mosn.io/mosn/pkg/config/v2"
	proxyfilter "mosn.io/mosn/pkg/filter/network/proxy"
	_ "mosn.io/mosn/pkg/filter/stream/transcoder"
	_ "mosn.io/mosn/pkg/filter/stream/transcoder/httpconv"
	"mosn.io/mosn/pkg/network"
	"mosn.io/mosn/pkg/router"
	_ "mosn.io/mosn/pkg/stream/http"
	_ "mosn.io/mosn/pkg/stream/http2"
	"mosn.io/mosn/pkg/streamfilter"
	"mosn.io/mosn/pkg/types"
	"mosn.io/mosn/pkg/upstream/cluster"
	"mosn.io/pkg/variable"

	"verif/harness/hx"
)

// Kinds `h2t` (HTTP/2 → HTTP/2 with trailers and every END_STREAM placement), `x12` (HTTP/1.1 listener → HTTP/2 cluster)
// and `x21` (HTTP/2 listener → HTTP/1.1 cluster) through the REAL proxy: real server connection with the real proxy
// network filter, router, cluster manager, connection pool, client stream; the cross kinds carry the transcoder stream
// filter MOSN ships for these pairings (httpTohttp2 / http2Tohttp, upstream protocol chosen by the filter). Both ends
// are neutral recorders: frame-level HTTP/2 endpoints (h2raw.go) and a line-level HTTP/1 reader that keeps names, order,
// values and chunked trailers.
//
//	<kind> req  - -         <P> <F> <fr> <B> <T> => <st> <interim> <P> <F> <end> <B> <T>
//	<kind> resp <METHOD> <interim> <P> <F> <fr> <B> <T> => <st> <interim> <P> <F> <end> <B> <T>
//
// P pseudo fields `name:hex,…` (HTTP/1: method + path of the request line / status of the status line; Host stays a field),
// F fields `name:hex,…` stable-sorted by lower-cased name, fr framing as written (HTTP/2: e | z | DATA sizes; HTTP/1: none |
// cl | ch), B body hex, T trailers (`none` = no trailer block), end = how the received message ended (HTTP/2: H | D | T;
// HTTP/1: none | cl | ch | close), st = ok | lost | reset:<code> | …

type xSide struct {
	name     string // listener name
	down, up string // "Http1" | "Http2"
	factory  api.NetworkFilterChainFactory
	front    net.Listener
	h2up     *h2RawServer
	h1up     net.Listener
	h1reqs   chan *h1Exchange
}

type h1Exchange struct {
	conn net.Conn
	msg  *h1Msg
	err  string
}

// h1Msg: one HTTP/1 message as a neutral reader sees it
type h1Msg struct {
	start    [2]string // request: method, target; response: status, ""
	fields   [][2]string
	body     []byte
	trailers [][2]string
	hasTrailers bool
	framing  string // none | cl | ch | close
	interim  []int
}

var xOnce = map[string]*sync.Once{"h2t": {}, "x12": {}, "x21": {}}
var xSides = map[string]*xSide{}

func xSetup(kind string) *xSide {
	xOnce[kind].Do(func() {
		http1Setup()
		s := &xSide{name: "c01-" + kind}
		var filterType string
		switch kind {
		case "h2t":
			s.down, s.up = "Http2", "Http2"
		case "x12":
			s.down, s.up, filterType = "Http1", "Http2", "httpTohttp2"
		case "x21":
			s.down, s.up, filterType = "Http2", "Http1", "http2Tohttp"
		}
		var upAddr string
		if s.up == "Http2" {
			s.h2up = newH2RawServer()
			upAddr = s.h2up.ln.Addr().String()
		} else {
			var err error
			s.h1up, err = net.Listen("tcp", "127.0.0.1:0")
			if err != nil {
				panic(err)
			}
			upAddr = s.h1up.Addr().String()
			s.h1reqs = make(chan *h1Exchange, 16)
			go s.serveH1()
		}
		cm := cluster.GetClusterMngAdapterInstance()
		if err := cm.AddOrUpdatePrimaryCluster(v2.Cluster{Name: s.name, ClusterType: v2.SIMPLE_CLUSTER, LbType: v2.LB_RANDOM}); err != nil {
			panic(err)
		}
		if err := cm.UpdateClusterHosts(s.name, []v2.Host{{HostConfig: v2.HostConfig{Address: upAddr}}}); err != nil {
			panic(err)
		}
		rc := &v2.RouterConfiguration{
			RouterConfigurationConfig: v2.RouterConfigurationConfig{RouterConfigName: s.name + "-router"},
			VirtualHosts: []v2.VirtualHost{{Name: "all", Domains: []string{"*"}, Routers: []v2.Router{{RouterConfig: v2.RouterConfig{
				Match: v2.RouterMatch{Prefix: "/"},
				Route: v2.RouteAction{RouterActionConfig: v2.RouterActionConfig{ClusterName: s.name}}}}}}},
		}
		if err := router.GetRoutersMangerInstance().AddOrUpdateRouters(rc); err != nil {
			panic(err)
		}
		var fcfg []v2.Filter
		if filterType != "" {
			fcfg = append(fcfg, v2.Filter{Type: "transcoder", Config: map[string]interface{}{"type": filterType}})
		}
		if err := streamfilter.GetStreamFilterManager().AddOrUpdateStreamFilterConfig(s.name, fcfg); err != nil {
			panic(err)
		}
		var err error
		s.factory, err = proxyfilter.CreateProxyFactory(map[string]interface{}{
			"downstream_protocol": s.down, "upstream_protocol": "Auto", "router_config_name": s.name + "-router"})
		if err != nil {
			panic(err)
		}
		s.front, err = net.Listen("tcp", "127.0.0.1:0")
		if err != nil {
			panic(err)
		}
		go func() {
			for {
				rawc, err := s.front.Accept()
				if err != nil {
					return
				}
				ctx := variable.NewVariableContext(context.Background())
				variable.Set(ctx, types.VariableAccessLogs, []api.AccessLog{})
				variable.Set(ctx, types.VariableListenerName, s.name)
				conn := network.NewServerConnection(ctx, rawc, nil)
				s.factory.CreateFilterChain(ctx, conn.FilterManager())
				conn.FilterManager().InitializeReadFilters()
				conn.Start(ctx)
			}
		}()
		xSides[kind] = s
	})
	return xSides[kind]
}

// ---------------------------------------------------------------------------------------------------------------------
// HTTP/1 neutral reader / writer (keeps names, order, values, chunked trailers, interim responses)

func readH1(br *bufio.Reader, isRequest bool, headOnly bool) (*h1Msg, error) {
	m := &h1Msg{}
	for {
		line, err := br.ReadString('\n')
		if err != nil {
			return nil, err
		}
		line = strings.TrimRight(line, "\r\n")
		parts := strings.SplitN(line, " ", 3)
		if isRequest {
			if len(parts) < 3 {
				return nil, fmt.Errorf("bad request line")
			}
			m.start = [2]string{parts[0], parts[1]}
		} else {
			if len(parts) < 2 {
				return nil, fmt.Errorf("bad status line")
			}
			m.start = [2]string{parts[1], ""}
		}
		m.fields = nil
		cl, chunked, closeConn := -1, false, false
		for {
			l, err := br.ReadString('\n')
			if err != nil {
				return nil, err
			}
			l = strings.TrimRight(l, "\r\n")
			if l == "" {
				break
			}
			i := strings.IndexByte(l, ':')
			if i < 0 {
				return nil, fmt.Errorf("bad header line")
			}
			k, v := l[:i], strings.Trim(l[i+1:], " \t")
			m.fields = append(m.fields, [2]string{k, v})
			switch strings.ToLower(k) {
			case "content-length":
				fmt.Sscan(v, &cl)
			case "transfer-encoding":
				chunked = strings.Contains(strings.ToLower(v), "chunked")
			case "connection":
				closeConn = strings.Contains(strings.ToLower(v), "close")
			}
		}
		if !isRequest && len(m.start[0]) == 3 && m.start[0][0] == '1' {
			var code int
			fmt.Sscan(m.start[0], &code)
			m.interim = append(m.interim, code)
			continue
		}
		bodiless := headOnly || !isRequest && (m.start[0] == "204" || m.start[0] == "304")
		switch {
		case bodiless:
			m.framing = "none"
			if chunked {
				m.framing = "ch"
			} else if cl >= 0 {
				m.framing = "cl"
			}
		case chunked:
			m.framing = "ch"
			for {
				sz, err := br.ReadString('\n')
				if err != nil {
					return nil, err
				}
				var n int
				if _, err := fmt.Sscanf(strings.TrimSpace(strings.SplitN(sz, ";", 2)[0]), "%x", &n); err != nil {
					return nil, fmt.Errorf("bad chunk size")
				}
				if n == 0 {
					for {
						l, err := br.ReadString('\n')
						if err != nil {
							return nil, err
						}
						l = strings.TrimRight(l, "\r\n")
						if l == "" {
							break
						}
						m.hasTrailers = true
						if i := strings.IndexByte(l, ':'); i >= 0 {
							m.trailers = append(m.trailers, [2]string{l[:i], strings.Trim(l[i+1:], " \t")})
						}
					}
					break
				}
				b := make([]byte, n+2)
				if _, err := io.ReadFull(br, b); err != nil {
					return nil, err
				}
				m.body = append(m.body, b[:n]...)
			}
		case cl >= 0:
			m.framing = "cl"
			m.body = make([]byte, cl)
			if _, err := io.ReadFull(br, m.body); err != nil {
				return nil, err
			}
		case !isRequest && closeConn:
			m.framing = "close"
			b, _ := io.ReadAll(br)
			m.body = b
		default:
			m.framing = "none"
		}
		return m, nil
	}
}

// wireH1: framing "cl" (Content-Length, also for an empty body), "none" (no framing header: only for empty bodies),
// "ch" (chunked, chunks as given, trailers when hasTrailers)
func wireH1(m *h1Msg, isRequest bool, chunks [][]byte) []byte {
	var b bytes.Buffer
	for _, code := range m.interim {
		fmt.Fprintf(&b, "HTTP/1.1 %d Interim\r\n\r\n", code)
	}
	if isRequest {
		b.WriteString(m.start[0] + " " + m.start[1] + " HTTP/1.1\r\n")
	} else {
		b.WriteString("HTTP/1.1 " + m.start[0] + " Status\r\n")
	}
	for _, kv := range m.fields {
		b.WriteString(kv[0] + ": " + kv[1] + "\r\n")
	}
	switch m.framing {
	case "ch":
		b.WriteString("Transfer-Encoding: chunked\r\n\r\n")
		for _, c := range chunks {
			if len(c) == 0 {
				continue
			}
			fmt.Fprintf(&b, "%x\r\n", len(c))
			b.Write(c)
			b.WriteString("\r\n")
		}
		b.WriteString("0\r\n")
		for _, kv := range m.trailers {
			b.WriteString(kv[0] + ": " + kv[1] + "\r\n")
		}
		b.WriteString("\r\n")
	case "cl":
		fmt.Fprintf(&b, "Content-Length: %d\r\n\r\n", len(m.body))
		b.Write(m.body)
	default:
		b.WriteString("\r\n")
		b.Write(m.body) // framed by an explicit Content-Length field of the message (or empty)
	}
	return b.Bytes()
}

func (s *xSide) serveH1() {
	for {
		conn, err := s.h1up.Accept()
		if err != nil {
			return
		}
		go func(conn net.Conn) {
			br := bufio.NewReader(conn)
			for {
				m, err := readH1(br, true, false)
				if err != nil {
					conn.Close()
					return
				}
				done := make(chan struct{})
				s.h1reqs <- &h1Exchange{conn: conn, msg: m}
				_ = done
			}
		}(conn)
	}
}

// ---------------------------------------------------------------------------------------------------------------------
// tokens

func h1PseudoTok(m *h1Msg, isRequest bool) string {
	if isRequest {
		return "method:" + hx.Hex([]byte(m.start[0])) + ",path:" + hx.Hex([]byte(m.start[1]))
	}
	return "status:" + hx.Hex([]byte(m.start[0]))
}

func h1Tok(m *h1Msg, isRequest bool) string {
	return fmt.Sprintf("%s %s %s %s %s", h1PseudoTok(m, isRequest), fieldsTok(m.fields), m.framing, hx.Hex(m.body), trailersTok(m.hasTrailers, m.trailers))
}

func h2SentTok(m *h2Msg) string {
	return fmt.Sprintf("%s %s %s %s %s", pseudoTok(m.pseudo), fieldsTok(m.fields), framingTok(m), hx.Hex(m.sentBody()), trailersTok(m.hasTrailers, m.trailers))
}

func h2GotTok(st string, m *h2Msg) string {
	if st != "ok" {
		return st
	}
	return fmt.Sprintf("ok %s %s %s %c %s %s", interimTok(m.interim), pseudoTok(m.pseudo), fieldsTok(m.fields), m.endAt, hx.Hex(m.body), trailersTok(m.hasTrailers, m.trailers))
}

func h1GotTok(m *h1Msg, isRequest bool) string {
	if m == nil {
		return "lost"
	}
	return fmt.Sprintf("ok %s %s", interimTok(m.interim), h1Tok(m, isRequest))
}

// ---------------------------------------------------------------------------------------------------------------------
// one exchange through a side. Either end is HTTP/1 or HTTP/2 by the side's protocols.

type xReq struct {
	h2 *h2Msg
	h1 *h1Msg
	h1chunks [][]byte
}

const xWait = 2500 * time.Millisecond

type xGot struct {
	st string // ok | lost | reset:<code> | …
	h2 *h2Msg
	h1 *h1Msg
}

func (g *xGot) tok(isRequest bool) string {
	switch {
	case g.h2 != nil && g.st == "ok":
		return h2GotTok("ok", g.h2)
	case g.h1 != nil && g.st == "ok":
		return h1GotTok(g.h1, isRequest)
	}
	return g.st
}

func stripDate(sent *xMsg, g *xGot) bool {
	for _, kv := range sent.fields {
		if kv[0] == "date" {
			return false
		}
	}
	strip := func(fs [][2]string) ([][2]string, bool) {
		var f [][2]string
		hit := false
		for _, kv := range fs {
			if strings.EqualFold(kv[0], "date") {
				hit = true
				continue
			}
			f = append(f, kv)
		}
		return f, hit
	}
	hit := false
	if g.h2 != nil {
		g.h2.fields, hit = strip(g.h2.fields)
	}
	if g.h1 != nil {
		g.h1.fields, hit = strip(g.h1.fields)
	}
	return hit
}

// exchangeX sends the request, lets the upstream answer with resp, returns what the upstream saw and what the client got
// (a Date added to a response that had none is removed again and counted: RFC 7231 7.1.1.2 obliges a recipient with a
// clock to add it)
func (s *xSide) exchangeX(c *hx.Ctx, kind string, mreq, mresp *xMsg, req, resp *xReq) (string, string) {
	gq, gr := &xGot{st: "lost"}, &xGot{st: "lost"}
	method := mreq.method
	xWait := xWait
	if mreq.malformed {
		// MOSN detects the malformed header block in the framer and (at this commit) neither forwards the request nor sends
		// RST_STREAM: the outcome is "not forwarded" after a short wait instead of the full one
		xWait = 400 * time.Millisecond
	}
	var h2c *h2Raw
	var h1c net.Conn
	var err error
	if s.down == "Http2" {
		h2c, err = h2RawDial(s.front.Addr().String())
		if err != nil {
			panic(err)
		}
		defer h2c.close()
		go h2c.writeMsg(1, req.h2)
	} else {
		h1c, err = net.Dial("tcp", s.front.Addr().String())
		if err != nil {
			panic(err)
		}
		defer h1c.Close()
		h1c.SetDeadline(time.Now().Add(2 * xWait))
		go h1c.Write(wireH1(req.h1, true, req.h1chunks))
	}
	// the client side collects concurrently: a request MOSN refuses (reset / 4xx) never reaches the upstream
	cres := make(chan *xGot, 1)
	go func() {
		if s.down == "Http2" {
			m, st := h2c.collect(1, 2*xWait)
			cres <- &xGot{st: st, h2: m}
			return
		}
		m, err := readH1(bufio.NewReader(h1c), false, method == "HEAD")
		if err == nil {
			cres <- &xGot{st: "ok", h1: m}
		} else {
			cres <- &xGot{st: "lost"}
		}
	}()
	var early *xGot
	if s.up == "Http2" {
		select {
		case r := <-s.h2up.reqs:
			gq = &xGot{st: r.status, h2: r.msg}
			if r.status == "ok" {
				go r.conn.writeMsg(r.id, resp.h2)
			}
		case early = <-cres:
		case <-time.After(xWait):
		}
	} else {
		select {
		case r := <-s.h1reqs:
			gq = &xGot{st: "ok", h1: r.msg}
			go r.conn.Write(wireH1(resp.h1, false, resp.h1chunks))
		case early = <-cres:
		case <-time.After(xWait):
		}
	}
	if early != nil {
		gr = early
	} else {
		select {
		case gr = <-cres:
		case <-time.After(xWait):
		}
	}
	if gr.st == "ok" && stripDate(mresp, gr) {
		c.Count(kind + ".resp.date_added")
	}
	if gq.st != "ok" {
		c.Count(kind + ".req.outcome=" + strings.SplitN(gq.st, ":", 2)[0])
	}
	if gr.st != "ok" {
		c.Count(kind + ".resp.outcome=" + strings.SplitN(gr.st, ":", 2)[0])
	}
	return gq.tok(true), gr.tok(false)
}
