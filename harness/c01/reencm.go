//go:build verif

package c01

// Kind `reencm`: the SAME frame object, MODIFIED once, is encoded several times. The proxy keeps one frame object per
// downstream request (xStream.frame; its Content is the IoBuffer the proxy holds as the request body) and calls Encode on
// it for the first try, for every retry on another host and for the mirror copy. Decode with the real codec, overwrite
// the read buffer, apply the case's modifications once through the real XFrame / HeaderMap API (header Set / Del, SetData
// with a new buffer, Class; without a body modification the frame's own data buffer is handed back through SetData as
// the proxy's AppendData does), then per try SetRequestId + Encode, the output written through a REAL connection
// (loopback TCP: connection.Write consumes the buffer and gives it to buffer.PutIoBuffer) and read by the peer.
//
//   C01 reencm <id1,id2,...> <head> <ops> [<extra> ...] <inputHex> => <dec> <enc1>:<hex1>,<enc2>:<hex2>,...
//
// <head> <ops> <extra> <inputHex> are the tokens of the single-encode case the line was derived from (bolt | boltv2 |
// dubbo | thrift | tars req | tars resp): every try is judged like that case with the try's id.

import (
	"fmt"
	"hash/fnv"
	"io"
	"strings"
	"time"

	"mosn.io/api"
	"mosn.io/pkg/buffer"

	"verif/harness/hx"
)

var reencmLink *reencLink

// reencmWrite sends one encoded buffer through the connection and returns what the peer received.
func reencmWrite(buf api.IoBuffer) ([]byte, bool) {
	if reencmLink == nil {
		reencmLink = reencDial()
	}
	l := reencmLink
	n := buf.Len()
	got := make([]byte, n)
	done := make(chan error, 1)
	go func() {
		l.peer.SetReadDeadline(time.Now().Add(20 * time.Second))
		_, err := io.ReadFull(l.peer, got)
		done <- err
	}()
	var werr error
	_, p := hx.Safe(func() { werr = l.conn.Write(buf) })
	if p || werr != nil {
		l.close()
		reencmLink = nil
		<-done
		return nil, false
	}
	if err := <-done; err != nil {
		l.close()
		reencmLink = nil
		return nil, false
	}
	return got, true
}

// forwardMulti: Decode -> recycle the read buffer -> ops once -> per id: SetRequestId, Encode, connection write.
func forwardMulti(proto api.XProtocol, input []byte, ids []uint64, ops []op) (dec string, encs []string, outs [][]byte) {
	ctx := newStreamCtx()
	in := append(make([]byte, 0, len(input)), input...)
	rb := buffer.NewIoBufferBytes(in)
	var cmd interface{}
	var err error
	if _, p := hx.Safe(func() { cmd, err = proto.Decode(ctx, rb) }); p {
		return "panic", nil, nil
	}
	if err != nil {
		return "err", nil, nil
	}
	if cmd == nil {
		return "more", nil, nil
	}
	frame, ok := cmd.(api.XFrame)
	if !ok {
		return "err", nil, nil
	}
	dec = fmt.Sprintf("frame:%d", len(input)-rb.Len())
	for i := range in {
		in[i] = 0xEE
	}
	rb.Reset()
	touchedBody := false
	if _, p := hx.Safe(func() {
		for _, o := range ops {
			switch o.kind {
			case 'S':
				frame.GetHeader().Set(string(o.k), string(o.v))
			case 'D':
				frame.GetHeader().Del(string(o.k))
			case 'B':
				frame.SetData(buffer.NewIoBufferBytes(append([]byte{}, o.v...)))
				touchedBody = true
			case 'C':
				setClass(frame, string(o.v))
			}
		}
		if !touchedBody {
			if d := frame.GetData(); d != nil {
				frame.SetData(d)
			}
		}
	}); p {
		for range ids {
			encs = append(encs, "panic")
			outs = append(outs, nil)
		}
		return dec, encs, outs
	}
	for _, id := range ids {
		var buf api.IoBuffer
		var encErr error
		_, p := hx.Safe(func() {
			frame.SetRequestId(id)
			buf, encErr = proto.Encode(ctx, frame)
		})
		switch {
		case p:
			encs, outs = append(encs, "panic"), append(outs, nil)
		case encErr != nil || buf == nil:
			encs, outs = append(encs, "err"), append(outs, nil)
		default:
			got, ok := reencmWrite(buf)
			if !ok {
				encs, outs = append(encs, "werr"), append(outs, nil)
			} else {
				encs, outs = append(encs, "ok"), append(outs, got)
			}
		}
	}
	return dec, encs, outs
}

// reencmAllowed: input classes of the single-encode kinds that are covered by a known finding are left to those kinds.
func reencmAllowed(head string, extra string, ops []op) bool {
	switch {
	case head == "bolt" || head == "boltv2":
		return true
	case head == "dubbo" || head == "thrift":
		for _, o := range ops {
			if o.kind != 'B' {
				return false
			}
		}
		return true
	case head == "tars req" || head == "tars resp":
		return len(ops) == 0 && !strings.Contains(extra, ",")
	}
	return false
}

// reencmShare: percentage of the single-encode cases that get a reencm sibling (modified frames more often, big ones rarely)
func reencmShare(size, nops int) int {
	switch {
	case size > 20000:
		return 8
	case nops > 0:
		return 60
	}
	return 15
}

// maybeReencm derives a `reencm` case from a single-encode case whose frame was decoded (see reencmShare).
func maybeReencm(c *hx.Ctx, proto api.XProtocol, head, extra string, input []byte, ops []op, dec string) {
	if !strings.HasPrefix(dec, "frame:") || !reencmAllowed(head, extra, ops) {
		return
	}
	h := fnv.New64a()
	h.Write(input)
	h.Write([]byte(opsTok(ops)))
	r := hx.NewRng(h.Sum64())
	size := len(input)
	for _, o := range ops {
		size += len(o.k) + len(o.v)
	}
	if size > 200000 || !r.Chance(reencmShare(size, len(ops))) {
		return
	}
	n := 2 + r.Intn(3)
	ids := []uint64{pickID(r)}
	for len(ids) < n {
		if r.Chance(60) {
			ids = append(ids, ids[len(ids)-1]) // a retry with the id of the try before
		} else {
			ids = append(ids, pickID(r)) // another upstream connection, another stream id
		}
	}
	mdec, encs, outs := forwardMulti(proto, input, ids, ops)
	var idToks, res []string
	for _, id := range ids {
		idToks = append(idToks, fmt.Sprint(id))
	}
	for i := range encs {
		res = append(res, encs[i]+":"+hx.Hex(outs[i]))
	}
	rs := "-"
	if len(res) > 0 {
		rs = strings.Join(res, ",")
	}
	toks := []string{"reencm", strings.Join(idToks, ","), head, opsTok(ops)}
	if extra != "" {
		toks = append(toks, extra)
	}
	toks = append(toks, hx.Hex(input))
	c.Emit("C01", strings.Join(toks, " "), mdec+" "+rs)
	kinds := map[byte]bool{}
	for _, o := range ops {
		kinds[o.kind] = true
	}
	mod := ""
	for _, k := range []byte{'S', 'D', 'B', 'C'} {
		if kinds[k] {
			mod += string(k)
		}
	}
	if mod == "" {
		mod = "none"
	}
	first := "-"
	if len(encs) > 0 {
		first = encs[0]
	}
	c.Count(fmt.Sprintf("reencm.%s.mods=%s.first=%s", strings.Fields(head)[0], mod, first))
	c.Count(fmt.Sprintf("reencm.tries=%d", n))
	nops := len(ops)
	if nops > 4 {
		nops = 4
	}
	c.Count(fmt.Sprintf("reencm.nops=%d", nops))
}
