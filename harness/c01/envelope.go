//go:build verif

package c01

import (
	"context"
	"encoding/binary"
	"fmt"
	"strings"

	"github.com/TarsCloud/TarsGo/tars/protocol/codec"
	hessian "github.com/apache/dubbo-go-hessian2"
	"mosn.io/mosn/pkg/protocol/xprotocol/dubbo"
	"mosn.io/mosn/pkg/protocol/xprotocol/dubbothrift"
	"mosn.io/mosn/pkg/protocol/xprotocol/tars"

	"verif/harness/hx"
)

func b2i(b bool) int {
	if b {
		return 1
	}
	return 0
}

// envelopeOps: what a filter could do to a frame of a codec whose header map is routing metadata: replace the body,
// set / delete metadata entries (present keys only, so that a Del always changes the map).
func envelopeOps(c *hx.Ctx, r *hx.Rng, name string, keys []string) []op {
	switch r.Intn(10) {
	case 0, 1, 2, 3:
		n := pickLen(r, 70000)
		if n > 3000 && !r.Chance(25) {
			n = r.Intn(300)
		}
		c.Count(name + ".op=B")
		return []op{{kind: 'B', v: r.Bytes(n)}}
	case 4:
		c.Count(name + ".op=S")
		return []op{{kind: 'S', k: []byte(keys[r.Intn(len(keys))]), v: []byte("changed")}}
	case 5:
		c.Count(name + ".op=D")
		return []op{{kind: 'D', k: []byte(keys[r.Intn(len(keys))])}}
	}
	return nil
}

// ---------------------------------------------------------------------------------------------------------- dubbo

func hessianStrings(ss ...string) []byte {
	e := hessian.NewEncoder()
	for _, s := range ss {
		e.Encode(s)
	}
	return append([]byte{}, e.Buffer()...)
}

func runDubbo(c *hx.Ctx) {
	r := c.Rng.Fork()
	proto := (&dubbo.XCodec{}).NewXProtocol(context.Background())
	n := c.N(1500, 10000)
	for i := 0; i < n; i++ {
		var flag byte
		isReq := r.Chance(55)
		isEvent := r.Chance(12)
		if isReq {
			flag |= 0x80
		}
		if r.Chance(70) {
			flag |= 0x40 // two-way
		}
		if isEvent {
			flag |= 0x20
		}
		ser := byte(2)
		if r.Chance(10) {
			ser = byte(r.Pick([]int{0, 3, 4, 6, 31}))
		}
		flag |= ser
		status := byte(r.Pick([]int{20, 20, 20, 30, 31, 40, 50, 60, 70, 80, 90, 100, 0, 255}))
		var id [8]byte
		copy(id[:], r.Bytes(8))
		big := r.Chance(c.N(10, 6))
		tail := pickLen(r, 70000)
		if tail > 3000 && !big {
			tail = r.Intn(200)
		}
		svcOK := true
		var payload []byte
		if isReq && !isEvent {
			if r.Chance(90) {
				svc := r.PickS([]string{"com.alipay.test.HelloService", "a.B", "org.apache.dubbo.demo.DemoService", strings.Repeat("p", 300)})
				payload = hessianStrings("2.0.2", svc, r.PickS([]string{"1.0.0", "0.0.0", ""}), r.PickS([]string{"sayHello", "m", "$invoke"}))
				payload = append(payload, r.Bytes(tail)...)
			} else {
				// hessian null where the framework version string is expected: refused
				payload = append([]byte{'N'}, r.Bytes(tail)...)
				svcOK = false
			}
		} else {
			payload = r.Bytes(tail)
		}
		magic := []byte{0xda, 0xbb}
		if r.Chance(4) {
			magic = r.Bytes(2) // the decoder does not look at the magic (the matcher does)
		}
		fr := append([]byte{}, magic...)
		fr = append(fr, flag, status)
		fr = append(fr, id[:]...)
		fr = binary.BigEndian.AppendUint32(fr, uint32(len(payload)))
		fr = append(fr, payload...)
		input := fr
		switch r.Intn(12) {
		case 0:
			input = append(append([]byte{}, fr...), r.Bytes(1+r.Intn(20))...)
			c.Count("dubbo.trailing_bytes")
		case 1:
			input = fr[:r.Intn(len(fr))]
			c.Count("dubbo.truncated")
		}
		var ops []op
		if r.Chance(35) {
			ops = envelopeOps(c, r, "dubbo", []string{"service", "method", "dubbo", "version"})
			if len(ops) > 0 && ops[0].kind != 'B' && !(isReq && !isEvent) {
				ops = nil // responses and events carry no metadata entries
			}
		}
		c.Count(fmt.Sprintf("dubbo.kind=req:%v,event:%v,ser2:%v", isReq, isEvent, ser == 2))
		c.Count("dubbo.payload_len=" + lenBucket(len(payload)))
		id64 := pickID64(r)
		dec, enc, out := forward(proto, input, id64, ops)
		emitEnv(c, "dubbo", "dubbo", fmt.Sprint(b2i(svcOK)), input, id64, ops, dec, enc, out)
		maybeReencm(c, proto, "dubbo", fmt.Sprint(b2i(svcOK)), input, ops, dec)
	}
}

func pickID64(r *hx.Rng) uint64 {
	if r.Chance(40) {
		return r.U64()
	}
	return pickID(r)
}

// emitEnv: like emit, with extra case tokens between the ops and the input.
func emitEnv(c *hx.Ctx, name string, head string, extra string, input []byte, id uint64, ops []op, dec, enc string, out []byte) {
	c.Emit("C01", fmt.Sprintf("%s %d %s %s %s", head, id, opsTok(ops), extra, hx.Hex(input)), fmt.Sprintf("%s %s %s", dec, enc, hx.Hex(out)))
	c.Count(name + ".dec=" + strings.SplitN(dec, ":", 2)[0])
	c.Count(name + ".enc=" + enc)
}

// ---------------------------------------------------------------------------------------------------- dubbo-thrift

func thriftMessage(r *hx.Rng, ok bool, tail int) []byte {
	if !ok {
		// strict-looking first word with a bad version: "Bad version in ReadMessageBegin"
		return append([]byte{0x80, 0x02, 0, 1}, r.Bytes(tail)...)
	}
	name := r.PickS([]string{"sayHello", "m", "echo"})
	typ := byte(r.Pick([]int{1, 1, 2, 3, 4}))
	var m []byte
	if r.Bool() { // strict
		m = append(m, 0x80, 0x01, 0, typ)
		m = binary.BigEndian.AppendUint32(m, uint32(len(name)))
		m = append(m, name...)
	} else { // old style: name, type byte
		m = binary.BigEndian.AppendUint32(m, uint32(len(name)))
		m = append(m, name...)
		m = append(m, typ)
	}
	m = binary.BigEndian.AppendUint32(m, uint32(r.U64()))
	return append(m, r.Bytes(tail)...)
}

func runThrift(c *hx.Ctx) {
	r := c.Rng.Fork()
	proto := (&dubbothrift.XCodec{}).NewXProtocol(context.Background())
	n := c.N(1500, 10000)
	for i := 0; i < n; i++ {
		big := r.Chance(c.N(10, 6))
		sl := r.Pick([]int{0, 1, 2, 12, 28, 254, 255, 256, 257, 65514, r.Intn(64)})
		if sl > 3000 && !big {
			sl = 5 + r.Intn(30)
		}
		svc := []byte(strings.Repeat("s", sl))
		if sl > 0 && r.Bool() {
			svc = r.Bytes(sl)
		}
		tail := pickLen(r, 70000)
		if tail > 3000 && !big {
			tail = r.Intn(200)
		}
		msgOK := !r.Chance(8)
		msg := thriftMessage(r, msgOK, tail)
		hl := 2 + 4 + 2 + 1 + 4 + len(svc) + 8
		var id [8]byte
		copy(id[:], r.Bytes(8))
		body := []byte{0xda, 0xbc}
		body = binary.BigEndian.AppendUint32(body, 0)
		body = binary.BigEndian.AppendUint16(body, uint16(hl))
		body = append(body, byte(r.Pick([]int{1, 1, 1, 0, 2})))
		body = binary.BigEndian.AppendUint32(body, uint32(len(svc)))
		body = append(body, svc...)
		body = append(body, id[:]...)
		body = append(body, msg...)
		binary.BigEndian.PutUint32(body[2:], uint32(len(body)))
		fr := binary.BigEndian.AppendUint32(nil, uint32(len(body)))
		fr = append(fr, body...)
		kind := "wellformed"
		switch r.Intn(14) {
		case 0: // header length field not the true header length: the fast path patches somewhere else (or panics)
			binary.BigEndian.PutUint16(fr[10:], uint16(r.Pick([]int{0, 1, 3, 4, 8, 20, hl - 1, hl + 1, hl + 7, 65535})))
			kind = "bad-headerlen"
		case 1: // inner message length differs from the outer one (not read by the decoder)
			binary.BigEndian.PutUint32(fr[6:], uint32(r.Intn(1000)))
			kind = "bad-innerlen"
		case 2: // negative / oversized service name length
			binary.BigEndian.PutUint32(fr[13:], uint32(r.Pick([]int{0x80000000, 0xffffffff, len(fr) + 10})))
			kind = "bad-svclen"
		}
		input := fr
		switch r.Intn(12) {
		case 0:
			input = append(append([]byte{}, fr...), r.Bytes(1+r.Intn(20))...)
			c.Count("thrift.trailing_bytes")
		case 1:
			input = fr[:r.Intn(len(fr))]
			c.Count("thrift.truncated")
		case 2:
			input = fr[:len(fr)-1-r.Intn(4)] // inside the last 4 bytes: the length test of Decode is off by 4 there
			c.Count("thrift.truncated_last4")
		}
		var ops []op
		if r.Chance(35) {
			ops = envelopeOps(c, r, "thrift", []string{"service", "method", "seqId", "messageType"})
			if len(ops) == 1 && ops[0].kind != 'B' && r.Chance(40) {
				// metadata change followed by a body replacement: the rebuilt header takes the service name from the map
				ops = append(ops, op{kind: 'B', v: r.Bytes(r.Intn(40))})
				c.Count("thrift.op=hdr+B")
			}
		}
		c.Count("thrift.frame=" + kind)
		c.Count("thrift.svc_len=" + lenBucket(len(svc)))
		c.Count("thrift.payload_len=" + lenBucket(len(msg)))
		id64 := pickID64(r)
		dec, enc, out := forward(proto, input, id64, ops)
		emitEnv(c, "thrift", "thrift", fmt.Sprint(b2i(msgOK)), input, id64, ops, dec, enc, out)
		maybeReencm(c, proto, "thrift", fmt.Sprint(b2i(msgOK)), input, ops, dec)
	}
}

// ------------------------------------------------------------------------------------------------------------ tars

type tarsKV struct{ k, v string }

func mapTok(m []tarsKV) string {
	if len(m) == 0 {
		return "-"
	}
	var p []string
	for _, e := range m {
		p = append(p, hx.Hex([]byte(e.k))+":"+hx.Hex([]byte(e.v)))
	}
	return strings.Join(p, ",")
}

// writeMap writes a map<string,string> field in the given entry order (TarsGo itself iterates a Go map).
func writeMap(os *codec.Buffer, m []tarsKV, tag byte) {
	os.WriteHead(codec.MAP, tag)
	os.Write_int32(int32(len(m)), 0)
	for _, e := range m {
		os.Write_string(e.k, 0)
		os.Write_string(e.v, 1)
	}
}

func genTarsMap(r *hx.Rng) []tarsKV {
	n := r.Pick([]int{0, 0, 0, 0, 1, 1, 1, 1, 1, 2, 3, 0, 1, 0, 1, 0})
	var m []tarsKV
	for i := 0; i < n; i++ {
		v := fmt.Sprintf("v%d", r.Intn(100))
		if r.Chance(10) {
			v = strings.Repeat("x", r.Pick([]int{255, 256, 300}))
		}
		m = append(m, tarsKV{fmt.Sprintf("k%d", i), v})
	}
	return m
}

var tarsInts = []int32{0, 1, 2, -1, 127, 128, -128, -129, 255, 256, 32767, 32768, -32768, -32769, 65535, 65536, 70000, 1<<31 - 1, -1 << 31}

func runTars(c *hx.Ctx) {
	r := c.Rng.Fork()
	proto := (&tars.XCodec{}).NewXProtocol(context.Background())
	n := c.N(1500, 10000)
	for i := 0; i < n; i++ {
		isReq := r.Chance(55)
		big := r.Chance(c.N(10, 6))
		iv := int16(r.Pick([]int{1, 1, 3, 0, 2}))
		pt := int8(r.Pick([]int{0, 0, 1}))
		mt := tarsInts[r.Intn(len(tarsInts))]
		if r.Chance(60) {
			mt = 0
		}
		rid := tarsInts[r.Intn(len(tarsInts))]
		x := tarsInts[r.Intn(len(tarsInts))] // iTimeout / iRet
		if r.Chance(40) {
			x = int32(r.Pick([]int{0, 3000}))
		}
		s1 := r.PickS([]string{"TestApp.HelloServer.HelloObj", "a", "", strings.Repeat("s", 255), strings.Repeat("s", 256)})
		s2 := r.PickS([]string{"sayHello", "f", "", strings.Repeat("f", 300)})
		bl := pickLen(r, 70000)
		if bl > 3000 && !big {
			bl = r.Intn(300)
		}
		sb := r.Bytes(bl)
		ctx, st := genTarsMap(r), genTarsMap(r)
		// non-canonical but valid encodings a non-TarsGo peer may produce
		nc := ""
		if r.Chance(8) {
			nc = r.PickS([]string{"wide-id", "wide-version", "list-buffer"})
		}
		os := codec.NewBuffer()
		writeInt := func(v int32, tag byte, wide bool) {
			if wide {
				os.WriteHead(codec.INT, tag)
				var b [4]byte
				binary.BigEndian.PutUint32(b[:], uint32(v))
				os.Write_bytes(b[:])
			} else {
				os.Write_int32(v, tag)
			}
		}
		writeBuf := func(tag byte) {
			if nc == "list-buffer" && len(sb) <= 64 {
				os.WriteHead(codec.LIST, tag)
				os.Write_int32(int32(len(sb)), 0)
				for _, b := range sb {
					os.Write_int8(int8(b), 0)
				}
				return
			}
			if nc == "list-buffer" {
				nc = ""
			}
			os.WriteHead(codec.SIMPLE_LIST, tag)
			os.WriteHead(codec.BYTE, 0)
			os.Write_int32(int32(len(sb)), 0)
			os.Write_slice_uint8(sb)
		}
		if nc == "wide-version" {
			os.WriteHead(codec.SHORT, 1)
			os.Write_bytes([]byte{byte(iv >> 8), byte(iv)})
		} else {
			os.Write_int16(iv, 1)
		}
		os.Write_int8(pt, 2)
		var fields string
		if isReq {
			os.Write_int32(mt, 3)
			writeInt(rid, 4, nc == "wide-id")
			os.Write_string(s1, 5)
			os.Write_string(s2, 6)
			writeBuf(7)
			os.Write_int32(x, 8)
			writeMap(os, ctx, 9)
			writeMap(os, st, 10)
		} else {
			writeInt(rid, 3, nc == "wide-id")
			os.Write_int32(mt, 4)
			os.Write_int32(x, 5)
			writeBuf(6)
			writeMap(os, st, 7)
			os.Write_string(s1, 8)
			writeMap(os, ctx, 9)
		}
		fields = fmt.Sprintf("%d;%d;%d;%d;%d;%s;%s;%s;%s;%s", iv, pt, mt, rid, x, hx.Hex([]byte(s1)), hx.Hex([]byte(s2)), hx.Hex(sb), mapTok(ctx), mapTok(st))
		body := os.ToBytes()
		fr := binary.BigEndian.AppendUint32(nil, uint32(4+len(body)))
		fr = append(fr, body...)
		input := fr
		switch r.Intn(14) {
		case 0:
			input = append(append([]byte{}, fr...), r.Bytes(1+r.Intn(20))...)
			c.Count("tars.trailing_bytes")
		case 1:
			input = fr[:r.Intn(len(fr))]
			c.Count("tars.truncated")
		}
		var ops []op
		if r.Chance(12) {
			ops = envelopeOps(c, r, "tars", []string{"service", "method"})
			if len(ops) > 0 && ops[0].kind != 'B' && !isReq {
				ops = nil
			}
		}
		kind := "resp"
		if isReq {
			kind = "req"
		}
		head := "tars " + kind
		if nc != "" {
			head += "-" + nc
		}
		c.Count("tars.kind=" + strings.TrimPrefix(head, "tars "))
		c.Count("tars.total_len=" + lenBucket(len(fr)))
		c.Count(fmt.Sprintf("tars.map_entries=%d+%d", len(ctx), len(st)))
		id64 := pickID64(r)
		dec, enc, out := forward(proto, input, id64, ops)
		emitEnv(c, "tars", head, "1 "+fields, input, id64, ops, dec, enc, out)
		maybeReencm(c, proto, head, "1 "+fields, input, ops, dec)
	}
	// announced total length out of TarsGo's accepted range: never a frame
	for i := 0; i < c.N(40, 400); i++ {
		fr := binary.BigEndian.AppendUint32(nil, uint32(r.Pick([]int{0, 1, 3, 10485761, 0x7fffffff, 0xffffffff})))
		fr = append(fr, r.Bytes(r.Intn(40))...)
		dec, enc, out := forward(proto, fr, 1, nil)
		emitEnv(c, "tars", "tars req", "0 1;0;0;0;0;-;-;-;-;-", fr, 1, nil, dec, enc, out)
		c.Count("tars.kind=bad-length-prefix")
	}
}
