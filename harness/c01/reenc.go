//go:build verif

package c01

// Kind `reenc`: the SAME decoded, unmodified frame is encoded several times (first try and retries, as
// xStream.endStream -> Encode(s.frame) does for every try of the proxy), each encoding is written through a REAL
// network connection (loopback TCP; connection.Write -> doWriteIo puts every written buffer back with
// buffer.PutIoBuffer) and read by the peer, and between two tries other traffic takes buffers from the global pool
// (buffer.GetIoBuffer) and fills them with 0xEE. What reached the peer is compared try by try.
//
//   C01 reenc <proto> <q|r> <id:k,id:k,...> <inputHex> => <ok|err|panic> <peerBytes1,peerBytes2,...>

import (
	"context"
	"fmt"
	"io"
	"net"
	"strings"
	"time"

	"mosn.io/api"
	"mosn.io/mosn/pkg/log"
	"mosn.io/mosn/pkg/network"
	"mosn.io/pkg/buffer"

	"verif/harness/framegen"
	"verif/harness/hx"
)

type reencLink struct {
	conn api.Connection
	peer net.Conn
}

func reencDial() *reencLink {
	ln, err := net.Listen("tcp", "127.0.0.1:0")
	if err != nil {
		panic(err)
	}
	defer ln.Close()
	type acc struct {
		c   net.Conn
		err error
	}
	ch := make(chan acc, 1)
	go func() {
		c, err := ln.Accept()
		ch <- acc{c, err}
	}()
	peer, err := net.Dial("tcp", ln.Addr().String())
	if err != nil {
		panic(err)
	}
	a := <-ch
	if a.err != nil {
		panic(a.err)
	}
	// the MOSN side of the pair: a real connection object; only its write path is used
	conn := network.NewServerConnection(context.Background(), a.c, nil)
	return &reencLink{conn: conn, peer: peer}
}

func (l *reencLink) close() {
	l.peer.Close()
	l.conn.Close(api.NoFlush, api.LocalClose)
}

type reencRound struct {
	id uint64
	k  int
}

// reencOne runs one case; returns status and what the peer received per try.
func reencOne(l *reencLink, proto api.XProtocol, input []byte, rounds []reencRound, sizes func(int) int) (string, [][]byte, string) {
	ctx := newStreamCtx()
	in := append(make([]byte, 0, len(input)), input...)
	rb := buffer.NewIoBufferBytes(in)
	var cmd interface{}
	var err error
	if _, p := hx.Safe(func() { cmd, err = proto.Decode(ctx, rb) }); p || err != nil || cmd == nil {
		return "undecodable", nil, "q"
	}
	frame, ok := cmd.(api.XFrame)
	if !ok || rb.Len() != 0 {
		return "undecodable", nil, "q"
	}
	kind := "q"
	if frame.GetStreamType() == api.Response {
		kind = "r"
	}
	// the connection reuses its read buffer
	for i := range in {
		in[i] = 0xEE
	}
	rb.Reset()
	// the proxy hands the frame's own data buffer back through AppendData -> SetData
	if d := frame.GetData(); d != nil {
		frame.SetData(d)
	}
	var out [][]byte
	var churn []buffer.IoBuffer
	defer func() {
		for _, b := range churn {
			hx.Safe(func() { buffer.PutIoBuffer(b) })
		}
	}()
	for _, r := range rounds {
		var buf api.IoBuffer
		var encErr error
		if _, p := hx.Safe(func() {
			frame.SetRequestId(r.id)
			buf, encErr = proto.Encode(ctx, frame)
		}); p {
			return "panic", out, kind
		}
		if encErr != nil || buf == nil {
			return "err", out, kind
		}
		n := buf.Len()
		var werr error
		if _, p := hx.Safe(func() { werr = l.conn.Write(buf) }); p || werr != nil {
			return "err", out, kind
		}
		got := make([]byte, n)
		l.peer.SetReadDeadline(time.Now().Add(10 * time.Second))
		if _, err := io.ReadFull(l.peer, got); err != nil {
			return "err", out, kind
		}
		out = append(out, got)
		// other traffic of the process: buffers taken from the pool and filled
		for j := 0; j < r.k; j++ {
			sz := sizes(len(input))
			b := buffer.GetIoBuffer(sz)
			fill := make([]byte, sz)
			for i := range fill {
				fill[i] = 0xEE
			}
			b.Write(fill)
			churn = append(churn, b)
		}
	}
	return "ok", out, kind
}

func runReenc(c *hx.Ctx) {
	r := c.Rng.Fork()
	// a recycled buffer that is still in use also corrupts the logger's own pooled buffers: such log lines are not
	// valid UTF-8 and ./check cannot read them. Nothing below needs the log.
	lvl := log.DefaultLogger.GetLogLevel()
	log.DefaultLogger.SetLogLevel(log.FATAL)
	defer log.DefaultLogger.SetLogLevel(lvl)
	l := reencDial()
	defer l.close()
	for _, name := range framegen.Protos {
		proto := framegen.Codec(name).NewXProtocol(context.Background())
		for i := 0; i < c.N(60, 400); i++ {
			f := framegen.Gen(r, name, !r.Chance(25))
			if len(f.Bytes) > 6000 || !framegen.Valid(f) {
				c.Count("reenc.gen.skipped")
				continue
			}
			n := 2 + r.Intn(3)
			var rounds []reencRound
			id := pickID(r)
			for j := 0; j < n; j++ {
				if j > 0 && r.Chance(35) {
					id = pickID(r) // a retry on another upstream connection gets another stream id
				}
				rounds = append(rounds, reencRound{id: id, k: r.Pick([]int{0, 1, 1, 2, 5})})
			}
			st, out, kind := reencOne(l, proto, f.Bytes, rounds, func(n int) int {
				if r.Chance(60) { // the size class of the frame itself
					return n
				}
				return 1 + r.Intn(2*n)
			})
			if st == "undecodable" {
				c.Count("reenc.gen.undecodable")
				continue
			}
			var rs, es []string
			for _, x := range rounds {
				rs = append(rs, fmt.Sprintf("%d:%d", x.id, x.k))
			}
			for _, e := range out {
				es = append(es, hx.Hex(e))
			}
			encs := "-"
			if len(es) > 0 {
				encs = strings.Join(es, ",")
			}
			c.Emit("C01", fmt.Sprintf("reenc %s %s %s %s", name, kind, strings.Join(rs, ","), hx.Hex(f.Bytes)), st+" "+encs)
			c.Count("reenc." + name + "." + f.Kind + "=" + st)
			c.Count(fmt.Sprintf("reenc.tries=%d", n))
			if st != "ok" {
				// the link may hold half a frame: start over with a new one
				l.close()
				l = reencDial()
			}
		}
	}
}
