//go:build verif

package c01

import (
	"bufio"
	"context"
	"fmt"
	"net"
	"net/url"
	"strings"

	"github.com/valyala/fasthttp"
	mosnhttp "mosn.io/mosn/pkg/protocol/http"
	shttp "mosn.io/mosn/pkg/stream/http"
	"mosn.io/mosn/pkg/types"
	"mosn.io/pkg/variable"

	"verif/harness/hx"
)

var uriSegs = []string{"a", "home", "sample", "b.c", "%2F", "%2f", "%41", "%zz", "%", "..", ".", "", "*", ";p=1", "\xc3\xa9", "%C3%A9",
	"+", "%20", "%25%36%64", "a%00b", "~", "x=y", "@", ":", "'", "{}", "\\", "a..b", "...", "%2e%2e", "%2E", "index.html"}
var uriQueries = []string{"", "", "", "?", "?a=1", "?a=1&b=%20", "?x=/../y", "??", "?a=b?c", "?%zz", "?\xc3\xa9", "?a=1&&", "?=", "?a+b", "?/"}

func genTarget(r *hx.Rng) string {
	if r.Chance(3) {
		return "*"
	}
	n := 1 + r.Intn(5)
	var sb strings.Builder
	for i := 0; i < n; i++ {
		sb.WriteByte('/')
		if r.Chance(12) {
			sb.WriteByte('/') // duplicate slash
		}
		sb.WriteString(uriSegs[r.Intn(len(uriSegs))])
	}
	if r.Chance(25) {
		sb.WriteByte('/')
	}
	return sb.String() + uriQueries[r.Intn(len(uriQueries))]
}

// runURI: raw request line → fasthttp parse → real injectCtxVarFromProtocolHeaders → (optional rewrite of the path
// variable, as a route rewrite does) → real buildUrlFromCtxVar / FillRequestHeadersFromCtxVar.
func runURI(c *hx.Ctx) {
	r := c.Rng.Fork()
	addr, _ := net.ResolveTCPAddr("tcp", "127.0.0.1:12200")
	n := c.N(1200, 30000)
	for i := 0; i < n; i++ {
		target := genTarget(r)
		method := "GET"
		if target == "*" {
			method = "OPTIONS"
		}
		raw := method + " " + target + " HTTP/1.1\r\nHost: example.com\r\n\r\n"
		var req fasthttp.Request
		if err := req.Read(bufio.NewReader(strings.NewReader(raw))); err != nil {
			c.Count("uri.unparsable")
			continue
		}
		ctx := variable.NewVariableContext(context.Background())
		shttp.VerifInjectCtxVar(ctx, mosnhttp.RequestHeader{RequestHeader: &req.Header}, req.URI())
		pathVar, _ := variable.GetString(ctx, types.VarPath)
		po, _ := variable.GetString(ctx, types.VarPathOriginal)
		qs, _ := variable.GetString(ctx, types.VarQueryString)
		rewrite := "-"
		final := pathVar
		if r.Chance(20) {
			final = r.PickS([]string{"/rewritten", "/re written", "/r\xc3\xa9", "*", "", "/a%2Fb", po, pathVar + "/x", "/a//b"})
			variable.SetString(ctx, types.VarPath, final)
			rewrite = hx.Hex([]byte(final))
			if final == "" {
				rewrite = "00" // marker for "set to the empty string" (hx.Hex renders empty as '-')
				c.Count("uri.rewrite=empty")
			}
			c.Count("uri.rewritten")
		}
		out := shttp.VerifBuildURL(ctx)
		var up fasthttp.Request
		shttp.FillRequestHeadersFromCtxVar(ctx, mosnhttp.RequestHeader{RequestHeader: &up.Header}, addr)
		if got := string(up.Header.RequestURI()); got != out {
			out = "MISMATCH:" + got
		}
		unesc := "E"
		if u, err := url.PathUnescape(po); err == nil {
			unesc = hx.Hex([]byte(u))
		}
		fh := shttp.VerifFasthttpPath(po)
		ru := (&url.URL{Path: final}).RequestURI()
		c.Emit("C01", fmt.Sprintf("uri %s %s %s %s %s %s %s %s", hx.Hex([]byte(target)), rewrite, hx.Hex([]byte(pathVar)), hx.Hex([]byte(po)),
			hx.Hex([]byte(qs)), unesc, hx.Hex([]byte(fh)), hx.Hex([]byte(ru))), hx.Hex([]byte(out)))
		switch {
		case strings.HasSuffix(target, "?"):
			c.Count("uri.query=empty-with-?")
		case strings.Contains(target, "?"):
			c.Count("uri.query=present")
		default:
			c.Count("uri.query=none")
		}
		if pathVar != po {
			c.Count("uri.normalised_differs")
		}
		if unesc == "E" {
			c.Count("uri.bad_escape")
		}
	}
}
