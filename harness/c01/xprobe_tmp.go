//go:build verif

package c01

import (
	"fmt"
	"os"

	"verif/harness/hx"
)

func h2show(st string, m *h2Msg) string {
	if m == nil {
		return st
	}
	return fmt.Sprintf("%s interim=%v P=%q F=%q end=%c nData=%d body=%d:%q T(%v)=%q", st, m.interim, m.pseudo, m.fields, m.endAt, m.nData, len(m.body), trunc(m.body), m.hasTrailers, m.trailers)
}
func h1show(m *h1Msg) string {
	if m == nil {
		return "lost"
	}
	return fmt.Sprintf("interim=%v start=%q F=%q framing=%s body=%d:%q T(%v)=%q", m.interim, m.start, m.fields, m.framing, len(m.body), trunc(m.body), m.hasTrailers, m.trailers)
}
func trunc(b []byte) string {
	if len(b) > 40 {
		return string(b[:40]) + "..."
	}
	return string(b)
}

func runXProbe(c *hx.Ctx) {
	p := func(f string, a ...interface{}) { fmt.Fprintf(os.Stderr, f+"\n", a...) }
	reqH2 := func(method, path string, fields [][2]string, chunks [][]byte, endOnHeaders bool, tr [][2]string, hasT bool) *h2Msg {
		return &h2Msg{pseudo: [][2]string{{":method", method}, {":scheme", "http"}, {":authority", "Example.com:80"}, {":path", path}}, fields: fields,
			chunks: chunks, endOnHeaders: endOnHeaders, trailers: tr, hasTrailers: hasT}
	}
	respH2 := func(status string, fields [][2]string, chunks [][]byte, endOnHeaders bool, tr [][2]string, hasT bool, interim ...int) *h2Msg {
		return &h2Msg{pseudo: [][2]string{{":status", status}}, fields: fields, chunks: chunks, endOnHeaders: endOnHeaders, trailers: tr, hasTrailers: hasT, interim: interim}
	}
	type sc struct {
		name string
		req  *xReq
		resp *xReq
	}
	rf := [][2]string{{"x-a", "1"}, {"cookie", "a=1"}, {"cookie", "b=2"}, {"x-dup", "one"}, {"x-dup", "two"}, {"x-empty", ""}, {"te", "trailers"}}
	sf := [][2]string{{"set-cookie", "a=1; Path=/"}, {"set-cookie", "b=2"}, {"x-dup", "one"}, {"x-dup", "two"}, {"x-empty", ""}, {"content-type", "x/y"}}
	for _, kind := range []string{"h2t", "x21", "x12"} {
		s := xSetup(kind)
		var scs []sc
		mkReq := func(method, path string, fields [][2]string, body string, endOnHeaders bool, tr [][2]string, hasT bool) *xReq {
			if s.down == "Http2" {
				var ch [][]byte
				if body != "" {
					ch = [][]byte{[]byte(body)}
				}
				return &xReq{h2: reqH2(method, path, fields, ch, endOnHeaders, tr, hasT)}
			}
			m := &h1Msg{start: [2]string{method, path}, fields: append([][2]string{{"Host", "Example.com:80"}}, fields...), body: []byte(body), trailers: tr, hasTrailers: hasT, framing: "cl"}
			if body == "" && endOnHeaders {
				m.framing = "none"
			}
			var ch [][]byte
			if hasT {
				m.framing = "ch"
				ch = [][]byte{[]byte(body)}
			}
			return &xReq{h1: m, h1chunks: ch}
		}
		mkResp := func(status string, fields [][2]string, body string, endOnHeaders bool, tr [][2]string, hasT bool, interim ...int) *xReq {
			if s.up == "Http2" {
				var ch [][]byte
				if body != "" {
					ch = [][]byte{[]byte(body)}
				}
				return &xReq{h2: respH2(status, fields, ch, endOnHeaders, tr, hasT, interim...)}
			}
			m := &h1Msg{start: [2]string{status, ""}, fields: fields, body: []byte(body), trailers: tr, hasTrailers: hasT, framing: "cl", interim: interim}
			var ch [][]byte
			if hasT {
				m.framing = "ch"
				ch = [][]byte{[]byte(body)}
			}
			return &xReq{h1: m, h1chunks: ch}
		}
		tr := [][2]string{{"x-t1", "v1"}, {"x-t2", "v2"}, {"x-t2", "v3"}}
		scs = append(scs,
			sc{"get-nobody", mkReq("GET", "/a/b?x=1&y=%20", rf, "", true, nil, false), mkResp("200", sf, "hello", false, nil, false)},
			sc{"post-body", mkReq("POST", "/a%2Fb//c?q", rf, "body", false, nil, false), mkResp("200", sf, "", true, nil, false)},
			sc{"post-emptydata", mkReq("POST", "/p", nil, "", false, nil, false), mkResp("204", nil, "", true, nil, false)},
			sc{"post-trailers-announced", mkReq("POST", "/p", [][2]string{{"trailer", "x-t1, x-t2"}}, "body", false, tr, true), mkResp("200", [][2]string{{"trailer", "x-t1, x-t2"}}, "resp", false, tr, true)},
			sc{"post-trailers-unannounced", mkReq("POST", "/p", nil, "body", false, tr, true), mkResp("200", nil, "resp", false, tr, true)},
			sc{"post-trailers-emptybody", mkReq("POST", "/p", [][2]string{{"trailer", "x-t1, x-t2"}}, "", false, tr, true), mkResp("200", nil, "", false, tr, true)},
			sc{"announced-not-sent", mkReq("POST", "/p", [][2]string{{"trailer", "x-t1"}}, "body", false, nil, false), mkResp("200", [][2]string{{"trailer", "x-t1"}}, "resp", false, nil, false)},
			sc{"empty-trailer-block", mkReq("POST", "/p", nil, "body", false, nil, true), mkResp("200", nil, "resp", false, nil, true)},
			sc{"path-chars", mkReq("GET", "/a{b}|c\"d^e`f[g]h<i>?q={x}|y", nil, "", true, nil, false), mkResp("200", [][2]string{{"set-cookie", "a=1"}, {"set-cookie", "a=2"}}, "", true, nil, false)},
			sc{"path-emptyquery", mkReq("GET", "/a?", nil, "", true, nil, false), mkResp("200", nil, "", false, nil, false)},
			sc{"path-dots", mkReq("GET", "/a/../b/./c//d", nil, "", true, nil, false), mkResp("200", nil, "x", false, nil, false)},
			sc{"head", mkReq("HEAD", "/h", nil, "", true, nil, false), mkResp("200", [][2]string{{"content-length", "5"}}, "", true, nil, false)},
			sc{"304", mkReq("GET", "/h", nil, "", true, nil, false), mkResp("304", [][2]string{{"etag", "\"x\""}}, "", true, nil, false)},
			sc{"interim", mkReq("GET", "/h", nil, "", true, nil, false), mkResp("200", nil, "fin", false, nil, false, 103)},
			sc{"connhdrs-resp", mkReq("GET", "/h", nil, "", true, nil, false), mkResp("200", [][2]string{{"connection", "keep-alive"}, {"keep-alive", "timeout=5"}}, "fin", false, nil, false)},
		)
		if s.down == "Http1" {
			scs = append(scs, sc{"connhdrs-req", mkReq("GET", "/h", [][2]string{{"Connection", "keep-alive"}, {"Keep-Alive", "timeout=5"}, {"Proxy-Connection", "keep-alive"}, {"X-Mixed-CASE", "V"}}, "", true, nil, false), mkResp("200", nil, "fin", false, nil, false)})
		}
		for _, x := range scs {
			gq, gr := s.exchange(x.req, x.resp)
			_ = gq
			_ = gr
			p("== %s %s", kind, x.name)
			p("   lastReq : %s", lastReqShow)
			p("   lastResp: %s", lastRespShow)
		}
	}
}

var lastReqShow, lastRespShow string
