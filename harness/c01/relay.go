//go:build verif

package c01

import (
	"context"
	"fmt"
	"io"
	"net"
	"strings"
	"time"

	"mosn.io/api"
	v2 "mosn.io/mosn/pkg/config/v2"
	"mosn.io/mosn/pkg/filter/network/streamproxy"
	"mosn.io/mosn/pkg/network"
	"mosn.io/mosn/pkg/types"
	"mosn.io/mosn/pkg/upstream/cluster"
	"mosn.io/pkg/variable"

	"verif/harness/hx"
)

// The TCP relay on loopback: client ⇄ [MOSN server connection + real streamproxy filter + MOSN client connection] ⇄ upstream.
// Every byte carries its stream offset (pattern below), so reordering, duplication and loss are all visible.

const relayCluster = "c01-relay"

func pat(dir byte, off int) byte { return byte(off*31+off/251) ^ dir }

func fill(dir byte, from, n int) []byte {
	b := make([]byte, n)
	for i := range b {
		b[i] = pat(dir, from+i)
	}
	return b
}

// verdict compares what one peer received with the stream the other peer sent.
func verdict(dir byte, got []byte, want int) string {
	for i, x := range got {
		if i >= want {
			return fmt.Sprintf("extra:%d", len(got))
		}
		if x != pat(dir, i) {
			return fmt.Sprintf("corrupt@%d", i)
		}
	}
	if len(got) < want {
		return fmt.Sprintf("short:%d", len(got))
	}
	return "ok"
}

func sizesTok(s []int) string {
	if len(s) == 0 {
		return "-"
	}
	var p []string
	for _, n := range s {
		p = append(p, fmt.Sprint(n))
	}
	return strings.Join(p, ",")
}

func sum(s []int) int {
	t := 0
	for _, n := range s {
		t += n
	}
	return t
}

func genChunks(r *hx.Rng) []int {
	n := 1 + r.Intn(6)
	var s []int
	for i := 0; i < n; i++ {
		s = append(s, r.Pick([]int{0, 1, 2, 100, 1460, 4095, 4096, 4097, 16384, 65535, 65536, 200000, 1 << 20, r.Intn(5000)}))
	}
	if r.Chance(70) { // keep most sessions small
		for i := range s {
			if s[i] > 70000 {
				s[i] = r.Intn(3000)
			}
		}
	}
	return s
}

func writeChunks(c net.Conn, dir byte, from int, sizes []int, r *hx.Rng) {
	off := from
	for _, n := range sizes {
		if n > 0 {
			c.Write(fill(dir, off, n))
		}
		off += n
		if len(sizes) < 20 && r.Chance(20) {
			time.Sleep(time.Duration(r.Intn(3)) * time.Millisecond)
		}
	}
}

func readN(c net.Conn, n int) []byte {
	b := make([]byte, n)
	k, _ := io.ReadFull(c, b)
	return b[:k]
}

func readAll(c net.Conn) []byte {
	c.SetReadDeadline(time.Now().Add(20 * time.Second))
	b, _ := io.ReadAll(c)
	return b
}

func runRelay(c *hx.Ctx) {
	r := c.Rng.Fork()
	up, err := net.Listen("tcp", "127.0.0.1:0")
	if err != nil {
		panic(err)
	}
	defer up.Close()
	front, err := net.Listen("tcp", "127.0.0.1:0")
	if err != nil {
		panic(err)
	}
	defer front.Close()
	cluster.NewClusterManagerSingleton(nil, nil, nil)
	cm := cluster.GetClusterMngAdapterInstance()
	if err := cm.AddOrUpdatePrimaryCluster(v2.Cluster{Name: relayCluster, ClusterType: v2.SIMPLE_CLUSTER, LbType: v2.LB_RANDOM}); err != nil {
		panic(err)
	}
	if err := cm.UpdateClusterHosts(relayCluster, []v2.Host{{HostConfig: v2.HostConfig{Address: up.Addr().String()}}}); err != nil {
		panic(err)
	}
	factory, err := streamproxy.CreateTCPProxyFactory(map[string]interface{}{"cluster": relayCluster})
	if err != nil {
		panic(err)
	}
	n := c.N(300, 3000)
	for i := 0; i < n; i++ {
		scen := r.PickS([]string{"A", "B", "B", "C", "D"})
		if i%50 == 7 {
			scen = "E" // the upstream pushes far more than the socket buffers hold and closes at once; the client starts reading late
		}
		if i%50 == 31 {
			scen = "F" // the same in the other direction
		}
		cs, ss := genChunks(r), genChunks(r)
		bulk := func() []int {
			var s []int
			for k := 0; k < 192+r.Intn(128); k++ {
				s = append(s, 65536)
			}
			return s
		}
		var extra []int // scenario D: sent by the client after it has read the whole response
		switch scen {
		case "A":
			ss = nil
		case "C":
			cs = nil
		case "D":
			extra = genChunks(r)
		case "E":
			cs, ss = nil, bulk()
		case "F":
			cs, ss = bulk(), nil
		}
		nc, ns, ne := sum(cs), sum(ss), sum(extra)
		type res struct{ got []byte }
		srvDone := make(chan res, 1)
		go func() { // upstream peer
			conn, err := up.Accept()
			if err != nil {
				srvDone <- res{}
				return
			}
			defer conn.Close()
			switch scen {
			case "A":
				srvDone <- res{readAll(conn)}
			case "B":
				got := readN(conn, nc)
				writeChunks(conn, 's', 0, ss, r.Fork())
				srvDone <- res{got} // closes right after its last write (deferred Close)
			case "C", "E":
				writeChunks(conn, 's', 0, ss, r.Fork())
				srvDone <- res{nil}
			case "F":
				time.Sleep(200 * time.Millisecond)
				srvDone <- res{readAll(conn)}
			case "D":
				got := readN(conn, nc)
				writeChunks(conn, 's', 0, ss, r.Fork())
				got = append(got, readAll(conn)...)
				srvDone <- res{got}
			}
		}()
		go func() { // MOSN: accept the downstream connection and install the real filter, as activeListener.OnNewConnection does
			rawc, err := front.Accept()
			if err != nil {
				return
			}
			ctx := variable.NewVariableContext(context.Background())
			variable.Set(ctx, types.VariableAccessLogs, []api.AccessLog{})
			conn := network.NewServerConnection(ctx, rawc, nil)
			factory.CreateFilterChain(ctx, conn.FilterManager())
			conn.FilterManager().InitializeReadFilters()
			conn.Start(ctx)
		}()
		cli, err := net.Dial("tcp", front.Addr().String())
		if err != nil {
			panic(err)
		}
		var cliGot []byte
		switch scen {
		case "A", "F":
			writeChunks(cli, 'c', 0, cs, r.Fork())
			cli.Close() // immediately after the last write
		case "E":
			time.Sleep(200 * time.Millisecond)
			cliGot = readAll(cli)
			cli.Close()
		case "B", "C":
			writeChunks(cli, 'c', 0, cs, r.Fork())
			cliGot = readAll(cli)
			cli.Close()
		case "D":
			writeChunks(cli, 'c', 0, cs, r.Fork())
			cliGot = readN(cli, ns)
			writeChunks(cli, 'c', nc, extra, r.Fork())
			cli.Close() // immediately after the last write
		}
		sr := <-srvDone
		c2s := verdict('c', sr.got, nc+ne)
		s2c := verdict('s', cliGot, ns)
		if scen == "A" || scen == "F" {
			s2c = "ok"
		}
		if scen == "C" || scen == "E" {
			c2s = "ok"
		}
		c.Emit("C01", fmt.Sprintf("relay %s %s %s %s", scen, sizesTok(cs), sizesTok(ss), sizesTok(extra)), c2s+" "+s2c)
		c.Count("relay.scenario=" + scen)
		c.Count("relay.bytes=" + lenBucket(nc+ns+ne))
	}
}
