//go:build verif

package c01

import (
	"context"
	"fmt"
	"net"
	"sync"
	"time"

	"mosn.io/api"
	v2 "mosn.io/mosn/pkg/config/v2"
	"mosn.io/mosn/pkg/filter/network/streamproxy"
	"mosn.io/mosn/pkg/network"
	"mosn.io/mosn/pkg/types"
	"mosn.io/mosn/pkg/upstream/cluster"
	"mosn.io/pkg/variable"

	"verif/harness/hx"
)

// Kind `relayup`: the upstream speaks first.
//
//	relayup <close|hold|wait> <greeting chunk sizes> <client chunk sizes> <response chunk sizes> => <c2s> <s2c>
//
// The upstream writes a greeting (0, 1, many bytes) the moment it has accepted MOSN's connection:
//   close: ... and closes at once;
//   hold : ... and then waits for the client (which first reads the whole greeting, then closes);
//   wait : ... then waits for the client's bytes (the client only speaks after it has read the whole greeting), answers and
//          closes at once.
// The window between "the upstream connection's read loop runs" (clientConnection.Connect → Start) and "Connect has
// returned to initializeUpstreamConnection" is widened deterministically through exported API only: the cluster manager
// the proxy asks for its upstream connection is wrapped, and the wrapper registers a connection event listener AHEAD of
// the proxy's that, on `Connected`, waits until the upstream peer has written its greeting (and closed, in mode close)
// plus a few milliseconds for the read loop to pick the bytes up.  Every byte carries its stream offset.

const relayUpCluster = "c01-relayup"

type c01rSlowCM struct {
	types.ClusterManager
	mu   sync.Mutex
	wait func() // what the listener of the next connection does on Connected
}

func (w *c01rSlowCM) TCPConnForCluster(ctx types.LoadBalancerContext, snap types.ClusterSnapshot) types.CreateConnectionData {
	d := w.ClusterManager.TCPConnForCluster(ctx, snap)
	w.mu.Lock()
	f := w.wait
	w.mu.Unlock()
	if d.Connection != nil && f != nil {
		d.Connection.AddConnectionEventListener(c01rSlowListener{f})
	}
	return d
}

type c01rSlowListener struct{ f func() }

func (l c01rSlowListener) OnEvent(e api.ConnectionEvent) {
	if e == api.Connected {
		l.f()
	}
}

func c01rGreeting(r *hx.Rng) []int {
	switch r.Intn(6) {
	case 0:
		return nil
	case 1:
		return []int{1}
	case 2:
		return []int{r.Pick([]int{2, 100, 1460, 4095, 4096, 4097})}
	case 3:
		return []int{r.Pick([]int{16384, 65535, 65536, 100000})}
	default:
		n := 2 + r.Intn(3)
		var s []int
		for i := 0; i < n; i++ {
			s = append(s, r.Pick([]int{0, 1, 2, 100, 1460, 4096, r.Intn(3000)}))
		}
		return s
	}
}

func c01rSmall(r *hx.Rng) []int {
	n := 1 + r.Intn(3)
	var s []int
	for i := 0; i < n; i++ {
		s = append(s, r.Pick([]int{1, 2, 100, 1460, 4096, 1 + r.Intn(3000)}))
	}
	return s
}

func runRelayFirst(c *hx.Ctx) {
	r := c.Rng.Fork()
	up, err := net.Listen("tcp", "127.0.0.1:0")
	if err != nil {
		panic(err)
	}
	defer up.Close()
	front, err := net.Listen("tcp", "127.0.0.1:0")
	if err != nil {
		panic(err)
	}
	defer front.Close()
	cluster.NewClusterManagerSingleton(nil, nil, nil)
	cm := cluster.GetClusterMngAdapterInstance()
	if err := cm.AddOrUpdatePrimaryCluster(v2.Cluster{Name: relayUpCluster, ClusterType: v2.SIMPLE_CLUSTER, LbType: v2.LB_RANDOM}); err != nil {
		panic(err)
	}
	if err := cm.UpdateClusterHosts(relayUpCluster, []v2.Host{{HostConfig: v2.HostConfig{Address: up.Addr().String()}}}); err != nil {
		panic(err)
	}
	// the proxy takes its cluster manager from the adapter when it is created: wrap it for the duration of this kind
	inner := cm.ClusterManager
	slow := &c01rSlowCM{ClusterManager: inner}
	cm.ClusterManager = slow
	defer func() { cm.ClusterManager = inner }()
	factory, err := streamproxy.CreateTCPProxyFactory(map[string]interface{}{"cluster": relayUpCluster})
	if err != nil {
		panic(err)
	}
	n := c.N(90, 900)
	for i := 0; i < n; i++ {
		mode := []string{"close", "hold", "wait"}[i%3]
		gs := c01rGreeting(r)
		if i < 9 { // the boundaries first: 0, 1, many bytes in every mode
			gs = [][]int{nil, {1}, {1460, 1, 4096}}[i/3]
		}
		var cs, ss []int
		if mode == "wait" {
			cs, ss = c01rSmall(r), c01rSmall(r)
		}
		ng, nc, ns := sum(gs), sum(cs), sum(ss)
		greeted := make(chan struct{})
		slow.mu.Lock()
		slow.wait = func() {
			select {
			case <-greeted:
			case <-time.After(2 * time.Second):
			}
			time.Sleep(8 * time.Millisecond)
		}
		slow.mu.Unlock()
		type res struct{ got []byte }
		srvDone := make(chan res, 1)
		go func() { // upstream peer: speaks first
			conn, err := up.Accept()
			if err != nil {
				close(greeted)
				srvDone <- res{}
				return
			}
			writeChunks(conn, 's', 0, gs, r.Fork())
			switch mode {
			case "close":
				conn.Close()
				close(greeted)
				srvDone <- res{nil}
			case "hold":
				close(greeted)
				srvDone <- res{readAll(conn)} // until the client has gone
				conn.Close()
			case "wait":
				close(greeted)
				conn.SetReadDeadline(time.Now().Add(3 * time.Second))
				got := readN(conn, nc)
				writeChunks(conn, 's', ng, ss, r.Fork())
				conn.Close()
				srvDone <- res{got}
			}
		}()
		go func() { // MOSN: accept the downstream connection and install the real filter, as activeListener.OnNewConnection does
			rawc, err := front.Accept()
			if err != nil {
				return
			}
			ctx := variable.NewVariableContext(context.Background())
			variable.Set(ctx, types.VariableAccessLogs, []api.AccessLog{})
			conn := network.NewServerConnection(ctx, rawc, nil)
			factory.CreateFilterChain(ctx, conn.FilterManager())
			conn.FilterManager().InitializeReadFilters()
			conn.Start(ctx)
		}()
		cli, err := net.Dial("tcp", front.Addr().String())
		if err != nil {
			panic(err)
		}
		var cliGot []byte
		lateGreeting := -1
		switch mode {
		case "close":
			cliGot = readAll(cli)
		case "hold":
			cli.SetReadDeadline(time.Now().Add(1500 * time.Millisecond))
			cliGot = readN(cli, ng) // a client of a server-speaks-first protocol: nothing is sent before the greeting
		case "wait":
			cli.SetReadDeadline(time.Now().Add(1500 * time.Millisecond))
			cliGot = readN(cli, ng)
			if len(cliGot) < ng {
				lateGreeting = len(cliGot)
			}
			writeChunks(cli, 'c', 0, cs, r.Fork())
			cliGot = append(cliGot, readAll(cli)...)
		}
		cli.Close()
		sr := <-srvDone
		c2s := "ok"
		if mode == "wait" {
			c2s = verdict('c', sr.got, nc)
		} else if mode == "hold" && len(sr.got) != 0 {
			c2s = fmt.Sprintf("extra:%d", len(sr.got))
		}
		s2c := verdict('s', cliGot, ng+ns)
		if lateGreeting >= 0 {
			s2c = fmt.Sprintf("short:%d", lateGreeting) // all the client had when it was its turn to speak
		}
		c.Emit("C01", fmt.Sprintf("relayup %s %s %s %s", mode, sizesTok(gs), sizesTok(cs), sizesTok(ss)), c2s+" "+s2c)
		c.Count("relayup.mode=" + mode)
		c.Count("relayup.greeting=" + lenBucket(ng))
		c.Count(fmt.Sprintf("relayup.greeting_chunks=%d", len(gs)))
	}
	slow.mu.Lock()
	slow.wait = nil
	slow.mu.Unlock()
}
