//go:build verif

package c01

import (
	"bytes"
	"context"
	"crypto/tls"
	"fmt"
	"io"
	"net"
	"net/http"
	"sort"
	"strings"
	"sync"
	"time"

	"golang.org/x/net/http2"
	"golang.org/x/net/http2/h2c"
	"mosn.io/api"
	v2 "mosn.io/mosn/pkg/config/v2"
	proxyfilter "mosn.io/mosn/pkg/filter/network/proxy"
	"mosn.io/mosn/pkg/network"
	"mosn.io/mosn/pkg/router"
	_ "mosn.io/mosn/pkg/stream/http2"
	"mosn.io/mosn/pkg/types"
	"mosn.io/mosn/pkg/upstream/cluster"
	"mosn.io/pkg/variable"

	"verif/harness/hx"
)

// HTTP/2 (prior-knowledge cleartext) end to end through the real proxy core: x/net/http2 client → MOSN server
// connection with the real proxy filter (HTTP/2 server stream, router, cluster, HTTP/2 pool and client stream) → x/net h2c
// recording upstream. Compared: method, :path, header multiset, body; status, header multiset, body.

const h2Cluster = "c01-http2"
const h2Router = "c01-http2-router"

func canonH2(h http.Header, host string) string {
	var p []string
	for k, vs := range h {
		lk := strings.ToLower(k)
		if hopByHop[lk] || lk == "user-agent" && len(vs) == 1 && strings.HasPrefix(vs[0], "Go-http-client") {
			continue
		}
		for _, v := range vs {
			p = append(p, lk+":"+hx.Hex([]byte(v)))
		}
	}
	if host != "" {
		p = append(p, "host:"+hx.Hex([]byte(strings.ToLower(host))))
	}
	sort.Strings(p)
	if len(p) == 0 {
		return "-"
	}
	return strings.Join(p, ",")
}

type h2Seen struct {
	method, target, hdrs string
	body                 []byte
}

var h2Once sync.Once
var h2Factory api.NetworkFilterChainFactory
var h2UpLn net.Listener

func runHTTP2(c *hx.Ctx) {
	r := c.Rng.Fork()
	next := make(chan *httpMsg, 1)
	seen := make(chan *h2Seen, 1)
	h2Once.Do(func() {
		http1Setup() // server config, cluster manager singleton
		var err error
		h2UpLn, err = net.Listen("tcp", "127.0.0.1:0")
		if err != nil {
			panic(err)
		}
		cm := cluster.GetClusterMngAdapterInstance()
		if err := cm.AddOrUpdatePrimaryCluster(v2.Cluster{Name: h2Cluster, ClusterType: v2.SIMPLE_CLUSTER, LbType: v2.LB_RANDOM}); err != nil {
			panic(err)
		}
		if err := cm.UpdateClusterHosts(h2Cluster, []v2.Host{{HostConfig: v2.HostConfig{Address: h2UpLn.Addr().String()}}}); err != nil {
			panic(err)
		}
		rc := &v2.RouterConfiguration{
			RouterConfigurationConfig: v2.RouterConfigurationConfig{RouterConfigName: h2Router},
			VirtualHosts: []v2.VirtualHost{{Name: "all", Domains: []string{"*"}, Routers: []v2.Router{{RouterConfig: v2.RouterConfig{
				Match: v2.RouterMatch{Prefix: "/"},
				Route: v2.RouteAction{RouterActionConfig: v2.RouterActionConfig{ClusterName: h2Cluster}}}}}}},
		}
		if err := router.GetRoutersMangerInstance().AddOrUpdateRouters(rc); err != nil {
			panic(err)
		}
		h2Factory, err = proxyfilter.CreateProxyFactory(map[string]interface{}{
			"downstream_protocol": "Http2", "upstream_protocol": "Http2", "router_config_name": h2Router})
		if err != nil {
			panic(err)
		}
	})
	handler := http.HandlerFunc(func(w http.ResponseWriter, req *http.Request) {
		body, _ := io.ReadAll(req.Body)
		seen <- &h2Seen{req.Method, req.RequestURI, canonH2(req.Header, req.Host), body}
		resp := <-next
		for _, kv := range resp.header {
			w.Header().Add(kv[0], kv[1])
		}
		if headerLacks(resp.header, "content-type") {
			w.Header()["Content-Type"] = nil // no content sniffing by the recording upstream itself
		}
		var code int
		fmt.Sscan(resp.first, &code)
		w.WriteHeader(code)
		w.Write(resp.body)
	})
	srv := &http.Server{Handler: h2c.NewHandler(handler, &http2.Server{})}
	go srv.Serve(h2UpLn)
	front, err := net.Listen("tcp", "127.0.0.1:0")
	if err != nil {
		panic(err)
	}
	defer front.Close()
	go func() {
		for {
			rawc, err := front.Accept()
			if err != nil {
				return
			}
			ctx := variable.NewVariableContext(context.Background())
			variable.Set(ctx, types.VariableAccessLogs, []api.AccessLog{})
			variable.Set(ctx, types.VariableListenerName, "c01-http2")
			conn := network.NewServerConnection(ctx, rawc, nil)
			h2Factory.CreateFilterChain(ctx, conn.FilterManager())
			conn.FilterManager().InitializeReadFilters()
			conn.Start(ctx)
		}
	}()
	dialTo := front.Addr().String()
	for _, a := range c.Args {
		if a == "h2direct" { // calibration: client straight to the recording upstream, MOSN not in the path
			dialTo = h2UpLn.Addr().String()
		}
	}
	tr := &http2.Transport{AllowHTTP: true, DisableCompression: true, DialTLS: func(network, addr string, _ *tls.Config) (net.Conn, error) {
		return net.Dial(network, dialTo)
	}}
	client := &http.Client{Transport: tr, Timeout: 10 * time.Second, CheckRedirect: func(*http.Request, []*http.Request) error { return http.ErrUseLastResponse }}
	n := c.N(150, 3000)
	for i := 0; i < n; i++ {
		method := r.PickS([]string{"GET", "POST", "POST", "PUT", "DELETE", "PATCH", "HEAD", "OPTIONS"})
		target := genTarget(r)
		for target == "*" || strings.HasPrefix(target, "//") || strings.ContainsAny(target, "\\{}\x00 ") || !isASCII(target) {
			target = genTarget(r)
		}
		var body []byte
		if method != "GET" && method != "HEAD" && method != "OPTIONS" && method != "DELETE" {
			body = genBody(r)
		}
		host := r.PickS([]string{"example.com", "a.b:8080"})
		req, err := http.NewRequest(method, "http://"+host+target, bytes.NewReader(body))
		if err != nil {
			c.Count("http2.skipped_target")
			continue
		}
		req.URL.Opaque = "" // keep RawPath / RawQuery as generated
		hs := genHeaders(r, true)
		for _, kv := range hs {
			if h2Friendly(kv) {
				req.Header.Add(kv[0], kv[1])
			}
		}
		resp := &httpMsg{first: fmt.Sprint(r.Pick([]int{200, 200, 201, 204, 301, 404, 500, 503}))}
		for _, kv := range genHeaders(r, false) {
			if h2Friendly(kv) {
				resp.header = append(resp.header, kv)
			}
		}
		if method != "HEAD" && resp.first != "204" {
			resp.body = genBody(r)
		}
		next <- resp
		sentReq := fmt.Sprintf("%s %s %s %s", method, hx.Hex([]byte(req.URL.RequestURI())), canonH2(req.Header, host), hx.Hex(body))
		res, err := client.Do(req)
		var got *h2Seen
		select {
		case got = <-seen:
		case <-time.After(3 * time.Second):
			select {
			case <-next:
			default:
			}
		}
		out := "lost"
		if got != nil {
			out = fmt.Sprintf("%s %s %s %s", got.method, hx.Hex([]byte(got.target)), got.hdrs, hx.Hex(got.body))
		}
		c.Emit("C01", "http2 req "+sentReq, out)
		out = "lost"
		if err == nil {
			b, _ := io.ReadAll(res.Body)
			res.Body.Close()
			if res.Header.Get("Date") != "" && headerLacks(resp.header, "date") {
				res.Header.Del("Date")
			}
			out = fmt.Sprintf("%d %s %s", res.StatusCode, canonH2(res.Header, ""), hx.Hex(b))
		}
		var rh http.Header = http.Header{}
		for _, kv := range resp.header {
			rh.Add(kv[0], kv[1])
		}
		c.Emit("C01", fmt.Sprintf("http2 resp %s %s %s %s", method, resp.first, canonH2(rh, ""), hx.Hex(resp.body)), out)
		c.Count("http2.method=" + method)
	}
	srv.Close()
}

func isASCII(s string) bool {
	for i := 0; i < len(s); i++ {
		if s[i] >= 0x80 {
			return false
		}
	}
	return true
}

// h2Friendly: header entries the x/net client / server themselves would rewrite (cookie crumbling on ';', an empty
// User-Agent is not sent at all) are left out so that every difference observed is MOSN's.
func h2Friendly(kv [2]string) bool {
	if strings.EqualFold(kv[0], "cookie") && strings.Contains(kv[1], ";") {
		return false
	}
	if (strings.EqualFold(kv[0], "user-agent") || strings.EqualFold(kv[0], "cookie")) && kv[1] == "" {
		return false // (checked with the `h2direct` calibration mode: lost between the two x/net endpoints without MOSN)
	}
	return validH2Value(kv[1])
}

func validH2Value(v string) bool {
	for i := 0; i < len(v); i++ {
		if v[i] < 0x20 && v[i] != '\t' || v[i] == 0x7f {
			return false
		}
	}
	return true
}

func headerLacks(h [][2]string, name string) bool {
	for _, kv := range h {
		if strings.EqualFold(kv[0], name) {
			return false
		}
	}
	return true
}
