//go:build verif

package c01

import (
	"bufio"
	"bytes"
	"context"
	"fmt"
	"io"
	"net"
	"sort"
	"strconv"
	"strings"
	"sync"
	"time"

	"github.com/valyala/fasthttp"
	"mosn.io/api"
	v2 "mosn.io/mosn/pkg/config/v2"
	"mosn.io/mosn/pkg/configmanager"
	proxyfilter "mosn.io/mosn/pkg/filter/network/proxy"
	"mosn.io/mosn/pkg/network"
	"mosn.io/mosn/pkg/protocol"
	mosnhttp "mosn.io/mosn/pkg/protocol/http"
	"mosn.io/mosn/pkg/router"
	"mosn.io/mosn/pkg/stream"
	"mosn.io/mosn/pkg/types"
	"mosn.io/mosn/pkg/upstream/cluster"
	"mosn.io/pkg/buffer"
	"mosn.io/pkg/variable"

	"verif/harness/hx"
)

// Kind `http1m`, message framing through HTTP/1 -> HTTP/1 (real server stream, proxy, pool, real client stream):
//
//	http1m q <METHOD> <none|cl0|cl|chunked|chunked0> <hopset> <bodyHex>
//	     => <METHOD> <te0|te1> <cl-|clN> <hop headers seen> <e2e ok|bad> <bodyHex> <i0|i1> <rSTATUS|rnone>
//	      | incomplete <METHOD> <te> <cl>        the upstream got a head whose announced body never arrived
//	      | lost                                 no head arrived at the upstream
//	    request direction: every method class x received framing x a set of hop-by-hop request headers. The recording
//	    upstream parses the head itself, reports the framing headers it was given and reads the body they announce
//	    with a deadline (so a request that would hang is observed, not waited for).
//	http1m r <METHOD> <STATUS> <cl0|cl|chunked|chunked0|close|none|hcl|hchunked> <bodyHex>
//	     => <STATUS> <te-|techunked|teidentity> <cl-|clN> <conn-|connclose> <e2e ok|bad> <bodyHex> <complete|incomplete> | lost
//	    response direction: the upstream answers with the given status and framing (hcl / hchunked: framing header without
//	    a body, as a HEAD or 304 response carries it); the client reads the response by the rules of RFC 7230 3.3.3.
//	http1m d te <end|data> <bodyHex> => <METHOD> <bodyHex> | lost
//	    a converted request (fresh header map, as the HTTP/2 / xprotocol transcoders build it with Set) on which
//	    `Transfer-Encoding: chunked` is Set: fasthttp ignores that Set, the request must arrive complete.

const httpFCluster = "c01-http1f"
const httpFRouter = "c01-http1f-router"

var c01fMethods = []string{"GET", "HEAD", "POST", "PUT", "DELETE", "OPTIONS", "PROPFIND"}
var c01fShapes = []string{"none", "cl0", "cl", "chunked", "chunked0"}
var c01fHops = []string{"none", "keepalive", "close", "kaparams", "te", "trailer", "upgrade", "pconn", "expect"}

var c01fHopLines = map[string]string{
	"none":      "",
	"keepalive": "Connection: keep-alive\r\n",
	"close":     "Connection: close\r\n",
	"kaparams":  "Keep-Alive: timeout=5\r\nConnection: Keep-Alive\r\n",
	"te":        "TE: trailers\r\nConnection: TE\r\n",
	"trailer":   "Trailer: X-T\r\n",
	"upgrade":   "Upgrade: websocket\r\nConnection: Upgrade\r\n",
	"pconn":     "Proxy-Connection: keep-alive\r\n",
	"expect":    "Expect: 100-continue\r\n",
}

var c01fHopNames = map[string]bool{"connection": true, "keep-alive": true, "te": true, "trailer": true, "upgrade": true,
	"proxy-connection": true, "expect": true}

var c01fOnce sync.Once
var c01fFactory api.NetworkFilterChainFactory
var c01fUp net.Listener

// the answer the recording upstream gives to the next request
type c01fScript struct {
	status  int
	framing string
	body    []byte
}

type c01fSeen struct {
	method   string
	te       bool
	cl       string
	hops     string
	e2e      bool
	body     []byte
	complete bool
}

var c01fMu sync.Mutex
var c01fNext c01fScript
var c01fSeenCh = make(chan *c01fSeen, 16)

func c01fSetup() {
	c01fOnce.Do(func() {
		configmanager.ParseServerConfig(&v2.ServerConfig{})
		var err error
		c01fUp, err = net.Listen("tcp", "127.0.0.1:0")
		if err != nil {
			panic(err)
		}
		cluster.NewClusterManagerSingleton(nil, nil, nil)
		cm := cluster.GetClusterMngAdapterInstance()
		if err := cm.AddOrUpdatePrimaryCluster(v2.Cluster{Name: httpFCluster, ClusterType: v2.SIMPLE_CLUSTER, LbType: v2.LB_RANDOM}); err != nil {
			panic(err)
		}
		if err := cm.UpdateClusterHosts(httpFCluster, []v2.Host{{HostConfig: v2.HostConfig{Address: c01fUp.Addr().String()}}}); err != nil {
			panic(err)
		}
		rc := &v2.RouterConfiguration{
			RouterConfigurationConfig: v2.RouterConfigurationConfig{RouterConfigName: httpFRouter},
			VirtualHosts: []v2.VirtualHost{{Name: "all", Domains: []string{"*"}, Routers: []v2.Router{{RouterConfig: v2.RouterConfig{
				Match: v2.RouterMatch{Prefix: "/"},
				Route: v2.RouteAction{RouterActionConfig: v2.RouterActionConfig{ClusterName: httpFCluster}}}}}}},
		}
		if err := router.GetRoutersMangerInstance().AddOrUpdateRouters(rc); err != nil {
			panic(err)
		}
		c01fFactory, err = proxyfilter.CreateProxyFactory(map[string]interface{}{
			"downstream_protocol": "Http1", "upstream_protocol": "Http1", "router_config_name": httpFRouter})
		if err != nil {
			panic(err)
		}
		go func() {
			for {
				conn, err := c01fUp.Accept()
				if err != nil {
					return
				}
				go c01fServe(conn)
			}
		}()
	})
}

func c01fHopTok(v string) string {
	v = strings.ToLower(strings.ReplaceAll(v, " ", ""))
	v = strings.ReplaceAll(v, "=", "~")
	return strings.ReplaceAll(v, ",", "+")
}

// c01fReadHead reads a start line and the header block. te: a Transfer-Encoding whose last coding is chunked;
// teTok: "-" / the (lower-cased) Transfer-Encoding value; cl: "-" or the Content-Length value.
func c01fReadHead(br *bufio.Reader) (first string, hdr [][2]string, teTok string, cl string, err error) {
	first, err = br.ReadString('\n')
	if err != nil {
		return
	}
	first = strings.TrimRight(first, "\r\n")
	teTok, cl = "-", "-"
	for {
		var l string
		l, err = br.ReadString('\n')
		if err != nil {
			return
		}
		l = strings.TrimRight(l, "\r\n")
		if l == "" {
			return
		}
		i := strings.IndexByte(l, ':')
		if i < 0 {
			err = fmt.Errorf("bad header line")
			return
		}
		k, v := strings.ToLower(l[:i]), strings.TrimSpace(l[i+1:])
		hdr = append(hdr, [2]string{k, v})
		switch k {
		case "content-length":
			cl = v
		case "transfer-encoding":
			teTok = strings.ToLower(v)
		}
	}
}

// c01fReadBody reads the body the framing headers announce (RFC 7230 3.3.3); untilClose: neither header, read to EOF.
func c01fReadBody(br *bufio.Reader, chunked bool, cl string, untilClose bool) ([]byte, bool) {
	switch {
	case chunked:
		var body []byte
		for {
			sz, err := br.ReadString('\n')
			if err != nil {
				return body, false
			}
			n, perr := strconv.ParseUint(strings.TrimSpace(strings.SplitN(sz, ";", 2)[0]), 16, 32)
			if perr != nil {
				return body, false
			}
			if n == 0 {
				for {
					l, err := br.ReadString('\n')
					if err != nil {
						return body, false
					}
					if strings.TrimRight(l, "\r\n") == "" {
						return body, true
					}
				}
			}
			b := make([]byte, n+2)
			if _, err := io.ReadFull(br, b); err != nil {
				return body, false
			}
			body = append(body, b[:n]...)
		}
	case cl != "-":
		n, err := strconv.Atoi(cl)
		if err != nil || n < 0 {
			return nil, false
		}
		b := make([]byte, n)
		if _, err := io.ReadFull(br, b); err != nil {
			return nil, false
		}
		return b, true
	case untilClose:
		b, err := io.ReadAll(br)
		return b, err == nil
	}
	return nil, true
}

func c01fServe(conn net.Conn) {
	defer conn.Close()
	br := bufio.NewReader(conn)
	for {
		conn.SetReadDeadline(time.Time{})
		first, hdr, teTok, cl, err := c01fReadHead(br)
		if err != nil {
			return
		}
		s := &c01fSeen{method: strings.SplitN(first, " ", 2)[0], te: strings.HasSuffix(teTok, "chunked"), cl: cl}
		var hops []string
		xk := 0
		for _, kv := range hdr {
			if c01fHopNames[kv[0]] {
				hops = append(hops, kv[0]+":"+c01fHopTok(kv[1]))
			}
			if kv[0] == "x-k" && kv[1] == "v" {
				xk++
			}
		}
		sort.Strings(hops)
		s.hops = strings.Join(hops, ";")
		if s.hops == "" {
			s.hops = "-"
		}
		s.e2e = xk == 1
		conn.SetReadDeadline(time.Now().Add(1200 * time.Millisecond))
		s.body, s.complete = c01fReadBody(br, s.te, cl, false)
		c01fSeenCh <- s
		if !s.complete {
			return
		}
		c01fMu.Lock()
		sc := c01fNext
		c01fMu.Unlock()
		var b bytes.Buffer
		fmt.Fprintf(&b, "HTTP/1.1 %d St\r\nX-K: v\r\n", sc.status)
		switch sc.framing {
		case "cl0":
			b.WriteString("Content-Length: 0\r\n\r\n")
		case "cl":
			fmt.Fprintf(&b, "Content-Length: %d\r\n\r\n", len(sc.body))
			b.Write(sc.body)
		case "hcl":
			b.WriteString("Content-Length: 1234\r\n\r\n")
		case "hchunked":
			b.WriteString("Transfer-Encoding: chunked\r\n\r\n")
		case "chunked", "chunked0":
			b.WriteString("Transfer-Encoding: chunked\r\n\r\n")
			for i := 0; i < len(sc.body); {
				n := len(sc.body) - i
				if n > 900 {
					n = 900
				}
				fmt.Fprintf(&b, "%x\r\n", n)
				b.Write(sc.body[i : i+n])
				b.WriteString("\r\n")
				i += n
			}
			b.WriteString("0\r\n\r\n")
		case "close":
			b.WriteString("\r\n")
			b.Write(sc.body)
		case "none":
			b.WriteString("\r\n")
		}
		conn.Write(b.Bytes())
		if sc.framing == "close" {
			return
		}
	}
}

func c01fDrain() {
	for {
		select {
		case <-c01fSeenCh:
		default:
			return
		}
	}
}

// c01fReadResponse: the client side, RFC 7230 3.3.3 (skips 1xx interim responses and counts them)
func c01fReadResponse(conn net.Conn, br *bufio.Reader, method string) (status, teTok, cl, connTok string, e2e bool, body []byte, complete bool, interim int, err error) {
	for {
		var first string
		var hdr [][2]string
		first, hdr, teTok, cl, err = c01fReadHead(br)
		if err != nil {
			return
		}
		p := strings.SplitN(first, " ", 3)
		if len(p) < 2 {
			err = fmt.Errorf("bad status line")
			return
		}
		status = p[1]
		if strings.HasPrefix(status, "1") {
			interim++
			continue
		}
		connTok = "-"
		xk := 0
		for _, kv := range hdr {
			if kv[0] == "connection" {
				connTok = c01fHopTok(kv[1])
			}
			if kv[0] == "x-k" && kv[1] == "v" {
				xk++
			}
		}
		e2e = xk == 1
		if method == "HEAD" || status == "204" || status == "304" {
			complete = true
			return
		}
		body, complete = c01fReadBody(br, strings.HasSuffix(teTok, "chunked"), cl, true)
		return
	}
}

func c01fWire(method, shape, hop string, body []byte) []byte {
	var b bytes.Buffer
	b.WriteString(method + " /f/" + shape + " HTTP/1.1\r\nHost: example.com\r\nX-K: v\r\n" + c01fHopLines[hop])
	switch shape {
	case "none":
		b.WriteString("\r\n")
	case "cl0":
		b.WriteString("Content-Length: 0\r\n\r\n")
	case "cl":
		fmt.Fprintf(&b, "Content-Length: %d\r\n\r\n", len(body))
		b.Write(body)
	case "chunked", "chunked0":
		b.WriteString("Transfer-Encoding: chunked\r\n\r\n")
		for i := 0; i < len(body); {
			n := len(body) - i
			if n > 700 {
				n = 700
			}
			fmt.Fprintf(&b, "%x\r\n", n)
			b.Write(body[i : i+n])
			b.WriteString("\r\n")
			i += n
		}
		b.WriteString("0\r\n")
		if hop == "trailer" {
			b.WriteString("X-T: tv\r\n")
		}
		b.WriteString("\r\n")
	}
	return b.Bytes()
}

func runHTTP1Framing(c *hx.Ctx) {
	c01fSetup()
	r := c.Rng.Fork()
	front, err := net.Listen("tcp", "127.0.0.1:0")
	if err != nil {
		panic(err)
	}
	defer front.Close()
	go func() {
		for {
			rawc, err := front.Accept()
			if err != nil {
				return
			}
			ctx := variable.NewVariableContext(context.Background())
			variable.Set(ctx, types.VariableAccessLogs, []api.AccessLog{})
			variable.Set(ctx, types.VariableListenerName, "c01-http1f")
			conn := network.NewServerConnection(ctx, rawc, nil)
			c01fFactory.CreateFilterChain(ctx, conn.FilterManager())
			conn.FilterManager().InitializeReadFilters()
			conn.Start(ctx)
		}
	}()
	var cli net.Conn
	var cbr *bufio.Reader
	dial := func() {
		if cli != nil {
			cli.Close()
		}
		cli, err = net.Dial("tcp", front.Addr().String())
		if err != nil {
			panic(err)
		}
		cbr = bufio.NewReader(cli)
	}
	drop := func() {
		if cli != nil {
			cli.Close()
			cli = nil
		}
	}
	defer drop()
	clTok := func(s string) string { return "cl" + s }
	// exchange sends one request and returns what the upstream saw and what the client read
	respWait := 3 * time.Second
	exchange := func(method string, wire []byte, sc c01fScript) (*c01fSeen, string) {
		c01fDrain()
		c01fMu.Lock()
		c01fNext = sc
		c01fMu.Unlock()
		if cli == nil || r.Chance(10) {
			dial()
		}
		cli.SetDeadline(time.Now().Add(6 * time.Second))
		cli.Write(wire)
		var got *c01fSeen
		select {
		case got = <-c01fSeenCh:
		case <-time.After(3 * time.Second):
		}
		resp := "lost"
		if got != nil && got.complete {
			cli.SetDeadline(time.Now().Add(respWait))
			st, te, cl, cn, e2e, body, complete, interim, err := c01fReadResponse(cli, cbr, method)
			if err == nil {
				resp = fmt.Sprintf("%s te%s %s conn%s %s %s %s i%d", st, te, clTok(cl), cn, map[bool]string{true: "ok", false: "bad"}[e2e], hx.Hex(body),
					map[bool]string{true: "complete", false: "incomplete"}[complete], interim)
				if cn == "close" || !complete {
					drop()
				}
			} else {
				drop()
			}
		} else {
			drop()
		}
		return got, resp
	}
	// --- request direction
	rounds := c.N(1, 4)
	for round := 0; round < rounds; round++ {
		for _, method := range c01fMethods {
			for _, shape := range c01fShapes {
				for _, hop := range c01fHops {
					var body []byte
					if shape == "cl" || shape == "chunked" {
						body = r.Bytes(r.Pick([]int{1, 2, 100, 699, 700, 701, 4096, 1 + r.Intn(3000)}))
					}
					got, resp := exchange(method, c01fWire(method, shape, hop, body), c01fScript{status: 200, framing: "cl0"})
					out := "lost"
					if got != nil {
						te := map[bool]string{true: "te1", false: "te0"}[got.te]
						if got.complete {
							f := strings.Fields(resp) // status te cl conn e2e body complete iN
							rs, in := "rnone", "i0"
							if len(f) == 8 && f[6] == "complete" {
								rs, in = "r"+f[0], f[7]
							}
							out = fmt.Sprintf("%s %s %s %s %s %s %s %s", got.method, te, clTok(got.cl), got.hops, map[bool]string{true: "ok", false: "bad"}[got.e2e], hx.Hex(got.body), in, rs)
						} else {
							out = fmt.Sprintf("incomplete %s %s %s", got.method, te, clTok(got.cl))
						}
					}
					if hop == "close" {
						drop() // the proxy closes the downstream connection after the response
					}
					c.Emit("C01", fmt.Sprintf("http1m q %s %s %s %s", method, shape, hop, hx.Hex(body)), out)
					c.Count("http1m.q.method=" + method)
					c.Count("http1m.q.shape=" + shape)
					c.Count("http1m.q.hop=" + hop)
				}
			}
		}
	}
	// --- response direction
	statuses := []int{200, 201, 206, 204, 304, 404, 500, 503}
	for round := 0; round < c.N(1, 5); round++ {
		for _, method := range []string{"GET", "HEAD", "POST"} {
			for _, st := range statuses {
				var framings []string
				switch {
				case method == "HEAD" && (st == 204):
					framings = []string{"none", "cl0"}
				case method == "HEAD":
					framings = []string{"none", "cl0", "hcl"}
					if round == 0 && (st == 200 || st == 304) {
						framings = append(framings, "hchunked") // KNOWN_FINDINGS: never forwarded (costs a timeout): once per run
					}
				case st == 204:
					framings = []string{"none", "cl0"}
				case st == 304:
					framings = []string{"none", "cl0", "hcl"}
					if round == 0 && method == "GET" {
						framings = append(framings, "hchunked") // KNOWN_FINDINGS, as above
					}
				default:
					framings = []string{"cl0", "cl", "chunked", "chunked0", "close", "close"}
				}
				for fi, fr := range framings {
					var body []byte
					if fr == "cl" || fr == "chunked" || (fr == "close" && fi == 4) {
						body = r.Bytes(r.Pick([]int{1, 2, 100, 899, 900, 901, 4096, 1 + r.Intn(3000)}))
					}
					shape := "none"
					var reqBody []byte
					if method == "POST" {
						shape, reqBody = "cl", []byte("q")
					}
					respWait = 3 * time.Second
					if fr == "hchunked" {
						respWait = 1500 * time.Millisecond
					}
					got, resp := exchange(method, c01fWire(method, shape, "none", reqBody), c01fScript{status: st, framing: fr, body: body})
					out := "lost"
					if got != nil && resp != "lost" {
						f := strings.Fields(resp)
						out = strings.Join(f[:7], " ")
					}
					c.Emit("C01", fmt.Sprintf("http1m r %s %d %s %s", method, st, fr, hx.Hex(body)), out)
					c.Count("http1m.r.method=" + method)
					c.Count(fmt.Sprintf("http1m.r.status=%d", st))
					c.Count("http1m.r.framing=" + fr)
				}
			}
		}
	}
	drop()
	// --- converted request on which Transfer-Encoding is Set (as a transcoder copying a foreign header map would)
	nd := c.N(6, 40)
	for i := 0; i < nd; i++ {
		end := i%2 == 0
		var body []byte
		if !end {
			body = r.Bytes(r.Pick([]int{1, 2, 100, 4096, 1 + r.Intn(2000)}))
		}
		c01fDrain()
		c01fMu.Lock()
		c01fNext = c01fScript{status: 200, framing: "cl0"}
		c01fMu.Unlock()
		ctx := buffer.NewBufferPoolContext(variable.NewVariableContext(context.Background()))
		conn := network.NewClientConnection(2*time.Second, nil, c01fUp.Addr(), nil)
		cl := stream.NewStreamClient(ctx, protocol.HTTP1, conn, nil)
		out := "lost"
		if cl != nil && cl.Connect() == nil {
			_, p := hx.Safe(func() {
				sender := cl.NewStream(ctx, c01mReceiver{})
				hdr := mosnhttp.RequestHeader{RequestHeader: &fasthttp.RequestHeader{}}
				hdr.Set("X-K", "v")
				hdr.Set("Transfer-Encoding", "chunked")
				variable.SetString(ctx, types.VarPath, "/d")
				variable.SetString(ctx, types.VarPathOriginal, "/d")
				variable.SetString(ctx, types.VarHost, "example.com")
				sender.AppendHeaders(ctx, hdr, end)
				if !end {
					sender.AppendData(ctx, buffer.NewIoBufferBytes(append([]byte{}, body...)), true)
				}
			})
			if !p {
				select {
				case got := <-c01fSeenCh:
					if got.complete && !got.te {
						out = got.method + " " + hx.Hex(got.body)
					}
				case <-time.After(3 * time.Second):
				}
			} else {
				out = "panic -"
			}
		}
		if conn != nil {
			time.Sleep(2 * time.Millisecond)
			conn.Close(api.NoFlush, api.LocalClose)
		}
		what := "data"
		if end {
			what = "end"
		}
		c.Emit("C01", fmt.Sprintf("http1m d te %s %s", what, hx.Hex(body)), out)
		c.Count("http1m.default-te=" + what)
	}
}
