//go:build verif

package c01

import (
	"bufio"
	"bytes"
	"context"
	"fmt"
	"io"
	"net"
	"net/http"
	"sort"
	"strings"
	"sync"
	"time"

	"mosn.io/api"
	"mosn.io/mosn/pkg/configmanager"
	v2 "mosn.io/mosn/pkg/config/v2"
	proxyfilter "mosn.io/mosn/pkg/filter/network/proxy"
	"mosn.io/mosn/pkg/network"
	"mosn.io/mosn/pkg/router"
	_ "mosn.io/mosn/pkg/stream/http"
	"mosn.io/mosn/pkg/types"
	"mosn.io/mosn/pkg/upstream/cluster"
	"mosn.io/pkg/variable"

	"verif/harness/hx"
)

// HTTP/1 end to end through the real proxy core: client socket → MOSN server connection with the real proxy network
// filter (HTTP/1 server stream, router, cluster manager, HTTP/1 connection pool and client stream) → recording upstream.
// Both the request the upstream receives and the response the client receives are compared with what was sent.

const httpCluster = "c01-http1"
const httpRouter = "c01-http1-router"

type httpMsg struct {
	first  string      // method + " " + target  /  status code
	header [][2]string // (name as sent, value) in order
	body   []byte
}

// canonHeaders: lower-cased names, hop-by-hop and framing headers removed, sorted.
var hopByHop = map[string]bool{"connection": true, "keep-alive": true, "transfer-encoding": true, "content-length": true,
	"expect": true, "proxy-connection": true, "te": true, "trailer": true, "upgrade": true}

func canonHeaders(h [][2]string) string {
	var p []string
	for _, kv := range h {
		k := strings.ToLower(kv[0])
		if hopByHop[k] {
			continue
		}
		v := kv[1]
		if k == "host" {
			v = strings.ToLower(v) // host names are case-insensitive; fasthttp lower-cases the URI host
		}
		p = append(p, k+":"+hx.Hex([]byte(v)))
	}
	sort.Strings(p)
	if len(p) == 0 {
		return "-"
	}
	return strings.Join(p, ",")
}

// readRaw reads one HTTP/1 message head + body from br with a neutral parser that keeps header names, values and order.
func readRaw(br *bufio.Reader, isRequest bool) (*httpMsg, error) {
	line, err := br.ReadString('\n')
	if err != nil {
		return nil, err
	}
	line = strings.TrimRight(line, "\r\n")
	m := &httpMsg{}
	parts := strings.SplitN(line, " ", 3)
	if isRequest {
		if len(parts) < 3 {
			return nil, fmt.Errorf("bad request line %q", line)
		}
		m.first = parts[0] + " " + hx.Hex([]byte(parts[1]))
	} else {
		if len(parts) < 2 {
			return nil, fmt.Errorf("bad status line %q", line)
		}
		m.first = parts[1]
	}
	cl, chunked := -1, false
	for {
		l, err := br.ReadString('\n')
		if err != nil {
			return nil, err
		}
		l = strings.TrimRight(l, "\r\n")
		if l == "" {
			break
		}
		i := strings.IndexByte(l, ':')
		if i < 0 {
			return nil, fmt.Errorf("bad header line %q", l)
		}
		k, v := l[:i], strings.TrimLeft(l[i+1:], " \t")
		m.header = append(m.header, [2]string{k, v})
		switch strings.ToLower(k) {
		case "content-length":
			fmt.Sscan(v, &cl)
		case "transfer-encoding":
			chunked = strings.Contains(strings.ToLower(v), "chunked")
		}
	}
	switch {
	case chunked:
		for {
			sz, err := br.ReadString('\n')
			if err != nil {
				return nil, err
			}
			var n int
			fmt.Sscanf(strings.TrimSpace(sz), "%x", &n)
			if n == 0 {
				for { // trailers
					l, err := br.ReadString('\n')
					if err != nil || strings.TrimRight(l, "\r\n") == "" {
						break
					}
				}
				break
			}
			b := make([]byte, n+2)
			if _, err := io.ReadFull(br, b); err != nil {
				return nil, err
			}
			m.body = append(m.body, b[:n]...)
		}
	case cl > 0:
		m.body = make([]byte, cl)
		if _, err := io.ReadFull(br, m.body); err != nil {
			return nil, err
		}
	}
	return m, nil
}

func (m *httpMsg) tok() string {
	return fmt.Sprintf("%s %s %s", m.first, canonHeaders(m.header), hx.Hex(m.body))
}

func (m *httpMsg) wire(isRequest bool, chunked bool) []byte {
	var b bytes.Buffer
	if isRequest {
		p := strings.SplitN(m.first, " ", 2)
		b.WriteString(p[0] + " " + string(hx.Unhex(p[1])) + " HTTP/1.1\r\n")
	} else {
		b.WriteString("HTTP/1.1 " + m.first + " " + http.StatusText(200) + "\r\n")
	}
	for _, kv := range m.header {
		b.WriteString(kv[0] + ": " + kv[1] + "\r\n")
	}
	if chunked {
		b.WriteString("Transfer-Encoding: chunked\r\n\r\n")
		for i := 0; i < len(m.body); {
			n := len(m.body) - i
			if n > 1000 {
				n = 1000
			}
			fmt.Fprintf(&b, "%x\r\n", n)
			b.Write(m.body[i : i+n])
			b.WriteString("\r\n")
			i += n
		}
		b.WriteString("0\r\n\r\n")
	} else {
		if len(m.body) > 0 || !isRequest {
			fmt.Fprintf(&b, "Content-Length: %d\r\n", len(m.body))
		}
		b.WriteString("\r\n")
		b.Write(m.body)
	}
	return b.Bytes()
}

var hdrNames = []string{"X-Trace-Id", "x-lower", "X-UPPER", "Accept", "User-Agent", "Cookie", "X-Empty", "Authorization", "X-Dup", "X-Dup",
	"Content-Type", "Accept-Encoding", "X-Bin", "x-Mixed-CASE", "Via", "X-Forwarded-For", "Cache-Control"}

var singleton = map[string]bool{"User-Agent": true, "Content-Type": true, "Authorization": true, "Cookie": true}

func genHeaders(r *hx.Rng, isRequest bool) [][2]string {
	var h [][2]string
	used := map[string]bool{}
	if r.Chance(65) {
		h = append(h, [2]string{"Content-Type", r.PickS([]string{"application/json", "text/html; charset=utf-8", "application/octet-stream", "x/y"})})
		used["Content-Type"] = true
	}
	n := r.Intn(8)
	for i := 0; i < n; i++ {
		k := hdrNames[r.Intn(len(hdrNames))]
		if singleton[k] {
			if used[k] {
				continue
			}
			used[k] = true
		}
		v := r.PickS([]string{"v", "a b  c", "", "x,y;q=0.5", "\xc3\xa9", "=?utf-8?b?", "1", strings.Repeat("z", 300), "a=1; b=2", "\"quoted\"", "tab\there"})
		if k == "X-Empty" {
			v = ""
		}
		h = append(h, [2]string{k, v})
	}
	return h
}

func genBody(r *hx.Rng) []byte {
	n := pickLen(r, 70000)
	if n > 3000 && !r.Chance(15) {
		n = r.Intn(300)
	}
	if r.Chance(35) {
		n = 0
	}
	return r.Bytes(n)
}

var http1Once sync.Once
var http1Factory api.NetworkFilterChainFactory
var http1Up net.Listener

type upExchange struct {
	got  *httpMsg
	resp []byte
}

func http1Setup() {
	http1Once.Do(func() {
		configmanager.ParseServerConfig(&v2.ServerConfig{})
		var err error
		http1Up, err = net.Listen("tcp", "127.0.0.1:0")
		if err != nil {
			panic(err)
		}
		cluster.NewClusterManagerSingleton(nil, nil, nil)
		cm := cluster.GetClusterMngAdapterInstance()
		if err := cm.AddOrUpdatePrimaryCluster(v2.Cluster{Name: httpCluster, ClusterType: v2.SIMPLE_CLUSTER, LbType: v2.LB_RANDOM}); err != nil {
			panic(err)
		}
		if err := cm.UpdateClusterHosts(httpCluster, []v2.Host{{HostConfig: v2.HostConfig{Address: http1Up.Addr().String()}}}); err != nil {
			panic(err)
		}
		rc := &v2.RouterConfiguration{
			RouterConfigurationConfig: v2.RouterConfigurationConfig{RouterConfigName: httpRouter},
			VirtualHosts: []v2.VirtualHost{{Name: "all", Domains: []string{"*"}, Routers: []v2.Router{{RouterConfig: v2.RouterConfig{
				Match: v2.RouterMatch{Prefix: "/"},
				Route: v2.RouteAction{RouterActionConfig: v2.RouterActionConfig{ClusterName: httpCluster}}}}}}},
		}
		if err := router.GetRoutersMangerInstance().AddOrUpdateRouters(rc); err != nil {
			panic(err)
		}
		http1Factory, err = proxyfilter.CreateProxyFactory(map[string]interface{}{
			"downstream_protocol": "Http1", "upstream_protocol": "Http1", "router_config_name": httpRouter})
		if err != nil {
			panic(err)
		}
	})
}

func runHTTP1(c *hx.Ctx) {
	http1Setup()
	r := c.Rng.Fork()
	front, err := net.Listen("tcp", "127.0.0.1:0")
	if err != nil {
		panic(err)
	}
	defer front.Close()
	// MOSN side: every accepted downstream connection gets the real proxy filter, as activeListener.OnNewConnection does
	go func() {
		for {
			rawc, err := front.Accept()
			if err != nil {
				return
			}
			ctx := variable.NewVariableContext(context.Background())
			variable.Set(ctx, types.VariableAccessLogs, []api.AccessLog{})
			variable.Set(ctx, types.VariableListenerName, "c01-http1")
			conn := network.NewServerConnection(ctx, rawc, nil)
			http1Factory.CreateFilterChain(ctx, conn.FilterManager())
			conn.FilterManager().InitializeReadFilters()
			conn.Start(ctx)
		}
	}()
	// upstream side: answers each request with the response queued for it
	next := make(chan *httpMsg, 1)
	seen := make(chan *httpMsg, 1)
	go func() {
		for {
			conn, err := http1Up.Accept()
			if err != nil {
				return
			}
			go func(conn net.Conn) {
				defer conn.Close()
				br := bufio.NewReader(conn)
				for {
					req, err := readRaw(br, true)
					if err != nil {
						return
					}
					seen <- req
					resp := <-next
					conn.Write(resp.wire(false, len(resp.body) > 0 && len(resp.body)%3 == 0))
				}
			}(conn)
		}
	}()
	n := c.N(250, 5000)
	var cli net.Conn
	var cbr *bufio.Reader
	for i := 0; i < n; i++ {
		if cli == nil || r.Chance(10) {
			if cli != nil {
				cli.Close()
			}
			cli, err = net.Dial("tcp", front.Addr().String())
			if err != nil {
				panic(err)
			}
			cbr = bufio.NewReader(cli)
		}
		method := r.PickS([]string{"GET", "POST", "POST", "PUT", "DELETE", "PATCH", "HEAD", "OPTIONS"})
		target := genTarget(r)
		for target == "*" || strings.HasPrefix(target, "//") {
			target = genTarget(r)
		}
		req := &httpMsg{first: method + " " + hx.Hex([]byte(target))}
		req.header = append([][2]string{{"Host", r.PickS([]string{"example.com", "a.b:8080", "EXAMPLE.com"})}}, genHeaders(r, true)...)
		if method != "GET" && method != "HEAD" && method != "OPTIONS" && method != "DELETE" {
			req.body = genBody(r)
		}
		resp := &httpMsg{first: fmt.Sprint(r.Pick([]int{200, 200, 201, 204, 301, 404, 500, 503}))}
		resp.header = genHeaders(r, false)
		if method != "HEAD" && resp.first != "204" {
			resp.body = genBody(r)
		}
		next <- resp
		chunkedReq := len(req.body) > 0 && r.Chance(30)
		cli.SetDeadline(time.Now().Add(10 * time.Second))
		cli.Write(req.wire(true, chunkedReq))
		var gotReq *httpMsg
		select {
		case gotReq = <-seen:
		case <-time.After(10 * time.Second):
		}
		var gotResp *httpMsg
		if gotReq != nil {
			gotResp, _ = readRaw(cbr, false)
		} else {
			<-next // nobody will take the queued response
		}
		out := "lost"
		if gotReq != nil {
			out = gotReq.tok()
		}
		c.Emit("C01", "http1 req "+req.tok(), out)
		out = "lost"
		if gotResp != nil {
			sentDate := false
			for _, kv := range resp.header {
				sentDate = sentDate || strings.EqualFold(kv[0], "date")
			}
			if !sentDate { // RFC 7231 7.1.1.2: a forwarding recipient with a clock adds Date when it is missing
				var h [][2]string
				for _, kv := range gotResp.header {
					if !strings.EqualFold(kv[0], "date") {
						h = append(h, kv)
					} else {
						c.Count("http1.resp_date_added")
					}
				}
				gotResp.header = h
			}
			out = gotResp.tok()
		}
		c.Emit("C01", "http1 resp "+method+" "+resp.tok(), out)
		c.Count("http1.method=" + method)
		c.Count("http1.req_body=" + lenBucket(len(req.body)))
		c.Count("http1.resp_body=" + lenBucket(len(resp.body)))
		if gotReq == nil || gotResp == nil {
			cli.Close()
			cli = nil
		}
	}
}
