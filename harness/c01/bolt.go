//go:build verif

package c01

import (
	"context"
	"encoding/binary"
	"fmt"

	"mosn.io/api"
	"mosn.io/mosn/pkg/protocol/xprotocol"
	"mosn.io/mosn/pkg/protocol/xprotocol/bolt"
	"mosn.io/mosn/pkg/protocol/xprotocol/boltv2"
	xstream "mosn.io/mosn/pkg/stream/xprotocol"

	"verif/harness/hx"
)

func init() {
	setClass = func(f api.XFrame, class string) {
		switch x := f.(type) {
		case *bolt.Request:
			x.Class = class
		case *bolt.Response:
			x.Class = class
		case *boltv2.Request:
			x.Class = class
		case *boltv2.Response:
			x.Class = class
		}
	}
}

type kv struct{ k, v []byte }

// boltFrame is a generated frame of the bolt family, before serialisation.
type boltFrame struct {
	v2      bool
	typ     byte // 1 request, 2 one-way, 0 response (other values: malformed stream)
	proto   byte
	cmdCode uint16
	ver     byte
	id      uint32
	codec   byte
	timeout uint32 // request
	status  uint16 // response
	ver1    byte   // v2
	sw      byte   // v2
	class   []byte
	header  []byte // encoded header block (may be deliberately malformed)
	content []byte
}

func (f *boltFrame) bytes() []byte {
	var b []byte
	b = append(b, f.proto)
	if f.v2 {
		b = append(b, f.ver1)
	}
	b = append(b, f.typ)
	b = binary.BigEndian.AppendUint16(b, f.cmdCode)
	b = append(b, f.ver)
	b = binary.BigEndian.AppendUint32(b, f.id)
	b = append(b, f.codec)
	if f.v2 {
		b = append(b, f.sw)
	}
	if f.typ == 0 {
		b = binary.BigEndian.AppendUint16(b, f.status)
	} else {
		b = binary.BigEndian.AppendUint32(b, f.timeout)
	}
	b = binary.BigEndian.AppendUint16(b, uint16(len(f.class)))
	b = binary.BigEndian.AppendUint16(b, uint16(len(f.header)))
	b = binary.BigEndian.AppendUint32(b, uint32(len(f.content)))
	b = append(b, f.class...)
	b = append(b, f.header...)
	b = append(b, f.content...)
	return b
}

func encodeKVs(kvs []kv) []byte {
	var b []byte
	for _, e := range kvs {
		b = binary.BigEndian.AppendUint32(b, uint32(len(e.k)))
		b = append(b, e.k...)
		b = binary.BigEndian.AppendUint32(b, uint32(len(e.v)))
		b = append(b, e.v...)
	}
	return b
}

func kvLen(kvs []kv) int {
	n := 0
	for _, e := range kvs {
		n += 8 + len(e.k) + len(e.v)
	}
	return n
}

var keyPool = []string{"service", "sofa_head_target_service", "sofa_head_method_name", "rpc_trace_context.sofaTraceId", "k", "", "x-\x00bin", "tenant", "a", "b"}

func genKey(r *hx.Rng) []byte {
	if r.Chance(70) {
		return []byte(keyPool[r.Intn(len(keyPool))])
	}
	return r.Bytes(r.Intn(12))
}

func genVal(r *hx.Rng) []byte {
	switch r.Intn(6) {
	case 0:
		return nil
	case 1:
		return r.Bytes(1 + r.Intn(4))
	case 2:
		return r.Bytes(r.Pick([]int{254, 255, 256, 257}))
	default:
		return []byte(fmt.Sprintf("v%d", r.Intn(1000)))
	}
}

// genKVs: 0–64 pairs (distinct or repeated keys, empty keys/values, binary), optionally padded so that the encoded
// block length hits `target` exactly.
func genKVs(r *hx.Rng, target int) []kv {
	var kvs []kv
	n := 0
	switch r.Intn(5) {
	case 0:
		n = 0
	case 1:
		n = 1
	case 2:
		n = 64
	default:
		n = 1 + r.Intn(12)
	}
	for i := 0; i < n; i++ {
		kvs = append(kvs, kv{genKey(r), genVal(r)})
	}
	if target >= 0 {
		for kvLen(kvs)+8 > target && len(kvs) > 0 {
			kvs = kvs[:len(kvs)-1]
		}
		if rest := target - kvLen(kvs); rest >= 8 {
			kvs = append(kvs, kv{[]byte("pad"), nil})
			rest = target - kvLen(kvs)
			if rest < 0 {
				kvs[len(kvs)-1].k = nil
				rest = target - kvLen(kvs)
			}
			kvs[len(kvs)-1].v = r.Bytes(rest)
		}
	}
	return kvs
}

func pickLen(r *hx.Rng, max int) int {
	for {
		var n int
		if r.Chance(45) {
			n = boundaryLens[r.Intn(len(boundaryLens))]
		} else if r.Chance(80) {
			n = r.Intn(64)
		} else {
			n = r.Intn(3000)
		}
		if n <= max {
			return n
		}
	}
}

func genBoltFrame(c *hx.Ctx, r *hx.Rng) *boltFrame {
	f := &boltFrame{v2: r.Bool()}
	f.typ = byte(r.Pick([]int{0, 1, 1, 2}))
	f.proto = 1
	if f.v2 {
		f.proto = 2
	}
	f.cmdCode = uint16(r.Pick([]int{0, 1, 2, 100, 65535, r.Intn(65536)}))
	f.ver = byte(r.Pick([]int{1, 1, 0, 255, r.Intn(256)}))
	f.id = uint32(r.U64())
	f.codec = byte(r.Pick([]int{1, 0, 11, 12, 255}))
	f.timeout = uint32(r.Pick([]int{0, 1, 3000, 0x7fffffff, 0x80000000, 0xffffffff, int(uint32(r.U64()))}))
	f.status = uint16(r.Pick([]int{0, 1, 2, 3, 4, 5, 6, 7, 8, 9, 16, 17, 18, 65535, r.Intn(65536)}))
	f.ver1 = byte(r.Pick([]int{1, 1, 2, 0, 255}))
	f.sw = byte(r.Pick([]int{0, 0, 1, 255}))
	// keep the big boundaries rare: they dominate the run time
	big := r.Chance(c.N(12, 7))
	cl := pickLen(r, 65535)
	if cl > 3000 && !big {
		cl = r.Intn(40)
	}
	f.class = r.Bytes(cl)
	if r.Chance(30) && !big {
		f.class = []byte("com.alipay.sofa.rpc.core.request.SofaRequest")
	}
	target := -1
	if r.Chance(25) {
		target = pickLen(r, 65535)
		if target > 3000 && !big {
			target = -1
		}
	}
	f.header = encodeKVs(genKVs(r, target))
	if len(f.header) > 65535 {
		f.header = f.header[:0]
	}
	n := pickLen(r, 70000)
	if n > 3000 && !big {
		n = r.Intn(200)
	}
	f.content = r.Bytes(n)
	c.Count("bolt.class_len=" + lenBucket(len(f.class)))
	c.Count("bolt.header_len=" + lenBucket(len(f.header)))
	c.Count("bolt.content_len=" + lenBucket(len(f.content)))
	return f
}

// genOps: modifications a filter could make. `kvs` are the pairs present in the frame.
func genOps(c *hx.Ctx, r *hx.Rng, hdrLen int) []op {
	var ops []op
	n := 1 + r.Intn(3)
	for i := 0; i < n; i++ {
		switch r.Intn(8) {
		case 0, 1, 2:
			v := genVal(r)
			if r.Chance(15) {
				// push the header block across the 16-bit boundary: total = hdrLen + 8 + |k| + |v|
				k := []byte("big")
				want := r.Pick([]int{65534, 65535, 65536, 70000}) - hdrLen - 8 - len(k)
				if want >= 0 {
					ops = append(ops, op{kind: 'S', k: k, v: r.Bytes(want)})
					c.Count("bolt.op=S-boundary")
					continue
				}
			}
			ops = append(ops, op{kind: 'S', k: genKey(r), v: v})
			c.Count("bolt.op=S")
		case 3, 4:
			ops = append(ops, op{kind: 'D', k: genKey(r)})
			c.Count("bolt.op=D")
		case 5, 6:
			m := pickLen(r, 70000)
			if m > 3000 && !r.Chance(20) {
				m = r.Intn(300)
			}
			ops = append(ops, op{kind: 'B', v: r.Bytes(m)})
			c.Count("bolt.op=B")
		case 7:
			m := r.Pick([]int{0, 1, 255, 256, 65535, 65536, 70000, r.Intn(50)})
			ops = append(ops, op{kind: 'C', v: r.Bytes(m)}, op{kind: 'S', k: []byte("k"), v: []byte("v")})
			c.Count("bolt.op=C+S")
		}
	}
	return ops
}

func runBolt(c *hx.Ctx) {
	r := c.Rng.Fork()
	// bolt and boltv2 hand frames over to each other through the codec registry (an error means: already registered)
	xprotocol.RegisterXProtocolAction(xstream.NewConnPool, xstream.NewStreamFactory, nil)
	_ = xprotocol.RegisterXProtocolCodec(&bolt.XCodec{})
	_ = xprotocol.RegisterXProtocolCodec(&boltv2.XCodec{})
	pb := (&bolt.XCodec{}).NewXProtocol(context.Background())
	pv2 := (&boltv2.XCodec{}).NewXProtocol(context.Background())
	protoOf := func(useV2 bool) (string, api.XProtocol) {
		if useV2 {
			return "boltv2", pv2
		}
		return "bolt", pb
	}
	n := c.N(3000, 18000)
	for i := 0; i < n; i++ {
		f := genBoltFrame(c, r)
		// mostly the frame's own codec; sometimes the sibling codec (they hand over to each other on the first byte)
		useV2 := f.v2
		if r.Chance(15) {
			useV2 = !useV2
			c.Count("bolt.cross_codec")
		}
		name, proto := protoOf(useV2)
		c.Count(fmt.Sprintf("bolt.kind=v2:%v,type:%d", f.v2, f.typ))
		raw := f.bytes()
		input := raw
		if r.Chance(30) { // bytes of the next frame already buffered
			input = append(append([]byte{}, raw...), r.Bytes(1+r.Intn(30))...)
			c.Count("bolt.trailing_bytes")
		}
		id := pickID(r)
		var ops []op
		if r.Chance(45) {
			ops = genOps(c, r, len(f.header))
		}
		emit(c, name, proto, input, id, ops)
	}
	// malformed stream: truncations, unknown command types, foreign first byte, corrupt header blocks
	m := c.N(600, 5000)
	for i := 0; i < m; i++ {
		f := genBoltFrame(c, r)
		if len(f.content) > 3000 {
			f.content = f.content[:100]
		}
		name, proto := protoOf(f.v2 != r.Chance(15))
		var input []byte
		var ops []op
		switch r.Intn(7) {
		case 0: // truncated
			raw := f.bytes()
			input = raw[:r.Intn(len(raw))]
			c.Count("bolt.mal=truncated")
		case 1: // unknown command type
			f.typ = byte(3 + r.Intn(253))
			input = f.bytes()
			c.Count("bolt.mal=cmdtype")
		case 2: // first byte neither 1 nor 2: each codec decodes it as its own family, Protocol is normalised on the slow path
			f.proto = byte(r.Pick([]int{0, 3, 13, 255}))
			input = f.bytes()
			if r.Bool() {
				ops = genOps(c, r, len(f.header))
			}
			c.Count("bolt.mal=firstbyte")
		case 3: // dangling bytes at the end of the header block (1..3 ⇒ out-of-range read)
			f.header = append(f.header, r.Bytes(1+r.Intn(3))...)
			input = f.bytes()
			c.Count("bolt.mal=hdr-dangling")
		case 4: // a length that runs past the block
			f.header = binary.BigEndian.AppendUint32(f.header, uint32(1+r.Intn(1000)))
			input = f.bytes()
			c.Count("bolt.mal=hdr-overrun")
		case 5: // 0xFFFFFFFF markers: skipped by the decoder, preserved by the fast path, dropped by the slow path
			var h []byte
			for _, e := range genKVs(r, -1) {
				if r.Chance(30) {
					h = append(h, 0xff, 0xff, 0xff, 0xff)
				}
				h = binary.BigEndian.AppendUint32(h, uint32(len(e.k)))
				h = append(h, e.k...)
				if r.Chance(20) {
					h = append(h, 0xff, 0xff, 0xff, 0xff)
					continue
				}
				h = binary.BigEndian.AppendUint32(h, uint32(len(e.v)))
				h = append(h, e.v...)
			}
			if r.Chance(30) {
				h = append(h, 0xff, 0xff, 0xff, 0xff)
			}
			if len(h) <= 65535 {
				f.header = h
			}
			input = f.bytes()
			if r.Bool() {
				ops = genOps(c, r, len(f.header))
			}
			c.Count("bolt.mal=hdr-skipmarker")
		case 6: // random bytes
			input = r.Bytes(r.Intn(64))
			if len(input) > 0 && r.Bool() {
				input[0] = byte(1 + r.Intn(2))
			}
			c.Count("bolt.mal=random")
		}
		emit(c, name, proto, input, pickID(r), ops)
	}
}

// runBoltLocal: frames MOSN builds itself (heartbeat trigger / reply, hijack reply, goaway) have no raw frame and always
// take the slow path of Encode. case: `boltlocal <codec> <what> <id> <status>`.
func runBoltLocal(c *hx.Ctx) {
	r := c.Rng.Fork()
	pb := (&bolt.XCodec{}).NewXProtocol(context.Background())
	pv2 := (&boltv2.XCodec{}).NewXProtocol(context.Background())
	for i := 0; i < c.N(120, 2000); i++ {
		name, proto := "bolt", pb
		if r.Bool() {
			name, proto = "boltv2", pv2
		}
		what := r.PickS([]string{"trigger", "reply", "hijack"})
		id := pickID(r)
		status := uint32(r.Pick([]int{0, 1, 2, 6, 7, 16, 18, 200, 404, 502, 65535, 65536, 70000}))
		ctx := newStreamCtx()
		var frame api.XFrame
		switch what {
		case "trigger":
			frame = proto.(api.Heartbeater).Trigger(ctx, id)
		case "reply":
			req := proto.(api.Heartbeater).Trigger(ctx, id)
			frame = proto.(api.Heartbeater).Reply(ctx, req)
		case "hijack":
			req := proto.(api.Heartbeater).Trigger(ctx, 1)
			frame = proto.(api.Hijacker).Hijack(ctx, req, status)
			frame.SetRequestId(id) // the stream layer overwrites it
		}
		out := "err -"
		if buf, err := proto.Encode(ctx, frame); err == nil && buf != nil {
			out = "ok " + hx.Hex(buf.Bytes())
		}
		c.Emit("C01", fmt.Sprintf("boltlocal %s %s %d %d", name, what, id, status), out)
		c.Count("boltlocal." + name + "." + what)
	}
}
