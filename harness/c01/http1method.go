//go:build verif

package c01

import (
	"bufio"
	"bytes"
	"context"
	"fmt"
	"net"
	"strings"
	"sync"
	"time"

	"github.com/valyala/fasthttp"
	"mosn.io/api"
	"mosn.io/mosn/pkg/configmanager"
	v2 "mosn.io/mosn/pkg/config/v2"
	proxyfilter "mosn.io/mosn/pkg/filter/network/proxy"
	"mosn.io/mosn/pkg/network"
	"mosn.io/mosn/pkg/protocol"
	mosnhttp "mosn.io/mosn/pkg/protocol/http"
	"mosn.io/mosn/pkg/router"
	"mosn.io/mosn/pkg/stream"
	"mosn.io/mosn/pkg/types"
	"mosn.io/mosn/pkg/upstream/cluster"
	"mosn.io/pkg/buffer"
	"mosn.io/pkg/variable"

	"verif/harness/hx"
)

// Kind `http1m`: the method clause of forwarding fidelity at full strength.
//
//	http1m p <METHOD> <none|cl0|cl|chunked|chunked0> <bodyHex> => <METHOD> <bodyHex> | lost
//	    every method token × every body shape through the real HTTP/1 server stream → proxy variables → router → pool →
//	    real HTTP/1 client stream (clientStream.AppendHeaders: default method, then FillRequestHeadersFromCtxVar);
//	http1m d - <end|data> <bodyHex> => <METHOD> <bodyHex> | lost
//	    the default rule: the real client stream driven directly with a fresh header map and NO method variable, as a
//	    request converted from another protocol arrives (GET when the headers end the stream, POST otherwise).

const httpMCluster = "c01-http1m"
const httpMRouter = "c01-http1m-router"

// CONNECT is left out: fasthttp's server side answers it itself / the proxy has no tunnel mode for it.
var c01mMethods = []string{"GET", "HEAD", "POST", "PUT", "DELETE", "PATCH", "OPTIONS", "TRACE", "PROPFIND", "get", "Post", "M-SEARCH", "X_Y.z~1", "QUERY"}
var c01mShapes = []string{"none", "cl0", "cl", "chunked", "chunked0"}

var c01mOnce sync.Once
var c01mFactory api.NetworkFilterChainFactory
var c01mUp net.Listener

func c01mSetup() {
	c01mOnce.Do(func() {
		configmanager.ParseServerConfig(&v2.ServerConfig{})
		var err error
		c01mUp, err = net.Listen("tcp", "127.0.0.1:0")
		if err != nil {
			panic(err)
		}
		cluster.NewClusterManagerSingleton(nil, nil, nil)
		cm := cluster.GetClusterMngAdapterInstance()
		if err := cm.AddOrUpdatePrimaryCluster(v2.Cluster{Name: httpMCluster, ClusterType: v2.SIMPLE_CLUSTER, LbType: v2.LB_RANDOM}); err != nil {
			panic(err)
		}
		if err := cm.UpdateClusterHosts(httpMCluster, []v2.Host{{HostConfig: v2.HostConfig{Address: c01mUp.Addr().String()}}}); err != nil {
			panic(err)
		}
		rc := &v2.RouterConfiguration{
			RouterConfigurationConfig: v2.RouterConfigurationConfig{RouterConfigName: httpMRouter},
			VirtualHosts: []v2.VirtualHost{{Name: "all", Domains: []string{"*"}, Routers: []v2.Router{{RouterConfig: v2.RouterConfig{
				Match: v2.RouterMatch{Prefix: "/"},
				Route: v2.RouteAction{RouterActionConfig: v2.RouterActionConfig{ClusterName: httpMCluster}}}}}}},
		}
		if err := router.GetRoutersMangerInstance().AddOrUpdateRouters(rc); err != nil {
			panic(err)
		}
		c01mFactory, err = proxyfilter.CreateProxyFactory(map[string]interface{}{
			"downstream_protocol": "Http1", "upstream_protocol": "Http1", "router_config_name": httpMRouter})
		if err != nil {
			panic(err)
		}
	})
}

func c01mWire(method, shape string, body []byte) []byte {
	var b bytes.Buffer
	b.WriteString(method + " /m/" + strings.ToLower(shape) + " HTTP/1.1\r\nHost: example.com\r\nX-K: v\r\n")
	switch shape {
	case "none":
		b.WriteString("\r\n")
	case "cl0":
		b.WriteString("Content-Length: 0\r\n\r\n")
	case "cl":
		fmt.Fprintf(&b, "Content-Length: %d\r\n\r\n", len(body))
		b.Write(body)
	case "chunked", "chunked0":
		b.WriteString("Transfer-Encoding: chunked\r\n\r\n")
		for i := 0; i < len(body); {
			n := len(body) - i
			if n > 700 {
				n = 700
			}
			fmt.Fprintf(&b, "%x\r\n", n)
			b.Write(body[i : i+n])
			b.WriteString("\r\n")
			i += n
		}
		b.WriteString("0\r\n\r\n")
	}
	return b.Bytes()
}

func c01mBody(r *hx.Rng, shape string) []byte {
	switch shape {
	case "cl", "chunked":
		return r.Bytes(r.Pick([]int{1, 2, 3, 100, 699, 700, 701, 4096, 1 + r.Intn(3000)}))
	}
	return nil
}

func runHTTP1Method(c *hx.Ctx) {
	c01mSetup()
	r := c.Rng.Fork()
	front, err := net.Listen("tcp", "127.0.0.1:0")
	if err != nil {
		panic(err)
	}
	defer front.Close()
	go func() {
		for {
			rawc, err := front.Accept()
			if err != nil {
				return
			}
			ctx := variable.NewVariableContext(context.Background())
			variable.Set(ctx, types.VariableAccessLogs, []api.AccessLog{})
			variable.Set(ctx, types.VariableListenerName, "c01-http1m")
			conn := network.NewServerConnection(ctx, rawc, nil)
			c01mFactory.CreateFilterChain(ctx, conn.FilterManager())
			conn.FilterManager().InitializeReadFilters()
			conn.Start(ctx)
		}
	}()
	seen := make(chan *httpMsg, 4)
	stop := make(chan struct{})
	defer close(stop)
	go func() { // recording upstream, serves the proxied and the direct cases
		for {
			conn, err := c01mUp.Accept()
			if err != nil {
				return
			}
			go func(conn net.Conn) {
				defer conn.Close()
				br := bufio.NewReader(conn)
				for {
					req, err := readRaw(br, true)
					if err != nil {
						return
					}
					select {
					case seen <- req:
					case <-stop:
						return
					}
					if strings.HasPrefix(req.first, "HEAD ") {
						conn.Write([]byte("HTTP/1.1 200 OK\r\nContent-Length: 0\r\n\r\n"))
					} else {
						conn.Write([]byte("HTTP/1.1 200 OK\r\nContent-Length: 2\r\nContent-Type: x/y\r\n\r\nok"))
					}
				}
			}(conn)
		}
	}()
	methodOf := func(m *httpMsg) string { return strings.SplitN(m.first, " ", 2)[0] }
	// --- through the proxy: every method × every body shape (rounds with fresh random bodies)
	rounds := c.N(2, 12)
	var cli net.Conn
	var cbr *bufio.Reader
	for round := 0; round < rounds; round++ {
		for _, method := range c01mMethods {
			for _, shape := range c01mShapes {
				if cli == nil || r.Chance(15) {
					if cli != nil {
						cli.Close()
					}
					cli, err = net.Dial("tcp", front.Addr().String())
					if err != nil {
						panic(err)
					}
					cbr = bufio.NewReader(cli)
				}
				body := c01mBody(r, shape)
				cli.SetDeadline(time.Now().Add(5 * time.Second))
				cli.Write(c01mWire(method, shape, body))
				out := "lost"
				var got *httpMsg
				select {
				case got = <-seen:
					out = methodOf(got) + " " + hx.Hex(got.body)
				case <-time.After(3 * time.Second):
				}
				ok := false
				if got != nil {
					if resp, _ := readRaw(cbr, false); resp != nil {
						ok = true
					}
				}
				if !ok {
					cli.Close()
					cli = nil
				}
				c.Emit("C01", fmt.Sprintf("http1m p %s %s %s", hx.Tok(method), shape, hx.Hex(body)), out)
				c.Count("http1m.method=" + method)
				c.Count("http1m.shape=" + shape)
			}
		}
	}
	if cli != nil {
		cli.Close()
	}
	// --- the default rule: real client stream, fresh header map, no method variable
	nd := c.N(12, 120)
	for i := 0; i < nd; i++ {
		end := i%2 == 0
		var body []byte
		if !end {
			body = r.Bytes(r.Pick([]int{1, 2, 100, 4096, 1 + r.Intn(2000)}))
		}
		ctx := buffer.NewBufferPoolContext(variable.NewVariableContext(context.Background()))
		conn := network.NewClientConnection(2*time.Second, nil, c01mUp.Addr(), nil)
		cl := stream.NewStreamClient(ctx, protocol.HTTP1, conn, nil)
		out := "lost"
		if cl != nil && cl.Connect() == nil {
			_, p := hx.Safe(func() {
				sender := cl.NewStream(ctx, c01mReceiver{})
				hdr := mosnhttp.RequestHeader{RequestHeader: &fasthttp.RequestHeader{}}
				hdr.Set("X-K", "v")
				variable.SetString(ctx, types.VarPath, "/d")
				variable.SetString(ctx, types.VarPathOriginal, "/d")
				variable.SetString(ctx, types.VarHost, "example.com")
				sender.AppendHeaders(ctx, hdr, end)
				if !end {
					sender.AppendData(ctx, buffer.NewIoBufferBytes(append([]byte{}, body...)), true)
				}
			})
			if !p {
				select {
				case got := <-seen:
					out = methodOf(got) + " " + hx.Hex(got.body)
				case <-time.After(3 * time.Second):
				}
			} else {
				out = "panic -"
			}
		}
		if conn != nil {
			time.Sleep(2 * time.Millisecond)
			conn.Close(api.NoFlush, api.LocalClose)
		}
		what := "data"
		if end {
			what = "end"
		}
		c.Emit("C01", fmt.Sprintf("http1m d - %s %s", what, hx.Hex(body)), out)
		c.Count("http1m.default=" + what)
	}
}

type c01mReceiver struct{}

func (c01mReceiver) OnReceive(ctx context.Context, headers api.HeaderMap, data buffer.IoBuffer, trailers api.HeaderMap) {
}
func (c01mReceiver) OnDecodeError(ctx context.Context, err error, headers api.HeaderMap) {}
