//go:build verif

// Package c01: forwarding fidelity of the xprotocol codecs. For every generated frame the real api.XProtocol decodes
// it from a read buffer, the read buffer is then overwritten (0xEE) as the connection would when it reuses it, the
// frame is optionally modified through the XFrame / HeaderMap API, the stream layer's SetRequestId is applied and the
// real Encode runs. Case and outcome go to the Lean model on one line.
package c01

import (
	"context"
	"fmt"
	"strings"

	"mosn.io/api"
	"mosn.io/pkg/buffer"
	"mosn.io/pkg/variable"

	"verif/harness/hx"
)

func init() { hx.Register("C01", Run) }

// op is one modification applied between Decode and Encode.
type op struct {
	kind byte // 'S' header Set, 'D' header Del, 'B' SetData(new buffer), 'C' Class assigned directly (bolt family only)
	k, v []byte
}

func opsTok(ops []op) string {
	if len(ops) == 0 {
		return "-"
	}
	var p []string
	for _, o := range ops {
		switch o.kind {
		case 'S':
			p = append(p, "S:"+hx.Hex(o.k)+":"+hx.Hex(o.v))
		case 'D':
			p = append(p, "D:"+hx.Hex(o.k))
		case 'B':
			p = append(p, "B:"+hx.Hex(o.v))
		case 'C':
			p = append(p, "C:"+hx.Hex(o.v))
		}
	}
	return strings.Join(p, ";")
}

// newStreamCtx is the per-stream context MOSN decodes with (buffer pool context over a variable context).
func newStreamCtx() context.Context {
	return buffer.NewBufferPoolContext(variable.NewVariableContext(context.Background()))
}

// setClass is installed by the bolt generator (needs the concrete frame types).
var setClass func(f api.XFrame, class string)

// forward drives Decode → recycle read buffer → ops → SetRequestId → Encode on the real codec.
// returns dec ("frame:<n>"|"more"|"err"|"panic"), enc ("ok"|"err"|"panic"|"-"), output bytes.
func forward(proto api.XProtocol, input []byte, id uint64, ops []op) (dec, enc string, out []byte) {
	ctx := newStreamCtx()
	in := append(make([]byte, 0, len(input)), input...)
	rb := buffer.NewIoBufferBytes(in)
	var cmd interface{}
	var err error
	if _, p := hx.Safe(func() { cmd, err = proto.Decode(ctx, rb) }); p {
		return "panic", "-", nil
	}
	if err != nil {
		return "err", "-", nil
	}
	if cmd == nil {
		return "more", "-", nil
	}
	frame, ok := cmd.(api.XFrame)
	if !ok {
		return "err", "-", nil
	}
	n := len(input) - rb.Len()
	dec = fmt.Sprintf("frame:%d", n)
	// the connection reuses its read buffer: whatever the frame still aliases is destroyed
	for i := range in {
		in[i] = 0xEE
	}
	rb.Reset()
	touchedBody := false
	var encErr error
	var buf api.IoBuffer
	_, p := hx.Safe(func() {
		for _, o := range ops {
			switch o.kind {
			case 'S':
				frame.GetHeader().Set(string(o.k), string(o.v))
			case 'D':
				frame.GetHeader().Del(string(o.k))
			case 'B':
				frame.SetData(buffer.NewIoBufferBytes(append([]byte{}, o.v...)))
				touchedBody = true
			case 'C':
				setClass(frame, string(o.v))
			}
		}
		// the proxy hands the frame's own data buffer back through AppendData → SetData
		if !touchedBody {
			if d := frame.GetData(); d != nil {
				frame.SetData(d)
			}
		}
		frame.SetRequestId(id)
		buf, encErr = proto.Encode(ctx, frame)
	})
	if p {
		return dec, "panic", nil
	}
	if encErr != nil || buf == nil {
		return dec, "err", nil
	}
	out = append([]byte{}, buf.Bytes()...)
	return dec, "ok", out
}

func emit(c *hx.Ctx, name string, proto api.XProtocol, input []byte, id uint64, ops []op) {
	dec, enc, out := forward(proto, input, id, ops)
	c.Emit("C01", fmt.Sprintf("%s %d %s %s", name, id, opsTok(ops), hx.Hex(input)), fmt.Sprintf("%s %s %s", dec, enc, hx.Hex(out)))
	c.Count(name + ".dec=" + strings.SplitN(dec, ":", 2)[0])
	c.Count(name + ".enc=" + enc)
	maybeReencm(c, proto, name, "", input, ops, dec)
}

// boundary lengths named by the property
var boundaryLens = []int{0, 1, 2, 254, 255, 256, 257, 65534, 65535, 65536, 70000}

func pickID(r *hx.Rng) uint64 {
	ids := []uint64{0, 1, 1<<31 - 1, 1 << 31, 1<<32 - 1}
	switch r.Intn(10) {
	case 0, 1, 2, 3, 4:
		return ids[r.Intn(len(ids))]
	case 5:
		return 1<<32 + uint64(r.Intn(1000)) // the stream id is a uint64: truncated to the field width
	case 6:
		return r.U64()
	default:
		return uint64(uint32(r.U64()))
	}
}

func lenBucket(n int) string {
	switch {
	case n == 0:
		return "0"
	case n < 254:
		return "1-253"
	case n <= 257:
		return "254-257"
	case n < 65534:
		return "258-65533"
	case n <= 65536:
		return "65534-65536"
	default:
		return ">65536"
	}
}

func Run(c *hx.Ctx) {
	only := ""
	for _, a := range c.Args {
		if strings.HasPrefix(a, "only=") {
			only = strings.TrimPrefix(a, "only=")
		}
	}
	for _, p := range []struct {
		name string
		run  func(*hx.Ctx)
	}{{"bolt", runBolt}, {"boltlocal", runBoltLocal}, {"dubbo", runDubbo}, {"thrift", runThrift}, {"tars", runTars}, {"uri", runURI}, {"http1", runHTTP1}, {"http2", runHTTP2}, {"relay", runRelay}, {"reenc", runReenc}, {"http1m", runHTTP1Method}, {"http1f", runHTTP1Framing}, {"relayup", runRelayFirst}, {"reencs", runReencStream}, {"h2t", runH2T}, {"x12", runX12}, {"x21", runX21}} {
		if only == "" || only == p.name {
			p.run(c)
		}
	}
}
