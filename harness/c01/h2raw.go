//go:build verif

package c01

import (
	"bytes"
	"fmt"
	"io"
	"net"
	"sort"
	"strings"
	"sync"
	"time"

	xh2 "golang.org/x/net/http2"
	xhpack "golang.org/x/net/http2/hpack"

	"verif/harness/hx"
)

// Frame-level HTTP/2 endpoints (x/net Framer + hpack only: no net/http semantics in the way). The client writes exactly
// the HEADERS / DATA / trailer frames of a generated message (pseudo fields, ordered field list with names as given,
// DATA payloads split as given, END_STREAM where given) and records what comes back frame by frame; the server does the
// same on the upstream side. Nothing is normalised by these endpoints: cookie crumbs, repeated fields, empty values,
// unannounced trailers and field order arrive as the peer wrote them.

type h2Msg struct {
	pseudo   [][2]string // (":method", v) … in the order written / received
	fields   [][2]string // regular fields in the order written / received, names as on the wire
	chunks   [][]byte    // DATA payloads to write (sent side); nil + endOnHeaders=false ⇒ one empty DATA with END_STREAM
	trailers [][2]string // trailer fields; hasTrailers tells an empty trailer block from none
	hasTrailers  bool
	endOnHeaders bool // END_STREAM on the HEADERS frame (no DATA, no trailers)
	interim      []int // sent: 1xx HEADERS written before the final ones; received: 1xx statuses seen
	// received side
	body  []byte
	nData int
	endAt byte // 'H' | 'D' | 'T': which frame carried END_STREAM
}

func (m *h2Msg) sentBody() []byte {
	var b []byte
	for _, c := range m.chunks {
		b = append(b, c...)
	}
	return b
}

func (m *h2Msg) pseudoVal(name string) string {
	for _, kv := range m.pseudo {
		if kv[0] == name {
			return kv[1]
		}
	}
	return ""
}

// fieldsTok: `name:valuehex,…`; stable-sorted by lower-cased name (MOSN keeps header fields in Go maps: the order ACROSS
// names is not an observable of the code, the order of the values of one name is).
func fieldsTok(fs [][2]string) string {
	if len(fs) == 0 {
		return "-"
	}
	s := append([][2]string{}, fs...)
	sort.SliceStable(s, func(i, j int) bool { return strings.ToLower(s[i][0]) < strings.ToLower(s[j][0]) })
	p := make([]string, len(s))
	for i, kv := range s {
		p[i] = nameTok(kv[0]) + ":" + hx.Hex([]byte(kv[1]))
	}
	return strings.Join(p, ",")
}

func nameTok(n string) string {
	for i := 0; i < len(n); i++ {
		ch := n[i]
		if !(ch >= 'a' && ch <= 'z' || ch >= 'A' && ch <= 'Z' || ch >= '0' && ch <= '9' || ch == '-' || ch == '_' || ch == '.' || ch == '~') {
			return "x" + hx.Hex([]byte(n)) // not a plain token: hex with a marker ('x' + hex is never a generated name)
		}
	}
	if n == "" {
		return "x-"
	}
	return n
}

func trailersTok(has bool, fs [][2]string) string {
	if !has {
		return "none"
	}
	return fieldsTok(fs)
}

func pseudoTok(ps [][2]string) string {
	if len(ps) == 0 {
		return "-"
	}
	s := append([][2]string{}, ps...)
	sort.SliceStable(s, func(i, j int) bool { return s[i][0] < s[j][0] })
	p := make([]string, len(s))
	for i, kv := range s {
		p[i] = strings.TrimPrefix(kv[0], ":") + ":" + hx.Hex([]byte(kv[1]))
	}
	return strings.Join(p, ",")
}

func framingTok(m *h2Msg) string {
	if m.endOnHeaders {
		return "e"
	}
	if len(m.chunks) == 0 {
		return "z" // no payload: a lone empty DATA frame (or the trailers) ends the stream
	}
	p := make([]string, len(m.chunks))
	for i, c := range m.chunks {
		p[i] = fmt.Sprint(len(c))
	}
	return strings.Join(p, ",")
}

func interimTok(l []int) string {
	if len(l) == 0 {
		return "-"
	}
	p := make([]string, len(l))
	for i, c := range l {
		p[i] = fmt.Sprint(c)
	}
	return strings.Join(p, ",")
}

// ---------------------------------------------------------------------------------------------------------------------

type h2Ev struct {
	kind   byte // 'H' headers, 'D' data, 'R' reset, 'G' goaway, 'X' connection gone
	id     uint32
	fields []xhpack.HeaderField
	data   []byte
	end    bool
	code   uint32
}

type h2Raw struct {
	c   net.Conn
	fr  *xh2.Framer
	wmu sync.Mutex // frame writes and the hpack encoder
	enc *xhpack.Encoder
	hb  bytes.Buffer

	mu       sync.Mutex
	cond     *sync.Cond
	connWin  int64
	initWin  int64
	swin     map[uint32]int64
	maxFrame int
	dead     bool

	ev chan h2Ev
}

func newH2Raw(c net.Conn) *h2Raw {
	r := &h2Raw{c: c, fr: xh2.NewFramer(c, c), connWin: 65535, initWin: 65535, swin: map[uint32]int64{}, maxFrame: 16384,
		ev: make(chan h2Ev, 4096)}
	r.cond = sync.NewCond(&r.mu)
	r.enc = xhpack.NewEncoder(&r.hb)
	r.fr.ReadMetaHeaders = xhpack.NewDecoder(4096, nil)
	r.fr.MaxHeaderListSize = 16 << 20
	r.fr.SetMaxReadFrameSize(1 << 20)
	return r
}

func (r *h2Raw) readLoop() {
	defer func() {
		r.mu.Lock()
		r.dead = true
		r.cond.Broadcast()
		r.mu.Unlock()
		r.ev <- h2Ev{kind: 'X'}
	}()
	for {
		f, err := r.fr.ReadFrame()
		if err != nil {
			if se, ok := err.(xh2.StreamError); ok { // a header block x/net refuses (upper-case name, bad value): reported as a reset
				r.ev <- h2Ev{kind: 'R', id: se.StreamID, code: 0xfffe}
				continue
			}
			return
		}
		switch x := f.(type) {
		case *xh2.SettingsFrame:
			if x.IsAck() {
				continue
			}
			r.mu.Lock()
			x.ForeachSetting(func(s xh2.Setting) error {
				switch s.ID {
				case xh2.SettingInitialWindowSize:
					d := int64(s.Val) - r.initWin
					r.initWin = int64(s.Val)
					for k := range r.swin {
						r.swin[k] += d
					}
				case xh2.SettingMaxFrameSize:
					r.maxFrame = int(s.Val)
				}
				return nil
			})
			r.cond.Broadcast()
			r.mu.Unlock()
			r.wmu.Lock()
			x.ForeachSetting(func(s xh2.Setting) error {
				if s.ID == xh2.SettingHeaderTableSize {
					r.enc.SetMaxDynamicTableSize(s.Val)
				}
				return nil
			})
			r.fr.WriteSettingsAck()
			r.wmu.Unlock()
		case *xh2.WindowUpdateFrame:
			r.mu.Lock()
			if x.StreamID == 0 {
				r.connWin += int64(x.Increment)
			} else {
				if _, ok := r.swin[x.StreamID]; !ok {
					r.swin[x.StreamID] = r.initWin
				}
				r.swin[x.StreamID] += int64(x.Increment)
			}
			r.cond.Broadcast()
			r.mu.Unlock()
		case *xh2.PingFrame:
			if !x.IsAck() {
				r.wmu.Lock()
				r.fr.WritePing(true, x.Data)
				r.wmu.Unlock()
			}
		case *xh2.MetaHeadersFrame:
			r.ev <- h2Ev{kind: 'H', id: x.StreamID, fields: append([]xhpack.HeaderField{}, x.Fields...), end: x.StreamEnded()}
		case *xh2.DataFrame:
			d := append([]byte{}, x.Data()...)
			if n := len(d); n > 0 { // give the credit back at once: the peer's sending is never throttled by this endpoint
				r.wmu.Lock()
				r.fr.WriteWindowUpdate(0, uint32(n))
				if !x.StreamEnded() {
					r.fr.WriteWindowUpdate(x.StreamID, uint32(n))
				}
				r.wmu.Unlock()
			}
			r.ev <- h2Ev{kind: 'D', id: x.StreamID, data: d, end: x.StreamEnded()}
		case *xh2.RSTStreamFrame:
			r.ev <- h2Ev{kind: 'R', id: x.StreamID, code: uint32(x.ErrCode)}
		case *xh2.GoAwayFrame:
			r.ev <- h2Ev{kind: 'G', id: x.LastStreamID, code: uint32(x.ErrCode)}
		}
	}
}

func (r *h2Raw) writeHeaders(id uint32, fields [][2]string, end bool) error {
	r.wmu.Lock()
	defer r.wmu.Unlock()
	r.hb.Reset()
	for _, kv := range fields {
		r.enc.WriteField(xhpack.HeaderField{Name: kv[0], Value: kv[1]})
	}
	block := append([]byte(nil), r.hb.Bytes()...)
	r.mu.Lock()
	max := r.maxFrame
	r.mu.Unlock()
	first := true
	for first || len(block) > 0 {
		frag := block
		if len(frag) > max {
			frag = frag[:max]
		}
		block = block[len(frag):]
		var err error
		if first {
			err = r.fr.WriteHeaders(xh2.HeadersFrameParam{StreamID: id, BlockFragment: frag, EndStream: end, EndHeaders: len(block) == 0})
		} else {
			err = r.fr.WriteContinuation(id, len(block) == 0, frag)
		}
		first = false
		if err != nil {
			return err
		}
	}
	return nil
}

func (r *h2Raw) writeData(id uint32, data []byte, end bool) error {
	if len(data) == 0 {
		r.wmu.Lock()
		defer r.wmu.Unlock()
		return r.fr.WriteData(id, end, nil)
	}
	for len(data) > 0 {
		r.mu.Lock()
		if _, ok := r.swin[id]; !ok {
			r.swin[id] = r.initWin
		}
		deadline := time.Now().Add(5 * time.Second)
		for !r.dead && (r.connWin <= 0 || r.swin[id] <= 0) {
			if time.Now().After(deadline) {
				r.mu.Unlock()
				return fmt.Errorf("flow control window never opened")
			}
			t := time.AfterFunc(200*time.Millisecond, func() { r.mu.Lock(); r.cond.Broadcast(); r.mu.Unlock() })
			r.cond.Wait()
			t.Stop()
		}
		if r.dead {
			r.mu.Unlock()
			return io.ErrClosedPipe
		}
		n := int64(len(data))
		if n > r.connWin {
			n = r.connWin
		}
		if n > r.swin[id] {
			n = r.swin[id]
		}
		if n > int64(r.maxFrame) {
			n = int64(r.maxFrame)
		}
		r.connWin -= n
		r.swin[id] -= n
		r.mu.Unlock()
		r.wmu.Lock()
		err := r.fr.WriteData(id, end && int(n) == len(data), data[:n])
		r.wmu.Unlock()
		if err != nil {
			return err
		}
		data = data[n:]
	}
	return nil
}

// writeMsg writes one message (request or response) on stream id.
func (r *h2Raw) writeMsg(id uint32, m *h2Msg) error {
	for _, code := range m.interim {
		if err := r.writeHeaders(id, [][2]string{{":status", fmt.Sprint(code)}}, false); err != nil {
			return err
		}
	}
	head := append(append([][2]string{}, m.pseudo...), m.fields...)
	if m.endOnHeaders {
		return r.writeHeaders(id, head, true)
	}
	if err := r.writeHeaders(id, head, false); err != nil {
		return err
	}
	for i, c := range m.chunks {
		last := i == len(m.chunks)-1 && !m.hasTrailers
		if err := r.writeData(id, c, last); err != nil {
			return err
		}
	}
	if m.hasTrailers {
		return r.writeHeaders(id, m.trailers, true)
	}
	if len(m.chunks) == 0 {
		return r.writeData(id, nil, true)
	}
	return nil
}

// collect reads events of stream id until END_STREAM; status: "ok" | "reset:<code>" | "goaway:<code>" | "gone" | "timeout" | "malformed"
func (r *h2Raw) collect(id uint32, wait time.Duration) (*h2Msg, string) {
	m := &h2Msg{}
	gotHead := false
	timer := time.NewTimer(wait)
	defer timer.Stop()
	for {
		select {
		case e := <-r.ev:
			switch e.kind {
			case 'X':
				r.ev <- e
				return m, "gone"
			case 'G':
				if e.code != 0 {
					return m, fmt.Sprintf("goaway:%d", e.code)
				}
				continue
			case 'R':
				if e.id == id {
					return m, fmt.Sprintf("reset:%d", e.code)
				}
				continue
			}
			if e.id != id {
				continue
			}
			switch e.kind {
			case 'H':
				if !gotHead {
					var ps, fs [][2]string
					for _, f := range e.fields {
						if strings.HasPrefix(f.Name, ":") {
							ps = append(ps, [2]string{f.Name, f.Value})
						} else {
							fs = append(fs, [2]string{f.Name, f.Value})
						}
					}
					if len(ps) == 1 && ps[0][0] == ":status" && len(ps[0][1]) == 3 && ps[0][1][0] == '1' && !e.end {
						var code int
						fmt.Sscan(ps[0][1], &code)
						m.interim = append(m.interim, code)
						continue
					}
					gotHead = true
					m.pseudo, m.fields = ps, fs
					if e.end {
						m.endAt = 'H'
						m.endOnHeaders = true
						return m, "ok"
					}
				} else {
					m.hasTrailers = true
					for _, f := range e.fields {
						m.trailers = append(m.trailers, [2]string{f.Name, f.Value})
					}
					if !e.end {
						return m, "malformed"
					}
					m.endAt = 'T'
					return m, "ok"
				}
			case 'D':
				if !gotHead {
					return m, "malformed"
				}
				m.nData++
				m.body = append(m.body, e.data...)
				if e.end {
					m.endAt = 'D'
					return m, "ok"
				}
			}
		case <-timer.C:
			return m, "timeout"
		}
	}
}

// ---------------------------------------------------------------------------------------------------------------------
// client

func h2RawDial(addr string) (*h2Raw, error) {
	c, err := net.Dial("tcp", addr)
	if err != nil {
		return nil, err
	}
	r := newH2Raw(c)
	if _, err := c.Write([]byte(xh2.ClientPreface)); err != nil {
		return nil, err
	}
	r.fr.WriteSettings()
	go r.readLoop()
	return r, nil
}

func (r *h2Raw) close() { r.c.Close() }

// ---------------------------------------------------------------------------------------------------------------------
// server: every complete request is handed to `reqs`; the owner answers with respond

type h2RawReq struct {
	conn   *h2Raw
	id     uint32
	msg    *h2Msg
	status string
}

type h2RawServer struct {
	ln   net.Listener
	reqs chan h2RawReq
}

func newH2RawServer() *h2RawServer {
	ln, err := net.Listen("tcp", "127.0.0.1:0")
	if err != nil {
		panic(err)
	}
	s := &h2RawServer{ln: ln, reqs: make(chan h2RawReq, 64)}
	go func() {
		for {
			c, err := ln.Accept()
			if err != nil {
				return
			}
			go s.serve(c)
		}
	}()
	return s
}

func (s *h2RawServer) serve(c net.Conn) {
	pre := make([]byte, len(xh2.ClientPreface))
	if _, err := io.ReadFull(c, pre); err != nil || string(pre) != xh2.ClientPreface {
		c.Close()
		return
	}
	r := newH2Raw(c)
	r.wmu.Lock()
	r.fr.WriteSettings()
	r.wmu.Unlock()
	go r.readLoop()
	// requests arrive one at a time (the harness has one request in flight): collect stream after stream
	for {
		var first h2Ev
		for {
			first = <-r.ev
			if first.kind == 'X' {
				return
			}
			if first.kind == 'H' {
				break
			}
		}
		// put the event back in front by collecting with a pre-seeded message
		r2 := first
		m, st := r.collectFrom(r2, 5*time.Second)
		s.reqs <- h2RawReq{r, first.id, m, st}
	}
}

// collectFrom: collect with the first HEADERS event already taken from the channel
func (r *h2Raw) collectFrom(first h2Ev, wait time.Duration) (*h2Msg, string) {
	m := &h2Msg{}
	for _, f := range first.fields {
		if strings.HasPrefix(f.Name, ":") {
			m.pseudo = append(m.pseudo, [2]string{f.Name, f.Value})
		} else {
			m.fields = append(m.fields, [2]string{f.Name, f.Value})
		}
	}
	if first.end {
		m.endAt, m.endOnHeaders = 'H', true
		return m, "ok"
	}
	timer := time.NewTimer(wait)
	defer timer.Stop()
	for {
		select {
		case e := <-r.ev:
			switch e.kind {
			case 'X':
				r.ev <- e
				return m, "gone"
			case 'R':
				if e.id == first.id {
					return m, fmt.Sprintf("reset:%d", e.code)
				}
			case 'H':
				if e.id != first.id {
					continue
				}
				m.hasTrailers = true
				for _, f := range e.fields {
					m.trailers = append(m.trailers, [2]string{f.Name, f.Value})
				}
				if !e.end {
					return m, "malformed"
				}
				m.endAt = 'T'
				return m, "ok"
			case 'D':
				if e.id != first.id {
					continue
				}
				m.nData++
				m.body = append(m.body, e.data...)
				if e.end {
					m.endAt = 'D'
					return m, "ok"
				}
			}
		case <-timer.C:
			return m, "timeout"
		}
	}
}
