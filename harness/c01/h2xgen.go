//go:build verif

package c01

import (
	"fmt"
	"net/url"
	"strings"

	"github.com/valyala/fasthttp"

	"verif/harness/hx"
)

// Generators of the kinds h2t / x12 / x21: structured, mostly well-formed messages over the boundary list of the property
// (pseudo fields, `:path` with query / empty query / escapes / characters net/url re-escapes, cookie crumbs, `te: trailers`,
// connection-specific fields on the HTTP/1 side, repeated fields, empty values, trailers announced / unannounced / with an empty
// body, every END_STREAM placement, body size classes up to 70000 bytes in 1-4 DATA frames, 1xx / 204 / 304 / HEAD responses).

type xMsg struct {
	method, target, authority string // request
	status                    string // response
	interim                   []int
	fields                    [][2]string // names lower-case
	body                      []byte
	cuts                      []int // DATA frame sizes (HTTP/2) / chunk sizes (HTTP/1 chunked)
	endOnHeaders              bool  // HTTP/2: END_STREAM on HEADERS; HTTP/1: no framing header at all
	emptyData                 bool  // HTTP/2: no payload, a lone empty DATA frame ends the stream (HTTP/1: Content-Length: 0)
	trailers                  [][2]string
	hasTrailers               bool
	malformed                 bool // a request MOSN must refuse: nothing to wait for
}

var xReqNames = []string{"x-trace-id", "accept", "accept", "user-agent", "cookie", "cookie", "x-empty", "authorization", "x-dup", "x-dup", "x-dup",
	"content-type", "accept-encoding", "via", "via", "x-forwarded-for", "x-forwarded-for", "cache-control", "x-bin", "te"}
var xRespNames = []string{"content-type", "set-cookie", "set-cookie", "set-cookie", "x-dup", "x-dup", "vary", "vary", "cache-control", "etag", "location",
	"server", "x-empty", "x-trace-id", "via"}
var xValues = []string{"v", "a b  c", "x,y;q=0.5", "\xc3\xa9", "=?utf-8?b?", "1", "\"quoted\"", "tab\there", "", "0", "a=b"}
var xTrailerNames = []string{"x-t1", "x-t2", "x-t2", "grpc-status", "grpc-message", "x-checksum"}
var xSingle = map[string]bool{"user-agent": true, "content-type": true, "authorization": true, "etag": true, "location": true, "server": true, "te": true, "cache-control": true}
var xBodyLens = []int{0, 1, 2, 255, 256, 16383, 16384, 16385, 65535, 65536, 70000}
var xPathExtra = []string{"/a{b}", "/a|b", "/q\"r", "/c^d", "/e`f", "/g[h]", "/i<j>", "/k#l", "/m%7Bn"}

func xGenFields(r *hx.Rng, names []string, isReq bool) [][2]string {
	var h [][2]string
	used := map[string]bool{}
	n := r.Intn(9)
	for i := 0; i < n; i++ {
		k := names[r.Intn(len(names))]
		if xSingle[k] {
			if used[k] {
				continue
			}
		}
		used[k] = true
		v := xValues[r.Intn(len(xValues))]
		switch k {
		case "x-empty":
			v = ""
		case "cookie":
			v = r.PickS([]string{"a=1", "b=2", "sid=abc123", "theme=dark", "k=v=w"})
		case "set-cookie":
			v = r.PickS([]string{"a=1; Path=/", "b=2", "sid=x; HttpOnly; Secure", "a=3; Max-Age=0", "t=1, 2"})
		case "te":
			v = "trailers"
		case "user-agent", "content-type", "server":
			if v == "" && !r.Chance(8) { // an empty special header is a known fasthttp / x-net rule: kept rare
				v = "curl/8.0"
			}
			if k == "content-type" && v != "" {
				v = r.PickS([]string{"application/json", "text/html; charset=utf-8", "application/grpc", "x/y"})
			}
		case "x-bin":
			v = strings.Repeat("z", r.Pick([]int{1, 300, 1500}))
		}
		h = append(h, [2]string{k, v})
	}
	return h
}

func xGenBody(r *hx.Rng) []byte {
	n := 0
	switch {
	case r.Chance(35):
		n = xBodyLens[r.Intn(len(xBodyLens))]
		if n > 16385 && !r.Chance(25) {
			n = r.Intn(300) + 1
		}
	case r.Chance(80):
		n = 1 + r.Intn(64)
	default:
		n = 1 + r.Intn(3000)
	}
	return r.Bytes(n)
}

func xCuts(r *hx.Rng, n int) []int {
	if n == 0 {
		return nil
	}
	k := 1 + r.Intn(4)
	if r.Chance(50) {
		k = 1
	}
	var cuts []int
	rest := n
	for i := 0; i < k-1 && rest > 1; i++ {
		c := 1 + r.Intn(rest-1)
		if r.Chance(10) {
			cuts = append(cuts, 0) // an empty DATA frame in between
		}
		cuts = append(cuts, c)
		rest -= c
	}
	return append(cuts, rest)
}

func xGenTrailers(r *hx.Rng) [][2]string {
	var t [][2]string
	n := 1 + r.Intn(4)
	for i := 0; i < n; i++ {
		k := xTrailerNames[r.Intn(len(xTrailerNames))]
		v := r.PickS([]string{"0", "ok", "v1", "v2", "", "a b", "\xc3\xa9"})
		t = append(t, [2]string{k, v})
	}
	return t
}

func xAnnounce(t [][2]string) string {
	seen := map[string]bool{}
	var n []string
	for _, kv := range t {
		if !seen[kv[0]] {
			seen[kv[0]] = true
			n = append(n, kv[0])
		}
	}
	return strings.Join(n, ", ")
}

var xCleanSegs = []string{"a", "home", "sample", "b.c", "%41", "%C3%A9", ";p=1", "~", "x=y", "@", ":", "'", "index.html", "a..b", "...", "+", "%20", "%25%36%64", "v1", "users", "42"}

func xGenTarget(r *hx.Rng) string {
	for {
		t := genTarget(r)
		if r.Chance(55) { // an ordinary target: plain and validly escaped segments, any query
			n := 1 + r.Intn(4)
			var sb strings.Builder
			for i := 0; i < n; i++ {
				sb.WriteByte('/')
				sb.WriteString(xCleanSegs[r.Intn(len(xCleanSegs))])
			}
			if r.Chance(20) {
				sb.WriteByte('/')
			}
			t = sb.String() + uriQueries[r.Intn(len(uriQueries))]
			if !isASCII(t) {
				continue
			}
			return t
		}
		if r.Chance(8) {
			q := ""
			if i := strings.IndexByte(t, '?'); i >= 0 {
				q = t[i:]
				t = t[:i]
			}
			t = strings.TrimSuffix(t, "/") + xPathExtra[r.Intn(len(xPathExtra))] + q
		}
		if _, err := url.ParseRequestURI(xPathPart(t)); err != nil && !r.Chance(10) {
			continue
		}
		if t == "*" || strings.HasPrefix(t, "//") || strings.ContainsAny(t, "\\\x00 ") || !isASCII(t) || strings.Contains(t, "%00") {
			continue
		}
		return t
	}
}

func xGenReq(c *hx.Ctx, r *hx.Rng, kind string) *xMsg {
	m := &xMsg{}
	m.method = r.PickS([]string{"GET", "GET", "POST", "POST", "PUT", "DELETE", "PATCH", "HEAD", "OPTIONS"})
	m.target = xGenTarget(r)
	m.authority = r.PickS([]string{"example.com", "a.b:8080", "Example.COM:80"})
	m.fields = xGenFields(r, xReqNames, true)
	hasBody := m.method == "POST" || m.method == "PUT" || m.method == "PATCH" || (m.method == "DELETE" || m.method == "GET") && r.Chance(10)
	if hasBody && !r.Chance(20) {
		m.body = xGenBody(r)
		m.cuts = xCuts(r, len(m.body))
	}
	if m.method != "HEAD" && (len(m.body) > 0 && r.Chance(25) || len(m.body) == 0 && hasBody && r.Chance(40)) {
		m.hasTrailers = true
		m.trailers = xGenTrailers(r)
		if r.Chance(8) {
			m.trailers = nil // an empty trailer block
		}
		if r.Chance(50) && len(m.trailers) > 0 {
			m.fields = append(m.fields, [2]string{"trailer", xAnnounce(m.trailers)})
		}
	}
	if len(m.body) == 0 && !m.hasTrailers {
		if hasBody && r.Chance(50) {
			m.emptyData = true
		} else {
			m.endOnHeaders = true
		}
	}
	if len(m.body) > 0 && r.Chance(30) {
		m.fields = append(m.fields, [2]string{"content-length", fmt.Sprint(len(m.body))})
	}
	if kind != "x12" && r.Chance(3) { // malformed stream: an upper-case field name on the HTTP/2 wire (RFC 7540 8.1.2) must be refused
		m.fields = append(m.fields, [2]string{"X-Upper", "v"})
		m.malformed = true
		c.Count(kind + ".req.malformed=upper-case-name")
	}
	c.Count(kind + ".req.method=" + m.method)
	c.Count(kind + ".req.body=" + lenBucket(len(m.body)))
	c.Count(fmt.Sprintf("%s.req.frames=%d", kind, len(m.cuts)))
	xCountShape(c, kind+".req", m)
	if strings.Contains(m.target, "?") {
		if strings.HasSuffix(m.target, "?") {
			c.Count(kind + ".req.query=empty-with-?")
		} else {
			c.Count(kind + ".req.query=present")
		}
	} else {
		c.Count(kind + ".req.query=none")
	}
	return m
}

func xCountShape(c *hx.Ctx, pfx string, m *xMsg) {
	switch {
	case m.endOnHeaders:
		c.Count(pfx + ".end=headers")
	case m.hasTrailers && len(m.body) == 0:
		c.Count(pfx + ".end=trailers-empty-body")
	case m.hasTrailers:
		c.Count(pfx + ".end=trailers")
	case m.emptyData:
		c.Count(pfx + ".end=empty-data")
	default:
		c.Count(pfx + ".end=data")
	}
	rep := map[string]int{}
	for _, kv := range m.fields {
		rep[kv[0]]++
		if kv[1] == "" {
			c.Count(pfx + ".field=empty-value")
		}
	}
	for k, n := range rep {
		if n > 1 {
			c.Count(pfx + ".field=repeated")
			if k == "cookie" {
				c.Count(pfx + ".field=cookie-crumbs")
			}
			if k == "set-cookie" {
				c.Count(pfx + ".field=set-cookie-repeated")
			}
		}
	}
}

func xGenResp(c *hx.Ctx, r *hx.Rng, kind string, reqMethod string) *xMsg {
	m := &xMsg{}
	m.status = fmt.Sprint(r.Pick([]int{200, 200, 200, 201, 204, 301, 304, 404, 500, 503}))
	if r.Chance(6) {
		m.interim = []int{r.Pick([]int{100, 103, 102})}
		if r.Chance(30) {
			m.interim = append(m.interim, 103)
		}
	}
	m.fields = xGenFields(r, xRespNames, false)
	if r.Chance(10) {
		m.fields = append(m.fields, [2]string{"date", "Tue, 15 Nov 1994 08:12:31 GMT"})
	}
	bodiless := reqMethod == "HEAD" || m.status == "204" || m.status == "304"
	if !bodiless && !r.Chance(25) {
		m.body = xGenBody(r)
		m.cuts = xCuts(r, len(m.body))
	}
	if !bodiless && r.Chance(25) {
		m.hasTrailers = true
		m.trailers = xGenTrailers(r)
		if r.Chance(8) {
			m.trailers = nil
		}
		if r.Chance(40) && len(m.trailers) > 0 {
			m.fields = append(m.fields, [2]string{"trailer", xAnnounce(m.trailers)})
		}
	}
	if len(m.body) == 0 && !m.hasTrailers {
		if !bodiless && r.Chance(40) {
			m.emptyData = true
		} else {
			m.endOnHeaders = true
		}
	}
	switch {
	case bodiless && m.status != "204" && r.Chance(50):
		m.fields = append(m.fields, [2]string{"content-length", fmt.Sprint(r.Pick([]int{0, 5, 1234}))})
	case len(m.body) > 0 && r.Chance(30):
		m.fields = append(m.fields, [2]string{"content-length", fmt.Sprint(len(m.body))})
	}
	c.Count(kind + ".resp.status=" + m.status)
	if reqMethod == "HEAD" {
		c.Count(kind + ".resp.to-HEAD")
	}
	if len(m.interim) > 0 {
		c.Count(kind + ".resp.interim")
	}
	c.Count(kind + ".resp.body=" + lenBucket(len(m.body)))
	xCountShape(c, kind+".resp", m)
	return m
}

// --- rendering ---------------------------------------------------------------------------------------------------------

func (m *xMsg) chunks() [][]byte {
	var out [][]byte
	b := m.body
	for _, n := range m.cuts {
		out = append(out, b[:n])
		b = b[n:]
	}
	return out
}

func (m *xMsg) toH2(r *hx.Rng, isReq bool) *h2Msg {
	w := &h2Msg{fields: m.fields, chunks: m.chunks(), trailers: m.trailers, hasTrailers: m.hasTrailers, endOnHeaders: m.endOnHeaders, interim: m.interim}
	if isReq {
		w.pseudo = [][2]string{{":method", m.method}, {":scheme", "http"}, {":authority", m.authority}, {":path", m.target}}
		if r.Chance(30) { // pseudo field order is free
			w.pseudo[0], w.pseudo[3] = w.pseudo[3], w.pseudo[0]
		}
	} else {
		w.pseudo = [][2]string{{":status", m.status}}
	}
	return w
}

var xH1Case = map[string]string{"x-trace-id": "X-Trace-Id", "accept": "Accept", "user-agent": "User-Agent", "cookie": "Cookie", "x-empty": "X-Empty",
	"x-dup": "X-DUP", "content-type": "Content-Type", "via": "Via", "x-forwarded-for": "X-Forwarded-For", "set-cookie": "Set-Cookie", "vary": "Vary",
	"etag": "ETag", "location": "Location", "server": "Server", "te": "TE", "trailer": "Trailer", "x-bin": "x-Bin", "date": "Date", "content-length": "Content-Length"}

// toH1: the same message on an HTTP/1.1 connection. Field names get mixed case; `connSpecific` adds the connection-specific
// fields an HTTP/1 peer sends (they must not reach the HTTP/2 side).
func (m *xMsg) toH1(r *hx.Rng, isReq bool, connSpecific bool, bodiless bool) (*h1Msg, [][]byte) {
	w := &h1Msg{body: m.body, trailers: m.trailers, hasTrailers: m.hasTrailers, interim: m.interim}
	if isReq {
		w.start = [2]string{m.method, m.target}
		w.fields = append(w.fields, [2]string{"Host", m.authority})
	} else {
		w.start = [2]string{m.status, ""}
	}
	explicitCL := false
	for _, kv := range m.fields {
		k := kv[0]
		if k == "content-length" {
			explicitCL = true
		}
		if u, ok := xH1Case[k]; ok && r.Chance(70) {
			k = u
		}
		w.fields = append(w.fields, [2]string{k, kv[1]})
	}
	if connSpecific {
		w.fields = append(w.fields, [2]string{"Connection", "keep-alive"})
		if r.Chance(60) {
			w.fields = append(w.fields, [2]string{"Keep-Alive", "timeout=5, max=100"})
		}
		if isReq && r.Chance(40) {
			w.fields = append(w.fields, [2]string{"Proxy-Connection", "keep-alive"})
		}
	}
	var chunks [][]byte
	switch {
	case m.hasTrailers || len(m.body) > 0 && len(m.cuts) > 1:
		w.framing = "ch"
		chunks = m.chunks()
		if explicitCL { // Content-Length and chunked together is not a well-formed message: the explicit length is dropped
			var f [][2]string
			for _, kv := range w.fields {
				if !strings.EqualFold(kv[0], "content-length") {
					f = append(f, kv)
				}
			}
			w.fields = f
		}
	case explicitCL:
		w.framing = "none" // the explicit Content-Length field is the framing
	case m.endOnHeaders && (isReq || bodiless):
		w.framing = "none"
	default:
		w.framing = "cl"
	}
	return w, chunks
}

// --- oracles (black-box library results shipped with the case) -------------------------------------------------------------

func xPathPart(target string) string {
	if i := strings.IndexByte(target, '?'); i >= 0 {
		return target[:i]
	}
	return target
}

func hexOrE(s string, ok bool) string {
	if !ok {
		return "E"
	}
	return hx.Hex([]byte(s))
}

func xOracles(kind string, target string) string {
	p := xPathPart(target)
	switch kind {
	case "h2t", "x21":
		u, err := url.ParseRequestURI(p)
		if err != nil {
			return "E;-;E;-;-"
		}
		esc := u.EscapedPath()
		un, uerr := url.PathUnescape(esc)
		fh := &fasthttp.URI{}
		fh.SetPath(esc)
		ru := (&url.URL{Path: u.Path}).RequestURI()
		return strings.Join([]string{hx.Hex([]byte(esc)), hx.Hex([]byte(u.Path)), hexOrE(un, uerr == nil), hx.Hex(fh.Path()), hx.Hex([]byte(ru))}, ";")
	default: // x12: fasthttp's normalisation of the path, then net/url's EscapedPath of {Path: normalised, RawPath: original}
		var req fasthttp.Request
		req.SetRequestURI(target)
		req.Header.SetHost("h")
		norm := string(req.URI().Path())
		esc := (&url.URL{Path: norm, RawPath: p}).EscapedPath()
		if esc == "" {
			esc = "/"
		}
		un, uerr := url.PathUnescape(p)
		esc2 := (&url.URL{Path: un, RawPath: p}).EscapedPath()
		if esc2 == "" {
			esc2 = "/"
		}
		return strings.Join([]string{hx.Hex([]byte(norm)), hx.Hex([]byte(esc)), hexOrE(un, uerr == nil), hx.Hex([]byte(esc2)), "-"}, ";")
	}
}

// --- the three kinds -----------------------------------------------------------------------------------------------------

// xBoundary: the boundary list of the property and the minimised inputs of the defects repaired in this slice, run first in
// every run of every kind (deterministic; the generated cases follow).
func xBoundary() [][2]*xMsg {
	rq := func(method, target string, fields [][2]string, body string, cuts []int, tr [][2]string, hasT bool) *xMsg {
		m := &xMsg{method: method, target: target, authority: "Example.com:8080", fields: fields, body: []byte(body), cuts: cuts, trailers: tr, hasTrailers: hasT}
		if body == "" && !hasT {
			m.endOnHeaders = true
		}
		return m
	}
	rs := func(status string, fields [][2]string, body string, cuts []int, tr [][2]string, hasT bool, interim ...int) *xMsg {
		m := &xMsg{status: status, fields: fields, body: []byte(body), cuts: cuts, trailers: tr, hasTrailers: hasT, interim: interim}
		if body == "" && !hasT {
			m.endOnHeaders = true
		}
		return m
	}
	tr := [][2]string{{"x-t1", "v1"}, {"x-t2", "v2"}, {"x-t2", "v3"}}
	crumbs := [][2]string{{"cookie", "a=1"}, {"x-dup", "one"}, {"cookie", "b=2"}, {"x-dup", "two"}, {"x-empty", ""}, {"te", "trailers"}, {"cookie", "c=3"}}
	cookies := [][2]string{{"set-cookie", "a=1; Path=/"}, {"x-dup", "one"}, {"set-cookie", "b=2"}, {"x-dup", "two"}, {"set-cookie", "a=3"}, {"vary", "accept"}, {"vary", ""}}
	emptyPost := rq("POST", "/p", nil, "", nil, nil, false)
	emptyPost.endOnHeaders, emptyPost.emptyData = false, true
	emptyResp := rs("200", nil, "", nil, nil, false)
	emptyResp.endOnHeaders, emptyResp.emptyData = false, true
	return [][2]*xMsg{
		{rq("GET", "/a/b?x=1&y=%20", crumbs, "", nil, nil, false), rs("200", cookies, "hello", []int{5}, nil, false)},
		{rq("POST", "/a%2Fb//c/../d?q", nil, "body", []int{1, 0, 3}, nil, false), rs("201", [][2]string{{"location", "/x"}}, "", nil, nil, false)},
		{emptyPost, rs("204", [][2]string{{"etag", "\"e\""}}, "", nil, nil, false)},
		{rq("POST", "/t", [][2]string{{"trailer", "x-t1, x-t2"}}, "body", []int{4}, tr, true), rs("200", [][2]string{{"trailer", "x-t1, x-t2"}}, "resp", []int{4}, tr, true)},
		{rq("POST", "/t", nil, "body", []int{2, 2}, tr, true), rs("200", nil, "resp", []int{1, 3}, tr, true)},
		{rq("POST", "/t", nil, "", nil, tr, true), rs("200", nil, "", nil, tr, true)},                       // trailers after an empty body
		{rq("PUT", "/t", nil, "", nil, nil, true), rs("200", nil, "x", []int{1}, nil, true)},                // an empty trailer block
		{rq("HEAD", "/h", nil, "", nil, nil, false), rs("200", [][2]string{{"content-length", "1234"}, {"content-type", "x/y"}}, "", nil, nil, false)},
		{rq("GET", "/n", nil, "", nil, nil, false), rs("304", [][2]string{{"etag", "\"e\""}, {"content-length", "5"}}, "", nil, nil, false)},
		{rq("GET", "/i", nil, "", nil, nil, false), rs("200", nil, "fin", []int{3}, nil, false, 103)},
		{rq("GET", "/i", nil, "", nil, nil, false), rs("200", nil, "fin", []int{3}, nil, false, 100, 103)},
		{rq("GET", "/e?", [][2]string{{"user-agent", "ua/1"}, {"accept", ""}}, "", nil, nil, false), emptyResp},
		{rq("DELETE", "/big", nil, strings.Repeat("b", 70000), []int{16384, 16385, 37231}, nil, false), rs("200", [][2]string{{"date", "Tue, 15 Nov 1994 08:12:31 GMT"}}, strings.Repeat("r", 65536), []int{65535, 1}, nil, false)},
	}
}

func runX(c *hx.Ctx, kind string, quick, thorough int) {
	s := xSetup(kind)
	r := c.Rng.Fork()
	n := c.N(quick, thorough)
	bnd := xBoundary()
	for i := -len(bnd); i < n; i++ {
		var req, resp *xMsg
		if i < 0 {
			req, resp = bnd[i+len(bnd)][0], bnd[i+len(bnd)][1]
			c.Count(kind + ".boundary-list")
		} else {
			req = xGenReq(c, r, kind)
			resp = xGenResp(c, r, kind, req.method)
		}
		xreq, xresp := &xReq{}, &xReq{}
		var sentReq, sentResp string
		if s.down == "Http2" {
			xreq.h2 = req.toH2(r, true)
			sentReq = h2SentTok(xreq.h2)
		} else {
			cs := r.Chance(35) || i < 0
			if cs {
				c.Count(kind + ".req.connection-specific")
			}
			xreq.h1, xreq.h1chunks = req.toH1(r, true, cs, false)
			sentReq = h1Tok(xreq.h1, true)
		}
		if s.up == "Http2" {
			xresp.h2 = resp.toH2(r, false)
			sentResp = h2SentTok(xresp.h2)
		} else {
			cs := r.Chance(35) || i < 0
			if cs {
				c.Count(kind + ".resp.connection-specific")
			}
			xresp.h1, xresp.h1chunks = resp.toH1(r, false, cs, req.method == "HEAD" || resp.status == "204" || resp.status == "304")
			sentResp = h1Tok(xresp.h1, false)
		}
		gotReq, gotResp := s.exchangeX(c, kind, req, resp, xreq, xresp)
		c.Emit("C01", fmt.Sprintf("%s req - - %s %s", kind, xOracles(kind, req.target), sentReq), gotReq)
		if strings.HasPrefix(gotReq, "ok ") { // a request that never reached the upstream has no response to compare: its own line carries the verdict
			c.Emit("C01", fmt.Sprintf("%s resp %s %s - %s", kind, req.method, interimTok(resp.interim), sentResp), gotResp)
		} else {
			c.Count(kind + ".resp.not-compared(request not forwarded)")
		}
	}
}

func runH2T(c *hx.Ctx) { runX(c, "h2t", 260, 5000) }
func runX12(c *hx.Ctx) { runX(c, "x12", 220, 4000) }
func runX21(c *hx.Ctx) { runX(c, "x21", 220, 4000) }
