//go:build verif

// Package c15: the real subset load balancers (filtering builder NewSubsetLoadBalancer, pre-index builder
// NewSubsetLoadBalancerPreIndex, and both through Cluster.UpdateHosts under SetSubsetBuildMode) over generated host
// sets / selector configurations / fallback policies / match criteria; the inner balancer is round-robin so that
// repeated ChooseHost sweeps the pool a request may be sent to.
//
// case line:  C15 <q|raw> <policy> <default k=v;…|-> <selectors a+b,c,_|-> <hosts name/k=v;…/H|U,…|-> <query>
//             => F:<chosen names a+b|->:<HostNum>:<IsExistsHosts 0|1> P:<…>
// query: nilctx | nilcrit | c:<k=v;…|->   (criteria in the order the real router code produced them)
package c15

import (
	"context"
	"fmt"
	"net"
	"os"
	"path/filepath"
	"sort"
	"strings"

	"mosn.io/api"
	v2 "mosn.io/mosn/pkg/config/v2"
	"mosn.io/mosn/pkg/router"
	"mosn.io/mosn/pkg/types"
	"mosn.io/mosn/pkg/upstream/cluster"
	"mosn.io/pkg/variable"
	"verif/harness/hx"
)

func init() { hx.Register("C15", Run) }

type lbctx struct{ m api.MetadataMatchCriteria }

func (c *lbctx) MetadataMatchCriteria() api.MetadataMatchCriteria { return c.m }
func (c *lbctx) DownstreamConnection() net.Conn                   { return nil }
func (c *lbctx) DownstreamHeaders() api.HeaderMap                 { return nil }
func (c *lbctx) DownstreamContext() context.Context {
	return variable.NewVariableContext(context.Background()) // fresh per call: request-round-robin starts at index 0
}
func (c *lbctx) DownstreamCluster() types.ClusterInfo             { return nil }
func (c *lbctx) DownstreamRoute() api.Route                       { return nil }

type pair struct{ k, v string }

type hostSpec struct {
	name    string
	meta    []pair // unique keys
	healthy bool
}

type config struct {
	lbType    string // inner policy; "" = LB_ROUNDROBIN
	policy    int
	dflt      []pair     // unique keys, sorted by key (it is a Go map in the configuration)
	selectors [][]string // raw configuration (unsorted, duplicates, empty selectors possible)
	hosts     []hostSpec
}

type query struct {
	kind string // nilctx | nilcrit | crit | raw
	crit []pair // crit: map content (unique keys); raw: literal criteria array (any order, duplicates allowed)
}

func pairsTok(p []pair) string {
	if len(p) == 0 {
		return "-"
	}
	var s []string
	for _, e := range p {
		s = append(s, e.k+"="+e.v)
	}
	return strings.Join(s, ";")
}

func (c *config) tokens() string {
	sel := "-"
	if len(c.selectors) > 0 {
		var ss []string
		for _, s := range c.selectors {
			if len(s) == 0 {
				ss = append(ss, "_")
			} else {
				ss = append(ss, strings.Join(s, "+"))
			}
		}
		sel = strings.Join(ss, ",")
	}
	hs := "-"
	if len(c.hosts) > 0 {
		var ss []string
		for _, h := range c.hosts {
			f := "U"
			if h.healthy {
				f = "H"
			}
			ss = append(ss, h.name+"/"+pairsTok(h.meta)+"/"+f)
		}
		hs = strings.Join(ss, ",")
	}
	return fmt.Sprintf("%d %s %s %s", c.policy, pairsTok(c.dflt), sel, hs)
}

// parse the case tokens back (corpus replay)
func parsePairs(s string) []pair {
	if s == "-" || s == "" {
		return nil
	}
	var out []pair
	for _, kv := range strings.Split(s, ";") {
		i := strings.Index(kv, "=")
		out = append(out, pair{kv[:i], kv[i+1:]})
	}
	return out
}

func parseCase(toks []string) (kind string, c *config, q query, ok bool) {
	if len(toks) < 6 {
		return
	}
	c = &config{}
	kind = toks[0]
	if strings.HasPrefix(kind, "in.") {
		c.lbType = kind[3:]
	}
	fmt.Sscan(toks[1], &c.policy)
	c.dflt = parsePairs(toks[2])
	if toks[3] != "-" {
		for _, s := range strings.Split(toks[3], ",") {
			if s == "_" {
				c.selectors = append(c.selectors, []string{})
			} else {
				c.selectors = append(c.selectors, strings.Split(s, "+"))
			}
		}
	}
	if toks[4] != "-" {
		for _, h := range strings.Split(toks[4], ",") {
			f := strings.Split(h, "/")
			if len(f) != 3 {
				return
			}
			c.hosts = append(c.hosts, hostSpec{f[0], parsePairs(f[1]), f[2] == "H"})
		}
	}
	switch {
	case toks[5] == "trie":
		q = query{kind: "trie"}
	case toks[5] == "nilctx" || toks[5] == "nilcrit":
		q = query{kind: toks[5]}
	case strings.HasPrefix(toks[5], "c:"):
		q = query{kind: "crit", crit: parsePairs(toks[5][2:])}
		if kind == "raw" {
			q.kind = "raw"
		}
	default:
		return
	}
	ok = true
	return
}

// ---- driving the real code

type built struct {
	lb    types.LoadBalancer
	panic string
}

func (c *config) clusterConfig() v2.Cluster {
	cfg := v2.Cluster{Name: "c15", ClusterType: v2.SIMPLE_CLUSTER, LbType: v2.LB_ROUNDROBIN}
	if c.lbType != "" {
		cfg.LbType = v2.LbType(c.lbType)
	}
	cfg.LBSubSetConfig.FallBackPolicy = uint8(c.policy)
	if len(c.dflt) > 0 {
		cfg.LBSubSetConfig.DefaultSubset = map[string]string{}
		for _, p := range c.dflt {
			cfg.LBSubSetConfig.DefaultSubset[p.k] = p.v
		}
	}
	for _, s := range c.selectors {
		cfg.LBSubSetConfig.SubsetSelectors = append(cfg.LBSubSetConfig.SubsetSelectors, append([]string{}, s...))
	}
	return cfg
}

func (c *config) makeHosts(info types.ClusterInfo) types.HostSet {
	var hosts []types.Host
	for i, h := range c.hosts {
		md := api.Metadata{}
		for _, p := range h.meta {
			md[p.k] = p.v
		}
		host := cluster.NewSimpleHost(v2.Host{HostConfig: v2.HostConfig{
			Address: fmt.Sprintf("10.15.0.%d:80", i+1), Hostname: h.name, Weight: 1}, MetaData: md}, info)
		// health flags are process-global per address: reset, then set
		host.ClearHealthFlag(api.FAILED_ACTIVE_HC)
		host.ClearHealthFlag(api.FAILED_OUTLIER_CHECK)
		if !h.healthy {
			host.SetHealthFlag(api.FAILED_ACTIVE_HC)
		}
		hosts = append(hosts, host)
	}
	return cluster.NewHostSet(hosts)
}

// build constructs the balancer with the filtering (pre=false) or pre-index (pre=true) builder; viaCluster uses the
// exported mode switch and Cluster.UpdateHosts instead of calling the constructor.
func (c *config) build(pre bool, viaCluster bool) (b built) {
	msg, p := hx.Safe(func() {
		cfg := c.clusterConfig()
		if viaCluster {
			mode := cluster.SubsetFilterBuildMode
			if pre {
				mode = cluster.SubsetPreIndexBuildMode
			}
			cluster.SetSubsetBuildMode(mode)
			defer cluster.SetSubsetBuildMode(cluster.SubsetPreIndexBuildMode)
			cl := cluster.NewCluster(cfg)
			cl.UpdateHosts(c.makeHosts(cl.Snapshot().ClusterInfo()))
			b.lb = cl.Snapshot().LoadBalancer()
			return
		}
		info := cluster.NewClusterInfo(cfg)
		hs := c.makeHosts(info)
		if pre {
			b.lb = cluster.NewSubsetLoadBalancerPreIndex(info, hs)
		} else {
			b.lb = cluster.NewSubsetLoadBalancer(info, hs)
		}
	})
	if p {
		b.panic = msg
	}
	return
}

// criteria builds the request's match criteria; for kind crit through the real router code (sorted by key there).
func (q query) criteria() (api.MetadataMatchCriteria, []pair) {
	switch q.kind {
	case "crit":
		m := map[string]string{}
		for _, p := range q.crit {
			m[p.k] = p.v
		}
		impl := router.NewMetadataMatchCriteriaImpl(m)
		var order []pair
		for _, mc := range impl.MetadataMatchCriteria() {
			order = append(order, pair{mc.MetadataKeyName(), mc.MetadataValue()})
		}
		return impl, order
	case "raw":
		impl := &router.MetadataMatchCriteriaImpl{}
		for _, p := range q.crit {
			impl.MatchCriteriaArray = append(impl.MatchCriteriaArray, &router.MetadataMatchCriterionImpl{Name: p.k, Value: p.v})
		}
		return impl, q.crit
	}
	return nil, nil
}

func observe(b built, q query, nhosts int) string {
	if b.panic != "" {
		return "panic"
	}
	out := ""
	msg, p := hx.Safe(func() {
		mmc, _ := q.criteria()
		var ctx types.LoadBalancerContext
		if q.kind != "nilctx" {
			ctx = &lbctx{m: mmc}
		}
		seen := map[string]bool{}
		for i := 0; i < 2*nhosts+2; i++ {
			var h types.Host
			if ctx == nil {
				h = b.lb.ChooseHost(nil)
			} else {
				h = b.lb.ChooseHost(ctx)
			}
			if h != nil {
				seen[h.Hostname()] = true
			}
		}
		var names []string
		for n := range seen {
			names = append(names, n)
		}
		sort.Strings(names)
		chosen := "-"
		if len(names) > 0 {
			chosen = strings.Join(names, "+")
		}
		ex := 0
		if b.lb.IsExistsHosts(mmc) {
			ex = 1
		}
		out = fmt.Sprintf("%s:%d:%d", chosen, b.lb.HostNum(mmc), ex)
	})
	if p {
		_ = msg
		return "panic"
	}
	return out
}

// dumpTrie observes the whole balancer through the exported LoadBalancers(): every initialised trie entry (key
// "k:v->k:v"), the full balancer and the fallback entry, each with HostNum and the hosts a sweep returns.
func dumpTrie(b built, nhosts int) string {
	if b.panic != "" {
		return "panic"
	}
	out := ""
	_, p := hx.Safe(func() {
		sl, ok := b.lb.(types.SubsetLoadBalancer)
		if !ok {
			out = "not-a-subset-lb"
			return
		}
		var ents []string
		for key, lb := range sl.LoadBalancers() {
			seen := map[string]bool{}
			for i := 0; i < 2*nhosts+2; i++ {
				if h := lb.ChooseHost(&lbctx{}); h != nil {
					seen[h.Hostname()] = true
				}
			}
			var names []string
			for n := range seen {
				names = append(names, n)
			}
			sort.Strings(names)
			ch := "-"
			if len(names) > 0 {
				ch = strings.Join(names, "+")
			}
			ents = append(ents, fmt.Sprintf("%s=%d/%s", key, lb.HostNum(nil), ch))
		}
		sort.Strings(ents)
		out = strings.Join(ents, "|")
	})
	if p {
		return "panic"
	}
	return out
}

func runCase(c *hx.Ctx, cfg *config, qs []query, viaCluster bool) {
	f := cfg.build(false, viaCluster)
	p := cfg.build(true, viaCluster)
	ct := cfg.tokens()
	if cfg.lbType == "" {
		c.Emit("C15", "t "+ct+" trie", "F:"+dumpTrie(f, len(cfg.hosts))+" P:"+dumpTrie(p, len(cfg.hosts)))
	}
	for _, q := range qs {
		kind, qt := "q", q.kind
		if cfg.lbType != "" {
			kind = "in." + cfg.lbType
		}
		switch q.kind {
		case "crit":
			_, order := q.criteria()
			qt = "c:" + pairsTok(order)
		case "raw":
			kind, qt = "raw", "c:"+pairsTok(q.crit)
		}
		fo, po := observe(f, q, len(cfg.hosts)), observe(p, q, len(cfg.hosts))
		c.Emit("C15", kind+" "+ct+" "+qt, "F:"+fo+" P:"+po)
		switch {
		case fo == "panic" || po == "panic":
			c.Count("outcome.panic")
		case strings.HasPrefix(fo, "-:"):
			c.Count("outcome.no-host")
		case strings.Count(fo, "+")+1 == len(cfg.hosts):
			c.Count("outcome.all-hosts")
		default:
			c.Count("outcome.proper-subset-of-hosts")
		}
	}
}

// ---- generators

var keyPool = []string{"a", "b", "c"}
var valPool = []string{"1", "2", "3"}

func genHosts(c *hx.Ctx, n int) []hostSpec {
	r := c.Rng
	density := 35 + r.Intn(60) // probability (%) that a host carries a given key
	nv := 1 + r.Intn(3)        // values in use: few values => large overlapping subsets
	healthMode := r.Intn(10)   // 0..5 all healthy, 6..8 mixed, 9 all unhealthy
	var hs []hostSpec
	for i := 0; i < n; i++ {
		h := hostSpec{name: fmt.Sprintf("h%d", i), healthy: true}
		for _, k := range keyPool {
			if r.Chance(density) {
				h.meta = append(h.meta, pair{k, valPool[r.Intn(nv)]})
			}
		}
		if r.Chance(12) {
			h.meta = append(h.meta, pair{"d", r.PickS([]string{"1", "a", "x"})}) // value colliding with a key name
		}
		if r.Chance(6) {
			h.meta = append(h.meta, pair{"B", "1"}) // sorts before the lower-case keys
		}
		switch {
		case healthMode >= 9:
			h.healthy = false
		case healthMode >= 6:
			h.healthy = r.Chance(55)
		}
		hs = append(hs, h)
	}
	return hs
}

func genSelector(c *hx.Ctx) []string {
	r := c.Rng
	switch x := r.Intn(100); {
	case x < 3:
		return []string{} // empty key set
	case x < 8:
		return []string{r.PickS([]string{"d", "z", "B"})}
	}
	pool := append([]string{}, keyPool...)
	if r.Chance(12) {
		pool = append(pool, "d")
	}
	if r.Chance(6) {
		pool = append(pool, "B")
	}
	if r.Chance(5) {
		pool = append(pool, "z") // no host carries it
	}
	var s []string
	for len(s) == 0 {
		for _, k := range pool {
			if r.Chance(45) {
				s = append(s, k)
			}
		}
	}
	// raw configuration order: shuffled, sometimes with a repeated key
	for i := len(s) - 1; i > 0; i-- {
		j := r.Intn(i + 1)
		s[i], s[j] = s[j], s[i]
	}
	if r.Chance(15) {
		s = append(s, s[r.Intn(len(s))])
	}
	return s
}

// genCollisionHosts: two keys whose value-1 host index sets have the same minimum, maximum and size but different
// members (the pre-index builder memoises selected host lists under a hash of exactly those three numbers).
func genCollisionHosts(c *hx.Ctx, n int) []hostSpec {
	r := c.Rng
	hs := genHosts(c, n)
	if n < 4 {
		return hs
	}
	lo := r.Intn(n - 3)
	hi := lo + 3 + r.Intn(n-lo-3)
	mid := hi - lo - 1 // >= 2 inner positions
	k := 1 + r.Intn(mid-1)
	pick := func() map[int]bool {
		m := map[int]bool{lo: true, hi: true}
		for len(m) < k+2 {
			m[lo+1+r.Intn(mid)] = true
		}
		return m
	}
	s1, s2 := pick(), pick()
	keys := []string{"a", "b", "c"}
	k1 := keys[r.Intn(3)]
	k2 := keys[(r.Intn(2)+1+indexOf(keys, k1))%3]
	for i := range hs {
		var m []pair
		for _, p := range hs[i].meta {
			if p.k != k1 && p.k != k2 {
				m = append(m, p)
			}
		}
		if s1[i] {
			m = append(m, pair{k1, "1"})
		} else if r.Chance(50) {
			m = append(m, pair{k1, "2"})
		}
		if s2[i] {
			m = append(m, pair{k2, "1"})
		} else if r.Chance(50) {
			m = append(m, pair{k2, "2"})
		}
		sort.Slice(m, func(x, y int) bool { return m[x].k < m[y].k })
		hs[i].meta = m
	}
	return hs
}

func indexOf(l []string, s string) int {
	for i, x := range l {
		if x == s {
			return i
		}
	}
	return 0
}

func genConfig(c *hx.Ctx, n int) *config {
	r := c.Rng
	cfg := &config{hosts: genHosts(c, n)}
	collide := n >= 4 && r.Chance(15)
	if collide {
		cfg.hosts = genCollisionHosts(c, n)
		c.Count("config.index-set-collision-shape")
		defer func() { // single-key selectors over all three keys so that both colliding sets are selected
			cfg.selectors = append(cfg.selectors, []string{"a"}, []string{"b"}, []string{"c"})
		}()
	}
	switch x := r.Intn(100); {
	case x < 30:
		cfg.policy = 0
	case x < 62:
		cfg.policy = 1
	case x < 96:
		cfg.policy = 2
	default:
		cfg.policy = 3 // not a defined policy value
	}
	ns := r.Intn(5)
	for i := 0; i < ns; i++ {
		cfg.selectors = append(cfg.selectors, genSelector(c))
	}
	if ns > 0 && r.Chance(10) { // an exact or permuted duplicate selector
		d := append([]string{}, cfg.selectors[r.Intn(ns)]...)
		for i := len(d) - 1; i > 0; i-- {
			j := r.Intn(i + 1)
			d[i], d[j] = d[j], d[i]
		}
		cfg.selectors = append(cfg.selectors, d)
	}
	// default subset: empty, from a host, arbitrary, or on a key no selector names
	switch x := r.Intn(100); {
	case x < 25:
	case x < 65 && n > 0:
		h := cfg.hosts[r.Intn(n)]
		for _, p := range h.meta {
			if r.Chance(50) {
				cfg.dflt = append(cfg.dflt, p)
			}
		}
	default:
		for _, k := range []string{"a", "b", "c", "d", "z"} {
			if r.Chance(25) {
				cfg.dflt = append(cfg.dflt, pair{k, r.PickS([]string{"1", "2", "3", "9"})})
			}
		}
	}
	sort.Slice(cfg.dflt, func(i, j int) bool { return cfg.dflt[i].k < cfg.dflt[j].k })
	return cfg
}

func normSel(s []string) []string {
	m := map[string]bool{}
	var o []string
	for _, k := range s {
		if !m[k] {
			m[k] = true
			o = append(o, k)
		}
	}
	sort.Strings(o)
	return o
}

// genQueries: the classes the property names — equal / strict subset / superset / unknown key / unknown value /
// empty — plus no criteria, no context, random criteria and a malformed stream (unsorted / duplicate-key arrays).
func genQueries(c *hx.Ctx, cfg *config) []query {
	r := c.Rng
	var qs []query
	add := func(class string, q query) {
		qs = append(qs, q)
		c.Count("query." + class)
	}
	hostVals := func(keys []string) ([]pair, bool) { // values of a random host carrying all the keys
		var cand []hostSpec
		for _, h := range cfg.hosts {
			okAll := true
			for _, k := range keys {
				found := false
				for _, p := range h.meta {
					if p.k == k {
						found = true
					}
				}
				okAll = okAll && found
			}
			if okAll {
				cand = append(cand, h)
			}
		}
		if len(cand) == 0 {
			return nil, false
		}
		h := cand[r.Intn(len(cand))]
		var out []pair
		for _, k := range keys {
			for _, p := range h.meta {
				if p.k == k {
					out = append(out, p)
				}
			}
		}
		return out, true
	}
	anyVals := func(keys []string) []pair {
		var out []pair
		for _, k := range keys {
			out = append(out, pair{k, valPool[r.Intn(len(valPool))]})
		}
		return out
	}
	var sels [][]string
	for _, s := range cfg.selectors {
		if ns := normSel(s); len(ns) > 0 {
			sels = append(sels, ns)
		}
	}
	for _, s := range sels {
		if p, ok := hostVals(s); ok {
			add("equal.hit", query{"crit", p})
		}
	}
	if len(sels) > 0 {
		s := sels[r.Intn(len(sels))]
		add("equal.anyvalues", query{"crit", anyVals(s)})
		if len(s) > 1 { // strict subset of a selector's key set
			sub := append([]string{}, s...)
			i := r.Intn(len(sub))
			sub = append(sub[:i], sub[i+1:]...)
			p, ok := hostVals(sub)
			if !ok {
				p = anyVals(sub)
			}
			add("strict-subset", query{"crit", p})
		}
		// superset: one more key
		for _, k := range []string{"a", "b", "c", "d", "z"} {
			has := false
			for _, x := range s {
				has = has || x == k
			}
			if !has {
				sup := append(append([]string{}, s...), k)
				p, ok := hostVals(sup)
				if !ok {
					p = anyVals(sup)
				}
				add("superset", query{"crit", p})
				break
			}
		}
		// unknown value
		p := anyVals(s)
		p[r.Intn(len(p))].v = "9"
		add("unknown-value", query{"crit", p})
		// unknown key added / alone
		add("unknown-key", query{"crit", append(anyVals(s), pair{"zz", "1"})})
		// malformed: reversed order / duplicated key
		if len(s) > 1 {
			p, ok := hostVals(s)
			if !ok {
				p = anyVals(s)
			}
			rev := make([]pair, len(p))
			for i := range p {
				rev[len(p)-1-i] = p[i]
			}
			add("raw.reversed", query{"raw", rev})
		}
		p2, ok := hostVals(s)
		if !ok {
			p2 = anyVals(s)
		}
		add("raw.duplicate-key", query{"raw", append(append([]pair{}, p2...), p2[0])})
	}
	add("unknown-key", query{"crit", []pair{{"zz", "1"}}})
	add("empty", query{"crit", nil})
	add("nilcrit", query{kind: "nilcrit"})
	add("nilctx", query{kind: "nilctx"})
	for i := 0; i < 2; i++ {
		var ks []string
		for _, k := range []string{"a", "b", "c", "d", "B"} {
			if r.Chance(35) {
				ks = append(ks, k)
			}
		}
		if p, ok := hostVals(ks); ok && r.Chance(60) {
			add("random.fromhost", query{"crit", p})
		} else {
			add("random", query{"crit", anyVals(ks)})
		}
	}
	return qs
}

func replayCorpus(c *hx.Ctx) {
	files, _ := filepath.Glob(filepath.Join(os.Getenv("VERIF_CORPUS"), "C15", "*.txt"))
	if len(files) == 0 {
		if exe, err := os.Executable(); err == nil {
			// check copies the binary into <verif>/.run/<pid>/
			files, _ = filepath.Glob(filepath.Join(filepath.Dir(exe), "..", "..", "corpus", "C15", "*.txt"))
		}
	}
	for _, f := range files {
		b, err := os.ReadFile(f)
		if err != nil {
			continue
		}
		for _, line := range strings.Split(string(b), "\n") {
			line = strings.TrimSpace(line)
			if line == "" || strings.HasPrefix(line, "#") {
				continue
			}
			toks := strings.Fields(strings.Split(line, " => ")[0])
			if len(toks) > 0 && toks[0] == "C15" {
				toks = toks[1:]
			}
			if kcfg, kq, gkOnly, ok := parseKeysCase(toks); ok {
				if gkOnly {
					emitGk(c, kcfg.selectors)
				} else {
					runKeysCase(c, kcfg, []query{kq}, false)
				}
				c.Count("corpus")
				continue
			}
			if k, ok := parsePxCase(toks); ok {
				emitPx(c, k)
				c.Count("corpus")
				continue
			}
			_, cfg, q, ok := parseCase(toks)
			if !ok {
				continue
			}
			if q.kind == "trie" {
				runCase(c, cfg, nil, false)
			} else {
				runCase(c, cfg, []query{q}, false)
			}
			c.Count("corpus")
		}
	}
}

// mixSeed: hx.NewRng(seed+1) is hx.NewRng(seed) advanced by one draw (the seed multiplier equals the generator's
// increment), so consecutive seeds would replay almost the same cases; hash the seed to an unrelated offset.
func mixSeed(z uint64) uint64 {
	z += 0xC15C15C15C15C15
	z = (z ^ (z >> 30)) * 0xBF58476D1CE4E5B9
	z = (z ^ (z >> 27)) * 0x94D049BB133111EB
	return z ^ (z >> 31)
}

func Run(c *hx.Ctx) {
	c.Rng = hx.NewRng(mixSeed(c.Seed))
	if len(c.Args) > 0 && c.Args[0] == "px-only" { // development aid: only the request-path stream
		runPxStream(c)
		runPsStream(c)
		return
	}
	if len(c.Args) > 0 && c.Args[0] == "keys-only" { // development aid: only the adversarial-key stream
		runKeysStream(c)
		return
	}
	if len(c.Args) > 0 && c.Args[0] == "wide-only" { // development aid: only the wide-selector stream
		runWideStream(c)
		return
	}
	replayCorpus(c)
	// fixed boundary configurations
	for _, cfg := range boundaryConfigs() {
		runCase(c, cfg, genQueries(c, cfg), false)
		c.Count("config.boundary")
	}
	n := c.N(1500, 40000)
	for i := 0; i < n; i++ {
		size := c.Rng.Intn(9)
		if c.Rng.Chance(15) {
			size = c.Rng.Intn(3)
		}
		cfg := genConfig(c, size)
		via := len(cfg.selectors) > 0 && c.Rng.Chance(30)
		runCase(c, cfg, genQueries(c, cfg), via)
		c.Count(fmt.Sprintf("hosts=%d", size))
		c.Count(fmt.Sprintf("selectors=%d", len(cfg.selectors)))
		c.Count(fmt.Sprintf("policy=%d", cfg.policy))
		if via {
			c.Count("built.via-cluster-mode-switch")
		} else {
			c.Count("built.direct-constructors")
		}
	}
	// inner-policy variety: the other registered balancers as the subset's inner policy, all hosts healthy (their
	// health handling is property C05); the observation is compared as "chosen hosts are allowed targets".
	inner := []string{"LB_RANDOM", "LB_WEIGHTED_ROUNDROBIN", "LB_LEAST_REQUEST", "LB_LEAST_CONNECTION", "LB_REQUEST_ROUNDROBIN", "LB_PEAK_EWMA"}
	for i := 0; i < c.N(240, 6000); i++ {
		cfg := genConfig(c, 1+c.Rng.Intn(8))
		for j := range cfg.hosts {
			cfg.hosts[j].healthy = true
		}
		cfg.lbType = inner[i%len(inner)]
		var qs []query
		for _, q := range genQueries(c, cfg) {
			// no nil-context query here: request-round-robin and maglev dereference the context (not a C15 matter)
			if q.kind != "raw" && q.kind != "nilctx" {
				qs = append(qs, q)
			}
		}
		runCase(c, cfg, qs, len(cfg.selectors) > 0 && c.Rng.Chance(30))
		c.Count("inner." + cfg.lbType)
	}
	// adversarial selector key strings, every configured selector requested: c15keys.go
	runKeysStream(c)
	// wide selectors (1..8 keys, several values of the last sorted key): c15wide.go
	runWideStream(c)
	// the request path: sequences of requests on one route through the real proxy core (c15px.go)
	runPxStream(c)
	runPsStream(c)
	if c.Thorough() {
		exhaustiveSmall(c)
	}
}

func boundaryConfigs() []*config {
	h := func(name string, healthy bool, kv ...string) hostSpec {
		hs := hostSpec{name: name, healthy: healthy}
		for i := 0; i+1 < len(kv); i += 2 {
			hs.meta = append(hs.meta, pair{kv[i], kv[i+1]})
		}
		return hs
	}
	var out []*config
	for policy := 0; policy <= 3; policy++ {
		// no hosts at all
		out = append(out, &config{policy: policy, selectors: [][]string{{"a"}}})
		// an empty selector alone / next to a real one (crashed the pre-index builder before the fix)
		out = append(out, &config{policy: policy, selectors: [][]string{{}}, hosts: []hostSpec{h("h0", true, "a", "1")}})
		out = append(out, &config{policy: policy, selectors: [][]string{{"a"}, {}}, hosts: []hostSpec{h("h0", true, "a", "1"), h("h1", true, "b", "1")}})
		// subset exists but all its hosts are unhealthy (design section 6 row 16)
		out = append(out, &config{policy: policy, selectors: [][]string{{"a"}}, dflt: []pair{{"b", "1"}},
			hosts: []hostSpec{h("h0", false, "a", "1"), h("h1", true, "a", "2", "b", "1"), h("h2", true, "b", "1")}})
		// empty default subset, default subset nobody matches, default subset on a key outside every selector
		out = append(out, &config{policy: policy, selectors: [][]string{{"a", "b"}, {"a"}},
			hosts: []hostSpec{h("h0", true, "a", "1", "b", "1"), h("h1", true, "a", "1"), h("h2", true, "b", "2")}})
		out = append(out, &config{policy: policy, selectors: [][]string{{"a", "b"}}, dflt: []pair{{"a", "9"}},
			hosts: []hostSpec{h("h0", true, "a", "1", "b", "1"), h("h1", true, "a", "1")}})
		out = append(out, &config{policy: policy, selectors: [][]string{{"b", "a"}, {"a", "b", "a"}}, dflt: []pair{{"d", "x"}},
			hosts: []hostSpec{h("h0", true, "a", "1", "b", "1", "d", "x"), h("h1", true, "a", "1", "b", "2"), h("h2", true, "d", "x")}})
		// two index sets with equal min / max / size and different members
		out = append(out, &config{policy: policy, selectors: [][]string{{"a"}, {"b"}, {"a", "b"}},
			hosts: []hostSpec{h("h0", true, "a", "1", "b", "1"), h("h1", true, "a", "1", "b", "2"), h("h2", true, "a", "2", "b", "1"),
				h("h3", true, "a", "1", "b", "1")}})
		// the Envoy documentation example used by MOSN's unit tests
		out = append(out, &config{policy: policy, dflt: []pair{{"stage", "prod"}, {"type", "std"}, {"version", "1.0"}},
			selectors: [][]string{{"stage", "type"}, {"stage", "version"}, {"version"}, {"xlarge", "version"}},
			hosts: []hostSpec{
				h("e1", true, "stage", "prod", "type", "std", "version", "1.0"),
				h("e2", true, "stage", "prod", "type", "std", "version", "1.0"),
				h("e3", true, "stage", "prod", "type", "std", "version", "1.1"),
				h("e4", true, "stage", "prod", "type", "std", "version", "1.1"),
				h("e5", true, "stage", "prod", "type", "bigmem", "version", "1.0"),
				h("e6", true, "stage", "prod", "type", "bigmem", "version", "1.1"),
				h("e7", true, "stage", "dev", "type", "std", "version", "1.2-pre"),
			}})
	}
	return out
}

// exhaustiveSmall (thorough tier): every host set of <= 3 hosts over keys {a,b} x values {1,2} (absent included),
// every selector configuration drawn from the non-empty subsets of {a,b}, every policy, every criteria over
// {a,b} x {1,2,absent}; all hosts healthy and one unhealthy pattern per host set.
func exhaustiveSmall(c *hx.Ctx) {
	opts := []string{"", "1", "2"}
	var metas [][]pair
	for _, va := range opts {
		for _, vb := range opts {
			var m []pair
			if va != "" {
				m = append(m, pair{"a", va})
			}
			if vb != "" {
				m = append(m, pair{"b", vb})
			}
			metas = append(metas, m)
		}
	}
	selCfgs := [][][]string{nil, {{"a"}}, {{"b"}}, {{"a", "b"}}, {{"a"}, {"b"}}, {{"a"}, {"a", "b"}}, {{"b"}, {"b", "a"}}, {{"a"}, {"b"}, {"a", "b"}}}
	var qs []query
	for _, m := range metas {
		qs = append(qs, query{"crit", m})
	}
	qs = append(qs, query{kind: "nilcrit"}, query{kind: "nilctx"})
	dflts := [][]pair{nil, {{"a", "1"}}, {{"b", "2"}}}
	// the harness processes of a thorough run split the host sets among themselves by seed
	part, idx := int(c.Seed%8), 0
	var rec func(hs []hostSpec)
	rec = func(hs []hostSpec) {
		if len(hs) > 0 {
			idx++
			if idx%8 == part {
				for pat := 0; pat < 2; pat++ {
					hosts := append([]hostSpec{}, hs...)
					if pat == 1 {
						hosts[0].healthy = false
					}
					for _, sc := range selCfgs {
						for policy := 0; policy <= 2; policy++ {
							for _, d := range dflts {
								if policy != 2 && d != nil {
									continue
								}
								runCase(c, &config{policy: policy, dflt: d, selectors: sc, hosts: hosts}, qs, false)
								c.Count("config.exhaustive-small")
							}
						}
					}
				}
			}
		}
		if len(hs) == 3 {
			return
		}
		for _, m := range metas {
			rec(append(append([]hostSpec{}, hs...), hostSpec{name: fmt.Sprintf("h%d", len(hs)), meta: m, healthy: true}))
		}
	}
	rec(nil)
}
