//go:build verif

package c15

// Wide selectors: 1..8 keys, with at least two values for the LAST key in sorted order (and for some inner keys), hosts
// spread over several value combinations that share a prefix.  The pre-index builder builds the cartesian product of
// the indexed values by extending a combination slice key by key; whether sibling combinations are independent depends
// on the capacity of that slice (Go's append growth 1, 2, 4, 8: spare capacity after 3, 5, 6, 7 keys), so the selector
// LENGTH is the dimension that matters here.  Same case lines and observations as the main stream (whole-trie line
// included), both builders, all fallback policies.

import (
	"fmt"
	"sort"

	"verif/harness/hx"
)

var wideKeys = []string{"a", "b", "c", "d", "e", "f", "g", "h"}

// genWideConfig: one selector of nkeys keys (+ sometimes a shorter second one), hosts over its value combinations.
func genWideConfig(c *hx.Ctx, nkeys int) (*config, [][]pair) {
	r := c.Rng
	// the selector's keys: nkeys of the pool, sorted
	perm := append([]string{}, wideKeys...)
	for i := len(perm) - 1; i > 0; i-- {
		j := r.Intn(i + 1)
		perm[i], perm[j] = perm[j], perm[i]
	}
	keys := append([]string{}, perm[:nkeys]...)
	sort.Strings(keys)
	// values in use per key: the last key 2..3, up to two inner keys 2, the others 1 (bounded product)
	nvals := make([]int, nkeys)
	for i := range nvals {
		nvals[i] = 1
	}
	nvals[nkeys-1] = 2 + r.Intn(2)
	for j := 0; j < 2 && nkeys > 1; j++ {
		if r.Chance(60) {
			nvals[r.Intn(nkeys-1)] = 2
		}
	}
	if nkeys > 2 && r.Chance(15) { // every key with two values (2^n combinations), only for short selectors
		if nkeys <= 5 {
			for i := range nvals {
				if nvals[i] < 2 {
					nvals[i] = 2
				}
			}
		}
	}
	prod := 1
	for _, n := range nvals {
		prod *= n
	}
	val := func(k, j int) string { return valPool[j%len(valPool)] }
	nh := 2 + r.Intn(7)
	cfg := &config{}
	healthMode := r.Intn(10)
	for i := 0; i < nh; i++ {
		h := hostSpec{name: fmt.Sprintf("h%d", i), healthy: true}
		for k, key := range keys {
			j := r.Intn(nvals[k])
			switch i {
			case 0: // the first two hosts share the whole prefix and differ in the last key
				j = 0
			case 1:
				j = 0
				if k == nkeys-1 {
					j = 1
				}
			default:
				if r.Chance(6) {
					continue // host lacks a selector key: in no subset of this selector
				}
			}
			h.meta = append(h.meta, pair{key, val(k, j)})
		}
		if r.Chance(10) {
			h.meta = append(h.meta, pair{"z", "1"})
		}
		if healthMode >= 8 {
			h.healthy = r.Chance(60)
		}
		cfg.hosts = append(cfg.hosts, h)
	}
	// raw selector: shuffled, sometimes with a repeated key
	sel := append([]string{}, keys...)
	for i := len(sel) - 1; i > 0; i-- {
		j := r.Intn(i + 1)
		sel[i], sel[j] = sel[j], sel[i]
	}
	if r.Chance(10) {
		sel = append(sel, sel[r.Intn(len(sel))])
	}
	cfg.selectors = [][]string{sel}
	switch x := r.Intn(100); {
	case x < 20 && nkeys > 1: // a prefix of the sorted keys as a second selector (shares the trie's upper levels)
		cfg.selectors = append(cfg.selectors, append([]string{}, keys[:1+r.Intn(nkeys-1)]...))
	case x < 35: // the last key alone
		cfg.selectors = append([][]string{{keys[nkeys-1]}}, cfg.selectors...)
	case x < 45 && nkeys > 2: // all keys but one inner key
		i := r.Intn(nkeys - 1)
		var s []string
		for j, k := range keys {
			if j != i {
				s = append(s, k)
			}
		}
		cfg.selectors = append(cfg.selectors, s)
	}
	cfg.policy = r.Intn(3)
	if cfg.policy == 2 || r.Chance(20) {
		switch r.Intn(3) {
		case 0:
			h := cfg.hosts[r.Intn(nh)]
			for _, p := range h.meta {
				if r.Chance(40) {
					cfg.dflt = append(cfg.dflt, p)
				}
			}
		case 1:
			cfg.dflt = []pair{{keys[nkeys-1], val(nkeys-1, 1)}}
		}
		sort.Slice(cfg.dflt, func(i, j int) bool { return cfg.dflt[i].k < cfg.dflt[j].k })
	}
	c.Count(fmt.Sprintf("wide.keys=%d", nkeys))
	c.Count(fmt.Sprintf("wide.last-key-values=%d", nvals[nkeys-1]))
	switch {
	case prod <= 3:
		c.Count("wide.combinations<=3")
	case prod <= 8:
		c.Count("wide.combinations=4..8")
	default:
		c.Count("wide.combinations>8")
	}

	// queries
	var qs [][]pair
	full := func(h hostSpec) []pair { // the host's values for the selector keys (nil when it lacks one)
		var out []pair
		for _, k := range keys {
			found := false
			for _, p := range h.meta {
				if p.k == k {
					out = append(out, p)
					found = true
				}
			}
			if !found {
				return nil
			}
		}
		return out
	}
	seen := map[string]bool{}
	addQ := func(class string, p []pair) {
		t := pairsTok(p)
		if seen[t] {
			return
		}
		seen[t] = true
		qs = append(qs, p)
		c.Count("query.wide." + class)
	}
	nhit := 0
	for _, h := range cfg.hosts { // every distinct combination a host carries (at most 6)
		if p := full(h); p != nil && nhit < 6 && !seen[pairsTok(p)] {
			addQ("host-combination", p)
			nhit++
		}
	}
	// every value of the last key on the first host's prefix (sibling combinations)
	if p0 := full(cfg.hosts[0]); p0 != nil {
		for j := 0; j < nvals[nkeys-1]; j++ {
			p := append([]pair{}, p0...)
			p[nkeys-1].v = val(nkeys-1, j)
			addQ("sibling-of-last-key", p)
		}
		// a combination of indexed values (possibly carried by no single host: a trie node without hosts)
		for t := 0; t < 2; t++ {
			p := append([]pair{}, p0...)
			for k := range p {
				p[k].v = val(k, r.Intn(nvals[k]))
			}
			addQ("product-combination", p)
		}
		if nkeys > 1 {
			addQ("strict-subset.prefix", append([]pair{}, p0[:nkeys-1]...))
			addQ("strict-subset.suffix", append([]pair{}, p0[1:]...))
		}
		u := append([]pair{}, p0...)
		u[nkeys-1].v = "9"
		addQ("unknown-value", u)
		addQ("superset", append(append([]pair{}, p0...), pair{"zz", "1"}))
	}
	return cfg, qs
}

// runWideStream: selector lengths 1..8; the lengths at which a slice grown by append has spare capacity (4, 6, 7, 8)
// get more configurations.
func runWideStream(c *hx.Ctx) {
	per := c.N(40, 600)
	for nkeys := 1; nkeys <= 8; nkeys++ {
		n := per
		if nkeys == 4 || nkeys >= 6 {
			n = per * 2
		}
		for i := 0; i < n; i++ {
			cfg, crits := genWideConfig(c, nkeys)
			var qs []query
			for _, p := range crits {
				qs = append(qs, query{"crit", p})
			}
			qs = append(qs, query{kind: "nilcrit"})
			via := c.Rng.Chance(25)
			runCase(c, cfg, qs, via)
			c.Count("config.wide-selector")
		}
	}
}
