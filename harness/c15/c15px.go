//go:build verif

package c15

// Kind `px`: the request path. SEQUENCES of 2-5 requests on ONE route go through MOSN's real proxy core (fixture
// harness/px): a cluster with subset load balancing and hosts carrying metadata, a route with `metadata_match` (on the
// route, or on the single weighted cluster of the route), requests whose per-request criteria are the VarRouterMeta
// variable (as the header-to-metadata stream filter sets it). The criteria of a request are assembled by the real
// downStream.MetadataMatchCriteria; the chosen upstream host is the host the real cluster manager hands to the proxy.
//
// case line:  C15 px <F|P> <policy> <default> <selectors> <hosts> <r|w>:<route metadata k=v;…|-> <req|req|…>
//             => <obs|obs|…>
// req:  n (VarRouterMeta unset) | m:<k=v;…|->   (the variable's map, printed sorted by key)
// obs:  <chosen host name | none>/<the route's shared criteria object after the request: nil | k=v;… | ->
// F|P:  build mode of the subset balancer (filtering / pre-index), set through the exported mode switch.

import (
	"fmt"
	"sort"
	"strings"
	"time"

	"mosn.io/api"
	v2 "mosn.io/mosn/pkg/config/v2"
	"mosn.io/mosn/pkg/types"
	"mosn.io/mosn/pkg/upstream/cluster"
	"verif/harness/hx"
	"verif/harness/px"
)

type pxReq struct {
	set  bool   // VarRouterMeta set
	meta []pair // unique keys
}

type pxCase struct {
	cfg      *config
	pre      bool
	weighted bool   // metadata_match on the route's single weighted cluster instead of on the route
	route    []pair // unique keys
	reqs     []pxReq
}

func sortedPairs(p []pair) []pair {
	o := append([]pair{}, p...)
	sort.Slice(o, func(i, j int) bool { return o[i].k < o[j].k })
	return o
}

func (k *pxCase) tokens() string {
	mode, rk := "F", "r"
	if k.pre {
		mode = "P"
	}
	if k.weighted {
		rk = "w"
	}
	var rs []string
	for _, r := range k.reqs {
		if !r.set {
			rs = append(rs, "n")
		} else {
			rs = append(rs, "m:"+pairsTok(sortedPairs(r.meta)))
		}
	}
	return fmt.Sprintf("px %s %s %s:%s %s", mode, k.cfg.tokens(), rk, pairsTok(sortedPairs(k.route)), strings.Join(rs, "|"))
}

func parsePxCase(toks []string) (*pxCase, bool) {
	// px <F|P> <policy> <default> <selectors> <hosts> <r|w>:<route> <reqs>
	if len(toks) != 8 || toks[0] != "px" {
		return nil, false
	}
	_, cfg, _, ok := parseCase([]string{"q", toks[2], toks[3], toks[4], toks[5], "nilcrit"})
	if !ok || len(toks[6]) < 3 {
		return nil, false
	}
	k := &pxCase{cfg: cfg, pre: toks[1] == "P", weighted: toks[6][0] == 'w', route: parsePairs(toks[6][2:])}
	for _, r := range strings.Split(toks[7], "|") {
		switch {
		case r == "n":
			k.reqs = append(k.reqs, pxReq{})
		case strings.HasPrefix(r, "m:"):
			k.reqs = append(k.reqs, pxReq{set: true, meta: parsePairs(r[2:])})
		default:
			return nil, false
		}
	}
	return k, true
}

func critTok(mc api.MetadataMatchCriteria) string {
	if mc == nil {
		return "nil"
	}
	var ps []pair
	for _, kv := range mc.MetadataMatchCriteria() {
		ps = append(ps, pair{kv.MetadataKeyName(), kv.MetadataValue()})
	}
	return pairsTok(ps) // in the object's own order
}

// runPx drives one sequence through the proxy and returns the observation tokens.
func runPx(k *pxCase) string {
	rt := px.Route("/svc", "c1", px.Timeout(2*time.Second))
	md := api.Metadata{}
	for _, p := range k.route {
		md[p.k] = p.v
	}
	if k.weighted {
		rt.Route.ClusterName = ""
		rt.Route.WeightedClusters = []v2.WeightedCluster{{Cluster: v2.ClusterWeight{
			ClusterWeightConfig: v2.ClusterWeightConfig{Name: "c1", Weight: 100}, MetadataMatch: md}}}
		// a decoy on the route itself: with weighted clusters the cluster's criteria are the ones that count
		rt.Route.MetadataMatch = api.Metadata{"zz": "decoy"}
	} else if len(md) > 0 {
		rt.Route.MetadataMatch = md
	}
	var routeSeen api.Route
	capture := px.Filter{Phase: px.AfterRoute, Script: []px.Verdict{{Do: func(ex *px.Exchange, rh api.StreamReceiverFilterHandler, _ api.StreamSenderFilterHandler) {
		routeSeen = rh.Route()
	}}}}
	f := px.New(px.Config{Clusters: []px.Cluster{{Name: "c1", Hosts: len(k.cfg.hosts)}}, Routes: []v2.Router{rt}, Filters: []px.Filter{capture}})
	defer f.Close()

	mode := cluster.SubsetFilterBuildMode
	if k.pre {
		mode = cluster.SubsetPreIndexBuildMode
	}
	cluster.SetSubsetBuildMode(mode)
	var hosts []px.SubsetHost
	anyUnhealthy := false
	for _, h := range k.cfg.hosts {
		m := map[string]string{}
		for _, p := range h.meta {
			m[p.k] = p.v
		}
		hosts = append(hosts, px.SubsetHost{Name: h.name, Meta: m, Healthy: h.healthy})
		anyUnhealthy = anyUnhealthy || !h.healthy
	}
	f.SetSubsetCluster("c1", v2.LB_ROUNDROBIN, k.cfg.clusterConfig().LBSubSetConfig, hosts)
	cluster.SetSubsetBuildMode(cluster.SubsetPreIndexBuildMode)
	if anyUnhealthy {
		defer f.ClearSubsetHealth("c1")
	}

	var obs []string
	for _, r := range k.reqs {
		var vars map[string]interface{}
		if r.set {
			m := map[string]string{} // a fresh map per request, as a stream filter creates it
			for _, p := range r.meta {
				m[p.k] = p.v
			}
			vars = map[string]interface{}{types.VarRouterMeta: m}
		}
		routeSeen = nil
		ex := f.RequestVars(vars, px.H(":path", "/svc", ":authority", "svc"), nil, nil)
		ex.WaitTrace(2*time.Second, func([]string) bool { return len(ex.UpstreamAttempts()) > 0 || ex.Done() })
		host := "none"
		if as := ex.UpstreamAttempts(); len(as) > 0 {
			if a := ex.WaitAttemptFor(0, time.Second); a != nil {
				host = a.Host
				if a.Failed == "" {
					a.RespondHeaders(200)
				}
			} else {
				host = "unsent"
			}
		}
		if !ex.WaitDone(2 * time.Second) {
			host += "!stuck"
		}
		after := "noroute"
		if routeSeen != nil && routeSeen.RouteRule() != nil {
			after = critTok(routeSeen.RouteRule().MetadataMatchCriteria(f.ClusterName("c1")))
		}
		obs = append(obs, host+"/"+after)
	}
	return strings.Join(obs, "|")
}

func emitPx(c *hx.Ctx, k *pxCase) {
	out := ""
	if msg, p := hx.Safe(func() { out = runPx(k) }); p {
		_ = msg
		out = "panic"
	}
	c.Emit("C15", k.tokens(), out)
	switch {
	case out == "panic":
		c.Count("px.outcome.panic")
	case strings.Contains(out, "none/"):
		c.Count("px.outcome.some-request-without-host")
	default:
		c.Count("px.outcome.every-request-sent")
	}
	c.Count(fmt.Sprintf("px.requests=%d", len(k.reqs)))
}

// ---- generators

func metaOf(h hostSpec, keys []string) ([]pair, bool) {
	var out []pair
	for _, key := range keys {
		found := false
		for _, p := range h.meta {
			if p.k == key {
				out = append(out, p)
				found = true
			}
		}
		if !found {
			return nil, false
		}
	}
	return out, true
}

func hasKey(ps []pair, k string) bool {
	for _, p := range ps {
		if p.k == k {
			return true
		}
	}
	return false
}

// genPxCase: a configuration as for the balancer-level cases; route metadata that mostly hits a subset; requests whose
// per-request metadata add a key (hitting another selector or none), override a route key, repeat the route's pairs,
// are empty, or are absent.
func genPxCase(c *hx.Ctx) *pxCase {
	r := c.Rng
	size := 1 + r.Intn(6)
	if r.Chance(4) {
		size = 0
	}
	cfg := genConfig(c, size)
	if r.Chance(70) { // the request path is mostly exercised with healthy hosts; health is a balancer-level matter
		for i := range cfg.hosts {
			cfg.hosts[i].healthy = true
		}
	}
	if len(cfg.selectors) == 0 || r.Chance(50) {
		cfg.selectors = append(cfg.selectors, []string{"a"})
		if r.Chance(60) {
			cfg.selectors = append(cfg.selectors, []string{"b", "a"})
		}
	}
	k := &pxCase{cfg: cfg, pre: r.Chance(60), weighted: r.Chance(20)}
	var sels [][]string
	for _, s := range cfg.selectors {
		if ns := normSel(s); len(ns) > 0 {
			sels = append(sels, ns)
		}
	}
	if len(sels) == 0 {
		cfg.selectors = append(cfg.selectors, []string{"a"})
		sels = append(sels, []string{"a"})
	}
	fromHost := func(keys []string) []pair {
		var cand [][]pair
		for _, h := range cfg.hosts {
			if p, ok := metaOf(h, keys); ok {
				cand = append(cand, p)
			}
		}
		if len(cand) > 0 && r.Chance(85) {
			return cand[r.Intn(len(cand))]
		}
		var out []pair
		for _, key := range keys {
			out = append(out, pair{key, valPool[r.Intn(len(valPool))]})
		}
		return out
	}
	// route metadata
	sel := sels[r.Intn(len(sels))]
	switch x := r.Intn(100); {
	case x < 10:
		c.Count("px.route.no-metadata")
	case x < 75:
		k.route = fromHost(sel)
		c.Count("px.route.selector-keys")
	case x < 85 && len(sel) > 1:
		k.route = fromHost(sel[:len(sel)-1])
		c.Count("px.route.strict-subset-of-selector")
	default:
		var ks []string
		for _, key := range []string{"a", "b", "c", "d"} {
			if r.Chance(40) {
				ks = append(ks, key)
			}
		}
		k.route = fromHost(ks)
		c.Count("px.route.random-keys")
	}
	if k.weighted {
		c.Count("px.route.on-weighted-cluster")
	}
	// requests
	n := 2 + r.Intn(4)
	for i := 0; i < n; i++ {
		var q pxReq
		switch x := r.Intn(100); {
		case x < 28:
			c.Count("px.req.unset")
		case x < 34:
			q.set = true
			c.Count("px.req.empty-map")
		case x < 58: // one or two keys the route does not carry
			q.set = true
			var ks []string
			for _, key := range []string{"a", "b", "c", "d", "zz"} {
				if !hasKey(k.route, key) && r.Chance(45) && len(ks) < 2 {
					ks = append(ks, key)
				}
			}
			if len(ks) == 0 {
				ks = []string{"c"}
				if hasKey(k.route, "c") {
					ks = []string{"zz"}
				}
			}
			q.meta = fromHost(ks)
			c.Count("px.req.extra-keys")
		case x < 72 && len(k.route) > 0: // override a route key with another value (and sometimes add a key)
			q.set = true
			p := k.route[r.Intn(len(k.route))]
			q.meta = []pair{{p.k, valPool[(indexOf(valPool, p.v)+1+r.Intn(2))%3]}}
			if r.Chance(30) && !hasKey(k.route, "c") {
				q.meta = append(q.meta, fromHost([]string{"c"})...)
			}
			c.Count("px.req.override-route-key")
		case x < 80 && len(k.route) > 0: // the route's own pairs again
			q.set = true
			q.meta = append([]pair{}, k.route...)
			c.Count("px.req.same-as-route")
		default: // complete the route's keys to another selector's key set from one host
			q.set = true
			s2 := sels[r.Intn(len(sels))]
			var ks []string
			for _, key := range s2 {
				if !hasKey(k.route, key) {
					ks = append(ks, key)
				}
			}
			if len(ks) == 0 {
				ks = s2
			}
			// take the values from a host that also carries the route's pairs when there is one
			var cand [][]pair
			for _, h := range cfg.hosts {
				okRoute := true
				for _, p := range k.route {
					if got, ok := metaOf(h, []string{p.k}); !ok || got[0].v != p.v {
						okRoute = false
					}
				}
				if p, ok := metaOf(h, ks); ok && okRoute {
					cand = append(cand, p)
				}
			}
			if len(cand) > 0 {
				q.meta = cand[r.Intn(len(cand))]
			} else {
				q.meta = fromHost(ks)
			}
			c.Count("px.req.completes-a-selector")
		}
		k.reqs = append(k.reqs, q)
	}
	return k
}

func pxBoundary() []*pxCase {
	h := func(name string, healthy bool, kv ...string) hostSpec {
		hs := hostSpec{name: name, healthy: healthy}
		for i := 0; i+1 < len(kv); i += 2 {
			hs.meta = append(hs.meta, pair{kv[i], kv[i+1]})
		}
		return hs
	}
	m := func(kv ...string) pxReq {
		q := pxReq{set: true}
		for i := 0; i+1 < len(kv); i += 2 {
			q.meta = append(q.meta, pair{kv[i], kv[i+1]})
		}
		return q
	}
	var out []*pxCase
	for policy := 0; policy <= 2; policy++ {
		for _, pre := range []bool{false, true} {
			for _, weighted := range []bool{false, true} {
				zone := &config{policy: policy, dflt: []pair{{"version", "v1"}}, selectors: [][]string{{"zone"}},
					hosts: []hostSpec{h("h0", true, "version", "v1", "zone", "a"), h("h1", true, "version", "v2", "zone", "b"), h("h2", true, "version", "v1", "zone", "b")}}
				// a request with an extra per-request key, then requests carrying the route's criteria only
				out = append(out, &pxCase{cfg: zone, pre: pre, weighted: weighted, route: []pair{{"zone", "a"}},
					reqs: []pxReq{m("version", "v2"), {}, {}, m(), {}}})
				// per-request override of the route's value, then the route's own
				out = append(out, &pxCase{cfg: zone, pre: pre, weighted: weighted, route: []pair{{"zone", "a"}},
					reqs: []pxReq{m("zone", "b"), {}, m("zone", "b"), {}}})
				two := &config{policy: policy, selectors: [][]string{{"a"}, {"a", "b"}},
					hosts: []hostSpec{h("h0", true, "a", "1", "b", "1"), h("h1", true, "a", "1", "b", "2"), h("h2", true, "a", "2", "b", "1"), h("h3", true, "b", "2")}}
				// the union hits the selector [a, b]; afterwards the route alone must hit [a] again
				out = append(out, &pxCase{cfg: two, pre: pre, weighted: weighted, route: []pair{{"a", "1"}},
					reqs: []pxReq{m("b", "2"), {}, m("b", "1"), {}, m("b", "9")}})
				// no route metadata: criteria are the request's alone, or none at all
				out = append(out, &pxCase{cfg: two, pre: pre, weighted: weighted, route: nil,
					reqs: []pxReq{m("a", "2"), {}, m(), m("a", "1", "b", "1")}})
			}
		}
	}
	return out
}

func runPxStream(c *hx.Ctx) {
	for _, k := range pxBoundary() {
		emitPx(c, k)
		c.Count("px.boundary")
	}
	n := c.N(700, 6000)
	for i := 0; i < n; i++ {
		emitPx(c, genPxCase(c))
	}
	if c.Thorough() {
		pxExhaustiveSmall(c)
	}
}

// pxExhaustiveSmall (thorough tier): over one small host set, every route metadata in {none, a=1, a=1;b=1, b=2}, every
// ordered pair and a sample of triples of per-request criteria from a fixed menu, every policy, both build modes, route
// and weighted-cluster placement. The harness processes of a thorough run split the sequences among themselves by seed.
func pxExhaustiveSmall(c *hx.Ctx) {
	h := func(name string, kv ...string) hostSpec {
		hs := hostSpec{name: name, healthy: true}
		for i := 0; i+1 < len(kv); i += 2 {
			hs.meta = append(hs.meta, pair{kv[i], kv[i+1]})
		}
		return hs
	}
	hosts := []hostSpec{h("h0", "a", "1", "b", "1"), h("h1", "a", "1", "b", "2"), h("h2", "a", "2", "b", "1"), h("h3", "b", "2"), h("h4", "a", "2")}
	routes := [][]pair{nil, {{"a", "1"}}, {{"a", "1"}, {"b", "1"}}, {{"b", "2"}}}
	menu := []pxReq{{}, {set: true}, {set: true, meta: []pair{{"a", "1"}}}, {set: true, meta: []pair{{"a", "2"}}},
		{set: true, meta: []pair{{"b", "1"}}}, {set: true, meta: []pair{{"b", "2"}}}, {set: true, meta: []pair{{"a", "2"}, {"b", "1"}}},
		{set: true, meta: []pair{{"c", "1"}}}}
	part, idx := int(c.Seed%8), 0
	for policy := 0; policy <= 2; policy++ {
		var dflt []pair
		if policy == 2 {
			dflt = []pair{{"b", "2"}}
		}
		cfg := &config{policy: policy, dflt: dflt, selectors: [][]string{{"a"}, {"b", "a"}}, hosts: hosts}
		for _, route := range routes {
			for _, r1 := range menu {
				for _, r2 := range menu {
					idx++
					if idx%8 != part {
						continue
					}
					j := idx / 8
					reqs := []pxReq{r1, r2}
					if j%3 == 0 {
						reqs = append(reqs, menu[(j/3)%len(menu)], pxReq{})
					}
					emitPx(c, &pxCase{cfg: cfg, pre: j%2 == 0, weighted: j%5 == 0, route: route, reqs: reqs})
					c.Count("px.exhaustive-small")
				}
			}
		}
	}
}
