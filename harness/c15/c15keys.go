//go:build verif

package c15

// Adversarial selector KEY STRINGS (GenerateSubsetKeys builds LbSubsetInfo.SubsetKeys from subset_selectors: sort each
// selector's keys, drop duplicate selectors).  Selector lists are built from "collision families": groups of DISTINCT
// selectors whose sorted keys coincide once they are joined with some separator (the empty string, "," "|" ":" " " NUL
// "+" "-" "_" "/" "=" ";"), keys that are prefixes / concatenations of other keys, the empty key, together with real
// duplicates, permutations of one selector, repeated keys and selectors that are subsets of others.  Every configured
// selector is requested (a hit taken from a host and arbitrary values), on both subset builders.
//
// case lines (every key and value is x<hex of its bytes>, so that any byte may occur in a key):
//   C15 gk <selectors x..+x..,_|-> => <SubsetKeys as returned by cluster.GenerateSubsetKeys>
//   C15 ak <policy> <default k=v;…|-> <selectors> <hosts name/k=v;…/H|U,…|-> <query> => F:<…> P:<…>   (as kind q)

import (
	"encoding/hex"
	"fmt"
	"sort"
	"strings"

	"mosn.io/mosn/pkg/upstream/cluster"
	"verif/harness/hx"
)

func xs(s string) string { return "x" + hex.EncodeToString([]byte(s)) }

func unxs(s string) (string, bool) {
	if !strings.HasPrefix(s, "x") {
		return "", false
	}
	b, err := hex.DecodeString(s[1:])
	return string(b), err == nil
}

func pairsTokX(p []pair) string {
	if len(p) == 0 {
		return "-"
	}
	var s []string
	for _, e := range p {
		s = append(s, xs(e.k)+"="+xs(e.v))
	}
	return strings.Join(s, ";")
}

func selsTokX(sels [][]string) string {
	if len(sels) == 0 {
		return "-"
	}
	var ss []string
	for _, s := range sels {
		if len(s) == 0 {
			ss = append(ss, "_")
			continue
		}
		var ks []string
		for _, k := range s {
			ks = append(ks, xs(k))
		}
		ss = append(ss, strings.Join(ks, "+"))
	}
	return strings.Join(ss, ",")
}

func (c *config) tokensX() string {
	hs := "-"
	if len(c.hosts) > 0 {
		var ss []string
		for _, h := range c.hosts {
			f := "U"
			if h.healthy {
				f = "H"
			}
			ss = append(ss, h.name+"/"+pairsTokX(h.meta)+"/"+f)
		}
		hs = strings.Join(ss, ",")
	}
	return fmt.Sprintf("%d %s %s %s", c.policy, pairsTokX(c.dflt), selsTokX(c.selectors), hs)
}

func parsePairsX(s string) ([]pair, bool) {
	if s == "-" {
		return nil, true
	}
	var out []pair
	for _, kv := range strings.Split(s, ";") {
		f := strings.Split(kv, "=")
		if len(f) != 2 {
			return nil, false
		}
		k, ok1 := unxs(f[0])
		v, ok2 := unxs(f[1])
		if !ok1 || !ok2 {
			return nil, false
		}
		out = append(out, pair{k, v})
	}
	return out, true
}

func parseSelsX(s string) ([][]string, bool) {
	if s == "-" {
		return nil, true
	}
	var out [][]string
	for _, sel := range strings.Split(s, ",") {
		if sel == "_" {
			out = append(out, []string{})
			continue
		}
		var ks []string
		for _, k := range strings.Split(sel, "+") {
			d, ok := unxs(k)
			if !ok {
				return nil, false
			}
			ks = append(ks, d)
		}
		out = append(out, ks)
	}
	return out, true
}

// parseKeysCase parses a `gk` / `ak` case back (corpus replay).
func parseKeysCase(toks []string) (cfg *config, q query, gkOnly bool, ok bool) {
	if len(toks) == 2 && toks[0] == "gk" {
		sels, okS := parseSelsX(toks[1])
		return &config{selectors: sels}, query{}, true, okS
	}
	if len(toks) != 6 || toks[0] != "ak" {
		return
	}
	cfg = &config{}
	fmt.Sscan(toks[1], &cfg.policy)
	var ok1, ok2 bool
	cfg.dflt, ok1 = parsePairsX(toks[2])
	cfg.selectors, ok2 = parseSelsX(toks[3])
	if !ok1 || !ok2 {
		return
	}
	if toks[4] != "-" {
		for _, h := range strings.Split(toks[4], ",") {
			f := strings.Split(h, "/")
			if len(f) != 3 {
				return
			}
			md, okM := parsePairsX(f[1])
			if !okM {
				return
			}
			cfg.hosts = append(cfg.hosts, hostSpec{f[0], md, f[2] == "H"})
		}
	}
	switch {
	case toks[5] == "nilctx" || toks[5] == "nilcrit":
		q = query{kind: toks[5]}
	case strings.HasPrefix(toks[5], "c:"):
		p, okP := parsePairsX(toks[5][2:])
		if !okP {
			return
		}
		q = query{kind: "crit", crit: p}
	default:
		return
	}
	return cfg, q, false, true
}

func emitGk(c *hx.Ctx, sels [][]string) {
	out := "panic"
	hx.Safe(func() {
		raw := make([][]string, len(sels))
		for i, s := range sels {
			raw[i] = append([]string{}, s...)
		}
		var got [][]string
		for _, ss := range cluster.GenerateSubsetKeys(raw) {
			got = append(got, ss.Keys())
		}
		out = selsTokX(got)
	})
	c.Emit("C15", "gk "+selsTokX(sels), out)
}

func runKeysCase(c *hx.Ctx, cfg *config, qs []query, viaCluster bool) {
	f := cfg.build(false, viaCluster)
	p := cfg.build(true, viaCluster)
	ct := cfg.tokensX()
	for _, q := range qs {
		qt := q.kind
		if q.kind == "crit" {
			_, order := q.criteria()
			qt = "c:" + pairsTokX(order)
		}
		fo, po := observe(f, q, len(cfg.hosts)), observe(p, q, len(cfg.hosts))
		c.Emit("C15", "ak "+ct+" "+qt, "F:"+fo+" P:"+po)
		switch {
		case fo == "panic" || po == "panic":
			c.Count("keys.outcome.panic")
		case strings.HasPrefix(fo, "-:"):
			c.Count("keys.outcome.no-host")
		case strings.Count(fo, "+")+1 == len(cfg.hosts):
			c.Count("keys.outcome.all-hosts")
		default:
			c.Count("keys.outcome.proper-subset-of-hosts")
		}
	}
}

var c15kSeps = []string{"", ",", "|", ":", " ", "\x00", "+", "-", "_", "/", "=", ";", "->", "\x1f", "."}
var c15kWords = []string{"app", "version", "a", "b", "c", "ab", "bc", "abc", "zone", "stage", "", "k", "kk", "env"}

func sortedCopy(s []string) []string {
	o := append([]string{}, s...)
	sort.Strings(o)
	return o
}

// collisionFamily returns distinct selectors whose sorted key lists are equal once joined with sep.
func collisionFamily(c *hx.Ctx, sep string) [][]string {
	r := c.Rng
	n := 2 + r.Intn(2)
	var ws []string
	for len(ws) < n {
		w := r.PickS(c15kWords)
		if sep == "" && w == "" && r.Chance(70) {
			continue
		}
		dup := false
		for _, x := range ws {
			dup = dup || x == w
		}
		if !dup {
			ws = append(ws, w)
		}
	}
	ws = sortedCopy(ws)
	fam := [][]string{ws}
	// merge a run of adjacent keys into one key: the joined strings are equal when the merged key sorts where the run was
	i := r.Intn(n - 1)
	j := i + 1 + r.Intn(n-i-1)
	merged := append(append(append([]string{}, ws[:i]...), strings.Join(ws[i:j+1], sep)), ws[j+1:]...)
	fam = append(fam, merged)
	if sep == "" && n == 3 {
		// [a bc] / [ab c]: the same characters cut at another place
		fam = append(fam, []string{ws[0] + ws[1], ws[2]}, []string{ws[0], ws[1] + ws[2]})
	}
	if sep == "" {
		// the empty key joins to nothing
		fam = append(fam, append([]string{""}, ws...))
	}
	return fam
}

func genKeysConfig(c *hx.Ctx) *config {
	r := c.Rng
	cfg := &config{policy: r.Intn(3)}
	nf := 1 + r.Intn(2)
	for i := 0; i < nf; i++ {
		sep := r.PickS(c15kSeps)
		if r.Chance(35) {
			sep = ""
		}
		fam := collisionFamily(c, sep)
		c.Count(fmt.Sprintf("keys.family.sep=%q", sep))
		cfg.selectors = append(cfg.selectors, fam...)
	}
	// real duplicates, permutations, repeated keys, subsets, the empty selector, a lone separator key
	for k := r.Intn(4); k > 0 && len(cfg.selectors) > 0; k-- {
		s := append([]string{}, cfg.selectors[r.Intn(len(cfg.selectors))]...)
		switch r.Intn(6) {
		case 0:
			c.Count("keys.extra.duplicate")
		case 1:
			for i := len(s) - 1; i > 0; i-- {
				j := r.Intn(i + 1)
				s[i], s[j] = s[j], s[i]
			}
			c.Count("keys.extra.permutation")
		case 2:
			if len(s) > 0 {
				s = append(s, s[r.Intn(len(s))])
			}
			c.Count("keys.extra.repeated-key")
		case 3:
			if len(s) > 1 {
				s = s[:1+r.Intn(len(s)-1)]
			}
			c.Count("keys.extra.subset")
		case 4:
			s = []string{}
			c.Count("keys.extra.empty-selector")
		case 5:
			s = []string{r.PickS(c15kSeps)}
			c.Count("keys.extra.separator-key")
		}
		cfg.selectors = append(cfg.selectors, s)
	}
	// raw order of the selector list and of the keys inside each selector
	for i := len(cfg.selectors) - 1; i > 0; i-- {
		j := r.Intn(i + 1)
		cfg.selectors[i], cfg.selectors[j] = cfg.selectors[j], cfg.selectors[i]
	}
	for _, s := range cfg.selectors {
		if r.Chance(50) {
			for i := len(s) - 1; i > 0; i-- {
				j := r.Intn(i + 1)
				s[i], s[j] = s[j], s[i]
			}
		}
	}
	// hosts: for most selectors one host carrying exactly its keys (so that colliding selectors have DIFFERENT hosts),
	// plus hosts with a random part of all keys
	var all []string
	seen := map[string]bool{}
	for _, s := range cfg.selectors {
		for _, k := range s {
			if !seen[k] {
				seen[k] = true
				all = append(all, k)
			}
		}
	}
	nv := 1 + r.Intn(2)
	addHost := func(keys []string, extra int) {
		h := hostSpec{name: fmt.Sprintf("h%d", len(cfg.hosts)), healthy: !r.Chance(12)}
		used := map[string]bool{}
		for _, k := range keys {
			if !used[k] {
				used[k] = true
				h.meta = append(h.meta, pair{k, valPool[r.Intn(nv)]})
			}
		}
		for _, k := range all {
			if !used[k] && r.Chance(extra) {
				used[k] = true
				h.meta = append(h.meta, pair{k, valPool[r.Intn(nv)]})
			}
		}
		cfg.hosts = append(cfg.hosts, h)
	}
	for _, s := range cfg.selectors {
		if len(cfg.hosts) < 7 && r.Chance(75) {
			addHost(s, 0)
		}
	}
	for k := r.Intn(3); k > 0 && len(cfg.hosts) < 9; k-- {
		addHost(nil, 50)
	}
	if cfg.policy == 2 && len(cfg.hosts) > 0 && r.Chance(80) {
		h := cfg.hosts[r.Intn(len(cfg.hosts))]
		if len(h.meta) > 0 {
			cfg.dflt = []pair{h.meta[r.Intn(len(h.meta))]}
		}
	}
	return cfg
}

func genKeysQueries(c *hx.Ctx, cfg *config) []query {
	r := c.Rng
	var qs []query
	done := map[string]bool{}
	for _, s := range cfg.selectors {
		ks := normSel(s)
		id := selsTokX([][]string{ks})
		if len(ks) == 0 || done[id] {
			continue
		}
		done[id] = true
		// a hit: the values of a host carrying every key of the selector
		for _, h := range cfg.hosts {
			m := map[string]string{}
			for _, p := range h.meta {
				m[p.k] = p.v
			}
			var crit []pair
			for _, k := range ks {
				if v, ok := m[k]; ok {
					crit = append(crit, pair{k, v})
				}
			}
			if len(crit) == len(ks) {
				qs = append(qs, query{"crit", crit})
				c.Count("keys.query.selector-hit")
				break
			}
		}
		var crit []pair
		for _, k := range ks {
			crit = append(crit, pair{k, valPool[r.Intn(3)]})
		}
		qs = append(qs, query{"crit", crit})
		c.Count("keys.query.selector-any-values")
	}
	// a key set that is NOT configured although its joined string is: the fallback must apply
	if len(cfg.selectors) > 0 {
		s := normSel(cfg.selectors[r.Intn(len(cfg.selectors))])
		if len(s) >= 2 {
			j := strings.Join(s, r.PickS(c15kSeps))
			configured := false
			for _, o := range cfg.selectors {
				n := normSel(o)
				configured = configured || (len(n) == 1 && n[0] == j)
			}
			if !configured {
				qs = append(qs, query{"crit", []pair{{j, "1"}}})
				c.Count("keys.query.joined-key-not-configured")
			}
		}
	}
	qs = append(qs, query{kind: "nilcrit"})
	return qs
}

func keysBoundaryConfigs() []*config {
	h := func(name string, kv ...string) hostSpec {
		hs := hostSpec{name: name, healthy: true}
		for i := 0; i+1 < len(kv); i += 2 {
			hs.meta = append(hs.meta, pair{kv[i], kv[i+1]})
		}
		return hs
	}
	var out []*config
	for pol := 0; pol < 3; pol++ {
		out = append(out,
			&config{policy: pol, selectors: [][]string{{"app", "version"}, {"appversion"}},
				hosts: []hostSpec{h("h0", "app", "1", "version", "1"), h("h1", "appversion", "1"), h("h2", "zone", "1")}, dflt: dfl(pol, "zone", "1")},
			&config{policy: pol, selectors: [][]string{{"ab", "c"}, {"bc", "a"}, {"abc"}, {"c", "b", "a"}},
				hosts: []hostSpec{h("h0", "ab", "1", "c", "1"), h("h1", "a", "1", "bc", "1"), h("h2", "abc", "1"), h("h3", "a", "1", "b", "1", "c", "1")}, dflt: dfl(pol, "abc", "1")},
			&config{policy: pol, selectors: [][]string{{"a", "b"}, {"a,b"}, {"a|b"}, {"a:b"}, {"a b"}, {"a\x00b"}},
				hosts: []hostSpec{h("h0", "a", "1", "b", "1"), h("h1", "a,b", "1"), h("h2", "a|b", "1"), h("h3", "a:b", "1"), h("h4", "a b", "1"), h("h5", "a\x00b", "1")}, dflt: dfl(pol, "a,b", "1")},
			&config{policy: pol, selectors: [][]string{{}, {""}, {"", "ab"}, {"ab"}},
				hosts: []hostSpec{h("h0", "", "1"), h("h1", "", "2", "ab", "1"), h("h2", "ab", "2")}, dflt: dfl(pol, "ab", "2")},
		)
	}
	return out
}

func dfl(pol int, k, v string) []pair {
	if pol == 2 {
		return []pair{{k, v}}
	}
	return nil
}

func runKeysStream(c *hx.Ctx) {
	for _, cfg := range keysBoundaryConfigs() {
		emitGk(c, cfg.selectors)
		runKeysCase(c, cfg, genKeysQueries(c, cfg), false)
		c.Count("keys.config.boundary")
	}
	n := c.N(400, 8000)
	for i := 0; i < n; i++ {
		cfg := genKeysConfig(c)
		emitGk(c, cfg.selectors)
		via := c.Rng.Chance(30)
		runKeysCase(c, cfg, genKeysQueries(c, cfg), via)
		c.Count(fmt.Sprintf("keys.selectors=%d", len(cfg.selectors)))
		c.Count("keys.config.generated")
	}
}
