//go:build verif

package c15

// Kind `ps`: ONE request that selects a host SEVERAL times. The criteria are recomputed by the real
// downStream.MetadataMatchCriteria at every selection from the CURRENT request-level variable (types.VarRouterMeta) and the
// CURRENT route entry. Between two selections a scripted AfterChooseHost stream filter changes the variable (stores a new
// map, edits the map in place, unsets it) and / or replaces the request's route entry by the rule of a second route, and
// asks for a re-choose-host; after the last filter run the first upstream attempt is refused (connect failure) and the
// route's retry policy makes the proxy select once more (doRetry).
//
// case line:  C15 ps <F|P> <policy> <default> <selectors> <hosts> r:<route 1 metadata>/<route 2 metadata> <n|m:pairs> <step|step|…>
//             => <host of selection 0>,<host of selection 1>,…[,none] @<host of the first upstream attempt|->
// step:  c:<varop>  the filter applies varop and returns ReChooseHost            (next selection: chooseHost again)
//        e:<varop>  the same, and the filter sets the route entry to route 2's rule before
//        t:<varop>  the filter applies varop and continues; attempt 0 is refused; the retry selects again (last step only)
// varop: k keep | s:<pairs|-> store a NEW map | u unset | p:<pairs> put the pairs into the existing map | d:<key> delete the key

import (
	"fmt"
	"strings"
	"time"

	"mosn.io/api"
	v2 "mosn.io/mosn/pkg/config/v2"
	"mosn.io/mosn/pkg/types"
	"mosn.io/mosn/pkg/upstream/cluster"
	"mosn.io/pkg/variable"
	"verif/harness/hx"
	"verif/harness/px"
)

type psCase struct {
	cfg    *config
	pre    bool
	r1, r2 []pair
	v0     pxReq
	steps  []string
}

func (k *psCase) tokens() string {
	mode := "F"
	if k.pre {
		mode = "P"
	}
	v := "n"
	if k.v0.set {
		v = "m:" + pairsTok(sortedPairs(k.v0.meta))
	}
	return fmt.Sprintf("ps %s %s r:%s/%s %s %s", mode, k.cfg.tokens(), pairsTok(sortedPairs(k.r1)), pairsTok(sortedPairs(k.r2)), v, strings.Join(k.steps, "|"))
}

func psMap(ps []pair) map[string]string {
	m := map[string]string{}
	for _, p := range ps {
		m[p.k] = p.v
	}
	return m
}

func psApply(ex *px.Exchange, op string) {
	ctx := ex.Context()
	switch {
	case op == "k":
	case op == "u":
		_ = variable.Set(ctx, types.VarRouterMeta, nil)
	case strings.HasPrefix(op, "s:"):
		_ = variable.Set(ctx, types.VarRouterMeta, psMap(parsePairs(op[2:])))
	case strings.HasPrefix(op, "p:"), strings.HasPrefix(op, "d:"):
		v, err := variable.Get(ctx, types.VarRouterMeta)
		if err != nil || v == nil {
			return
		}
		m, ok := v.(map[string]string)
		if !ok {
			return
		}
		if op[0] == 'd' {
			delete(m, op[2:])
		} else {
			for _, p := range parsePairs(op[2:]) {
				m[p.k] = p.v
			}
		}
	}
}

func runPs(k *psCase) string {
	mk := func(path string, md []pair) v2.Router {
		rt := px.Route(path, "c1", px.Timeout(2*time.Second), px.Retry(true, 2, 0))
		if len(md) > 0 {
			rt.Route.MetadataMatch = api.Metadata(psMap(md))
		}
		return rt
	}
	var routeSeen api.Route
	capture := px.Filter{Phase: px.AfterRoute, Script: []px.Verdict{{Do: func(ex *px.Exchange, rh api.StreamReceiverFilterHandler, _ api.StreamSenderFilterHandler) {
		routeSeen = rh.Route()
	}}}}
	var alt api.Route
	main := false
	var seen []string
	hostOf := func(rh api.StreamReceiverFilterHandler) string {
		h := rh.RequestInfo().UpstreamHost()
		if h == nil {
			return "nohost"
		}
		return h.Hostname()
	}
	var script []px.Verdict
	hasRetry := false
	for _, st := range k.steps {
		kind, op := st[0], st[2:]
		do := func(ex *px.Exchange, rh api.StreamReceiverFilterHandler, _ api.StreamSenderFilterHandler) {
			if !main {
				return
			}
			seen = append(seen, hostOf(rh))
			if kind == 'e' && alt != nil {
				rh.RequestInfo().SetRouteEntry(alt.RouteRule())
			}
			psApply(ex, op)
		}
		switch kind {
		case 'c', 'e':
			script = append(script, px.Verdict{Status: api.StreamFilterReChooseHost, Do: do})
		case 't':
			hasRetry = true
			script = append(script, px.Verdict{Do: do})
		}
	}
	if !hasRetry {
		script = append(script, px.Verdict{Do: func(ex *px.Exchange, rh api.StreamReceiverFilterHandler, _ api.StreamSenderFilterHandler) {
			if main {
				seen = append(seen, hostOf(rh))
			}
		}})
	}
	chooser := px.Filter{Phase: px.AfterChooseHost, Script: script}
	f := px.New(px.Config{Clusters: []px.Cluster{{Name: "c1", Hosts: len(k.cfg.hosts)}}, Routes: []v2.Router{mk("/svc", k.r1), mk("/alt", k.r2)},
		Filters: []px.Filter{capture, chooser}})
	defer f.Close()

	mode := cluster.SubsetFilterBuildMode
	if k.pre {
		mode = cluster.SubsetPreIndexBuildMode
	}
	cluster.SetSubsetBuildMode(mode)
	var hosts []px.SubsetHost
	anyUnhealthy := false
	for _, h := range k.cfg.hosts {
		hosts = append(hosts, px.SubsetHost{Name: h.name, Meta: psMap(h.meta), Healthy: h.healthy})
		anyUnhealthy = anyUnhealthy || !h.healthy
	}
	f.SetSubsetCluster("c1", v2.LB_ROUNDROBIN, k.cfg.clusterConfig().LBSubSetConfig, hosts)
	cluster.SetSubsetBuildMode(cluster.SubsetPreIndexBuildMode)
	if anyUnhealthy {
		defer f.ClearSubsetHealth("c1")
	}

	// warm-up: route 2's rule
	wex := f.RequestVars(nil, px.H(":path", "/alt", ":authority", "svc"), nil, nil)
	wex.WaitTrace(2*time.Second, func([]string) bool { return len(wex.UpstreamAttempts()) > 0 || wex.Done() })
	if a := wex.WaitAttemptFor(0, time.Second); a != nil && a.Failed == "" {
		a.RespondHeaders(200)
	}
	wex.WaitDone(2 * time.Second)
	alt = routeSeen

	main = true
	if hasRetry {
		f.PoolFailAttempt(0, types.ConnectionFailure)
	}
	var vars map[string]interface{}
	if k.v0.set {
		vars = map[string]interface{}{types.VarRouterMeta: psMap(k.v0.meta)}
	}
	ex := f.RequestVars(vars, px.H(":path", "/svc", ":authority", "svc"), nil, nil)
	want := 1
	if hasRetry {
		want = 2
	}
	ex.WaitTrace(3*time.Second, func([]string) bool { return len(ex.UpstreamAttempts()) >= want || ex.Done() })
	first := "-"
	as := ex.UpstreamAttempts()
	if len(as) > 0 {
		first = as[0].Host
	}
	sel := append([]string{}, seen...)
	if hasRetry && len(as) > 1 {
		sel = append(sel, as[1].Host)
	}
	if len(as) > 0 {
		if a := ex.WaitAttemptFor(len(as)-1, time.Second); a != nil && a.Failed == "" {
			a.RespondHeaders(200)
		}
	}
	stuck := ""
	if !ex.WaitDone(3 * time.Second) {
		stuck = "!stuck"
	}
	// selections expected: one per step + the first; fewer = a selection found no host and the request was answered locally
	if len(sel) < len(k.steps)+1 {
		sel = append(sel, "none")
	}
	return strings.Join(sel, ",") + " @" + first + stuck
}

func emitPs(c *hx.Ctx, k *psCase) {
	out := ""
	if _, p := hx.Safe(func() { out = runPs(k) }); p {
		out = "panic @-"
	}
	c.Emit("C15", k.tokens(), out)
	c.Count(fmt.Sprintf("ps.selections=%d", len(k.steps)+1))
	if strings.Contains(out, "none") {
		c.Count("ps.outcome.a-selection-without-host")
	} else {
		c.Count("ps.outcome.every-selection-has-a-host")
	}
	for _, s := range k.steps {
		c.Count("ps.step=" + s[:1] + ":" + s[2:3])
	}
}

func psBoundary() []*psCase {
	h := func(name string, kv ...string) hostSpec {
		hs := hostSpec{name: name, healthy: true}
		for i := 0; i+1 < len(kv); i += 2 {
			hs.meta = append(hs.meta, pair{kv[i], kv[i+1]})
		}
		return hs
	}
	var out []*psCase
	for policy := 0; policy <= 2; policy++ {
		for _, pre := range []bool{false, true} {
			zone := &config{policy: policy, dflt: []pair{{"version", "v1"}}, selectors: [][]string{{"zone"}, {"version", "zone"}},
				hosts: []hostSpec{h("h0", "version", "v1", "zone", "a"), h("h1", "version", "v2", "zone", "b"), h("h2", "version", "v1", "zone", "b")}}
			za, zb := []pair{{"zone", "a"}}, []pair{{"zone", "b"}}
			set := func(kv ...string) pxReq {
				q := pxReq{set: true}
				for i := 0; i+1 < len(kv); i += 2 {
					q.meta = append(q.meta, pair{kv[i], kv[i+1]})
				}
				return q
			}
			for _, c := range []*psCase{
				// the request's zone changes between the first selection and the retry / the re-choose
				{r1: nil, v0: set("zone", "a"), steps: []string{"t:s:zone=b"}},
				{r1: nil, v0: set("zone", "a"), steps: []string{"c:s:zone=b", "t:k"}},
				{r1: nil, v0: set("zone", "a"), steps: []string{"c:p:zone=b", "c:d:zone", "t:s:zone=a"}},
				{r1: za, v0: pxReq{}, steps: []string{"c:s:zone=b", "t:u"}},
				{r1: za, v0: set("version", "v1"), steps: []string{"t:s:zone=b;version=v2"}},
				{r1: za, v0: set("zone", "b"), steps: []string{"c:u", "t:s:-"}},
				// the route entry is replaced by route 2's rule between two selections
				{r1: za, r2: zb, v0: pxReq{}, steps: []string{"e:k", "t:k"}},
				{r1: za, r2: zb, v0: set("version", "v1"), steps: []string{"e:k", "t:k"}},
				{r1: za, r2: zb, v0: set(), steps: []string{"e:k"}},
				{r1: za, r2: nil, v0: set("version", "v2"), steps: []string{"e:k", "c:s:version=v1"}},
			} {
				c.cfg, c.pre = zone, pre
				out = append(out, c)
			}
		}
	}
	return out
}

func genPsCase(c *hx.Ctx) *psCase {
	r := c.Rng
	base := genPxCase(c)
	k := &psCase{cfg: base.cfg, pre: base.pre, r1: base.route}
	for i := range k.cfg.hosts {
		if r.Chance(85) {
			k.cfg.hosts[i].healthy = true
		}
	}
	keys := []string{"a", "b", "c"}
	someMeta := func() []pair {
		if len(k.cfg.hosts) > 0 && r.Chance(75) {
			h := k.cfg.hosts[r.Intn(len(k.cfg.hosts))]
			var out []pair
			for _, p := range h.meta {
				if r.Chance(55) && len(out) < 2 {
					out = append(out, p)
				}
			}
			if len(out) > 0 {
				return out
			}
		}
		return []pair{{keys[r.Intn(3)], valPool[r.Intn(len(valPool))]}}
	}
	if r.Chance(50) {
		k.r2 = someMeta()
	}
	if len(base.reqs) > 0 && base.reqs[0].set {
		k.v0 = base.reqs[0]
	} else if r.Chance(40) {
		k.v0 = pxReq{set: true, meta: someMeta()}
	}
	varop := func() string {
		switch x := r.Intn(100); {
		case x < 15:
			return "k"
		case x < 55:
			return "s:" + pairsTok(sortedPairs(someMeta()))
		case x < 62:
			return "s:-"
		case x < 70:
			return "u"
		case x < 88:
			return "p:" + pairsTok(sortedPairs(someMeta()))
		default:
			return "d:" + keys[r.Intn(3)]
		}
	}
	n := r.Intn(3)
	for i := 0; i < n; i++ {
		if r.Chance(30) {
			k.steps = append(k.steps, "e:"+varop())
		} else {
			k.steps = append(k.steps, "c:"+varop())
		}
	}
	if n == 0 || r.Chance(65) {
		k.steps = append(k.steps, "t:"+varop())
	}
	return k
}

func runPsStream(c *hx.Ctx) {
	for _, k := range psBoundary() {
		emitPs(c, k)
		c.Count("ps.boundary")
	}
	for i := 0; i < c.N(220, 1200); i++ {
		emitPs(c, genPsCase(c))
	}
}
