//go:build verif

package px

// proxy8: holding the worker INSIDE the upstream sender. The call that completes the request of an attempt (AppendData /
// AppendTrailers / AppendHeaders with end of stream) is made by the worker after onUpstreamRequestSent armed the per-try and
// the global timer (downStream.receiveData / receiveTrailers); a codec may block there (a full write buffer). While the
// worker sits in that call the harness can deliver an upstream reset and let the per-try timer fire — two events with NO
// worker step between them, the schedule `XP<k>:<reason>` of harness/dsx — and then let the call return.

import (
	"sync"
	"time"
)

type upHold struct {
	idx     int
	entered chan struct{}
	release chan struct{}
	once    sync.Once
	at      time.Time // when the worker entered the held call (valid once entered is closed)
}

var upHolds sync.Map // *Fixture -> *upHold

// ArmUpHold makes the call that completes the request of attempt idx of this fixture's next exchange block (after it was
// recorded) until ReleaseUp. Requests without body and trailers complete with AppendHeaders, BEFORE the timers are armed:
// arm only for requests with a body or trailers.
func (f *Fixture) ArmUpHold(idx int) {
	upHolds.Store(f, &upHold{idx: idx, entered: make(chan struct{}), release: make(chan struct{})})
}

// WaitUpHeld waits until the worker sits in the held call.
func (f *Fixture) WaitUpHeld(d time.Duration) bool {
	v, ok := upHolds.Load(f)
	if !ok {
		return false
	}
	select {
	case <-v.(*upHold).entered:
		return true
	case <-time.After(d):
		return false
	}
}

// UpHeldFor is the time the worker has been sitting in the held call (0 when it is not there).
func (f *Fixture) UpHeldFor() time.Duration {
	v, ok := upHolds.Load(f)
	if !ok {
		return 0
	}
	h := v.(*upHold)
	select {
	case <-h.entered:
		return time.Since(h.at)
	default:
		return 0
	}
}

// ReleaseUp lets the held call return (idempotent) and disarms the hold.
func (f *Fixture) ReleaseUp() {
	if v, ok := upHolds.LoadAndDelete(f); ok {
		h := v.(*upHold)
		h.once.Do(func() { close(h.release) })
	}
}

// afterUpSend is called by the upstream sender at the end of AppendData / AppendTrailers.
func (a *Attempt) afterUpSend(end bool) {
	if !end || a.ex == nil {
		return
	}
	v, ok := upHolds.Load(a.ex.f)
	if !ok {
		return
	}
	h := v.(*upHold)
	if h.idx != a.Index {
		return
	}
	select {
	case <-h.entered:
		return // already used
	default:
	}
	h.at = time.Now()
	close(h.entered)
	select {
	case <-h.release:
	case <-time.After(2 * time.Second): // never leave a worker behind
	}
}
