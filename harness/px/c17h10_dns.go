package px

// [c17h10] helpers for the auto_host_rewrite branch of finalizeRequestHeaders: a cluster of another type (STRICT_DNS)
// whose hosts carry chosen hostnames, and reading a context variable of an upstream attempt.

import (
	"context"
	"fmt"

	"mosn.io/api"
	v2 "mosn.io/mosn/pkg/config/v2"
	"mosn.io/mosn/pkg/types"
	"mosn.io/pkg/variable"
)

// Retype re-registers the logical cluster with the given type (the cluster manager builds the cluster object of that
// type: STRICT_DNS = strictDnsCluster; its hosts are IP addresses, so no resolver is started) and gives its hosts the
// given hostnames (same addresses as before). Call before the first Request.
func (f *Fixture) Retype(logical string, t v2.ClusterType, hostnames []string) {
	for ci, c := range f.cfg.Clusters {
		if c.Name != logical {
			continue
		}
		vc := v2.Cluster{Name: f.prefix + c.Name, ClusterType: t, LbType: c.LB}
		if vc.LbType == "" {
			vc.LbType = v2.LB_ROUNDROBIN
		}
		if err := f.cm.AddOrUpdatePrimaryCluster(vc); err != nil {
			panic(fmt.Sprintf("px: retype cluster %s: %v", c.Name, err))
		}
		var hosts []v2.Host
		for hi, hn := range hostnames {
			hosts = append(hosts, v2.Host{HostConfig: v2.HostConfig{Address: f.hostAddr(ci, hi), Hostname: hn, Weight: 1}})
		}
		if err := f.cm.UpdateClusterHosts(vc.Name, hosts); err != nil {
			panic(fmt.Sprintf("px: hosts of %s: %v", c.Name, err))
		}
		if snap := f.cm.GetClusterSnapshot(context.Background(), vc.Name); snap != nil {
			snap.HostSet().Range(func(h types.Host) bool {
				h.ClearHealthFlag(api.FAILED_ACTIVE_HC)
				return true
			})
		}
		return
	}
	panic("px: Retype: unknown cluster " + logical)
}

// CtxString reads a string variable from the context the attempt's stream was created with (the downstream stream
// context: what the upstream codec reads when it builds the request).
func (a *Attempt) CtxString(name string) (string, bool) {
	v, err := variable.GetString(a.ctx, name)
	if err != nil {
		return "", false
	}
	return v, true
}
