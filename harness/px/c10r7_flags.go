//go:build verif

package px

// c10r7: stream filters that set REQUEST-INFO FLAGS through the public filter API (handler.RequestInfo().Set…), and the
// gauges the ledger of C10 compares beside Fixture.Ledger(): the proxy-GLOBAL downstream request_active gauge and the
// per-HOST upstream request_active gauge.
//
// Flags (what api.RequestInfo lets a filter write and the metrics / access-log code of pkg/proxy reads):
//
//	hc  SetHealthCheck(true)                 requestMetrics branches on IsHealthCheck()
//	rf  SetResponseFlag(api.RateLimited)     a member of types.MosnProcessFailedFlags: isRequestFailed()
//	rc  SetResponseCode(599)                 DownstreamUpdateRequestCode / UpstreamResponseFailed branch on ResponseCode()
//	pr  SetProtocol("c10r7-other")           protocol override of the request info
//	of  SetResponseFlag(api.UpstreamOverflow) a response flag outside MosnProcessFailedFlags

import (
	"strings"
	"sync"

	"mosn.io/api"
	"mosn.io/mosn/pkg/metrics"
	"mosn.io/mosn/pkg/types"
)

// C10r7ApplyFlags writes the '+'-separated flag list to a request info.
func C10r7ApplyFlags(info api.RequestInfo, flags string) {
	if info == nil {
		return
	}
	for _, fl := range strings.Split(flags, "+") {
		switch fl {
		case "hc":
			info.SetHealthCheck(true)
		case "rf":
			info.SetResponseFlag(api.RateLimited)
		case "rc":
			info.SetResponseCode(599)
		case "pr":
			info.SetProtocol(api.ProtocolName("c10r7-other"))
		case "of":
			info.SetResponseFlag(api.UpstreamOverflow)
		}
	}
}

// C10r7FlagFilter is a scripted filter of the given phase that sets the flags the REQUEST asks for: the flag list is read
// from the request header "x-c10r7-<letter of the phase>" (absent / "-" = nothing), so one fixture serves requests with
// different flag sets (the sender filter applies the list of header "x-c10r7-s", noted by the receiver filters). With header "x-c10r7-hijack" = "<letter>" the filter of that (receiver) phase then answers the
// request itself (SendHijackReply(403)) and stops the chain.
func C10r7FlagFilter(ph Phase) Filter {
	return Filter{Phase: ph, Script: []Verdict{{Do: func(ex *Exchange, rh api.StreamReceiverFilterHandler, sh api.StreamSenderFilterHandler) {
		get := func(k string) string {
			if rh != nil {
				if hd := rh.GetRequestHeaders(); hd != nil {
					v, _ := hd.Get(k)
					return v
				}
			}
			return ""
		}
		if rh != nil {
			if fl := get("x-c10r7-" + ph.letter()); fl != "" && fl != "-" {
				C10r7ApplyFlags(rh.RequestInfo(), fl)
			}
			if fl := get("x-c10r7-s"); fl != "" && fl != "-" { // what the sender filter of this request will set
				c10r7Send.Store(ex, fl)
			}
			if get("x-c10r7-hijack") == ph.letter() {
				rh.SendHijackReply(403, rh.GetRequestHeaders())
			}
			return
		}
		if sh != nil {
			if v, ok := c10r7Send.Load(ex); ok {
				if fl := v.(string); fl != "" && fl != "-" {
					C10r7ApplyFlags(sh.RequestInfo(), fl)
				}
			}
		}
	}}}}
}

// C10r7Forget drops the per-exchange state of this file.
func (ex *Exchange) C10r7Forget() { c10r7Send.Delete(ex) }

var c10r7Send sync.Map // *Exchange -> flag list of the sender filter

// C10r7GlobalDownActive reads the proxy-global downstream request_active gauge (shared by every fixture of the process).
func C10r7GlobalDownActive() int64 {
	return metrics.NewProxyStats(types.GlobalProxyName).Counter(metrics.DownstreamRequestActive).Count()
}

// C10r7ListenerDownActive reads the raw listener gauge of the fixture.
func (f *Fixture) C10r7ListenerDownActive() int64 { return f.rawDown() - f.baseDown }

// C10r7HostUpActive sums the per-host upstream request_active gauges of a logical cluster.
func (f *Fixture) C10r7HostUpActive(logical string) int64 {
	snap := f.Snapshot(logical)
	if snap == nil {
		return 0
	}
	var n int64
	snap.HostSet().Range(func(h types.Host) bool {
		n += h.HostStats().UpstreamRequestActive.Count()
		return true
	})
	return n
}
