//go:build verif

package px

// proxy3 growth slice of the shared downstream machine:
//
//   - answer tokens: every downstream sender call records the token of the answer the written part belongs to
//     (Exchange.DownToks, parallel to the dh / dd / dt trace events): response headers carrying "x-tok: a<k>", a body
//     "a<k>" and trailers "rt: a<k>" are attempt k's (AnswerOf builds them), anything else is a reply MOSN generated
//     itself ("l"); an absent part is "-".
//   - in-flight responses: Attempt.RespondInFlight delivers receiver.OnReceive for a client stream the PROXY has already
//     reset — a response frame that was past the codec's stream-table lookup when the reset came. Attempt.OnProxyReset
//     registers a callback that runs inside upstreamRequest.resetStream() (at the end of the fake stream's ResetStream),
//     i.e. inside TerminateStream between its claim of the response slot and its local reply.
//   - stale handlers: Exchange.TerminateSafe calls TerminateStream on the kept hidden handler also after the exchange
//     finished; Exchange.SharesStreamWith tells whether two exchanges run on the same pooled downStream object.

import (
	"fmt"
	"regexp"
	"sync"

	"mosn.io/api"
	"mosn.io/mosn/pkg/protocol"
	"mosn.io/mosn/pkg/proxy"
	"mosn.io/pkg/buffer"
)

// a<k>: upstream attempt k; f<i>: stream filter i (C14)
var attemptTok = regexp.MustCompile(`^[af][0-9]+$`)

func tokOfHeaders(h api.HeaderMap) string {
	if h == nil {
		return "-"
	}
	if v, ok := h.Get("x-tok"); ok && attemptTok.MatchString(v) {
		return v
	}
	return "l"
}

func tokOfBody(b buffer.IoBuffer) string {
	if b == nil {
		return "-"
	}
	if s := b.String(); attemptTok.MatchString(s) {
		return s
	}
	return "l"
}

func tokOfTrailers(h api.HeaderMap) string {
	if h == nil {
		return "-"
	}
	if v, ok := h.Get("rt"); ok && attemptTok.MatchString(v) {
		return v
	}
	return "l"
}

var downToks sync.Map // *Exchange -> *[]string (guarded by ex.mu)

func (ex *Exchange) noteDown(tok string) {
	ex.mu.Lock()
	defer ex.mu.Unlock()
	v, _ := downToks.LoadOrStore(ex, &[]string{})
	p := v.(*[]string)
	*p = append(*p, tok)
}

// DownToks returns the answer tokens of the downstream sender calls so far, in the order of the dh / dd / dt events.
func (ex *Exchange) DownToks() []string {
	ex.mu.Lock()
	defer ex.mu.Unlock()
	if v, ok := downToks.Load(ex); ok {
		return append([]string{}, *(v.(*[]string))...)
	}
	return nil
}

// ForgetProv drops the side tables of an exchange (call when the exchange is no longer used).
func (ex *Exchange) ForgetProv() {
	downToks.Delete(ex)
	ex.mu.Lock()
	as := append([]*Attempt{}, ex.attempts...)
	ex.mu.Unlock()
	for _, a := range as {
		resetHooks.Delete(a)
	}
}

// AnswerOf builds the parts of attempt k's response: headers carrying the token, and — when asked for — a body and
// trailers carrying it.
func AnswerOf(k int, withBody, withTrailers bool) (headers map[string]string, body []byte, trailers map[string]string) {
	tok := fmt.Sprintf("a%d", k)
	headers = map[string]string{"x-tok": tok}
	if withBody {
		body = []byte(tok)
	}
	if withTrailers {
		trailers = map[string]string{"rt": tok}
	}
	return
}

var resetHooks sync.Map // *Attempt -> func()

// OnProxyReset registers fn to run once, synchronously, at the end of the next ResetStream the PROXY issues on this
// attempt's client stream (upstreamRequest.resetStream): inside the caller of that reset. nil clears it.
func (a *Attempt) OnProxyReset(fn func()) {
	if fn == nil {
		resetHooks.Delete(a)
		return
	}
	resetHooks.Store(a, fn)
}

func (a *Attempt) afterProxyReset() {
	if v, ok := resetHooks.LoadAndDelete(a); ok {
		v.(func())()
	}
}

// RespondInFlight delivers a complete upstream response for a client stream that is no longer live because the PROXY reset
// it: the frame was already past the codec's stream-table lookup (in flight) when the reset came, so the receiver is still
// called. Nothing is left to destroy. The codec of this frame carries the status in the frame: the x-mosn-status variable
// is not republished. No-op for one-way or refused attempts and for a stream that is still live (use Respond).
func (a *Attempt) RespondInFlight(headers map[string]string, body []byte, trailers map[string]string) {
	if a.s == nil || a.receiver == nil || a.Live() {
		return
	}
	h := protocol.CommonHeader{}
	for k, v := range headers {
		h[k] = v
	}
	var data buffer.IoBuffer
	if body != nil {
		data = buffer.NewIoBufferBytes(append([]byte{}, body...))
	}
	var tr api.HeaderMap
	if trailers != nil {
		t := protocol.CommonHeader{}
		for k, v := range trailers {
			t[k] = v
		}
		tr = t
	}
	a.receiver.OnReceive(a.ctx, h, data, tr)
}

// TerminateSafe is Terminate with panics captured (a TerminateStream that wrongly goes ahead on a recycled object may
// dereference fields the pool has zeroed): ret = the call's return value, panicked = it panicked.
func (ex *Exchange) TerminateSafe(code int) (ret bool, panicked bool) {
	defer func() {
		if r := recover(); r != nil {
			ret, panicked = true, true
		}
	}()
	return ex.Terminate(code), false
}

// SharesStreamWith reports whether the hidden terminate handlers of two exchanges point at the same pooled downStream
// object (Config.TerminateHandle): `other` runs on the object `ex` ran on before.
func (ex *Exchange) SharesStreamWith(other *Exchange) bool {
	ex.mu.Lock()
	a := ex.termH
	ex.mu.Unlock()
	other.mu.Lock()
	b := other.termH
	other.mu.Unlock()
	if a == nil || b == nil {
		return false
	}
	return proxy.VerifSameStream(a, b)
}

// HandlerStale reports whether the object of this exchange's kept handler has been handed to a later request.
func (ex *Exchange) HandlerStale() bool {
	ex.mu.Lock()
	a := ex.termH
	ex.mu.Unlock()
	return a != nil && proxy.VerifHandlerStale(a)
}
