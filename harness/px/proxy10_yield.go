//go:build verif

package px

// proxy10: gates at the yield sites of the downstream worker goroutine (pkg/proxy/verif_yield_retry.go):
//   - inside downStream.setupRetry, after the given-up upstream request was marked and (second site) after
//     upstreamResponseReceived was swung back — the window in which a timer callback finds the mark and drops its reset;
//   - at the top of receive's phase loop, before the case of phase p runs — the granularity of the downstream machine's
//     labels: an event delivered while the worker sits there lands "between two worker steps" deterministically.
// A gate is armed for one site of one fixture; the first worker of that fixture that reaches the site blocks there (after the
// gate recorded that it entered) until Release. Never more than 2 s: a worker is not left behind.

import (
	"context"
	"sync"
	"sync/atomic"
	"time"

	"mosn.io/mosn/pkg/proxy"
	"mosn.io/mosn/pkg/types"
)

// yield sites (see pkg/proxy/verif_yield_retry.go)
const (
	SiteRetryMarked = proxy.VerifSiteRetryMarked
	SiteRetrySwung  = proxy.VerifSiteRetrySwung
)

// SitePhase is the site at the top of receive's loop for phase p.
func SitePhase(p types.Phase) int { return proxy.VerifSitePhase + int(p) }

// Gate blocks one worker at one yield site.
type Gate struct {
	site    int
	skip    int32 // passages of the site to let through before blocking
	entered chan struct{}
	release chan struct{}
	used    int32
	once    sync.Once
	Ex      *Exchange // the exchange whose worker entered (valid once Entered)
	At      time.Time // when it entered
}

type gateList struct {
	mu sync.Mutex
	l  []*Gate
}

var (
	p10Gates    sync.Map // *Fixture -> *gateList
	p10HookOnce sync.Once
)

func p10Dispatch(ctx context.Context, site int) {
	ex := exchangeOf(ctx)
	if ex == nil {
		return
	}
	v, ok := p10Gates.Load(ex.f)
	if !ok {
		return
	}
	gl := v.(*gateList)
	var hit *Gate
	gl.mu.Lock()
	for _, g := range gl.l {
		if g.site == site && atomic.LoadInt32(&g.used) == 0 {
			if g.skip > 0 {
				g.skip--
				break
			}
			if atomic.CompareAndSwapInt32(&g.used, 0, 1) {
				hit = g
				break
			}
		}
	}
	gl.mu.Unlock()
	if hit == nil {
		return
	}
	hit.Ex = ex
	hit.At = time.Now()
	close(hit.entered)
	select {
	case <-hit.release:
	case <-time.After(2 * time.Second):
	}
}

// ArmGate arms a gate at a yield site for the workers of this fixture (skip: passages of the site to let through first).
func (f *Fixture) ArmGate(site int, skip int) *Gate {
	p10HookOnce.Do(func() { proxy.VerifSetWorkerYield(p10Dispatch) })
	g := &Gate{site: site, skip: int32(skip), entered: make(chan struct{}), release: make(chan struct{})}
	v, _ := p10Gates.LoadOrStore(f, &gateList{})
	gl := v.(*gateList)
	gl.mu.Lock()
	gl.l = append(gl.l, g)
	gl.mu.Unlock()
	return g
}

// ForgetGates releases and drops every gate of the fixture.
func (f *Fixture) ForgetGates() {
	if v, ok := p10Gates.LoadAndDelete(f); ok {
		gl := v.(*gateList)
		gl.mu.Lock()
		for _, g := range gl.l {
			atomic.StoreInt32(&g.used, 1)
			g.Release()
		}
		gl.mu.Unlock()
	}
}

// WaitEntered waits up to d until a worker sits in the gate.
func (g *Gate) WaitEntered(d time.Duration) bool {
	select {
	case <-g.entered:
		return true
	case <-time.After(d):
		return false
	}
}

// Entered reports whether a worker sits in (or has passed) the gate.
func (g *Gate) Entered() bool {
	select {
	case <-g.entered:
		return true
	default:
		return false
	}
}

// Disarm makes a gate that no worker has entered yet inert; returns false when a worker is already in it.
func (g *Gate) Disarm() bool { return atomic.CompareAndSwapInt32(&g.used, 0, 1) }

// Release lets the held worker continue (idempotent).
func (g *Gate) Release() { g.once.Do(func() { close(g.release) }) }
