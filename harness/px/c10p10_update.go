//go:build verif

package px

import (
	"mosn.io/mosn/pkg/types"
)

// c10p10: access to the REAL cluster manager of a fixture and to the address of a fixture host, for histories that update a
// cluster at runtime (AddOrUpdatePrimaryCluster / AddOrUpdateClusterAndHost) while requests are in flight.

// CM returns the real cluster manager (the process singleton) the fixture's clusters live in.
func (f *Fixture) CM() types.ClusterManager { return f.cm }

// HostAddr returns the address of host hi of cluster number ci (index in Config.Clusters).
func (f *Fixture) HostAddr(ci, hi int) string { return f.hostAddr(ci, hi) }
