//go:build verif

package px

// c03w10: a downstream sender whose writes FAIL (C03: the reply write path can fail).
//
// A real codec's AppendHeaders / AppendData / AppendTrailers fails when the reply cannot be encoded or the connection is
// closing under the write; the server stream is then not ended by the codec. Fixture.RequestFailing starts a request whose
// recording sender fails the parts named in a FailPlan (the call is recorded like every call, followed by a `wf:<part>`
// token, and returns an error WITHOUT destroying the server stream) and — ResetIn — delivers the client's reset of the
// downstream stream (BaseStream.ResetStream(StreamConnectionTermination): the proxy's OnResetStream) from INSIDE that
// call, on the worker's goroutine, before the call returns: the reset lands between the write and whatever the proxy does
// after it (endStream, the next part, processError).

import (
	"context"
	"errors"
	"fmt"
	"time"

	"mosn.io/api"
	"mosn.io/mosn/pkg/protocol"
	"mosn.io/mosn/pkg/types"
	"mosn.io/pkg/buffer"
	"mosn.io/pkg/variable"
)

// FailPlan scripts the downstream sender of one exchange.
type FailPlan struct {
	FailH, FailD, FailT bool // AppendHeaders / AppendData / AppendTrailers return an error
	// ResetIn: 'h' | 'd' | 't': the client's reset of the downstream stream is delivered from inside that call;
	// 'H' | 'D' | 'T': the close event of the downstream connection (proxy.onDownstreamEvent) is delivered from inside it; 0 = never
	ResetIn byte
}

var errWriteFailed = errors.New("px: scripted write failure")

type failSender struct {
	*downSender
	plan FailPlan
}

func (s *failSender) resetInside(part byte) {
	if s.plan.ResetIn == part {
		s.downSender.peerReset(types.StreamConnectionTermination)
	}
	if s.plan.ResetIn == part-'a'+'A' {
		s.downSender.ex.f.ConnClose()
	}
}

func (s *failSender) AppendHeaders(ctx context.Context, headers api.HeaderMap, end bool) error {
	if !s.plan.FailH {
		err := s.downSender.AppendHeaders(ctx, headers, end)
		s.resetInside('h')
		return err
	}
	d := s.downSender
	d.ex.noteDown(tokOfHeaders(headers))
	d.ex.add(fmt.Sprintf("dh:%s:%d", d.status(ctx), b2i(end)))
	d.ex.add("wf:h")
	s.resetInside('h')
	return errWriteFailed
}

func (s *failSender) AppendData(ctx context.Context, data buffer.IoBuffer, end bool) error {
	if !s.plan.FailD {
		err := s.downSender.AppendData(ctx, data, end)
		s.resetInside('d')
		return err
	}
	d := s.downSender
	n := 0
	if data != nil {
		n = data.Len()
	}
	d.ex.noteDown(tokOfBody(data))
	d.ex.add(fmt.Sprintf("dd:%d:%d", n, b2i(end)))
	d.ex.add("wf:d")
	s.resetInside('d')
	return errWriteFailed
}

func (s *failSender) AppendTrailers(ctx context.Context, trailers api.HeaderMap) error {
	if !s.plan.FailT {
		err := s.downSender.AppendTrailers(ctx, trailers)
		s.resetInside('t')
		return err
	}
	d := s.downSender
	d.ex.noteDown(tokOfTrailers(trailers))
	d.ex.add("dt")
	d.ex.add("wf:t")
	s.resetInside('t')
	return errWriteFailed
}

// RequestFailing is Request with the failing downstream sender.
func (f *Fixture) RequestFailing(headers map[string]string, body []byte, trailers map[string]string, plan FailPlan) *Exchange {
	ex := &Exchange{f: f, calls: map[int]int{}}
	sctx := buffer.NewBufferPoolContext(variable.NewVariableContext(f.ctx))
	sctx = context.WithValue(sctx, exKey{}, ex)
	ex.ctx = sctx
	hdr := protocol.CommonHeader{}
	for k, v := range headers {
		hdr[k] = v
	}
	setVar := func(h, name string) {
		if v, ok := headers[h]; ok {
			_ = variable.SetString(sctx, name, v)
		}
	}
	setVar(":path", types.VarPath)
	setVar(":path", types.VarPathOriginal)
	setVar(":authority", types.VarHost)
	setVar(":method", types.VarMethod)
	setVar(":scheme", types.VarScheme)
	setVar(":query", types.VarQueryString)
	for k, v := range f.cfg.Vars {
		if s, ok := v.(string); ok {
			_ = variable.SetString(sctx, k, s)
		} else {
			_ = variable.Set(sctx, k, v)
		}
	}
	f.mu.Lock()
	f.exchanges = append(f.exchanges, ex)
	f.mu.Unlock()

	ex.down = &downSender{ex: ex}
	var sender types.StreamSender = &failSender{downSender: ex.down, plan: plan}
	ex.start = time.Now()
	ex.recv = f.sscl.NewStreamDetect(sctx, sender, nil)
	var data buffer.IoBuffer
	if body != nil {
		data = buffer.NewIoBufferBytes(append([]byte{}, body...))
	}
	var tr api.HeaderMap
	if trailers != nil {
		t := protocol.CommonHeader{}
		for k, v := range trailers {
			t[k] = v
		}
		tr = t
	}
	ex.recv.OnReceive(sctx, hdr, data, tr)
	return ex
}
