//go:build verif

package px

import (
	"context"
	"fmt"

	"mosn.io/api"
	"mosn.io/mosn/pkg/protocol"
	"mosn.io/pkg/buffer"
)

const filterType = "px_scripted"

// createFilterFactory is the api.StreamFilterFactoryCreator of the scripted filter type; the config carries the
// fixture slot and the filter index (-1 = hidden terminate handle).
func createFilterFactory(conf map[string]interface{}) (api.StreamFilterChainFactory, error) {
	slot, ok1 := toInt(conf["slot"])
	idx, ok2 := toInt(conf["index"])
	if !ok1 || !ok2 {
		return nil, fmt.Errorf("px_scripted: bad config %v", conf)
	}
	return &filterFactory{slot: slot, index: idx}, nil
}

func toInt(v interface{}) (int, bool) {
	switch x := v.(type) {
	case int:
		return x, true
	case int64:
		return int(x), true
	case float64:
		return int(x), true
	}
	return 0, false
}

type filterFactory struct{ slot, index int }

func (ff *filterFactory) CreateFilterChain(ctx context.Context, cb api.StreamFilterChainFactoryCallbacks) {
	ex := exchangeOf(ctx)
	f := fixtureBySlot(ff.slot)
	if ex == nil || f == nil {
		return
	}
	if ff.index < 0 {
		cb.AddStreamReceiverFilter(&scripted{ex: ex, index: -1}, api.BeforeRoute)
		return
	}
	spec := f.cfg.Filters[ff.index]
	sf := &scripted{ex: ex, index: ff.index, spec: spec}
	switch spec.Phase {
	case BeforeRoute:
		cb.AddStreamReceiverFilter(sf, api.BeforeRoute)
	case AfterRoute:
		cb.AddStreamReceiverFilter(sf, api.AfterRoute)
	case AfterChooseHost:
		cb.AddStreamReceiverFilter(sf, api.AfterChooseHost)
	case Send:
		cb.AddStreamSenderFilter(sf, api.BeforeSend)
	}
}

// scripted is both a receiver and a sender filter.
type scripted struct {
	ex    *Exchange
	index int
	spec  Filter
	rh    api.StreamReceiverFilterHandler
	sh    api.StreamSenderFilterHandler
}

func (s *scripted) OnDestroy() {
	if s.index >= 0 {
		s.ex.add(fmt.Sprintf("fx:%d", s.index))
	}
}

func (s *scripted) SetReceiveFilterHandler(h api.StreamReceiverFilterHandler) {
	s.rh = h
	if s.index < 0 {
		s.ex.mu.Lock()
		s.ex.termH = h
		s.ex.mu.Unlock()
	}
}

func (s *scripted) SetSenderFilterHandler(h api.StreamSenderFilterHandler) { s.sh = h }

func (s *scripted) verdict() Verdict {
	s.ex.mu.Lock()
	n := s.ex.calls[s.index]
	s.ex.calls[s.index] = n + 1
	s.ex.mu.Unlock()
	if len(s.spec.Script) == 0 {
		return Verdict{Status: api.StreamFilterContinue}
	}
	if n >= len(s.spec.Script) {
		n = len(s.spec.Script) - 1
	}
	v := s.spec.Script[n]
	if v.Status == "" {
		v.Status = api.StreamFilterContinue
	}
	return v
}

func (s *scripted) OnReceive(ctx context.Context, headers api.HeaderMap, buf buffer.IoBuffer, trailers api.HeaderMap) api.StreamFilterStatus {
	if s.index < 0 {
		return api.StreamFilterContinue
	}
	s.ex.add(fmt.Sprintf("f:%d:%s", s.index, s.spec.Phase.letter()))
	v := s.verdict()
	if v.Hijack != 0 {
		hh := headers
		if v.ReplyHeaders != nil {
			hh = protocol.CommonHeader(v.ReplyHeaders)
		}
		if v.HijackBody != "" {
			s.rh.SendHijackReplyWithBody(v.Hijack, hh, v.HijackBody)
		} else {
			s.rh.SendHijackReply(v.Hijack, hh)
		}
	}
	if v.Direct {
		dh := protocol.CommonHeader{}
		if v.ReplyHeaders != nil {
			dh = protocol.CommonHeader(v.ReplyHeaders)
		}
		s.rh.SendDirectResponse(dh, nil, nil)
	}
	if v.Do != nil {
		v.Do(s.ex, s.rh, nil)
	}
	return v.Status
}

func (s *scripted) Append(ctx context.Context, headers api.HeaderMap, buf buffer.IoBuffer, trailers api.HeaderMap) api.StreamFilterStatus {
	s.ex.add(fmt.Sprintf("fs:%d", s.index))
	v := s.verdict()
	if v.Do != nil {
		v.Do(s.ex, nil, s.sh)
	}
	return v.Status
}
