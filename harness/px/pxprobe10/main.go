//go:build verif

// proxy10 probe (development aid): events landing inside setupRetry on the real proxy core.
package main

import (
	"fmt"
	"time"

	v2 "mosn.io/mosn/pkg/config/v2"
	"mosn.io/mosn/pkg/types"
	"verif/harness/px"
)

func main() {
	const G = 120 * time.Millisecond
	mk := func() *px.Fixture {
		return px.New(px.Config{
			Clusters:        []px.Cluster{{Name: "c", Hosts: 1}},
			Routes:          []v2.Router{px.Route("/", "c", px.Timeout(G), px.Retry(true, 2, 0))},
			TerminateHandle: true,
		})
	}
	for _, site := range []int{px.SiteRetryMarked, px.SiteRetrySwung} {
		for _, trig := range []string{"X", "R"} {
			for _, tail := range []string{"", "R200"} {
				f := mk()
				g := f.ArmGate(site, 0)
				ex := f.Request(px.H(":path", "/a", ":authority", "svc"), nil, nil)
				a0 := ex.WaitAttempt(0)
				ex.WaitQuiescent()
				if trig == "X" {
					a0.Reset(types.StreamConnectionFailed)
				} else {
					a0.Respond(503, nil, nil, nil)
				}
				if !g.WaitEntered(200 * time.Millisecond) {
					fmt.Println("gate not entered")
				}
				ex.SleepUntil(a0.Created + G + 10*time.Millisecond) // the global timer fires while the worker sits in setupRetry
				g.Release()
				ex.WaitQuiescentFor(30 * time.Millisecond)
				if tail == "R200" {
					if as := ex.UpstreamAttempts(); len(as) > 1 && as[1].Live() {
						as[1].Respond(200, nil, nil, nil)
						ex.WaitQuiescentFor(30 * time.Millisecond)
					}
				}
				time.Sleep(150 * time.Millisecond)
				fmt.Printf("GT in setupRetry site=%d trigger=%s tail=%s: %v done=%v ledger %s\n", site, trig, tail, ex.Trace(), ex.Done(), f.Ledger())
				f.ForgetGates()
				f.Close()
			}
		}
	}
	// TerminateStream inside setupRetry
	for _, site := range []int{px.SiteRetryMarked, px.SiteRetrySwung} {
		f := mk()
		g := f.ArmGate(site, 0)
		ex := f.Request(px.H(":path", "/a", ":authority", "svc"), nil, nil)
		a0 := ex.WaitAttempt(0)
		ex.WaitQuiescent()
		a0.Reset(types.StreamConnectionFailed)
		g.WaitEntered(200 * time.Millisecond)
		tm := ex.Terminate(418)
		g.Release()
		ex.WaitQuiescentFor(30 * time.Millisecond)
		if as := ex.UpstreamAttempts(); len(as) > 1 && as[1].Live() {
			as[1].Respond(200, nil, nil, nil)
			ex.WaitQuiescentFor(30 * time.Millisecond)
		}
		time.Sleep(200 * time.Millisecond)
		fmt.Printf("TM in setupRetry site=%d: tm=%v %v done=%v ledger %s\n", site, tm, ex.Trace(), ex.Done(), f.Ledger())
		f.ForgetGates()
		f.Close()
	}
}
