package px

// [c17pt] which timers a request holds (per-try timer armed for the outstanding attempt?) and whether its global timer
// has fired — read through the verif hook of pkg/proxy from the downStream the exchange runs on.

import "mosn.io/mosn/pkg/proxy"

// TimerState reports (a per-try timer object is held, the global timer's callback has run). ok is false when the
// exchange has no downStream listener.
func (ex *Exchange) TimerState() (perTryHeld, globalExpired, ok bool) {
	if ex.recv == nil {
		return false, false, false
	}
	p, _, g, ok := proxy.VerifTimerState(ex.recv)
	return p, g, ok
}
